(* Correspondence with M3 (Conn/Sem3.v): the transport refuses writes by a schedule, localize()
   may suspend.  The implementation is compared with the model on: every frame the client received
   completely (instant of completion, id, body), every adapter call started (instant, arguments -
   abandoned ones included), the end (instant, outcome; a handler hanging in a write has none),
   and the bytes the transport accepted per instant.  The property monitors are evaluated on the
   implementation's own observation, aligned with the model's run. *)
From Passage Require Import Lib.Bytes Codec.VarInt Codec.Desc Gen.PacketsGen Gen.ConstsGen Codec.PacketCheck
  Conn.Types Conn.Prog Conn.Sem1 Conn.Reader Conn.Sem2 Conn.Sem3 Conn.Monitor Conn.Order Conn.Checks Conn.Switch
  Run.CaseConn.

Definition case_out3 (c : conn_case) : list oev :=
  run3 (case_oracles c) (cc_cfg c) (case_env c) (fun p vs => enc (mkinds p) vs) (cc_loclat c) None (cc_wsched c) (cc_segs c).

(* bytes accepted per instant *)
Fixpoint coalesce (l : list (Z * Z)) : list (Z * Z) :=
  match l with
  | [] => []
  | (t, n) :: r =>
      match coalesce r with
      | (t', n') :: r' => if t =? t' then (t, n + n') :: r' else (t, n) :: (t', n') :: r'
      | [] => [(t, n)]
      end
  end.
Fixpoint zz_eqb (a b : list (Z * Z)) : bool :=
  match a, b with
  | [], [] => true
  | (x, y) :: a', (x', y') :: b' => (x =? x') && (y =? y') && zz_eqb a' b'
  | _, _ => false
  end.
Definition nonzero (l : list (Z * Z)) : list (Z * Z) := filter (fun x => negb (snd x =? 0)) l.

(* the instant at which the byte with this (1-based) offset was accepted *)
Fixpoint accepted_at (acc : Z) (w : list (Z * Z)) (off : Z) : option Z :=
  match w with
  | [] => None
  | (t, n) :: r => if off <=? acc + n then Some t else accepted_at (acc + n) r off
  end.
(* frames in the order they were queued -> the ones that were delivered completely, with the instant *)
Fixpoint delivered (w : list (Z * Z)) (off : Z) (frames : list (Z * Z * bytes)) : list (Z * Z * bytes) :=
  match frames with
  | [] => []
  | (_, id, body) :: r =>
      let e := off + wire_len id body in
      match accepted_at 0 w e with
      | Some t => (t, id, body) :: delivered w e r
      | None => []
      end
  end.

Definition corr_conn3 (c : conn_case) : Z :=
  let out := case_out3 c in
  let tr := trace_of out in
  match tr_sent tr with
  | None => 4
  | Some ms =>
      let w := map (fun x => (fst x, Z.of_nat (length (snd x)))) (wire_of out) in
      if sent_eqb (delivered w 0 ms) (cc_sent c)
         && calls_eqb (calls_of out) (cc_calls c)
         && match tr_end tr with
            | Some (t, o) => outcome_eqb o (cc_outcome c) && (t =? cc_end c)
            | None => outcome_eqb (cc_outcome c) OHang
            end
         && zz_eqb (coalesce (nonzero w)) (coalesce (nonzero (cc_wire c)))
      then 0 else 1
  end.
Definition corr_diag3 (c : conn_case) : Z :=
  let out := case_out3 c in
  let tr := trace_of out in
  let w := map (fun x => (fst x, Z.of_nat (length (snd x)))) (wire_of out) in
  (match tr_sent tr with Some ms => if sent_eqb (delivered w 0 ms) (cc_sent c) then 0 else 1 | None => 1 end)
  + (if calls_eqb (calls_of out) (cc_calls c) then 0 else 2)
  + (match tr_end tr with
     | Some (t, o) => (if outcome_eqb o (cc_outcome c) then 0 else 4) + (if t =? cc_end c then 0 else 8)
     | None => if outcome_eqb (cc_outcome c) OHang then 0 else 12 end)
  + (if zz_eqb (coalesce (nonzero w)) (coalesce (nonzero (cc_wire c))) then 0 else 16).

(* the observation without the adapter calls that were abandoned (started, dropped by the race
   before they answered: the handler never saw a result) *)
Fixpoint drop_abandoned (ab : list (Z * call)) (ord : list Z) (calls : list (Z * call)) : list Z * list (Z * call) :=
  match ord with
  | [] => ([], calls)
  | k :: ord' =>
      if k =? 0 then let (o, cs) := drop_abandoned ab ord' calls in (k :: o, cs)
      else match calls with
           | [] => ([], [])
           | (t, cl) :: calls' =>
               match ab with
               | (ta, ca) :: ab' =>
                   if (t =? ta) && call_eqb cl ca then drop_abandoned ab' ord' calls'
                   else let (o, cs) := drop_abandoned ab ord' calls' in (k :: o, (t, cl) :: cs)
               | [] => let (o, cs) := drop_abandoned ab ord' calls' in (k :: o, (t, cl) :: cs)
               end
           end
  end.

Definition obs_trace3 (c : conn_case) : list tev :=
  let out := case_out3 c in
  let status := intent_of c =? 0 in
  let sends := obs_sends status false (cc_sent c) in
  let (ord, calls) := drop_abandoned (abandoned_of out) (cc_order c) (cc_calls c) in
  let obs := merge_obs c ord sends calls None ++ [TEnd (cc_outcome c)] in
  hybrid (untime (trace_of out)) obs.

(* every monitor of the connection properties at once, on the implementation's observation *)
Definition monitors3 (c : conn_case) : bool :=
  let tr := obs_trace3 c in
  let o := case_oracles c in let cfg := cc_cfg c in
  accepts (step_with (chk_c01 o cfg)) m_init tr
  && accepts (step_with (chk_c02 o cfg)) m_init tr
  && accepts (step_with chk_c03) m_init tr
  && accepts (step_with chk_c06) m_init tr
  && accepts (step_with (chk_c10 o cfg)) m_init tr
  && switch_ok tr.

Definition check_conn3 (c : conn_case) : Z :=
  let k := corr_conn3 c in
  if k =? 4 then 4 else
  k + moni (monitors3 c
            && negb (outcome_eqb (cc_outcome c) (OErr KPanic))
            && negb (Z.testbit (cc_flags c) 1)
            && sends_wellformed c
            && obs_writes c).
