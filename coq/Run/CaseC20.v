(* Case record and checker for C20 (Agones discovery).  No proofs here.

   A case is one history as the mock Kubernetes API server of harness-k8s/src/bin/agones.rs
   played it to the real AgonesDiscoveryAdapter:
     - the GameServers the server held when the adapter started (the first list result),
     - then one record per scripted HTTP-level step: the step, the kube-level
       `watcher::Event`s that an independent second `kube::runtime::watcher` stream on the
       same mock produced during that step, and the result of the adapter's `discover()`
       after the step had been digested (sorted by identifier, metadata sorted by key).

   HTTP-level steps (what the API server did):
     HAdded / HModified / HDeleted g   one watch line {"type": ADDED|MODIFIED|DELETED, "object": g}
                                       on the live watch connections
     HBookmark                         one BOOKMARK line
     HDrop clean missed compact        `missed` changes happen without being delivered, then the
                                       watch connections end (clean = terminating chunk, otherwise
                                       torn in the middle of a chunk); the resumed watch replays the
                                       missed changes, or with compact = true is answered by
                                       {"type":"ERROR","object":{"code":410}} and the client re-lists
     HGone missed fails page           `missed` changes happen without being delivered, then a 410
                                       ERROR line on the live watch; the next `fails` list requests
                                       are answered 500; lists are served in pages of `page` items
                                       (0 = one page)
   In every step the TRUTH of the API server afterwards is: latest object per name. *)
From Passage Require Import Lib.Bytes Lib.IpText Adapters.Agones.

Inductive hchange := HSet (g : gs) | HDel (n : bytes).

Inductive hstep :=
| HAdded (g : gs)
| HModified (g : gs)
| HDeleted (g : gs)
| HBookmark
| HDrop (clean : bool) (missed : list hchange) (compact : bool)
| HGone (missed : list hchange) (fails page : Z).

(* one observed target: identifier, `address.ip().to_string()`, `address.port()`, metadata *)
Record otarget := mkOT { o_id : bytes; o_ip : bytes; o_port : Z; o_meta : list (bytes * bytes) }.

Record c20obs := mkObs {
  ob_step    : hstep;
  ob_events  : list event;      (* kube-level events of this step (second watcher stream) *)
  ob_offered : list otarget;    (* discover() after the step *)
  ob_quiet   : bool             (* the harness saw both clients back on a live watch, at rest *)
}.

Inductive c20case :=
| C20 (initial : list gs) (init_events : list event) (init_offered : list otarget) (init_quiet : bool)
      (steps : list c20obs).

Definition corr (b : bool) : Z := if b then 0 else 1.
Definition moni (b : bool) : Z := if b then 0 else 2.

(* ------------------------------------------------------------------ truth of the HTTP history *)
(* the API server's store: name -> latest object, as an association list with unique keys *)
Definition store := list (bytes * gs).

Fixpoint st_set (n : bytes) (g : gs) (s : store) : store :=
  match s with
  | [] => [(n, g)]
  | (k, h) :: r => if beq n k then (n, g) :: r else (k, h) :: st_set n g r
  end.
Definition st_del (n : bytes) (s : store) : store := filter (fun kh => negb (beq n (fst kh))) s.

Definition st_observe (s : store) (g : gs) : store :=
  match g_name g with Some n => st_set n g s | None => s end.
Definition st_change (s : store) (c : hchange) : store :=
  match c with HSet g => st_observe s g | HDel n => st_del n s end.

Definition st_step (s : store) (h : hstep) : store :=
  match h with
  | HAdded g | HModified g => st_observe s g
  | HDeleted g => match g_name g with Some n => st_del n s | None => s end
  | HBookmark => s
  | HDrop _ missed _ => fold_left st_change missed s
  | HGone missed _ _ => fold_left st_change missed s
  end.

(* what has to be offered for a store: uses only `ready` and `convert` *)
Definition expected (s : store) : list atarget :=
  flat_map (fun kh => match offer (snd kh) with Some t => [t] | None => [] end) s.

(* ------------------------------------------------------------------ comparing with observations *)
Definition matches (t : atarget) (o : otarget) : bool :=
  beq (a_id t) (o_id o) && beq (show_ip (a_ip t)) (o_ip o) && (a_port t =? o_port o)
  && meta_eqb (a_meta t) (o_meta o).

Fixpoint nodupb (l : list bytes) : bool :=
  match l with
  | [] => true
  | x :: r => negb (existsb (beq x) r) && nodupb r
  end.

(* same set: the observed identifiers are pairwise distinct, as many observed as expected,
   every expected target is observed (model identifiers are distinct: C20_unique) *)
Definition same_set (exp : list atarget) (obs : list otarget) : bool :=
  nodupb (map o_id obs) && nodupb (map a_id exp)
  && (length exp =? length obs)%nat
  && forallb (fun t => existsb (matches t) obs) exp.

(* ------------------------------------------------------------------ the checker *)
(* walk the steps with the model cache (over the recorded kube events) and the HTTP store *)
Fixpoint walk (c : cache) (s : store) (steps : list c20obs) : Z * Z :=
  match steps with
  | [] => (0, 0)
  | o :: r =>
      let c' := fold_left cache_step (ob_events o) c in
      let s' := st_step s (ob_step o) in
      let '(m, p) := walk c' s' r in
      (Z.max m (corr (ob_quiet o && same_set (offered c') (ob_offered o))),
       Z.max p (moni (same_set (expected s') (ob_offered o))))
  end.

Definition check_c20 (c : c20case) : Z :=
  match c with
  | C20 initial init_events init_offered init_quiet steps =>
      let c0 := fold_left cache_step init_events cache0 in
      let s0 := fold_left st_observe initial [] in
      let '(m, p) := walk c0 s0 steps in
      Z.max m (corr (init_quiet && same_set (offered c0) init_offered))
      + Z.max p (moni (same_set (expected s0) init_offered))
  end.

(* the same walk with the pre-fix loop body: used to show that the model of the OLD code
   reproduces what the unpatched adapter does (not part of the verdict) *)
Fixpoint walk_old (l : list atarget) (steps : list c20obs) : bool :=
  match steps with
  | [] => true
  | o :: r => let l' := fold_left cache_step_old (ob_events o) l in
              same_set l' (ob_offered o) && walk_old l' r
  end.
Definition agrees_with_old (c : c20case) : bool :=
  match c with
  | C20 _ init_events init_offered _ steps =>
      let l0 := fold_left cache_step_old init_events [] in
      same_set l0 init_offered && walk_old l0 steps
  end.

(* ------------------------------------------------------------------ Examples *)
Definition ex_g (st : string) : gs :=
  mkGs (Some (str "gs-0")) (Some (mkStatus (str "10.0.0.1") [7777] (str st) [] [])) [] [].
Definition ex_o : otarget := mkOT (str "gs-0") (str "10.0.0.1") 7777 [(str "state", str "Ready")].

(* a correct adapter: code 0 *)
Example ex_check_ok :
  check_c20 (C20 [] [EInit; EInitDone] [] true
    [mkObs (HAdded (ex_g "Ready")) [EApply (ex_g "Ready")] [ex_o] true;
     mkObs (HDeleted (ex_g "Ready")) [EDelete (ex_g "Ready")] [] true]) = 0.
Proof. vm_compute. reflexivity. Qed.
(* the pre-fix behaviour (still offered after DELETED): model disagrees and monitor fails *)
Example ex_check_stale :
  check_c20 (C20 [] [EInit; EInitDone] [] true
    [mkObs (HAdded (ex_g "Ready")) [EApply (ex_g "Ready")] [ex_o] true;
     mkObs (HDeleted (ex_g "Ready")) [EDelete (ex_g "Ready")] [ex_o] true]) = 3.
Proof. vm_compute. reflexivity. Qed.
(* wrong data for the right identifier is a failure too *)
Example ex_check_wrong_port :
  check_c20 (C20 [ex_g "Ready"] [EInit; EInitApply (ex_g "Ready"); EInitDone]
               [mkOT (str "gs-0") (str "10.0.0.1") 7778 [(str "state", str "Ready")]] true []) = 3.
Proof. vm_compute. reflexivity. Qed.
