(* Case record and checker for C12 (client-chosen names cannot alter the session server
   request).  No proofs here, and no dependency on a proof file.

   One case = one real call of MojangAdapter::authenticate against the loopback mock of
   harness-net/src/bin/mojang.rs:
     server_id, name, secret, pubkey : the arguments of the call (name = the claimed user name)
     hash           : the real minecraft_hash(server_id, secret, pubkey), computed by the harness
     request_target : the bytes between "GET " and " HTTP/1.1" of the request line the mock
                      received; [] if the adapter returned without any request reaching it.

   +1 (correspondence): the model disagrees with the implementation, i.e. the model hash
      differs from [hash] or path+query of [request_url ..] differ from [request_target]
      (the model always makes a request, so an empty [request_target] is a disagreement).
   +2 (monitor): the property fails on the implementation's own request: [target_ok] with
      the claimed name and the SPEC hash (Spec/Sha1.v + Spec/SignedHex.v, not the model):
      visible ASCII only, no '#', the fixed path, well-formed escapes, exactly two
      parameters, one username decoding to the name and one serverId decoding to the hash.
      When no request was made at all the property holds trivially (nothing was asked). *)
From Passage Require Import Lib.Bytes Spec.Sha1 Spec.SignedHex Spec.FormUrl Crypto.McHash Adapters.MojangUrl.

Inductive c12case :=
| REQ (server_id name secret pubkey hash request_target : bytes).

Definition corr (b : bool) : Z := if b then 0 else 1.
Definition moni (b : bool) : Z := if b then 0 else 2.

Definition spec_hash (server_id secret pubkey : bytes) : bytes :=
  show_signed_hex (twos_complement_be (sha1 (server_id ++ secret ++ pubkey))).

Definition check_c12 (c : c12case) : Z :=
  match c with
  | REQ id name ss pk hash tgt =>
      if negb (wfb id && wfb name && wfb ss && wfb pk && wfb hash && wfb tgt) then 4 else
      corr (beq (minecraft_hash id ss pk) hash
            && beq (target (request_url id name ss pk)) tgt)
      + moni (match tgt with
              | [] => true
              | _ :: _ => target_ok name (spec_hash id ss pk) tgt
              end)
  end.

(* the checker on hand-made observations: what the repaired code sends (0), what the
   original interpolation sends for injection names (3), a wrong hash (3), a request that
   is semantically right but encoded differently from the model (1), no request (1) *)
Example check_ok : map check_c12
  [REQ [] (str "Notch") (str "jeb_") [] (str "-7c9d5b0044c130109a5d7b5fb5c317c02b4e28c1")
       (str "/session/minecraft/hasJoined?username=Notch&serverId=-7c9d5b0044c130109a5d7b5fb5c317c02b4e28c1");
   REQ (str "je") (str "Victim&serverId=abc") (str "b") (str "_") (str "-7c9d5b0044c130109a5d7b5fb5c317c02b4e28c1")
       (str "/session/minecraft/hasJoined?username=Victim%26serverId%3Dabc&serverId=-7c9d5b0044c130109a5d7b5fb5c317c02b4e28c1");
   REQ [] [] (str "jeb_") [] (str "-7c9d5b0044c130109a5d7b5fb5c317c02b4e28c1")
       (str "/session/minecraft/hasJoined?username=&serverId=-7c9d5b0044c130109a5d7b5fb5c317c02b4e28c1")]
  = [0; 0; 0].
Proof. vm_compute. reflexivity. Qed.
Example check_rejects : map check_c12
  [REQ [] (str "Victim&serverId=abc") (str "jeb_") [] (str "-7c9d5b0044c130109a5d7b5fb5c317c02b4e28c1")
       (str "/session/minecraft/hasJoined?username=Victim&serverId=abc&serverId=-7c9d5b0044c130109a5d7b5fb5c317c02b4e28c1");
   REQ [] (str "x#") (str "jeb_") [] (str "-7c9d5b0044c130109a5d7b5fb5c317c02b4e28c1")
       (str "/session/minecraft/hasJoined?username=x");
   REQ [] (str "a%26b") (str "jeb_") [] (str "-7c9d5b0044c130109a5d7b5fb5c317c02b4e28c1")
       (str "/session/minecraft/hasJoined?username=a%26b&serverId=-7c9d5b0044c130109a5d7b5fb5c317c02b4e28c1");
   REQ [] (str "Notch") (str "jeb_") [] (str "8362a4ffbb3ecfef65a284a04a3ce83fd4b1d73f")
       (str "/session/minecraft/hasJoined?username=Notch&serverId=8362a4ffbb3ecfef65a284a04a3ce83fd4b1d73f");
   REQ [] (str "a b") (str "jeb_") [] (str "-7c9d5b0044c130109a5d7b5fb5c317c02b4e28c1")
       (str "/session/minecraft/hasJoined?username=a%20b&serverId=-7c9d5b0044c130109a5d7b5fb5c317c02b4e28c1");
   REQ [] (str "Notch") (str "jeb_") [] (str "-7c9d5b0044c130109a5d7b5fb5c317c02b4e28c1") [];
   REQ [] [256] [] [] [] []]
  = [3; 3; 3; 3; 1; 1; 4].
Proof. vm_compute. reflexivity. Qed.
