(* Case record and checkers for the listener family (C14, C15, C16, C17): one run of the real
   accept loop (`Listener::listen`, mode 0, or `passage::start`, mode 1) on loopback TCP inside
   a paused tokio runtime, see harness-app/src/bin/listener.rs.  No proofs here.

   Times are virtual milliseconds since the start of the run.  Observed times are compared
   with the model only through windows: the harness keeps the paused clock from advancing by
   more than 1 ms per idle scheduler round, and every reaction of the server to a client
   action (or timer) takes a bounded number of rounds, so an observed time lies at most a few
   ms after the modelled one (largest distance measured over 5 000 cases: 14 ms, most of it the
   rounding of the nominal session lengths `nat`).  `slack` = 100 ms is an order
   of magnitude above that and below the smallest distance between two scripted events of
   different connections (110 ms); `early` = 5 ms allows for the 1 ms timer granularity. *)
From Passage Require Import Lib.Bytes Limiter.F32 Limiter.Bucket Limiter.Limiter
  Listener.Machine Listener.Wire.

Definition slack : Z := 100.
Definition early : Z := 5.
Definition probe_bound : Z := 200.          (* C16: arrival (+ header delay) -> pong received *)

(* what the client puts in front of its stream *)
Inductive lhdr :=
| LHNone                                     (* nothing *)
| LHFull (delay : Z) (cls : hdr) (oracle : option (option addr))
    (* complete bytes sent `delay` ms after connecting; `cls` by construction; `oracle` = what
       proxy_header::ProxyHeader::parse answered under the configured versions (None = Invalid) *)
| LHPartial (delay : Z) (eof : option Z).    (* a strict prefix of a valid header; then silence,
                                                or the client closes `eof` ms after connecting *)

Inductive beh :=
| BSilent | BDrip | BMidFrame
| BStopAt (k : Z)             (* login steps 1..k then silence; k >= 5: inside the configuration
                                 phase, keep-alives unanswered *)
| BStatus | BProbe
| BLogin (pace : Z) | BKaForever
| BBig (n : Z)                (* status handshake whose frame declares n bytes *)
| BCookie (age : Z) (good : bool)  (* auth cookie issued `age` s before now, right/wrong secret *)
| BLate
| BNoRead.                  (* a status request for a response far larger than every socket buffer, by a client that
                                does not read it until after the deadline *)

Inductive lcfg := LCfg (max expiry : Z) (secret : option bytes) (timeout : Z)
                       (lim : option (Z * Z)) (proxy : option (bool * bool)) (now : Z).
(* nat: nominal time (ms after being served) after which the session ends on its own *)
Inductive lconn := LC (id : Z) (peer : addr) (arrive : Z) (h : lhdr) (b : beh) (nat : option Z).
(* per connection: TCP connect succeeded, protocol bytes received, status response received,
   Transfer received, when the client saw the close, when it completed its exchange, the client
   address the adapters were called with (mode 1: the address in the issued auth cookie), the
   should_authenticate flag of the EncryptionRequest *)
Inductive lobs := LO (id : Z) (connected : bool) (nbytes : Z) (status transfer : bool)
                     (closed done : option Z) (seen : option addr) (flag : option bool).
Inductive lstcase :=
| LST (mode : Z) (cfg : lcfg) (conns : list lconn) (stop : option Z) (obs : list lobs)
      (ret : option Z) (endt : Z).

Definition corr (b : bool) : Z := if b then 0 else 1.
Definition moni (b : bool) : Z := if b then 0 else 2.

Definition addr_eqb (a b : addr) : bool := (fst a =? fst b) && (snd a =? snd b).
Definition oaddr_eqb (a b : option addr) : bool :=
  match a, b with Some x, Some y => addr_eqb x y | None, None => true | _, _ => false end.
Definition ooaddr_eqb (a b : option (option addr)) : bool :=
  match a, b with Some x, Some y => oaddr_eqb x y | None, None => true | _, _ => false end.
Definition in_window (lo hi t : Z) : bool := (lo <=? t) && (t <=? hi).
Definition isnone {A} (o : option A) : bool := match o with None => true | Some _ => false end.

Definition lc_id (c : lconn) : Z := match c with LC id _ _ _ _ _ => id end.
Definition lc_arrive (c : lconn) : Z := match c with LC _ _ a _ _ _ => a end.
Definition lo_id (o : lobs) : Z := match o with LO id _ _ _ _ _ _ _ _ => id end.
Fixpoint find_obs (id : Z) (l : list lobs) : option lobs :=
  match l with [] => None | o :: r => if lo_id o =? id then Some o else find_obs id r end.

(* ---- the limiter of the run: RateLimiter::new(Duration::from_secs(d), limit) at time 0 ---- *)
Definition lst_admit (lc : option (Z * Z)) (l : lstate) (k t : Z) : lstate * bool :=
  match lc with
  | None => (l, true)
  | Some (limit, d) => enqueue (Cfg limit (d * 1000000000)) l k (t * 1000000)
  end.

(* ---- the script as an event history ---- *)
Definition hdr_delay (h : lhdr) : Z := match h with LHFull d _ _ => d | _ => 0 end.
Definition conn_events (tmo : Z) (proxy : bool) (c : lconn) : list event :=
  match c with
  | LC id peer arr h b nat =>
      [Arrive id peer arr]
      ++ (if proxy then
            match h with
            | LHFull d cls _ => [Header id cls (arr + d)]
            | LHPartial _ (Some e) => [Header id HBad (arr + e)]      (* EOF inside the header *)
            | _ => []
            end
          else [])
      ++ (match nat with
          | Some n => [ConnDone id (arr + (if proxy then hdr_delay h else 0) + n)]
          | None => []
          end)
      ++ [Deadline id (arr + tmo)]
  end.
Fixpoint ins_ev (e : event) (l : list event) : list event :=
  match l with
  | [] => [e]
  | x :: r => if time_of e <? time_of x then e :: l else x :: ins_ev e r
  end.
Definition sort_ev (l : list event) : list event := fold_left (fun acc e => ins_ev e acc) l [].
Definition events (tmo : Z) (proxy : bool) (conns : list lconn) (stop : option Z) : list event :=
  sort_ev (flat_map (conn_events tmo proxy) conns ++ match stop with Some t => [Stop t] | None => [] end).

Definition model_run (cfg : lcfg) (conns : list lconn) (stop : option Z) : list (Z * output) :=
  match cfg with
  | LCfg _ _ _ tmo lim proxy _ =>
      run lstate (lst_admit lim) (MCfg proxy tmo) (init (linit 0))
          (events tmo (negb (isnone proxy)) conns stop)
  end.

Definition m_spawned (outs : list (Z * output)) (c : Z) : bool :=
  existsb (fun x => match snd x with Spawn c' => c' =? c | _ => false end) outs.
Fixpoint m_serve (outs : list (Z * output)) (c : Z) : option addr :=
  match outs with
  | [] => None
  | (_, Serve c' eff) :: r => if c' =? c then Some eff else m_serve r c
  | _ :: r => m_serve r c
  end.
Fixpoint m_close (outs : list (Z * output)) (c : Z) : option (Z * reason) :=
  match outs with
  | [] => None
  | (t, Close c' rs) :: r => if c' =? c then Some (t, rs) else m_close r c
  | _ :: r => m_close r c
  end.
Fixpoint m_return (outs : list (Z * output)) : option Z :=
  match outs with
  | [] => None
  | (t, Return) :: _ => Some t
  | _ :: r => m_return r
  end.
(* was the return triggered by a session that ended on its own (nominal time)? *)
Fixpoint m_return_nominal (prev : bool) (outs : list (Z * output)) : bool :=
  match outs with
  | [] => false
  | (_, Return) :: _ => prev
  | (_, Close _ RFinished) :: r => m_return_nominal true r
  | _ :: r => m_return_nominal false r
  end.

(* does the behaviour make a SERVED connection send at least one byte? *)
Definition elicits (max : Z) (b : beh) : bool :=
  match b with
  | BStatus | BProbe | BLogin _ | BKaForever | BCookie _ _ | BLate | BNoRead => true
  | BStopAt k => 2 <=? k
  | BBig n => frame_len_ok (wrap32 max) n
  | BSilent | BDrip | BMidFrame => false
  end.
(* behaviours whose own frames need a maximum of about 300 bytes to go through *)
Definition needs_room (b : beh) : bool :=
  match b with
  | BLogin _ | BKaForever | BCookie _ _ => true
  | BStopAt k => 3 <=? k
  | _ => false
  end.

Definition cookie_verdict (expiry now age : Z) (good : bool) : bool :=   (* must authenticate? *)
  negb (good && cookie_fresh expiry (now - age) now).

Definition close_window (r : reason) (tm t : Z) : bool :=
  match r with
  | RFinished => in_window (tm - slack) (tm + slack) t
  | _ => in_window (tm - early) (tm + slack) t
  end.

(* what a served connection must have observed, by behaviour *)
Definition served_ok (cfg : lcfg) (b : beh) (finished : bool) (o : lobs) : bool :=
  match cfg, o with
  | LCfg max expiry _ _ _ _ now, LO _ _ nbytes status transfer _ _ _ flag =>
      (if elicits max b then 0 <? nbytes else nbytes =? 0)
      && match b with
         | BStatus | BProbe => status
         | BBig n => Bool.eqb status (frame_len_ok (wrap32 max) n)
         | BCookie age good =>
             match flag with Some f => Bool.eqb f (cookie_verdict expiry now age good) | None => false end
         | BLogin _ => if finished then transfer else true
         | _ => true
         end
  end.

Definition corr_conn (cfg : lcfg) (outs : list (Z * output)) (obs : list lobs) (c : lconn) : bool :=
  match c with
  | LC id peer arr h b nat =>
    match find_obs id obs with
    | None => false
    | Some (LO _ connected nbytes status transfer closed done seen flag as o) =>
      if negb (m_spawned outs id) then (nbytes =? 0) && negb status && negb transfer && isnone seen
      else
        let cl := m_close outs id in
        (match m_serve outs id with
         | Some eff =>
             served_ok cfg b (match cl with Some (_, RFinished) => true | _ => false end) o
             && match seen with Some a => addr_eqb a eff | None => true end
         | None => (nbytes =? 0) && isnone seen
         end)
        && match cl, closed with
           | Some (tm, r), Some t => close_window r tm t
           | None, None => true
           | _, _ => false
           end
    end
  end.

(* outcome order: if the model closes c1 clearly before c2, so does the implementation *)
Definition close_pairs (outs : list (Z * output)) (conns : list lconn) (obs : list lobs) : list (Z * Z) :=
  flat_map (fun c => match m_close outs (lc_id c), find_obs (lc_id c) obs with
                     | Some (tm, _), Some (LO _ _ _ _ _ (Some t) _ _ _) => [(tm, t)]
                     | _, _ => [] end) conns.
Definition order_ok (ps : list (Z * Z)) : bool :=
  forallb (fun p => forallb (fun q => if fst p + slack <? fst q then snd p <? snd q else true) ps) ps.

Definition hdr_tie (proxy : option (bool * bool)) (c : lconn) : bool :=
  match proxy, c with
  | Some pc, LC _ _ _ (LHFull _ cls oracle) _ _ => ooaddr_eqb (header_result pc cls) oracle
  | _, _ => true
  end.

Definition in_model (cfg : lcfg) (conns : list lconn) : bool :=
  match cfg with
  | LCfg max _ _ _ _ _ _ =>
      forallb (fun c => match c with LC _ _ _ _ b _ => negb (needs_room b) || (1000 <=? wrap32 max) end) conns
  end.

Definition corr_all (k : lstcase) : bool :=
  match k with
  | LST mode cfg conns stop obs ret endt =>
      let outs := model_run cfg conns stop in
      forallb (corr_conn cfg outs obs) conns
      && order_ok (close_pairs outs conns obs)
      && match m_return outs, ret with
         | Some tm, Some t =>
             in_window (tm - (if m_return_nominal false outs then slack else early)) (tm + slack) t
         | None, None => true
         | _, _ => false
         end
      && match cfg with LCfg _ _ _ _ _ proxy _ => forallb (hdr_tie proxy) conns end
  end.

(* ================= monitors: on the observation (and the script) only ================= *)
Definition before_stop (stop : option Z) (arr : Z) : bool :=
  match stop with Some ts => arr <? ts | None => true end.

(* C14: frames over the CONFIGURED maximum refused, frames up to it accepted; cookies older than
   the CONFIGURED expiry (or under another secret) refused, others accepted; closed no later
   than the configured timeout after being accepted *)
Definition mon_c14 (k : lstcase) : bool :=
  match k with
  | LST _ (LCfg max expiry _ tmo lim proxy now) conns stop obs _ _ =>
      forallb (fun c =>
        match c with
        | LC id _ arr _ b _ =>
          match find_obs id obs with
          | None => false
          | Some (LO _ connected nbytes status _ closed _ _ flag) =>
              if negb (connected && before_stop stop arr) then true else
              match closed with Some t => t <=? arr + tmo + slack | None => false end
              && match b with
                 | BBig n => if isnone lim && isnone proxy
                             then Bool.eqb status (frame_len_ok (wrap32 max) n) else true
                 | BCookie age good =>
                     match flag with
                     | Some f => Bool.eqb f (cookie_verdict expiry now age good)
                     | None => true               (* the exchange did not get that far *)
                     end
                 | _ => true
                 end
          end
        end) conns
  end.

(* C15: replay of the limiter MODEL on the effective addresses, in the order of the attempts *)
Inductive adm_class := AAttempt (t : Z) (eff : addr) | AInvalid (t : Z) | APending.
Definition classify (proxy : option (bool * bool)) (c : lconn) : adm_class :=
  match c with
  | LC _ peer arr h _ _ =>
      match proxy with
      | None => AAttempt arr peer
      | Some _ =>
          match h with
          | LHFull d _ (Some src) => AAttempt (arr + d) (effective src peer)
          | LHFull d _ None => AInvalid (arr + d)
          | LHPartial _ (Some e) => AInvalid (arr + e)
          | _ => APending
          end
      end
  end.
Definition att_time (proxy : option (bool * bool)) (c : lconn) : Z :=
  match classify proxy c with AAttempt t _ | AInvalid t => t | APending => lc_arrive c end.
Fixpoint ins_conn (proxy : option (bool * bool)) (c : lconn) (l : list lconn) : list lconn :=
  match l with
  | [] => [c]
  | x :: r => if att_time proxy c <? att_time proxy x then c :: l else x :: ins_conn proxy c r
  end.
Fixpoint replay (cfg : lcfg) (obs : list lobs) (l : lstate) (cs : list lconn) : bool :=
  match cs with
  | [] => true
  | c :: r =>
    match cfg, c with
    | LCfg max _ _ _ lim proxy _, LC id _ _ _ b _ =>
      match find_obs id obs with
      | None => false
      | Some (LO _ connected nbytes status _ closed _ seen _) =>
        match classify proxy c with
        | AAttempt t eff =>
            let '(l', ok) := lst_admit lim l (fst eff) t in
            (if ok
             then (if elicits max b then 0 <? nbytes else nbytes =? 0)
                  && match seen with Some a => addr_eqb a eff | None => true end
                  && match b with BStatus | BProbe => status | _ => true end
             else (nbytes =? 0) && isnone seen
                  && match closed with Some tc => tc <=? t + slack | None => false end)
            && replay cfg obs l' r
        | AInvalid t =>
            (nbytes =? 0) && isnone seen
            && match closed with Some tc => tc <=? t + slack | None => false end
            && replay cfg obs l r                      (* no budget consumed *)
        | APending => (nbytes =? 0) && isnone seen && replay cfg obs l r
        end
      end
    end
  end.
Definition mon_c15 (k : lstcase) : bool :=
  match k with
  | LST _ (LCfg _ _ _ _ _ proxy _ as cfg) conns stop obs _ _ =>
      let live := filter (fun c => before_stop stop (lc_arrive c)) conns in
      replay cfg obs (linit 0) (fold_left (fun acc c => ins_conn proxy c acc) live [])
  end.

(* C16: every probe completes its status exchange within the fixed bound *)
Definition mon_c16 (k : lstcase) : bool :=
  match k with
  | LST _ cfg conns stop obs _ _ =>
      forallb (fun c =>
        match c with
        | LC id _ arr h BProbe _ =>
            match find_obs id obs with
            | Some (LO _ _ _ _ _ _ (Some t) _ _) => t <=? arr + hdr_delay h + probe_bound
            | _ => false
            end
        | _ => true
        end) conns
  end.

(* C17: nothing served after the stop request; cooperating clients that were in flight still
   complete; `listen` returns after the last in-flight connection finished, not before, and
   within the connection timeout *)
Definition cooperating (proxy : bool) (c : lconn) : bool :=
  match c with
  | LC _ _ _ h b _ =>
      (if proxy then match h with LHFull _ _ (Some _) => true | _ => false end else true)
      && match b with BStatus | BProbe | BLogin _ => true | _ => false end
  end.
Definition mon_c17 (k : lstcase) : bool :=
  match k with
  | LST _ (LCfg _ _ _ tmo lim proxy _) conns None _ ret _ => isnone ret
  | LST _ (LCfg _ _ _ tmo lim proxy _) conns (Some ts) obs ret _ =>
      match ret with
      | None => false
      | Some tr =>
          (ts - early <=? tr) && (tr <=? ts + tmo + slack)
          && forallb (fun c =>
               match c with
               | LC id _ arr _ b nat =>
                 match find_obs id obs with
                 | None => false
                 | Some (LO _ connected nbytes status transfer closed _ _ _) =>
                     if ts <? arr then (nbytes =? 0) && negb status && negb transfer
                     else
                       (* in flight: finished no later than the return (1 ms granularity) *)
                       (if connected then match closed with Some tc => tc <=? tr + early | None => false end else true)
                       && (if isnone lim && cooperating (negb (isnone proxy)) c
                           then match b, nat with
                                | BLogin _, Some n => if arr + n + slack <? arr + tmo then transfer else true
                                | BLogin _, None => true
                                | _, _ => status
                                end
                           else true)
                 end
               end) conns
          (* not before: some in-flight connection closed within `early` of the return, or none was in flight *)
          && (let inflight := filter (fun c => negb (ts <? lc_arrive c)) conns in
              let last := fold_right (fun c acc =>
                            match find_obs (lc_id c) obs with
                            | Some (LO _ true _ _ _ (Some tc) _ _ _) => Z.max tc acc
                            | _ => acc end) 0 inflight in
              (tr <=? Z.max last ts + slack))
      end
  end.

(* 0 fine, +1 model/implementation disagree, +2 monitor false, 4 outside the model *)
Definition check_with (mon : lstcase -> bool) (k : lstcase) : Z :=
  match k with
  | LST _ cfg conns _ _ _ _ =>
      if negb (in_model cfg conns) then 4 else corr (corr_all k) + moni (mon k)
  end.
Definition check_c14 := check_with mon_c14.
Definition check_c15 := check_with mon_c15.
Definition check_c16 := check_with mon_c16.
Definition check_c17 := check_with mon_c17.
(* every monitor at once (any family) *)
Definition check_lst := check_with (fun k => mon_c14 k && mon_c15 k && mon_c16 k && mon_c17 k).

(* ---- the configuration as the application reads it (src/config.rs Config::read: file + secret file + environment):
   what the operator wrote is what the listener is started with.  [strs]: (set, read) for the auth secret (secret file) and the Mojang server id (environment);
   [nums]: (set, read) for the timeout (environment) ---- *)
Inductive envcase := ENVC (strs : list (bytes * bytes)) (nums : list (Z * Z)).
Definition check_env (c : envcase) : Z :=
  match c with
  | ENVC strs nums => if forallb (fun p => beq (fst p) (snd p)) strs && forallb (fun p => fst p =? snd p) nums then 0 else 3
  end.

(* diagnostics for the driver: which part failed *)
Definition diag (k : lstcase) : list (Z * output) * list bool :=
  match k with
  | LST _ cfg conns stop obs _ _ =>
      let outs := model_run cfg conns stop in
      (outs, map (corr_conn cfg outs obs) conns ++ [mon_c14 k; mon_c15 k; mon_c16 k; mon_c17 k])
  end.

(* largest distance between a modelled and an observed close/return time (to justify `slack`) *)
Definition deviation (k : lstcase) : Z :=
  match k with
  | LST _ cfg conns stop obs ret _ =>
      let outs := model_run cfg conns stop in
      fold_right (fun p acc => Z.max (Z.abs (fst p - snd p)) acc)
        (match m_return outs, ret with Some a, Some b => Z.abs (a - b) | _, _ => 0 end)
        (close_pairs outs conns obs)
  end.

(* self-tests: the first STALL case of seed 1 as observed on the repaired tree (a silent TCP peer
   in front of the PROXY header, then the probe), and as observed before fix-c16 (the probe is
   never accepted, the silent peer never closed) *)
Example selftest_ok : check_c16 (LST 0 (LCfg 10000 21600 None 6000 None (Some (true, true)) 1700000000) [(LC 1 (2130706434, 58069) 70 LHNone BSilent None); (LC 2 (2130706435, 59023) 190 LHNone BSilent None); (LC 99 (2130706437, 59447) 510 (LHFull 0 (HV1 (Some (3323068425, 4000))) (Some (Some (3323068425, 4000)))) BProbe (Some 10))] None [(LO 1 true 0 false false (Some 6071) None None None); (LO 2 true 0 false false (Some 6191) None None None); (LO 99 true 124 true false (Some 514) (Some 514) (Some (3323068425, 4000)) None)] None 7110) = 0.
Proof. vm_compute. reflexivity. Qed.
Example selftest_starved : check_c16 (LST 0 (LCfg 10000 21600 None 6000 None (Some (true, true)) 1700000000) [(LC 1 (2130706434, 35897) 70 LHNone BSilent None); (LC 2 (2130706435, 38687) 190 LHNone BSilent None); (LC 99 (2130706437, 50523) 510 (LHFull 0 (HV1 (Some (3323068425, 4000))) (Some (Some (3323068425, 4000)))) BProbe (Some 10))] None [(LO 1 true 0 false false None None None None); (LO 2 true 0 false false None None None None); (LO 99 true 0 false false None None None None)] None 7110) = 3.
Proof. vm_compute. reflexivity. Qed.
