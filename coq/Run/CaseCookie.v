(* Direct cases for cookie::sign / cookie::verify.  No proofs. *)
From Passage Require Import Lib.Bytes Spec.Sha256 Spec.Hmac Crypto.Cookie.

Inductive ckcase :=
| SG (secret msg signed : bytes)                       (* sign(msg, secret) = signed *)
| CK (secret signed : bytes) (ok : bool) (msg : bytes).  (* verify(signed, secret) = (ok, msg) *)

Definition check_cookie (c : ckcase) : Z :=
  match c with
  | SG secret msg signed =>
      (if beq (sign msg secret) signed then 0 else 1)
      + (if beq signed (hmac_sha256 secret msg ++ msg) then 0 else 2)
  | CK secret signed ok msg =>
      let (mok, mmsg) := verify signed secret in
      (if Bool.eqb mok ok && beq mmsg msg then 0 else 1)
      (* monitor, from the specification alone: accepted iff at least a tag long and the first
         32 bytes are the HMAC-SHA256 tag of the rest under this secret *)
      + (if Bool.eqb ok ((32 <=? length signed)%nat && beq (firstn 32 signed) (hmac_sha256 secret (skipn 32 signed)))
         then 0 else 2)
  end.
