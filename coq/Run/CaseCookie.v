(* Direct cases for cookie::sign / cookie::verify, and for serde_json on the two cookie
   records (families JS / JP, model in Crypto/CookieJson.v).  No proofs. *)
From Passage Require Import Lib.Bytes Spec.Sha256 Spec.Hmac Crypto.Cookie Conn.Types Crypto.CookieJson.

Inductive ckcase :=
| SG (secret msg signed : bytes)                       (* sign(msg, secret) = signed *)
| CK (secret signed : bytes) (ok : bool) (msg : bytes)   (* verify(signed, secret) = (ok, msg) *)
| JSA (c : auth_cookie) (b : bytes)                      (* serde_json::to_vec(&c) = b *)
| JSS (trace : option bytes) (c : session_cookie) (b : bytes)   (* to_vec(&SessionCookie{c.., trace_id}) = b *)
| JPA (b : bytes) (r : jres auth_cookie)                 (* from_slice::<AuthCookie>(b) = r *)
| JPS (b : bytes) (r : jres (option session_cookie)).    (* from_slice::<Option<SessionCookie>>(b) = r *)

Definition ck_auth_eqb (a b : auth_cookie) : bool :=
  (ac_ts a =? ac_ts b) && sa_eqb (ac_addr a) (ac_addr b) && beq (ac_name a) (ac_name b)
  && (ac_uuid a =? ac_uuid b) && obytes_eq (ac_target a) (ac_target b)
  && pprops_eqb (ac_props a) (ac_props b) && meta_eqb (ac_extra a) (ac_extra b).
Definition ck_session_eqb (a b : session_cookie) : bool :=
  (sc_id a =? sc_id b) && beq (sc_host a) (sc_host b) && (sc_port a =? sc_port b).
Definition jres_eqb {A} (eqb : A -> A -> bool) (x y : jres A) : bool :=
  match x, y with JOk a, JOk b => eqb a b | JErr, JErr => true | _, _ => false end.
Definition osession_eqb (a b : option session_cookie) : bool :=
  match a, b with Some x, Some y => ck_session_eqb x y | None, None => true | _, _ => false end.

Definition check_cookie (c : ckcase) : Z :=
  match c with
  | SG secret msg signed =>
      (if beq (sign msg secret) signed then 0 else 1)
      + (if beq signed (hmac_sha256 secret msg ++ msg) then 0 else 2)
  | CK secret signed ok msg =>
      let (mok, mmsg) := verify signed secret in
      (if Bool.eqb mok ok && beq mmsg msg then 0 else 1)
      (* monitor, from the specification alone: accepted iff at least a tag long and the first
         32 bytes are the HMAC-SHA256 tag of the rest under this secret *)
      + (if Bool.eqb ok ((32 <=? length signed)%nat && beq (firstn 32 signed) (hmac_sha256 secret (skipn 32 signed)))
         then 0 else 2)
  (* the writer: the model's bytes are serde_json's bytes, and the model's parser reads them
     back as the record (a record the round-trip theorem does not cover is skipped: in
     particular a HashMap of two or more entries, whose order serde_json does not fix) *)
  | JSA c b =>
      if negb (wf_auth c) then 4
      else if beq (ser_auth c) b && jres_eqb ck_auth_eqb (match parse_auth b with Some r => r | None => JErr end) (JOk c)
      then 0 else 1
  | JSS trace c b =>
      if negb (wf_session c && wf_ostr trace) then 4
      else if beq (ser_session_t trace c) b
              && (match trace with Some t => negb (beq t trace_invalid) | None => true end || beq (ser_session c) b)
              && jres_eqb osession_eqb (match parse_session b with Some r => r | None => JErr end) (JOk (Some c))
      then 0 else 1
  (* the parser: whenever the model gives a verdict it is serde_json's *)
  | JPA b r =>
      match parse_auth b with
      | None => 4
      | Some r' => if jres_eqb ck_auth_eqb r' r then 0 else 1
      end
  | JPS b r =>
      match parse_session b with
      | None => 4
      | Some r' => if jres_eqb osession_eqb r' r then 0 else 1
      end
  end.
