(* Ties the serde_json tables recorded in connection-level cases (the oracles of Run/CaseConn.v:
   what the real serde_json did on the cookie payloads of that connection) to the Gallina
   serde_json of Crypto/CookieJson.v.  No proofs. *)
From Passage Require Import Lib.Bytes Conn.Types Conn.Prog Run.CaseConn Run.CaseCookie Crypto.CookieJson.

(* every payload the client presented was parsed by serde_json as the model parses it (when
   the model decides), every cookie the router stored is the model writer's bytes (the session
   cookie with the trace id of a process without an OpenTelemetry layer).
   0 = all entries agree, 1 = some entry disagrees, 4 = no entry, or none decided. *)
Definition conn_json_codes (c : conn_case) : list Z :=
  map (fun e => check_cookie (JPS (fst e) (snd e))) (cc_psess c)
  ++ map (fun e => check_cookie (JPA (fst e) (snd e))) (cc_pauth c)
  ++ map (fun e => check_cookie (JSA (fst e) (snd e))) (cc_sauth c)
  ++ map (fun e => check_cookie (JSS (Some trace_invalid) (fst e) (snd e))) (cc_ssess c).

Definition check_conn_json (c : conn_case) : Z :=
  let codes := conn_json_codes c in
  if existsb (fun k => negb ((k =? 0) || (k =? 4))) codes then 1
  else if forallb (Z.eqb 4) codes then 4
  else 0.

(* a connection-level checker with the serde tie added: the code of `chk` (0, +1, +2, 4), with
   +1 set when a recorded serde_json entry disagrees with the Gallina serde_json *)
Definition with_json (chk : conn_case -> Z) (c : conn_case) : Z :=
  let k := chk c in
  if check_conn_json c =? 1 then (if k =? 4 then 1 else if Z.odd k then k else k + 1) else k.
Definition check_c10_json := with_json check_c10.
Definition check_c02_json := with_json check_c02.
