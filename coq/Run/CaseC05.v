(* Case records and checker for the CipherStream correspondence (C05).  No proofs. *)
From Passage Require Import Lib.Bytes Spec.Aes Spec.Cfb8Spec Crypto.CipherStream.

Definition aes (key : bytes) : bytes -> bytes := aes128_encrypt_with (aes128_key_expand key).

Inductive c05case :=
(* writes: key, encryption on?, per poll_write (buffer, transport answer); observed wire bytes
   and the results the wrapper reported (Some n = Ready(Ok n), None = Pending / error) *)
| WR (key : bytes) (on : bool) (ops : list (bytes * wresp)) (wire : bytes) (results : list (option Z))
(* reads: key, decryption on?, transport answers; observed bytes delivered to the reader *)
| RD (key : bytes) (on : bool) (ops : list rresp) (delivered : bytes)
(* switch: plaintext writes, then set_encryption(key), then more writes; one wire stream *)
| SW (key : bytes) (ops1 ops2 : list (bytes * wresp)) (wire : bytes) (results : list (option Z)).

Definition st0 (key : bytes) (on : bool) : cstate :=
  if on then {| c_enc := Some key; c_dec := Some key |} else {| c_enc := None; c_dec := None |}.

Fixpoint model_results (ops : list (bytes * wresp)) : list (option Z) :=
  match ops with
  | [] => []
  | (buf, r) :: rest =>
      (match r with WReady n => Some (Z.of_nat (Nat.min n (length buf))) | _ => None end) :: model_results rest
  end.

Fixpoint oz_eqb (a b : list (option Z)) : bool :=
  match a, b with
  | [], [] => true
  | Some x :: a', Some y :: b' => (x =? y) && oz_eqb a' b'
  | None :: a', None :: b' => oz_eqb a' b'
  | _, _ => false
  end.

(* the plaintext the IMPLEMENTATION reported as written *)
Fixpoint reported (ops : list (bytes * wresp)) (results : list (option Z)) : bytes :=
  match ops, results with
  | (buf, _) :: ops', Some n :: rs => firstn (Z.to_nat n) buf ++ reported ops' rs
  | _ :: ops', None :: rs => reported ops' rs
  | _, _ => []
  end.

Fixpoint produced (ops : list rresp) : bytes :=
  match ops with [] => [] | RData d :: r => d ++ produced r | _ :: r => produced r end.

Definition corr (b : bool) : Z := if b then 0 else 1.
Definition moni (b : bool) : Z := if b then 0 else 2.

Definition check_c05 (c : c05case) : Z :=
  match c with
  | WR key on ops wire results =>
      let '(_, mwire, _) := writes (aes key) (st0 key on) ops in
      corr (beq mwire wire && oz_eqb (model_results ops) results)
      + moni (beq wire (if on then fst (cfb8_enc (aes key) key (reported ops results)) else reported ops results))
  | RD key on ops delivered =>
      let '(_, mplain, _) := reads (aes key) (st0 key on) ops in
      corr (beq mplain delivered)
      + moni (beq delivered (if on then fst (cfb8_dec (aes key) key (produced ops)) else produced ops))
  | SW key ops1 ops2 wire results =>
      let '(st1, w1, _) := writes (aes key) (st0 key false) ops1 in
      let '(_, w2, _) := writes (aes key) (set_encryption st1 key) ops2 in
      let r1 := firstn (length ops1) results in
      let r2 := skipn (length ops1) results in
      corr (beq (w1 ++ w2) wire && oz_eqb (model_results (ops1 ++ ops2)) results)
      + moni (beq wire (reported ops1 r1 ++ fst (cfb8_enc (aes key) key (reported ops2 r2))))
  end.
