(* Case records and checker for C11 (session server hash).  No proofs here, and no
   dependency on a proof file.  The monitor is computed from the SPEC only
   (Spec/SignedHex.v + Spec/Sha1.v) on the implementation's own output; the model of
   Crypto/McHash.v is used only for the correspondence bit. *)
From Passage Require Import Lib.Bytes Spec.Sha1 Spec.SignedHex Crypto.McHash.

Inductive c11case :=
| H (server_id secret pubkey : bytes) (impl_out : bytes)   (* minecraft_hash(id, secret, key) *)
| D (digest : bytes) (impl_out : bytes).                   (* BigInt::from_signed_bytes_be(&digest).to_str_radix(16) *)

(* result code: 0 = fine; +1 = model and implementation disagree; +2 = the property's
   monitor is false on the implementation's observation; 4 = skipped (outside the model) *)
Definition corr (b : bool) : Z := if b then 0 else 1.
Definition moni (b : bool) : Z := if b then 0 else 2.

(* the property on an observed output for a digest: it is the signed hex notation of the
   two's complement value; redundantly, it has the canonical shape and reads back *)
Definition c11_monitor (digest impl_out : bytes) : bool :=
  let z := twos_complement_be digest in
  beq impl_out (show_signed_hex z)
  && signed_hex_format impl_out
  && match parse_signed_hex impl_out with Some v => v =? z | None => false end
  && Bool.eqb (starts_minus impl_out) (top_bit_set digest).

Definition check_c11 (c : c11case) : Z :=
  match c with
  | H id ss pk out =>
      if negb (wfb id && wfb ss && wfb pk) then 4 else
      corr (beq (minecraft_hash id ss pk) out)
      + moni (c11_monitor (sha1 (id ++ ss ++ pk)) out)
  | D d out =>
      if negb (wfb d) then 4 else
      corr (beq (mc_hex d) out)
      + moni (c11_monitor d out)
  end.

(* the checker accepts the documented vectors and rejects the typical wrong renderings *)
Example check_ok : map check_c11
  [H (str "Notch") [] [] (str "4ed1f46bbe04bc756bcb17c0c7ce3e4632f06a48");
   H (str "jeb_") [] [] (str "-7c9d5b0044c130109a5d7b5fb5c317c02b4e28c1");
   H (str "si") (str "mo") (str "n") (str "88e16a1019277b15d58faf0541e11910eb756f6");
   D (hx "8000000000000000000000000000000000000000") (str "-8000000000000000000000000000000000000000");
   D (hx "0000000000000000000000000000000000000000") (str "0")] = [0; 0; 0; 0; 0].
Proof. vm_compute. reflexivity. Qed.
Example check_rejects : map check_c11
  [H (str "jeb_") [] [] (str "8362a4ffbb3ecfef65a284a04a3ce83fd4b1d73f");        (* unsigned hex of a negative digest *)
   H (str "Notch") [] [] (str "4ED1F46BBE04BC756BCB17C0C7CE3E4632F06A48");       (* uppercase *)
   H (str "simon") [] [] (str "088e16a1019277b15d58faf0541e11910eb756f6");       (* leading zero kept *)
   D (hx "0000000000000000000000000000000000000000") (str "-0");
   D (hx "0000000000000000000000000000000000000000") [];
   D (hx "ffffffffffffffffffffffffffffffffffffffff") (str "-ffffffffffffffffffffffffffffffffffffffff"); (* sign-magnitude *)
   D (hx "8000000000000000000000000000000000000000") (str "8000000000000000000000000000000000000000")]
  = [3; 3; 3; 3; 3; 3; 3].
Proof. vm_compute. reflexivity. Qed.
