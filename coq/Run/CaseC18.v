(* Case record and checker for the filter/strategy correspondence (C18).
   No proofs here: this file must build even when a proof is broken. *)
From Passage Require Import Lib.Bytes Adapters.Filters.

(* FS: one run of DynFilterAdapters::filter followed by DynStrategyAdapter::select.
     fs st host name uuid ts : the inputs (configuration, connection, discovered targets)
     tab                     : is_match results of the real regex crate for every
                               (pattern, text) pair the chain can ask for
     obs_f                   : the implementation's filtered list, as (position in ts, identifier)
     obs_s                   : the implementation's selection, as (position in ts, identifier)
   PU: str::parse::<u32>() of s gave r (None = Err). *)
Inductive c18case :=
| FS (fs : list ofilter) (st : strategy) (host name : bytes) (uuid : Z) (ts : list target)
     (tab : regex_table) (obs_f : list (Z * bytes)) (obs_s : option (Z * bytes))
| PU (s : bytes) (r : option Z).

Definition corr (b : bool) : Z := if b then 0 else 1.
Definition moni (b : bool) : Z := if b then 0 else 2.

Definition nth_t (ts : list target) (p : Z) : option target :=
  if p <? 0 then None else nth_error ts (Z.to_nat p).

Fixpoint meta_eqb (a b : list (bytes * bytes)) : bool :=
  match a, b with
  | [], [] => true
  | (k, v) :: a', (k', v') :: b' => beq k k' && beq v v' && meta_eqb a' b'
  | _, _ => false
  end.

Definition target_eqb (a b : target) : bool :=
  beq (t_id a) (t_id b) && (t_addr a =? t_addr b) && meta_eqb (t_meta a) (t_meta b).

Fixpoint targets_eqb (a b : list target) : bool :=
  match a, b with
  | [], [] => true
  | x :: a', y :: b' => target_eqb x y && targets_eqb a' b'
  | _, _ => false
  end.

(* the targets named by a list of observed positions; None if a position is out of range *)
Fixpoint targets_at (ts : list target) (ps : list Z) : option (list target) :=
  match ps with
  | [] => Some []
  | p :: r => match nth_t ts p, targets_at ts r with
              | Some t, Some l => Some (t :: l)
              | _, _ => None
              end
  end.

(* every (pattern, text) pair the chain can ask the regex engine about is in the table *)
Definition needed (fs : list ofilter) (host name : bytes) : list (bytes * bytes) :=
  flat_map (fun f =>
    match f_host f with Some p => [(p, host)] | None => [] end
    ++ match f_kind f with
       | FMeta _ => []
       | FAllow pl | FBlock pl => match pl_pattern pl with Some p => [(p, name)] | None => [] end
       end) fs.

Definition tab_ok (tab : regex_table) (fs : list ofilter) (host name : bytes) : bool :=
  forallb (fun px => match tab_lookup tab (fst px) (snd px) with Some _ => true | None => false end)
          (needed fs host name).

Definition memz (x : Z) (l : list Z) : bool := existsb (fun y => y =? x) l.

Fixpoint increasing (prev : Z) (l : list Z) : bool :=
  match l with
  | [] => true
  | p :: r => (prev <? p) && increasing p r
  end.

Fixpoint indexed {A} (i : Z) (l : list A) : list (Z * A) :=
  match l with
  | [] => []
  | x :: r => (i, x) :: indexed (i + 1) r
  end.

Definition id_at (ts : list target) (pi : Z * bytes) : bool :=
  match nth_t ts (fst pi) with Some t => beq (t_id t) (snd pi) | None => false end.

Section Mon.
  Variable rm : bytes -> bytes -> bool.
  Variables (fs : list ofilter) (st : strategy) (host name : bytes) (uuid : Z) (ts : list target).
  Variables (obs_f : list (Z * bytes)) (obs_s : option (Z * bytes)).

  Let ps := map fst obs_f.

  (* the observation is a well-formed in-order selection of discovered targets *)
  Definition mon_valid : bool := increasing (-1) ps && forallb (id_at ts) obs_f.

  (* every surviving target qualifies *)
  Definition mon_sound : bool :=
    forallb (fun p => match nth_t ts p with Some t => qualifiesb rm fs host t | None => false end) ps.

  (* an accepted player keeps every qualifying target; a refused player keeps nothing *)
  Definition mon_complete : bool :=
    if passesb rm fs host name uuid
    then forallb (fun it => if qualifiesb rm fs host (snd it) then memz (fst it) ps else true) (indexed 0 ts)
    else match ps with [] => true | _ => false end.

  (* the selection obeys the strategy rule on the surviving targets *)
  Definition mon_select : bool :=
    match st, obs_s with
    | SAny, None => match ps with [] => true | _ => false end
    | SAny, Some (p, id) =>
        (* the head of the surviving list (or a target indistinguishable from it) *)
        memz p ps && id_at ts (p, id)
        && match ps with
           | p0 :: _ => match nth_t ts p, nth_t ts p0 with
                        | Some a, Some b => target_eqb a b
                        | _, _ => false
                        end
           | [] => false
           end
    | SFill field maxp, None =>
        forallb (fun q => match nth_t ts q with Some t => maxp <=? count field t | None => false end) ps
    | SFill field maxp, Some (p, id) =>
        memz p ps && id_at ts (p, id)
        && match nth_t ts p with
           | None => false
           | Some t =>
               let c := count field t in
               (c <? maxp)
               && forallb (fun q => match nth_t ts q with
                                    | None => false
                                    | Some u =>
                                        let cu := count field u in
                                        if cu <? maxp
                                        then (cu <=? c) && (if p <? q then (cu <? c) || target_eqb u t else true)
                                        else true
                                    end) ps
           end
    end.

  Definition monitor_c18 : bool := mon_valid && mon_sound && mon_complete && mon_select.

  (* model vs implementation *)
  Definition corr_c18 : bool :=
    let out := chain rm fs host name uuid ts in
    match targets_at ts ps with
    | Some l => targets_eqb out l
    | None => false
    end
    && match select st out, obs_s with
       | None, None => true
       | Some t, Some (p, id) =>
           match nth_t ts p with Some t' => target_eqb t t' && beq (t_id t) id | None => false end
       | _, _ => false
       end.
End Mon.

Definition oz_eqb (a b : option Z) : bool :=
  match a, b with
  | None, None => true
  | Some x, Some y => x =? y
  | _, _ => false
  end.

(* result code: 0 = fine; +1 = model and implementation disagree (or the regex table does not
   cover the case: a harness defect); +2 = the monitor is false on the implementation's
   observation; 4 = outside the model (max_players not a u32) *)
Definition check_c18 (c : c18case) : Z :=
  match c with
  | FS fs st host name uuid ts tab obs_f obs_s =>
      let outside := match st with
                     | SFill _ maxp => (maxp <? 0) || (u32_max <? maxp)
                     | SAny => false
                     end in
      if outside then 4 else
      let rm := tab_match tab in
      corr (tab_ok tab fs host name && corr_c18 rm fs st host name uuid ts obs_f obs_s)
      + moni (monitor_c18 rm fs st host name uuid ts obs_f obs_s)
  | PU s r => corr (oz_eqb (parse_u32 s) r)
  end.
