(* Cases for FixedLocalizationAdapter::localize.  No proofs. *)
From Passage Require Import Lib.Bytes Adapters.Locale.

Inductive loccase :=
| LOC (tables : list (bytes * list (bytes * bytes))) (dflt : bytes) (loc : option bytes) (key : bytes) (out : bytes).

(* the specification, written independently of Locale.localize: walk the reported locale and
   its '_'-prefixes from the longest to the shortest, then the default locale likewise; the
   first one that has a table decides *)
Fixpoint prefixes_desc (n : nat) (l : bytes) : list bytes :=
  match n with
  | O => []
  | S k => (if match nth_error l k with Some 95 => true | _ => false end then [firstn k l] else []) ++ prefixes_desc k l
  end.
Definition spec_chain (loc : option bytes) (dflt : bytes) : list bytes :=
  let l := match loc with Some x => x | None => dflt end in
  (l :: prefixes_desc (length l) l) ++ (dflt :: prefixes_desc (length dflt) dflt).
Fixpoint spec_pick (ch : list bytes) (tables : list (bytes * list (bytes * bytes))) (key : bytes) : bytes :=
  match ch with
  | [] => key
  | c :: r => match lookup_tbl c tables with
              | Some t => match lookup_tbl key t with Some m => m | None => key end
              | None => spec_pick r tables key
              end
  end.

Definition check_locale (c : loccase) : Z :=
  match c with
  | LOC tables dflt loc key out =>
      (if beq (localize tables dflt loc key) out then 0 else 1)
      + (if beq (spec_pick (spec_chain loc dflt) tables key) out then 0 else 2)
  end.
