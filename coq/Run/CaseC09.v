(* Case records and checkers for the codec correspondence (C09, and the decoder part of
   C04).  No proofs here: this file must build even when a proof is broken. *)
From Passage Require Import Codec.Alloc Lib.Bytes Lib.Utf8 Spec.Leb128 Spec.McLayout Codec.VarInt Codec.Desc
  Gen.PacketsGen Gen.ConstsGen Codec.PacketCheck.

Inductive dres := DOk (vs : list fv) (rest : Z) | DErr (e : err).

Inductive c09case :=
| RT (p : packet) (vs : list fv) (b : bytes) (impl_ok : bool)
| DEC (p : packet) (b : bytes) (r : dres) (maxreq : Z)
| VI (v : Z) (b : bytes) (back : option Z) (rest : Z)
| VL (v : Z) (b : bytes) (back : option Z) (rest : Z)
| VR (raw : bytes) (r32 : option (Z * Z)) (r64 : option (Z * Z))
(* sweep: every stride-th i32 (all 2^32 in the thorough tier) through the real writer/reader
   against an independent LEB128; [bad] = number of disagreements *)
| VX (stride count bad first_bad : Z).

Fixpoint fv_eqb (a b : fv) : bool :=
  match a, b with
  | VZ x, VZ y => x =? y
  | VB x, VB y => beq x y
  | VBool x, VBool y => Bool.eqb x y
  | VUnit, VUnit => true
  | VOpt None, VOpt None => true
  | VOpt (Some x), VOpt (Some y) => fv_eqb x y
  | _, _ => false
  end.
Fixpoint fvs_eqb (a b : list fv) : bool :=
  match a, b with
  | [], [] => true
  | x :: a', y :: b' => fv_eqb x y && fvs_eqb a' b'
  | _, _ => false
  end.

Definition err_eqb (a b : err) : bool :=
  match a, b with
  | EEof, EEof | EUtf8, EUtf8 | EEnum, EEnum | EArray, EArray | ELen, ELen
  | EPanic, EPanic | EUnmodelled, EUnmodelled => true
  | _, _ => false
  end.

Definition mdec (p : packet) (b : bytes) : res (list fv) :=
  dec varint_read_iters varlong_read_iters (rkinds p) b.

Definition obytes_eqb (a : option bytes) (b : bytes) : bool :=
  match a with Some x => beq x b | None => false end.

Definition spec_kinds (p : packet) : option (list fk) :=
  match find_layout p mc_layout with Some l => l_fields l | None => None end.

(* result code: 0 = fine; +1 = model and implementation disagree; +2 = the property's
   monitor is false on the implementation's observation; 4 = skipped (outside the model) *)
Definition corr (b : bool) : Z := if b then 0 else 1.
Definition moni (b : bool) : Z := if b then 0 else 2.

Definition has_json_text (p : packet) (vs : list fv) : bool :=
  (* text components starting with '{' go through fastnbt: not modelled *)
  existsb (fun v => match v with
                    | VB (123 :: _) => true
                    | VOpt (Some (VB (123 :: _))) => true
                    | _ => false end) vs
  && existsb (fun k => match k with KText | KOpt KText => true | _ => false end) (kinds p).

Definition check_c09 (c : c09case) : Z :=
  match c with
  | RT p vs b impl_ok =>
      if has_json_text p vs then 4 else
      corr (obytes_eqb (enc (kinds p) vs) b
            && match mdec p b with Ok vs' [] => fvs_eqb vs vs' | _ => false end)
      (* the property on the implementation's own output, judged by the protocol table only (so
         that a packet impl the translator cannot read any more is not by itself a failure) *)
      + moni (impl_ok
              && match spec_kinds p with
                 | Some ks => wf_fields ks vs && obytes_eqb (enc ks vs) b
                 | None => wf_fields (kinds p) vs
                 end)
  | DEC p b r _ =>
      match mdec p b, r with
      | Er EUnmodelled, _ | _, DErr EUnmodelled => 4
      | Ok vs rest, DOk vs' n => corr (fvs_eqb vs vs' && (Z.of_nat (length rest) =? n))
      | Er e, DErr e' => corr (err_eqb e e')
      | _, _ => 1
      end
      (* the property on the implementation's own answer, judged by the protocol table with the
         protocol's own VarInt bounds: what the table decodes must be decoded to the same values,
         what it rejects (ordinals outside an enum, truncated fields, bad UTF-8, negative lengths)
         must be rejected *)
      + (match spec_kinds p with
         | None => 0
         | Some ks =>
             match dec 5 10 ks b, r with
             | Er EUnmodelled, _ | _, DErr EUnmodelled => 0
             | Ok vs rest, DOk vs' n => moni (fvs_eqb vs vs' && (Z.of_nat (length rest) =? n))
             | Er _, DErr _ => 0
             | Ok _ _, DErr EArray => 0      (* the crate's fixed-size arrays (verify token, shared secret) are narrower than the table's byte arrays *)
             | _, _ => 2
             end
         end)
  | VI v b back rest =>
      corr (beq (write_varint v) b
            && match read_varint_n varint_read_iters b, back with
               | Ok x r, Some y => (x =? y) && (Z.of_nat (length r) =? rest)
               | Er _, None => true
               | _, _ => false end)
      + moni (beq b (varint_spec v) && match back with Some y => y =? v | None => false end && (rest =? 0))
  | VL v b back rest =>
      corr (beq (write_varlong v) b
            && match read_varlong_n varlong_read_iters b, back with
               | Ok x r, Some y => (x =? y) && (Z.of_nat (length r) =? rest)
               | Er _, None => true
               | _, _ => false end)
      + moni (beq b (varlong_spec v) && match back with Some y => y =? v | None => false end && (rest =? 0))
  | VR raw r32 r64 =>
      corr (match read_varint_n varint_read_iters raw, r32 with
            | Ok x r, Some (y, n) => (x =? y) && (Z.of_nat (length r) =? n)
            | Er _, None => true | _, _ => false end
            && match read_varlong_n varlong_read_iters raw, r64 with
               | Ok x r, Some (y, n) => (x =? y) && (Z.of_nat (length r) =? n)
               | Er _, None => true | _, _ => false end)
  | VX _ count bad _ => moni ((bad =? 0) && (0 <? count))
  end.

(* the decoder half of C04 on the same DEC cases: no panic, and no allocation request out
   of proportion to the input (4 x input + 64 KiB of slack for runtime noise) *)
Definition check_c04_dec (c : c09case) : Z :=
  match c with
  | DEC p b r maxreq =>
      moni (match r with DErr EPanic => false | _ => true end
            && (maxreq <=? 4 * Z.of_nat (length b) + 65536)
            (* and within twice what the memory model of the decoders (Codec/Alloc.v, bounded by
               C04_decoder_memory_bounded) says this input makes them reserve (Vec doubling) *)
            && (maxreq <=? 2 * mem_dec varint_read_iters varlong_read_iters (rkinds p) b + 1024))
  | _ => 4
  end.
