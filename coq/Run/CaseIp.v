(* Case records and checker for the IP text library tie (Lib/IpText.v against Rust's
   core::net Display / FromStr).  No proofs here; depends on no proof file.
   Codes: 0 = model and std agree, 1 = they disagree, 4 = case outside the model. *)
From Passage Require Import Lib.Bytes Lib.IpText.

Inductive ipcase :=
(* `a.to_string()` of an IpAddr *)
| SHOW (a : ip) (txt : bytes)
(* IpAddr::from_str, Ipv4Addr::from_str, Ipv6Addr::from_str on the same text *)
| PARSE (txt : bytes) (r r4 r6 : option ip)
(* SocketAddr::from_str -> (ip, port, scope_id) *)
| SOCKP (txt : bytes) (r : option (ip * Z * Z))
(* `SocketAddr::to_string()`; scope is 0 for V4 *)
| SOCKS (a : ip) (port scope : Z) (txt : bytes).

Definition oip_eqb (x y : option ip) : bool :=
  match x, y with
  | Some a, Some b => ip_eqb a b
  | None, None => true
  | _, _ => false
  end.

Definition osock_eqb (x y : option (ip * Z * Z)) : bool :=
  match x, y with
  | Some (a, p, s), Some (b, q, t) => ip_eqb a b && (p =? q) && (s =? t)
  | None, None => true
  | _, _ => false
  end.

Definition owf (x : option ip) : bool := match x with Some a => wf_ip a | None => true end.

Definition corr (b : bool) : Z := if b then 0 else 1.

Definition check_ip (c : ipcase) : Z :=
  match c with
  | SHOW a txt => if wf_ip a then corr (beq (show_ip a) txt) else 4
  | PARSE txt r r4 r6 =>
      if owf r && owf r4 && owf r6 then
        corr (oip_eqb (parse_ip txt) r && oip_eqb (parse_ipv4 txt) r4 && oip_eqb (parse_ipv6 txt) r6)
      else 4
  | SOCKP txt r =>
      if match r with Some (a, p, s) => wf_ip a && portb p && scopeb s | None => true end then
        corr (osock_eqb (parse_sockaddr_sc txt) r
              && match r with   (* the (ip, port) projection *)
                 | Some (a, p, _) => match parse_sockaddr txt with
                                     | Some (b, q) => ip_eqb a b && (p =? q) | None => false end
                 | None => match parse_sockaddr txt with None => true | Some _ => false end
                 end)
      else 4
  | SOCKS a port scope txt =>
      if wf_ip a && portb port && scopeb scope
         && match a with V4 _ _ _ _ => scope =? 0 | V6 _ => true end then
        corr (beq (show_sockaddr_sc a port scope) txt
              && (if scope =? 0 then beq (show_sockaddr (a, port)) txt else true))
      else 4
  end.

Example check_ip_ok :
  map check_ip [SHOW (V6 [1;0;0;2;3;0;0;4]) (str "1::2:3:0:0:4");
                PARSE (str "::FFFF:1.2.3.4") (Some (V6 [0;0;0;0;0;65535;258;772])) None
                      (Some (V6 [0;0;0;0;0;65535;258;772]));
                SOCKP (str "[::1%3]:080") (Some (V6 [0;0;0;0;0;0;0;1], 80, 3));
                SOCKS (V4 1 2 3 4) 80 0 (str "1.2.3.4:80")] = [0; 0; 0; 0].
Proof. vm_compute. reflexivity. Qed.
Example check_ip_detects :
  map check_ip [SHOW (V6 [1;0;0;2;3;0;0;4]) (str "1:0:0:2:3::4");
                PARSE (str "01.2.3.4") (Some (V4 1 2 3 4)) None None;
                SOCKP (str "1.2.3.4:65536") (Some (V4 1 2 3 4, 0, 0));
                SHOW (V4 256 0 0 0) (str "256.0.0.0")] = [1; 1; 1; 4].
Proof. vm_compute. reflexivity. Qed.
