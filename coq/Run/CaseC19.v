(* Case records and checker for C19 (gRPC adapter boundary).  No proofs here: this file
   must build even when a proof is broken. *)
From Passage Require Import Lib.Bytes Lib.IpText Adapters.Grpc.

(* a router target as the harness observed it: identifier, `address.ip().to_string()`,
   `address.port()`, metadata sorted by key *)
Record otarget := mkO { o_id : bytes; o_ip : bytes; o_port : Z; o_meta : list (bytes * bytes) }.

Inductive obs (A : Type) := OOk (a : A) | OErr (e : gerr).
Arguments OOk {A} a.
Arguments OErr {A} e.

Inductive c19case :=
(* the wire targets the mock Discovery service replied -> result of discover() *)
| DISC (ws : list wtarget) (r : obs (list otarget))
(* arguments of select(), the request as the mock Strategy service decoded it (metadata of
   each target sorted by key), the reply it sent -> result of select() *)
| SEL (inp : selin) (seen : option wreq) (reply : option wtarget) (r : obs (option otarget)).

Definition corr (b : bool) : Z := if b then 0 else 1.
Definition moni (b : bool) : Z := if b then 0 else 2.

(* ------------------------------------------------------------------ comparisons *)
Definition obytes_eqb (a b : option bytes) : bool :=
  match a, b with
  | Some x, Some y => beq x y
  | None, None => true
  | _, _ => false
  end.
Definition addr_eqb (a b : option (bytes * Z)) : bool :=
  match a, b with
  | Some (h, p), Some (h', p') => beq h h' && (p =? p')
  | None, None => true
  | _, _ => false
  end.
Definition gerr_eqb (a b : gerr) : bool :=
  match a, b with
  | EMissing, EMissing | EHost, EHost | EPort, EPort | EOther, EOther => true
  | _, _ => false
  end.
Fixpoint forall2b {A B} (f : A -> B -> bool) (a : list A) (b : list B) : bool :=
  match a, b with
  | [], [] => true
  | x :: a', y :: b' => f x y && forall2b f a' b'
  | _, _ => false
  end.

Fixpoint nodup_keysb (m : list (bytes * bytes)) : bool :=
  match m with
  | [] => true
  | (k, _) :: r => negb (existsb (fun kv => beq k (fst kv)) r) && nodup_keysb r
  end.
(* equal as maps: both have unique keys, same size, same answers *)
Definition meta_eqb (a b : list (bytes * bytes)) : bool :=
  nodup_keysb a && nodup_keysb b && (length a =? length b)%nat
  && forallb (fun kv => obytes_eqb (lookup (fst kv) b) (Some (snd kv))) a.

Definition u32b (v : Z) : bool := (0 <=? v) && (v <? 4294967296).
Definition wf_wireb (w : wtarget) : bool :=
  match w_addr w with Some (_, p) => u32b p | None => true end.
Definition wf_targetb (t : rtarget) : bool :=
  wf_ip (r_ip t) && portb (r_port t) && nodup_keysb (r_meta t).
Definition wf_selinb (s : selin) : bool :=
  wf_ip (s_cip s) && portb (s_cport s) && portb (s_sport s)
  && (- 2147483648 <=? s_proto s) && (s_proto s <? 2147483648)
  && (0 <=? s_uid s) && (s_uid s <? 2 ^ 128) && forallb wf_targetb (s_targets s).

(* ------------------------------------------------------------------ +1: model vs implementation *)
Definition rt_obs_eqb (t : rtarget) (o : otarget) : bool :=
  beq (r_id t) (o_id o) && beq (show_ip (r_ip t)) (o_ip o) && (r_port t =? o_port o)
  && meta_eqb (r_meta t) (o_meta o).

Definition wt_eqb (a b : wtarget) : bool :=
  beq (w_id a) (w_id b) && addr_eqb (w_addr a) (w_addr b) && meta_eqb (w_meta a) (w_meta b).

Definition req_eqb (a b : wreq) : bool :=
  addr_eqb (q_client a) (q_client b) && addr_eqb (q_server a) (q_server b)
  && (q_proto a =? q_proto b) && beq (q_user a) (q_user b) && beq (q_uid a) (q_uid b)
  && forall2b wt_eqb (q_targets a) (q_targets b).

(* ------------------------------------------------------------------ +2: the property on the observation *)
(* a reply target that must be refused: no address, a host that is not an IP address, or a
   port above 65535 *)
Definition malformed (w : wtarget) : bool :=
  match w_addr w with
  | None => true
  | Some (h, p) => match parse_ip h with None => true | Some _ => 65535 <? p end
  end.

(* the returned target is the wire target it came from: same identifier; its address
   prints as the canonical text of the address the wire host denotes; same port; the
   metadata answers every key with the last wire entry of that key and has no other key *)
Definition same_target (w : wtarget) (o : otarget) : bool :=
  beq (w_id w) (o_id o)
  && match w_addr w with
     | Some (h, p) =>
         match parse_ip h with
         | Some a => beq (show_ip a) (o_ip o)
         | None => false
         end && (p =? o_port o) && (p <=? 65535)
     | None => false
     end
  && nodup_keysb (o_meta o)
  && forallb (fun kv => obytes_eqb (lookup (fst kv) (rev (w_meta w))) (Some (snd kv))) (o_meta o)
  && forallb (fun kv => match lookup (fst kv) (o_meta o) with Some _ => true | None => false end) (w_meta w).

(* the wire target the service saw is the candidate the router passed *)
Definition sent_target (t : rtarget) (w : wtarget) : bool :=
  beq (r_id t) (w_id w)
  && match w_addr w with
     | Some (h, p) => match parse_ip h with Some a => ip_eqb a (r_ip t) | None => false end && (p =? r_port t)
     | None => false
     end
  && meta_eqb (r_meta t) (w_meta w).

Definition sent_request (s : selin) (q : wreq) : bool :=
  match q_client q with
  | Some (h, p) => match parse_ip h with Some a => ip_eqb a (s_cip s) | None => false end && (p =? s_cport s)
  | None => false
  end
  && addr_eqb (q_server q) (Some (s_host s, s_sport s))
  && (0 <=? q_proto q) && (q_proto q <? 2 ^ 64) && (wrap64 (q_proto q) =? s_proto s)
  && beq (q_user q) (s_user s)
  && beq (q_uid q) (show_uuid (s_uid s))
  && forall2b sent_target (s_targets s) (q_targets q).

Definition check_c19 (c : c19case) : Z :=
  match c with
  | DISC ws r =>
      if negb (forallb wf_wireb ws) then 4 else
      corr (match from_wire_list ws, r with
            | GOk ts, OOk os => forall2b rt_obs_eqb ts os
            | GErr e, OErr e' => gerr_eqb e e'
            | _, _ => false
            end)
      + moni (match r with
              | OOk os => forall2b same_target ws os
              | OErr _ => existsb malformed ws
              end)
  | SEL s seen reply r =>
      if negb (wf_selinb s && match reply with Some w => wf_wireb w | None => true end) then 4 else
      corr (match seen with Some q => req_eqb (build_request s) q | None => false end
            && match select_result reply, r with
               | GOk None, OOk None => true
               | GOk (Some t), OOk (Some o) => rt_obs_eqb t o
               | GErr e, OErr e' => gerr_eqb e e'
               | _, _ => false
               end)
      + moni (match seen with Some q => sent_request s q | None => false end
              && match reply, r with
                 | None, OOk None => true
                 | Some w, OOk (Some o) => same_target w o
                 | Some w, OErr _ => malformed w
                 | _, _ => false
                 end)
  end.

(* ------------------------------------------------------------------ Examples *)
Example ex_disc_ok :
  check_c19 (DISC [mkW (str "a") (Some (str "2001:DB8::1", 25565)) [(str "k", str "1"); (str "k", str "2")]]
                  (OOk [mkO (str "a") (str "2001:db8::1") 25565 [(str "k", str "2")]])) = 0.
Proof. vm_compute. reflexivity. Qed.
(* what the code before the fix does with the same reply: model disagrees and the monitor fires *)
Example ex_disc_old :
  check_c19 (DISC [mkW (str "a") (Some (str "2001:db8::1", 25565)) []] (OErr EHost)) = 3.
Proof. vm_compute. reflexivity. Qed.
(* a silently altered port would be caught by the monitor *)
Example ex_disc_altered :
  check_c19 (DISC [mkW (str "a") (Some (str "10.0.0.1", 65536)) []] (OOk [mkO (str "a") (str "10.0.0.1") 0 []])) = 3.
Proof. vm_compute. reflexivity. Qed.
Example ex_disc_first_wins_is_flagged :
  check_c19 (DISC [mkW (str "a") (Some (str "10.0.0.1", 1)) [(str "k", str "1"); (str "k", str "2")]]
                  (OOk [mkO (str "a") (str "10.0.0.1") 1 [(str "k", str "1")]])) = 3.
Proof. vm_compute. reflexivity. Qed.
Example ex_sel_ok :
  check_c19 (SEL (mkSel (V4 10 0 0 9) 50000 (str "mc.example.org") 25565 (-1) (str "Steve") 1
                        [mkR (str "l") (V6 [0; 0; 0; 0; 0; 0; 0; 1]) 25565 [(str "a", str "1"); (str "b", str "2")]])
                 (Some (mkReq (Some (str "10.0.0.9", 50000)) (Some (str "mc.example.org", 25565)) 18446744073709551615
                              (str "Steve") (str "00000000-0000-0000-0000-000000000001")
                              [mkW (str "l") (Some (str "::1", 25565)) [(str "b", str "2"); (str "a", str "1")]]))
                 (Some (mkW (str "l") (Some (str "::1", 25565)) [(str "b", str "2"); (str "a", str "1")]))
                 (OOk (Some (mkO (str "l") (str "::1") 25565 [(str "a", str "1"); (str "b", str "2")])))) = 0.
Proof. vm_compute. reflexivity. Qed.
