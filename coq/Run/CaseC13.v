(* Case record and checker for the rate limiter correspondence (C13).  No proofs here. *)
From Passage Require Import Lib.Bytes Limiter.F32 Limiter.Bucket Limiter.Limiter.

(* one history run on the real RateLimiter<u64> under a paused tokio clock:
   lim, d    : RateLimiter::new(Duration::from_nanos(d), lim), created at time 0
   hist      : the attempts (key, time in ns since creation), times non-decreasing
   dec       : what enqueue returned for each attempt
   trk       : verif_keys() (sorted ascending) after EVERY attempt, in order
   solo      : per key (ascending), what enqueue returned when only that key's attempts were
               replayed on a fresh limiter
   dup, dupr : the same history replayed on a fresh limiter with every REJECTED attempt made a
               second time at the same instant: dup = the decisions at the original attempts,
               dupr = the decisions of the inserted repetitions *)
Inductive c13case :=
| C13 (lim d : Z) (hist : list (Z * Z)) (dec : list bool) (trk : list (list Z))
      (solo : list (Z * list bool)) (dup dupr : list bool)
(* a burst: n attempts of one key at one instant on a fresh limiter, `admitted` of them admitted *)
| SAT (lim d n admitted : Z)
(* a crowd: one attempt each of `nkeys` distinct keys at one instant (all must be admitted), then
   `attempts` attempts of one further key at the same instant, `admitted` of them admitted; the
   crowd is too large to run through the model case by case - by C13_independent the further
   key's decisions are those of a fresh one-key limiter, which the model does run *)
| FLOOD (lim d nkeys crowd_admitted attempts admitted : Z).

Definition corr (b : bool) : Z := if b then 0 else 1.
Definition moni (b : bool) : Z := if b then 0 else 2.

Fixpoint bools_eqb (a b : list bool) : bool :=
  match a, b with
  | [], [] => true
  | x :: a', y :: b' => Bool.eqb x y && bools_eqb a' b'
  | _, _ => false
  end.
Fixpoint zs_eqb (a b : list Z) : bool :=
  match a, b with
  | [], [] => true
  | x :: a', y :: b' => (x =? y) && zs_eqb a' b'
  | _, _ => false
  end.
Fixpoint zss_eqb (a b : list (list Z)) : bool :=
  match a, b with
  | [], [] => true
  | x :: a', y :: b' => zs_eqb x y && zss_eqb a' b'
  | _, _ => false
  end.

Fixpoint monotone_from (t0 : Z) (h : list (Z * Z)) : bool :=
  match h with
  | [] => true
  | (_, t) :: r => (t0 <=? t) && monotone_from t r
  end.

Definition keys_of (h : list (Z * Z)) : list Z :=
  fold_right (fun kt acc => if existsb (Z.eqb (fst kt)) acc then acc else fst kt :: acc) [] h.

(* attempts zipped with the observed decisions *)
Definition obs := list (Z * Z * bool).
Fixpoint zip_dec (h : list (Z * Z)) (dec : list bool) : obs :=
  match h, dec with
  | (k, t) :: r, b :: dr => (k, t, b) :: zip_dec r dr
  | _, _ => []
  end.

(* ---- monitor, on the implementation's observation only ---- *)

(* (a) at most 2*lim admissions of one key in any closed interval of length d: it suffices to
   look at the intervals [t, t+d] that start at an admission of that key *)
Fixpoint admitted_within (k lo hi : Z) (o : obs) : Z :=
  match o with
  | [] => 0
  | (k', t, b) :: r =>
      (if b && (k' =? k) && (lo <=? t) && (t <=? hi) then 1 else 0) + admitted_within k lo hi r
  end.
Fixpoint mon_two_windows (lim d : Z) (o : obs) : bool :=
  match o with
  | [] => true
  | (k, t, b) :: r =>
      (if b then admitted_within k t (t + d) o <=? 2 * lim else true) && mon_two_windows lim d r
  end.

(* (b) a key that made no attempt for at least 2*d (or never) is admitted;
   `seen` = the attempts so far, most recent first *)
Fixpoint last_attempt (k : Z) (seen : list (Z * Z)) : option Z :=
  match seen with
  | [] => None
  | (k', t) :: r => if k =? k' then Some t else last_attempt k r
  end.
Fixpoint mon_idle (d : Z) (seen : list (Z * Z)) (o : obs) : bool :=
  match o with
  | [] => true
  | (k, t, b) :: r =>
      (match last_attempt k seen with
       | None => b
       | Some tp => if 2 * d <=? t - tp then b else true
       end) && mon_idle d ((k, t) :: seen) r
  end.

(* (c) after an ADMITTED attempt at time t every tracked key made an attempt at a time t'
   with t - t' < 4*d (the admitted attempt itself included); after rejected attempts nothing
   is claimed (the cleanup does not run on them, see LimiterProofs.tracked_stale_after_reject) *)
Definition recent (d t : Z) (seen : list (Z * Z)) (k : Z) : bool :=
  existsb (fun kt => (fst kt =? k) && (t - snd kt <? 4 * d)) seen.
Fixpoint mon_tracked (d : Z) (seen : list (Z * Z)) (o : obs) (trk : list (list Z)) : bool :=
  match o with
  | [] => match trk with [] => true | _ => false end
  | (k, t, b) :: r =>
      let seen' := (k, t) :: seen in
      match trk with
      | ks :: trk' => (if b then forallb (recent d t seen') ks else true) && mon_tracked d seen' r trk'
      | [] => false
      end
  end.

(* (d) the decisions for a key are those the implementation takes when the other keys'
   attempts are deleted *)
Definition decisions_of (k : Z) (o : obs) : list bool :=
  map snd (filter (fun x => fst (fst x) =? k) o).
Fixpoint solo_of (k : Z) (solo : list (Z * list bool)) : option (list bool) :=
  match solo with
  | [] => None
  | (k', l) :: r => if k =? k' then Some l else solo_of k r
  end.
Definition mon_independent (o : obs) (keys : list Z) (solo : list (Z * list bool)) : bool :=
  forallb (fun k => match solo_of k solo with
                    | Some l => bools_eqb (decisions_of k o) l
                    | None => false end) keys.

(* (e) rejected attempts consume nothing: repeating each rejected attempt at the same instant
   is rejected again and changes no other decision (the observable side of C13_reject_free) *)
Definition mon_reject_free (dec dup dupr : list bool) : bool :=
  bools_eqb dup dec && forallb negb dupr
  && (length dupr =? length (filter negb dec))%nat.

(* the history with every rejected attempt repeated, and which positions are repetitions *)
Fixpoint dup_hist (h : list (Z * Z)) (dec : list bool) : list (Z * Z * bool) :=
  match h, dec with
  | kt :: r, b :: dr => if b then (kt, false) :: dup_hist r dr else (kt, false) :: (kt, true) :: dup_hist r dr
  | _, _ => []
  end.

Definition monitor_c13 (lim d : Z) (hist : list (Z * Z)) (dec : list bool)
           (trk : list (list Z)) (solo : list (Z * list bool)) : bool :=
  let o := zip_dec hist dec in
  (length dec =? length hist)%nat
  && mon_two_windows lim d o
  && mon_idle d [] o
  && mon_tracked d [] o trk
  && mon_independent o (keys_of hist) solo.

(* ---- model side ---- *)
Definition model_dec (c : cfg) (hist : list (Z * Z)) : list bool :=
  map fst (lrun c (linit 0) hist).
Definition model_trk (c : cfg) (hist : list (Z * Z)) : list (list Z) :=
  map snd (lrun c (linit 0) hist).
Definition model_solo (c : cfg) (hist : list (Z * Z)) (k : Z) : list bool :=
  key_run c None (map snd (filter (fun kt => fst kt =? k) hist)).

(* result code: 0 = fine; +1 = model and implementation disagree; +2 = the property's
   monitor is false on the implementation's observation; 4 = skipped (outside the model) *)
Definition check_c13 (x : c13case) : Z :=
  match x with
  | C13 lim d hist dec trk solo dup dupr =>
      let c := Cfg lim d in
      if negb (cfg_ok c && (1 <=? lim) && monotone_from 0 hist) then 4 else
      corr (bools_eqb (model_dec c hist) dec
            (* the model on the history with the repetitions *)
            && (let dh := dup_hist hist dec in
                let md := model_dec c (map fst dh) in
                bools_eqb (map snd (filter (fun x => negb (snd (fst x))) (combine dh md))) dup
                && bools_eqb (map snd (filter (fun x => snd (fst x)) (combine dh md))) dupr)
            && zss_eqb (model_trk c hist) trk
            (* the one-key machine of the theorems, on each key's sub-history *)
            && forallb (fun k => match solo_of k solo with
                                 | Some l => bools_eqb (model_solo c hist k) l
                                 | None => false end) (keys_of hist))
      + moni (monitor_c13 lim d hist dec trk solo && mon_reject_free dec dup dupr)
  | SAT lim d n admitted =>
      let c := Cfg lim d in
      if negb (cfg_ok c && (1 <=? lim) && (0 <=? n)) then 4 else
      (* the model is run only on short bursts (about 1 ms per step); for the long burst of the
         saturation finding see Props/C13.v, C13_saturates *)
      (if n <=? 2000
       then corr (Z.of_nat (length (filter (fun b => b) (key_run c None (repeat 0 (Z.to_nat n))))) =? admitted)
       else 0)
      (* all attempts fall into one window: at most `lim` may pass *)
      + moni (admitted <=? lim)
  | FLOOD lim d nkeys crowd_admitted attempts admitted =>
      let c := Cfg lim d in
      if negb (cfg_ok c && (1 <=? lim) && (0 <=? attempts) && (attempts <=? 2000)) then 4 else
      corr (Z.of_nat (length (filter (fun b => b) (key_run c None (repeat 0 (Z.to_nat attempts))))) =? admitted)
      + moni ((admitted <=? lim) && (crowd_admitted =? nkeys))
  end.

(* the example of Limiter.v as a case *)
Example check_ok :
  check_c13 (C13 1 1000000000
    [(7, 0); (3, 0); (7, 500000000); (3, 2000000000); (3, 2000000001)]
    [true; true; false; true; false] [[7]; [3; 7]; [3; 7]; [3]; [3]]
    [(3, [true; true; false]); (7, [true; false])] [true; true; false; true; false] [false; false]) = 0.
Proof. vm_compute. reflexivity. Qed.
(* a wrong observation: a third admission of key 7 within one window (limit 1): both the
   correspondence and the monitor object *)
Example check_rejects_excess :
  check_c13 (C13 1 1000000000
    [(7, 0); (7, 1); (7, 2)] [true; true; true] [[7]; [7]; [7]] [(7, [true; true; true])] [true; true; true] []) = 3.
Proof. vm_compute. reflexivity. Qed.
(* a stale tracked key: 5 last attempted at 0 but is still reported at 4 s (d = 1 s) *)
Example check_rejects_stale :
  check_c13 (C13 1 1000000000
    [(5, 0); (7, 4000000000)] [true; true] [[5]; [5; 7]] [(5, [true]); (7, [true])] [true; true] []) = 3.
Proof. vm_compute. reflexivity. Qed.
(* an idle key turned away *)
Example check_rejects_idle :
  check_c13 (C13 1 1000000000
    [(5, 0); (5, 2000000000)] [true; false] [[5]] [(5, [true; false])] [true; false] [false]) = 3.
Proof. vm_compute. reflexivity. Qed.
(* interference: key 7 alone would be admitted *)
Example check_rejects_interference :
  check_c13 (C13 1 1000000000
    [(5, 0); (7, 0)] [true; false] [[5]] [(5, [true]); (7, [true])] [true; false] [false]) = 3.
Proof. vm_compute. reflexivity. Qed.

(* a limiter that counts rejected attempts: limit 1, d = 10 s; attempts at 0 (admitted), 1 ns
   (rejected), 12 s: with the rejected one repeated the attempt at 12 s is turned away *)
Example check_rejects_counted_rejections :
  check_c13 (C13 1 10000000000
    [(5, 0); (5, 1); (5, 12000000000)] [true; false; true] [[5]; [5]; [5]] [(5, [true; false; true])]
    [true; false; false] [false]) = 3.
Proof. vm_compute. reflexivity. Qed.

Example check_burst_ok : check_c13 (SAT 60 1000000000 100 60) = 0.
Proof. vm_compute. reflexivity. Qed.
(* the saturation finding as observed on the implementation: limit 2^24 + 2, all admitted *)
Example check_burst_saturated : check_c13 (SAT 16777218 10000000000 16778218 16778218) = 2.
Proof. vm_compute. reflexivity. Qed.
