(* Case record and correspondence checker for connection-level runs (M1).  No proofs. *)
From Passage Require Import Lib.Bytes Spec.McLayout Codec.VarInt Codec.Desc Gen.PacketsGen Gen.ConstsGen
  Codec.PacketCheck Crypto.Cookie Conn.Types Conn.Prog Conn.Sem1 Conn.Sem2 Conn.Monitor Conn.Order Conn.Checks Conn.Reader Conn.Switch.

Record conn_case := {
  cc_cfg : conn_cfg;
  cc_rsa : list (bytes * option bytes);
  cc_psess : list (bytes * jres (option session_cookie));
  cc_pauth : list (bytes * jres auth_cookie);
  cc_sauth : list (auth_cookie * bytes);
  cc_ssess : list (session_cookie * bytes);
  cc_status : cres * Z; cc_auth : cres * Z; cc_discover : cres * Z; cc_filter : cres * Z; cc_select : cres * Z;
  cc_loc : list ((option bytes * bytes) * cres);
  cc_token : bytes; cc_uuid : bytes; cc_kaids : list bytes; cc_now : Z;
  cc_inbox : inbox;
  (* observation of the implementation *)
  cc_sent : list (Z * Z * bytes);
  cc_calls : list (Z * call);
  cc_outcome : outcome; cc_end : Z;
  cc_flags : Z; cc_maxalloc : Z; cc_biggest_in : Z;
  cc_order : list Z;
  cc_note : string;
  cc_segs : list (Z * option bytes);   (* the client's plaintext byte stream as delivered: timed segments, None = end of stream *)
  cc_eof : Z;
  (* every poll_write the transport saw: (bytes offered, bytes accepted or -1 for Pending) *)
  cc_writes : list (Z * Z);
  cc_wsched : list (Z * option Z);  (* M3: instants at which the free room of the transport is set *)
  cc_loclat : Z;                    (* M3: how long localize() suspends *)
  cc_wire : list (Z * Z) }.         (* (instant, bytes accepted) per accepted write *)

Fixpoint lookup_b {A} (k : bytes) (l : list (bytes * A)) : option A :=
  match l with [] => None | (a, v) :: r => if beq a k then Some v else lookup_b k r end.

Definition auth_cookie_eqb (a b : auth_cookie) : bool :=
  (ac_ts a =? ac_ts b) && sa_eqb (ac_addr a) (ac_addr b) && beq (ac_name a) (ac_name b)
  && (ac_uuid a =? ac_uuid b) && obytes_eq (ac_target a) (ac_target b)
  && pprops_eqb (ac_props a) (ac_props b) && meta_eqb (ac_extra a) (ac_extra b).
Definition session_cookie_eqb (a b : session_cookie) : bool :=
  (sc_id a =? sc_id b) && beq (sc_host a) (sc_host b) && (sc_port a =? sc_port b).

Fixpoint lookup_by {K V} (eqb : K -> K -> bool) (k : K) (l : list (K * V)) : option V :=
  match l with [] => None | (a, v) :: r => if eqb a k then Some v else lookup_by eqb k r end.

Definition case_oracles (c : conn_case) : oracles := {|
  o_rsa := fun ct => match lookup_b ct (cc_rsa c) with Some r => r | None => None end;
  o_parse_session := fun p => match lookup_b p (cc_psess c) with Some r => r | None => JErr end;
  o_parse_auth := fun p => match lookup_b p (cc_pauth c) with Some r => r | None => JErr end;
  o_ser_auth := fun a => match lookup_by auth_cookie_eqb a (cc_sauth c) with Some b => b | None => [] end;
  o_ser_session := fun s => match lookup_by session_cookie_eqb s (cc_ssess c) with Some b => b | None => [] end |}.

Definition lockey_eqb (a b : option bytes * bytes) : bool := obytes_eq (fst a) (fst b) && beq (snd a) (snd b).

Definition case_env (c : conn_case) : env := {|
  e_res := fun cl => match cl with
    | CStatus _ _ _ _ => cc_status c
    | CAuth _ _ _ _ _ _ _ _ => cc_auth c
    | CDiscover => cc_discover c
    | CFilter _ _ _ _ _ _ _ => cc_filter c
    | CSelect _ _ _ _ _ _ _ => cc_select c
    | CLocalize l k => (match lookup_by lockey_eqb (l, k) (cc_loc c) with Some r => r | None => RErr end, cc_loclat c)
    end;
  e_fresh := fun w n => match w with
    | RToken => cc_token c
    | RUuid => cc_uuid c
    | RKeepAlive => nth n (cc_kaids c) []
    end;
  e_now := fun _ => cc_now c |}.

(* frame-level inbox: as scripted, or - when the harness delivered raw bytes - what the
   byte-level reader (Conn/Reader.v) makes of the segments *)
Definition case_inbox (c : conn_case) : inbox :=
  if Z.testbit (cc_flags c) 0 then frames_of (cf_max_len (cc_cfg c)) (cc_segs c) else cc_inbox c.

Definition case_trace (c : conn_case) : trace :=
  run1 (case_oracles c) (cc_cfg c) (case_env c) (case_inbox c).

(* projections of a trace *)
(* the layout the protocol table (Spec/McLayout.v) gives a packet; falls back to the generated one *)
Definition spec_kinds (p : packet) : list fk :=
  match find_layout p mc_layout with
  | Some l => match l_fields l with Some ks => ks | None => rkinds p end
  | None => rkinds p
  end.
(* what the model writes: the generated descriptor; when the translator could not parse the
   packet's impl any more, the protocol table (so that such cases are still compared) *)
Definition mkinds (p : packet) : list fk := if p_parsed p then kinds p else spec_kinds p.

Fixpoint tr_sent (tr : trace) : option (list (Z * Z * bytes)) :=
  match tr with
  | [] => Some []
  | (t, TSend p vs) :: r =>
      match enc (mkinds p) vs, tr_sent r with
      | Some b, Some l => Some ((t, p_id p, b) :: l)
      | _, _ => None
      end
  | _ :: r => tr_sent r
  end.
Fixpoint tr_calls (tr : trace) : list (Z * call) :=
  match tr with
  | [] => []
  | (t, TCall c) :: r => (t, c) :: tr_calls r
  | _ :: r => tr_calls r
  end.
Fixpoint tr_end (tr : trace) : option (Z * outcome) :=
  match tr with
  | [] => None
  | (t, TEnd o) :: _ => Some (t, o)
  | _ :: r => tr_end r
  end.

Fixpoint sent_eqb (a b : list (Z * Z * bytes)) : bool :=
  match a, b with
  | [], [] => true
  | (t, i, x) :: a', (t', i', x') :: b' => (t =? t') && (i =? i') && beq x x' && sent_eqb a' b'
  | _, _ => false
  end.
Fixpoint calls_eqb (a b : list (Z * call)) : bool :=
  match a, b with
  | [], [] => true
  | (t, c) :: a', (t', c') :: b' => (t =? t') && call_eqb c c' && calls_eqb a' b'
  | _, _ => false
  end.

(* 0 fine; 1 model <> implementation; 4 outside M1 (unframed input, JSON text component) *)
(* frames whose id VarInt is longer than one byte are mis-framed by receive_packet (it reads
   `length - 1` body bytes): a byte-level effect, covered by M2 / C08 *)
Definition multibyte_id (c : conn_case) : bool :=
  existsb (fun x => match snd x with IFrame id _ => (id <? 0) || (127 <? id) | _ => false end) (cc_inbox c).

Definition corr_conn (c : conn_case) : Z :=
  let tr := case_trace c in
  match tr_sent tr with
  | None => 4
  | Some ms =>
      (* flag bit 2: the transport delayed writes (Pending); M1 has instantaneous writes, so
         such runs are compared without the send / call / end times *)
      let untimed := Z.testbit (cc_flags c) 2 in
      let strip (l : list (Z * Z * bytes)) := if untimed then map (fun x => (0, snd (fst x), snd x)) l else l in
      let stripc (l : list (Z * call)) := if untimed then map (fun x => (0, snd x)) l else l in
      if sent_eqb (strip ms) (strip (cc_sent c)) && calls_eqb (stripc (tr_calls tr)) (stripc (cc_calls c))
         && match tr_end tr with
            | Some (t, o) => outcome_eqb o (cc_outcome c) && (untimed || (t =? cc_end c))
            | None => false
            end
      then 0 else 1
  end.

(* diagnostics for replays: which component differs (bit 0 sends, 1 calls, 2 outcome, 3 end time) *)
Definition corr_diag (c : conn_case) : Z :=
  let tr := case_trace c in
  (match tr_sent tr with Some ms => if sent_eqb ms (cc_sent c) then 0 else 1 | None => 1 end)
  + (if calls_eqb (tr_calls tr) (cc_calls c) then 0 else 2)
  + (match tr_end tr with Some (t, o) => (if outcome_eqb o (cc_outcome c) then 0 else 4) + (if t =? cc_end c then 0 else 8) | None => 12 end).

(* ------------------------------------------------------------------------------------
   The implementation's own trace, for evaluating the property monitors on what the real
   code did.  Observable events (sends, adapter calls, their results, the end) are the
   implementation's, in the order the harness saw them; events that cannot be observed
   from outside (frame consumption, fresh values, clock reads, encryption switch, ticks)
   are taken from the model's run and kept in their relative position. *)

Definition intent_of (c : conn_case) : Z :=
  match case_inbox c with
  | (_, IFrame _ b) :: _ =>
      match dec vi vl (rkinds handshake_sb_HandshakePacket) b with
      | Ok [_; _; _; VZ st] _ => st
      | _ => -1
      end
  | _ => -1
  end.

Definition unknown_packet : packet :=
  {| p_state := "?"; p_dir := "?"; p_name := "?"; p_id := -1; p_parsed := false; p_fields := [];
     p_write := []; p_read := [] |}.

(* which clientbound packet an observed (id, body) is: by phase *)
Definition cb_packet (status : bool) (config : bool) (id : Z) : packet :=
  if config then
    (if id =? 2 then configuration_cb_DisconnectPacket
     else if id =? 4 then configuration_cb_KeepAlivePacket
     else if id =? 10 then configuration_cb_StoreCookiePacket
     else if id =? 11 then configuration_cb_TransferPacket
     else unknown_packet)
  else if status then
    (if id =? 0 then status_cb_StatusResponsePacket else if id =? 1 then status_cb_PongPacket else unknown_packet)
  else
    (if id =? 1 then login_cb_EncryptionRequestPacket
     else if id =? 2 then login_cb_LoginSuccessPacket
     else if id =? 5 then login_cb_CookieRequestPacket
     else unknown_packet).

(* an observed clientbound packet is decoded by the protocol layout, not by the crate's own
   reader, and must be canonical: re-encoding the decoded values gives back exactly the bytes
   sent (a port written as a negative VarInt, a flag written as 2, an over-long VarInt are
   what a real client would mis-read).  JSON-form text components are outside [enc]. *)
Definition obs_decode (p : packet) (body : bytes) : tev :=
  match dec vi vl (spec_kinds p) body with
  | Ok vs [] =>
      match enc (spec_kinds p) vs with
      | Some b => if beq b body then TSend p vs else TSend unknown_packet []
      | None => TSend p vs
      end
  | _ => TSend unknown_packet []
  end.

Fixpoint obs_sends (status config : bool) (l : list (Z * Z * bytes)) : list tev :=
  match l with
  | [] => []
  | (_, id, body) :: r =>
      let p := cb_packet status config id in
      let ev := obs_decode p body in
      ev :: obs_sends status (config || (negb status && (id =? 2))) r
  end.

Definition res_for (c : conn_case) (cl : call) : cres := fst (e_res (case_env c) cl).

(* merge sends and calls by the recorded global order; each call is followed by its result
   immediately when it is an un-raced call (status, auth, localize) and before the first
   later observable event for raced calls - for the monitors only the relative order of
   observable events matters *)
Fixpoint merge_obs (c : conn_case) (ord : list Z) (sends : list tev) (calls : list (Z * call))
    (pending : option call) : list tev :=
  match ord with
  | [] => match pending with Some cl => [TRes cl (res_for c cl)] | None => [] end
  | k :: ord' =>
      if k =? 0 then
        match sends with
        | s :: sends' =>
            let is_ka := match s with TSend p _ => is_pkt p configuration_cb_KeepAlivePacket | _ => false end in
            let is_timeout_disc := false in
            if is_ka || is_timeout_disc then s :: merge_obs c ord' sends' calls pending
            else match pending with
                 | Some cl => TRes cl (res_for c cl) :: s :: merge_obs c ord' sends' calls None
                 | None => s :: merge_obs c ord' sends' calls None
                 end
        | [] => []
        end
      else
        match calls with
        | (_, cl) :: calls' =>
            let pre := match pending with Some p => [TRes p (res_for c p)] | None => [] end in
            (* a timeout localisation happens while the raced call is still pending *)
            match cl, pending with
            | CLocalize _ key, Some p =>
                if beq key key_timeout then TCall cl :: TRes cl (res_for c cl) :: merge_obs c ord' sends calls' None
                else pre ++ TCall cl :: merge_obs c ord' sends calls' (Some cl)
            | _, _ => pre ++ TCall cl :: merge_obs c ord' sends calls' (Some cl)
            end
        | [] => []
        end
  end.

Definition observable (e : tev) : bool :=
  match e with TSend _ _ | TCall _ | TRes _ _ | TEnd _ => true | _ => false end.

Fixpoint hybrid (model obs : list tev) : list tev :=
  match model with
  | [] => obs
  | e :: r =>
      if observable e then
        match obs with
        | ob :: obs' => ob :: hybrid r obs'
        | [] => []
        end
      else match obs with
           | [] => []
           | [TEnd _] =>
               (* the implementation is about to end: it consumed the frames the model consumed
                  before its next observable action, but nothing says it drew fresh values *)
               match e with TRecv _ _ => e :: hybrid r obs | _ => hybrid r obs end
           | _ => e :: hybrid r obs
           end
  end.

Definition obs_trace (c : conn_case) : list tev :=
  let status := intent_of c =? 0 in
  let sends := obs_sends status false (cc_sent c) in
  let obs := merge_obs c (cc_order c) sends (cc_calls c) None ++ [TEnd (cc_outcome c)] in
  hybrid (untime (case_trace c)) obs.

(* ---- M2: the byte-level model, which takes the cancellation / deferral effects into
   account.  Compared with the implementation on the raw timed segments, in every class. *)
Definition case_trace2 (c : conn_case) : trace :=
  run2 (case_oracles c) (cc_cfg c) (case_env c) (cc_segs c).

Definition corr_gen (tr : trace) (c : conn_case) : Z :=
  match tr_sent tr with
  | None => 4
  | Some ms =>
      let untimed := Z.testbit (cc_flags c) 2 in
      let strip (l : list (Z * Z * bytes)) := if untimed then map (fun x => (0, snd (fst x), snd x)) l else l in
      let stripc (l : list (Z * call)) := if untimed then map (fun x => (0, snd x)) l else l in
      (* tokio's select! without `biased` starts polling at a random branch: when the
         keep-alive branch fails in the very instant a raced adapter call is started, the
         call may or may not have been issued.  Both are accepted, for that last call only. *)
      let mc := tr_calls tr in
      let last_at_end := match List.rev mc, tr_end tr with
                         | (tc, _) :: _, Some (te, OErr _) => tc =? te
                         | _, _ => false end in
      if sent_eqb (strip ms) (strip (cc_sent c))
         && (calls_eqb (stripc mc) (stripc (cc_calls c))
             || (last_at_end && calls_eqb (stripc (removelast mc)) (stripc (cc_calls c))))
         && match tr_end tr with
            | Some (t, o) => outcome_eqb o (cc_outcome c) && (untimed || (t =? cc_end c))
            | None => false
            end
      then 0 else 1
  end.
Definition corr_conn2 (c : conn_case) : Z := corr_gen (case_trace2 c) c.
Definition corr_diag2 (c : conn_case) : Z :=
  let tr := case_trace2 c in
  (match tr_sent tr with Some ms => if sent_eqb ms (cc_sent c) then 0 else 1 | None => 1 end)
  + (if calls_eqb (tr_calls tr) (cc_calls c) then 0 else 2)
  + (match tr_end tr with Some (t, o) => (if outcome_eqb o (cc_outcome c) then 0 else 4) + (if t =? cc_end c then 0 else 8) | None => 12 end).

(* both models must reproduce the run: M1 on the frames, M2 on the delivered bytes *)
Definition corr_both (c : conn_case) : Z :=
  let k := corr_conn c in if k =? 0 then corr_conn2 c else k.

Definition moni (b : bool) : Z := if b then 0 else 2.

(* "A Status-intent connection is answered with exactly one Status Response and one Pong": when the client's
   well-formed Status Request arrived and the status service answered, the response was sent; when its Ping
   arrived as well, so was the Pong with the same payload.  (The order automaton alone accepts a connection
   that ends with an error instead of answering.) *)
Definition status_answered (c : conn_case) : bool :=
  if negb (intent_of c =? 0) then true else
  match case_inbox c with
  | (_, IFrame 0 _) :: (_, IFrame 0 []) :: rest =>
      match fst (cc_status c) with
      | RStatus _ =>
          existsb (fun x => snd (fst x) =? 0) (cc_sent c)
          && match rest with
             | (_, IFrame 1 payload) :: _ =>
                 if Nat.eqb (length payload) 8
                 then existsb (fun x => (snd (fst x) =? 1) && beq (snd x) payload) (cc_sent c) else true
             | _ => true
             end
      | _ => true
      end
  | _ => true
  end.

(* correspondence + the property's monitor on the implementation's trace *)
Definition check_with (chk : oracles -> conn_cfg -> mst -> tev -> bool) (c : conn_case) : Z :=
  let k := corr_both c in
  if k =? 4 then 4
  else k + moni (accepts (step_with (chk (case_oracles c) (cc_cfg c))) m_init (obs_trace c)
                 && negb (outcome_eqb (cc_outcome c) (OErr KPanic))     (* a crashed handler satisfies nothing *)
                 && negb (Z.testbit (cc_flags c) 4)     (* nothing may follow an Encryption Response whose secret is no AES-128 key *)
                 && negb (Z.testbit (cc_flags c) 5)     (* the handler kept reading (> 1000 times) after the end of the client's stream *)
                 && status_answered c).

Definition check_c06 := check_with (fun _ _ => chk_c06).
Definition check_c01 := check_with chk_c01.
Definition check_c02 := check_with chk_c02.
Definition check_c03 := check_with (fun _ _ => chk_c03).
Definition check_c10 := check_with chk_c10.
Definition check_order := check_with (fun _ _ => chk_true).

(* C05 at connection level: the switch monitor (Conn/Switch.v) on the implementation's trace.
   The harness client decrypts what it receives with an independent CFB8 from the moment it
   sent its Encryption Response: a handler that switches too early, too late, twice or with
   another key makes the following packets undecodable (unknown_packet), which no phase admits *)
Definition check_c05c (c : conn_case) : Z :=
  let k := corr_both c in
  if k =? 4 then 4
  else k + moni (switch_ok (obs_trace c)
                 && accepts (step_with chk_true) m_init (obs_trace c)
                 && negb (outcome_eqb (cc_outcome c) (OErr KPanic))).

(* ---- C10: two-connection histories, judged on the implementation's observations alone ---- *)
Record pair_case := {
  pp_stored : option bytes;              (* auth cookie the first connection stored *)
  pp_secret : bool;                      (* a secret is configured *)
  pp_within : bool;                      (* second connection within the expiry *)
  pp_same_ip : bool;
  pp_ident1 : option (Z * bytes);        (* (uuid, name) of the first Login Success *)
  pp_ident2 : option (Z * bytes);
  pp_flag2 : option bool;                (* should_authenticate of the second Encryption Request *)
  pp_auth_called2 : bool;
  pp_issued1 : bool }.                   (* the first connection was routed (outcome Ok) *)

Definition ident_eqb (a b : option (Z * bytes)) : bool :=
  match a, b with
  | Some (u, n), Some (u', n') => (u =? u') && beq n n'
  | _, _ => false
  end.

Definition check_c10_pair (p : pair_case) : Z :=
  moni (
    (* a routed, freshly authenticated player got a cookie iff a secret is configured *)
    (if pp_issued1 p then Bool.eqb (match pp_stored p with Some _ => true | None => false end) (pp_secret p) else true)
    && match pp_stored p, pp_flag2 p with
       | Some _, Some flag =>
           if pp_within p && pp_same_ip p
           then negb flag && negb (pp_auth_called2 p) && ident_eqb (pp_ident1 p) (pp_ident2 p)
           else flag                       (* expired or other IP: told to authenticate *)
       | None, Some flag => flag           (* nothing stored: nothing to present *)
       | _, None => true                   (* the second connection ended before the request *)
       end).

(* ---- C07 on the implementation's observation: keep-alive sends (with their times),
   the frames the client sent (arrival times), the timeout localisation call and the end ---- *)
From Passage Require Import Conn.KeepAlive Conn.KeepAliveWhole.

(* the gap monitor (Conn/KeepAliveWhole.v) on an observation: results of raced calls are not
   observable, so "the selection adapter has answered" is the first action after the select
   call that only the continuation performs (a packet other than Keep Alive, a call, the end) *)
Fixpoint c07g_obs (st : Z * option Z * bool) (sel : bool) (tr : trace) : bool :=
  match tr with
  | [] => true
  | ev :: r =>
      match c07g_step st ev with
      | None => false
      | Some (st', live') =>
          let is_sel_call := match snd ev with TCall c => is_select c | _ => false end in
          let closes := sel && match snd ev with
                               | TSend p _ => negb (is_ka p) | TCall _ => true | TEnd _ => true | _ => false end in
          c07g_obs (st', live' && negb closes) (sel || is_sel_call) r
      end
  end.

Fixpoint merge_timed (a b : trace) (fuel : nat) : trace :=
  match fuel with
  | O => a ++ b
  | S f =>
      match a, b with
      | [], _ => b
      | _, [] => a
      | (ta, ea) :: a', (tb, eb) :: b' =>
          if ta <=? tb then (ta, ea) :: merge_timed a' b f else (tb, eb) :: merge_timed a b' f
      end
  end.

Definition obs_c07 (c : conn_case) : bool :=
  let status := intent_of c =? 0 in
  (* time of Login Success *)
  match find (fun x => match x with (_, id, _) => id =? 2 end) (cc_sent c) with
  | None => true
  | Some (ts, _, _) =>
      if status then true else
      match find (fun x => match x with (t, IFrame id _) => (ts <=? t) && (id =? 3) | _ => false end) (case_inbox c) with
      | None => true
      | Some (tack, _) =>
          let frames := map (fun x => match x with
                                      | (t, IFrame id b) => (t, TRecv id b)
                                      | (t, _) => (t, TTick) end)
                            (filter (fun x => (tack <? fst x) && (fst x <=? cc_end c)) (case_inbox c)) in
          let sends := map (fun x => match x with (t, id, body) =>
                              let p := cb_packet false true id in
                              (t, obs_decode p body) end)
                           (filter (fun x => match x with (t, _, _) => tack <=? t end)
                                   (filter (fun x => match x with (_, id, _) => negb (id =? 2) || false end) (cc_sent c))) in
          let sends := filter (fun x => match snd x with TSend p _ => negb (is_pkt p login_cb_LoginSuccessPacket) | _ => true end) sends in
          let calls := map (fun x => (fst x, TCall (snd x))) (filter (fun x => tack <=? fst x) (cc_calls c)) in
          let n := (length frames + length sends + length calls + 2)%nat in
          let tr := merge_timed (merge_timed frames calls n) sends (2 * n) ++ [(cc_end c, TEnd (cc_outcome c))] in
          c07g_obs (tack, None, true) false tr
      end
  end.

Definition check_c07 (c : conn_case) : Z :=
  let k := corr_both c in
  if k =? 4 then 4 else k + moni (obs_c07 c && negb (outcome_eqb (cc_outcome c) (OErr KPanic))).

(* ---- C04 on the implementation's observation ---- *)
Fixpoint first_badlen (ib : inbox) : option Z :=
  match ib with
  | [] => None
  | (t, IBadLen) :: _ => Some t
  | _ :: r => first_badlen r
  end.

Definition obs_c04 (c : conn_case) : bool :=
  let maxl := cf_max_len (cc_cfg c) in
  (* no crash, and the handler did end after the client's end of stream *)
  negb (outcome_eqb (cc_outcome c) (OErr KPanic))
  && negb (outcome_eqb (cc_outcome c) OHang)
  (* no allocation out of proportion to the configured maximum / the bytes received *)
  && (cc_maxalloc c <=? 4 * Z.max maxl (cc_biggest_in c) + 65536)
  (* a refused length is refused when its prefix is complete, not when the body arrives:
     reader specification (Conn/Reader.v) on the delivered segments *)
  && match first_badlen (frames_of maxl (cc_segs c)), cc_outcome c with
     | Some tb, OErr KIllegalLen => cc_end c <=? tb
     | _, _ => true
     end.

Definition check_c04 (c : conn_case) : Z := corr_conn c + moni (obs_c04 c && negb (Z.testbit (cc_flags c) 5)).

(* the same frames whether delivered whole or in pieces: when the input was framed, the
   reader applied to the raw segments must give back the scripted frames *)
Fixpoint inbox_eqb (a b : inbox) : bool :=
  match a, b with
  | [], [] => true
  | (t, IFrame i x) :: a', (t', IFrame i' x') :: b' => (t =? t') && (i =? i') && beq x x' && inbox_eqb a' b'
  | (t, IEof) :: a', (t', IEof) :: b' => (t =? t') && inbox_eqb a' b'
  | (t, IBadLen) :: a', (t', IBadLen) :: b' => (t =? t') && inbox_eqb a' b'
  | _, _ => false
  end.

Definition check_c08 (c : conn_case) : Z :=
  corr_conn c
  + moni (negb (outcome_eqb (cc_outcome c) (OErr KPanic))
          && negb (Z.testbit (cc_flags c) 1)                       (* every frame sent to the client arrived whole *)
          && (if Z.testbit (cc_flags c) 0 then true
              else match first_badlen (frames_of (cf_max_len (cc_cfg c)) (cc_segs c)) with
                   | Some _ => true      (* an over-long frame: the reader refuses it, M1's length check does the same *)
                   | None => inbox_eqb (frames_of (cf_max_len (cc_cfg c)) (cc_segs c)) (cc_inbox c)
                   end)).

(* segmented vs unsegmented run of one scenario, on the observations alone *)
Record seg_pair := {
  sp_ids0 : list Z; sp_ids1 : list Z;         (* ids of the packets sent *)
  sp_calls0 : list Z; sp_calls1 : list Z;     (* kinds of the services consulted *)
  sp_out0 : outcome; sp_out1 : outcome;
  sp_garbled : bool }.

Fixpoint zl_eqb (a b : list Z) : bool :=
  match a, b with [], [] => true | x :: a', y :: b' => (x =? y) && zl_eqb a' b' | _, _ => false end.

(* keep-alives depend on how long the run takes: compare the packets other than Keep Alive *)
Definition no_ka (l : list Z) : list Z := filter (fun i => negb (i =? 4)) l.

Definition check_seg_pair (p : seg_pair) : Z :=
  moni (negb (sp_garbled p) && zl_eqb (no_ka (sp_ids0 p)) (no_ka (sp_ids1 p))
        && zl_eqb (sp_calls0 p) (sp_calls1 p) && outcome_eqb (sp_out0 p) (sp_out1 p)).

(* ---- known cancellation / deferral classes (C08), decided by evaluation ----
   [frame_spans]: for every frame of the byte stream, the time its first byte arrived and
   the time it was complete.  A schedule is in a known class when the model's run has a
   keep-alive tick or a raced adapter completion strictly inside such a span: the real
   handler reads the frame id and body outside its select!, so a tick due then is deferred
   until the frame is complete (K4), and when the outer select! drops the keep-alive
   branch the partly read frame is lost (K1). *)
Fixpoint timed_bytes (s : list (Z * option bytes)) : list (Z * Z) :=
  match s with
  | [] => []
  | (t, Some bs) :: r => map (fun b => (t, b)) bs ++ timed_bytes r
  | (_, None) :: _ => []
  end.

Fixpoint spans_from (max : Z) (st : rst) (start : Z) (l : list (Z * Z)) : list (Z * Z) :=
  match l with
  | [] => match st with RIdle | RDead => [] | _ => [(start, 10 ^ 15)] end   (* never completed *)
  | (t, b) :: r =>
      let start' := match st with RIdle => t | _ => start end in
      let (st', evs) := feed_byte max st b in
      match evs with
      | [] => spans_from max st' start' r
      | _ => (start', t) :: spans_from max st' start' r
      end
  end.
Definition frame_spans (c : conn_case) : list (Z * Z) :=
  spans_from (cf_max_len (cc_cfg c)) RIdle 0 (timed_bytes (cc_segs c)).

Definition inside (spans : list (Z * Z)) (t : Z) : bool :=
  existsb (fun sp => (fst sp <=? t) && (t <? snd sp)) spans.

Definition cancel_class (c : conn_case) : Z :=
  let sp := frame_spans c in
  let tr := case_trace c in
  if existsb (fun ev => match snd ev with
                        | TRes (CDiscover) _ | TRes (CFilter _ _ _ _ _ _ _) _ | TRes (CSelect _ _ _ _ _ _ _) _ => inside sp (fst ev)
                        | _ => false end) tr then 1
  else if existsb (fun ev => match snd ev with TTick => inside sp (fst ev) | _ => false end) tr then 2
  else if existsb (fun sp1 => existsb (fun k => (fst sp1 <=? k * P) && (k * P <? snd sp1)) [1; 2; 3; 4; 5; 6; 7; 8; 9; 10; 20; 30; 37; 38]) sp
       then 2
  else 0.

(* the length prefixes that arrive in more than one piece: (first byte, last byte of the prefix) *)
Fixpoint pspans_from (max : Z) (st : rst) (start : Z) (l : list (Z * Z)) : list (Z * Z) :=
  match l with
  | [] => match st with RLen _ _ => [(start, 10 ^ 15)] | _ => [] end
  | (t, b) :: r =>
      let start' := match st with RIdle => t | _ => start end in
      let st' := fst (feed_byte max st b) in
      match st, st' with
      | RLen _ _, RLen _ _ => pspans_from max st' start' r
      | RLen _ _, _ => (start', t) :: pspans_from max st' start' r
      | _, _ => pspans_from max st' start' r
      end
  end.

(* the schedules on which the UNCHANGED handler is known to depend on segmentation / timing:
   1 = a raced adapter call completes inside a frame (K1); 2 = a keep-alive tick that is acted
   upon falls inside a frame, or any tick falls inside a split length prefix (K4).  A tick inside
   the BODY of a frame while keep-alive handling is off is harmless (deferred and then skipped). *)
Definition harmful_class (c : conn_case) : Z :=
  let sp := frame_spans c in
  let psp := pspans_from (cf_max_len (cc_cfg c)) RIdle 0 (timed_bytes (cc_segs c)) in
  let tr := case_trace c in
  if existsb (fun ev => match snd ev with
                        | TRes (CDiscover) _ | TRes (CFilter _ _ _ _ _ _ _) _ | TRes (CSelect _ _ _ _ _ _ _) _ => inside sp (fst ev)
                        | _ => false end) tr then 1
  else if existsb (fun ev => match snd ev with TTick => inside sp (fst ev) | _ => false end) tr then 2
  else if existsb (fun sp1 => existsb (fun k => (fst sp1 <=? k * P) && (k * P <? snd sp1)) [1; 2; 3; 4; 5; 6; 7; 8; 9; 10; 20; 30; 37; 38]) psp
       then 2
  else 0.

(* final verdicts for the byte-level families: a disagreement inside a known class is
   reported as 16 * class (+2 if the monitor is false too): a listed known finding, never silently dropped *)
Definition with_class (c : conn_case) (code : Z) : Z :=
  if (Z.testbit code 0) && negb (cancel_class c =? 0) then (code - 1) + 16 * cancel_class c else code.

Definition check_c04b (c : conn_case) : Z := with_class c (check_c04 c).
Definition check_c08b (c : conn_case) : Z := with_class c (check_c08 c).

(* what C08 compares: the packets sent (Keep Alive left out: how many there are depends on
   how long the run takes), the services consulted, the outcome *)
Definition obs_untimed (tr : trace) : list (Z * bytes) * list call * option outcome :=
  (match tr_sent tr with
   | Some l => map (fun x => (snd (fst x), snd x)) (filter (fun x => negb (snd (fst x) =? 4) || negb (Z.of_nat (length (snd x)) =? 8)) l)
   | None => [] end,
   map snd (tr_calls tr),
   match tr_end tr with Some (_, o) => Some o | None => None end).

Fixpoint idb_eqb (a b : list (Z * bytes)) : bool :=
  match a, b with
  | [], [] => true
  | (i, x) :: a', (j, y) :: b' => (i =? j) && beq x y && idb_eqb a' b'
  | _, _ => false
  end.
Fixpoint callsu_eqb (a b : list call) : bool :=
  match a, b with [], [] => true | x :: a', y :: b' => call_eqb x y && callsu_eqb a' b' | _, _ => false end.

Definition obsu_eqb (a b : list (Z * bytes) * list call * option outcome) : bool :=
  idb_eqb (fst (fst a)) (fst (fst b)) && callsu_eqb (snd (fst a)) (snd (fst b))
  && match snd a, snd b with Some x, Some y => outcome_eqb x y | None, None => true | _, _ => false end.

(* does this schedule make the byte-level behaviour differ from the frame-level one?
   0 no; 16 * class otherwise (class 3 = outside the two known classes) *)
Definition m1m2_class (c : conn_case) : Z :=
  let m1 := run1 (case_oracles c) (cc_cfg c) (case_env c) (frames_of (cf_max_len (cc_cfg c)) (cc_segs c)) in
  (* since the repair of receive_packet the two models agree on EVERY schedule (C08_refines); a
     difference here would contradict that theorem *)
  if obsu_eqb (obs_untimed m1) (obs_untimed (case_trace2 c)) then 0 else 16 * 3.

(* C08: exact correspondence with M2 on every schedule; the monitor on the observation; and
   the schedules on which segmentation / timing changes the behaviour, by class *)
(* every frame the client received is a complete, canonical packet of the phase it is in: a torn
   or interleaved frame (e.g. the rest of a Keep Alive overtaken by the next packet) decodes as
   garbage *)
Definition sends_wellformed (c : conn_case) : bool :=
  forallb (fun e => match e with TSend p _ => negb (String.eqb (p_name p) "?") | _ => true end)
          (obs_sends (intent_of c =? 0) false (cc_sent c)).

(* the property itself on the implementation's observation: on EVERY schedule the handler does
   exactly what it does when every frame arrives whole (M1 on the reader's output) - packets sent
   (Keep Alive left out), services consulted, outcome.  (Before the repair of receive_packet the
   classes K1 / K4 had to be exempted: [harmful_class] above is what they were.) *)
Definition obs_untimed_impl (c : conn_case) : list (Z * bytes) * list call * option outcome :=
  (map (fun x => (snd (fst x), snd x)) (filter (fun x => negb (snd (fst x) =? 4) || negb (Z.of_nat (length (snd x)) =? 8)) (cc_sent c)),
   map snd (cc_calls c), Some (cc_outcome c)).
Definition seg_independent (c : conn_case) : bool :=
  let m1 := run1 (case_oracles c) (cc_cfg c) (case_env c) (frames_of (cf_max_len (cc_cfg c)) (cc_segs c)) in
  let om := obs_untimed m1 in
  (* as in corr_gen: when the keep-alive branch fails in the very instant a raced call is started,
     tokio's unbiased select! may or may not have issued that last call *)
  let mc := tr_calls m1 in
  let last_at_end := match List.rev mc, tr_end m1 with
                     | (tc, _) :: _, Some (te, OErr _) => tc =? te
                     | _, _ => false end in
  obsu_eqb om (obs_untimed_impl c)
  || (last_at_end && obsu_eqb (fst (fst om), removelast (snd (fst om)), snd om) (obs_untimed_impl c)).

(* the write side against Conn/SendQueue.v: what send_packet OFFERS to the stream at every
   poll_write is exactly the queue of the model (the rest of an interrupted frame followed by the
   frames sent since), for the frames the client eventually received.  [frames] = wire lengths of
   the frames still to come, in order. *)
Definition wire_len (id : Z) (body : bytes) : Z :=
  let inner := Z.of_nat (length (write_varint id) + length body) in
  Z.of_nat (length (write_varint inner)) + inner.
Fixpoint writes_ok (fuel : nat) (unsent : Z) (frames : list Z) (ws : list (Z * Z)) : bool :=
  match ws with
  | [] => true
  | (offered, acc) :: r =>
      match fuel with
      | O => false
      | S f =>
          if offered =? unsent then
            (if acc <? 0 then writes_ok f unsent frames r
             else (acc <=? offered) && writes_ok f (unsent - acc) frames r)
          else if unsent <? offered then
            match frames with
            | fl :: frames' => writes_ok f (unsent + fl) frames' ws     (* another frame was queued *)
            | [] => true        (* a frame the client never saw completely (the connection ended) *)
            end
          else false            (* fewer bytes offered than are queued: part of a frame was dropped *)
      end
  end.
Definition obs_writes (c : conn_case) : bool :=
  writes_ok (2 * (length (cc_writes c) + length (cc_sent c)) + 4) 0
            (map (fun x => wire_len (snd (fst x)) (snd x)) (cc_sent c)) (cc_writes c).

Definition check_c08c (c : conn_case) : Z :=
  let k := corr_conn2 c in
  if k =? 4 then 4 else
  k + moni (negb (outcome_eqb (cc_outcome c) (OErr KPanic))
            && negb (Z.testbit (cc_flags c) 1)
            && negb (Z.testbit (cc_flags c) 5)
            && sends_wellformed c
            && obs_writes c
            && seg_independent c
            && (if Z.testbit (cc_flags c) 0 then true
                else match first_badlen (frames_of (cf_max_len (cc_cfg c)) (cc_segs c)) with
                     | Some _ => true
                     | None => inbox_eqb (frames_of (cf_max_len (cc_cfg c)) (cc_segs c)) (cc_inbox c)
                     end))
    + m1m2_class c.

(* "a frame whose declared length is non-positive or exceeds the configured maximum is refused before
   its body is buffered": when the handler of the model meets such a prefix (it refuses at the instant
   the prefix is complete), the implementation must have refused by then too - not gone on reading *)
Definition refused_in_time (c : conn_case) : bool :=
  match tr_end (case_trace2 c) with
  | Some (tm, OErr KIllegalLen) =>
      match first_badlen (frames_of (cf_max_len (cc_cfg c)) (cc_segs c)) with
      | Some tb => if tb =? tm then outcome_eqb (cc_outcome c) (OErr KIllegalLen) && (cc_end c <=? tm) else true
      | None => true
      end
  | _ => true
  end.

Definition check_c04c (c : conn_case) : Z :=
  let k := corr_conn2 c in if k =? 4 then 4 else k + moni (obs_c04 c && refused_in_time c && negb (Z.testbit (cc_flags c) 5)).

(* exact (timed) correspondence with the FRAME-level model on what the byte-level reader makes of the
   delivered segments: what the handler must do if its behaviour does not depend on segmentation *)
Definition corr_m1seg (c : conn_case) : Z :=
  corr_gen (run1 (case_oracles c) (cc_cfg c) (case_env c) (frames_of (cf_max_len (cc_cfg c)) (cc_segs c))) c.
