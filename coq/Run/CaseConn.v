(* Case record and correspondence checker for connection-level runs (M1).  No proofs. *)
From Passage Require Import Lib.Bytes Codec.VarInt Codec.Desc Gen.PacketsGen Gen.ConstsGen
  Codec.PacketCheck Crypto.Cookie Conn.Types Conn.Prog Conn.Sem1.

Record conn_case := {
  cc_cfg : conn_cfg;
  cc_rsa : list (bytes * option bytes);
  cc_psess : list (bytes * jres (option session_cookie));
  cc_pauth : list (bytes * jres auth_cookie);
  cc_sauth : list (auth_cookie * bytes);
  cc_ssess : list (session_cookie * bytes);
  cc_status : cres * Z; cc_auth : cres * Z; cc_discover : cres * Z; cc_filter : cres * Z; cc_select : cres * Z;
  cc_loc : list ((option bytes * bytes) * cres);
  cc_token : bytes; cc_uuid : bytes; cc_kaids : list bytes; cc_now : Z;
  cc_inbox : inbox;
  (* observation of the implementation *)
  cc_sent : list (Z * Z * bytes);
  cc_calls : list (Z * call);
  cc_outcome : outcome; cc_end : Z;
  cc_flags : Z; cc_maxalloc : Z; cc_biggest_in : Z }.

Fixpoint lookup_b {A} (k : bytes) (l : list (bytes * A)) : option A :=
  match l with [] => None | (a, v) :: r => if beq a k then Some v else lookup_b k r end.

Definition auth_cookie_eqb (a b : auth_cookie) : bool :=
  (ac_ts a =? ac_ts b) && sa_eqb (ac_addr a) (ac_addr b) && beq (ac_name a) (ac_name b)
  && (ac_uuid a =? ac_uuid b) && obytes_eq (ac_target a) (ac_target b)
  && pprops_eqb (ac_props a) (ac_props b) && meta_eqb (ac_extra a) (ac_extra b).
Definition session_cookie_eqb (a b : session_cookie) : bool :=
  (sc_id a =? sc_id b) && beq (sc_host a) (sc_host b) && (sc_port a =? sc_port b).

Fixpoint lookup_by {K V} (eqb : K -> K -> bool) (k : K) (l : list (K * V)) : option V :=
  match l with [] => None | (a, v) :: r => if eqb a k then Some v else lookup_by eqb k r end.

Definition case_oracles (c : conn_case) : oracles := {|
  o_rsa := fun ct => match lookup_b ct (cc_rsa c) with Some r => r | None => None end;
  o_parse_session := fun p => match lookup_b p (cc_psess c) with Some r => r | None => JErr end;
  o_parse_auth := fun p => match lookup_b p (cc_pauth c) with Some r => r | None => JErr end;
  o_ser_auth := fun a => match lookup_by auth_cookie_eqb a (cc_sauth c) with Some b => b | None => [] end;
  o_ser_session := fun s => match lookup_by session_cookie_eqb s (cc_ssess c) with Some b => b | None => [] end |}.

Definition lockey_eqb (a b : option bytes * bytes) : bool := obytes_eq (fst a) (fst b) && beq (snd a) (snd b).

Definition case_env (c : conn_case) : env := {|
  e_res := fun cl => match cl with
    | CStatus _ _ _ _ => cc_status c
    | CAuth _ _ _ _ _ _ _ _ => cc_auth c
    | CDiscover => cc_discover c
    | CFilter _ _ _ _ _ _ _ => cc_filter c
    | CSelect _ _ _ _ _ _ _ => cc_select c
    | CLocalize l k => (match lookup_by lockey_eqb (l, k) (cc_loc c) with Some r => r | None => RErr end, 0)
    end;
  e_fresh := fun w n => match w with
    | RToken => cc_token c
    | RUuid => cc_uuid c
    | RKeepAlive => nth n (cc_kaids c) []
    end;
  e_now := fun _ => cc_now c |}.

Definition case_trace (c : conn_case) : trace :=
  run1 (case_oracles c) (cc_cfg c) (case_env c) (cc_inbox c).

(* projections of a trace *)
Fixpoint tr_sent (tr : trace) : option (list (Z * Z * bytes)) :=
  match tr with
  | [] => Some []
  | (t, TSend p vs) :: r =>
      match enc (kinds p) vs, tr_sent r with
      | Some b, Some l => Some ((t, p_id p, b) :: l)
      | _, _ => None
      end
  | _ :: r => tr_sent r
  end.
Fixpoint tr_calls (tr : trace) : list (Z * call) :=
  match tr with
  | [] => []
  | (t, TCall c) :: r => (t, c) :: tr_calls r
  | _ :: r => tr_calls r
  end.
Fixpoint tr_end (tr : trace) : option (Z * outcome) :=
  match tr with
  | [] => None
  | (t, TEnd o) :: _ => Some (t, o)
  | _ :: r => tr_end r
  end.

Fixpoint sent_eqb (a b : list (Z * Z * bytes)) : bool :=
  match a, b with
  | [], [] => true
  | (t, i, x) :: a', (t', i', x') :: b' => (t =? t') && (i =? i') && beq x x' && sent_eqb a' b'
  | _, _ => false
  end.
Fixpoint calls_eqb (a b : list (Z * call)) : bool :=
  match a, b with
  | [], [] => true
  | (t, c) :: a', (t', c') :: b' => (t =? t') && call_eqb c c' && calls_eqb a' b'
  | _, _ => false
  end.

(* 0 fine; 1 model <> implementation; 4 outside M1 (unframed input, JSON text component) *)
Definition corr_conn (c : conn_case) : Z :=
  if Z.testbit (cc_flags c) 0 then 4 else
  let tr := case_trace c in
  match tr_sent tr with
  | None => 4
  | Some ms =>
      if sent_eqb ms (cc_sent c) && calls_eqb (tr_calls tr) (cc_calls c)
         && match tr_end tr with
            | Some (t, o) => outcome_eqb o (cc_outcome c) && (t =? cc_end c)
            | None => false
            end
      then 0 else 1
  end.

(* diagnostics for replays: which component differs (bit 0 sends, 1 calls, 2 outcome, 3 end time) *)
Definition corr_diag (c : conn_case) : Z :=
  let tr := case_trace c in
  (match tr_sent tr with Some ms => if sent_eqb ms (cc_sent c) then 0 else 1 | None => 1 end)
  + (if calls_eqb (tr_calls tr) (cc_calls c) then 0 else 2)
  + (match tr_end tr with Some (t, o) => (if outcome_eqb o (cc_outcome c) then 0 else 4) + (if t =? cc_end c then 0 else 8) | None => 12 end).
