(* Passage.Crypto.McHashProofs - the operational num-bigint model of McHash.v computes
   the signed hex notation of Spec/SignedHex.v, for every byte string and every limb
   width >= 1. *)
From Passage Require Import Lib.Bytes Spec.Sha1 Spec.SignedHex Crypto.McHash.

(* ------------------------------------------------------------------ *)
(* little-endian value of a byte list                                   *)
(* ------------------------------------------------------------------ *)

Lemma pow256_pos n : 0 < 256 ^ Z.of_nat n.
Proof. apply Z.pow_pos_nonneg; lia. Qed.

Lemma limb_of_chunk_app a b :
  limb_of_chunk (a ++ b) = limb_of_chunk a + 256 ^ Z.of_nat (length a) * limb_of_chunk b.
Proof.
  induction a as [|x a IH]; cbn [app limb_of_chunk length].
  - change (256 ^ Z.of_nat 0) with 1. lia.
  - rewrite IH, Nat2Z.inj_succ, Z.pow_succ_r by lia. ring.
Qed.

Lemma limb_of_chunk_range l : wf_bytes l -> 0 <= limb_of_chunk l < 256 ^ Z.of_nat (length l).
Proof.
  induction 1 as [|b r Hb Hr IH]; cbn [limb_of_chunk length].
  - change (256 ^ Z.of_nat 0) with 1. lia.
  - rewrite Nat2Z.inj_succ, Z.pow_succ_r by lia. unfold is_byte in Hb. lia.
Qed.

Lemma wf_bytes_rev l : wf_bytes l -> wf_bytes (rev l).
Proof. unfold wf_bytes. apply Forall_rev. Qed.

Lemma be_dec_rev d : be_dec d = limb_of_chunk (rev d).
Proof.
  induction d as [|b r IH]; [reflexivity|].
  rewrite be_dec_cons. cbn [rev]. rewrite limb_of_chunk_app, rev_length, <- IH.
  cbn [limb_of_chunk]. ring.
Qed.

(* ------------------------------------------------------------------ *)
(* the bytewise two's complement                                        *)
(* ------------------------------------------------------------------ *)

Lemma tc_le_length l : forall c, length (tc_le c l) = length l.
Proof.
  induction l as [|d r IH]; intros c; [reflexivity|].
  cbn [tc_le]. destruct c; cbn [length]; rewrite IH; reflexivity.
Qed.

Lemma tc_le_wf l : wf_bytes l -> forall c, wf_bytes (tc_le c l).
Proof.
  induction 1 as [|d r Hd Hr IH]; intros c; [constructor|].
  cbn [tc_le]. unfold is_byte in Hd.
  destruct c; constructor; try apply IH; unfold is_byte; lia.
Qed.

(* without an incoming carry the bytes are just inverted: 256^n - 1 - v *)
Lemma tc_le_false l : wf_bytes l ->
  limb_of_chunk (tc_le false l) = 256 ^ Z.of_nat (length l) - 1 - limb_of_chunk l.
Proof.
  induction 1 as [|d r Hd Hr IH]; [reflexivity|].
  cbn [tc_le limb_of_chunk length]. rewrite IH, Nat2Z.inj_succ, Z.pow_succ_r by lia. ring.
Qed.

(* with the initial carry: (256^n - v) mod 256^n *)
Lemma tc_le_true l : wf_bytes l ->
  limb_of_chunk (tc_le true l) = (256 ^ Z.of_nat (length l) - limb_of_chunk l) mod 256 ^ Z.of_nat (length l).
Proof.
  induction 1 as [|d r Hd Hr IH]; [reflexivity|].
  pose proof (limb_of_chunk_range r Hr) as HR.
  pose proof (pow256_pos (length r)) as HP.
  cbn [tc_le limb_of_chunk length]. rewrite Nat2Z.inj_succ, Z.pow_succ_r by lia.
  set (P := 256 ^ Z.of_nat (length r)) in *. set (R := limb_of_chunk r) in *.
  unfold is_byte in Hd.
  destruct (Z.eqb_spec ((255 - d + 1) mod 256) 0) as [E|E].
  - assert (d = 0) by lia. subst d.
    cbn [limb_of_chunk]. rewrite IH. fold P R.
    replace ((255 - 0 + 1) mod 256) with 0 by reflexivity.
    replace (256 * P - (0 + 256 * R)) with (256 * (P - R)) by ring.
    rewrite Z.mul_mod_distr_l by lia. lia.
  - assert (0 < d) by lia.
    cbn [limb_of_chunk]. rewrite (tc_le_false r Hr). fold P R.
    rewrite (Z.mod_small (255 - d + 1)) by lia.
    rewrite Z.mod_small by nia. ring.
Qed.

Lemma twos_complement_bytes_be_wf d : wf_bytes d -> wf_bytes (twos_complement_bytes_be d).
Proof. intros H. unfold twos_complement_bytes_be. apply wf_bytes_rev, tc_le_wf, wf_bytes_rev, H. Qed.

Lemma twos_complement_bytes_be_length d : length (twos_complement_bytes_be d) = length d.
Proof. unfold twos_complement_bytes_be. rewrite rev_length, tc_le_length, rev_length. reflexivity. Qed.

Lemma twos_complement_bytes_be_val d : wf_bytes d ->
  be_dec (twos_complement_bytes_be d) = (256 ^ Z.of_nat (length d) - be_dec d) mod 256 ^ Z.of_nat (length d).
Proof.
  intros H. unfold twos_complement_bytes_be.
  rewrite be_dec_rev, rev_involutive, tc_le_true by (apply wf_bytes_rev, H).
  rewrite rev_length, <- be_dec_rev. reflexivity.
Qed.

(* ------------------------------------------------------------------ *)
(* limbs                                                               *)
(* ------------------------------------------------------------------ *)

Definition limbs_val (lb : nat) (l : list Z) : Z :=
  fold_right (fun x acc => x + 256 ^ Z.of_nat lb * acc) 0 l.

Lemma limbs_val_cons lb x r : limbs_val lb (x :: r) = x + 256 ^ Z.of_nat lb * limbs_val lb r.
Proof. reflexivity. Qed.

Definition limb_ok (lb : nat) (x : Z) : Prop := 0 <= x < 256 ^ Z.of_nat lb.

Lemma wf_bytes_firstn n l : wf_bytes l -> wf_bytes (firstn n l).
Proof.
  intros H. rewrite <- (firstn_skipn n l) in H. apply wf_bytes_app in H as [H _]. exact H.
Qed.

Lemma wf_bytes_skipn n l : wf_bytes l -> wf_bytes (skipn n l).
Proof.
  intros H. rewrite <- (firstn_skipn n l) in H. apply wf_bytes_app in H as [_ H]. exact H.
Qed.

Lemma chunks_fuel_val lb : (1 <= lb)%nat -> forall fuel l, (length l <= fuel)%nat ->
  limbs_val lb (map limb_of_chunk (chunks_fuel fuel lb l)) = limb_of_chunk l.
Proof.
  intros Hlb. induction fuel as [|f IH]; intros l Hl.
  - destruct l; [reflexivity | cbn [length] in Hl; lia].
  - destruct l as [|b r]; [reflexivity|].
    cbn [chunks_fuel map]. rewrite limbs_val_cons.
    set (l := b :: r) in *.
    rewrite IH by (rewrite skipn_length; cbn [length] in *; lia).
    rewrite <- (firstn_skipn lb l) at 3. rewrite limb_of_chunk_app.
    destruct (Nat.le_gt_cases lb (length l)) as [Hge|Hlt].
    + rewrite firstn_length_le by exact Hge. reflexivity.
    + rewrite (skipn_all2 l) by lia. cbn [limb_of_chunk]. lia.
Qed.

Lemma chunks_fuel_ok lb fuel : forall l, wf_bytes l ->
  Forall (limb_ok lb) (map limb_of_chunk (chunks_fuel fuel lb l)).
Proof.
  induction fuel as [|f IH]; intros l Hl; [constructor|].
  destruct l as [|b r]; [constructor|].
  cbn [chunks_fuel map]. set (l := b :: r) in *. constructor.
  - pose proof (limb_of_chunk_range _ (wf_bytes_firstn lb l Hl)) as HR.
    pose proof (firstn_le_length lb l) as HL.
    unfold limb_ok. split; [lia|].
    apply Z.lt_le_trans with (256 ^ Z.of_nat (length (firstn lb l))); [lia|].
    apply Z.pow_le_mono_r; lia.
  - apply IH, wf_bytes_skipn, Hl.
Qed.

Lemma normalize_val lb l : limbs_val lb (normalize l) = limbs_val lb l.
Proof.
  induction l as [|x r IH]; [reflexivity|].
  cbn [normalize]. rewrite limbs_val_cons, <- IH.
  destruct (normalize r) as [|y r'].
  - destruct (Z.eqb_spec x 0) as [->|]; [|rewrite limbs_val_cons]; cbn [limbs_val fold_right]; lia.
  - rewrite limbs_val_cons. reflexivity.
Qed.

Lemma normalize_ok lb l : Forall (limb_ok lb) l -> Forall (limb_ok lb) (normalize l).
Proof.
  induction 1 as [|x r Hx Hr IH]; [constructor|].
  cbn [normalize]. destruct (normalize r) as [|y r'].
  - destruct (x =? 0); constructor; auto.
  - constructor; auto.
Qed.

(* non-empty, most significant limb non-zero *)
Fixpoint last_nz (l : list Z) : Prop :=
  match l with
  | [] => False
  | x :: r => match r with [] => x <> 0 | _ :: _ => last_nz r end
  end.

Lemma normalize_last l : normalize l = [] \/ last_nz (normalize l).
Proof.
  induction l as [|x r IH]; [left; reflexivity|].
  cbn [normalize]. destruct (normalize r) as [|y r'].
  - destruct (Z.eqb_spec x 0); [left; reflexivity | right; cbn; assumption].
  - right. destruct IH as [IH|IH]; [discriminate|]. exact IH.
Qed.

Lemma limbs_val_pos lb l : Forall (limb_ok lb) l -> last_nz l -> 0 < limbs_val lb l.
Proof.
  induction 1 as [|x r Hx Hr IH]; intros Hn; [destruct Hn|].
  pose proof (pow256_pos lb) as HP. unfold limb_ok in Hx.
  rewrite limbs_val_cons.
  destruct r as [|y r'].
  - cbn [last_nz] in Hn. cbn [limbs_val fold_right]. lia.
  - assert (Hn' : last_nz (y :: r')) by exact Hn. specialize (IH Hn'). nia.
Qed.

(* ------------------------------------------------------------------ *)
(* nibbles                                                             *)
(* ------------------------------------------------------------------ *)

Lemma nibbles_fixed_eq n : forall r, nibbles_fixed n r = nibbles_le n r.
Proof. induction n as [|k IH]; intros r; cbn [nibbles_fixed nibbles_le]; [|rewrite IH]; reflexivity. Qed.

Lemma nibbles_while_0 fuel : nibbles_while fuel 0 = [].
Proof. destruct fuel; reflexivity. Qed.

Lemma nibbles_while_eq fuel : forall x, 0 < x < 16 ^ Z.of_nat fuel ->
  nibbles_while fuel x = nibbles_le (hex_len x) x.
Proof.
  induction fuel as [|k IH]; intros x Hx.
  - change (16 ^ Z.of_nat 0) with 1 in Hx. lia.
  - rewrite Nat2Z.inj_succ, Z.pow_succ_r in Hx by lia.
    cbn [nibbles_while]. destruct (Z.eqb_spec x 0); [lia|].
    destruct (Z.eq_dec (x / 16) 0) as [E|E].
    + rewrite E, nibbles_while_0.
      rewrite (hex_len_unique x 1) by (change (16 ^ (Z.of_nat 1 - 1)) with 1; change (16 ^ Z.of_nat 1) with 16; lia).
      cbn [nibbles_le]. reflexivity.
    + assert (Hq : 0 < x / 16 < 16 ^ Z.of_nat k) by lia.
      rewrite (IH _ Hq).
      assert (Hs : hex_len x = S (hex_len (x / 16))).
      { replace x with (x mod 16 + 16 ^ Z.of_nat 1 * (x / 16)) at 1 by (change (16 ^ Z.of_nat 1) with 16; lia).
        rewrite hex_len_shift; [reflexivity | change (16 ^ Z.of_nat 1) with 16; lia | lia]. }
      rewrite Hs. cbn [nibbles_le]. reflexivity.
Qed.

Lemma pow256_16 lb : 256 ^ Z.of_nat lb = 16 ^ Z.of_nat (2 * lb).
Proof.
  rewrite Nat2Z.inj_mul. change (Z.of_nat 2) with 2.
  rewrite Z.pow_mul_r by lia. reflexivity.
Qed.

Lemma to_bitwise_digits_le_eq lb l : Forall (limb_ok lb) l -> last_nz l ->
  to_bitwise_digits_le lb l = nibbles_le (hex_len (limbs_val lb l)) (limbs_val lb l).
Proof.
  induction 1 as [|x r Hx Hr IH]; intros Hn; [destruct Hn|].
  unfold limb_ok in Hx. rewrite pow256_16 in Hx.
  destruct r as [|y r'].
  - cbn [last_nz] in Hn. cbn [to_bitwise_digits_le limbs_val fold_right].
    replace (x + 256 ^ Z.of_nat lb * 0) with x by lia.
    apply nibbles_while_eq. lia.
  - assert (Hn' : last_nz (y :: r')) by exact Hn.
    specialize (IH Hn').
    pose proof (limbs_val_pos lb _ Hr Hn') as Hpos.
    change (to_bitwise_digits_le lb (x :: y :: r'))
      with (nibbles_fixed (2 * lb) x ++ to_bitwise_digits_le lb (y :: r')).
    change (limbs_val lb (x :: y :: r')) with (x + 256 ^ Z.of_nat lb * limbs_val lb (y :: r')).
    set (R := limbs_val lb (y :: r')) in *.
    rewrite IH, nibbles_fixed_eq, pow256_16.
    rewrite hex_len_shift by lia.
    symmetry. apply nibbles_le_app. lia.
Qed.

Lemma ascii_digit_hexchar v : ascii_digit v = hexchar v.
Proof. unfold ascii_digit, hexchar. destruct (v <? 10); lia. Qed.

(* ------------------------------------------------------------------ *)
(* BigUint::from_bytes_be followed by to_str_radix_reversed             *)
(* ------------------------------------------------------------------ *)

Lemma biguint_show lb d : (1 <= lb)%nat -> wf_bytes d ->
  let data := biguint_from_bytes_be lb d in
  (data = [] <-> be_dec d = 0) /\ rev (to_str_radix_reversed lb data) = show_hex (be_dec d).
Proof.
  intros Hlb Hwf. destruct d as [|b0 d0]; [cbn; split; [tauto | reflexivity]|].
  set (d := b0 :: d0) in *.
  cbn zeta. unfold biguint_from_bytes_be. fold d.
  change (match d with [] => [] | _ :: _ => normalize (map limb_of_chunk (chunks lb (rev d))) end)
    with (normalize (map limb_of_chunk (chunks lb (rev d)))).
  set (raw := map limb_of_chunk (chunks lb (rev d))).
  assert (Hval : limbs_val lb (normalize raw) = be_dec d).
  { rewrite normalize_val. unfold raw, chunks. rewrite chunks_fuel_val by lia. symmetry. apply be_dec_rev. }
  assert (Hok : Forall (limb_ok lb) (normalize raw)).
  { apply normalize_ok. unfold raw, chunks. apply chunks_fuel_ok, wf_bytes_rev, Hwf. }
  destruct (normalize_last raw) as [Hnil|Hnz].
  - rewrite Hnil in *. cbn [limbs_val fold_right] in Hval. rewrite <- Hval.
    split; [tauto | reflexivity].
  - pose proof (limbs_val_pos lb _ Hok Hnz) as Hpos. rewrite Hval in Hpos.
    split.
    + split; [intros E; rewrite E in Hnz; destruct Hnz | lia].
    + unfold to_str_radix_reversed.
      destruct (normalize raw) as [|x r] eqn:En; [destruct Hnz|]. rewrite <- En in *.
      rewrite to_bitwise_digits_le_eq, Hval by assumption.
      unfold show_hex. destruct (Z.eqb_spec (be_dec d) 0); [lia|].
      rewrite hex_digits_acc_nibbles, app_nil_r. f_equal.
      apply map_ext. intros v. apply ascii_digit_hexchar.
Qed.

Lemma from_biguint_ne s data : s <> NoSign -> data <> [] -> from_biguint s data = (s, data).
Proof. intros Hs Hd. destruct s; [|congruence|]; destruct data; congruence || reflexivity. Qed.

(* ------------------------------------------------------------------ *)
(* main theorem                                                        *)
(* ------------------------------------------------------------------ *)

Theorem mc_hex_w_signed_hex lb d : (1 <= lb)%nat -> wf_bytes d ->
  mc_hex_w lb d = show_signed_hex (twos_complement_be d).
Proof.
  intros Hlb Hwf. destruct d as [|b0 d0]; [reflexivity|].
  set (d := b0 :: d0) in *.
  pose proof (be_dec_range d Hwf) as Hrange.
  inversion Hwf as [|? ? Hb0 Hwf0]; subst. pose proof (be_dec_range d0 Hwf0) as Hrange0.
  pose proof (pow256_pos (length d0)) as HP0.
  assert (Hn : 256 ^ Z.of_nat (length d) = 256 * 256 ^ Z.of_nat (length d0)).
  { unfold d. cbn [length]. rewrite Nat2Z.inj_succ, Z.pow_succ_r by lia. reflexivity. }
  assert (Hcons : be_dec d = b0 * 256 ^ Z.of_nat (length d0) + be_dec d0) by apply be_dec_cons.
  unfold is_byte in Hb0.
  unfold mc_hex_w, from_signed_bytes_be, twos_complement_be. fold d.
  change (match d with [] => (NoSign, []) | v :: _ =>
            if 127 <? v then from_biguint Minus (biguint_from_bytes_be lb (twos_complement_bytes_be d))
            else from_biguint Plus (biguint_from_bytes_be lb d) end)
    with (if 127 <? b0 then from_biguint Minus (biguint_from_bytes_be lb (twos_complement_bytes_be d))
          else from_biguint Plus (biguint_from_bytes_be lb d)).
  change (top_bit_set d) with (128 <=? b0).
  destruct (Z.ltb_spec 127 b0) as [Hneg|Hpos].
  - (* Minus *)
    replace (128 <=? b0) with true by lia.
    set (d' := twos_complement_bytes_be d).
    assert (Hwf' : wf_bytes d') by (apply twos_complement_bytes_be_wf, Hwf).
    assert (Hv' : be_dec d' = 256 ^ Z.of_nat (length d) - be_dec d).
    { unfold d'. rewrite twos_complement_bytes_be_val by exact Hwf. apply Z.mod_small. nia. }
    destruct (biguint_show lb d' Hlb Hwf') as [Hz Hs]. cbn zeta in Hz, Hs.
    assert (Hne : biguint_from_bytes_be lb d' <> []) by (rewrite Hz; nia).
    rewrite from_biguint_ne by (congruence || exact Hne).
    unfold to_str_radix16. cbn [fst snd].
    rewrite rev_app_distr. cbn [rev app]. rewrite Hs, Hv'.
    unfold show_signed_hex.
    destruct (Z.ltb_spec (be_dec d - 256 ^ Z.of_nat (length d)) 0); [|nia].
    do 2 f_equal. lia.
  - (* Plus, or zero *)
    replace (128 <=? b0) with false by lia.
    destruct (biguint_show lb d Hlb Hwf) as [Hz Hs]. cbn zeta in Hz, Hs.
    unfold show_signed_hex. destruct (Z.ltb_spec (be_dec d) 0); [lia|].
    unfold to_str_radix16.
    destruct (biguint_from_bytes_be lb d) as [|x r] eqn:E.
    + cbn [from_biguint fst snd]. exact Hs.
    + cbn [from_biguint fst snd]. exact Hs.
Qed.

Corollary mc_hex_signed_hex d : wf_bytes d -> mc_hex d = show_signed_hex (twos_complement_be d).
Proof. intros H. apply mc_hex_w_signed_hex; [lia | exact H]. Qed.

(* the printed string does not depend on the limb width (u32 or u64 BigDigit) *)
Corollary mc_hex_w_independent lb1 lb2 d : (1 <= lb1)%nat -> (1 <= lb2)%nat -> wf_bytes d ->
  mc_hex_w lb1 d = mc_hex_w lb2 d.
Proof. intros H1 H2 H. rewrite !mc_hex_w_signed_hex by assumption. reflexivity. Qed.

Corollary mc_hex_format d : wf_bytes d -> signed_hex_format (mc_hex d) = true.
Proof. intros H. rewrite mc_hex_signed_hex by exact H. apply show_signed_hex_format. Qed.

Corollary mc_hex_sign d : wf_bytes d -> starts_minus (mc_hex d) = top_bit_set d.
Proof.
  intros H. rewrite mc_hex_signed_hex, show_signed_hex_minus by exact H.
  pose proof (top_bit_negative d H) as Ht.
  destruct (top_bit_set d); destruct (Z.ltb_spec (twos_complement_be d) 0); try reflexivity.
  - destruct Ht as [Ht _]. specialize (Ht eq_refl). lia.
  - destruct Ht as [_ Ht]. specialize (Ht ltac:(assumption)). discriminate.
Qed.

Corollary mc_hex_parse_back d : wf_bytes d -> parse_signed_hex (mc_hex d) = Some (twos_complement_be d).
Proof. intros H. rewrite mc_hex_signed_hex by exact H. apply parse_show_signed_hex. Qed.

(* distinct 20-byte digests print differently: the notation loses nothing *)
Corollary mc_hex_injective d1 d2 : wf_bytes d1 -> wf_bytes d2 -> length d1 = length d2 ->
  mc_hex d1 = mc_hex d2 -> twos_complement_be d1 = twos_complement_be d2.
Proof.
  intros H1 H2 _ E. rewrite !mc_hex_signed_hex in E by assumption.
  apply show_signed_hex_injective. exact E.
Qed.

Lemma sha1_wf m : wf_bytes (sha1 m).
Proof. exact (sha1_bytes m). Qed.

Theorem minecraft_hash_signed_hex id ss pk :
  minecraft_hash id ss pk = show_signed_hex (twos_complement_be (sha1 (id ++ ss ++ pk))).
Proof. unfold minecraft_hash. apply mc_hex_signed_hex, sha1_wf. Qed.
