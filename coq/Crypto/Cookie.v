(* Model of passage-protocol/src/cookie.rs sign / verify (HMAC-SHA256 tag ++ message). *)
From Passage Require Import Lib.Bytes Spec.Sha256 Spec.Hmac.

Section Generic.
  Variable mac : bytes -> bytes -> bytes.     (* key -> message -> tag *)

  Definition sign_with (m secret : bytes) : bytes := mac secret m ++ m.

  (* verify(signed, secret): shorter than a tag -> (false, ""); else compare the first 32
     bytes with the tag of the rest, and return the rest either way *)
  Definition verify_with (signed secret : bytes) : bool * bytes :=
    if (length signed <? 32)%nat then (false, [])
    else (beq (firstn 32 signed) (mac secret (skipn 32 signed)), skipn 32 signed).
End Generic.

Definition sign := sign_with hmac_sha256.
Definition verify := verify_with hmac_sha256.
