(* Proofs about Crypto/CookieJson.v: the parser inverts the writer on well-formed records
   (parse_ser_auth, parse_ser_session), and the C10 round trip with serde_json instantiated
   by these functions (C10_roundtrip_json). *)
From Passage Require Import Lib.Bytes Lib.Utf8 Lib.IpText Lib.IpTextProofs Crypto.Cookie Conn.Types Conn.Prog
  Conn.Monitor Conn.Order Conn.Checks Conn.CookieProofs Crypto.CookieJson.

Ltac norm := repeat ((rewrite <- app_assoc) || (progress (cbn [app]))).
Local Open Scope Z_scope.

(* ================================================================== small facts *)
Lemma skip_ws_nws c r : is_ws c = false -> skip_ws (c :: r) = c :: r.
Proof. intros H. cbn [skip_ws]. rewrite H. reflexivity. Qed.

Lemma utf8_nonneg_n : forall n l, (length l <= n)%nat -> utf8_valid l = true -> Forall (fun c => 0 <= c) l.
Proof.
  induction n as [|n IH]; intros l Hl H.
  - destruct l; [constructor | cbn [length] in Hl; lia].
  - destruct l as [|b0 r]; [constructor|]. cbn [length] in Hl.
    cbn [utf8_valid] in H. unfold cont, inr in H.
    destruct ((0 <=? b0) && (b0 <=? 127)) eqn:E0.
    { constructor; [cbv beta; lia | apply IH; [lia | exact H]]. }
    destruct ((194 <=? b0) && (b0 <=? 223)) eqn:E1.
    { destruct r as [|b1 r1]; [discriminate|]. apply andb_true_iff in H as [H1 H2]. cbn [length] in Hl.
      constructor; [cbv beta; lia|]. constructor; [cbv beta; lia|]. apply IH; [lia | exact H2]. }
    destruct ((224 <=? b0) && (b0 <=? 239)) eqn:E2.
    { destruct r as [|b1 [|b2 r2]]; try discriminate.
      apply andb_true_iff in H as [H12 H3]. apply andb_true_iff in H12 as [H1 H2]. cbn [length] in Hl.
      assert (0 <= b1) by (destruct (b0 =? 224); [lia|]; destruct (b0 =? 237); lia).
      constructor; [cbv beta; lia|]. constructor; [cbv beta; lia|]. constructor; [cbv beta; lia|]. apply IH; [lia | exact H3]. }
    destruct ((240 <=? b0) && (b0 <=? 244)) eqn:E3; [|discriminate].
    destruct r as [|b1 [|b2 [|b3 r3]]]; try discriminate.
    apply andb_true_iff in H as [H123 H4]. apply andb_true_iff in H123 as [H12 H3].
    apply andb_true_iff in H12 as [H1 H2]. cbn [length] in Hl.
    assert (0 <= b1) by (destruct (b0 =? 240); [lia|]; destruct (b0 =? 244); lia).
    constructor; [cbv beta; lia|]. constructor; [cbv beta; lia|]. constructor; [cbv beta; lia|]. constructor; [cbv beta; lia|].
    apply IH; [lia | exact H4].
Qed.

Lemma utf8_nonneg l : utf8_valid l = true -> Forall (fun c => 0 <= c) l.
Proof. apply (utf8_nonneg_n (length l)). lia. Qed.

(* ================================================================== strings *)
Lemma str_body_esc_byte c T : 0 <= c -> str_body (esc_byte c ++ T) = pcons c (str_body T).
Proof.
  intros Hc. destruct (Z.ltb_spec c 32) as [Hlt|Hge].
  - assert (Hcases : c = 0 \/ c = 1 \/ c = 2 \/ c = 3 \/ c = 4 \/ c = 5 \/ c = 6 \/ c = 7 \/ c = 8 \/ c = 9
            \/ c = 10 \/ c = 11 \/ c = 12 \/ c = 13 \/ c = 14 \/ c = 15 \/ c = 16 \/ c = 17 \/ c = 18 \/ c = 19
            \/ c = 20 \/ c = 21 \/ c = 22 \/ c = 23 \/ c = 24 \/ c = 25 \/ c = 26 \/ c = 27 \/ c = 28 \/ c = 29
            \/ c = 30 \/ c = 31) by lia.
    repeat (destruct Hcases as [->|Hcases]; [reflexivity|]). subst c. reflexivity.
  - destruct (Z.eqb_spec c 34) as [->|N34]; [reflexivity|].
    destruct (Z.eqb_spec c 92) as [->|N92]; [reflexivity|].
    assert (E : esc_byte c = [c]).
    { unfold esc_byte.
      repeat match goal with |- context [c =? ?k] => destruct (Z.eqb_spec c k); [lia|] end.
      destruct (Z.ltb_spec c 32); [lia|]. rewrite andb_false_r. reflexivity. }
    rewrite E. cbn [app str_body].
    destruct (Z.eqb_spec c 34); [lia|]. destruct (Z.eqb_spec c 92); [lia|].
    destruct (Z.ltb_spec c 32); [lia|]. reflexivity.
Qed.

Lemma str_body_escape : forall s rest,
  Forall (fun c => 0 <= c) s -> str_body (escape s ++ 34 :: rest) = POk s rest.
Proof.
  induction s as [|c s IH]; intros rest H.
  - reflexivity.
  - inversion H as [|c' s' Hc Hs]; subst.
    unfold escape. cbn [flat_map]. fold (escape s). rewrite <- app_assoc.
    rewrite str_body_esc_byte by exact Hc. rewrite IH by exact Hs. reflexivity.
Qed.

Lemma str_tail_escape s rest : utf8_valid s = true -> str_tail (escape s ++ 34 :: rest) = POk s rest.
Proof.
  intros H. unfold str_tail. rewrite str_body_escape by (apply utf8_nonneg; exact H).
  rewrite H. reflexivity.
Qed.

Lemma jstr_cons s rest : jstr s ++ rest = 34 :: escape s ++ 34 :: rest.
Proof. unfold jstr. norm. reflexivity. Qed.

Lemma p_string_jstr s rest : utf8_valid s = true -> p_string (jstr s ++ rest) = POk s rest.
Proof.
  intros H. rewrite jstr_cons. unfold p_string. rewrite skip_ws_nws by reflexivity.
  change (34 =? 34) with true. cbv iota. apply str_tail_escape. exact H.
Qed.

Lemma p_optstr_jopt o rest : wf_ostr o = true -> p_optstr (jopt o ++ rest) = POk o rest.
Proof.
  intros H. destruct o as [s|]; cbn [jopt wf_ostr] in *.
  - rewrite jstr_cons. unfold p_optstr. rewrite skip_ws_nws by reflexivity.
    change (34 =? 110) with false. cbv iota. rewrite <- jstr_cons.
    rewrite p_string_jstr by exact H. reflexivity.
  - reflexivity.
Qed.

(* ================================================================== numbers *)
Definition numstop (rest : bytes) : bool :=
  match rest with [] => true | c :: _ => negb (isdig c) && negb (isfrac c) end.

Lemma num_loop_digits : forall ds acc rest,
  Forall (dig 10) ds -> numstop rest = true -> 0 <= acc -> eval 10 acc ds <= u64_max ->
  num_loop acc (map dchar ds ++ rest) = POk (eval 10 acc ds) rest.
Proof.
  induction ds as [|d ds IH]; intros acc rest Hds Hstop Ha Hl.
  - cbn [map app]. unfold eval; cbn [fold_left].
    destruct rest as [|c r]; [reflexivity|]. cbn [numstop] in Hstop. cbn [num_loop].
    destruct (isdig c); [discriminate|]. destruct (isfrac c); [discriminate|]. reflexivity.
  - inversion Hds as [|d' ds' Hd Hds']; subst. unfold dig in Hd.
    change (eval 10 acc (d :: ds)) with (eval 10 (acc * 10 + d) ds) in *.
    assert (Hm : acc * 10 + d <= eval 10 (acc * 10 + d) ds) by (apply (eval_mono 10 ltac:(lia) dchar dchar_ok); [exact Hds' | lia]).
    cbn [map app num_loop]. unfold dchar.
    assert (E : isdig (48 + d) = true) by (unfold isdig; lia). rewrite E.
    replace (48 + d - 48) with d by lia.
    destruct (Z.ltb_spec u64_max (acc * 10 + d)); [lia|].
    apply IH; [exact Hds' | exact Hstop | lia | exact Hl].
Qed.

Lemma p_uint_show lim v rest :
  0 <= v <= lim -> lim <= u64_max -> numstop rest = true ->
  p_uint lim (show_u64 v ++ rest) = POk v rest.
Proof.
  intros Hv Hlim Hstop. unfold show_u64.
  assert (Hv20 : 0 <= v < 10 ^ Z.of_nat 20).
  { change (10 ^ Z.of_nat 20) with 100000000000000000000. unfold u64_max in Hlim. lia. }
  destruct (digits_spec 10 ltac:(lia) 19 v [] Hv20) as (ds & E1 & E2 & E3 & E4 & _ & E6 & E7).
  rewrite app_nil_r in E1. rewrite E1.
  destruct ds as [|d ds]; [cbn [length] in E4; lia|]. cbn [hd] in E6.
  inversion E2 as [|d' ds' Hd Hds]; subst d' ds'. unfold dig in Hd.
  destruct (Z.eqb_spec d 0) as [->|Nd].
  - specialize (E6 eq_refl). specialize (E7 E6). inversion E7; subst ds.
    cbn [map app]. unfold p_uint. change (dchar 0) with 48. rewrite skip_ws_nws by reflexivity.
    change (48 =? 48) with true. cbv iota.
    destruct rest as [|c r]; [rewrite E6; reflexivity|]. cbn [numstop] in Hstop.
    destruct (isdig c); [discriminate|]. destruct (isfrac c); [discriminate|]. cbn [orb]. rewrite E6. reflexivity.
  - cbn [map app]. unfold p_uint, dchar.
    rewrite skip_ws_nws by (unfold is_ws; lia).
    destruct (Z.eqb_spec (48 + d) 48); [lia|].
    assert (E : isdig (48 + d) = true) by (unfold isdig; lia). rewrite E.
    replace (48 + d - 48) with d by lia.
    change (eval 10 0 (d :: ds)) with (eval 10 (0 * 10 + d) ds) in E3. rewrite Z.mul_0_l, Z.add_0_l in E3.
    fold dchar. rewrite num_loop_digits; [| exact Hds | exact Hstop | lia | rewrite E3; lia].
    rewrite E3. destruct (Z.ltb_spec lim v); [lia | reflexivity].
Qed.

(* ================================================================== uuid *)
Lemma nib_be_length : forall n v, length (nib_be n v) = n.
Proof. induction n as [|n IH]; intros v; cbn [nib_be]; [reflexivity|]. rewrite app_length, IH. cbn [length]. lia. Qed.

Lemma nib_be_dig : forall n v, Forall (dig 16) (nib_be n v).
Proof.
  induction n as [|n IH]; intros v; cbn [nib_be]; [constructor|].
  apply Forall_app; split; [apply IH|]. constructor; [|constructor]. unfold dig. apply Z.mod_pos_bound. lia.
Qed.

Lemma nib_be_eval : forall n v, eval 16 0 (nib_be n v) = v mod 16 ^ Z.of_nat n.
Proof.
  induction n as [|n IH]; intros v.
  - cbn [nib_be]. unfold eval; cbn [fold_left]. change (16 ^ Z.of_nat 0) with 1. rewrite Z.mod_1_r. reflexivity.
  - cbn [nib_be]. rewrite eval_app, IH. unfold eval; cbn [fold_left].
    rewrite Nat2Z.inj_succ, Z.pow_succ_r by lia.
    rewrite (Z.rem_mul_r v 16 (16 ^ Z.of_nat n)); [lia | lia | apply Z.pow_pos_nonneg; lia].
Qed.

Lemma hex_acc_digits : forall ds acc, Forall (dig 16) ds -> hex_acc acc (map hchar ds) = Some (eval 16 acc ds).
Proof.
  induction ds as [|d ds IH]; intros acc H; [reflexivity|].
  inversion H as [|d' ds' Hd Hds]; subst. cbn [map hex_acc]. rewrite (hchar_ok d Hd). apply IH. exact Hds.
Qed.

Lemma parse_uuid_text u : 0 <= u < 2 ^ 128 -> parse_uuid (uuid_text u) = Some u.
Proof.
  intros Hu. unfold uuid_text.
  assert (Hlen := nib_be_length 32 u). assert (Hdig := nib_be_dig 32 u). assert (Hev := nib_be_eval 32 u).
  change (16 ^ Z.of_nat 32) with (2 ^ 128) in Hev. rewrite Z.mod_small in Hev by exact Hu.
  set (ds := nib_be 32 u) in *. clearbody ds.
  do 32 (destruct ds as [|? ds]; [discriminate Hlen|]). destruct ds; [|discriminate Hlen].
  cbn [map firstn skipn app].
  unfold parse_uuid. cbn [length Nat.eqb]. unfold parse_hyph. cbn [length Nat.eqb nth firstn skipn app andb].
  change (45 =? 45) with true. cbn [andb].
  match goal with |- hex_acc 0 ?l = _ =>
    change l with (map hchar [z; z0; z1; z2; z3; z4; z5; z6; z7; z8; z9; z10; z11; z12; z13; z14; z15; z16; z17; z18; z19; z20;
                              z21; z22; z23; z24; z25; z26; z27; z28; z29; z30]) end.
  rewrite hex_acc_digits by exact Hdig. rewrite Hev. reflexivity.
Qed.

Lemma uuid_text_ascii u : Forall (fun c => 0 <= c <= 127) (uuid_text u).
Proof.
  assert (H : forall l, Forall (dig 16) l -> Forall (fun c => 0 <= c <= 127) (map hchar l)).
  { induction l as [|d l IH]; intros Hl; [constructor|]. inversion Hl as [|d' l' Hd Hl']; subst.
    cbn [map]. constructor; [|apply IH; exact Hl']. unfold dig in Hd. unfold hchar. cbv beta. destruct (d <? 10); lia. }
  assert (Hf : forall n (l : bytes), Forall (fun c => 0 <= c <= 127) l -> Forall (fun c => 0 <= c <= 127) (firstn n l)).
  { intros n l Hl. apply Forall_forall. intros x Hx.
    rewrite Forall_forall in Hl. apply Hl. rewrite <- (firstn_skipn n l). apply in_or_app. left. exact Hx. }
  assert (Hs : forall n (l : bytes), Forall (fun c => 0 <= c <= 127) l -> Forall (fun c => 0 <= c <= 127) (skipn n l)).
  { intros n l Hl. apply Forall_forall. intros x Hx.
    rewrite Forall_forall in Hl. apply Hl. rewrite <- (firstn_skipn n l). apply in_or_app. right. exact Hx. }
  specialize (H _ (nib_be_dig 32 u)). unfold uuid_text. cbv zeta.
  repeat match goal with
         | |- Forall _ (_ ++ _) => apply Forall_app; split
         | |- Forall _ (_ :: _) => apply Forall_cons; [cbv beta; lia|]
         | |- Forall _ (firstn _ _) => apply Hf
         | |- Forall _ (skipn _ _) => apply Hs
         | |- _ => exact H
         end.
Qed.

Lemma p_uuid_text u rest : 0 <= u < 2 ^ 128 -> p_uuid (jstr (uuid_text u) ++ rest) = POk u rest.
Proof.
  intros Hu. unfold p_uuid. rewrite p_string_jstr by (apply ascii_utf8, uuid_text_ascii).
  cbn [pbind]. rewrite parse_uuid_text by exact Hu. reflexivity.
Qed.

(* ================================================================== socket address *)
Lemma wf_sockaddr_spec a : wf_sockaddr a = true ->
  exists ip, wf_ip ip = true /\ sa_ip a = show_ip ip /\ 0 <= sa_port a < 65536
             /\ sockaddr_text a = show_sockaddr (ip, sa_port a).
Proof.
  unfold wf_sockaddr, sockaddr_text. intros H. apply andb_true_iff in H as [H Hp].
  destruct (parse_ip (sa_ip a)) as [ip|] eqn:E; [|discriminate].
  apply andb_true_iff in H as [Hw Hs]. apply beq_spec in Hs.
  exists ip. split; [exact Hw|]. split; [symmetry; exact Hs|]. split; [unfold portb in Hp; lia|].
  unfold show_sockaddr, show_sockaddr_sc. cbn [fst snd]. rewrite <- Hs.
  destruct ip; reflexivity.
Qed.

Lemma sockaddr_text_ascii ip p : wf_ip ip = true -> 0 <= p < 65536 ->
  Forall (fun c => 0 <= c <= 127) (show_sockaddr (ip, p)).
Proof.
  intros Hw Hp.
  assert (Hi : Forall (fun c => 0 <= c <= 127) (show_ip ip)).
  { destruct (show_ip_shape ip Hw) as [Hc _]. eapply Forall_impl; [|exact Hc].
    intros c Hcc. unfold ipchar in Hcc. lia. }
  assert (Hd : Forall (fun c => 0 <= c <= 127) (show_dec p)).
  { eapply Forall_impl; [|apply (show_dec_chars p); change (10 ^ 10) with 10000000000; lia].
    intros c Hcc. unfold ipchar in Hcc. lia. }
  unfold show_sockaddr, show_sockaddr_sc. cbn [fst snd]. change (0 =? 0) with true. cbv iota.
  unfold ch_colon, ch_lbr, ch_rbr.
  destruct ip; cbn [app];
    repeat first [ apply Forall_cons; [cbv beta; lia|] | exact Hi | exact Hd | apply Forall_nil | apply Forall_app; split ].
Qed.

Lemma p_sockaddr_text a rest : wf_sockaddr a = true ->
  p_sockaddr (jstr (sockaddr_text a) ++ rest) = POk a rest.
Proof.
  intros H. destruct (wf_sockaddr_spec a H) as (ip & Hw & Hs & Hp & Ht).
  unfold p_sockaddr. rewrite Ht.
  rewrite p_string_jstr by (apply ascii_utf8, sockaddr_text_ascii; assumption).
  cbn [pbind]. rewrite parse_sockaddr_show by assumption.
  destruct a as [i p]. cbn [sa_ip sa_port] in *. rewrite Hs. reflexivity.
Qed.

(* ================================================================== objects *)
Section ObjFacts.
  Context {St : Type}.
  Variable fld : bytes -> St -> bytes -> pres St.

  Lemma obj_entry_key st k X : utf8_valid k = true ->
    obj_entry fld st (escape k ++ 34 :: 58 :: X) = fld k st X.
  Proof.
    intros H. unfold obj_entry. rewrite str_tail_escape by exact H. cbn [pbind].
    rewrite skip_ws_nws by reflexivity. reflexivity.
  Qed.

  Lemma obj_loop_first f st k X : utf8_valid k = true ->
    obj_loop fld (S f) true st (34 :: escape k ++ 34 :: 58 :: X) = pbind (fld k st X) (obj_loop fld f false).
  Proof.
    intros H. cbn [obj_loop]. rewrite skip_ws_nws by reflexivity.
    change (34 =? 125) with false. change (34 =? 34) with true. cbv iota.
    rewrite obj_entry_key by exact H. reflexivity.
  Qed.

  Lemma obj_loop_next f st k X : utf8_valid k = true ->
    obj_loop fld (S f) false st (44 :: 34 :: escape k ++ 34 :: 58 :: X) = pbind (fld k st X) (obj_loop fld f false).
  Proof.
    intros H. cbn [obj_loop]. rewrite skip_ws_nws by reflexivity.
    change (44 =? 125) with false. change (44 =? 44) with true. cbv iota.
    rewrite skip_ws_nws by reflexivity. change (34 =? 34) with true. cbv iota.
    rewrite obj_entry_key by exact H. reflexivity.
  Qed.

  Lemma obj_loop_end f first st X : obj_loop fld (S f) first st (125 :: X) = POk st X.
  Proof. cbn [obj_loop]. rewrite skip_ws_nws by reflexivity. reflexivity. Qed.

  (* the same for a key that is written without escapes (the field names) *)
  Lemma obj_loop_first_lit f st k X : escape k = k -> utf8_valid k = true ->
    obj_loop fld (S f) true st (34 :: k ++ 34 :: 58 :: X) = pbind (fld k st X) (obj_loop fld f false).
  Proof. intros E H. rewrite <- E at 1. apply obj_loop_first. exact H. Qed.

  Lemma obj_loop_next_lit f st k X : escape k = k -> utf8_valid k = true ->
    obj_loop fld (S f) false st (44 :: 34 :: k ++ 34 :: 58 :: X) = pbind (fld k st X) (obj_loop fld f false).
  Proof. intros E H. rewrite <- E at 1. apply obj_loop_next. exact H. Qed.
End ObjFacts.

(* ================================================================== ProfileProperty *)
Lemma p_prop_ser p rest : wf_prop p = true -> p_prop (ser_prop p ++ rest) = POk p rest.
Proof.
  intros H. unfold wf_prop in H. apply andb_true_iff in H as [H Hs]. apply andb_true_iff in H as [Hn Hv].
  unfold ser_prop, jfld. norm.
  unfold p_prop, p_struct. rewrite skip_ws_nws by reflexivity.
  change (123 =? 123) with true. cbv iota.
  rewrite obj_loop_first_lit by reflexivity.
  change (fld_prop P_name prop_acc0) with (fun r => once (q_name prop_acc0) (p_string r)
    (fun v => {| q_name := Some v; q_value := q_value prop_acc0; q_sig := q_sig prop_acc0 |})).
  cbv beta. rewrite p_string_jstr by exact Hn. cbn [once pmap pbind prop_acc0 q_name q_value q_sig].
  rewrite obj_loop_next_lit by reflexivity.
  match goal with |- context [fld_prop P_value ?st] =>
    change (fld_prop P_value st) with (fun r => once (q_value st) (p_string r)
      (fun v => {| q_name := q_name st; q_value := Some v; q_sig := q_sig st |})) end.
  cbv beta. rewrite p_string_jstr by exact Hv. cbn [once pmap pbind q_name q_value q_sig].
  rewrite obj_loop_next_lit by reflexivity.
  match goal with |- context [fld_prop P_sig ?st] =>
    change (fld_prop P_sig st) with (fun r => once (q_sig st) (p_optstr r)
      (fun v => {| q_name := q_name st; q_value := q_value st; q_sig := Some v |})) end.
  cbv beta. rewrite p_optstr_jopt by exact Hs. cbn [once pmap pbind q_name q_value q_sig].
  rewrite obj_loop_end. cbn [pbind fin_prop q_name q_value q_sig].
  destruct p; reflexivity.
Qed.

(* ================================================================== arrays *)
Section ArrFacts.
  Context {A : Type}.
  Variable elem : bytes -> pres A.
  Variable ser : A -> bytes.
  Variable wf : A -> bool.
  Hypothesis elem_ser : forall x rest, wf x = true -> elem (ser x ++ rest) = POk x rest.
  Hypothesis ser_head : forall x, exists c t, ser x = c :: t /\ is_ws c = false /\ (c =? 93) = false.

  Lemma jelems_length : forall l first, (length l <= length (jelems ser first l))%nat.
  Proof.
    induction l as [|x l IH]; intros first; cbn [jelems length]; [lia|].
    destruct (ser_head x) as (c & t & E & _). rewrite E. rewrite !app_length. cbn [length].
    specialize (IH false). lia.
  Qed.

  Lemma arr_loop_elems : forall l f first acc rest,
    forallb wf l = true -> (length l < f)%nat ->
    arr_loop elem f first acc (jelems ser first l ++ 93 :: rest) = POk (rev acc ++ l) rest.
  Proof.
    induction l as [|x l IH]; intros f first acc rest Hw Hf.
    - destruct f as [|f]; [lia|]. cbn [jelems app arr_loop]. rewrite skip_ws_nws by reflexivity.
      change (93 =? 93) with true. cbv iota. rewrite app_nil_r. reflexivity.
    - destruct f as [|f]; [cbn [length] in Hf; lia|]. cbn [length] in Hf.
      cbn [forallb] in Hw. apply andb_true_iff in Hw as [Hx Hl].
      destruct (ser_head x) as (c & t & E & Hc1 & Hc2).
      assert (Hrec : arr_loop elem f false (x :: acc) (jelems ser false l ++ 93 :: rest) = POk (rev acc ++ x :: l) rest).
      { rewrite IH by (auto; lia). cbn [rev]. rewrite <- app_assoc. reflexivity. }
      cbn [jelems]. destruct first.
      + norm. cbn [arr_loop]. rewrite E. norm. rewrite skip_ws_nws by exact Hc1. rewrite Hc2.
        change (c :: t ++ jelems ser false l ++ 93 :: rest) with ((c :: t) ++ jelems ser false l ++ 93 :: rest).
        rewrite <- E. rewrite elem_ser by exact Hx. cbn [pbind]. exact Hrec.
      + norm. cbn [arr_loop]. rewrite skip_ws_nws by reflexivity.
        change (44 =? 93) with false. change (44 =? 44) with true. cbv iota.
        rewrite E. norm. rewrite skip_ws_nws by exact Hc1. rewrite Hc2.
        change (c :: t ++ jelems ser false l ++ 93 :: rest) with ((c :: t) ++ jelems ser false l ++ 93 :: rest).
        rewrite <- E. rewrite elem_ser by exact Hx. cbn [pbind]. exact Hrec.
  Qed.

  Lemma p_array_jarr l rest : forallb wf l = true -> p_array elem (jarr ser l ++ rest) = POk l rest.
  Proof.
    intros Hw. unfold jarr. norm. unfold p_array. rewrite skip_ws_nws by reflexivity.
    change (91 =? 91) with true. cbv iota.
    rewrite arr_loop_elems; [reflexivity | exact Hw |].
    rewrite app_length. pose proof (jelems_length l true). lia.
  Qed.
End ArrFacts.

Lemma p_props_ser l rest : forallb wf_prop l = true -> p_array p_prop (jarr ser_prop l ++ rest) = POk l rest.
Proof.
  apply (p_array_jarr p_prop ser_prop wf_prop).
  - intros x r H. apply p_prop_ser. exact H.
  - intros x. eexists. eexists. split; [reflexivity|]. split; reflexivity.
Qed.

(* ================================================================== the extra map *)
Lemma blt_asym : forall a b, blt a b = true -> blt b a = false.
Proof.
  induction a as [|x a IH]; intros [|y b] H; cbn [blt] in *; try reflexivity; try discriminate.
  destruct (Z.ltb_spec x y) as [Hxy|Hxy].
  - destruct (Z.ltb_spec y x); [lia|]. destruct (Z.eqb_spec y x); [lia | reflexivity].
  - cbn [orb] in H. apply andb_true_iff in H as [He Hb]. apply Z.eqb_eq in He. subst y.
    rewrite Z.ltb_irrefl, Z.eqb_refl. cbn [orb andb]. apply IH. exact Hb.
Qed.

Lemma sort_kv_sorted : forall l, sorted_strict l = true -> sort_kv l = l.
Proof.
  induction l as [|x t IH]; intros H; [reflexivity|].
  change (sort_kv (x :: t)) with (ins_kv x (sort_kv t)).
  destruct t as [|y t'].
  - reflexivity.
  - cbn [sorted_strict] in H. apply andb_true_iff in H as [Hxy Ht].
    rewrite IH by exact Ht. cbn [ins_kv]. rewrite (blt_asym _ _ Hxy). reflexivity.
Qed.

Lemma jentry_cons kv rest : jentry kv ++ rest = 34 :: escape (fst kv) ++ 34 :: 58 :: jstr (snd kv) ++ rest.
Proof. unfold jentry. rewrite <- app_assoc. rewrite jstr_cons. reflexivity. Qed.

Lemma extra_loop : forall l f first acc rest,
  forallb wf_kv l = true -> (length l < f)%nat ->
  obj_loop fld_extra f first acc (jelems jentry first l ++ 125 :: rest) = POk (rev l ++ acc) rest.
Proof.
  induction l as [|[k v] l IH]; intros f first acc rest Hw Hf.
  - destruct f as [|f]; [lia|]. cbn [jelems app]. apply obj_loop_end.
  - destruct f as [|f]; [cbn [length] in Hf; lia|]. cbn [length] in Hf.
    cbn [forallb] in Hw. apply andb_true_iff in Hw as [Hkv Hl]. unfold wf_kv in Hkv. cbn [fst snd] in Hkv.
    apply andb_true_iff in Hkv as [Hk Hv].
    assert (Hrec : obj_loop fld_extra f false ((k, v) :: acc) (jelems jentry false l ++ 125 :: rest)
                   = POk (rev ((k, v) :: l) ++ acc) rest).
    { rewrite IH by (auto; lia). cbn [rev]. rewrite <- app_assoc. reflexivity. }
    cbn [jelems]. destruct first.
    + norm. rewrite jentry_cons. cbn [fst snd]. rewrite obj_loop_first by exact Hk.
      unfold fld_extra at 1. rewrite p_string_jstr by exact Hv. cbn [pmap pbind]. exact Hrec.
    + norm. rewrite jentry_cons. cbn [fst snd]. rewrite obj_loop_next by exact Hk.
      unfold fld_extra at 1. rewrite p_string_jstr by exact Hv. cbn [pmap pbind]. exact Hrec.
Qed.

Lemma jelems_entry_length : forall l first, (length l <= length (jelems jentry first l))%nat.
Proof.
  induction l as [|x l IH]; intros first; cbn [jelems length]; [lia|].
  rewrite !app_length. unfold jentry at 1. unfold jstr at 1. cbn [app length]. specialize (IH false). lia.
Qed.

Lemma p_extra_jmap l rest : forallb wf_kv l = true -> sorted_strict l = true ->
  p_extra (jmap l ++ rest) = POk l rest.
Proof.
  intros Hw Hs. unfold jmap. norm. unfold p_extra. rewrite skip_ws_nws by reflexivity.
  change (123 =? 123) with true. cbv iota.
  rewrite extra_loop; [| exact Hw | rewrite app_length; pose proof (jelems_entry_length l true); lia].
  cbn [pbind]. rewrite app_nil_r, rev_involutive. rewrite sort_kv_sorted by exact Hs. rewrite Hs. reflexivity.
Qed.

(* ================================================================== AuthCookie *)
Lemma numstop_comma r : numstop (44 :: r) = true.
Proof. reflexivity. Qed.

Lemma wf_auth_spec c : wf_auth c = true ->
  0 <= ac_ts c <= u64_max /\ wf_sockaddr (ac_addr c) = true /\ utf8_valid (ac_name c) = true
  /\ 0 <= ac_uuid c < 2 ^ 128 /\ wf_ostr (ac_target c) = true /\ forallb wf_prop (ac_props c) = true
  /\ forallb wf_kv (ac_extra c) = true /\ sorted_strict (ac_extra c) = true.
Proof.
  unfold wf_auth. intros H.
  repeat match type of H with (_ && _) = true => let H' := fresh "H" in apply andb_true_iff in H as [H H'] end.
  repeat split; try assumption; lia.
Qed.

Theorem parse_ser_auth : forall c, wf_auth c = true -> parse_auth (ser_auth c) = Some (JOk c).
Proof.
  intros c H. destruct (wf_auth_spec c H) as (Hts & Haddr & Hname & Huuid & Htarget & Hprops & Hex1 & Hex2).
  unfold parse_auth, p_struct, ser_auth, jfld. norm.
  rewrite skip_ws_nws by reflexivity. change (123 =? 123) with true. cbv iota.
  (* timestamp *)
  rewrite obj_loop_first_lit by reflexivity.
  change (fld_auth K_ts auth_acc0) with (fun r => once (a_ts auth_acc0) (p_uint u64_max r) (fun v =>
      {| a_ts := Some v; a_addr := a_addr auth_acc0; a_name := a_name auth_acc0; a_uuid := a_uuid auth_acc0;
         a_target := a_target auth_acc0; a_props := a_props auth_acc0; a_extra := a_extra auth_acc0 |})).
  cbv beta. rewrite p_uint_show by (try apply numstop_comma; lia).
  cbn [once pmap pbind auth_acc0 a_ts a_addr a_name a_uuid a_target a_props a_extra].
  (* client_addr *)
  rewrite obj_loop_next_lit by reflexivity.
  match goal with |- context [fld_auth K_addr ?st] =>
    change (fld_auth K_addr st) with (fun r => once (a_addr st) (p_sockaddr r) (fun v =>
      {| a_ts := a_ts st; a_addr := Some v; a_name := a_name st; a_uuid := a_uuid st;
         a_target := a_target st; a_props := a_props st; a_extra := a_extra st |})) end.
  cbv beta. rewrite p_sockaddr_text by exact Haddr.
  cbn [once pmap pbind a_ts a_addr a_name a_uuid a_target a_props a_extra].
  (* user_name *)
  rewrite obj_loop_next_lit by reflexivity.
  match goal with |- context [fld_auth K_name ?st] =>
    change (fld_auth K_name st) with (fun r => once (a_name st) (p_string r) (fun v =>
      {| a_ts := a_ts st; a_addr := a_addr st; a_name := Some v; a_uuid := a_uuid st;
         a_target := a_target st; a_props := a_props st; a_extra := a_extra st |})) end.
  cbv beta. rewrite p_string_jstr by exact Hname.
  cbn [once pmap pbind a_ts a_addr a_name a_uuid a_target a_props a_extra].
  (* user_id *)
  rewrite obj_loop_next_lit by reflexivity.
  match goal with |- context [fld_auth K_uid ?st] =>
    change (fld_auth K_uid st) with (fun r => once (a_uuid st) (p_uuid r) (fun v =>
      {| a_ts := a_ts st; a_addr := a_addr st; a_name := a_name st; a_uuid := Some v;
         a_target := a_target st; a_props := a_props st; a_extra := a_extra st |})) end.
  cbv beta. rewrite p_uuid_text by exact Huuid.
  cbn [once pmap pbind a_ts a_addr a_name a_uuid a_target a_props a_extra].
  (* target *)
  rewrite obj_loop_next_lit by reflexivity.
  match goal with |- context [fld_auth K_target ?st] =>
    change (fld_auth K_target st) with (fun r => once (a_target st) (p_optstr r) (fun v =>
      {| a_ts := a_ts st; a_addr := a_addr st; a_name := a_name st; a_uuid := a_uuid st;
         a_target := Some v; a_props := a_props st; a_extra := a_extra st |})) end.
  cbv beta. rewrite p_optstr_jopt by exact Htarget.
  cbn [once pmap pbind a_ts a_addr a_name a_uuid a_target a_props a_extra].
  (* profile_properties *)
  rewrite obj_loop_next_lit by reflexivity.
  match goal with |- context [fld_auth K_props ?st] =>
    change (fld_auth K_props st) with (fun r => once (a_props st) (p_array p_prop r) (fun v =>
      {| a_ts := a_ts st; a_addr := a_addr st; a_name := a_name st; a_uuid := a_uuid st;
         a_target := a_target st; a_props := Some v; a_extra := a_extra st |})) end.
  cbv beta. rewrite p_props_ser by exact Hprops.
  cbn [once pmap pbind a_ts a_addr a_name a_uuid a_target a_props a_extra].
  (* extra *)
  rewrite obj_loop_next_lit by reflexivity.
  match goal with |- context [fld_auth K_extra ?st] =>
    change (fld_auth K_extra st) with (fun r => once (a_extra st) (p_extra r) (fun v =>
      {| a_ts := a_ts st; a_addr := a_addr st; a_name := a_name st; a_uuid := a_uuid st;
         a_target := a_target st; a_props := a_props st; a_extra := Some v |})) end.
  cbv beta. rewrite p_extra_jmap by assumption.
  cbn [once pmap pbind a_ts a_addr a_name a_uuid a_target a_props a_extra].
  rewrite obj_loop_end. cbn [pbind fin_auth a_ts a_addr a_name a_uuid a_target a_props a_extra top skip_ws].
  destruct c; reflexivity.
Qed.

(* ================================================================== SessionCookie *)
Theorem parse_ser_session_t : forall t c, wf_session c = true -> wf_ostr t = true ->
  parse_session (ser_session_t t c) = Some (JOk (Some c)).
Proof.
  intros t c H Ht. unfold wf_session in H.
  repeat match type of H with (_ && _) = true => let H' := fresh "H" in apply andb_true_iff in H as [H H'] end.
  assert (Hid : 0 <= sc_id c < 2 ^ 128) by lia.
  assert (Hport : 0 <= sc_port c < 65536) by (unfold portb in *; lia).
  unfold parse_session, p_optsession, ser_session_t, jfld. norm.
  rewrite skip_ws_nws by reflexivity. change (123 =? 110) with false. cbv iota.
  unfold p_struct. rewrite skip_ws_nws by reflexivity. change (123 =? 123) with true. cbv iota.
  rewrite obj_loop_first_lit by reflexivity.
  change (fld_sess S_id sess_acc0) with (fun r => once (s_id sess_acc0) (p_uuid r) (fun v =>
      {| s_id := Some v; s_host := s_host sess_acc0; s_port := s_port sess_acc0; s_trace := s_trace sess_acc0 |})).
  cbv beta. rewrite p_uuid_text by exact Hid.
  cbn [once pmap pbind sess_acc0 s_id s_host s_port s_trace].
  rewrite obj_loop_next_lit by reflexivity.
  match goal with |- context [fld_sess S_host ?st] =>
    change (fld_sess S_host st) with (fun r => once (s_host st) (p_string r) (fun v =>
      {| s_id := s_id st; s_host := Some v; s_port := s_port st; s_trace := s_trace st |})) end.
  cbv beta. rewrite p_string_jstr by assumption.
  cbn [once pmap pbind s_id s_host s_port s_trace].
  rewrite obj_loop_next_lit by reflexivity.
  match goal with |- context [fld_sess S_port ?st] =>
    change (fld_sess S_port st) with (fun r => once (s_port st) (p_uint 65535 r) (fun v =>
      {| s_id := s_id st; s_host := s_host st; s_port := Some v; s_trace := s_trace st |})) end.
  cbv beta. rewrite p_uint_show by (try apply numstop_comma; unfold u64_max; lia).
  cbn [once pmap pbind s_id s_host s_port s_trace].
  rewrite obj_loop_next_lit by reflexivity.
  match goal with |- context [fld_sess S_trace ?st] =>
    change (fld_sess S_trace st) with (fun r => once (s_trace st) (p_optstr r) (fun v =>
      {| s_id := s_id st; s_host := s_host st; s_port := s_port st; s_trace := Some v |})) end.
  cbv beta. rewrite p_optstr_jopt by exact Ht.
  cbn [once pmap pbind s_id s_host s_port s_trace].
  rewrite obj_loop_end. cbn [pbind fin_sess s_id s_host s_port s_trace pmap top skip_ws].
  destruct c; reflexivity.
Qed.

Theorem parse_ser_session : forall c, wf_session c = true -> parse_session (ser_session c) = Some (JOk (Some c)).
Proof. intros c H. apply parse_ser_session_t; [exact H | reflexivity]. Qed.

(* non-vacuity *)
Example parse_ser_auth_ex : wf_auth ex_cookie = true /\ parse_auth (ser_auth ex_cookie) = Some (JOk ex_cookie).
Proof. split; [vm_compute; reflexivity | apply parse_ser_auth; vm_compute; reflexivity]. Qed.
Example parse_ser_session_ex : wf_session ex_session = true /\ parse_session (ser_session ex_session) = Some (JOk (Some ex_session)).
Proof. split; [vm_compute; reflexivity | apply parse_ser_session; vm_compute; reflexivity]. Qed.

(* the writer is injective on well-formed records *)
Corollary ser_auth_inj : forall c1 c2, wf_auth c1 = true -> wf_auth c2 = true -> ser_auth c1 = ser_auth c2 -> c1 = c2.
Proof.
  intros c1 c2 H1 H2 E. pose proof (parse_ser_auth c1 H1) as P1. rewrite E, (parse_ser_auth c2 H2) in P1.
  inversion P1. reflexivity.
Qed.

(* ================================================================== C10: the round trip without the serde hypothesis *)
Lemma json_oracles_roundtrip rsa fa fs c : wf_auth c = true ->
  o_parse_auth (json_oracles rsa fa fs) (o_ser_auth (json_oracles rsa fa fs) c) = JOk c.
Proof. intros H. cbn [json_oracles o_parse_auth o_ser_auth]. rewrite parse_ser_auth by exact H. reflexivity. Qed.

Theorem roundtrip_json : forall rsa fa fs cfg s c h proto host port now2,
  wf_auth c = true ->
  cf_secret cfg = Some s ->
  hs_fields h = Some (proto, host, port, 2) ->
  auth_payload h = Some (sign (ser_auth c) s) ->
  newest_now h = Some now2 ->
  sa_ip (ac_addr c) = sa_ip (cf_client cfg) ->
  now2 <= Z.min (ac_ts c + cf_expiry cfg) (2 ^ 64 - 1) ->
  cookie_accepted (json_oracles rsa fa fs) cfg h = Some c.
Proof.
  intros rsa fa fs cfg s c h proto host port now2 Hwf Hs Hh Hp Hn Hip Hexp.
  apply (cookie_roundtrip (json_oracles rsa fa fs) cfg s c h proto host port now2); try assumption.
  apply json_oracles_roundtrip. exact Hwf.
Qed.

(* the session cookie the router stores is read back, on the next connection, as the session
   it was written for *)
Lemma json_oracles_session rsa fa fs c : wf_session c = true ->
  o_parse_session (json_oracles rsa fa fs) (o_ser_session (json_oracles rsa fa fs) c) = JOk (Some c).
Proof. intros H. cbn [json_oracles o_parse_session o_ser_session]. rewrite parse_ser_session by exact H. reflexivity. Qed.

Print Assumptions parse_ser_auth.
Print Assumptions parse_ser_session_t.
Print Assumptions roundtrip_json.
