(* serde_json (de)serialisation of passage-protocol/src/cookie.rs `AuthCookie` and
   `SessionCookie` as Gallina functions.  Definitions and Examples only; the proofs are in
   Crypto/CookieJsonProofs.v.

   Writer  = serde_json 1.0.149 `to_vec` (CompactFormatter) on the derived `Serialize`:
             fields in declaration order, `u64`/`u16` by itoa, `String` by
             `format_escaped_str`, `SocketAddr` as its Display text, `Uuid` hyphenated
             lower case, `Option` as `null` or the value, `Vec` as an array, `HashMap` as an
             object (the model's association list is written in list order; a real HashMap
             with two or more entries iterates in an unspecified order).
   Parser  = serde_json 1.0.149 `from_slice` (SliceRead) on the derived `Deserialize`
             (map form: any field order, duplicate field = error, missing `Option` field =
             None, missing `#[serde(default)]` field = default), with a THIRD verdict
             outside-the-model (POut / None) for: an unknown key (serde skips its value
             with IgnoredAny, which would need a general JSON value parser), the array form
             of a struct, duplicate keys inside `extra`.  Everything else is decided.

   Byte strings are `list Z`; the functions are total on any list, the theorems are about
   lists of bytes. *)
From Passage Require Import Lib.Bytes Lib.Utf8 Lib.IpText Crypto.Cookie Conn.Types Conn.Prog.

(* ================================================================== writer *)

(* serde_json::ser::format_escaped_str_contents (table ESCAPE): the quote, the backslash and the bytes below
   0x20; everything else, including 0x7f and all non-ASCII bytes, verbatim *)
Definition esc_byte (c : Z) : bytes :=
  if c =? 34 then [92; 34]
  else if c =? 92 then [92; 92]
  else if c =? 8 then [92; 98]
  else if c =? 12 then [92; 102]
  else if c =? 10 then [92; 110]
  else if c =? 13 then [92; 114]
  else if c =? 9 then [92; 116]
  else if (0 <=? c) && (c <? 32) then [92; 117; 48; 48; hchar (c / 16); hchar (c mod 16)]
  else [c].
Definition escape (s : bytes) : bytes := flat_map esc_byte s.
Definition jstr (s : bytes) : bytes := 34 :: escape s ++ [34].

(* itoa of a u64: at most 20 digits *)
Definition show_u64 (v : Z) : bytes := map dchar (digits_aux 10 20 v []).

(* n hex digits of v, most significant first *)
Fixpoint nib_be (n : nat) (v : Z) : list Z :=
  match n with
  | O => []
  | S k => nib_be k (v / 16) ++ [v mod 16]
  end.

(* Uuid::as_hyphenated().encode_lower: 8-4-4-4-12 *)
Definition uuid_text (u : Z) : bytes :=
  let h := map hchar (nib_be 32 u) in
  firstn 8 h ++ 45 :: firstn 4 (skipn 8 h) ++ 45 :: firstn 4 (skipn 12 h) ++ 45 ::
  firstn 4 (skipn 16 h) ++ 45 :: skipn 20 h.

(* Display of SocketAddr on the model's (canonical ip text, port): brackets for V6 *)
Definition sockaddr_text (a : sockaddr) : bytes :=
  match parse_ip (sa_ip a) with
  | Some (V6 _) => 91 :: sa_ip a ++ 93 :: 58 :: show_dec (sa_port a)
  | _ => sa_ip a ++ 58 :: show_dec (sa_port a)
  end.

Definition jnull : bytes := [110; 117; 108; 108].
Definition jopt (o : option bytes) : bytes :=
  match o with Some s => jstr s | None => jnull end.

(* quoted key, colon, value *)
Definition jfld (k v : bytes) : bytes := 34 :: k ++ 34 :: 58 :: v.

(* comma separated *)
Fixpoint jelems {A} (f : A -> bytes) (first : bool) (l : list A) : bytes :=
  match l with
  | [] => []
  | x :: t => (if first then [] else [44]) ++ f x ++ jelems f false t
  end.
Definition jarr {A} (f : A -> bytes) (l : list A) : bytes := 91 :: jelems f true l ++ [93].
Definition jentry (kv : bytes * bytes) : bytes := jstr (fst kv) ++ 58 :: jstr (snd kv).
Definition jmap (l : list (bytes * bytes)) : bytes := 123 :: jelems jentry true l ++ [125].

Definition K_ts : bytes := Eval vm_compute in str "timestamp".
Definition K_addr : bytes := Eval vm_compute in str "client_addr".
Definition K_name : bytes := Eval vm_compute in str "user_name".
Definition K_uid : bytes := Eval vm_compute in str "user_id".
Definition K_target : bytes := Eval vm_compute in str "target".
Definition K_props : bytes := Eval vm_compute in str "profile_properties".
Definition K_extra : bytes := Eval vm_compute in str "extra".
Definition P_name : bytes := Eval vm_compute in str "name".
Definition P_value : bytes := Eval vm_compute in str "value".
Definition P_sig : bytes := Eval vm_compute in str "signature".
Definition S_id : bytes := Eval vm_compute in str "id".
Definition S_host : bytes := Eval vm_compute in str "server_address".
Definition S_port : bytes := Eval vm_compute in str "server_port".
Definition S_trace : bytes := Eval vm_compute in str "trace_id".

(* ProfileProperty (rename_all = camelCase leaves the three names unchanged) *)
Definition ser_prop (p : pprop) : bytes :=
  123 :: jfld P_name (jstr (pp_name p)) ++ 44 :: jfld P_value (jstr (pp_value p))
      ++ 44 :: jfld P_sig (jopt (pp_sig p)) ++ [125].

Definition ser_auth (c : auth_cookie) : bytes :=
  123 :: jfld K_ts (show_u64 (ac_ts c))
      ++ 44 :: jfld K_addr (jstr (sockaddr_text (ac_addr c)))
      ++ 44 :: jfld K_name (jstr (ac_name c))
      ++ 44 :: jfld K_uid (jstr (uuid_text (ac_uuid c)))
      ++ 44 :: jfld K_target (jopt (ac_target c))
      ++ 44 :: jfld K_props (jarr ser_prop (ac_props c))
      ++ 44 :: jfld K_extra (jmap (ac_extra c)) ++ [125].

(* SessionCookie has a fourth field `trace_id : Option<String>` that the model record does
   not carry.  connection.rs writes Some(the current OpenTelemetry trace id as 32 lower-case
   hex digits); without an OpenTelemetry layer (the harness, and any deployment without
   tracing export) that id is TraceId::INVALID = 32 zeros. *)
Definition ser_session_t (trace : option bytes) (c : session_cookie) : bytes :=
  123 :: jfld S_id (jstr (uuid_text (sc_id c)))
      ++ 44 :: jfld S_host (jstr (sc_host c))
      ++ 44 :: jfld S_port (show_u64 (sc_port c))
      ++ 44 :: jfld S_trace (jopt trace) ++ [125].
Definition trace_invalid : bytes := repeat 48 32.
Definition ser_session (c : session_cookie) : bytes := ser_session_t (Some trace_invalid) c.

(* ================================================================== parser *)
(* POk v rest: the value and the unread input; PErr: serde_json returns Err whatever
   follows; POut: not decided by this model *)
Inductive pres (A : Type) := POk (a : A) (rest : bytes) | PErr | POut.
Arguments POk {A} a rest.
Arguments PErr {A}.
Arguments POut {A}.

Definition pmap {A B} (f : A -> B) (r : pres A) : pres B :=
  match r with POk a rest => POk (f a) rest | PErr => PErr | POut => POut end.
Definition pbind {A B} (r : pres A) (f : A -> bytes -> pres B) : pres B :=
  match r with POk a rest => f a rest | PErr => PErr | POut => POut end.

(* Deserializer::parse_whitespace *)
Definition is_ws (c : Z) : bool := (c =? 32) || (c =? 10) || (c =? 9) || (c =? 13).
Fixpoint skip_ws (s : bytes) : bytes :=
  match s with
  | c :: r => if is_ws c then skip_ws r else s
  | [] => []
  end.

(* read.rs decode_four_hex_digits: either case *)
Definition hex4 (a b c d : Z) : option Z :=
  match to_digit 16 a, to_digit 16 b, to_digit 16 c, to_digit 16 d with
  | Some x, Some y, Some z, Some w => Some (((x * 16 + y) * 16 + z) * 16 + w)
  | _, _, _, _ => None
  end.

(* read.rs push_wtf8_codepoint on a scalar value *)
Definition utf8_enc (n : Z) : bytes :=
  if n <? 128 then [n]
  else if n <? 2048 then [192 + n / 64; 128 + n mod 64]
  else if n <? 65536 then [224 + n / 4096; 128 + (n / 64) mod 64; 128 + n mod 64]
  else [240 + n / 262144; 128 + (n / 4096) mod 64; 128 + (n / 64) mod 64; 128 + n mod 64].

Definition simple_escape (e : Z) : option Z :=
  if e =? 34 then Some 34 else if e =? 92 then Some 92 else if e =? 47 then Some 47
  else if e =? 98 then Some 8 else if e =? 102 then Some 12 else if e =? 110 then Some 10
  else if e =? 114 then Some 13 else if e =? 116 then Some 9 else None.

Definition pcons (c : Z) (r : pres bytes) : pres bytes := pmap (cons c) r.
Definition papp (p : bytes) (r : pres bytes) : pres bytes := pmap (app p) r.

(* SliceRead::parse_str_bytes(validate = true) after the opening quote: the decoded bytes
   (raw runs copied, escapes decoded; a \uD800-\uDBFF escape must be followed by a
   \uDC00-\uDFFF escape) up to the closing quote; a byte below 0x20 is an error *)
Fixpoint str_body (s : bytes) : pres bytes :=
  match s with
  | [] => PErr
  | c :: r =>
      if c =? 34 then POk [] r
      else if c =? 92 then
        match r with
        | [] => PErr
        | e :: r1 =>
            if e =? 117 then
              match r1 with
              | h1 :: h2 :: h3 :: h4 :: r2 =>
                  match hex4 h1 h2 h3 h4 with
                  | None => PErr
                  | Some n =>
                      if (56320 <=? n) && (n <=? 57343) then PErr
                      else if (55296 <=? n) && (n <=? 56319) then
                        match r2 with
                        | b1 :: b2 :: g1 :: g2 :: g3 :: g4 :: r3 =>
                            if (b1 =? 92) && (b2 =? 117) then
                              match hex4 g1 g2 g3 g4 with
                              | None => PErr
                              | Some n2 =>
                                  if (56320 <=? n2) && (n2 <=? 57343)
                                  then papp (utf8_enc ((n - 55296) * 1024 + (n2 - 56320) + 65536)) (str_body r3)
                                  else PErr
                              end
                            else PErr
                        | _ => PErr
                        end
                      else papp (utf8_enc n) (str_body r2)
                  end
              | _ => PErr
              end
            else match simple_escape e with
                 | Some v => pcons v (str_body r1)
                 | None => PErr
                 end
        end
      else if c <? 32 then PErr
      else pcons c (str_body r)
  end.

(* the decoded bytes must be UTF-8 (read.rs as_str) *)
Definition str_tail (r : bytes) : pres bytes :=
  match str_body r with
  | POk v rest => if utf8_valid v then POk v rest else PErr
  | PErr => PErr
  | POut => POut
  end.

(* Deserializer::deserialize_str / deserialize_string: anything but a quote is an error *)
Definition p_string (s : bytes) : pres bytes :=
  match skip_ws s with
  | c :: r => if c =? 34 then str_tail r else PErr
  | [] => PErr
  end.

(* deserialize_option of a String: `null`, or a string *)
Definition p_optstr (s : bytes) : pres (option bytes) :=
  match skip_ws s with
  | c :: r =>
      if c =? 110 then
        match r with
        | u :: l1 :: l2 :: r' => if (u =? 117) && (l1 =? 108) && (l2 =? 108) then POk None r' else PErr
        | _ => PErr
        end
      else pmap Some (p_string (c :: r))
  | [] => PErr
  end.

(* deserialize_number into an unsigned integer type with maximum `limit` (u64, u16):
   parse_integer keeps a u64 as long as it fits; a number that overflows u64, a fraction or
   an exponent becomes an f64 (or a syntax error), a leading `-` gives a negative i64, a
   float or a syntax error: all of these are errors for an unsigned target *)
Definition isdig (c : Z) : bool := (48 <=? c) && (c <=? 57).
Definition isfrac (c : Z) : bool := (c =? 46) || (c =? 101) || (c =? 69).
Definition u64_max : Z := 18446744073709551615.
Fixpoint num_loop (acc : Z) (s : bytes) : pres Z :=
  match s with
  | [] => POk acc []
  | c :: r =>
      if isdig c then
        (if u64_max <? acc * 10 + (c - 48) then PErr else num_loop (acc * 10 + (c - 48)) r)
      else if isfrac c then PErr
      else POk acc s
  end.
Definition p_uint (limit : Z) (s : bytes) : pres Z :=
  match skip_ws s with
  | [] => PErr
  | c :: r =>
      if c =? 48 then
        match r with
        | d :: _ => if isdig d || isfrac d then PErr else POk 0 r
        | [] => POk 0 []
        end
      else if isdig c then
        match num_loop (c - 48) r with
        | POk v rest => if limit <? v then PErr else POk v rest
        | PErr => PErr
        | POut => POut
        end
      else PErr
  end.

(* uuid 1.21 parser.rs try_parse on the bytes of the string: simple (32), hyphenated (36),
   braced (38), urn (45); hex digits of either case *)
Fixpoint hex_acc (acc : Z) (s : bytes) : option Z :=
  match s with
  | [] => Some acc
  | c :: r => match to_digit 16 c with Some d => hex_acc (acc * 16 + d) r | None => None end
  end.
Definition parse_hyph (s : bytes) : option Z :=
  if (length s =? 36)%nat && (nth 8 s 0 =? 45) && (nth 13 s 0 =? 45) && (nth 18 s 0 =? 45) && (nth 23 s 0 =? 45)
  then hex_acc 0 (firstn 8 s ++ firstn 4 (skipn 9 s) ++ firstn 4 (skipn 14 s) ++ firstn 4 (skipn 19 s) ++ skipn 24 s)
  else None.
Definition urn_prefix : bytes := Eval vm_compute in str "urn:uuid:".
Definition parse_uuid (t : bytes) : option Z :=
  let n := length t in
  if (n =? 32)%nat then hex_acc 0 t
  else if (n =? 36)%nat then parse_hyph t
  else if (n =? 38)%nat then
    match t with
    | c :: r => if (c =? 123) && (last r 0 =? 125) then parse_hyph (removelast r) else None
    | [] => None
    end
  else if (n =? 45)%nat then
    if beq (firstn 9 t) urn_prefix then parse_hyph (skipn 9 t) else None
  else None.

Definition p_uuid (s : bytes) : pres Z :=
  pbind (p_string s) (fun t rest => match parse_uuid t with Some u => POk u rest | None => PErr end).

(* serde's Deserialize for SocketAddr (human readable): FromStr on the string; the model's
   record keeps the canonical text of the ip and the port (a scope id is dropped, as
   SocketAddr::ip()/port() drop it) *)
Definition p_sockaddr (s : bytes) : pres sockaddr :=
  pbind (p_string s) (fun t rest =>
    match parse_sockaddr t with
    | Some (a, p) => POk {| sa_ip := show_ip a; sa_port := p |} rest
    | None => PErr
    end).

(* ---- MapAccess: the loop of a derived visit_map / of HashMap's visit_map.
   `fld key state input-after-the-colon` parses the value of one entry. *)
Section Obj.
  Context {St : Type}.
  Variable fld : bytes -> St -> bytes -> pres St.

  (* after the opening quote of a key: key, colon, value *)
  Definition obj_entry (st : St) (r : bytes) : pres St :=
    pbind (str_tail r) (fun k r2 =>
      match skip_ws r2 with
      | c :: r3 => if c =? 58 then fld k st r3 else PErr
      | [] => PErr
      end).

  (* has_next_key + next_value; the closing brace is the one end_map eats.  Fuel: number of
     entries that may still be read. *)
  Fixpoint obj_loop (fuel : nat) (first : bool) (st : St) (s : bytes) : pres St :=
    match fuel with
    | O => POut
    | S f =>
        match skip_ws s with
        | [] => PErr
        | c :: r =>
            if c =? 125 then POk st r
            else if first then
              (if c =? 34 then pbind (obj_entry st r) (obj_loop f false) else PErr)
            else if c =? 44 then
              match skip_ws r with
              | d :: r' => if d =? 34 then pbind (obj_entry st r') (obj_loop f false) else PErr
              | [] => PErr
              end
            else PErr
        end
    end.
End Obj.

(* ---- SeqAccess: has_next_element + element; the closing bracket is the one end_seq eats.
   The accumulator is in reverse order. *)
Section Arr.
  Context {A : Type}.
  Variable elem : bytes -> pres A.

  Fixpoint arr_loop (fuel : nat) (first : bool) (acc : list A) (s : bytes) : pres (list A) :=
    match fuel with
    | O => POut
    | S f =>
        match skip_ws s with
        | [] => PErr
        | c :: r =>
            if c =? 93 then POk (rev acc) r
            else if first then pbind (elem (c :: r)) (fun x => arr_loop f false (x :: acc))
            else if c =? 44 then
              match skip_ws r with
              | d :: r' => if d =? 93 then PErr else pbind (elem (d :: r')) (fun x => arr_loop f false (x :: acc))
              | [] => PErr
              end
            else PErr
        end
    end.

  (* deserialize_seq: `[` or an error; at most one element per input byte *)
  Definition p_array (s : bytes) : pres (list A) :=
    match skip_ws s with
    | c :: r => if c =? 91 then arr_loop (S (length r)) true [] r else PErr
    | [] => PErr
    end.
End Arr.

(* a field may occur once (derived visit_map: duplicate_field, before the value is read) *)
Definition once {St A} (cur : option A) (p : pres A) (upd : A -> St) : pres St :=
  match cur with Some _ => PErr | None => pmap upd p end.

(* ---- ProfileProperty *)
Record prop_acc := { q_name : option bytes; q_value : option bytes; q_sig : option (option bytes) }.
Definition prop_acc0 : prop_acc := {| q_name := None; q_value := None; q_sig := None |}.
Definition fld_prop (k : bytes) (st : prop_acc) (r : bytes) : pres prop_acc :=
  if beq k P_name then
    once (q_name st) (p_string r) (fun v => {| q_name := Some v; q_value := q_value st; q_sig := q_sig st |})
  else if beq k P_value then
    once (q_value st) (p_string r) (fun v => {| q_name := q_name st; q_value := Some v; q_sig := q_sig st |})
  else if beq k P_sig then
    once (q_sig st) (p_optstr r) (fun v => {| q_name := q_name st; q_value := q_value st; q_sig := Some v |})
  else POut.
Definition fin_prop (st : prop_acc) : option pprop :=
  match q_name st, q_value st with
  | Some n, Some v => Some {| pp_name := n; pp_value := v;
                              pp_sig := match q_sig st with Some s => s | None => None end |}
  | _, _ => None
  end.

(* deserialize_struct: `{` = map form, `[` = array form (outside the model), else an error *)
Definition p_struct {St A} (fld : bytes -> St -> bytes -> pres St) (fuel : nat) (st0 : St)
    (fin : St -> option A) (s : bytes) : pres A :=
  match skip_ws s with
  | [] => PErr
  | c :: r =>
      if c =? 123 then
        pbind (obj_loop fld fuel true st0 r) (fun st rest =>
          match fin st with Some v => POk v rest | None => PErr end)
      else if c =? 91 then POut
      else PErr
  end.

Definition p_prop : bytes -> pres pprop := p_struct fld_prop 4 prop_acc0 fin_prop.

(* ---- HashMap<String, String>: entries in input order, then the canonical presentation of
   the map the model uses (sorted by key, as the harness prints a HashMap); a repeated key
   (serde: the last one wins) is outside the model *)
Fixpoint blt (a b : bytes) : bool :=          (* a < b, lexicographic by byte: Ord for str *)
  match a, b with
  | _, [] => false
  | [], _ :: _ => true
  | x :: a', y :: b' => (x <? y) || ((x =? y) && blt a' b')
  end.
Fixpoint ins_kv (kv : bytes * bytes) (l : list (bytes * bytes)) : list (bytes * bytes) :=
  match l with
  | [] => [kv]
  | x :: t => if blt (fst x) (fst kv) then x :: ins_kv kv t else kv :: l
  end.
Definition sort_kv (l : list (bytes * bytes)) : list (bytes * bytes) := fold_right ins_kv [] l.
Fixpoint sorted_strict (l : list (bytes * bytes)) : bool :=
  match l with
  | x :: ((y :: _) as t) => blt (fst x) (fst y) && sorted_strict t
  | _ => true
  end.

Definition fld_extra (k : bytes) (st : list (bytes * bytes)) (r : bytes) : pres (list (bytes * bytes)) :=
  pmap (fun v => (k, v) :: st) (p_string r).
Definition p_extra (s : bytes) : pres (list (bytes * bytes)) :=
  match skip_ws s with
  | c :: r =>
      if c =? 123 then
        pbind (obj_loop fld_extra (S (length r)) true [] r) (fun st rest =>
          let l := sort_kv (rev st) in
          if sorted_strict l then POk l rest else POut)
      else PErr
  | [] => PErr
  end.

(* ---- AuthCookie *)
Record auth_acc := {
  a_ts : option Z; a_addr : option sockaddr; a_name : option bytes; a_uuid : option Z;
  a_target : option (option bytes); a_props : option (list pprop); a_extra : option (list (bytes * bytes)) }.
Definition auth_acc0 : auth_acc :=
  {| a_ts := None; a_addr := None; a_name := None; a_uuid := None; a_target := None; a_props := None; a_extra := None |}.

Definition fld_auth (k : bytes) (st : auth_acc) (r : bytes) : pres auth_acc :=
  if beq k K_ts then
    once (a_ts st) (p_uint u64_max r) (fun v =>
      {| a_ts := Some v; a_addr := a_addr st; a_name := a_name st; a_uuid := a_uuid st;
         a_target := a_target st; a_props := a_props st; a_extra := a_extra st |})
  else if beq k K_addr then
    once (a_addr st) (p_sockaddr r) (fun v =>
      {| a_ts := a_ts st; a_addr := Some v; a_name := a_name st; a_uuid := a_uuid st;
         a_target := a_target st; a_props := a_props st; a_extra := a_extra st |})
  else if beq k K_name then
    once (a_name st) (p_string r) (fun v =>
      {| a_ts := a_ts st; a_addr := a_addr st; a_name := Some v; a_uuid := a_uuid st;
         a_target := a_target st; a_props := a_props st; a_extra := a_extra st |})
  else if beq k K_uid then
    once (a_uuid st) (p_uuid r) (fun v =>
      {| a_ts := a_ts st; a_addr := a_addr st; a_name := a_name st; a_uuid := Some v;
         a_target := a_target st; a_props := a_props st; a_extra := a_extra st |})
  else if beq k K_target then
    once (a_target st) (p_optstr r) (fun v =>
      {| a_ts := a_ts st; a_addr := a_addr st; a_name := a_name st; a_uuid := a_uuid st;
         a_target := Some v; a_props := a_props st; a_extra := a_extra st |})
  else if beq k K_props then
    once (a_props st) (p_array p_prop r) (fun v =>
      {| a_ts := a_ts st; a_addr := a_addr st; a_name := a_name st; a_uuid := a_uuid st;
         a_target := a_target st; a_props := Some v; a_extra := a_extra st |})
  else if beq k K_extra then
    once (a_extra st) (p_extra r) (fun v =>
      {| a_ts := a_ts st; a_addr := a_addr st; a_name := a_name st; a_uuid := a_uuid st;
         a_target := a_target st; a_props := a_props st; a_extra := Some v |})
  else POut.

(* missing_field: an error, except None for an Option and Default for #[serde(default)] *)
Definition fin_auth (st : auth_acc) : option auth_cookie :=
  match a_ts st, a_addr st, a_name st, a_uuid st, a_props st with
  | Some ts, Some ad, Some nm, Some u, Some ps =>
      Some {| ac_ts := ts; ac_addr := ad; ac_name := nm; ac_uuid := u;
              ac_target := match a_target st with Some t => t | None => None end;
              ac_props := ps;
              ac_extra := match a_extra st with Some e => e | None => [] end |}
  | _, _, _, _, _ => None
  end.

(* from_slice: the value, then Deserializer::end (only whitespace may follow) *)
Definition top {A} (r : pres A) : option (jres A) :=
  match r with
  | POk v rest => match skip_ws rest with [] => Some (JOk v) | _ :: _ => Some JErr end
  | PErr => Some JErr
  | POut => None
  end.

Definition parse_auth (s : bytes) : option (jres auth_cookie) :=
  top (p_struct fld_auth 8 auth_acc0 fin_auth s).

(* ---- SessionCookie, read as Option<SessionCookie> (CookieResponsePacket::decode) *)
Record sess_acc := { s_id : option Z; s_host : option bytes; s_port : option Z; s_trace : option (option bytes) }.
Definition sess_acc0 : sess_acc := {| s_id := None; s_host := None; s_port := None; s_trace := None |}.
Definition fld_sess (k : bytes) (st : sess_acc) (r : bytes) : pres sess_acc :=
  if beq k S_id then
    once (s_id st) (p_uuid r) (fun v => {| s_id := Some v; s_host := s_host st; s_port := s_port st; s_trace := s_trace st |})
  else if beq k S_host then
    once (s_host st) (p_string r) (fun v => {| s_id := s_id st; s_host := Some v; s_port := s_port st; s_trace := s_trace st |})
  else if beq k S_port then
    once (s_port st) (p_uint 65535 r) (fun v => {| s_id := s_id st; s_host := s_host st; s_port := Some v; s_trace := s_trace st |})
  else if beq k S_trace then
    once (s_trace st) (p_optstr r) (fun v => {| s_id := s_id st; s_host := s_host st; s_port := s_port st; s_trace := Some v |})
  else POut.
Definition fin_sess (st : sess_acc) : option session_cookie :=
  match s_id st, s_host st, s_port st with
  | Some i, Some h, Some p => Some {| sc_id := i; sc_host := h; sc_port := p |}
  | _, _, _ => None
  end.

Definition p_optsession (s : bytes) : pres (option session_cookie) :=
  match skip_ws s with
  | c :: r =>
      if c =? 110 then
        match r with
        | u :: l1 :: l2 :: r' => if (u =? 117) && (l1 =? 108) && (l2 =? 108) then POk None r' else PErr
        | _ => PErr
        end
      else pmap Some (p_struct fld_sess 5 sess_acc0 fin_sess (c :: r))
  | [] => PErr
  end.
Definition parse_session (s : bytes) : option (jres (option session_cookie)) := top (p_optsession s).

(* ================================================================== well-formed records *)
Definition wf_sockaddr (a : sockaddr) : bool :=
  match parse_ip (sa_ip a) with
  | Some ip => wf_ip ip && beq (show_ip ip) (sa_ip a)     (* the canonical text of an address *)
  | None => false
  end && portb (sa_port a).
Definition wf_ostr (o : option bytes) : bool := match o with Some s => utf8_valid s | None => true end.
Definition wf_prop (p : pprop) : bool := utf8_valid (pp_name p) && utf8_valid (pp_value p) && wf_ostr (pp_sig p).
Definition wf_kv (kv : bytes * bytes) : bool := utf8_valid (fst kv) && utf8_valid (snd kv).
Definition wf_auth (c : auth_cookie) : bool :=
  (0 <=? ac_ts c) && (ac_ts c <=? u64_max)
  && wf_sockaddr (ac_addr c)
  && utf8_valid (ac_name c)
  && (0 <=? ac_uuid c) && (ac_uuid c <? 2 ^ 128)
  && wf_ostr (ac_target c)
  && forallb wf_prop (ac_props c)
  && forallb wf_kv (ac_extra c) && sorted_strict (ac_extra c).
Definition wf_session (c : session_cookie) : bool :=
  (0 <=? sc_id c) && (sc_id c <? 2 ^ 128) && utf8_valid (sc_host c) && portb (sc_port c).

(* ================================================================== the oracle record *)
(* serde_json as the four functions above; on an input the parser model does not decide, the
   verdict is taken from a fallback (a recorded table, or any function) *)
Definition json_oracles (rsa : bytes -> option bytes)
    (fb_auth : bytes -> jres auth_cookie) (fb_sess : bytes -> jres (option session_cookie)) : oracles :=
  {| o_rsa := rsa;
     o_parse_session := fun b => match parse_session b with Some r => r | None => fb_sess b end;
     o_parse_auth := fun b => match parse_auth b with Some r => r | None => fb_auth b end;
     o_ser_auth := ser_auth;
     o_ser_session := ser_session |}.

(* ================================================================== Examples *)
Definition ex_cookie : auth_cookie :=
  {| ac_ts := 1767225600; ac_addr := {| sa_ip := str "2001:db8::1"; sa_port := 25565 |};
     ac_name := [83; 116; 101; 34; 118; 92; 101; 10; 1; 195; 164];   (* Ste, quote, v, backslash, e, LF, 0x01, a-umlaut *)
     ac_uuid := 137269462086865085531551974538295827464;
     ac_target := Some (str "lobby-1");
     ac_props := [ {| pp_name := str "textures"; pp_value := str "e30="; pp_sig := Some (str "c2ln") |};
                   {| pp_name := str "x"; pp_value := []; pp_sig := None |} ];
     ac_extra := [(str "a", str "1"); (str "b", [])] |}.

Example ex_ser_auth : ser_auth ex_cookie
  = str "{""timestamp"":1767225600,""client_addr"":""[2001:db8::1]:25565"",""user_name"":""Ste\""v\\e\n\u0001"
    ++ [195; 164] ++ str """,""user_id"":""67452301-efcd-ab89-1032-547698badc08"",""target"":""lobby-1"",""profile_properties"":[{""name"":""textures"",""value"":""e30="",""signature"":""c2ln""},{""name"":""x"",""value"":"""",""signature"":null}],""extra"":{""a"":""1"",""b"":""""}}".
Proof. vm_compute. reflexivity. Qed.

Example ex_wf_auth : wf_auth ex_cookie = true.
Proof. vm_compute. reflexivity. Qed.

Example ex_parse_auth : parse_auth (ser_auth ex_cookie) = Some (JOk ex_cookie).
Proof. vm_compute. reflexivity. Qed.

(* any field order, whitespace, \u escapes (with a surrogate pair), upper-case uuid, missing
   target / signature / extra *)
Example ex_parse_auth_loose :
  parse_auth (str " { ""user_id"" : ""67452301EFCDAB891032547698BADC08"" , ""user_name"":""A\u00e4\ud83d\uDE00\/"", ""profile_properties"":[ {""value"":""v"",""name"":""n""} ] , ""client_addr"":""10.0.0.1:0080"",""timestamp"":0 } ")
  = Some (JOk {| ac_ts := 0; ac_addr := {| sa_ip := str "10.0.0.1"; sa_port := 80 |};
                 ac_name := [65; 195; 164; 240; 159; 152; 128; 47];
                 ac_uuid := 137269462086865085531551974538295827464; ac_target := None;
                 ac_props := [ {| pp_name := str "n"; pp_value := str "v"; pp_sig := None |} ];
                 ac_extra := [] |}).
Proof. vm_compute. reflexivity. Qed.

Example ex_parse_auth_verdicts :
  map parse_auth
    [ str "{}"; str "null"; str "[]"; str "";
      str "{""timestamp"":1,""timestamp"":2}";                       (* duplicate field *)
      str "{""timestamp"":1,""other"":2}";                            (* unknown field: not decided *)
      str "{""timestamp"":18446744073709551616}";                      (* not a u64 *)
      str "{""timestamp"":1.0}"; str "{""timestamp"":-1}"; str "{""timestamp"":01}";
      str "{""timestamp"":1,}" ]
  = [ Some JErr; Some JErr; None; Some JErr; Some JErr; None; Some JErr; Some JErr; Some JErr; Some JErr; Some JErr ].
Proof. vm_compute. reflexivity. Qed.

Definition ex_session : session_cookie := {| sc_id := 77; sc_host := str "play.example.org"; sc_port := 25565 |}.
Example ex_ser_session : ser_session ex_session
  = str "{""id"":""00000000-0000-0000-0000-00000000004d"",""server_address"":""play.example.org"",""server_port"":25565,""trace_id"":""00000000000000000000000000000000""}".
Proof. vm_compute. reflexivity. Qed.
Example ex_parse_session :
  (parse_session (ser_session ex_session), parse_session (str " null "), parse_session (str "nul"),
   parse_session (str "{""id"":""00000000-0000-0000-0000-00000000004d"",""server_address"":"""",""server_port"":65536}"))
  = (Some (JOk (Some ex_session)), Some (JOk None), Some JErr, Some JErr).
Proof. vm_compute. reflexivity. Qed.
