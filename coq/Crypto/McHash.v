(* Passage.Crypto.McHash - operational model of
     passage-adapters/src/authentication/mod.rs : minecraft_hash
       BigInt::from_signed_bytes_be(&sha1(server_id ++ shared_secret ++ encoded_public)).to_str_radix(16)
   following num-bigint 0.4.6 step by step on the byte string (definitions only).

   What is modelled, function by function (num-bigint-0.4.6/src):
   - bigint/convert.rs from_signed_bytes_be: sign from the first byte (> 0x7f = Minus, else
     Plus, empty input = BigInt::ZERO); for Minus the bytes are copied and two's-complemented
     in place by [twos_complement] = for every byte from the LEAST significant one:
     d = !d; if carry { d = d.wrapping_add(1); carry = (d == 0) }   ([tc_le], bytewise, with
     the carry flag exactly as in the library);
   - biguint.rs from_bytes_be / from_bytes_le / convert.rs from_bitwise_digits_le(v, 8): the
     reversed (little-endian) bytes are cut into chunks of [lb] bytes (8 on 64-bit targets:
     BigDigit = u64, 4 on 32-bit targets), every chunk is folded most significant byte
     first into one limb ([limb_of_chunk]), and the limb vector is normalised by dropping
     most significant zero limbs ([normalize]); BigUint zero = empty vector;
   - bigint.rs from_biguint: a zero magnitude gets sign NoSign;
   - bigint.rs to_str_radix / biguint/convert.rs to_str_radix_reversed / to_radix_le /
     to_bitwise_digits_le(u, 4): zero prints "0"; otherwise every limb but the last yields
     exactly 2*lb nibbles, least significant first, the last limb yields nibbles while it
     is non-zero; nibbles < 10 become '0'+r, others 'a'+r-10; '-' is pushed when the sign
     is Minus; the vector is reversed.
   Abstracted: Vec capacities, the u8/u64 machine types (bytes are 0..255 by [wf_bytes],
   limbs are < 256^lb by construction - proved in McHashProofs), String::from_utf8_unchecked
   (the bytes are the string's UTF-8).  The limb width is a parameter; the property is
   proved for every width >= 1, [mc_hex] fixes the 64-bit one used by the harness host. *)
From Passage Require Import Lib.Bytes Spec.Sha1.

Inductive sign := Minus | NoSign | Plus.

(* ---- convert.rs twos_complement, on the little-endian (reversed) byte sequence ---- *)
Fixpoint tc_le (carry : bool) (l : bytes) : bytes :=
  match l with
  | [] => []
  | d :: r =>
      let n := 255 - d in                          (* *d = !*d *)
      if carry then
        let m := (n + 1) mod 256 in                (* d.wrapping_add(1) *)
        m :: tc_le (m =? 0) r                      (* carry = d.is_zero() *)
      else n :: tc_le false r
  end.

(* twos_complement_be(&mut digits) = twos_complement(digits.iter_mut().rev()) *)
Definition twos_complement_bytes_be (d : bytes) : bytes := rev (tc_le true (rev d)).

(* ---- BigUint::from_bytes_be ---- *)
(* slice::chunks(n): fuel = length of the slice suffices for n >= 1 *)
Fixpoint chunks_fuel (fuel n : nat) (l : bytes) : list bytes :=
  match fuel with
  | O => []
  | S f => match l with
           | [] => []
           | _ :: _ => firstn n l :: chunks_fuel f n (skipn n l)
           end
  end.
Definition chunks (n : nat) (l : bytes) : list bytes := chunks_fuel (length l) n l.

(* chunk.iter().rev().fold(0, |acc, &c| (acc << 8) | c) on a little-endian chunk *)
Fixpoint limb_of_chunk (c : bytes) : Z :=
  match c with [] => 0 | b :: r => b + 256 * limb_of_chunk r end.

(* BigUint::normalize: drop most significant (= trailing) zero limbs *)
Fixpoint normalize (l : list Z) : list Z :=
  match l with
  | [] => []
  | x :: r => match normalize r with
              | [] => if x =? 0 then [] else [x]
              | r' => x :: r'
              end
  end.

Definition biguint_from_bytes_be (lb : nat) (d : bytes) : list Z :=
  match d with
  | [] => []                                           (* Self::ZERO *)
  | _ => normalize (map limb_of_chunk (chunks lb (rev d)))
  end.

(* ---- BigInt::from_biguint and from_signed_bytes_be ---- *)
Definition from_biguint (s : sign) (data : list Z) : sign * list Z :=
  match s with
  | NoSign => (NoSign, [])
  | _ => match data with [] => (NoSign, []) | _ => (s, data) end
  end.

Definition from_signed_bytes_be (lb : nat) (d : bytes) : sign * list Z :=
  match d with
  | [] => (NoSign, [])                                 (* BigInt::ZERO *)
  | v :: _ =>
      if 127 <? v
      then from_biguint Minus (biguint_from_bytes_be lb (twos_complement_bytes_be d))
      else from_biguint Plus (biguint_from_bytes_be lb d)
  end.

(* ---- to_str_radix(16) ---- *)
(* for _ in 0..digits_per_big_digit { res.push(r & mask); r >>= bits } *)
Fixpoint nibbles_fixed (n : nat) (r : Z) : list Z :=
  match n with O => [] | S k => r mod 16 :: nibbles_fixed k (r / 16) end.

(* while r != 0 { res.push(r & mask); r >>= bits }; a limb has at most 2*lb nibbles *)
Fixpoint nibbles_while (fuel : nat) (r : Z) : list Z :=
  match fuel with
  | O => []
  | S k => if r =? 0 then [] else r mod 16 :: nibbles_while k (r / 16)
  end.

(* to_bitwise_digits_le(u, 4) on a non-empty limb vector *)
Fixpoint to_bitwise_digits_le (lb : nat) (limbs : list Z) : list Z :=
  match limbs with
  | [] => []
  | [x] => nibbles_while (2 * lb) x
  | x :: r => nibbles_fixed (2 * lb) x ++ to_bitwise_digits_le lb r
  end.

Definition ascii_digit (r : Z) : Z := if r <? 10 then r + 48 else r + 87.   (* b'0', b'a' - 10 *)

Definition to_str_radix_reversed (lb : nat) (data : list Z) : bytes :=
  match data with
  | [] => [48]
  | _ => map ascii_digit (to_bitwise_digits_le lb data)
  end.

Definition to_str_radix16 (lb : nat) (n : sign * list Z) : bytes :=
  let v := to_str_radix_reversed lb (snd n) in
  let v := match fst n with Minus => v ++ [45] | _ => v end in
  rev v.

(* ---- the expression in minecraft_hash ---- *)
Definition mc_hex_w (lb : nat) (digest : bytes) : bytes :=
  to_str_radix16 lb (from_signed_bytes_be lb digest).

(* BigDigit = u64 (target_pointer_width = "64") *)
Definition mc_hex (digest : bytes) : bytes := mc_hex_w 8 digest.

(* Sha1::new(); update(server_id); update(shared_secret); update(encoded_public); finalize() *)
Definition minecraft_hash (server_id secret pubkey : bytes) : bytes :=
  mc_hex (sha1 (server_id ++ secret ++ pubkey)).

(* ---- examples ---- *)
(* the three vectors of the protocol documentation *)
Example mc_notch : minecraft_hash (str "Notch") [] [] = str "4ed1f46bbe04bc756bcb17c0c7ce3e4632f06a48".
Proof. vm_compute. reflexivity. Qed.
Example mc_jeb : minecraft_hash (str "jeb_") [] [] = str "-7c9d5b0044c130109a5d7b5fb5c317c02b4e28c1".
Proof. vm_compute. reflexivity. Qed.
Example mc_simon : minecraft_hash (str "simon") [] [] = str "88e16a1019277b15d58faf0541e11910eb756f6".
Proof. vm_compute. reflexivity. Qed.
(* the three update() calls concatenate *)
Example mc_split : minecraft_hash (str "No") (str "t") (str "ch") = minecraft_hash (str "Notch") [] [].
Proof. vm_compute. reflexivity. Qed.

(* edge digests *)
Example mc_min : mc_hex (hx "8000000000000000000000000000000000000000")
                 = str "-8000000000000000000000000000000000000000".
Proof. vm_compute. reflexivity. Qed.
Example mc_zero : mc_hex (hx "0000000000000000000000000000000000000000") = str "0".
Proof. vm_compute. reflexivity. Qed.
Example mc_one : mc_hex (hx "0000000000000000000000000000000000000001") = str "1".
Proof. vm_compute. reflexivity. Qed.
Example mc_minus_one : mc_hex (hx "ffffffffffffffffffffffffffffffffffffffff") = str "-1".
Proof. vm_compute. reflexivity. Qed.
Example mc_max : mc_hex (hx "7fffffffffffffffffffffffffffffffffffffff")
                 = str "7fffffffffffffffffffffffffffffffffffffff".
Proof. vm_compute. reflexivity. Qed.
(* leading zero nibble, byte, limb *)
Example mc_lead_nibble : mc_hex (hx "0123456789abcdef0123456789abcdef01234567")
                         = str "123456789abcdef0123456789abcdef01234567".
Proof. vm_compute. reflexivity. Qed.
Example mc_lead_byte : mc_hex (hx "0000a00000000000000000000000000000000000")
                       = str "a00000000000000000000000000000000000".
Proof. vm_compute. reflexivity. Qed.
Example mc_lead_limb : mc_hex (hx "0000000000000000000000000000000000012345") = str "12345".
Proof. vm_compute. reflexivity. Qed.
(* negative with leading zeros after negation: carry through trailing zero bytes *)
Example mc_neg_small : mc_hex (hx "ffffffffffffffffffffffffffffffffffff0000") = str "-10000".
Proof. vm_compute. reflexivity. Qed.
Example mc_neg_lead0 : mc_hex (hx "ff00000000000000000000000000000000000001")
                       = str "-ffffffffffffffffffffffffffffffffffffff".
Proof. vm_compute. reflexivity. Qed.
Example mc_neg_f0 : mc_hex (hx "f000000000000000000000000000000000000000")
                    = str "-1000000000000000000000000000000000000000".
Proof. vm_compute. reflexivity. Qed.
(* the two's complement step itself *)
Example tc_bytes : twos_complement_bytes_be (hx "ff0100") = hx "00ff00". Proof. reflexivity. Qed.
Example tc_bytes_min : twos_complement_bytes_be (hx "800000") = hx "800000". Proof. reflexivity. Qed.
(* limb structure: 20 bytes = 8 + 8 + 4 *)
Example limbs_20 : biguint_from_bytes_be 8 (hx "0000000100000000000000020000000000000003")
                   = [3; 2; 1] /\
  biguint_from_bytes_be 4 (hx "0000000100000000000000020000000000000003") = [3; 0; 2; 0; 1] /\
  biguint_from_bytes_be 8 (hx "0000000000000000000000020000000000000003") = [3; 2].
Proof. vm_compute. auto. Qed.
(* other lengths and the 32-bit limb width print the same *)
Example mc_other : (mc_hex [], mc_hex [128], mc_hex [0; 255], mc_hex_w 4 (hx "ff00000000000000000000000000000000000001"))
                   = (str "0", str "-80", str "ff", str "-ffffffffffffffffffffffffffffffffffffff").
Proof. vm_compute. reflexivity. Qed.
