(* Model of passage-protocol/src/crypto/stream.rs CipherStream::poll_write / poll_read
   (after the C05 repair: the keystream only advances over bytes the transport accepted).
   Definitions only. *)
From Passage Require Import Lib.Bytes Spec.Cfb8Spec.

Section Stream.
  Variable E : bytes -> bytes.

  (* what the inner transport answers to one poll_write / poll_read *)
  Inductive wresp := WPending | WReady (n : nat) | WErr.
  Inductive rresp := RPending | RData (d : bytes) | RErr.

  Record cstate := { c_enc : option bytes;      (* encryptor shift register, None = plaintext *)
                     c_dec : option bytes }.

  (* poll_write: returns the new state, what reached the wire, and the reported result
     (Some n = Ready(Ok(n)), None = Pending or error: nothing written) *)
  Definition poll_write (st : cstate) (buf : bytes) (r : wresp) : cstate * bytes * option nat :=
    match r with
    | WPending | WErr => (st, [], None)
    | WReady n =>
        let n := Nat.min n (length buf) in
        match c_enc st with
        | None => (st, firstn n buf, Some n)
        | Some sr =>
            (* the whole buffer is encrypted with a copy of the cipher state; the state is
               committed for the accepted prefix only *)
            let wire := firstn n (fst (cfb8_enc E sr buf)) in
            let sr' := snd (cfb8_enc E sr (firstn n buf)) in
            ({| c_enc := Some sr'; c_dec := c_dec st |}, wire, Some n)
        end
    end.

  (* poll_read: the bytes the transport produced are decrypted in place *)
  Definition poll_read (st : cstate) (r : rresp) : cstate * bytes :=
    match r with
    | RPending | RErr => (st, [])
    | RData d =>
        match c_dec st with
        | None => (st, d)
        | Some sr => let (p, sr') := cfb8_dec E sr d in
                     ({| c_enc := c_enc st; c_dec := Some sr' |}, p)
        end
    end.

  (* a whole schedule of writes: accumulates the wire bytes and the plaintext bytes that
     were REPORTED as written *)
  Fixpoint writes (st : cstate) (ops : list (bytes * wresp)) : cstate * bytes * bytes :=
    match ops with
    | [] => (st, [], [])
    | (buf, r) :: rest =>
        let '(st1, wire, rep) := poll_write st buf r in
        let accepted := match rep with Some n => firstn n buf | None => [] end in
        let '(st2, wire2, acc2) := writes st1 rest in
        (st2, wire ++ wire2, accepted ++ acc2)
    end.

  Fixpoint reads (st : cstate) (ops : list rresp) : cstate * bytes * bytes :=
    match ops with
    | [] => (st, [], [])
    | r :: rest =>
        let '(st1, plain) := poll_read st r in
        let produced := match r with RData d => d | _ => [] end in
        let '(st2, plain2, prod2) := reads st1 rest in
        (st2, plain ++ plain2, produced ++ prod2)
    end.

  Definition set_encryption (st : cstate) (secret : bytes) : cstate :=
    {| c_enc := Some secret; c_dec := Some secret |}.      (* key = IV = shared secret *)
End Stream.
