(* C05: under every I/O schedule the wire carries exactly the CFB8 encryption of the bytes
   reported as written, and the reader gets exactly the CFB8 decryption of what the
   transport produced. *)
From Passage Require Import Lib.Bytes Spec.Cfb8Spec Crypto.CipherStream.

Section Proofs.
  Variable E : bytes -> bytes.

  Lemma enc_app sr a b :
    cfb8_enc E sr (a ++ b) =
      (fst (cfb8_enc E sr a) ++ fst (cfb8_enc E (snd (cfb8_enc E sr a)) b),
       snd (cfb8_enc E (snd (cfb8_enc E sr a)) b)).
  Proof.
    revert sr; induction a as [|p a IH]; intros sr; cbn [app cfb8_enc fst snd].
    - destruct (cfb8_enc E sr b); reflexivity.
    - rewrite IH. destruct (cfb8_enc E (shift sr (Z.lxor p (keybyte E sr))) a) as [ca sa]. cbn [fst snd].
      reflexivity.
  Qed.

  Lemma dec_app sr a b :
    cfb8_dec E sr (a ++ b) =
      (fst (cfb8_dec E sr a) ++ fst (cfb8_dec E (snd (cfb8_dec E sr a)) b),
       snd (cfb8_dec E (snd (cfb8_dec E sr a)) b)).
  Proof.
    revert sr; induction a as [|c a IH]; intros sr; cbn [app cfb8_dec fst snd].
    - destruct (cfb8_dec E sr b); reflexivity.
    - rewrite IH. destruct (cfb8_dec E (shift sr c) a) as [pa sa]. cbn [fst snd]. reflexivity.
  Qed.

  Lemma enc_length sr p : length (fst (cfb8_enc E sr p)) = length p.
  Proof.
    revert sr; induction p as [|x p IH]; intros sr; cbn [cfb8_enc]; [reflexivity|].
    specialize (IH (shift sr (Z.lxor x (keybyte E sr)))).
    destruct (cfb8_enc E (shift sr (Z.lxor x (keybyte E sr))) p). cbn [fst length] in *. congruence.
  Qed.

  (* CFB8 is causal: a prefix of the ciphertext only depends on the same prefix of the plaintext *)
  Lemma enc_firstn sr p n :
    firstn n (fst (cfb8_enc E sr p)) = fst (cfb8_enc E sr (firstn n p)).
  Proof.
    rewrite <- (firstn_skipn n p) at 1. rewrite enc_app. cbn [fst].
    rewrite firstn_app.
    assert (Hl : length (fst (cfb8_enc E sr (firstn n p))) = length (firstn n p)) by apply enc_length.
    destruct (Nat.le_gt_cases (length p) n) as [Hle|Hgt].
    - rewrite skipn_all2 by exact Hle. cbn [cfb8_enc fst]. rewrite firstn_nil, app_nil_r.
      apply firstn_all2. rewrite Hl. rewrite firstn_length. lia.
    - rewrite firstn_length_le in Hl by lia.
      rewrite Hl, Nat.sub_diag. cbn [firstn]. rewrite app_nil_r.
      apply firstn_all2. lia.
  Qed.

  (* decryption inverts encryption and both leave the register in the same state *)
  Lemma dec_enc sr p :
    cfb8_dec E sr (fst (cfb8_enc E sr p)) = (p, snd (cfb8_enc E sr p)).
  Proof.
    revert sr; induction p as [|x p IH]; intros sr; cbn [cfb8_enc]; [reflexivity|].
    specialize (IH (shift sr (Z.lxor x (keybyte E sr)))).
    destruct (cfb8_enc E (shift sr (Z.lxor x (keybyte E sr))) p) as [cs sr'].
    cbn [fst snd cfb8_dec] in *. rewrite IH.
    f_equal. f_equal. rewrite Z.lxor_assoc, Z.lxor_nilpotent, Z.lxor_0_r. reflexivity.
  Qed.

  Lemma enc_dec sr c :
    cfb8_enc E sr (fst (cfb8_dec E sr c)) = (c, snd (cfb8_dec E sr c)).
  Proof.
    revert sr; induction c as [|x c IH]; intros sr; cbn [cfb8_dec]; [reflexivity|].
    specialize (IH (shift sr x)).
    destruct (cfb8_dec E (shift sr x) c) as [ps sr'].
    cbn [fst snd cfb8_enc] in *.
    replace (Z.lxor (Z.lxor x (keybyte E sr)) (keybyte E sr)) with x
      by (rewrite Z.lxor_assoc, Z.lxor_nilpotent, Z.lxor_0_r; reflexivity).
    rewrite IH. reflexivity.
  Qed.

  (* ---- the stream wrapper ---- *)
  Definition enc_of (st : cstate) (p : bytes) : bytes :=
    match c_enc st with Some sr => fst (cfb8_enc E sr p) | None => p end.
  Definition dec_of (st : cstate) (c : bytes) : bytes :=
    match c_dec st with Some sr => fst (cfb8_dec E sr c) | None => c end.

  Lemma firstn_min {A} n (l : list A) : firstn (Nat.min n (length l)) l = firstn n l.
  Proof.
    destruct (Nat.le_gt_cases n (length l)).
    - rewrite Nat.min_l by assumption. reflexivity.
    - rewrite Nat.min_r by lia. rewrite firstn_all. symmetry. apply firstn_all2. lia.
  Qed.

  Theorem writes_spec : forall ops st st' wire accepted,
    writes E st ops = (st', wire, accepted) ->
    wire = enc_of st accepted
    /\ c_dec st' = c_dec st
    /\ c_enc st' = match c_enc st with Some sr => Some (snd (cfb8_enc E sr accepted)) | None => None end.
  Proof.
    induction ops as [|[buf r] ops IH]; intros st st' wire accepted H; cbn [writes] in H.
    - injection H as <- <- <-. unfold enc_of. destruct (c_enc st); auto.
    - destruct (poll_write E st buf r) as [[st1 w1] rep] eqn:Hp.
      destruct (writes E st1 ops) as [[st2 w2] a2] eqn:Hw.
      injection H as <- <- <-.
      specialize (IH _ _ _ _ Hw) as (Hwire & Hdec & Henc).
      unfold poll_write in Hp.
      destruct r as [|n|].
      + injection Hp as <- <- <-. cbn [app]. auto.
      + destruct (c_enc st) as [sr|] eqn:Hes.
        * injection Hp as <- <- <-. cbn [c_enc c_dec] in *.
          rewrite firstn_min in *.
          unfold enc_of in *. cbn [c_enc] in *. rewrite Hes.
          rewrite enc_app. cbn [fst snd]. rewrite enc_firstn, ?firstn_min.
          split; [rewrite Hwire; reflexivity|]. split; [exact Hdec|]. rewrite Henc. reflexivity.
        * injection Hp as <- <- <-. rewrite firstn_min in *.
          unfold enc_of in *. rewrite Hes in *. split; [rewrite Hwire; reflexivity|]. split; [exact Hdec|]. exact Henc.
      + injection Hp as <- <- <-. cbn [app]. auto.
  Qed.

  Theorem reads_spec : forall ops st st' plain produced,
    reads E st ops = (st', plain, produced) ->
    plain = dec_of st produced
    /\ c_enc st' = c_enc st
    /\ c_dec st' = match c_dec st with Some sr => Some (snd (cfb8_dec E sr produced)) | None => None end.
  Proof.
    induction ops as [|r ops IH]; intros st st' plain produced H; cbn [reads] in H.
    - injection H as <- <- <-. unfold dec_of. destruct (c_dec st); auto.
    - destruct (poll_read E st r) as [st1 p1] eqn:Hp.
      destruct (reads E st1 ops) as [[st2 p2] d2] eqn:Hr.
      injection H as <- <- <-.
      specialize (IH _ _ _ _ Hr) as (Hplain & Henc & Hdec).
      unfold poll_read in Hp.
      destruct r as [|d|].
      + injection Hp as <- <-. cbn [app]. auto.
      + destruct (c_dec st) as [sr|] eqn:Hds.
        * destruct (cfb8_dec E sr d) as [p sr'] eqn:Hd. injection Hp as <- <-.
          cbn [c_enc c_dec] in *. unfold dec_of in *. cbn [c_dec] in *. rewrite Hds.
          rewrite dec_app, Hd. cbn [fst snd]. split; [rewrite Hplain; reflexivity|]. split; [exact Henc|]. rewrite Hdec. reflexivity.
        * injection Hp as <- <-. unfold dec_of in *. rewrite Hds in *. split; [rewrite Hplain; reflexivity|]. auto.
      + injection Hp as <- <-. cbn [app]. auto.
  Qed.
End Proofs.
