(* Facts about the binary32 layer: exact integer conversion, monotone rounding, signs.
   Everything the limiter proofs need to know about f32 is in the last section. *)
From Coq Require Import ZArith Reals Lia Lra Bool.
From Flocq Require Import Core IEEE754.BinarySingleNaN.
From Passage Require Import Limiter.F32.
Open Scope Z_scope.
Ltac Zify.zify_post_hook ::= Z.div_mod_to_equations.

Notation fexp32 := (SpecFloat.fexp prec emax).
Notation rnd := (round radix2 fexp32 (round_mode mode_NE)).
Notation fmt := (generic_format radix2 fexp32).
Notation R32 := (@B2R prec emax).

Local Instance fexp32_valid : Valid_exp fexp32 := fexp_correct prec emax Hprec.

Lemma fmt_FLT r : FLT_format radix2 (SpecFloat.emin prec emax) prec r -> fmt r.
Proof. intros H. apply (generic_format_FLT radix2 (SpecFloat.emin prec emax) prec r H). Qed.

(* m * 2^e with |m| < 2^24, e >= 0 is a binary32 number *)
Lemma fmt_IZR_scaled z m e : z = m * 2 ^ e -> Z.abs m < 2 ^ 24 -> 0 <= e -> fmt (IZR z).
Proof.
  intros Hz Hm He. apply fmt_FLT.
  apply (FLT_spec radix2 (SpecFloat.emin prec emax) prec (IZR z) (Float radix2 m e)).
  - unfold F2R. cbn [Fnum Fexp]. rewrite Hz, mult_IZR. f_equal.
    rewrite <- IZR_Zpower by lia. reflexivity.
  - cbn [Fnum]. exact Hm.
  - cbn [Fexp]. unfold SpecFloat.emin, prec, emax. lia.
Qed.

Lemma fmt_IZR z : Z.abs z <= 2 ^ 24 -> fmt (IZR z).
Proof.
  intros H. destruct (Z.eq_dec (Z.abs z) (2 ^ 24)) as [E|E].
  - destruct (Z.abs_spec z) as [[_ A]|[_ A]].
    + apply (fmt_IZR_scaled z 1 24); lia.
    + apply (fmt_IZR_scaled z (-1) 24); lia.
  - apply (fmt_IZR_scaled z z 0); lia.
Qed.

Lemma fmt_bpow100 : fmt (bpow radix2 100).
Proof. apply generic_format_bpow. unfold SpecFloat.fexp, SpecFloat.emin, prec, emax. lia. Qed.

Lemma no_overflow r :
  (Rabs r <= bpow radix2 100)%R -> Rlt_bool (Rabs (rnd r)) (bpow radix2 emax) = true.
Proof.
  intros H. apply Rlt_bool_true.
  apply Rle_lt_trans with (bpow radix2 100).
  - apply abs_round_le_generic; auto with typeclass_instances. apply fmt_bpow100.
  - apply bpow_lt. unfold emax. lia.
Qed.

Lemma rnd_ge0 r : (0 <= r)%R -> (0 <= rnd r)%R.
Proof.
  intros H. apply round_ge_generic; auto with typeclass_instances. apply generic_format_0.
Qed.
Lemma rnd_le r b : fmt b -> (r <= b)%R -> (rnd r <= b)%R.
Proof. intros Hb H. apply round_le_generic; auto with typeclass_instances. Qed.
Lemma rnd_ge r b : fmt b -> (b <= r)%R -> (b <= rnd r)%R.
Proof. intros Hb H. apply round_ge_generic; auto with typeclass_instances. Qed.
Lemma rnd_id r : fmt r -> rnd r = r.
Proof. intros H. apply round_generic; auto with typeclass_instances. Qed.

Lemma bpow100_big : (IZR (2 ^ 64) <= bpow radix2 100)%R.
Proof.
  change (bpow radix2 100) with (IZR (Zpower radix2 100)). apply IZR_le.
  change (Zpower radix2 100) with (2 ^ 100). lia.
Qed.

(* finite, sign bit clear *)
Definition nn (x : f32) : Prop := is_finite x = true /\ Bsign x = false.

Lemma nn_ge0 x : nn x -> (0 <= R32 x)%R.
Proof.
  intros [F S]. destruct x as [s|s| |s m e Hb]; cbn in *; try discriminate; try lra.
  subst s. apply F2R_ge_0. cbn. lia.
Qed.

Lemma fin_not_nan (x : f32) : is_finite x = true -> is_nan x = false.
Proof. destruct x; cbn; congruence. Qed.

Lemma f32_eq x y : nn x -> nn y -> R32 x = R32 y -> x = y.
Proof.
  intros [Fx Sx] [Fy Sy] E. apply B2R_Bsign_inj; auto. congruence.
Qed.

(* ---- integer conversion ---- *)
Lemma of_Z_correct z : Z.abs z <= 2 ^ 64 ->
  R32 (of_Z z) = rnd (IZR z) /\ is_finite (of_Z z) = true /\ Bsign (of_Z z) = (z <? 0).
Proof.
  intros Hz.
  generalize (binary_normalize_correct prec emax Hprec Hmax mode_NE z 0 false).
  cbv zeta. replace (F2R (Float radix2 z 0)) with (IZR z)
    by (unfold F2R; cbn [Fnum Fexp bpow]; lra).
  rewrite no_overflow.
  - intros (A & B & C). split; [exact A|]. split; [exact B|].
    fold (of_Z z) in C. rewrite C.
    destruct (Z.ltb_spec z 0) as [L|L].
    + rewrite Rcompare_Lt; [reflexivity | apply IZR_lt; exact L].
    + destruct (Z.eq_dec z 0) as [->|N].
      * rewrite Rcompare_Eq; reflexivity.
      * rewrite Rcompare_Gt; [reflexivity | apply IZR_lt; lia].
  - apply Rle_trans with (IZR (2 ^ 64)); [|apply bpow100_big].
    rewrite <- abs_IZR. apply IZR_le. exact Hz.
Qed.

Lemma of_Z_nn z : 0 <= z <= 2 ^ 64 -> nn (of_Z z) /\ R32 (of_Z z) = rnd (IZR z).
Proof.
  intros H. destruct (of_Z_correct z) as (A & B & C); [lia|].
  split; [split; [exact B|] | exact A]. rewrite C. apply Z.ltb_ge. lia.
Qed.

Lemma of_Z_exact z : 0 <= z <= 2 ^ 24 -> nn (of_Z z) /\ R32 (of_Z z) = IZR z.
Proof.
  intros H. destruct (of_Z_nn z) as [A B]; [lia|]. split; [exact A|].
  rewrite B. apply rnd_id. apply fmt_IZR. lia.
Qed.

Lemma fmt_1e9 : fmt (IZR nanos_per_sec).
Proof. apply (fmt_IZR_scaled nanos_per_sec 1953125 9); unfold nanos_per_sec; lia. Qed.

Lemma of_Z_1e9 : nn (of_Z nanos_per_sec) /\ R32 (of_Z nanos_per_sec) = IZR nanos_per_sec.
Proof.
  destruct (of_Z_nn nanos_per_sec) as [A B]; [unfold nanos_per_sec; lia|].
  split; [exact A|]. rewrite B. apply rnd_id, fmt_1e9.
Qed.

(* ---- the four operations on finite, small operands ---- *)
Lemma fadd_nn x y : nn x -> nn y -> (R32 x + R32 y <= bpow radix2 100)%R ->
  nn (fadd x y) /\ R32 (fadd x y) = rnd (R32 x + R32 y).
Proof.
  intros Hx Hy Hb. pose proof (nn_ge0 x Hx) as Px. pose proof (nn_ge0 y Hy) as Py.
  destruct Hx as [Fx Sx], Hy as [Fy Sy].
  generalize (Bplus_correct prec emax Hprec Hmax mode_NE x y Fx Fy).
  rewrite no_overflow by (rewrite Rabs_pos_eq; lra).
  intros (A & B & C). fold (fadd x y) in *. split; [split; [exact B|] | exact A].
  rewrite C, Sx, Sy. destruct (Rcompare_spec (R32 x + R32 y) 0); try reflexivity. lra.
Qed.

Lemma fsub_nn x y : nn x -> is_finite y = true -> (0 <= R32 x - R32 y <= bpow radix2 100)%R ->
  nn (fsub x y) /\ R32 (fsub x y) = rnd (R32 x - R32 y).
Proof.
  intros [Fx Sx] Fy Hb.
  generalize (Bminus_correct prec emax Hprec Hmax mode_NE x y Fx Fy).
  rewrite no_overflow by (rewrite Rabs_pos_eq; lra).
  intros (A & B & C). fold (fsub x y) in *. split; [split; [exact B|] | exact A].
  rewrite C, Sx. destruct (Rcompare_spec (R32 x - R32 y) 0); try reflexivity. lra.
Qed.

Lemma fmul_nn x y : nn x -> nn y -> (R32 x * R32 y <= bpow radix2 100)%R ->
  nn (fmul x y) /\ R32 (fmul x y) = rnd (R32 x * R32 y).
Proof.
  intros Hx Hy Hb. pose proof (nn_ge0 x Hx) as Px. pose proof (nn_ge0 y Hy) as Py.
  destruct Hx as [Fx Sx], Hy as [Fy Sy].
  generalize (Bmult_correct prec emax Hprec Hmax mode_NE x y).
  assert (0 <= R32 x * R32 y)%R by (apply Rmult_le_pos; assumption).
  rewrite no_overflow by (rewrite Rabs_pos_eq; lra).
  intros (A & B & C). fold (fmul x y) in *.
  assert (F : is_finite (fmul x y) = true) by (rewrite B, Fx, Fy; reflexivity).
  split; [split; [exact F|] | exact A].
  rewrite C by (apply fin_not_nan; exact F). rewrite Sx, Sy. reflexivity.
Qed.

Lemma fdiv_nn x y : nn x -> nn y -> (0 < R32 y)%R -> (R32 x / R32 y <= bpow radix2 100)%R ->
  nn (fdiv x y) /\ R32 (fdiv x y) = rnd (R32 x / R32 y).
Proof.
  intros Hx Hy Py Hb. pose proof (nn_ge0 x Hx) as Px.
  destruct Hx as [Fx Sx], Hy as [Fy Sy].
  assert (Ny : R32 y <> 0%R) by lra.
  generalize (Bdiv_correct prec emax Hprec Hmax mode_NE x y Ny).
  assert (0 <= R32 x / R32 y)%R by (apply Rmult_le_pos; [assumption | left; apply Rinv_0_lt_compat; assumption]).
  rewrite no_overflow by (rewrite Rabs_pos_eq; lra).
  intros (A & B & C). fold (fdiv x y) in *.
  assert (F : is_finite (fdiv x y) = true) by (rewrite B; exact Fx).
  split; [split; [exact F|] | exact A].
  rewrite C by (apply fin_not_nan; exact F). rewrite Sx, Sy. reflexivity.
Qed.

Lemma fge_correct x y : is_finite x = true -> is_finite y = true ->
  fge x y = match Rcompare (R32 x) (R32 y) with Lt => false | _ => true end.
Proof.
  intros Fx Fy. unfold fge. rewrite (Bcompare_correct prec emax x y Fx Fy).
  destruct (Rcompare (R32 x) (R32 y)); reflexivity.
Qed.

Lemma fge_true x y : is_finite x = true -> is_finite y = true -> (R32 y <= R32 x)%R -> fge x y = true.
Proof.
  intros Fx Fy H. rewrite fge_correct by assumption.
  destruct (Rcompare_spec (R32 x) (R32 y)); try reflexivity. lra.
Qed.
Lemma fge_false x y : is_finite x = true -> is_finite y = true -> (R32 x < R32 y)%R -> fge x y = false.
Proof.
  intros Fx Fy H. rewrite fge_correct by assumption.
  destruct (Rcompare_spec (R32 x) (R32 y)); try reflexivity; lra.
Qed.

Lemma pow24_le_bpow100 z : 0 <= z <= 2 ^ 64 -> (IZR z <= bpow radix2 100)%R.
Proof.
  intros H. apply Rle_trans with (IZR (2 ^ 64)); [apply IZR_le; lia | apply bpow100_big].
Qed.

(* ---- Duration::as_secs_f32 for durations up to 2^24 seconds ---- *)
Definition nanos_q (n : Z) : f32 := fdiv (of_Z n) (of_Z nanos_per_sec).

Lemma nanos_q_ok n : 0 <= n < nanos_per_sec ->
  nn (nanos_q n) /\ R32 (nanos_q n) = rnd (rnd (IZR n) / IZR nanos_per_sec) /\ (R32 (nanos_q n) <= 1)%R.
Proof.
  intros Hm. unfold nanos_q.
  assert (Hn : nanos_per_sec = 1000000000) by reflexivity.
  destruct (of_Z_nn n) as [N2 E2]; [rewrite Hn in *; lia|].
  destruct of_Z_1e9 as [N3 E3].
  assert (B2 : (0 <= R32 (of_Z n) <= IZR nanos_per_sec)%R).
  { split; [apply nn_ge0; exact N2|]. rewrite E2. apply rnd_le; [apply fmt_1e9|]. apply IZR_le; lia. }
  assert (P9 : (0 < IZR nanos_per_sec)%R) by (apply IZR_lt; rewrite Hn; lia).
  assert (Q : (R32 (of_Z n) / R32 (of_Z nanos_per_sec) <= 1)%R).
  { rewrite E3. apply Rmult_le_reg_r with (IZR nanos_per_sec); [exact P9|].
    unfold Rdiv. rewrite Rmult_assoc, Rinv_l by lra. lra. }
  destruct (fdiv_nn (of_Z n) (of_Z nanos_per_sec)) as [N4 E4]; auto.
  { rewrite E3; exact P9. }
  { apply Rle_trans with 1%R; [exact Q|]. apply (pow24_le_bpow100 1). lia. }
  split; [exact N4|]. split; [rewrite E4, E2, E3; reflexivity|].
  rewrite E4. apply rnd_le; [apply (fmt_IZR 1); lia | exact Q].
Qed.

Lemma nanos_q_mono n m : 0 <= n <= m -> m < nanos_per_sec -> (R32 (nanos_q n) <= R32 (nanos_q m))%R.
Proof.
  intros H1 H2.
  destruct (nanos_q_ok n) as (_ & En & _); [lia|]. destruct (nanos_q_ok m) as (_ & Em & _); [lia|].
  rewrite En, Em. apply round_le; auto with typeclass_instances.
  assert (P9 : (0 < IZR nanos_per_sec)%R) by (apply IZR_lt; reflexivity).
  unfold Rdiv. apply Rmult_le_compat_r; [left; apply Rinv_0_lt_compat; exact P9|].
  apply round_le; auto with typeclass_instances. apply IZR_le. lia.
Qed.

Definition max_dur : Z := 2 ^ 24 * nanos_per_sec.

Lemma secs_f32_ok a : 0 <= a <= max_dur ->
  nn (secs_f32 a)
  /\ R32 (secs_f32 a) = rnd (IZR (a / nanos_per_sec) + R32 (nanos_q (a mod nanos_per_sec))).
Proof.
  intros Ha. unfold secs_f32. fold (nanos_q (a mod nanos_per_sec)). unfold max_dur in Ha.
  assert (Hn : nanos_per_sec = 1000000000) by reflexivity.
  assert (Hq : 0 <= a / nanos_per_sec <= 2 ^ 24) by (rewrite Hn in *; lia).
  assert (Hm : 0 <= a mod nanos_per_sec < nanos_per_sec) by (rewrite Hn in *; lia).
  destruct (of_Z_exact (a / nanos_per_sec)) as [N1 E1]; [lia|].
  destruct (nanos_q_ok _ Hm) as (N4 & _ & B4).
  destruct (fadd_nn (of_Z (a / nanos_per_sec)) (nanos_q (a mod nanos_per_sec))) as [N5 E5]; auto.
  { rewrite E1. apply Rle_trans with (IZR (2 ^ 24) + 1)%R.
    - apply Rplus_le_compat; [apply IZR_le; lia | exact B4].
    - rewrite <- plus_IZR. apply pow24_le_bpow100. lia. }
  split; [exact N5|]. rewrite E5, E1. reflexivity.
Qed.

(* as_secs_f32 is monotone on this range (the seconds part converts exactly) *)
Lemma secs_f32_mono a b : 0 <= a <= b -> b <= max_dur -> (R32 (secs_f32 a) <= R32 (secs_f32 b))%R.
Proof.
  intros H1 H2.
  destruct (secs_f32_ok a) as [_ Ea]; [lia|]. destruct (secs_f32_ok b) as [_ Eb]; [lia|].
  rewrite Ea, Eb. apply round_le; auto with typeclass_instances.
  assert (Hn : nanos_per_sec = 1000000000) by reflexivity. unfold max_dur in H2.
  assert (Hma : 0 <= a mod nanos_per_sec < nanos_per_sec) by (rewrite Hn in *; lia).
  assert (Hmb : 0 <= b mod nanos_per_sec < nanos_per_sec) by (rewrite Hn in *; lia).
  destruct (nanos_q_ok _ Hma) as (Na & _ & Ba). destruct (nanos_q_ok _ Hmb) as (Nb & _ & Bb).
  pose proof (nn_ge0 _ Nb) as Pb.
  destruct (Z.eq_dec (a / nanos_per_sec) (b / nanos_per_sec)) as [E|N].
  - rewrite E. apply Rplus_le_compat_l. apply nanos_q_mono; [|lia]. rewrite Hn in *. lia.
  - assert (S1 : (IZR (a / nanos_per_sec) + 1 <= IZR (b / nanos_per_sec))%R).
    { rewrite <- plus_IZR. apply IZR_le. rewrite Hn in *. lia. }
    lra.
Qed.

Definition is_pos (x : f32) : bool :=
  match x with B754_finite false _ _ _ => true | _ => false end.
Lemma is_pos_gt0 x : is_pos x = true -> (0 < R32 x)%R.
Proof.
  destruct x as [s|s| |s m e Hb]; cbn; try discriminate. destruct s; [discriminate|]. intros _.
  apply F2R_gt_0. cbn. lia.
Qed.

Lemma secs_f32_pos a : 1 <= a <= max_dur -> (0 < R32 (secs_f32 a))%R.
Proof.
  intros Ha. apply Rlt_le_trans with (R32 (secs_f32 1)).
  - apply is_pos_gt0. vm_compute. reflexivity.
  - apply secs_f32_mono; lia.
Qed.

(* a whole number of seconds converts exactly *)
Lemma secs_f32_whole s : 1 <= s <= 2 ^ 24 -> secs_f32 (s * nanos_per_sec) = of_Z s.
Proof.
  intros Hs. unfold secs_f32.
  assert (Hn : nanos_per_sec = 1000000000) by reflexivity.
  replace (s * nanos_per_sec / nanos_per_sec) with s by (rewrite Hn; lia).
  replace ((s * nanos_per_sec) mod nanos_per_sec) with 0 by (rewrite Hn; lia).
  change (fdiv (of_Z 0) (of_Z nanos_per_sec)) with (of_Z 0).
  destruct (of_Z_exact s) as [N1 E1]; [lia|].
  destruct (of_Z_exact 0) as [N0 E0]; [lia|].
  destruct (fadd_nn (of_Z s) (of_Z 0)) as [N E]; auto.
  { rewrite E1, E0, Rplus_0_r. apply pow24_le_bpow100. lia. }
  apply f32_eq; auto. rewrite E, E1, E0, Rplus_0_r. apply rnd_id, fmt_IZR. lia.
Qed.

(* ---- counters ---- *)
Lemma fadd_one c : 0 <= c < 2 ^ 24 -> fadd (of_Z c) fone = of_Z (c + 1).
Proof.
  intros Hc. unfold fone.
  destruct (of_Z_exact c) as [N1 E1]; [lia|].
  destruct (of_Z_exact 1) as [N2 E2]; [lia|].
  destruct (of_Z_exact (c + 1)) as [N3 E3]; [lia|].
  destruct (fadd_nn (of_Z c) (of_Z 1)) as [N E]; auto.
  { rewrite E1, E2, <- plus_IZR. apply pow24_le_bpow100. lia. }
  apply f32_eq; auto. rewrite E, E1, E2, E3, <- plus_IZR. apply rnd_id, fmt_IZR. lia.
Qed.

Lemma fge_of_Z a b : 0 <= a <= 2 ^ 24 -> 0 <= b <= 2 ^ 24 -> fge (of_Z a) (of_Z b) = (b <=? a).
Proof.
  intros Ha Hb.
  destruct (of_Z_exact a) as [[Fa _] Ea]; [lia|].
  destruct (of_Z_exact b) as [[Fb _] Eb]; [lia|].
  destruct (Z.leb_spec b a) as [L|L].
  - apply fge_true; auto. rewrite Ea, Eb. apply IZR_le; exact L.
  - apply fge_false; auto. rewrite Ea, Eb. apply IZR_lt; exact L.
Qed.

(* ---- the bucket value  last * (1 - age/dur) + current  ---- *)
Section Value.
  Variables (l c : Z) (af df : f32).
  Hypothesis Hl : 0 <= l <= 2 ^ 24.
  Hypothesis Hc : 0 <= c <= 2 ^ 24.
  Hypothesis Haf : nn af.
  Hypothesis Hdf : nn df.
  Hypothesis Hdpos : (0 < R32 df)%R.
  Hypothesis Hafs : (R32 af <= R32 df)%R.

  Let w := fdiv af df.
  Let t := fsub fone w.
  Let v := fadd (fmul (of_Z l) t) (of_Z c).

  Lemma weight_ok : nn w /\ (R32 w <= 1)%R.
  Proof.
    pose proof (nn_ge0 af Haf) as Pa.
    assert (Q : (R32 af / R32 df <= 1)%R).
    { apply Rmult_le_reg_r with (R32 df); [exact Hdpos|].
      unfold Rdiv. rewrite Rmult_assoc, Rinv_l by lra. lra. }
    destruct (fdiv_nn af df) as [N E]; auto.
    { apply Rle_trans with 1%R; [exact Q | apply (pow24_le_bpow100 1); lia]. }
    split; [exact N|]. unfold w. rewrite E. apply rnd_le; [apply (fmt_IZR 1); lia | exact Q].
  Qed.

  Lemma coweight_ok : nn t /\ (R32 t <= 1)%R.
  Proof.
    destruct weight_ok as [Nw Bw]. pose proof (nn_ge0 w Nw) as Pw.
    destruct (of_Z_exact 1) as [N1 E1]; [lia|]. fold fone in N1, E1.
    destruct (fsub_nn fone w) as [N E]; auto.
    { apply Nw. }
    { rewrite E1. split; [lra|]. apply Rle_trans with 1%R; [lra | apply (pow24_le_bpow100 1); lia]. }
    split; [exact N|]. unfold t. rewrite E, E1. apply rnd_le; [apply (fmt_IZR 1); lia | lra].
  Qed.

  Lemma value_ok : nn v /\ (IZR c <= R32 v)%R.
  Proof.
    destruct coweight_ok as [Nt Bt]. pose proof (nn_ge0 t Nt) as Pt.
    destruct (of_Z_exact l) as [Nl El]; [lia|].
    destruct (of_Z_exact c) as [Nc Ec]; [lia|].
    assert (Pl : (0 <= IZR l)%R) by (apply IZR_le; lia).
    assert (Bl : (IZR l <= IZR (2 ^ 24))%R) by (apply IZR_le; lia).
    assert (M : (R32 (of_Z l) * R32 t <= IZR (2 ^ 24))%R).
    { rewrite El. apply Rle_trans with (IZR l * 1)%R; [|lra].
      apply Rmult_le_compat_l; assumption. }
    destruct (fmul_nn (of_Z l) t) as [Np Ep]; auto.
    { apply Rle_trans with (IZR (2 ^ 24)); [exact M | apply pow24_le_bpow100; lia]. }
    pose proof (nn_ge0 _ Np) as Pp.
    assert (Bp : (R32 (fmul (of_Z l) t) <= IZR (2 ^ 24))%R).
    { rewrite Ep. apply rnd_le; [apply fmt_IZR; lia | exact M]. }
    destruct (fadd_nn (fmul (of_Z l) t) (of_Z c)) as [Nv Ev]; auto.
    { rewrite Ec. apply Rle_trans with (IZR (2 ^ 24) + IZR (2 ^ 24))%R.
      - apply Rplus_le_compat; [exact Bp | apply IZR_le; lia].
      - rewrite <- plus_IZR. apply pow24_le_bpow100. lia. }
    split; [exact Nv|]. unfold v. rewrite Ev, Ec. apply rnd_ge; [apply fmt_IZR; lia | lra].
  Qed.

  (* a full current window rejects, whatever the previous window and the age are *)
  Lemma value_full lim : 0 <= lim <= 2 ^ 24 -> lim <= c -> fge v (of_Z lim) = true.
  Proof.
    intros Hlim Hle. destruct value_ok as [[Fv _] Bv].
    destruct (of_Z_exact lim) as [[Fl _] El]; [lia|].
    apply fge_true; auto. rewrite El. apply Rle_trans with (IZR c); [apply IZR_le; lia | exact Bv].
  Qed.

  (* with an empty previous window the value is exactly the current count *)
  Lemma value_last0 : l = 0 -> v = of_Z c.
  Proof.
    intros ->. destruct coweight_ok as [[Ft St] _].
    assert (Z0 : fmul (of_Z 0) t = of_Z 0).
    { change (of_Z 0) with (@B754_zero prec emax false). unfold fmul.
      destruct t as [st|st| |st mt et Ht]; cbn in Ft, St; try discriminate; subst st; reflexivity. }
    unfold v. rewrite Z0.
    destruct (of_Z_exact 0) as [N0 E0]; [lia|].
    destruct (of_Z_exact c) as [Nc Ec]; [lia|].
    destruct (fadd_nn (of_Z 0) (of_Z c)) as [N E]; auto.
    { rewrite E0, Ec, Rplus_0_l. apply pow24_le_bpow100. lia. }
    apply f32_eq; auto. rewrite E, E0, Ec, Rplus_0_l. apply rnd_id, fmt_IZR. lia.
  Qed.
End Value.

(* proof-free view of a float, to compare floats by computation *)
Definition sf (x : f32) : SpecFloat.spec_float := B2SF x.
Lemma sf_inj x y : sf x = sf y -> x = y.
Proof. apply B2SF_inj. Qed.
