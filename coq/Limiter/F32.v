(* IEEE-754 binary32 arithmetic as used by passage-protocol/src/rate_limiter.rs: a thin
   executable layer over Flocq's BinarySingleNaN (round to nearest, ties to even).
   Definitions only. *)
From Coq Require Import ZArith.
From Flocq Require Import Core IEEE754.BinarySingleNaN.
Open Scope Z_scope.

Definition prec : Z := 24.
Definition emax : Z := 128.
Definition Hprec : Prec_gt_0 prec := eq_refl.
Definition Hmax : Prec_lt_emax prec emax := eq_refl.

Definition f32 : Type := binary_float prec emax.

(* integer -> f32 (`as f32` on u32 / u64 / usize): round to nearest even *)
Definition of_Z (z : Z) : f32 := @binary_normalize prec emax Hprec Hmax mode_NE z 0 false.

Definition fzero : f32 := B754_zero false.      (* 0f32 *)
Definition fone : f32 := of_Z 1.                (* 1f32 *)

Definition fadd (a b : f32) : f32 := @Bplus prec emax Hprec Hmax mode_NE a b.
Definition fsub (a b : f32) : f32 := @Bminus prec emax Hprec Hmax mode_NE a b.
Definition fmul (a b : f32) : f32 := @Bmult prec emax Hprec Hmax mode_NE a b.
Definition fdiv (a b : f32) : f32 := @Bdiv prec emax Hprec Hmax mode_NE a b.

(* Rust `a >= b` on f32: false when unordered *)
Definition fge (a b : f32) : bool :=
  match Bcompare a b with
  | Some Gt | Some Eq => true
  | _ => false
  end.

Definition nanos_per_sec : Z := 1000000000.

(* core::time::Duration::as_secs_f32 (library/core/src/time.rs):
     (self.secs as f32) + (self.nanos as f32) / (NANOS_PER_SEC as f32)
   on a duration given as a whole number of nanoseconds (secs = ns / 10^9, nanos = ns mod 10^9) *)
Definition secs_f32 (ns : Z) : f32 :=
  fadd (of_Z (ns / nanos_per_sec)) (fdiv (of_Z (ns mod nanos_per_sec)) (of_Z nanos_per_sec)).

(* observation helper for examples: the value of a finite float as mantissa * 2^exponent *)
Definition f32_view (x : f32) : option (Z * Z) :=
  match x with
  | B754_zero _ => Some (0, 0)
  | B754_finite s m e _ => Some (if s then Zneg m else Zpos m, e)
  | _ => None
  end.

Example of_Z_3 : f32_view (of_Z 3) = Some (12582912, -22). Proof. vm_compute. reflexivity. Qed.
(* 2^24 + 1 is not representable: ties to even give 2^24 *)
Example of_Z_tie : f32_view (of_Z 16777217) = f32_view (of_Z 16777216). Proof. vm_compute. reflexivity. Qed.
(* 1 - 1e-10 rounds to 1 *)
Example one_minus_tiny :
  f32_view (fsub fone (fdiv (secs_f32 1) (secs_f32 10000000000))) = f32_view fone.
Proof. vm_compute. reflexivity. Qed.
Example secs_f32_1_5 : f32_view (secs_f32 1500000000) = Some (12582912, -23).
Proof. vm_compute. reflexivity. Qed.
