(* One-key machine of passage-protocol/src/rate_limiter.rs: the bucket
   (window_start, last, current) and what `enqueue` does to it at time `now`.
   Times are nanoseconds (tokio Instant resolution) since the creation of the limiter.
   Definitions only. *)
From Passage Require Import Lib.Bytes Limiter.F32.

Record cfg := Cfg { limit : Z;       (* `limit: usize` of RateLimiter::new *)
                    dur : Z }.       (* `duration` in nanoseconds *)

Definition limit_f (c : cfg) : f32 := of_Z (limit c).     (* limit as f32 *)
Definition dur_f (c : cfg) : f32 := secs_f32 (dur c).     (* duration.as_secs_f32() *)

(* RateLimiter::new asserts duration.as_secs_f32() > 0 *)
Definition cfg_ok (c : cfg) : bool :=
  (0 <=? limit c) && (0 <=? dur c) && negb (fge fzero (dur_f c)).

Record bucket := Bk { window : Z; last : f32; current : f32 }.

(* Instant::saturating_duration_since *)
Definition sat_sub (a b : Z) : Z := Z.max 0 (a - b).

Definition fresh (now : Z) : bucket := Bk now fzero fzero.

(* "if the bucket window changed, move bucket counts" *)
Definition roll (c : cfg) (b : bucket) (now : Z) : bucket :=
  let age := sat_sub now (window b) in
  if dur c <=? age then
    let cur := if 2 * dur c <=? age then fzero else current b in
    Bk now cur fzero
  else b.

(* bucket_value, computed on the rolled bucket *)
Definition weight (c : cfg) (b : bucket) (now : Z) : f32 :=
  fdiv (secs_f32 (sat_sub now (window b))) (dur_f c).
Definition value (c : cfg) (b : bucket) (now : Z) : f32 :=
  fadd (fmul (last b) (fsub fone (weight c b now))) (current b).

(* the effect of `enqueue` on the key's bucket; the rolled bucket is stored even when the
   attempt is rejected (the code mutates the entry in place before the check) *)
Definition bucket_step (c : cfg) (b : bucket) (now : Z) : bucket * bool :=
  let b1 := roll c b now in
  if fge (value c b1 now) (limit_f c) then (b1, false)
  else (Bk (window b1) (last b1) (fadd (current b1) fone), true).

(* one key observed in isolation: `None` = not tracked *)
Definition key_step (c : cfg) (ob : option bucket) (now : Z) : bucket * bool :=
  bucket_step c (match ob with Some b => b | None => fresh now end) now.

(* decisions over a list of attempt times *)
Fixpoint key_run (c : cfg) (ob : option bucket) (ts : list Z) : list bool :=
  match ts with
  | [] => []
  | t :: r => let '(b', ok) := key_step c ob t in ok :: key_run c (Some b') r
  end.

(* the bucket after a list of attempts *)
Fixpoint key_final (c : cfg) (ob : option bucket) (ts : list Z) : option bucket :=
  match ts with
  | [] => ob
  | t :: r => key_final c (Some (fst (key_step c ob t))) r
  end.

(* what happened: per attempt its time, the window start it was counted in (the bucket's
   window after the attempt) and the decision; oldest first *)
Record ev := Ev { ev_t : Z; ev_w : Z; ev_ok : bool }.

Fixpoint key_trace (c : cfg) (ob : option bucket) (ts : list Z) : list ev :=
  match ts with
  | [] => []
  | t :: r => let '(b', ok) := key_step c ob t in Ev t (window b') ok :: key_trace c (Some b') r
  end.

Fixpoint cnt (p : ev -> bool) (tr : list ev) : Z :=
  match tr with
  | [] => 0
  | e :: r => (if p e then 1 else 0) + cnt p r
  end.

(* admissions counted in the window that started at w *)
Definition adm (w : Z) (tr : list ev) : Z := cnt (fun e => ev_ok e && (ev_w e =? w)) tr.
(* admissions at times lo <= t <= hi *)
Definition adm_between (lo hi : Z) (tr : list ev) : Z :=
  cnt (fun e => ev_ok e && (lo <=? ev_t e) && (ev_t e <=? hi)) tr.

Fixpoint sorted_from (t0 : Z) (ts : list Z) : Prop :=
  match ts with
  | [] => True
  | t :: r => t0 <= t /\ sorted_from t r
  end.

(* the boundary history: limit 3, 10 s; three admissions at 0, then at 10 s a roll and a
   rejection (value = 3), and 1 ns later still a rejection because 1 - 1e-10 rounds to 1 *)
Example boundary_history :
  key_run (Cfg 3 10000000000) None [0; 0; 0; 0; 10000000000; 10000000001; 13000000000]
  = [true; true; true; false; false; false; true].
Proof. vm_compute. reflexivity. Qed.
