(* Proofs about the rate limiter model (property C13). *)
From Passage Require Import Lib.Bytes Limiter.F32 Limiter.Bucket Limiter.Limiter Limiter.F32Proofs.

(* ================= counting ================= *)
Lemma cnt_app p a b : cnt p (a ++ b) = cnt p a + cnt p b.
Proof. induction a as [|e a IH]; cbn [cnt app]; lia. Qed.

Lemma cnt_nonneg p tr : 0 <= cnt p tr.
Proof. induction tr as [|e r IH]; cbn [cnt]; [lia | destruct (p e); lia]. Qed.

Lemma cnt_le p q tr :
  (forall e, In e tr -> p e = true -> q e = true) -> cnt p tr <= cnt q tr.
Proof.
  induction tr as [|e r IH]; intros H; cbn [cnt]; [lia|].
  assert (cnt p r <= cnt q r) by (apply IH; intros e' I; apply H; right; exact I).
  destruct (p e) eqn:P; [rewrite (H e (or_introl eq_refl) P); lia | destruct (q e); lia].
Qed.

Lemma cnt_ext p q tr :
  (forall e, In e tr -> p e = q e) -> cnt p tr = cnt q tr.
Proof.
  induction tr as [|e r IH]; intros H; cbn [cnt]; [lia|].
  rewrite (H e (or_introl eq_refl)), IH; [lia | intros e' I; apply H; right; exact I].
Qed.

Lemma cnt_or p q tr : cnt (fun e => p e || q e) tr <= cnt p tr + cnt q tr.
Proof. induction tr as [|e r IH]; cbn [cnt]; [lia | destruct (p e), (q e); cbn [orb]; lia]. Qed.

Lemma cnt_zero_or_ex p tr : cnt p tr = 0 \/ exists e, In e tr /\ p e = true.
Proof.
  induction tr as [|e r IH]; [left; reflexivity|].
  destruct (p e) eqn:P; [right; exists e; split; [left; reflexivity | exact P]|].
  destruct IH as [Z|(e' & I & P')]; [left; cbn [cnt]; rewrite P; lia | right; exists e'; split; [right; exact I | exact P']].
Qed.

Lemma adm_app w a b : adm w (a ++ b) = adm w a + adm w b.
Proof. apply cnt_app. Qed.

Lemma adm_none w tr : (forall e, In e tr -> ev_w e <> w) -> adm w tr = 0.
Proof.
  intros H. unfold adm. rewrite (cnt_ext _ (fun _ => false)).
  - induction tr as [|e r IH]; cbn [cnt]; [reflexivity | apply IH; intros e' I; apply H; right; exact I].
  - intros e I. specialize (H e I). destruct (ev_ok e); cbn [andb]; [lia | reflexivity].
Qed.

Lemma adm_single w t w' ok : adm w [Ev t w' ok] = if ok && (w' =? w) then 1 else 0.
Proof. unfold adm; cbn [cnt ev_ok ev_w]. lia. Qed.

(* ================= facts that do not depend on the float arithmetic ================= *)
Section NoFloat.
  Variable c : cfg.
  Hypothesis Dpos : 0 < dur c.

  Lemma roll_window b now : window (roll c b now) = now /\ dur c <= sat_sub now (window b)
                            \/ roll c b now = b /\ sat_sub now (window b) < dur c.
  Proof.
    unfold roll. destruct (Z.leb_spec (dur c) (sat_sub now (window b))); [left | right]; cbn [window]; auto.
  Qed.

  Lemma roll_age b now : sat_sub now (window (roll c b now)) < dur c.
  Proof.
    destruct (roll_window b now) as [[E _]|[E A]]; rewrite E; [unfold sat_sub; lia | exact A].
  Qed.

  Lemma roll_idem b now : roll c (roll c b now) now = roll c b now.
  Proof.
    pose proof (roll_age b now) as A. unfold roll at 1.
    destruct (Z.leb_spec (dur c) (sat_sub now (window (roll c b now)))); [lia | reflexivity].
  Qed.

  Lemma step_window b now : window (fst (bucket_step c b now)) = window (roll c b now).
  Proof. unfold bucket_step. cbv zeta. destruct (fge _ _); reflexivity. Qed.

  (* only the rolled bucket matters *)
  Lemma step_roll b now : bucket_step c (roll c b now) now = bucket_step c b now.
  Proof. unfold bucket_step. cbv zeta. rewrite roll_idem. reflexivity. Qed.

  (* KEY LEMMA: a bucket whose window is at least two durations old behaves like no bucket *)
  Lemma stale_is_fresh b now : 2 * dur c <= now - window b -> roll c b now = roll c (fresh now) now.
  Proof.
    intros H. unfold roll. cbn [window fresh].
    replace (sat_sub now now) with 0 by (unfold sat_sub; lia).
    destruct (Z.leb_spec (dur c) 0); [lia|].
    assert (A : sat_sub now (window b) = now - window b) by (unfold sat_sub; lia). rewrite A.
    destruct (Z.leb_spec (dur c) (now - window b)); [|lia].
    destruct (Z.leb_spec (2 * dur c) (now - window b)); [reflexivity | lia].
  Qed.

  Lemma stale_step b now : 2 * dur c <= now - window b ->
    bucket_step c b now = bucket_step c (fresh now) now.
  Proof.
    intros H. rewrite <- (step_roll b), <- (step_roll (fresh now)), (stale_is_fresh b now H). reflexivity.
  Qed.

  (* rejected attempts: the stored bucket is the rolled one, nothing is counted, and the
     rejection is stable at that instant *)
  Lemma reject_is_roll b now b' : bucket_step c b now = (b', false) -> b' = roll c b now.
  Proof. unfold bucket_step. cbv zeta. destruct (fge _ _); intros E; inversion E; reflexivity. Qed.

  Lemma reject_stable b now b' : bucket_step c b now = (b', false) -> bucket_step c b' now = (b', false).
  Proof.
    intros E. pose proof (reject_is_roll _ _ _ E) as ->. rewrite step_roll. exact E.
  Qed.

  Lemma admit_is_roll b now b' : bucket_step c b now = (b', true) ->
    b' = Bk (window (roll c b now)) (last (roll c b now)) (fadd (current (roll c b now)) fone).
  Proof. unfold bucket_step. cbv zeta. destruct (fge _ _); intros E; inversion E; reflexivity. Qed.
End NoFloat.

(* ================= the counters are exact integers ================= *)
(* hypotheses of the arithmetic part: 1 <= limit <= 2^24 and a duration of at least one
   nanosecond and at most 2^24 seconds (any number of nanoseconds, not only whole seconds) *)
Definition good_cfg (c : cfg) : Prop :=
  1 <= limit c <= 2 ^ 24 /\ 1 <= dur c <= max_dur.

Definition conc (w l k : Z) : bucket := Bk w (of_Z l) (of_Z k).

Section Good.
  Variable c : cfg.
  Hypothesis G : good_cfg c.
  Let L := limit c.
  Let D := dur c.

  Lemma good_Dpos : 0 < dur c.
  Proof. destruct G as (_ & H). lia. Qed.

  (* the window roll on integer counters *)
  Definition aroll (w l k now : Z) : Z * Z * Z :=
    let age := sat_sub now w in
    if dur c <=? age then (now, (if 2 * dur c <=? age then 0 else k), 0) else (w, l, k).

  Lemma roll_conc w l k now :
    roll c (conc w l k) now = let '(w', l', k') := aroll w l k now in conc w' l' k'.
  Proof.
    unfold roll, aroll, conc. cbn [window current].
    destruct (dur c <=? sat_sub now w); [|reflexivity].
    destruct (2 * dur c <=? sat_sub now w); reflexivity.
  Qed.

  Lemma aroll_spec w l k now w' l' k' :
    0 <= l <= L -> 0 <= k <= L -> aroll w l k now = (w', l', k') ->
    0 <= l' <= L /\ 0 <= k' <= L /\ sat_sub now w' < dur c.
  Proof.
    pose proof good_Dpos as Dp. destruct G as (HL & _). intros Hl Hk. unfold aroll.
    assert (Z0 : sat_sub now now = 0) by (unfold sat_sub; lia).
    destruct (Z.leb_spec (dur c) (sat_sub now w)) as [A|A];
      [destruct (Z.leb_spec (2 * dur c) (sat_sub now w)) as [B|B]|];
      intros [= <- <- <-]; rewrite ?Z0; unfold L in *; lia.
  Qed.

  (* the decision on a rolled bucket with integer counters *)
  Definition rej (w l k now : Z) : bool := fge (value c (conc w l k) now) (limit_f c).

  Lemma rej_facts w l k now :
    0 <= l <= L -> 0 <= k <= L -> sat_sub now w < dur c ->
    (L <= k -> rej w l k now = true) /\ (l = 0 -> rej w l k now = (L <=? k)).
  Proof.
    intros Hl Hk Ha. destruct G as (HL & HD). fold L in HL.
    assert (A0 : 0 <= sat_sub now w) by (unfold sat_sub; lia).
    destruct (secs_f32_ok (sat_sub now w)) as [Naf _]; [lia|].
    destruct (secs_f32_ok (dur c)) as [Ndf _]; [lia|].
    pose proof (secs_f32_pos (dur c) HD) as Pdf.
    pose proof (secs_f32_mono (sat_sub now w) (dur c) (conj A0 (Z.lt_le_incl _ _ Ha)) (proj2 HD)) as Mono.
    unfold rej, value, weight, dur_f, limit_f. cbn [window last current conc]. fold L.
    split.
    - intros Hfull. apply (value_full l k (secs_f32 (sat_sub now w)) (secs_f32 (dur c))); auto; lia.
    - intros Hz. rewrite (value_last0 l k (secs_f32 (sat_sub now w)) (secs_f32 (dur c))); auto; try lia.
      apply fge_of_Z; lia.
  Qed.

  (* one step of the bucket on integer counters *)
  Lemma step_conc w l k now w' l' k' :
    0 <= l <= L -> 0 <= k <= L -> aroll w l k now = (w', l', k') ->
    let ok := negb (rej w' l' k' now) in
    bucket_step c (conc w l k) now = (conc w' l' (if ok then k' + 1 else k'), ok)
    /\ (ok = true -> k' < L) /\ (l' = 0 -> ok = (k' <? L)).
  Proof.
    intros Hl Hk Ha ok.
    destruct (aroll_spec _ _ _ _ _ _ _ Hl Hk Ha) as (Hl' & Hk' & Hage).
    destruct (rej_facts w' l' k' now Hl' Hk' Hage) as [Rfull Rzero].
    assert (Hok : ok = true -> k' < L).
    { unfold ok. intros N. destruct (Z.lt_ge_cases k' L) as [|Ge]; [assumption|].
      rewrite (Rfull Ge) in N. discriminate. }
    split; [|split; [exact Hok|]].
    - unfold bucket_step. cbv zeta. rewrite roll_conc, Ha. fold (rej w' l' k' now).
      unfold ok in *. destruct (rej w' l' k' now); cbn [negb]; [reflexivity|].
      unfold conc at 2 3 4. cbn [window last current]. unfold conc. f_equal. f_equal.
      apply fadd_one. specialize (Hok eq_refl). destruct G as (HL & _). unfold L in *. lia.
    - intros Hz. unfold ok. rewrite (Rzero Hz). lia.
  Qed.
End Good.

(* ================= traces of the one-key machine ================= *)
Lemma key_final_app c ob a b : key_final c ob (a ++ b) = key_final c (key_final c ob a) b.
Proof. revert ob; induction a as [|t a IH]; intros ob; cbn [key_final app]; [reflexivity | apply IH]. Qed.

Lemma key_trace_app c ob a b :
  key_trace c ob (a ++ b) = key_trace c ob a ++ key_trace c (key_final c ob a) b.
Proof.
  revert ob; induction a as [|t a IH]; intros ob; cbn [key_trace key_final app]; [reflexivity|].
  destruct (key_step c ob t) as [b' ok]. cbn [fst app]. rewrite IH. reflexivity.
Qed.

Lemma key_run_app c ob a b :
  key_run c ob (a ++ b) = key_run c ob a ++ key_run c (key_final c ob a) b.
Proof.
  revert ob; induction a as [|t a IH]; intros ob; cbn [key_run key_final app]; [reflexivity|].
  destruct (key_step c ob t) as [b' ok]. cbn [fst app]. rewrite IH. reflexivity.
Qed.

Lemma key_run_trace c ob ts : key_run c ob ts = map ev_ok (key_trace c ob ts).
Proof.
  revert ob; induction ts as [|t r IH]; intros ob; cbn [key_run key_trace map]; [reflexivity|].
  destruct (key_step c ob t) as [b' ok]. cbn [map ev_ok]. rewrite IH. reflexivity.
Qed.

Lemma adm_snoc w0 tr t w ok :
  adm w0 (tr ++ [Ev t w ok]) = adm w0 tr + (if ok && (w =? w0) then 1 else 0).
Proof. rewrite adm_app, adm_single. reflexivity. Qed.

Fixpoint last_time (t0 : Z) (ts : list Z) : Z :=
  match ts with [] => t0 | t :: r => last_time t r end.

Lemma sorted_from_app t0 a b :
  sorted_from t0 (a ++ b) <-> sorted_from t0 a /\ sorted_from (last_time t0 a) b.
Proof.
  revert t0; induction a as [|t a IH]; intros t0; cbn [sorted_from app last_time]; [tauto|].
  rewrite IH. tauto.
Qed.

Section OneKey.
  Variable c : cfg.
  Hypothesis G : good_cfg c.
  Let L := limit c.
  Let D := dur c.

  (* the invariant of the one-key machine: bucket `ob`, trace so far `tr`, time of the last
     attempt (or any earlier bound) `T` *)
  Definition KI (ob : option bucket) (tr : list ev) (T : Z) : Prop :=
    match ob with
    | None => tr = []
    | Some b => exists w l k,
        b = conc w l k /\ 0 <= l <= L /\ 0 <= k <= L /\ k = adm w tr
        /\ (l = 0 \/ exists w', w' + D <= w < w' + 2 * D /\ l = adm w' tr)
        /\ w <= T
        /\ (forall e, In e tr ->
              (ev_w e = w \/ ev_w e + D <= w) /\ ev_w e <= ev_t e < ev_w e + D /\ ev_t e <= T)
        /\ (forall w0, adm w0 tr <= L)
        /\ (forall e e', In e tr -> In e' tr ->
              ev_w e = ev_w e' \/ ev_w e + D <= ev_w e' \/ ev_w e' + D <= ev_w e)
    end.

  Lemma KI_fresh t : KI (Some (fresh t)) [] t.
  Proof.
    destruct G as (HL & _). fold L in HL.
    exists t, 0, 0. unfold fresh, conc. change (of_Z 0) with fzero.
    split; [reflexivity|]. split; [lia|]. split; [lia|]. split; [reflexivity|].
    split; [left; reflexivity|]. split; [lia|]. split; [intros ? []|].
    split; [intros w0; cbn; lia | intros ? ? []].
  Qed.

  Lemma KI_step_some b tr T t : KI (Some b) tr T -> T <= t ->
    let '(b', ok) := bucket_step c b t in KI (Some b') (tr ++ [Ev t (window b') ok]) t.
  Proof.
    pose proof (good_Dpos c G) as Dp. fold D in Dp.
    destruct G as (HL & _). fold L in HL.
    intros (w & l & k & -> & Hl & Hk & Ek & Hlast & HwT & Hent & Hadm & Hpair) HT.
    destruct (aroll c w l k t) as [[w' l'] k'] eqn:Ea.
    destruct (step_conc c G w l k t w' l' k' Hl Hk Ea) as (Es & Hok & _).
    destruct (aroll_spec c G _ _ _ _ _ _ _ Hl Hk Ea) as (Hl' & Hk' & _).
    fold L in Hl', Hk', Hok.
    rewrite Es. set (ok := negb (rej c w' l' k' t)) in *. clearbody ok. clear Es.
    unfold conc at 2. cbn [window].
    unfold aroll in Ea. fold D in Ea.
    destruct (Z.leb_spec D (sat_sub t w)) as [A|A].
    - (* the window rolls: w' = t *)
      assert (Aw : w + D <= t) by (unfold sat_sub in A; lia).
      assert (Old : forall e, In e tr -> ev_w e + D <= t).
      { intros e I. destruct (Hent e I) as ([->|O] & _ & _); lia. }
      assert (Z0 : adm t tr = 0).
      { apply adm_none. intros e I. specialize (Old e I). lia. }
      assert (El' : l' = 0 \/ (w + D <= t < w + 2 * D /\ l' = k)).
      { destruct (Z.leb_spec (2 * D) (sat_sub t w)) as [B|B]; injection Ea as <- <- <-;
          [left; reflexivity | right; unfold sat_sub in B; lia]. }
      assert (Ew' : w' = t /\ k' = 0).
      { destruct (2 * D <=? sat_sub t w); injection Ea as <- <- <-; auto. }
      destruct Ew' as [-> ->]. clear Ea.
      exists t, l', (if ok then 0 + 1 else 0). split; [reflexivity|].
      split; [exact Hl'|]. split; [destruct ok; lia|].
      split; [rewrite adm_snoc, Z0, Z.eqb_refl; destruct ok; cbn [andb]; lia|].
      split.
      { destruct El' as [->|[Hw ->]]; [left; reflexivity | right]. exists w. split; [lia|].
        rewrite adm_snoc. destruct (Z.eqb_spec t w); [lia|]. rewrite andb_false_r. lia. }
      split; [lia|]. split.
      { intros e I. apply in_app_or in I. destruct I as [I|[<-|[]]].
        - destruct (Hent e I) as (_ & B1 & B2). specialize (Old e I). split; [right; lia|]. split; lia.
        - cbn [ev_w ev_t]. split; [left; reflexivity|]. split; lia. }
      split.
      { intros w0. rewrite adm_snoc. destruct (Z.eqb_spec t w0) as [<-|N].
        - rewrite Z0. destruct ok; cbn [andb]; lia.
        - rewrite andb_false_r. specialize (Hadm w0). lia. }
      intros e e' I I'. apply in_app_or in I. apply in_app_or in I'.
      destruct I as [I|[<-|[]]], I' as [I'|[<-|[]]]; cbn [ev_w].
      + apply Hpair; assumption.
      + specialize (Old e I). right; left; lia.
      + specialize (Old e' I'). right; right; lia.
      + left; reflexivity.
    - (* same window *)
      injection Ea as <- <- <-.
      assert (At : w <= t < w + D) by (unfold sat_sub in A; lia).
      exists w, l, (if ok then k + 1 else k). split; [reflexivity|].
      split; [exact Hl|]. split; [destruct ok; [specialize (Hok eq_refl)|]; lia|].
      split; [rewrite adm_snoc, Z.eqb_refl, <- Ek; destruct ok; cbn [andb]; lia|].
      split.
      { destruct Hlast as [->|(w0 & Hw0 & ->)]; [left; reflexivity | right]. exists w0. split; [lia|].
        rewrite adm_snoc. destruct (Z.eqb_spec w w0); [lia|]. rewrite andb_false_r. lia. }
      split; [lia|]. split.
      { intros e I. apply in_app_or in I. destruct I as [I|[<-|[]]].
        - destruct (Hent e I) as (B0 & B1 & B2). split; [exact B0|]. split; lia.
        - cbn [ev_w ev_t]. split; [left; reflexivity|]. split; lia. }
      split.
      { intros w0. rewrite adm_snoc. destruct (Z.eqb_spec w w0) as [<-|N].
        - rewrite <- Ek. destruct ok; cbn [andb]; [specialize (Hok eq_refl)|]; lia.
        - rewrite andb_false_r. specialize (Hadm w0). lia. }
      intros e e' I I'. apply in_app_or in I. apply in_app_or in I'.
      destruct I as [I|[<-|[]]], I' as [I'|[<-|[]]]; cbn [ev_w].
      + apply Hpair; assumption.
      + destruct (Hent e I) as ([->|O] & _ & _); [left; reflexivity | right; left; lia].
      + destruct (Hent e' I') as ([->|O] & _ & _); [left; reflexivity | right; right; lia].
      + left; reflexivity.
  Qed.

  Lemma KI_step ob tr T t : KI ob tr T -> T <= t ->
    let '(b', ok) := key_step c ob t in KI (Some b') (tr ++ [Ev t (window b') ok]) t.
  Proof.
    intros H HT. destruct ob as [b|].
    - exact (KI_step_some b tr T t H HT).
    - cbn in H. subst tr. unfold key_step. apply (KI_step_some (fresh t) [] t t (KI_fresh t)). lia.
  Qed.

  (* the invariant holds after every history with non-decreasing times *)
  Lemma KI_run ts t0 : sorted_from t0 ts ->
    KI (key_final c None ts) (key_trace c None ts) (last_time t0 ts).
  Proof.
    induction ts as [|t ts IH] using rev_ind; intros Hs; [reflexivity|].
    apply sorted_from_app in Hs. destruct Hs as [Hs1 Hs2]. cbn [sorted_from] in Hs2.
    rewrite key_final_app, key_trace_app. cbn [key_final key_trace].
    specialize (IH Hs1).
    pose proof (KI_step _ _ _ t IH (proj1 Hs2)) as K.
    destruct (key_step c (key_final c None ts) t) as [b' ok]. cbn [fst].
    replace (last_time t0 (ts ++ [t])) with t; [exact K|].
    clear. revert t0; induction ts as [|x r IH]; intros t0; cbn [last_time app]; [reflexivity | apply IH].
  Qed.
End OneKey.

(* ================= one-key theorems ================= *)
Lemma last_time_in t0 ts : ts <> [] -> In (last_time t0 ts) ts.
Proof.
  revert t0; induction ts as [|t r IH]; intros t0 H; [congruence|].
  cbn [last_time]. destruct r as [|t' r']; [left; reflexivity | right; apply IH; discriminate].
Qed.

Lemma key_final_some c r : forall ob, ob <> None -> key_final c ob r <> None.
Proof. induction r as [|x r IH]; intros ob H; cbn [key_final]; [exact H | apply IH; discriminate]. Qed.

Lemma key_final_none c ts : key_final c None ts = None -> ts = [].
Proof.
  destruct ts as [|t r]; [reflexivity|]. cbn [key_final]. intros E. exfalso.
  apply (key_final_some c r (Some (fst (key_step c None t)))); [discriminate | exact E].
Qed.

Section OneKeyTheorems.
  Variable c : cfg.
  Hypothesis G : good_cfg c.
  Let L := limit c.
  Let D := dur c.

  (* counters: `current` is the number of admissions counted in the current window, `last`
     the number counted in the window before it (if that one started less than two durations
     before the current one, else 0); both are integers in [0, limit], held exactly *)
  Theorem counters_exact ts t0 : sorted_from t0 ts ->
    let tr := key_trace c None ts in
    match key_final c None ts with
    | None => ts = []
    | Some b =>
        current b = of_Z (adm (window b) tr) /\ 0 <= adm (window b) tr <= L
        /\ exists lp, last b = of_Z lp /\ 0 <= lp <= L
             /\ (lp = 0 \/ exists w', w' + D <= window b < w' + 2 * D /\ lp = adm w' tr)
    end.
  Proof.
    intros Hs tr. pose proof (KI_run c G ts t0 Hs) as K. fold tr in K.
    destruct (key_final c None ts) as [b|] eqn:E; [|apply (key_final_none c); exact E].
    destruct K as (w & l & k & -> & Hl & Hk & Ek & Hlast & _).
    cbn [conc window current last]. rewrite <- Ek. split; [reflexivity|]. split; [exact Hk|].
    exists l. split; [reflexivity|]. split; [exact Hl | exact Hlast].
  Qed.

  (* facts about the trace *)
  Lemma trace_facts ts t0 : sorted_from t0 ts ->
    let tr := key_trace c None ts in
    (forall e, In e tr -> ev_w e <= ev_t e < ev_w e + D)
    /\ (forall w0, adm w0 tr <= L)
    /\ (forall e e', In e tr -> In e' tr ->
          ev_w e = ev_w e' \/ ev_w e + D <= ev_w e' \/ ev_w e' + D <= ev_w e).
  Proof.
    intros Hs tr. pose proof (KI_run c G ts t0 Hs) as K. fold tr in K.
    destruct G as (HL & _). fold L in HL.
    destruct (key_final c None ts) as [b|].
    - destruct K as (w & l & k & _ & _ & _ & _ & _ & _ & Hent & Hadm & Hpair).
      split; [intros e I; apply (Hent e I)|]. split; assumption.
    - cbn in K. rewrite K. split; [intros ? []|]. split; [intros w0; cbn; lia | intros ? ? []].
  Qed.

  (* at most `limit` admissions between two consecutive window starts *)
  Theorem window_bound ts t0 w0 : sorted_from t0 ts -> adm w0 (key_trace c None ts) <= L.
  Proof. intros Hs. apply (trace_facts ts t0 Hs). Qed.

  (* window starts are at least one duration apart *)
  Theorem windows_apart ts t0 e e' : sorted_from t0 ts ->
    In e (key_trace c None ts) -> In e' (key_trace c None ts) ->
    ev_w e = ev_w e' \/ ev_w e + D <= ev_w e' \/ ev_w e' + D <= ev_w e.
  Proof. intros Hs. apply (trace_facts ts t0 Hs). Qed.

  Definition pw (lo : Z) (e : ev) : bool := ev_ok e && (lo <? ev_w e) && (ev_w e <=? lo + D).

  Lemma pw_bound ts t0 lo : sorted_from t0 ts -> cnt (pw lo) (key_trace c None ts) <= L.
  Proof.
    intros Hs. destruct (trace_facts ts t0 Hs) as (_ & Hadm & Hpair).
    destruct G as (HL & _). fold L in HL.
    set (tr := key_trace c None ts) in *.
    destruct (cnt_zero_or_ex (pw lo) tr) as [Z|(e0 & I0 & P0)]; [lia|].
    apply Z.le_trans with (adm (ev_w e0) tr); [|apply Hadm].
    unfold adm. apply cnt_le. intros e I P.
    unfold pw in P, P0. specialize (Hpair e e0 I I0).
    destruct (ev_ok e); [|discriminate]. cbn [andb] in *. lia.
  Qed.

  (* at most 2 * limit admissions in any closed interval of length `duration` *)
  Theorem two_windows_bound ts t0 a : sorted_from t0 ts ->
    adm_between a (a + D) (key_trace c None ts) <= 2 * L.
  Proof.
    intros Hs. destruct (trace_facts ts t0 Hs) as (Hent & _ & _).
    pose proof (pw_bound ts t0 (a - D) Hs) as B1. pose proof (pw_bound ts t0 a Hs) as B2.
    set (tr := key_trace c None ts) in *.
    apply Z.le_trans with (cnt (fun e => pw (a - D) e || pw a e) tr).
    - unfold adm_between. apply cnt_le. intros e I P. specialize (Hent e I). unfold pw.
      destruct (ev_ok e); [|discriminate]. cbn [andb] in *. lia.
    - pose proof (cnt_or (pw (a - D)) (pw a) tr). lia.
  Qed.

  (* a key that has not been seen for two durations (or never) is admitted *)
  Lemma idle_admitted ob tr T t : KI c ob tr T -> T + 2 * D <= t -> snd (key_step c ob t) = true.
  Proof.
    pose proof (good_Dpos c G) as Dp. fold D in Dp.
    destruct G as (HL & _). fold L in HL.
    intros K Ht. unfold key_step.
    assert (X : forall w l k, 0 <= l <= L -> 0 <= k <= L -> aroll c w l k t = (t, 0, 0) ->
                snd (bucket_step c (conc w l k) t) = true).
    { intros w l k Hl Hk Ea.
      destruct (step_conc c G w l k t t 0 0 Hl Hk Ea) as (Es & _ & Hz).
      rewrite Es. cbn [snd]. rewrite (Hz eq_refl). fold L. lia. }
    destruct ob as [b|].
    - destruct K as (w & l & k & -> & Hl & Hk & _ & _ & HwT & _).
      apply X; auto. unfold aroll. fold D.
      assert (A : sat_sub t w = t - w) by (unfold sat_sub; lia). rewrite A.
      destruct (Z.leb_spec D (t - w)); [|lia]. destruct (Z.leb_spec (2 * D) (t - w)); [reflexivity | lia].
    - change (fresh t) with (conc t 0 0). apply X; try lia. unfold aroll. fold D.
      replace (sat_sub t t) with 0 by (unfold sat_sub; lia). destruct (Z.leb_spec D 0); [lia | reflexivity].
  Qed.

  Theorem idle_readmitted_one_key ts t0 t : sorted_from t0 (ts ++ [t]) ->
    (forall x, In x ts -> x + 2 * D <= t) ->
    snd (key_step c (key_final c None ts) t) = true.
  Proof.
    intros Hs Hidle. apply sorted_from_app in Hs. destruct Hs as [Hs _].
    pose proof (KI_run c G ts t0 Hs) as K.
    destruct ts as [|x r].
    - cbn [key_final]. apply (idle_admitted None [] (t - 2 * D) t); [reflexivity | lia].
    - apply (idle_admitted _ _ _ t K). apply Hidle. apply last_time_in. discriminate.
  Qed.
End OneKeyTheorems.

(* ================= the association list ================= *)
Fixpoint ksorted (l : list (Z * bucket)) : Prop :=
  match l with
  | [] => True
  | (k, _) :: r => (forall k', In k' (map fst r) -> k < k') /\ ksorted r
  end.

Lemma insert_keys k b l k0 : In k0 (map fst (insert k b l)) <-> k0 = k \/ In k0 (map fst l).
Proof.
  induction l as [|[k1 b1] r IH]; cbn [insert map fst In]; [intuition|].
  destruct (Z.eqb_spec k k1) as [->|N]; [cbn [map fst In]; intuition|].
  destruct (k <? k1); cbn [map fst In]; [intuition|]. rewrite IH. intuition.
Qed.

Lemma insert_in k b l k0 b0 : In (k0, b0) (insert k b l) -> (k0 = k /\ b0 = b) \/ In (k0, b0) l.
Proof.
  induction l as [|[k1 b1] r IH]; cbn [insert In].
  - intros [[= <- <-]|[]]; left; auto.
  - destruct (Z.eqb_spec k k1) as [->|N]; [cbn [In]; intros [[= <- <-]|I]; [left | right; right]; auto|].
    destruct (k <? k1); cbn [In].
    + intros [[= <- <-]|I]; [left | right]; auto.
    + intros [E|I]; [right; left; exact E|]. destruct (IH I) as [X|X]; [left | right; right]; exact X.
Qed.

Lemma insert_sorted k b l : ksorted l -> ksorted (insert k b l).
Proof.
  induction l as [|[k1 b1] r IH]; cbn [insert ksorted]; [intros _; split; [intros ? []|exact I]|].
  intros [H1 H2]. destruct (Z.eqb_spec k k1) as [->|N]; [cbn [ksorted]; split; assumption|].
  destruct (Z.ltb_spec k k1) as [Lt|Ge]; cbn [ksorted].
  - split; [|split; assumption]. cbn [map fst In]. intros k' [<-|I]; [exact Lt | specialize (H1 k' I); lia].
  - split; [|apply IH; exact H2]. intros k' I. apply insert_keys in I. destruct I as [->|I]; [lia | apply H1; exact I].
Qed.

Lemma lookup_insert_same k b l : lookup k (insert k b l) = Some b.
Proof.
  induction l as [|[k1 b1] r IH]; cbn [insert lookup]; [rewrite Z.eqb_refl; reflexivity|].
  destruct (Z.eqb_spec k k1) as [->|N]; [cbn [lookup]; rewrite Z.eqb_refl; reflexivity|].
  destruct (k <? k1); cbn [lookup]; [rewrite Z.eqb_refl; reflexivity|].
  destruct (Z.eqb_spec k k1); [contradiction | exact IH].
Qed.

Lemma lookup_insert_other k k' b l : k <> k' -> lookup k (insert k' b l) = lookup k l.
Proof.
  intros N. induction l as [|[k1 b1] r IH]; cbn [insert lookup].
  - destruct (Z.eqb_spec k k'); [contradiction | reflexivity].
  - destruct (Z.eqb_spec k' k1) as [->|N1].
    + cbn [lookup]. destruct (Z.eqb_spec k k1); [contradiction | reflexivity].
    + destruct (k' <? k1); cbn [lookup].
      * destruct (Z.eqb_spec k k'); [contradiction | reflexivity].
      * destruct (k =? k1); [reflexivity | exact IH].
Qed.

Lemma lookup_none_iff k l : lookup k l = None <-> ~ In k (map fst l).
Proof.
  induction l as [|[k1 b1] r IH]; cbn [lookup map fst In]; [intuition|].
  destruct (Z.eqb_spec k k1) as [->|N]; [split; [discriminate | intros H; exfalso; apply H; left; reflexivity]|].
  rewrite IH. intuition.
Qed.

Lemma lookup_in k l b : lookup k l = Some b -> In (k, b) l.
Proof.
  induction l as [|[k1 b1] r IH]; cbn [lookup In]; [discriminate|].
  destruct (Z.eqb_spec k k1) as [->|N]; [intros [= ->]; left; reflexivity | intros H; right; apply IH; exact H].
Qed.

Lemma filter_keys (p : Z * bucket -> bool) l k0 : In k0 (map fst (filter p l)) -> In k0 (map fst l).
Proof.
  induction l as [|kb r IH]; cbn [filter map In]; [auto|].
  destruct (p kb); cbn [map In]; intuition.
Qed.

Lemma filter_sorted (p : Z * bucket -> bool) l : ksorted l -> ksorted (filter p l).
Proof.
  induction l as [|[k1 b1] r IH]; cbn [filter ksorted]; [auto|]. intros [H1 H2].
  destruct (p (k1, b1)); cbn [ksorted]; [|apply IH; exact H2].
  split; [intros k' I; apply H1; apply (filter_keys p); exact I | apply IH; exact H2].
Qed.

Lemma lookup_filter (p : Z * bucket -> bool) k l : ksorted l ->
  lookup k (filter p l) = match lookup k l with
                          | Some b => if p (k, b) then Some b else None
                          | None => None end.
Proof.
  induction l as [|[k1 b1] r IH]; cbn [filter lookup ksorted]; [reflexivity|]. intros [H1 H2].
  destruct (Z.eqb_spec k k1) as [->|N].
  - destruct (p (k1, b1)); cbn [lookup]; [rewrite Z.eqb_refl; reflexivity|].
    apply lookup_none_iff. intros I. apply filter_keys in I. specialize (H1 k1 I). lia.
  - destruct (p (k1, b1)); cbn [lookup]; [|apply IH; exact H2].
    destruct (Z.eqb_spec k k1); [contradiction | apply IH; exact H2].
Qed.

(* ================= the multi-key limiter ================= *)
Fixpoint hist_last (t0 : Z) (h : list (Z * Z)) : Z :=
  match h with [] => t0 | (_, t) :: r => hist_last t r end.

Lemma hist_sorted_app t0 a b :
  hist_sorted_from t0 (a ++ b) <-> hist_sorted_from t0 a /\ hist_sorted_from (hist_last t0 a) b.
Proof.
  revert t0; induction a as [|[k t] a IH]; intros t0; cbn [hist_sorted_from app hist_last]; [tauto|].
  rewrite IH. tauto.
Qed.

Lemma hist_last_le t0 h : hist_sorted_from t0 h -> t0 <= hist_last t0 h.
Proof.
  revert t0; induction h as [|[k t] r IH]; intros t0; cbn [hist_sorted_from hist_last]; [lia|].
  intros [A B]. specialize (IH t B). lia.
Qed.

Lemma sorted_from_weaken t0 t ts : t0 <= t -> sorted_from t ts -> sorted_from t0 ts.
Proof. destruct ts as [|x r]; cbn [sorted_from]; [auto | intros A [B C]; split; [lia | exact C]]. Qed.

Lemma attempts_of_cons k k' t r :
  attempts_of k ((k', t) :: r) = if k' =? k then t :: attempts_of k r else attempts_of k r.
Proof. unfold attempts_of. cbn [filter fst]. destruct (k' =? k); reflexivity. Qed.

Lemma attempts_of_app k a b : attempts_of k (a ++ b) = attempts_of k a ++ attempts_of k b.
Proof. unfold attempts_of. rewrite filter_app, map_app. reflexivity. Qed.

Lemma attempts_sorted k t0 h : hist_sorted_from t0 h -> sorted_from t0 (attempts_of k h).
Proof.
  revert t0; induction h as [|[k' t] r IH]; intros t0; [intros _; exact I|].
  cbn [hist_sorted_from]. intros [A B]. rewrite attempts_of_cons.
  destruct (k' =? k); [cbn [sorted_from]; split; [exact A | apply IH; exact B]|].
  apply (sorted_from_weaken t0 t); [exact A | apply IH; exact B].
Qed.

Lemma attempts_in k h t : In t (attempts_of k h) -> In (k, t) h.
Proof.
  unfold attempts_of. intros I. apply in_map_iff in I. destruct I as ([k' t'] & E & I).
  apply filter_In in I. destruct I as [I P]. cbn [fst snd] in *. subst t'.
  assert (k' = k) by lia. subst k'. exact I.
Qed.

Section Multi.
  Variable c : cfg.
  Hypothesis Dpos : 0 < dur c.

  Lemma enqueue_spec st k t :
    exists b' ok,
      bucket_step c (match lookup k (buckets st) with Some b => b | None => fresh t end) t = (b', ok)
      /\ enqueue c st k t =
         (if ok && (2 * dur c <=? sat_sub t (last_cleanup st))
          then Ls t (filter (keep c t) (insert k b' (buckets st)))
          else Ls (last_cleanup st) (insert k b' (buckets st)), ok).
  Proof.
    unfold enqueue.
    destruct (bucket_step c (match lookup k (buckets st) with Some b => b | None => fresh t end) t) as [b' ok].
    exists b', ok. split; [reflexivity|].
    destruct ok; cbn [andb]; [|reflexivity]. destruct (2 * dur c <=? sat_sub t (last_cleanup st)); reflexivity.
  Qed.

  (* what the limiter knows about key k versus the one-key machine: the same bucket, or no
     bucket where the one-key machine holds one that is at least two durations old *)
  Definition Rel (k T : Z) (st : lstate) (ob : option bucket) : Prop :=
    lookup k (buckets st) = ob
    \/ (lookup k (buckets st) = None /\ exists b, ob = Some b /\ 2 * dur c <= T - window b).

  Lemma enq_rel k st ob T k' t : ksorted (buckets st) -> Rel k T st ob -> T <= t ->
    ksorted (buckets (fst (enqueue c st k' t)))
    /\ if k' =? k
       then snd (enqueue c st k' t) = snd (key_step c ob t)
            /\ Rel k t (fst (enqueue c st k' t)) (Some (fst (key_step c ob t)))
       else Rel k t (fst (enqueue c st k' t)) ob.
  Proof.
    intros Hsort HR HT.
    destruct (enqueue_spec st k' t) as (b' & ok & Es & Ee). rewrite Ee. cbn [fst snd].
    set (bs := insert k' b' (buckets st)).
    assert (Sbs : ksorted bs) by (apply insert_sorted; exact Hsort).
    split.
    { destruct (ok && _); cbn [buckets]; [apply filter_sorted|]; exact Sbs. }
    assert (Lf : forall st', (st' = Ls t (filter (keep c t) bs) \/ st' = Ls (last_cleanup st) bs) ->
                 forall ob', lookup k bs = ob' ->
                 lookup k (buckets st') = ob' \/
                 (lookup k (buckets st') = None /\ exists b, ob' = Some b /\ 2 * dur c <= t - window b)).
    { intros st' [->| ->] ob' E; cbn [buckets]; [|left; exact E].
      rewrite (lookup_filter _ _ _ Sbs), E. destruct ob' as [b|]; [|left; reflexivity].
      unfold keep. cbn [snd]. destruct (Z.ltb_spec (sat_sub t (window b)) (2 * dur c)); [left; reflexivity|].
      right. split; [reflexivity|]. exists b. split; [reflexivity|]. unfold sat_sub in *. lia. }
    assert (Hst : forall (x : bool), (if x then Ls t (filter (keep c t) bs) else Ls (last_cleanup st) bs)
                   = Ls t (filter (keep c t) bs) \/
                  (if x then Ls t (filter (keep c t) bs) else Ls (last_cleanup st) bs) = Ls (last_cleanup st) bs)
      by (intros []; auto).
    destruct (Z.eqb_spec k' k) as [->|N].
    - (* the attempt is k's own *)
      assert (Ek : key_step c ob t = (b', ok)).
      { unfold key_step. destruct HR as [E|(E & b & -> & Hst')].
        - rewrite <- E. exact Es.
        - rewrite E in Es. rewrite (stale_step c Dpos b t); [exact Es | lia]. }
      rewrite Ek. cbn [fst snd]. split; [reflexivity|].
      apply (Lf _ (Hst _)). apply lookup_insert_same.
    - assert (El : lookup k bs = lookup k (buckets st)) by (apply lookup_insert_other; auto).
      destruct HR as [E|(E & b & -> & Hst')].
      + apply (Lf _ (Hst _)). rewrite El. exact E.
      + right. split; [|exists b; split; [reflexivity | lia]].
        destruct (Lf _ (Hst (ok && (2 * dur c <=? sat_sub t (last_cleanup st)))) None) as [X|[X _]];
          [rewrite El; exact E | exact X | exact X].
  Qed.

  Lemma rel_run k : forall h st ob T,
    ksorted (buckets st) -> Rel k T st ob -> hist_sorted_from T h ->
    decisions_for k c st h = key_run c ob (attempts_of k h)
    /\ Rel k (hist_last T h) (lfinal c st h) (key_final c ob (attempts_of k h))
    /\ ksorted (buckets (lfinal c st h)).
  Proof.
    induction h as [|[k' t] r IH]; intros st ob T Hsort HR Hs.
    - cbn. auto.
    - cbn [hist_sorted_from] in Hs. destruct Hs as [HT Hs].
      destruct (enq_rel k st ob T k' t Hsort HR HT) as [Hsort' Hk].
      cbn [decisions_for lfinal hist_last]. rewrite attempts_of_cons.
      destruct (enqueue c st k' t) as [st' ok] eqn:Ee. cbn [fst snd] in *.
      destruct (k' =? k).
      + destruct Hk as [Eok HR']. cbn [key_run key_final].
        destruct (key_step c ob t) as [b1 ok1]. cbn [fst snd] in *. subst ok1.
        destruct (IH st' (Some b1) t Hsort' HR' Hs) as (A & B & C). rewrite A. auto.
      + apply (IH st' ob t Hsort' Hk Hs).
  Qed.

  (* decisions for one key are those of the one-key machine on that key's attempts: other
     keys and the cleanup are invisible *)
  Theorem independent t0 h k : hist_sorted_from t0 h ->
    decisions_for k c (linit t0) h = key_run c None (attempts_of k h).
  Proof.
    intros Hs. apply (rel_run k h (linit t0) None t0); [exact I | left; reflexivity | exact Hs].
  Qed.

  (* a rejected attempt changes nothing but the key's own (rolled) bucket *)
  Theorem reject_free st k t st' : enqueue c st k t = (st', false) ->
    last_cleanup st' = last_cleanup st
    /\ (forall k', k' <> k -> lookup k' (buckets st') = lookup k' (buckets st))
    /\ lookup k (buckets st') =
         Some (roll c (match lookup k (buckets st) with Some b => b | None => fresh t end) t)
    /\ enqueue c st' k t = (st', false).
  Proof.
    intros E. destruct (enqueue_spec st k t) as (b' & ok & Es & Ee). rewrite Ee in E.
    injection E as E1 E2. subst ok. cbn [andb] in E1. subst st'. cbn [last_cleanup buckets].
    pose proof (reject_is_roll c _ _ _ Es) as Eb.
    split; [reflexivity|]. split; [intros k' N; apply lookup_insert_other; exact N|].
    split; [rewrite lookup_insert_same, Eb; reflexivity|].
    unfold enqueue. cbn [buckets last_cleanup]. rewrite lookup_insert_same.
    rewrite (reject_stable c Dpos _ _ _ Es).
    f_equal. f_equal.
    clear. induction (buckets st) as [|[k1 b1] r IH]; cbn [insert]; [rewrite Z.eqb_refl; reflexivity|].
    destruct (Z.eqb_spec k k1) as [->|N]; [cbn [insert]; rewrite Z.eqb_refl; reflexivity|].
    destruct (Z.ltb_spec k k1); cbn [insert]; [rewrite Z.eqb_refl; reflexivity|].
    destruct (Z.eqb_spec k k1); [contradiction|]. destruct (Z.ltb_spec k k1); [lia|]. rewrite IH. reflexivity.
  Qed.

  (* ---- cleanup keeps the table young ---- *)
  Definition TI (st : lstate) (hist : list (Z * Z)) (T : Z) : Prop :=
    last_cleanup st <= T
    /\ forall k b, In (k, b) (buckets st) ->
         last_cleanup st - window b < 2 * dur c /\ window b <= T /\ In (k, window b) hist.

  Lemma TI_step st hist T k t : TI st hist T -> T <= t ->
    TI (fst (enqueue c st k t)) (hist ++ [(k, t)]) t
    /\ (snd (enqueue c st k t) = true -> t - last_cleanup (fst (enqueue c st k t)) < 2 * dur c).
  Proof.
    intros [Hlc Hb] HT.
    destruct (enqueue_spec st k t) as (b' & ok & Es & Ee). rewrite Ee. cbn [fst snd].
    set (b0 := match lookup k (buckets st) with Some b => b | None => fresh t end) in *.
    assert (Hb0 : window b0 = t \/ (last_cleanup st - window b0 < 2 * dur c /\ window b0 <= T
                                   /\ In (k, window b0) hist)).
    { unfold b0. destruct (lookup k (buckets st)) as [b|] eqn:El; [right | left; reflexivity].
      apply Hb. apply lookup_in. exact El. }
    assert (Hb' : last_cleanup st - window b' < 2 * dur c /\ window b' <= t
                  /\ In (k, window b') (hist ++ [(k, t)])).
    { assert (Ew : window b' = window (roll c b0 t)) by (rewrite <- (step_window c b0 t), Es; reflexivity).
      rewrite Ew. destruct (roll_window c b0 t) as [[-> _]|[-> _]].
      - split; [lia|]. split; [lia|]. apply in_or_app. right. left. reflexivity.
      - destruct Hb0 as [->|(A & B & C)].
        + split; [lia|]. split; [lia|]. apply in_or_app. right. left. reflexivity.
        + split; [exact A|]. split; [lia|]. apply in_or_app. left. exact C. }
    assert (Hall : forall k1 b1, In (k1, b1) (insert k b' (buckets st)) ->
              last_cleanup st - window b1 < 2 * dur c /\ window b1 <= t
              /\ In (k1, window b1) (hist ++ [(k, t)])).
    { intros k1 b1 I1. apply insert_in in I1. destruct I1 as [[-> ->]|I1]; [exact Hb'|].
      destruct (Hb k1 b1 I1) as (A & B & C). split; [exact A|]. split; [lia|]. apply in_or_app. left. exact C. }
    unfold TI. destruct ok; cbn [andb].
    - destruct (Z.leb_spec (2 * dur c) (sat_sub t (last_cleanup st))) as [Cl|Cl]; cbn [last_cleanup buckets].
      + split; [|intros _; lia]. split; [lia|].
        intros k1 b1 I1. apply filter_In in I1. destruct I1 as [I1 Kp].
        destruct (Hall k1 b1 I1) as (_ & B & C). unfold keep in Kp. cbn [snd] in Kp.
        split; [unfold sat_sub in Kp; lia|]. split; assumption.
      + split; [|intros _; unfold sat_sub in Cl; lia]. split; [lia | exact Hall].
    - cbn [last_cleanup buckets]. split; [|discriminate]. split; [lia | exact Hall].
  Qed.

  Lemma TI_run : forall h st hist T, TI st hist T -> hist_sorted_from T h ->
    TI (lfinal c st h) (hist ++ h) (hist_last T h).
  Proof.
    induction h as [|[k t] r IH]; intros st hist T HI Hs.
    - cbn [lfinal hist_last]. rewrite app_nil_r. exact HI.
    - cbn [hist_sorted_from] in Hs. destruct Hs as [HT Hs].
      cbn [lfinal hist_last].
      replace (hist ++ (k, t) :: r) with ((hist ++ [(k, t)]) ++ r) by (rewrite <- app_assoc; reflexivity).
      apply IH; [|exact Hs]. apply (TI_step st hist T k t HI HT).
  Qed.

  (* after every admitted attempt at time t each tracked key has a window start - a time
     at which that key attempted - later than t - 4 * duration *)
  Theorem tracked_recent t0 h1 k t :
    hist_sorted_from t0 (h1 ++ [(k, t)]) ->
    let st := lfinal c (linit t0) h1 in
    snd (enqueue c st k t) = true ->
    forall k', In k' (tracked (fst (enqueue c st k t))) ->
    exists t', In (k', t') (h1 ++ [(k, t)]) /\ t - 4 * dur c < t' <= t.
  Proof.
    intros Hs st Hok k' Hin. apply hist_sorted_app in Hs. destruct Hs as [Hs1 Hs2].
    cbn [hist_sorted_from] in Hs2. destruct Hs2 as [HT _].
    assert (T0 : TI (linit t0) [] t0) by (split; [cbn; lia | intros ? ? []]).
    pose proof (TI_run h1 (linit t0) [] t0 T0 Hs1) as T1. cbn [app] in T1. fold st in T1.
    destruct (TI_step st h1 _ k t T1 HT) as [[Hlc Hb] Hcl]. specialize (Hcl Hok).
    unfold tracked in Hin. apply in_map_iff in Hin. destruct Hin as ([k1 b1] & E & I1).
    cbn [fst] in E. subst k1. destruct (Hb k' b1 I1) as (A & B & C).
    exists (window b1). split; [exact C | lia].
  Qed.
End Multi.

(* an idle key is admitted again, whatever the other keys did *)
Theorem idle_readmitted c t0 h1 k t : good_cfg c ->
  hist_sorted_from t0 (h1 ++ [(k, t)]) ->
  (forall t', In (k, t') h1 -> t' + 2 * dur c <= t) ->
  snd (enqueue c (lfinal c (linit t0) h1) k t) = true.
Proof.
  intros G Hs Hidle. pose proof (good_Dpos c G) as Dp.
  pose proof (attempts_sorted k t0 _ Hs) as Hso. rewrite attempts_of_app in Hso.
  replace (attempts_of k [(k, t)]) with [t] in Hso
    by (unfold attempts_of; cbn [filter fst]; rewrite Z.eqb_refl; reflexivity).
  apply hist_sorted_app in Hs. destruct Hs as [Hs1 Hs2]. cbn [hist_sorted_from] in Hs2.
  destruct (rel_run c Dp k h1 (linit t0) None t0 I (or_introl eq_refl) Hs1) as (_ & HR & Hsort).
  destruct (enq_rel c Dp k _ _ _ k t Hsort HR (proj1 Hs2)) as [_ Hk].
  rewrite Z.eqb_refl in Hk. destruct Hk as [-> _].
  apply (idle_readmitted_one_key c G _ t0 t Hso).
  intros x Ix. apply Hidle. apply attempts_in. exact Ix.
Qed.

(* ================= the limiter-level forms ================= *)
Lemma decisions_for_lrun k c st h :
  decisions_for k c st h
  = map (fun x => fst (snd x)) (filter (fun x => fst (fst x) =? k) (combine h (lrun c st h))).
Proof.
  revert st; induction h as [|[k' t] r IH]; intros st; [reflexivity|].
  cbn [decisions_for lrun]. destruct (enqueue c st k' t) as [st' ok].
  cbn [combine filter fst snd]. destruct (k' =? k); cbn [map fst snd]; rewrite IH; reflexivity.
Qed.

Lemma count_adm_trace lo hi c ob ts :
  count_adm lo hi ts (key_run c ob ts) = adm_between lo hi (key_trace c ob ts).
Proof.
  revert ob; induction ts as [|t r IH]; intros ob; [reflexivity|].
  cbn [key_run key_trace]. destruct (key_step c ob t) as [b' ok].
  unfold adm_between. cbn [count_adm cnt ev_ok ev_t]. rewrite IH. reflexivity.
Qed.

Theorem two_windows_limiter c t0 h k a : good_cfg c -> hist_sorted_from t0 h ->
  count_adm a (a + dur c) (attempts_of k h) (decisions_for k c (linit t0) h) <= 2 * limit c.
Proof.
  intros G Hs. rewrite (independent c (good_Dpos c G) t0 h k Hs), count_adm_trace.
  apply (two_windows_bound c G _ t0). apply attempts_sorted. exact Hs.
Qed.

(* ================= non-vacuity and findings, by computation ================= *)
Lemma good_example : good_cfg (Cfg 3 10000000000).
Proof. unfold good_cfg, max_dur, nanos_per_sec; cbn [limit dur]; lia. Qed.
Lemma good_example_ms : good_cfg (Cfg 60 1500000).
Proof. unfold good_cfg, max_dur, nanos_per_sec; cbn [limit dur]; lia. Qed.

(* three keys, the cleanup removing key 7 while key 3 and key 5 go on: the decisions for
   key 7 are those of the one-key machine on [0; 5e8; 41e8] *)
Example independent_nonvacuous :
  let c := Cfg 1 1000000000 in
  let h := [(7, 0); (3, 0); (7, 500000000); (3, 2000000000); (5, 2100000000); (7, 4100000000); (7, 4100000001)] in
  decisions_for 7 c (linit 0) h = [true; false; true; false]
  /\ key_run c None (attempts_of 7 h) = [true; false; true; false]
  /\ map snd (lrun c (linit 0) h) = [[7]; [3; 7]; [3; 7]; [3]; [3; 5]; [7]; [7]].
Proof. vm_compute. auto. Qed.

(* the window bound is reached: limit 3, three admissions counted in window 0; and 2*limit is
   reached within one duration: 3 at the very end of one window, 3 at the very end of the next *)
Example window_bound_reached :
  adm 0 (key_trace (Cfg 3 10000000000) None [0; 0; 0; 0]) = 3.
Proof. vm_compute. reflexivity. Qed.
Example two_windows_bound_reached :
  let c := Cfg 3 10000000000 in
  let ts := [0; 0; 0; 10000000000; 19900000000; 19900000000; 19900000000; 20000000000;
             29900000000; 29900000000; 29900000000] in
  key_run c None ts = [true; true; true; false; true; true; true; false; true; true; true]
  /\ adm_between 19900000000 (19900000000 + dur c) (key_trace c None ts) = 2 * limit c.
Proof. vm_compute. auto. Qed.

(* rejected attempts are not free of side effects: the roll they store moves the window, so
   deleting a rejected attempt can change a later decision (here to the client's disadvantage) *)
Example reject_moves_window :
  let c := Cfg 1 10000000000 in
  key_run c None [0; 10000000000; 19000000000] = [true; false; true]
  /\ key_run c None [0; 19000000000] = [true; false].
Proof. vm_compute. auto. Qed.

(* the 4 * duration bound is tight up to 2 ns: key 1 attempted at 1 ns, is kept by the cleanup
   at 2 s and is still tracked after the admitted attempt at 4 s - 1 ns *)
Example tracked_tight :
  let c := Cfg 1 1000000000 in
  lrun c (linit 0) [(1, 1); (2, 2000000000); (3, 3999999999)]
  = [(true, [1]); (true, [1; 2]); (true, [1; 2; 3])].
Proof. vm_compute. reflexivity. Qed.

(* the cleanup only runs on ADMITTED attempts: after the rejected attempt of key 2 at
   4 * duration + 100 ns (rejected because 1 - 1.02e-8 rounds to 1.0f32) key 1 is still
   tracked although its only attempt lies more than four durations back *)
Example tracked_stale_after_reject :
  let c := Cfg 1 10000000000 in
  lrun c (linit 0) [(1, 0); (2, 19999999999); (2, 39999999998); (2, 40000000100)]
  = [(true, [1]); (true, [1; 2]); (false, [1; 2]); (false, [1; 2])].
Proof. vm_compute. reflexivity. Qed.

(* ---- saturation (known finding): beyond 2^24 the f32 counter stops counting ---- *)
Lemma bucket_SF_inj a b :
  window a = window b -> sf (last a) = sf (last b) -> sf (current a) = sf (current b) -> a = b.
Proof.
  destruct a as [wa la ca], b as [wb lb cb]. cbn [window last current].
  intros -> El Ec. apply sf_inj in El. apply sf_inj in Ec. subst. reflexivity.
Qed.

Definition sat_cfg : cfg := Cfg 16777218 10000000000.          (* limit = 2^24 + 2 *)
Definition sat_bucket : bucket := Bk 0 fzero (of_Z 16777216).  (* current = 2^24 *)

Lemma sat_step : bucket_step sat_cfg sat_bucket 0 = (sat_bucket, true).
Proof.
  assert (E2 : snd (bucket_step sat_cfg sat_bucket 0) = true) by (vm_compute; reflexivity).
  assert (E1 : fst (bucket_step sat_cfg sat_bucket 0) = sat_bucket).
  { apply bucket_SF_inj; vm_compute; reflexivity. }
  destruct (bucket_step sat_cfg sat_bucket 0) as [b ok]. cbn [fst snd] in *. subst. reflexivity.
Qed.

Theorem saturates n : key_run sat_cfg (Some sat_bucket) (repeat 0 n) = repeat true n.
Proof.
  induction n as [|n IH]; [reflexivity|]. cbn [repeat key_run]. unfold key_step.
  rewrite sat_step. rewrite IH. reflexivity.
Qed.
