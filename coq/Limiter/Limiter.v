(* The multi-key limiter of passage-protocol/src/rate_limiter.rs: buckets per key (an
   association list kept sorted by key), the time of the last cleanup and the cleanup rule.
   Definitions only. *)
From Passage Require Import Lib.Bytes Limiter.F32 Limiter.Bucket.

Record lstate := Ls { last_cleanup : Z; buckets : list (Z * bucket) }.

(* RateLimiter::new at time t0 *)
Definition linit (t0 : Z) : lstate := Ls t0 [].

Fixpoint lookup (k : Z) (l : list (Z * bucket)) : option bucket :=
  match l with
  | [] => None
  | (k', b) :: r => if k =? k' then Some b else lookup k r
  end.

(* insert or replace, keeping ascending key order *)
Fixpoint insert (k : Z) (b : bucket) (l : list (Z * bucket)) : list (Z * bucket) :=
  match l with
  | [] => [(k, b)]
  | (k', b') :: r =>
      if k =? k' then (k, b) :: r
      else if k <? k' then (k, b) :: l
      else (k', b') :: insert k b r
  end.

(* buckets.retain(|_, (last_visit, _, _)| now - last_visit < 2 * duration) *)
Definition keep (c : cfg) (now : Z) (kb : Z * bucket) : bool :=
  sat_sub now (window (snd kb)) <? 2 * dur c.

Definition enqueue (c : cfg) (st : lstate) (k : Z) (now : Z) : lstate * bool :=
  let b := match lookup k (buckets st) with Some b => b | None => fresh now end in
  let '(b', ok) := bucket_step c b now in
  let bs := insert k b' (buckets st) in
  if ok then
    if 2 * dur c <=? sat_sub now (last_cleanup st)
    then (Ls now (filter (keep c now) bs), true)
    else (Ls (last_cleanup st) bs, true)
  else (Ls (last_cleanup st) bs, false).

Definition tracked (st : lstate) : list Z := map fst (buckets st).

(* a whole history of (key, time) attempts: the decisions, and the tracked keys after each
   admitted attempt *)
Fixpoint lrun (c : cfg) (st : lstate) (h : list (Z * Z)) : list (bool * list Z) :=
  match h with
  | [] => []
  | (k, t) :: r => let '(st', ok) := enqueue c st k t in (ok, tracked st') :: lrun c st' r
  end.

(* the limiter after a history *)
Fixpoint lfinal (c : cfg) (st : lstate) (h : list (Z * Z)) : lstate :=
  match h with
  | [] => st
  | (k, t) :: r => lfinal c (fst (enqueue c st k t)) r
  end.

(* the decisions taken for key k, and the times of k's attempts *)
Fixpoint decisions_for (k : Z) (c : cfg) (st : lstate) (h : list (Z * Z)) : list bool :=
  match h with
  | [] => []
  | (k', t) :: r =>
      let '(st', ok) := enqueue c st k' t in
      if k' =? k then ok :: decisions_for k c st' r else decisions_for k c st' r
  end.
Definition attempts_of (k : Z) (h : list (Z * Z)) : list Z :=
  map snd (filter (fun kt => fst kt =? k) h).

(* admissions among (time, decision) pairs at times lo <= t <= hi *)
Fixpoint count_adm (lo hi : Z) (ts : list Z) (ds : list bool) : Z :=
  match ts, ds with
  | t :: tr, d :: dr => (if d && (lo <=? t) && (t <=? hi) then 1 else 0) + count_adm lo hi tr dr
  | _, _ => 0
  end.

Fixpoint hist_sorted_from (t0 : Z) (h : list (Z * Z)) : Prop :=
  match h with
  | [] => True
  | (_, t) :: r => t0 <= t /\ hist_sorted_from t r
  end.

Example two_keys :
  lrun (Cfg 1 1000000000) (linit 0) [(7, 0); (3, 0); (7, 500000000); (3, 2000000000); (3, 2000000001)]
  = [(true, [7]); (true, [3; 7]); (false, [3; 7]); (true, [3]); (false, [3])].
Proof. vm_compute. reflexivity. Qed.
