(* Passage.Spec.Hmac : executable HMAC-SHA-256 (RFC 2104, block size 64)
   over [list Z] bytes, built on Passage.Spec.Sha256.  No axioms. *)

Require Import ZArith String List Lia.
Require Import Passage.Spec.Sha256.
Import ListNotations.
Open Scope Z_scope.

(** SHA-256 block size in bytes. *)
Definition hmac_block : nat := 64.

(** RFC 2104 step (1): keys longer than the block size are hashed first; the
    result is zero-padded on the right to exactly one block.  Key bytes are
    reduced [mod 256] so the function is total on any [list Z]. *)
Definition hmac_key_block (key : list Z) : list Z :=
  let k := if Nat.ltb hmac_block (length key)
           then sha256 key
           else map (fun b => b mod 256) key in
  k ++ repeat 0 (hmac_block - length k).

Definition xor_pad (p : Z) (k : list Z) : list Z :=
  map (fun b => Z.lxor b p) k.

Definition hmac_ipad : Z := 0x36.
Definition hmac_opad : Z := 0x5c.

(** H ((K xor opad) ++ H ((K xor ipad) ++ msg)). *)
Definition hmac_sha256 (key msg : list Z) : list Z :=
  let k := hmac_key_block key in
  sha256 (xor_pad hmac_opad k ++ sha256 (xor_pad hmac_ipad k ++ msg)).

(* ------------------------------------------------------------------ *)
(** * RFC 4231 test cases *)

Example hmac_rfc4231_tc1 :
  hmac_sha256 (repeat 0x0b 20) (str "Hi There") =
  hex "b0344c61d8db38535ca8afceaf0bf12b881dc200c9833da726e9376c2e32cff7".
Proof. vm_compute; reflexivity. Qed.

Example hmac_rfc4231_tc2 :
  hmac_sha256 (str "Jefe") (str "what do ya want for nothing?") =
  hex "5bdcc146bf60754e6a042426089575c75a003f089d2739839dec58b964ec3843".
Proof. vm_compute; reflexivity. Qed.

Example hmac_rfc4231_tc3 :
  hmac_sha256 (repeat 0xaa 20) (repeat 0xdd 50) =
  hex "773ea91e36800e46854db8ebd09181a72959098b3ef8c122d9635514ced565fe".
Proof. vm_compute; reflexivity. Qed.

Example hmac_rfc4231_tc4 :
  hmac_sha256 (hex "0102030405060708090a0b0c0d0e0f10111213141516171819")
              (repeat 0xcd 50) =
  hex "82558a389a443c0ea4cc819899f2083a85f0faa3e578f8077a2e3ff46729665b".
Proof. vm_compute; reflexivity. Qed.

(** 131-byte key: exercises the hash-the-key-first branch. *)
Example hmac_rfc4231_tc6 :
  hmac_sha256 (repeat 0xaa 131)
              (str "Test Using Larger Than Block-Size Key - Hash Key First") =
  hex "60e431591ee0b67f0d8a26aacbf5b77f8e0bc6213728c5140546040f0ee37f54".
Proof. vm_compute; reflexivity. Qed.

Example hmac_rfc4231_tc7 :
  hmac_sha256 (repeat 0xaa 131)
              (str "This is a test using a larger than block-size key and a larger than block-size data. The key needs to be hashed before being used by the HMAC algorithm.") =
  hex "9b09ffa71b942fcb27635fbcd5b0e944bfdc63644f0713938a7f51535c3a35e2".
Proof. vm_compute; reflexivity. Qed.

(** The key block is always exactly one block long. *)
Lemma hmac_key_block_length : forall key, length (hmac_key_block key) = hmac_block.
Proof.
  intro key. unfold hmac_key_block, hmac_block.
  destruct (Nat.ltb 64 (length key)) eqn:E.
  - rewrite app_length, repeat_length, sha256_length. reflexivity.
  - apply Nat.ltb_ge in E.
    rewrite app_length, repeat_length, map_length. lia.
Qed.

(* ------------------------------------------------------------------ *)
(** * Shape lemmas *)

Lemma hmac_sha256_length : forall k m, length (hmac_sha256 k m) = 32%nat.
Proof. intros k m. unfold hmac_sha256. apply sha256_length. Qed.

Lemma hmac_sha256_bytes :
  forall k m, Forall (fun b => 0 <= b < 256) (hmac_sha256 k m).
Proof. intros k m. unfold hmac_sha256. apply sha256_bytes. Qed.

Print Assumptions hmac_key_block_length.
Print Assumptions hmac_sha256_length.
Print Assumptions hmac_sha256_bytes.
