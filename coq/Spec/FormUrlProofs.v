(* Passage.Spec.FormUrlProofs - facts about the urlencoded codec of Spec/FormUrl.v:
   decoding inverts encoding for every byte string, the encoding uses only the bytes
   A-Z a-z 0-9 * - . _ + %, every '%' in it is a valid escape, and how the splitting
   functions behave on strings built by concatenation. *)
From Passage Require Import Lib.Bytes Spec.FormUrl.

(* ---------------------------------------------------------------- all 256 bytes *)
Definition all_bytes : list Z := map Z.of_nat (seq 0 256).

Lemma byte_forall (P : Z -> bool) :
  forallb P all_bytes = true -> forall x, is_byte x -> P x = true.
Proof.
  intros H x Hx. rewrite forallb_forall in H. apply H.
  unfold all_bytes. apply in_map_iff. exists (Z.to_nat x). split.
  - unfold is_byte in Hx. lia.
  - apply in_seq. unfold is_byte in Hx. lia.
Qed.

(* the alphabet of an encoding *)
Definition enc_char (c : Z) : bool := unchanged c || (c =? 43) || (c =? 37).

Lemma enc_byte_chars x : is_byte x -> forallb enc_char (enc_byte x) = true.
Proof. revert x. apply (byte_forall (fun x => forallb enc_char (enc_byte x))). vm_compute. reflexivity. Qed.

Lemma enc_char_inert c : enc_char c = true -> inert c = true.
Proof.
  unfold enc_char, inert, unchanged, inrange. intros H. lia.
Qed.

Lemma enc_char_byte c : enc_char c = true -> is_byte c.
Proof. unfold enc_char, unchanged, inrange, is_byte. intros H. lia. Qed.

Lemma forallb_flat_map {A B} (P : B -> bool) (f : A -> list B) l :
  (forall x, In x l -> forallb P (f x) = true) -> forallb P (flat_map f l) = true.
Proof.
  induction l as [|a l IH]; intros H; cbn [flat_map]; [reflexivity|].
  rewrite forallb_app, H by (left; reflexivity). cbn [andb]. apply IH. intros x Hx. apply H. right. exact Hx.
Qed.

Lemma enc_chars b : wf_bytes b -> forallb enc_char (enc b) = true.
Proof.
  intros H. unfold enc. apply forallb_flat_map. intros x Hx. apply enc_byte_chars.
  unfold wf_bytes in H. rewrite Forall_forall in H. apply H. exact Hx.
Qed.

Lemma forallb_impl {A} (P Q : A -> bool) l :
  (forall x, P x = true -> Q x = true) -> forallb P l = true -> forallb Q l = true.
Proof.
  intros HPQ H. rewrite forallb_forall in *. intros x Hx. apply HPQ, H, Hx.
Qed.

Lemma enc_inert b : wf_bytes b -> forallb inert (enc b) = true.
Proof. intros H. apply (forallb_impl enc_char); [exact enc_char_inert | apply enc_chars, H]. Qed.

Lemma enc_wf b : wf_bytes b -> wf_bytes (enc b).
Proof.
  intros H. apply enc_chars in H. unfold wf_bytes. rewrite Forall_forall. rewrite forallb_forall in H.
  intros x Hx. apply enc_char_byte, H, Hx.
Qed.

Lemma enc_app a b : enc (a ++ b) = enc a ++ enc b.
Proof. unfold enc. apply flat_map_app. Qed.

(* bytes that stay: the encoding of a string over the unchanged set is the string itself *)
Lemma enc_unchanged_id l : forallb unchanged l = true -> enc l = l.
Proof.
  induction l as [|x l IH]; [reflexivity|]. cbn [forallb]. intros H. apply andb_true_iff in H as [Hx Hl].
  unfold enc in *. cbn [flat_map]. unfold enc_byte at 1. rewrite Hx. cbn [app]. f_equal. apply IH, Hl.
Qed.

(* ---------------------------------------------------------------- decoding inverts encoding *)
Lemma pct_dec_plain b r : (b =? 37) = false -> pct_dec (b :: r) = b :: pct_dec r.
Proof. intros H. cbn [pct_dec]. rewrite H. reflexivity. Qed.

Lemma pct_dec_escape h lo x y r : hexval_any h = Some x -> hexval_any lo = Some y ->
  pct_dec (37 :: h :: lo :: r) = (x * 16 + y) :: pct_dec r.
Proof. intros Hh Hl. cbn [pct_dec]. change (37 =? 37) with true. cbv iota. rewrite Hh, Hl. reflexivity. Qed.

(* per byte: the three shapes of enc_byte decode back to the byte *)
Definition dec_byte_ok (x : Z) : bool :=
  if unchanged x then negb (x =? 37) && negb (x =? 43)
  else if x =? 32 then true
  else match hexval_any (hexdig_upper (x / 16)), hexval_any (hexdig_upper (x mod 16)) with
       | Some a, Some b => (a * 16 + b =? x) && negb (hexdig_upper (x / 16) =? 43) && negb (hexdig_upper (x mod 16) =? 43)
       | _, _ => false
       end.

Lemma dec_byte_ok_all x : is_byte x -> dec_byte_ok x = true.
Proof. revert x. apply (byte_forall dec_byte_ok). vm_compute. reflexivity. Qed.

Lemma dec_enc_byte x r : is_byte x ->
  pct_dec (plus_to_space (enc_byte x ++ r)) = x :: pct_dec (plus_to_space r).
Proof.
  intros Hx. pose proof (dec_byte_ok_all x Hx) as Hok. unfold dec_byte_ok in Hok.
  unfold enc_byte. destruct (unchanged x) eqn:Eu.
  - apply andb_true_iff in Hok as [H37 H43]. apply negb_true_iff in H37, H43.
    cbn [app plus_to_space map]. rewrite H43. apply pct_dec_plain. exact H37.
  - destruct (x =? 32) eqn:E32.
    + apply Z.eqb_eq in E32. subst x. cbn [app plus_to_space map]. change (43 =? 43) with true. cbv iota.
      apply pct_dec_plain. reflexivity.
    + destruct (hexval_any (hexdig_upper (x / 16))) as [a|] eqn:Ea; [|discriminate].
      destruct (hexval_any (hexdig_upper (x mod 16))) as [b|] eqn:Eb; [|discriminate].
      apply andb_true_iff in Hok as [Hok Hb43]. apply andb_true_iff in Hok as [Hv Ha43].
      apply negb_true_iff in Ha43, Hb43. apply Z.eqb_eq in Hv.
      cbn [app plus_to_space map]. change (37 =? 43) with false. cbv iota. rewrite Ha43, Hb43.
      rewrite (pct_dec_escape _ _ a b _ Ea Eb). rewrite Hv. reflexivity.
Qed.

Lemma dec_enc_app b : wf_bytes b -> forall r,
  pct_dec (plus_to_space (enc b ++ r)) = b ++ pct_dec (plus_to_space r).
Proof.
  induction 1 as [|x l Hx Hl IH]; intros r; [reflexivity|].
  change (enc (x :: l)) with (enc_byte x ++ enc l). rewrite <- app_assoc.
  rewrite dec_enc_byte by exact Hx. rewrite IH. reflexivity.
Qed.

Theorem dec_enc b : wf_bytes b -> dec (enc b) = b.
Proof.
  intros H. unfold dec. rewrite <- (app_nil_r (enc b)). rewrite dec_enc_app by exact H.
  cbn [plus_to_space map pct_dec]. apply app_nil_r.
Qed.

Corollary enc_injective a b : wf_bytes a -> wf_bytes b -> enc a = enc b -> a = b.
Proof. intros Ha Hb E. rewrite <- (dec_enc a Ha), <- (dec_enc b Hb), E. reflexivity. Qed.

(* ---------------------------------------------------------------- escapes are well formed *)
Lemma pct_ok_st_app a : forall st b, pct_ok_st st a = true -> pct_ok_st st (a ++ b) = pct_ok b.
Proof.
  induction a as [|x a IH]; intros st b H.
  - destruct st; [reflexivity | discriminate H].
  - cbn [app]. destruct st as [|k].
    + cbn [pct_ok_st] in *. destruct (x =? 37); apply IH; exact H.
    + cbn [pct_ok_st] in *. apply andb_true_iff in H as [Hh Hr]. rewrite Hh. cbn [andb]. apply IH, Hr.
Qed.

Lemma pct_ok_app a b : pct_ok a = true -> pct_ok (a ++ b) = pct_ok b.
Proof. apply pct_ok_st_app. Qed.

Lemma enc_byte_pct_ok x : is_byte x -> pct_ok (enc_byte x) = true.
Proof. revert x. apply (byte_forall (fun x => pct_ok (enc_byte x))). vm_compute. reflexivity. Qed.

Lemma enc_pct_ok b : wf_bytes b -> pct_ok (enc b) = true.
Proof.
  induction 1 as [|x l Hx Hl IH]; [reflexivity|].
  change (enc (x :: l)) with (enc_byte x ++ enc l). rewrite pct_ok_app by (apply enc_byte_pct_ok, Hx). exact IH.
Qed.

(* ---------------------------------------------------------------- splitting *)
Definition lacks (c : Z) (l : bytes) : bool := forallb (fun b => negb (b =? c)) l.

Lemma lacks_app c a b : lacks c (a ++ b) = lacks c a && lacks c b.
Proof. apply forallb_app. Qed.

Lemma lacks_has c l : lacks c l = negb (has_byte c l).
Proof.
  unfold lacks, has_byte. induction l as [|x l IH]; [reflexivity|].
  cbn [forallb existsb]. rewrite IH, negb_orb. reflexivity.
Qed.

Lemma inert_lacks c l : inert c = false -> forallb inert l = true -> lacks c l = true.
Proof.
  intros Hc H. unfold lacks. rewrite forallb_forall in *. intros x Hx. specialize (H x Hx).
  apply negb_true_iff. apply Z.eqb_neq. intros ->. congruence.
Qed.

Lemma split_first_none c l : lacks c l = true -> split_first c l = (l, None).
Proof.
  induction l as [|x l IH]; [reflexivity|]. cbn [lacks forallb]. intros H.
  apply andb_true_iff in H as [Hx Hl]. apply negb_true_iff in Hx.
  cbn [split_first]. rewrite Hx. unfold lacks in IH. rewrite (IH Hl). reflexivity.
Qed.

Lemma split_first_app c a r : lacks c a = true -> split_first c (a ++ c :: r) = (a, Some r).
Proof.
  induction a as [|x a IH]; cbn [lacks forallb app]; intros H.
  - cbn [split_first]. rewrite Z.eqb_refl. reflexivity.
  - apply andb_true_iff in H as [Hx Ha]. apply negb_true_iff in Hx.
    cbn [split_first]. rewrite Hx. unfold lacks in IH. rewrite (IH Ha). reflexivity.
Qed.

Lemma split_on_none c l : lacks c l = true -> split_on c l = [l].
Proof.
  induction l as [|x l IH]; [reflexivity|]. cbn [lacks forallb]. intros H.
  apply andb_true_iff in H as [Hx Hl]. apply negb_true_iff in Hx.
  cbn [split_on]. rewrite Hx. unfold lacks in IH. rewrite (IH Hl). reflexivity.
Qed.

Lemma split_on_app c a r : lacks c a = true -> split_on c (a ++ c :: r) = a :: split_on c r.
Proof.
  induction a as [|x a IH]; cbn [lacks forallb app]; intros H.
  - cbn [split_on]. rewrite Z.eqb_refl. reflexivity.
  - apply andb_true_iff in H as [Hx Ha]. apply negb_true_iff in Hx.
    cbn [split_on]. rewrite Hx. unfold lacks in IH. rewrite (IH Ha). reflexivity.
Qed.

(* one serialised pair parses back: key over the unchanged set, any value *)
Lemma parse_pair_enc k v : wf_bytes k -> wf_bytes v ->
  parse_pair (enc k ++ 61 :: enc v) = (k, v).
Proof.
  intros Hk Hv. unfold parse_pair.
  rewrite split_first_app by (apply inert_lacks; [reflexivity | apply enc_inert, Hk]).
  rewrite !dec_enc by assumption. reflexivity.
Qed.
