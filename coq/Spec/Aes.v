(** * AES-128 forward cipher (FIPS 197), executable specification.

    Bytes are [Z] values intended in [0..255]; byte strings are [list Z].
    Every entry point normalises its input ([norm16]: pad with zeros /
    truncate to 16 elements, reduce each modulo 256) so that all functions
    are total, and the block function always returns exactly 16 bytes in
    range.

    Layout follows FIPS 197 section 3.4: the 16-byte state is kept as a
    flat list in input order, i.e. column-major, [state[r][c] = s(r + 4c)].
    A round key is the 16 bytes of four consecutive key-schedule words, so
    AddRoundKey is a plain bytewise xor of two 16-byte lists.

    Only the Coq standard library is used.  No axioms. *)

From Coq Require Import ZArith List Lia.
Import ListNotations.
Local Open Scope Z_scope.

(* ------------------------------------------------------------------ *)
(** ** Bytes and 16-byte normalisation *)

Definition is_byte (x : Z) : Prop := 0 <= x < 256.

(** Reduction to a byte.  Stated with [Z.land] rather than [mod] because
    it is several times cheaper under [vm_compute]; [byte_of_mod] shows
    it is the same function. *)
Definition byte_of (x : Z) : Z := Z.land x 255.

Lemma byte_of_mod : forall x, byte_of x = x mod 256.
Proof.
  intros x. unfold byte_of. change 255 with (Z.ones 8).
  rewrite Z.land_ones by lia. reflexivity.
Qed.

Lemma byte_of_range : forall x, 0 <= byte_of x < 256.
Proof.
  intros x. rewrite byte_of_mod. apply Z.mod_pos_bound. lia.
Qed.

Lemma byte_of_id : forall x, 0 <= x < 256 -> byte_of x = x.
Proof.
  intros x Hx. rewrite byte_of_mod. apply Z.mod_small. exact Hx.
Qed.

Definition norm16 (l : list Z) : list Z :=
  map byte_of (firstn 16 (l ++ repeat 0 16)).

Lemma firstn16_pad_length : forall (A : Type) (d : A) (l : list A),
  length (firstn 16 (l ++ repeat d 16)) = 16%nat.
Proof.
  intros A d l. rewrite firstn_length, app_length, repeat_length. lia.
Qed.

Lemma norm16_length : forall l, length (norm16 l) = 16%nat.
Proof.
  intros l. unfold norm16. rewrite map_length. apply firstn16_pad_length.
Qed.

Lemma norm16_bytes : forall l, Forall is_byte (norm16 l).
Proof.
  intros l. unfold norm16. apply Forall_forall. intros x Hx.
  apply in_map_iff in Hx. destruct Hx as [y [<- _]].
  apply byte_of_range.
Qed.

Lemma norm16_id : forall l,
  length l = 16%nat -> Forall is_byte l -> norm16 l = l.
Proof.
  intros l Hlen Hb. unfold norm16.
  assert (Hf : firstn 16 (l ++ repeat 0 16) = l).
  { rewrite firstn_app, Hlen, Nat.sub_diag, firstn_O, app_nil_r.
    rewrite <- Hlen. apply firstn_all. }
  rewrite Hf. clear Hf Hlen.
  induction Hb as [| x l' Hx Hb' IH]; cbn [map].
  - reflexivity.
  - rewrite byte_of_id by exact Hx. f_equal. exact IH.
Qed.

(* ------------------------------------------------------------------ *)
(** ** GF(2^8) arithmetic, polynomial x^8 + x^4 + x^3 + x + 1 (0x11b) *)

(** Multiplication by x (FIPS 197 section 4.2.1), for a byte argument. *)
Definition xtime (x : Z) : Z :=
  let y := 2 * x in
  if y <? 256 then y else Z.lxor (y - 256) 27.

(** General multiplication (shift-and-add, 8 steps); only used to
    cross-check the S-box table against its algebraic definition. *)
Fixpoint gf_mul_aux (n : nat) (a b acc : Z) : Z :=
  match n with
  | O => acc
  | S n' => gf_mul_aux n' (xtime a) (b / 2)
                       (if Z.odd b then Z.lxor acc a else acc)
  end.

Definition gf_mul (a b : Z) : Z := gf_mul_aux 8 a b 0.

(** Multiplicative inverse by exhaustive search, with 0 |-> 0. *)
Definition gf_inv (x : Z) : Z :=
  match find (fun y => gf_mul x y =? 1) (map Z.of_nat (seq 1 255)) with
  | Some y => y
  | None => 0
  end.

Definition rotl8 (x n : Z) : Z :=
  Z.lor (Z.shiftl x n) (Z.shiftr x (8 - n)) mod 256.

(** S-box, algebraic definition (FIPS 197 section 5.1.1): inverse in
    GF(2^8) followed by the affine transformation with constant 0x63. *)
Definition sbox_alg (x : Z) : Z :=
  let b := gf_inv x in
  Z.lxor (Z.lxor (Z.lxor (Z.lxor (Z.lxor b (rotl8 b 1)) (rotl8 b 2))
                         (rotl8 b 3)) (rotl8 b 4)) 99.

(* ------------------------------------------------------------------ *)
(** ** S-box *)

(** FIPS 197 Figure 7, row-major: entry [16*x + y] is the value for byte
    [xy]. *)
Definition sbox_table : list Z :=
  [
    99; 124; 119; 123; 242; 107; 111; 197;  48;   1; 103;  43; 254; 215; 171; 118;
   202; 130; 201; 125; 250;  89;  71; 240; 173; 212; 162; 175; 156; 164; 114; 192;
   183; 253; 147;  38;  54;  63; 247; 204;  52; 165; 229; 241; 113; 216;  49;  21;
     4; 199;  35; 195;  24; 150;   5; 154;   7;  18; 128; 226; 235;  39; 178; 117;
     9; 131;  44;  26;  27; 110;  90; 160;  82;  59; 214; 179;  41; 227;  47; 132;
    83; 209;   0; 237;  32; 252; 177;  91; 106; 203; 190;  57;  74;  76;  88; 207;
   208; 239; 170; 251;  67;  77;  51; 133;  69; 249;   2; 127;  80;  60; 159; 168;
    81; 163;  64; 143; 146; 157;  56; 245; 188; 182; 218;  33;  16; 255; 243; 210;
   205;  12;  19; 236;  95; 151;  68;  23; 196; 167; 126;  61; 100;  93;  25; 115;
    96; 129;  79; 220;  34;  42; 144; 136;  70; 238; 184;  20; 222;  94;  11; 219;
   224;  50;  58;  10;  73;   6;  36;  92; 194; 211; 172;  98; 145; 149; 228; 121;
   231; 200;  55; 109; 141; 213;  78; 169; 108;  86; 244; 234; 101; 122; 174;   8;
   186; 120;  37;  46;  28; 166; 180; 198; 232; 221; 116;  31;  75; 189; 139; 138;
   112;  62; 181; 102;  72;   3; 246;  14;  97;  53;  87; 185; 134; 193;  29; 158;
   225; 248; 152;  17; 105; 217; 142; 148; 155;  30; 135; 233; 206;  85;  40; 223;
   140; 161; 137;  13; 191; 230;  66; 104;  65; 153;  45;  15; 176;  84; 187;  22
  ].

(** Fast lookup: the same table as a pattern match, which the kernel
    compiles to a depth-8 decision tree on the binary representation.
    Out-of-range arguments map to 0. *)
Definition sbox (x : Z) : Z :=
  match x with
  | 0 => 99
  | 1 => 124
  | 2 => 119
  | 3 => 123
  | 4 => 242
  | 5 => 107
  | 6 => 111
  | 7 => 197
  | 8 => 48
  | 9 => 1
  | 10 => 103
  | 11 => 43
  | 12 => 254
  | 13 => 215
  | 14 => 171
  | 15 => 118
  | 16 => 202
  | 17 => 130
  | 18 => 201
  | 19 => 125
  | 20 => 250
  | 21 => 89
  | 22 => 71
  | 23 => 240
  | 24 => 173
  | 25 => 212
  | 26 => 162
  | 27 => 175
  | 28 => 156
  | 29 => 164
  | 30 => 114
  | 31 => 192
  | 32 => 183
  | 33 => 253
  | 34 => 147
  | 35 => 38
  | 36 => 54
  | 37 => 63
  | 38 => 247
  | 39 => 204
  | 40 => 52
  | 41 => 165
  | 42 => 229
  | 43 => 241
  | 44 => 113
  | 45 => 216
  | 46 => 49
  | 47 => 21
  | 48 => 4
  | 49 => 199
  | 50 => 35
  | 51 => 195
  | 52 => 24
  | 53 => 150
  | 54 => 5
  | 55 => 154
  | 56 => 7
  | 57 => 18
  | 58 => 128
  | 59 => 226
  | 60 => 235
  | 61 => 39
  | 62 => 178
  | 63 => 117
  | 64 => 9
  | 65 => 131
  | 66 => 44
  | 67 => 26
  | 68 => 27
  | 69 => 110
  | 70 => 90
  | 71 => 160
  | 72 => 82
  | 73 => 59
  | 74 => 214
  | 75 => 179
  | 76 => 41
  | 77 => 227
  | 78 => 47
  | 79 => 132
  | 80 => 83
  | 81 => 209
  | 82 => 0
  | 83 => 237
  | 84 => 32
  | 85 => 252
  | 86 => 177
  | 87 => 91
  | 88 => 106
  | 89 => 203
  | 90 => 190
  | 91 => 57
  | 92 => 74
  | 93 => 76
  | 94 => 88
  | 95 => 207
  | 96 => 208
  | 97 => 239
  | 98 => 170
  | 99 => 251
  | 100 => 67
  | 101 => 77
  | 102 => 51
  | 103 => 133
  | 104 => 69
  | 105 => 249
  | 106 => 2
  | 107 => 127
  | 108 => 80
  | 109 => 60
  | 110 => 159
  | 111 => 168
  | 112 => 81
  | 113 => 163
  | 114 => 64
  | 115 => 143
  | 116 => 146
  | 117 => 157
  | 118 => 56
  | 119 => 245
  | 120 => 188
  | 121 => 182
  | 122 => 218
  | 123 => 33
  | 124 => 16
  | 125 => 255
  | 126 => 243
  | 127 => 210
  | 128 => 205
  | 129 => 12
  | 130 => 19
  | 131 => 236
  | 132 => 95
  | 133 => 151
  | 134 => 68
  | 135 => 23
  | 136 => 196
  | 137 => 167
  | 138 => 126
  | 139 => 61
  | 140 => 100
  | 141 => 93
  | 142 => 25
  | 143 => 115
  | 144 => 96
  | 145 => 129
  | 146 => 79
  | 147 => 220
  | 148 => 34
  | 149 => 42
  | 150 => 144
  | 151 => 136
  | 152 => 70
  | 153 => 238
  | 154 => 184
  | 155 => 20
  | 156 => 222
  | 157 => 94
  | 158 => 11
  | 159 => 219
  | 160 => 224
  | 161 => 50
  | 162 => 58
  | 163 => 10
  | 164 => 73
  | 165 => 6
  | 166 => 36
  | 167 => 92
  | 168 => 194
  | 169 => 211
  | 170 => 172
  | 171 => 98
  | 172 => 145
  | 173 => 149
  | 174 => 228
  | 175 => 121
  | 176 => 231
  | 177 => 200
  | 178 => 55
  | 179 => 109
  | 180 => 141
  | 181 => 213
  | 182 => 78
  | 183 => 169
  | 184 => 108
  | 185 => 86
  | 186 => 244
  | 187 => 234
  | 188 => 101
  | 189 => 122
  | 190 => 174
  | 191 => 8
  | 192 => 186
  | 193 => 120
  | 194 => 37
  | 195 => 46
  | 196 => 28
  | 197 => 166
  | 198 => 180
  | 199 => 198
  | 200 => 232
  | 201 => 221
  | 202 => 116
  | 203 => 31
  | 204 => 75
  | 205 => 189
  | 206 => 139
  | 207 => 138
  | 208 => 112
  | 209 => 62
  | 210 => 181
  | 211 => 102
  | 212 => 72
  | 213 => 3
  | 214 => 246
  | 215 => 14
  | 216 => 97
  | 217 => 53
  | 218 => 87
  | 219 => 185
  | 220 => 134
  | 221 => 193
  | 222 => 29
  | 223 => 158
  | 224 => 225
  | 225 => 248
  | 226 => 152
  | 227 => 17
  | 228 => 105
  | 229 => 217
  | 230 => 142
  | 231 => 148
  | 232 => 155
  | 233 => 30
  | 234 => 135
  | 235 => 233
  | 236 => 206
  | 237 => 85
  | 238 => 40
  | 239 => 223
  | 240 => 140
  | 241 => 161
  | 242 => 137
  | 243 => 13
  | 244 => 191
  | 245 => 230
  | 246 => 66
  | 247 => 104
  | 248 => 65
  | 249 => 153
  | 250 => 45
  | 251 => 15
  | 252 => 176
  | 253 => 84
  | 254 => 187
  | 255 => 22
  | _ => 0
  end.

Lemma sbox_table_length : length sbox_table = 256%nat.
Proof. reflexivity. Qed.

(** The match agrees with the literal table ... *)
Lemma sbox_table_lookup :
  map sbox (map Z.of_nat (seq 0 256)) = sbox_table.
Proof. vm_compute. reflexivity. Qed.

Lemma sbox_nth : forall x, 0 <= x < 256 ->
  sbox x = nth (Z.to_nat x) sbox_table 0.
Proof.
  intros x Hx. rewrite <- sbox_table_lookup.
  rewrite nth_indep with (d' := sbox (Z.of_nat 0))
    by (rewrite !map_length, seq_length; lia).
  rewrite map_nth, map_nth, seq_nth by lia. f_equal. lia.
Qed.

(** ... and the literal table agrees with the algebraic definition. *)
Lemma sbox_table_alg :
  sbox_table = map sbox_alg (map Z.of_nat (seq 0 256)).
Proof. vm_compute. reflexivity. Qed.

Lemma sbox_byte : forall x, is_byte (sbox x).
Proof.
  intros x. unfold is_byte.
  destruct (Z_lt_ge_dec x 0) as [Hn | Hn].
  - destruct x; try lia. cbn. lia.
  - destruct (Z_lt_ge_dec x 256) as [Hlt | Hge].
    + rewrite sbox_nth by lia.
      assert (H : Forall is_byte sbox_table).
      { apply Forall_forall. intros y Hy.
        assert (Hb : forallb (fun y => (0 <=? y) && (y <? 256))%bool
                             sbox_table = true) by (vm_compute; reflexivity).
        rewrite forallb_forall in Hb. specialize (Hb y Hy).
        unfold is_byte. apply andb_prop in Hb. destruct Hb as [H1 H2].
        apply Z.leb_le in H1. apply Z.ltb_lt in H2. lia. }
      rewrite Forall_forall in H. apply H. apply nth_In.
      rewrite sbox_table_length. lia.
    + assert (Hs : sbox x = 0).
      { destruct x as [| p |]; try lia.
        do 8 (destruct p as [p | p |]; try lia); reflexivity. }
      rewrite Hs. lia.
Qed.

(* ------------------------------------------------------------------ *)
(** ** Round transformations (FIPS 197 section 5.1) *)

Fixpoint xor_bytes (a b : list Z) : list Z :=
  match a, b with
  | x :: a', y :: b' => Z.lxor x y :: xor_bytes a' b'
  | _, _ => []
  end.

Definition add_round_key (s k : list Z) : list Z := xor_bytes s k.

Definition sub_bytes (s : list Z) : list Z := map sbox s.

(** Row [r] is rotated left by [r]: [out(r + 4c) = in(r + 4((c + r) mod 4))]. *)
Definition shift_rows (s : list Z) : list Z :=
  match s with
  | [s0; s1; s2; s3; s4; s5; s6; s7; s8; s9; s10; s11; s12; s13; s14; s15] =>
      [s0; s5; s10; s15; s4; s9; s14; s3; s8; s13; s2; s7; s12; s1; s6; s11]
  | _ => s
  end.

(** One column times the fixed matrix [[2 3 1 1] [1 2 3 1] [1 1 2 3] [3 1 1 2]],
    using [2a + 3b = xtime (a + b) + b], prepended to [tl]. *)
Definition mix_column (a0 a1 a2 a3 : Z) (tl : list Z) : list Z :=
  let t := Z.lxor (Z.lxor a0 a1) (Z.lxor a2 a3) in
  Z.lxor (Z.lxor a0 t) (xtime (Z.lxor a0 a1)) ::
  Z.lxor (Z.lxor a1 t) (xtime (Z.lxor a1 a2)) ::
  Z.lxor (Z.lxor a2 t) (xtime (Z.lxor a2 a3)) ::
  Z.lxor (Z.lxor a3 t) (xtime (Z.lxor a3 a0)) :: tl.

Definition mix_columns (s : list Z) : list Z :=
  match s with
  | [s0; s1; s2; s3; s4; s5; s6; s7; s8; s9; s10; s11; s12; s13; s14; s15] =>
      mix_column s0 s1 s2 s3
        (mix_column s4 s5 s6 s7
           (mix_column s8 s9 s10 s11
              (mix_column s12 s13 s14 s15 [])))
  | _ => s
  end.

Definition aes_round (s k : list Z) : list Z :=
  add_round_key (mix_columns (shift_rows (sub_bytes s))) k.

Definition aes_final_round (s k : list Z) : list Z :=
  add_round_key (shift_rows (sub_bytes s)) k.

(** All rounds after the initial AddRoundKey: every round key but the
    last drives a full round, the last one the final (MixColumns-free)
    round. *)
Fixpoint aes_rounds (s : list Z) (rks : list (list Z)) : list Z :=
  match rks with
  | [] => s
  | k :: rest =>
      match rest with
      | [] => aes_final_round s k
      | _ :: _ => aes_rounds (aes_round s k) rest
      end
  end.

(* ------------------------------------------------------------------ *)
(** ** Key expansion (FIPS 197 section 5.2, Nk = 4, Nr = 10) *)

(** Next round key from the previous one and the round constant:
    [w(i) = w(i-4) xor SubWord (RotWord (w(i-1))) xor Rcon] for the first
    word, [w(i) = w(i-4) xor w(i-1)] for the other three. *)
Definition next_round_key (k : list Z) (rc : Z) : list Z :=
  match k with
  | [k0; k1; k2; k3; k4; k5; k6; k7; k8; k9; k10; k11; k12; k13; k14; k15] =>
      let n0 := Z.lxor (Z.lxor k0 (sbox k13)) rc in
      let n1 := Z.lxor k1 (sbox k14) in
      let n2 := Z.lxor k2 (sbox k15) in
      let n3 := Z.lxor k3 (sbox k12) in
      let n4 := Z.lxor k4 n0 in
      let n5 := Z.lxor k5 n1 in
      let n6 := Z.lxor k6 n2 in
      let n7 := Z.lxor k7 n3 in
      let n8 := Z.lxor k8 n4 in
      let n9 := Z.lxor k9 n5 in
      let n10 := Z.lxor k10 n6 in
      let n11 := Z.lxor k11 n7 in
      let n12 := Z.lxor k12 n8 in
      let n13 := Z.lxor k13 n9 in
      let n14 := Z.lxor k14 n10 in
      let n15 := Z.lxor k15 n11 in
      [n0; n1; n2; n3; n4; n5; n6; n7; n8; n9; n10; n11; n12; n13; n14; n15]
  | _ => k
  end.

(** Rcon[1..10], first byte (the other three are zero). *)
Definition rcon : list Z := [1; 2; 4; 8; 16; 32; 64; 128; 27; 54].

Fixpoint expand_from (k : list Z) (rcs : list Z) : list (list Z) :=
  match rcs with
  | [] => []
  | rc :: rcs' =>
      let k' := next_round_key k rc in k' :: expand_from k' rcs'
  end.

(** The 11 round keys, 16 bytes each.  The outer [map norm16 (firstn 11 ...)]
    is the identity on the computed schedule; it is there so that the
    shape lemmas below hold by construction. *)
Definition aes128_key_expand (key : list Z) : list (list Z) :=
  let k0 := norm16 key in
  map norm16 (firstn 11 ((k0 :: expand_from k0 rcon) ++ repeat [] 11)).

(* ------------------------------------------------------------------ *)
(** ** Block encryption *)

Definition aes128_encrypt_with (rks : list (list Z)) (block : list Z)
  : list Z :=
  let st :=
    match rks with
    | [] => norm16 block
    | k0 :: rest => aes_rounds (add_round_key (norm16 block) k0) rest
    end in
  norm16 st.

Definition aes128_encrypt_block (key block : list Z) : list Z :=
  aes128_encrypt_with (aes128_key_expand key) block.

Lemma aes128_encrypt_block_eq : forall key b,
  aes128_encrypt_block key b = aes128_encrypt_with (aes128_key_expand key) b.
Proof. reflexivity. Qed.

(* ------------------------------------------------------------------ *)
(** ** Shape lemmas *)

Lemma aes128_key_expand_length : forall key,
  length (aes128_key_expand key) = 11%nat.
Proof.
  intros key. unfold aes128_key_expand. cbv zeta.
  rewrite map_length, firstn_length, app_length, repeat_length. lia.
Qed.

Lemma aes128_key_expand_shape : forall key,
  Forall (fun rk => length rk = 16%nat /\ Forall is_byte rk)
         (aes128_key_expand key).
Proof.
  intros key. unfold aes128_key_expand. cbv zeta.
  apply Forall_forall. intros rk Hrk.
  apply in_map_iff in Hrk. destruct Hrk as [l [<- _]].
  split; [apply norm16_length | apply norm16_bytes].
Qed.

Lemma aes128_encrypt_with_length : forall rks b,
  length (aes128_encrypt_with rks b) = 16%nat.
Proof.
  intros rks b. unfold aes128_encrypt_with. cbv zeta. apply norm16_length.
Qed.

Lemma aes128_encrypt_block_length : forall k b,
  length (aes128_encrypt_block k b) = 16%nat.
Proof.
  intros k b. unfold aes128_encrypt_block. apply aes128_encrypt_with_length.
Qed.

Lemma aes128_encrypt_with_bytes : forall rks b,
  Forall (fun x => 0 <= x < 256) (aes128_encrypt_with rks b).
Proof.
  intros rks b. unfold aes128_encrypt_with. cbv zeta. apply norm16_bytes.
Qed.

Lemma aes128_encrypt_block_bytes : forall k b,
  Forall (fun x => 0 <= x < 256) (aes128_encrypt_block k b).
Proof.
  intros k b. unfold aes128_encrypt_block. apply aes128_encrypt_with_bytes.
Qed.

(* ------------------------------------------------------------------ *)
(** ** Known-answer tests *)

(** FIPS 197 Appendix B.
    key   2b7e151628aed2a6abf7158809cf4f3c
    input 3243f6a8885a308d313198a2e0370734
    out   3925841d02dc09fbdc118597196a0b32 *)
Definition kat_b_key : list Z :=
  [0x2b; 0x7e; 0x15; 0x16; 0x28; 0xae; 0xd2; 0xa6;
   0xab; 0xf7; 0x15; 0x88; 0x09; 0xcf; 0x4f; 0x3c].

Example aes128_fips197_appendix_b :
  aes128_encrypt_block kat_b_key
    [0x32; 0x43; 0xf6; 0xa8; 0x88; 0x5a; 0x30; 0x8d;
     0x31; 0x31; 0x98; 0xa2; 0xe0; 0x37; 0x07; 0x34]
  = [0x39; 0x25; 0x84; 0x1d; 0x02; 0xdc; 0x09; 0xfb;
     0xdc; 0x11; 0x85; 0x97; 0x19; 0x6a; 0x0b; 0x32].
Proof. vm_compute. reflexivity. Qed.

(** FIPS 197 Appendix A.1: last round key of the Appendix B key,
    w40..w43 = d014f9a8 c9ee2589 e13f0cc8 b6630ca6. *)
Example aes128_fips197_appendix_a1_last_round_key :
  nth 10 (aes128_key_expand kat_b_key) []
  = [0xd0; 0x14; 0xf9; 0xa8; 0xc9; 0xee; 0x25; 0x89;
     0xe1; 0x3f; 0x0c; 0xc8; 0xb6; 0x63; 0x0c; 0xa6].
Proof. vm_compute. reflexivity. Qed.

(** FIPS 197 Appendix C.1.
    key   000102030405060708090a0b0c0d0e0f
    plain 00112233445566778899aabbccddeeff
    out   69c4e0d86a7b0430d8cdb78070b4c55a *)
Definition kat_c1_key : list Z :=
  [0x00; 0x01; 0x02; 0x03; 0x04; 0x05; 0x06; 0x07;
   0x08; 0x09; 0x0a; 0x0b; 0x0c; 0x0d; 0x0e; 0x0f].

Example aes128_fips197_appendix_c1 :
  aes128_encrypt_block kat_c1_key
    [0x00; 0x11; 0x22; 0x33; 0x44; 0x55; 0x66; 0x77;
     0x88; 0x99; 0xaa; 0xbb; 0xcc; 0xdd; 0xee; 0xff]
  = [0x69; 0xc4; 0xe0; 0xd8; 0x6a; 0x7b; 0x04; 0x30;
     0xd8; 0xcd; 0xb7; 0x80; 0x70; 0xb4; 0xc5; 0x5a].
Proof. vm_compute. reflexivity. Qed.

(** SP 800-38A F.3.7 (CFB8-AES128.Encrypt), segment 1: with the
    Appendix B key and IV 000102030405060708090a0b0c0d0e0f, plaintext
    byte 0x6b encrypts to ciphertext byte 0x3b, i.e. the first byte of
    E_K(IV) is 0x50. *)
Example aes128_sp800_38a_cfb8_segment1 :
  Z.lxor (hd 0 (aes128_encrypt_block kat_b_key kat_c1_key)) 0x6b = 0x3b.
Proof. vm_compute. reflexivity. Qed.

(** Totality on malformed input: wrong-length key / block / schedule
    still yield 16 bytes (these are instances of the lemmas above, kept
    as executable smoke tests). *)
Example aes128_total_smoke :
  (length (aes128_encrypt_block [1; 2; 3] [300; -1]),
   length (aes128_encrypt_with [] []),
   length (aes128_encrypt_with [[1]; []; [2; 3]] (repeat 7 40)))
  = (16%nat, 16%nat, 16%nat).
Proof. vm_compute. reflexivity. Qed.

Print Assumptions aes128_encrypt_with_length.
Print Assumptions aes128_encrypt_block_length.
Print Assumptions aes128_encrypt_with_bytes.
Print Assumptions aes128_encrypt_block_bytes.
Print Assumptions aes128_key_expand_shape.
Print Assumptions sbox_nth.
