(* Passage.Spec.Sha256 : executable SHA-256 (FIPS 180-4) over [list Z].

   Bytes are [Z] (intended 0..255, reduced [mod 256] on entry so [sha256] is
   total on any [list Z]).  Words are [Z] in 0 .. 2^32-1.  Only the Coq
   standard library is used; there are no axioms. *)

Require Import ZArith String Ascii List Bool Lia.
Import ListNotations.
Open Scope Z_scope.

(* ------------------------------------------------------------------ *)
(** * Helpers for writing test vectors *)

Definition hexdigit (c : ascii) : Z :=
  let n := Z.of_N (N_of_ascii c) in
  if (48 <=? n) && (n <=? 57) then n - 48
  else if (97 <=? n) && (n <=? 102) then n - 87
  else if (65 <=? n) && (n <=? 70) then n - 55
  else 0.

(** [hex "e3b0"] = [[227; 176]].  A trailing odd digit is dropped. *)
Fixpoint hex (s : string) : list Z :=
  match s with
  | String a (String b r) => (16 * hexdigit a + hexdigit b) :: hex r
  | _ => []
  end.

(** ASCII bytes of a string. *)
Fixpoint str (s : string) : list Z :=
  match s with
  | EmptyString => []
  | String a r => Z.of_N (N_of_ascii a) :: str r
  end.

(* ------------------------------------------------------------------ *)
(** * 32-bit word operations (FIPS 180-4, sections 2.2.2, 3.2, 4.1.2) *)

Definition mask32 : Z := 0xffffffff.

Definition add32 (x y : Z) : Z := Z.land (x + y) mask32.

Definition shr (x n : Z) : Z := Z.shiftr x n.

Definition rotr (x n : Z) : Z :=
  Z.lor (Z.shiftr x n) (Z.land (Z.shiftl x (32 - n)) mask32).

Definition not32 (x : Z) : Z := Z.lxor x mask32.

Definition Ch (x y z : Z) : Z := Z.lxor (Z.land x y) (Z.land (not32 x) z).

Definition Maj (x y z : Z) : Z :=
  Z.lxor (Z.lxor (Z.land x y) (Z.land x z)) (Z.land y z).

Definition BSIG0 (x : Z) : Z := Z.lxor (Z.lxor (rotr x 2) (rotr x 13)) (rotr x 22).
Definition BSIG1 (x : Z) : Z := Z.lxor (Z.lxor (rotr x 6) (rotr x 11)) (rotr x 25).
Definition SSIG0 (x : Z) : Z := Z.lxor (Z.lxor (rotr x 7) (rotr x 18)) (shr x 3).
Definition SSIG1 (x : Z) : Z := Z.lxor (Z.lxor (rotr x 17) (rotr x 19)) (shr x 10).

(** Round constants (section 4.2.2). *)
Definition K256 : list Z :=
  [ 0x428a2f98; 0x71374491; 0xb5c0fbcf; 0xe9b5dba5;
    0x3956c25b; 0x59f111f1; 0x923f82a4; 0xab1c5ed5;
    0xd807aa98; 0x12835b01; 0x243185be; 0x550c7dc3;
    0x72be5d74; 0x80deb1fe; 0x9bdc06a7; 0xc19bf174;
    0xe49b69c1; 0xefbe4786; 0x0fc19dc6; 0x240ca1cc;
    0x2de92c6f; 0x4a7484aa; 0x5cb0a9dc; 0x76f988da;
    0x983e5152; 0xa831c66d; 0xb00327c8; 0xbf597fc7;
    0xc6e00bf3; 0xd5a79147; 0x06ca6351; 0x14292967;
    0x27b70a85; 0x2e1b2138; 0x4d2c6dfc; 0x53380d13;
    0x650a7354; 0x766a0abb; 0x81c2c92e; 0x92722c85;
    0xa2bfe8a1; 0xa81a664b; 0xc24b8b70; 0xc76c51a3;
    0xd192e819; 0xd6990624; 0xf40e3585; 0x106aa070;
    0x19a4c116; 0x1e376c08; 0x2748774c; 0x34b0bcb5;
    0x391c0cb3; 0x4ed8aa4a; 0x5b9cca4f; 0x682e6ff3;
    0x748f82ee; 0x78a5636f; 0x84c87814; 0x8cc70208;
    0x90befffa; 0xa4506ceb; 0xbef9a3f7; 0xc67178f2 ].

(** Hash state: the eight working words. *)
Definition state : Type := (Z * Z * Z * Z * Z * Z * Z * Z)%type.

(** Initial hash value (section 5.3.3). *)
Definition H0 : state :=
  (0x6a09e667, 0xbb67ae85, 0x3c6ef372, 0xa54ff53a,
   0x510e527f, 0x9b05688c, 0x1f83d9ab, 0x5be0cd19).

(* ------------------------------------------------------------------ *)
(** * Padding and parsing (sections 5.1.1, 5.2.1) *)

(** 64-bit big-endian encoding of [n] (taken modulo 2^64). *)
Definition be64 (n : Z) : list Z :=
  [ (n / 2^56) mod 256; (n / 2^48) mod 256; (n / 2^40) mod 256; (n / 2^32) mod 256;
    (n / 2^24) mod 256; (n / 2^16) mod 256; (n / 2^8) mod 256; n mod 256 ].

(** Length of a list as a [Z], without building a unary number. *)
Definition zlength {A} (l : list A) : Z :=
  fold_left (fun n _ => n + 1) l 0.

(** [msg ++ 0x80 ++ 0x00^k ++ be64 (8 * |msg|)], with [k] the least value making
    the total length a multiple of 64. *)
Definition pad (msg : list Z) : list Z :=
  let l := zlength msg in
  let nz := Z.to_nat ((55 - l) mod 64) in
  msg ++ 128 :: repeat 0 nz ++ be64 (8 * l).

(** Big-endian grouping of bytes into 32-bit words. *)
Fixpoint words (bs : list Z) : list Z :=
  match bs with
  | a :: b :: c :: d :: r => (a * 16777216 + b * 65536 + c * 256 + d) :: words r
  | _ => []
  end.

(* ------------------------------------------------------------------ *)
(** * Compression function (section 6.2.2)

    The message schedule is kept as a sliding window of the last 16 words
    [W(t) .. W(t+15)]; each round consumes [W(t)] and appends [W(t+16)]. *)

Definition round (sw : state * list Z) (k : Z) : state * list Z :=
  let '((a, b, c, d, e, f, g, h), w) := sw in
  let wt := nth 0 w 0 in
  let t1 := add32 (add32 (add32 (add32 h (BSIG1 e)) (Ch e f g)) k) wt in
  let t2 := add32 (BSIG0 a) (Maj a b c) in
  let wn := add32 (add32 (add32 (SSIG1 (nth 14 w 0)) (nth 9 w 0))
                         (SSIG0 (nth 1 w 0))) wt in
  ((add32 t1 t2, a, b, c, add32 d t1, e, f, g), tl w ++ [wn]).

Definition compress (H : state) (w16 : list Z) : state :=
  let '((a, b, c, d, e, f, g, h), _) := fold_left round K256 (H, w16) in
  let '(a0, b0, c0, d0, e0, f0, g0, h0) := H in
  (add32 a0 a, add32 b0 b, add32 c0 c, add32 d0 d,
   add32 e0 e, add32 f0 f, add32 g0 g, add32 h0 h).

(** Fold [compress] over consecutive 16-word blocks.  [fuel] only needs to be
    at least the number of blocks. *)
Fixpoint blocks (fuel : nat) (ws : list Z) (H : state) : state :=
  match fuel with
  | O => H
  | S fuel' =>
      match ws with
      | [] => H
      | _ => blocks fuel' (skipn 16 ws) (compress H (firstn 16 ws))
      end
  end.

(* ------------------------------------------------------------------ *)
(** * Digest *)

Definition word_bytes (w : Z) : list Z :=
  [ (w / 2^24) mod 256; (w / 2^16) mod 256; (w / 2^8) mod 256; w mod 256 ].

Definition sha256 (msg : list Z) : list Z :=
  let ws := words (pad (map (fun b => b mod 256) msg)) in
  let '(a, b, c, d, e, f, g, h) := blocks (length ws) ws H0 in
  word_bytes a ++ word_bytes b ++ word_bytes c ++ word_bytes d ++
  word_bytes e ++ word_bytes f ++ word_bytes g ++ word_bytes h.

(* ------------------------------------------------------------------ *)
(** * Test vectors (FIPS 180-4 / NIST CAVP examples, python3 hashlib) *)

Example sha256_empty :
  sha256 [] = hex "e3b0c44298fc1c149afbf4c8996fb92427ae41e4649b934ca495991b7852b855".
Proof. vm_compute; reflexivity. Qed.

Example sha256_abc :
  sha256 (str "abc") =
  hex "ba7816bf8f01cfea414140de5dae2223b00361a396177a9cb410ff61f20015ad".
Proof. vm_compute; reflexivity. Qed.

Example sha256_two_block :
  sha256 (str "abcdbcdecdefdefgefghfghighijhijkijkljklmklmnlmnomnopnopq") =
  hex "248d6a61d20638b8e5c026930c3e6039a33ce45964ff2167f6ecedd419db06c1".
Proof. vm_compute; reflexivity. Qed.

Example sha256_a1000 :
  sha256 (repeat 97 (Z.to_nat 1000)) =
  hex "41edece42d63e8d9bf515a9ba6932e1c20cbc9f5a5d134645adb5db1b9737ea3".
Proof. vm_compute; reflexivity. Qed.

(** Padding boundaries: 55 bytes (one block exactly) and 64 bytes (two blocks). *)
Example sha256_a55 :
  sha256 (repeat 97 (Z.to_nat 55)) =
  hex "9f4390f8d30c2dd92ec9f095b65e2b9ae9b0a925a5258e241c9f1e910f734318".
Proof. vm_compute; reflexivity. Qed.

Example sha256_a64 :
  sha256 (repeat 97 (Z.to_nat 64)) =
  hex "ffe054fe7ae0cb6dc65c3af9b61d5209f439851db43d0ba5997337df154668eb".
Proof. vm_compute; reflexivity. Qed.

(** Entry reduction: bytes are taken modulo 256. *)
Example sha256_mod256 :
  sha256 [97 + 256; 98 - 256; 99 + 512] = sha256 (str "abc").
Proof. vm_compute; reflexivity. Qed.

(* ------------------------------------------------------------------ *)
(** * Shape lemmas *)

Lemma word_bytes_length : forall w, length (word_bytes w) = 4%nat.
Proof. reflexivity. Qed.

Lemma word_bytes_bytes : forall w, Forall (fun b => 0 <= b < 256) (word_bytes w).
Proof.
  intro w. unfold word_bytes.
  repeat constructor; apply Z.mod_pos_bound; lia.
Qed.

Lemma sha256_length : forall m, length (sha256 m) = 32%nat.
Proof.
  intro m. unfold sha256.
  destruct (blocks _ _ _) as [[[[[[[a b] c] d] e] f] g] h].
  reflexivity.
Qed.

Lemma sha256_bytes : forall m, Forall (fun b => 0 <= b < 256) (sha256 m).
Proof.
  intro m. unfold sha256.
  destruct (blocks _ _ _) as [[[[[[[a b] c] d] e] f] g] h].
  repeat (apply Forall_app; split); apply word_bytes_bytes.
Qed.

Print Assumptions sha256_length.
Print Assumptions sha256_bytes.
