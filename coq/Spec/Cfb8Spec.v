(* CFB-8 mode (NIST SP 800-38A, s = 8) over an abstract 16-byte block function.
   Code-independent specification. *)
From Passage Require Import Lib.Bytes.

Section Cfb8.
  Variable E : bytes -> bytes.          (* forward block cipher under the fixed key *)

  (* shift register update: drop the oldest byte, append the ciphertext byte *)
  Definition shift (sr : bytes) (c : Z) : bytes := tl sr ++ [c].
  Definition keybyte (sr : bytes) : Z := hd 0 (E sr).

  Fixpoint cfb8_enc (sr : bytes) (ps : bytes) : bytes * bytes :=
    match ps with
    | [] => ([], sr)
    | p :: r => let c := Z.lxor p (keybyte sr) in
                let (cs, sr') := cfb8_enc (shift sr c) r in (c :: cs, sr')
    end.

  Fixpoint cfb8_dec (sr : bytes) (cs : bytes) : bytes * bytes :=
    match cs with
    | [] => ([], sr)
    | c :: r => let p := Z.lxor c (keybyte sr) in
                let (ps, sr') := cfb8_dec (shift sr c) r in (p :: ps, sr')
    end.
End Cfb8.
