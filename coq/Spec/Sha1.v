(* Passage.Spec.Sha1 — executable SHA-1 (FIPS 180-4) over [list Z] bytes.

   Bytes are [list Z] (each element intended to be in 0..255; inputs are
   reduced [mod 256] on entry so [sha1] is total on every [list Z]).
   Words are [Z] in 0..2^32-1.  Only the Coq standard library is used. *)

From Coq Require Import String Ascii Bool ZArith List Lia.
Import ListNotations.
Open Scope bool_scope.
Open Scope Z_scope.

(* ------------------------------------------------------------------ *)
(* Helpers for writing test vectors                                    *)
(* ------------------------------------------------------------------ *)

(* Bytes of an ASCII string. *)
Fixpoint str_bytes (s : string) : list Z :=
  match s with
  | EmptyString => []
  | String c r => Z.of_N (N_of_ascii c) :: str_bytes r
  end.

(* Value of one hex digit (0 for anything that is not a hex digit). *)
Definition hex_digit (c : ascii) : Z :=
  let n := Z.of_N (N_of_ascii c) in
  if (48 <=? n) && (n <=? 57) then n - 48
  else if (97 <=? n) && (n <=? 102) then n - 87
  else if (65 <=? n) && (n <=? 70) then n - 55
  else 0.

(* Hex string -> bytes, two digits per byte (a trailing odd digit is dropped). *)
Fixpoint hex (s : string) : list Z :=
  match s with
  | String a (String b r) => (16 * hex_digit a + hex_digit b) :: hex r
  | _ => []
  end.

(* ------------------------------------------------------------------ *)
(* 32-bit word operations                                              *)
(* ------------------------------------------------------------------ *)

Definition W32 : Z := 4294967296.          (* 2^32 *)
Definition MASK32 : Z := 4294967295.       (* 2^32 - 1 *)

Definition add32 (a b : Z) : Z := Z.land (a + b) MASK32.

Definition not32 (a : Z) : Z := Z.lxor a MASK32.

(* Rotate left by [n] (0 < n < 32) of a word in 0..2^32-1. *)
Definition rotl32 (n : Z) (x : Z) : Z :=
  Z.lor (Z.land (Z.shiftl x n) MASK32) (Z.shiftr x (32 - n)).

(* Big-endian serialisation of a word: syntactically a 4-element list. *)
Definition word_bytes (w : Z) : list Z :=
  [ (w / 16777216) mod 256 ; (w / 65536) mod 256 ; (w / 256) mod 256 ; w mod 256 ].

(* Big-endian serialisation of a 64-bit quantity (taken mod 2^64). *)
Definition len64_bytes (n : Z) : list Z :=
  word_bytes (n / W32) ++ word_bytes n.

(* ------------------------------------------------------------------ *)
(* Padding and parsing                                                 *)
(* ------------------------------------------------------------------ *)

(* Length of a list as a [Z]. *)
Definition zlength {A} (l : list A) : Z :=
  fold_left (fun n _ => n + 1) l 0.

(* msg || 0x80 || 0^k || len64, with total length a multiple of 64 bytes. *)
Definition sha1_pad (msg : list Z) : list Z :=
  let n := zlength msg in
  let k := (55 - n) mod 64 in
  msg ++ 128 :: repeat 0 (Z.to_nat k) ++ len64_bytes (8 * n).

(* Group bytes into big-endian 32-bit words (a trailing partial group is dropped;
   never happens on padded input). *)
Fixpoint bytes_words (l : list Z) : list Z :=
  match l with
  | a :: b :: c :: d :: r =>
      (((a * 256 + b) * 256 + c) * 256 + d) :: bytes_words r
  | _ => []
  end.

(* ------------------------------------------------------------------ *)
(* Compression function                                                *)
(* ------------------------------------------------------------------ *)

Definition sha1_state : Type := (Z * Z * Z * Z * Z)%type.

Definition sha1_init : sha1_state :=
  (1732584193, 4023233417, 2562383102, 271733878, 3285377520).
  (* 67452301 efcdab89 98badcfe 10325476 c3d2e1f0 *)

Definition sha1_f (t b c d : Z) : Z :=
  if t <? 20 then Z.lor (Z.land b c) (Z.land (not32 b) d)
  else if t <? 40 then Z.lxor (Z.lxor b c) d
  else if t <? 60 then Z.lor (Z.lor (Z.land b c) (Z.land b d)) (Z.land c d)
  else Z.lxor (Z.lxor b c) d.

Definition sha1_k (t : Z) : Z :=
  if t <? 20 then 1518500249        (* 5a827999 *)
  else if t <? 40 then 1859775393   (* 6ed9eba1 *)
  else if t <? 60 then 2400959708   (* 8f1bbcdc *)
  else 3395469782.                  (* ca62c1d6 *)

(* [w] is the sliding 16-word window W_t .. W_{t+15} of the message schedule.
   W_{t+16} = rotl1 (W_{t+13} xor W_{t+8} xor W_{t+2} xor W_t). *)
Definition sched_next (w : list Z) : Z :=
  rotl32 1 (Z.lxor (Z.lxor (nth 13 w 0) (nth 8 w 0)) (Z.lxor (nth 2 w 0) (nth 0 w 0))).

Fixpoint sha1_rounds (fuel : nat) (t : Z) (w : list Z) (st : sha1_state) : sha1_state :=
  match fuel with
  | O => st
  | S fuel' =>
      let '(a, b, c, d, e) := st in
      let wt := nth 0 w 0 in
      let tmp := add32 (add32 (add32 (add32 (rotl32 5 a) (sha1_f t b c d)) e) (sha1_k t)) wt in
      sha1_rounds fuel' (t + 1) (tl w ++ [sched_next w])
                  (tmp, a, rotl32 30 b, c, d)
  end.

(* Process one 16-word block. *)
Definition sha1_block (h : sha1_state) (w : list Z) : sha1_state :=
  let '(h0, h1, h2, h3, h4) := h in
  let '(a, b, c, d, e) := sha1_rounds 80 0 w h in
  (add32 h0 a, add32 h1 b, add32 h2 c, add32 h3 d, add32 h4 e).

(* Fold over the words, collecting 16 at a time (accumulated in reverse). *)
Definition sha1_step (acc : sha1_state * list Z * Z) (x : Z) : sha1_state * list Z * Z :=
  let '(h, rev_blk, n) := acc in
  if n =? 15 then (sha1_block h (rev (x :: rev_blk)), [], 0)
  else (h, x :: rev_blk, n + 1).

Definition sha1_words (ws : list Z) : sha1_state :=
  let '(h, _, _) := fold_left sha1_step ws (sha1_init, [], 0) in h.

Definition digest_bytes (h : sha1_state) : list Z :=
  let '(h0, h1, h2, h3, h4) := h in
  word_bytes h0 ++ word_bytes h1 ++ word_bytes h2 ++ word_bytes h3 ++ word_bytes h4.

(* ------------------------------------------------------------------ *)
(* SHA-1                                                               *)
(* ------------------------------------------------------------------ *)

Definition sha1 (msg : list Z) : list Z :=
  digest_bytes
    (sha1_words (bytes_words (sha1_pad (map (fun b => b mod 256) msg)))).

(* ------------------------------------------------------------------ *)
(* Test vectors                                                        *)
(* ------------------------------------------------------------------ *)

Example sha1_empty :
  sha1 [] = hex "da39a3ee5e6b4b0d3255bfef95601890afd80709".
Proof. vm_compute; reflexivity. Qed.

Example sha1_abc :
  sha1 (str_bytes "abc") = hex "a9993e364706816aba3e25717850c26c9cd0d89d".
Proof. vm_compute; reflexivity. Qed.

Example sha1_abc_literal :
  sha1 [97; 98; 99] =
  [169; 153; 62; 54; 71; 6; 129; 106; 186; 62;
   37; 113; 120; 80; 194; 108; 156; 208; 216; 157].
Proof. vm_compute; reflexivity. Qed.

Example sha1_448bit :
  sha1 (str_bytes "abcdbcdecdefdefgefghfghighijhijkijkljklmklmnlmnomnopnopq")
  = hex "84983e441c3bd26ebaae4aa1f95129e5e54670f1".
Proof. vm_compute; reflexivity. Qed.

(* python3: hashlib.sha1(b'a'*1000).hexdigest() *)
Example sha1_1000a :
  sha1 (repeat 97 1000) = hex "291e9a6c66994949b57ba5e650361e98fc36b1ba".
Proof. vm_compute; reflexivity. Qed.

(* Inputs are reduced mod 256 on entry. *)
Example sha1_mod256 :
  sha1 [97 + 256; 98 - 256; 99 + 512] = sha1 [97; 98; 99].
Proof. vm_compute; reflexivity. Qed.

(* ------------------------------------------------------------------ *)
(* Shape lemmas                                                        *)
(* ------------------------------------------------------------------ *)

Lemma word_bytes_length : forall w, length (word_bytes w) = 4%nat.
Proof. reflexivity. Qed.

Lemma word_bytes_range : forall w, Forall (fun b => 0 <= b < 256) (word_bytes w).
Proof.
  intro w. unfold word_bytes.
  repeat constructor; apply Z.mod_pos_bound; lia.
Qed.

Lemma digest_bytes_length : forall h, length (digest_bytes h) = 20%nat.
Proof. intros [[[[h0 h1] h2] h3] h4]. reflexivity. Qed.

Lemma digest_bytes_range : forall h, Forall (fun b => 0 <= b < 256) (digest_bytes h).
Proof.
  intros [[[[h0 h1] h2] h3] h4]. unfold digest_bytes.
  repeat (apply Forall_app; split); apply word_bytes_range.
Qed.

Lemma sha1_length : forall m, length (sha1 m) = 20%nat.
Proof. intro m. unfold sha1. apply digest_bytes_length. Qed.

Lemma sha1_bytes : forall m, Forall (fun b => 0 <= b < 256) (sha1 m).
Proof. intro m. unfold sha1. apply digest_bytes_range. Qed.

Time Eval vm_compute in sha1 (repeat 97 2000).

Print Assumptions sha1_length.
Print Assumptions sha1_bytes.
