(* Code-independent specification: unsigned little-endian base-128 (LEB128), the
   encoding the Minecraft protocol calls VarInt (on the 32-bit two's-complement
   pattern) and VarLong (on the 64-bit pattern). *)
From Passage Require Import Lib.Bytes.

(* [leb fuel u]: groups of 7 bits, least significant first, continuation bit 0x80 on
   all but the last group.  [fuel] bounds the number of groups. *)
Fixpoint leb (fuel : nat) (u : Z) : bytes :=
  match fuel with
  | O => []
  | S f => if u <? 128 then [u] else (u mod 128 + 128) :: leb f (u / 128)
  end.

Definition varint_spec (v : Z) : bytes := leb 5 (v mod 2 ^ 32).
Definition varlong_spec (v : Z) : bytes := leb 10 (v mod 2 ^ 64).

Lemma leb_S f u : leb (S f) u = if u <? 128 then [u] else (u mod 128 + 128) :: leb f (u / 128).
Proof. reflexivity. Qed.

Lemma leb_length f u : 0 <= u < 128 ^ Z.of_nat (S f) -> (1 <= length (leb (S f) u) <= S f)%nat.
Proof.
  revert u; induction f as [|f IH]; intros u Hu.
  - change (128 ^ Z.of_nat 1) with 128 in Hu. rewrite leb_S.
    destruct (Z.ltb_spec u 128); cbn [length]; lia.
  - rewrite leb_S. destruct (Z.ltb_spec u 128); cbn [length]; [lia|].
    rewrite Nat2Z.inj_succ, Z.pow_succ_r in Hu by lia.
    assert (0 <= u / 128 < 128 ^ Z.of_nat (S f)) by lia.
    specialize (IH _ H0). lia.
Qed.

Lemma leb_wf f u : 0 <= u -> wf_bytes (leb f u).
Proof.
  revert u; induction f as [|f IH]; intros u Hu; [constructor|].
  rewrite leb_S. destruct (Z.ltb_spec u 128).
  - constructor; [unfold is_byte; lia | constructor].
  - constructor; [unfold is_byte; lia | apply IH; lia].
Qed.

Lemma varint_spec_length v : (1 <= length (varint_spec v) <= 5)%nat.
Proof. unfold varint_spec. apply (leb_length 4). change (128 ^ Z.of_nat 5) with (2 ^ 35). lia. Qed.

Lemma varlong_spec_length v : (1 <= length (varlong_spec v) <= 10)%nat.
Proof. unfold varlong_spec. apply (leb_length 9). change (128 ^ Z.of_nat 10) with (2 ^ 70). lia. Qed.

Example leb_0 : varint_spec 0 = [0]. Proof. reflexivity. Qed.
Example leb_300 : varint_spec 300 = [172; 2]. Proof. reflexivity. Qed.
Example leb_max : varint_spec 2147483647 = [255; 255; 255; 255; 7]. Proof. reflexivity. Qed.
Example leb_m1 : varint_spec (-1) = [255; 255; 255; 255; 15]. Proof. reflexivity. Qed.
Example leb_min : varint_spec (-2147483648) = [128; 128; 128; 128; 8]. Proof. reflexivity. Qed.
Example lebl_m1 : varlong_spec (-1) = [255; 255; 255; 255; 255; 255; 255; 255; 255; 1]. Proof. reflexivity. Qed.
Example lebl_min : varlong_spec (-9223372036854775808) = [128; 128; 128; 128; 128; 128; 128; 128; 128; 1].
Proof. reflexivity. Qed.
