(* Code-independent specification of the Minecraft Java protocol packet layouts that
   passage-packets declares (transcribed from the protocol documentation, 1.21.x ids).
   V = VarInt, S = String, B = byte array, E = enum ordinal as VarInt, Opt = Bool + field.
   [None] as layout marks a packet whose protocol body is NOT implemented by the crate
   (a unit struct that encodes no fields): a recorded known finding, listed by name so
   that any other packet losing a field is a new violation. *)
From Passage Require Import Lib.Bytes Codec.Desc.

Definition sp_State : enum_tbl :=
  {| e_name := "State"; e_to := [1; 2; 3]; e_from := [(1, 0); (2, 1); (3, 2)] |}.
Definition sp_ChatMode : enum_tbl :=
  {| e_name := "ChatMode"; e_to := [0; 1; 2]; e_from := [(0, 0); (1, 1); (2, 2)] |}.
Definition sp_MainHand : enum_tbl :=
  {| e_name := "MainHand"; e_to := [0; 1]; e_from := [(0, 0); (1, 1)] |}.
Definition sp_ParticleStatus : enum_tbl :=
  {| e_name := "ParticleStatus"; e_to := [0; 1; 2]; e_from := [(0, 0); (1, 1); (2, 2)] |}.
Definition sp_ResourcePackResult : enum_tbl :=
  {| e_name := "ResourcePackResult"; e_to := [0; 1; 2; 3; 4; 5; 6; 7];
     e_from := [(0, 0); (1, 1); (2, 2); (3, 3); (4, 4); (5, 5); (6, 6); (7, 7)] |}.

Definition spec_enums : list enum_tbl :=
  [sp_ChatMode; sp_MainHand; sp_ParticleStatus; sp_ResourcePackResult; sp_State].

Record layout := { l_state : string; l_dir : string; l_name : string; l_id : Z;
                   l_fields : option (list fk) }.
Definition L s d n i f := {| l_state := s; l_dir := d; l_name := n; l_id := i; l_fields := f |}.

Definition mc_layout : list layout := [
  L "handshake" "serverbound" "HandshakePacket" 0 (Some [KVarInt; KString; KU16; KEnum sp_State]);
  L "status" "clientbound" "StatusResponsePacket" 0 (Some [KString]);
  L "status" "clientbound" "PongPacket" 1 (Some [KU64]);
  L "status" "serverbound" "StatusRequestPacket" 0 (Some []);
  L "status" "serverbound" "PingPacket" 1 (Some [KU64]);
  L "login" "clientbound" "DisconnectPacket" 0 (Some [KString]);
  L "login" "clientbound" "EncryptionRequestPacket" 1 (Some [KString; KBytes; KBytes; KBool]);
  L "login" "clientbound" "LoginSuccessPacket" 2 (Some [KUuid; KString; KConstVarInt 0]);
  L "login" "clientbound" "SetCompressionPacket" 3 None;
  L "login" "clientbound" "LoginPluginRequestPacket" 4 None;
  L "login" "clientbound" "CookieRequestPacket" 5 (Some [KString]);
  L "login" "serverbound" "LoginStartPacket" 0 (Some [KString; KUuid]);
  L "login" "serverbound" "EncryptionResponsePacket" 1 (Some [KBytes; KBytes]);
  L "login" "serverbound" "LoginPluginResponsePacket" 2 None;
  L "login" "serverbound" "LoginAcknowledgedPacket" 3 (Some []);
  L "login" "serverbound" "CookieResponsePacket" 4 (Some [KString; KOpt KBytes]);
  L "configuration" "clientbound" "CookieRequestPacket" 0 (Some [KString]);
  L "configuration" "clientbound" "PluginMessagePacket" 1 None;
  L "configuration" "clientbound" "DisconnectPacket" 2 (Some [KText]);
  L "configuration" "clientbound" "FinishConfigurationPacket" 3 (Some []);
  L "configuration" "clientbound" "KeepAlivePacket" 4 (Some [KU64]);
  L "configuration" "clientbound" "PingPacket" 5 (Some [KI32]);
  L "configuration" "clientbound" "ResetChatPacket" 6 (Some []);
  L "configuration" "clientbound" "RegistryDataPacket" 7 None;
  L "configuration" "clientbound" "RemoveResourcePackPacket" 8 None;
  L "configuration" "clientbound" "AddResourcePackPacket" 9 (Some [KUuid; KString; KString; KBool; KOpt KText]);
  L "configuration" "clientbound" "StoreCookiePacket" 10 (Some [KString; KBytes]);
  L "configuration" "clientbound" "TransferPacket" 11 (Some [KString; KVarIntU16]);
  L "configuration" "clientbound" "FeatureFlagsPacket" 12 None;
  L "configuration" "clientbound" "UpdateTagsPacket" 13 None;
  L "configuration" "clientbound" "KnownPacksPacket" 14 None;
  L "configuration" "clientbound" "CustomReportDetailsPacket" 15 None;
  L "configuration" "clientbound" "ServerLinksPacket" 16 None;
  L "configuration" "serverbound" "ClientInformationPacket" 0
    (Some [KString; KI8; KEnum sp_ChatMode; KBool; KU8; KEnum sp_MainHand; KBool; KBool; KEnum sp_ParticleStatus]);
  L "configuration" "serverbound" "CookieResponsePacket" 1 None;
  L "configuration" "serverbound" "PluginMessagePacket" 2 None;
  L "configuration" "serverbound" "AckFinishConfigurationPacket" 3 (Some []);
  L "configuration" "serverbound" "KeepAlivePacket" 4 (Some [KU64]);
  L "configuration" "serverbound" "PongPacket" 5 (Some [KI32]);
  L "configuration" "serverbound" "ResourcePackResponsePacket" 6 (Some [KUuid; KEnum sp_ResourcePackResult]);
  L "configuration" "serverbound" "KnownPacksPacket" 7 None
].

(* the verify token is a fixed 32-byte array in the crate; on the wire it is an ordinary
   length-prefixed byte array, so KBytesN n is accepted where the protocol says KBytes *)
