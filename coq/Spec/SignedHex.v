(* Passage.Spec.SignedHex - Minecraft's "signed hex digest" notation, independent of any code.

   A big-endian byte string is read as a two's-complement number ([twos_complement_be]);
   an integer is printed as Java's BigInteger.toString(16) does ([show_signed_hex]): a
   leading '-' when negative, then the lowercase hexadecimal digits of the absolute
   value without leading zeros, and "0" for zero.  [parse_signed_hex] is the strict
   reader of that notation (canonical strings only); it inverts [show_signed_hex]
   and accepts nothing else (see [parse_show_signed_hex], [parse_signed_hex_canonical]).

   Only definitions of this file and Lib.Bytes are used; nothing here mentions passage
   or num-bigint. *)
From Passage Require Import Lib.Bytes.

(* ------------------------------------------------------------------ *)
(* two's complement reading of a big-endian byte string                *)
(* ------------------------------------------------------------------ *)

(* most significant bit of the first byte; false for the empty string *)
Definition top_bit_set (d : bytes) : bool :=
  match d with b :: _ => 128 <=? b | [] => false end.

(* unsigned big-endian value minus 2^(8 * length) when the top bit is set *)
Definition twos_complement_be (d : bytes) : Z :=
  if top_bit_set d then be_dec d - 256 ^ Z.of_nat (length d) else be_dec d.

(* ------------------------------------------------------------------ *)
(* printing                                                            *)
(* ------------------------------------------------------------------ *)

(* ASCII of one hex digit 0..15: '0'..'9' = 48..57, 'a'..'f' = 97..102 *)
Definition hexchar (v : Z) : Z := if v <? 10 then 48 + v else 87 + v.

(* number of hex digits of m > 0: floor(log16 m) + 1 *)
Definition hex_len (m : Z) : nat := Z.to_nat (Z.log2 m / 4 + 1).

(* the n least significant hex digits of m, most significant first, pushed onto acc *)
Fixpoint hex_digits_acc (n : nat) (m : Z) (acc : bytes) : bytes :=
  match n with
  | O => acc
  | S k => hex_digits_acc k (m / 16) (hexchar (m mod 16) :: acc)
  end.

(* m >= 0 *)
Definition show_hex (m : Z) : bytes :=
  if m =? 0 then [48] else hex_digits_acc (hex_len m) m [].

Definition show_signed_hex (z : Z) : bytes :=
  if z <? 0 then 45 :: show_hex (- z) else show_hex z.

(* ------------------------------------------------------------------ *)
(* strict parsing                                                      *)
(* ------------------------------------------------------------------ *)

Definition hexval_lower (c : Z) : option Z :=
  if (48 <=? c) && (c <=? 57) then Some (c - 48)
  else if (97 <=? c) && (c <=? 102) then Some (c - 87)
  else None.

Fixpoint parse_hex_acc (acc : Z) (s : bytes) : option Z :=
  match s with
  | [] => Some acc
  | c :: r => match hexval_lower c with
              | Some v => parse_hex_acc (acc * 16 + v) r
              | None => None
              end
  end.

(* magnitude: "0", or one of [1-9a-f] followed by any number of [0-9a-f] *)
Definition parse_hex (s : bytes) : option Z :=
  match s with
  | [] => None
  | c :: r => if c =? 48 then (match r with [] => Some 0 | _ :: _ => None end)
              else parse_hex_acc 0 s
  end.

(* "-0" is not canonical *)
Definition parse_signed_hex (s : bytes) : option Z :=
  match s with
  | c :: r => if c =? 45
              then match parse_hex r with
                   | Some m => if m =? 0 then None else Some (- m)
                   | None => None
                   end
              else parse_hex s
  | [] => None
  end.

(* ------------------------------------------------------------------ *)
(* shape recogniser: optional minus, then 0 or [1-9a-f][0-9a-f]..; "-0" is rejected *)
(* ------------------------------------------------------------------ *)

Definition is_lower_hex (c : Z) : bool :=
  ((48 <=? c) && (c <=? 57)) || ((97 <=? c) && (c <=? 102)).

Definition hex_magnitude_format (s : bytes) : bool :=
  match s with
  | [] => false
  | c :: r => if c =? 48 then (match r with [] => true | _ :: _ => false end)
              else forallb is_lower_hex s
  end.

Definition starts_minus (s : bytes) : bool :=
  match s with c :: _ => c =? 45 | [] => false end.

Definition signed_hex_format (s : bytes) : bool :=
  match s with
  | c :: r => if c =? 45 then hex_magnitude_format r && negb (beq r [48])
              else hex_magnitude_format s
  | [] => false
  end.

(* ------------------------------------------------------------------ *)
(* examples                                                            *)
(* ------------------------------------------------------------------ *)

Example tc_pos : twos_complement_be (hx "7fff") = 32767. Proof. reflexivity. Qed.
Example tc_neg : twos_complement_be (hx "8000") = -32768. Proof. reflexivity. Qed.
Example tc_m1 : twos_complement_be (hx "ffffff") = -1. Proof. reflexivity. Qed.
Example tc_empty : twos_complement_be [] = 0. Proof. reflexivity. Qed.
Example tc_lead0 : twos_complement_be (hx "0080") = 128. Proof. reflexivity. Qed.
Example tc_one_byte : twos_complement_be [128] = -128. Proof. reflexivity. Qed.

Example show_0 : show_signed_hex 0 = str "0". Proof. reflexivity. Qed.
Example show_255 : show_signed_hex 255 = str "ff". Proof. reflexivity. Qed.
Example show_256 : show_signed_hex 256 = str "100". Proof. reflexivity. Qed.
Example show_m1 : show_signed_hex (-1) = str "-1". Proof. reflexivity. Qed.
Example show_m2748 : show_signed_hex (-2748) = str "-abc". Proof. reflexivity. Qed.
Example show_15_16 : (show_signed_hex 15, show_signed_hex 16) = (str "f", str "10"). Proof. reflexivity. Qed.
Example show_min160 :
  show_signed_hex (- 2 ^ 159) = str "-8000000000000000000000000000000000000000".
Proof. vm_compute. reflexivity. Qed.

Example parse_ok : parse_signed_hex (str "-7c9d5b") = Some (-8166747). Proof. reflexivity. Qed.
Example parse_upper : parse_signed_hex (str "FF") = None. Proof. reflexivity. Qed.
Example parse_lead0 : parse_signed_hex (str "0ff") = None. Proof. reflexivity. Qed.
Example parse_m0 : parse_signed_hex (str "-0") = None. Proof. reflexivity. Qed.
Example parse_mm : parse_signed_hex (str "--1") = None. Proof. reflexivity. Qed.
Example parse_empty : (parse_signed_hex [], parse_signed_hex (str "-")) = (None, None). Proof. reflexivity. Qed.
Example format_ok : signed_hex_format (str "-7c9d5b") = true. Proof. reflexivity. Qed.
Example format_bad : map signed_hex_format [str "-0"; str "07"; str "7C"; str ""; str "-"; str "+1"; str "0x1"]
                     = [false; false; false; false; false; false; false].
Proof. reflexivity. Qed.

(* ------------------------------------------------------------------ *)
(* lemmas                                                              *)
(* ------------------------------------------------------------------ *)

(* -- big-endian value and the two's-complement range -- *)

Lemma be_dec_acc_lin l : forall acc,
  be_dec_acc acc l = acc * 256 ^ Z.of_nat (length l) + be_dec_acc 0 l.
Proof.
  induction l as [|b r IH]; intros acc.
  - cbn [be_dec_acc length]. change (256 ^ Z.of_nat 0) with 1. lia.
  - cbn [be_dec_acc length]. rewrite (IH (acc * 256 + b)), (IH (0 * 256 + b)).
    rewrite Nat2Z.inj_succ, Z.pow_succ_r by lia. ring.
Qed.

Lemma be_dec_cons b r : be_dec (b :: r) = b * 256 ^ Z.of_nat (length r) + be_dec r.
Proof. unfold be_dec. cbn [be_dec_acc]. rewrite be_dec_acc_lin. f_equal. Qed.

Lemma be_dec_range l : wf_bytes l -> 0 <= be_dec l < 256 ^ Z.of_nat (length l).
Proof.
  induction 1 as [|b r Hb Hr IH].
  - cbn. lia.
  - rewrite be_dec_cons. cbn [length]. rewrite Nat2Z.inj_succ, Z.pow_succ_r by lia.
    unfold is_byte in Hb. nia.
Qed.

(* the defining property of two's complement: the value lies in [-2^(8n-1), 2^(8n-1)) and is
   congruent to the unsigned value modulo 2^(8n) *)
Lemma twos_complement_be_range b r : wf_bytes (b :: r) ->
  let n := Z.of_nat (length (b :: r)) in
  - (256 ^ n / 2) <= twos_complement_be (b :: r) < 256 ^ n / 2
  /\ twos_complement_be (b :: r) mod 256 ^ n = be_dec (b :: r).
Proof.
  intros Hwf n. pose proof (be_dec_range _ Hwf) as Hr. fold n in Hr.
  assert (Hp : 256 ^ n / 2 = 128 * 256 ^ Z.of_nat (length r)).
  { unfold n. cbn [length]. rewrite Nat2Z.inj_succ, Z.pow_succ_r by lia.
    replace (256 * 256 ^ Z.of_nat (length r)) with ((128 * 256 ^ Z.of_nat (length r)) * 2) by ring.
    apply Z.div_mul. lia. }
  inversion Hwf as [|? ? Hb Hwr]; subst.
  pose proof (be_dec_range _ Hwr) as Hrr.
  assert (Hn : 256 ^ n = 256 * 256 ^ Z.of_nat (length r)).
  { unfold n. cbn [length]. rewrite Nat2Z.inj_succ, Z.pow_succ_r by lia. reflexivity. }
  unfold twos_complement_be, top_bit_set. fold n.
  rewrite Hp. rewrite be_dec_cons in *. unfold is_byte in Hb.
  destruct (Z.leb_spec 128 b) as [H|H]; split; try nia.
  - symmetry. apply (Z.mod_unique _ _ (-1)); lia.
  - apply Z.mod_small. lia.
Qed.

Lemma top_bit_negative d : wf_bytes d -> (top_bit_set d = true <-> twos_complement_be d < 0).
Proof.
  intros Hwf. destruct d as [|b r].
  - cbn. split; [discriminate | lia].
  - pose proof (be_dec_range _ Hwf) as Hr.
    inversion Hwf as [|? ? Hb Hwr]; subst. pose proof (be_dec_range _ Hwr) as Hrr.
    unfold twos_complement_be. rewrite be_dec_cons in *. cbn [length] in *.
    rewrite Nat2Z.inj_succ, Z.pow_succ_r in * by lia.
    cbn [top_bit_set]. unfold is_byte in Hb.
    destruct (Z.leb_spec 128 b) as [H|H]; split; intros H1; try reflexivity; try discriminate; nia.
Qed.

(* -- hex digits -- *)

(* the n least significant nibbles, least significant first *)
Fixpoint nibbles_le (n : nat) (m : Z) : list Z :=
  match n with O => [] | S k => m mod 16 :: nibbles_le k (m / 16) end.

Lemma hex_digits_acc_nibbles n : forall m acc,
  hex_digits_acc n m acc = rev (map hexchar (nibbles_le n m)) ++ acc.
Proof.
  induction n as [|k IH]; intros m acc; cbn [hex_digits_acc nibbles_le map rev app]; [reflexivity|].
  rewrite IH, <- app_assoc. reflexivity.
Qed.

Lemma nibbles_le_length n m : length (nibbles_le n m) = n.
Proof. revert m; induction n as [|k IH]; intros m; cbn [nibbles_le length]; [|rewrite IH]; reflexivity. Qed.

Lemma nibbles_le_range n : forall m, Forall (fun v => 0 <= v < 16) (nibbles_le n m).
Proof.
  induction n as [|k IH]; intros m; cbn [nibbles_le]; constructor; [|apply IH].
  apply Z.mod_pos_bound; lia.
Qed.

(* nibbles of x + 16^k * y are those of x followed by those of y *)
Lemma nibbles_le_app k : forall j x y, 0 <= x < 16 ^ Z.of_nat k ->
  nibbles_le (k + j) (x + 16 ^ Z.of_nat k * y) = nibbles_le k x ++ nibbles_le j y.
Proof.
  induction k as [|k IH]; intros j x y Hx.
  - change (16 ^ Z.of_nat 0) with 1 in *. cbn [Nat.add nibbles_le app]. f_equal. lia.
  - rewrite Nat2Z.inj_succ, Z.pow_succ_r in * by lia.
    cbn [Nat.add nibbles_le app].
    set (P := 16 ^ Z.of_nat k) in *.
    assert (HP : 0 < P) by (apply Z.pow_pos_nonneg; lia).
    replace (x + 16 * P * y) with (x + (P * y) * 16) by ring.
    rewrite Z.mod_add, Z.div_add by lia.
    f_equal. apply IH. fold P. lia.
Qed.

Lemma nibbles_le_snoc k m :
  nibbles_le (S k) m = nibbles_le k m ++ [(m / 16 ^ Z.of_nat k) mod 16].
Proof.
  revert m; induction k as [|k IH]; intros m.
  - cbn [nibbles_le app]. change (16 ^ Z.of_nat 0) with 1. rewrite Z.div_1_r. reflexivity.
  - change (nibbles_le (S (S k)) m) with (m mod 16 :: nibbles_le (S k) (m / 16)).
    rewrite IH. cbn [nibbles_le app]. do 3 f_equal.
    rewrite Nat2Z.inj_succ, Z.pow_succ_r by lia.
    rewrite Z.div_div by (try apply Z.pow_pos_nonneg; lia). reflexivity.
Qed.

Lemma hex_len_bounds m : 0 < m ->
  (1 <= hex_len m)%nat /\ 16 ^ (Z.of_nat (hex_len m) - 1) <= m < 16 ^ Z.of_nat (hex_len m).
Proof.
  intros Hm. unfold hex_len.
  pose proof (Z.log2_nonneg m) as HL. pose proof (Z.log2_spec m Hm) as [H1 H2].
  set (L := Z.log2 m) in *.
  rewrite Z2Nat.id by lia.
  split; [lia|].
  assert (E : forall k, 0 <= k -> 16 ^ k = 2 ^ (4 * k)).
  { intros k Hk. rewrite Z.pow_mul_r by lia. reflexivity. }
  rewrite !E by lia. split.
  - apply Z.le_trans with (2 ^ L); [|exact H1]. apply Z.pow_le_mono_r; lia.
  - apply Z.lt_le_trans with (2 ^ Z.succ L); [exact H2|]. apply Z.pow_le_mono_r; lia.
Qed.

Lemma hex_len_unique m n : (1 <= n)%nat ->
  16 ^ (Z.of_nat n - 1) <= m < 16 ^ Z.of_nat n -> hex_len m = n.
Proof.
  intros Hn [Hlo Hhi].
  assert (Hm : 0 < m).
  { apply Z.lt_le_trans with (16 ^ (Z.of_nat n - 1)); [apply Z.pow_pos_nonneg; lia | exact Hlo]. }
  pose proof (Z.log2_nonneg m) as HL. pose proof (Z.log2_spec m Hm) as [H1 H2].
  unfold hex_len. set (L := Z.log2 m) in *.
  assert (E : forall k, 0 <= k -> 16 ^ k = 2 ^ (4 * k)).
  { intros k Hk. rewrite Z.pow_mul_r by lia. reflexivity. }
  rewrite E in Hlo, Hhi by lia.
  assert (A : 4 * (Z.of_nat n - 1) < Z.succ L).
  { apply (Z.pow_lt_mono_r_iff 2); lia. }
  assert (B : L < 4 * Z.of_nat n).
  { apply (Z.pow_lt_mono_r_iff 2); lia. }
  lia.
Qed.

Lemma hex_len_shift k x y : 0 <= x < 16 ^ Z.of_nat k -> 0 < y ->
  hex_len (x + 16 ^ Z.of_nat k * y) = (k + hex_len y)%nat.
Proof.
  intros Hx Hy. destruct (hex_len_bounds y Hy) as [H1 [H2 H3]].
  set (P := 16 ^ Z.of_nat k) in *.
  assert (HP : 0 < P) by (apply Z.pow_pos_nonneg; lia).
  apply hex_len_unique; [lia|].
  rewrite Nat2Z.inj_add.
  replace (Z.of_nat k + Z.of_nat (hex_len y) - 1) with (Z.of_nat k + (Z.of_nat (hex_len y) - 1)) by lia.
  rewrite !Z.pow_add_r by lia. fold P. nia.
Qed.

(* the leading digit of a positive number is not zero *)
Lemma hex_top_digit m : 0 < m ->
  exists k v, hex_len m = S k /\ 1 <= v < 16 /\
              hex_digits_acc (hex_len m) m [] = hexchar v :: hex_digits_acc k m [].
Proof.
  intros Hm. destruct (hex_len_bounds m Hm) as [H1 [H2 H3]].
  destruct (hex_len m) as [|k] eqn:E; [lia|].
  exists k, (m / 16 ^ Z.of_nat k).
  rewrite Nat2Z.inj_succ in *. replace (Z.succ (Z.of_nat k) - 1) with (Z.of_nat k) in H2 by lia.
  rewrite Z.pow_succ_r in H3 by lia.
  assert (HP : 0 < 16 ^ Z.of_nat k) by (apply Z.pow_pos_nonneg; lia).
  assert (Hv : 1 <= m / 16 ^ Z.of_nat k < 16).
  { split; [apply Z.div_le_lower_bound; lia | apply Z.div_lt_upper_bound; lia]. }
  split; [reflexivity|]. split; [exact Hv|].
  rewrite !hex_digits_acc_nibbles, !app_nil_r, nibbles_le_snoc, map_app, rev_app_distr.
  cbn [map rev app]. rewrite Z.mod_small by lia. reflexivity.
Qed.

Lemma hexchar_lower v : 0 <= v < 16 -> hexval_lower (hexchar v) = Some v /\ is_lower_hex (hexchar v) = true.
Proof.
  intros Hv. unfold hexval_lower, is_lower_hex, hexchar.
  destruct (Z.ltb_spec v 10).
  - replace ((48 <=? 48 + v) && (48 + v <=? 57)) with true by lia. split; [f_equal; lia | reflexivity].
  - replace ((48 <=? 87 + v) && (87 + v <=? 57)) with false by lia.
    replace ((97 <=? 87 + v) && (87 + v <=? 102)) with true by lia. split; [f_equal; lia | reflexivity].
Qed.

Lemma hexchar_not_special v : 1 <= v < 16 -> (hexchar v =? 48) = false /\ (hexchar v =? 45) = false.
Proof. intros Hv. unfold hexchar. destruct (Z.ltb_spec v 10); lia. Qed.

Lemma hexval_lower_inv c v : hexval_lower c = Some v -> 0 <= v < 16 /\ c = hexchar v.
Proof.
  unfold hexval_lower, hexchar. intros H.
  destruct ((48 <=? c) && (c <=? 57)) eqn:E1; [inversion H; subst; clear H|].
  - destruct (Z.ltb_spec (c - 48) 10); lia.
  - destruct ((97 <=? c) && (c <=? 102)) eqn:E2; [inversion H; subst; clear H | discriminate].
    destruct (Z.ltb_spec (c - 87) 10); lia.
Qed.

(* -- parsing inverts printing -- *)

Lemma parse_hex_acc_app s t a :
  parse_hex_acc a (s ++ t) = match parse_hex_acc a s with Some v => parse_hex_acc v t | None => None end.
Proof.
  revert a; induction s as [|c s IH]; intros a; cbn [app parse_hex_acc]; [reflexivity|].
  destruct (hexval_lower c); [apply IH | reflexivity].
Qed.

Lemma parse_hex_digits n : forall m a,
  parse_hex_acc a (hex_digits_acc n m []) = Some (a * 16 ^ Z.of_nat n + m mod 16 ^ Z.of_nat n).
Proof.
  induction n as [|k IH]; intros m a.
  - cbn [hex_digits_acc parse_hex_acc]. change (16 ^ Z.of_nat 0) with 1. rewrite Z.mod_1_r. f_equal; lia.
  - cbn [hex_digits_acc]. rewrite hex_digits_acc_nibbles.
    replace (rev (map hexchar (nibbles_le k (m / 16))) ++ [hexchar (m mod 16)])
      with (hex_digits_acc k (m / 16) [] ++ [hexchar (m mod 16)])
      by (rewrite hex_digits_acc_nibbles, app_nil_r; reflexivity).
    rewrite parse_hex_acc_app, IH. cbn [parse_hex_acc].
    destruct (hexchar_lower (m mod 16)) as [-> _]; [apply Z.mod_pos_bound; lia|].
    rewrite Nat2Z.inj_succ, Z.pow_succ_r by lia.
    set (P := 16 ^ Z.of_nat k).
    assert (HP : 0 < P) by (apply Z.pow_pos_nonneg; lia).
    rewrite (Z.rem_mul_r m 16 P) by lia. f_equal. ring.
Qed.

Lemma parse_show_hex m : 0 <= m -> parse_hex (show_hex m) = Some m.
Proof.
  intros Hm. unfold show_hex. destruct (Z.eqb_spec m 0) as [->|Hne]; [reflexivity|].
  assert (Hpos : 0 < m) by lia.
  destruct (hex_top_digit m Hpos) as (k & v & Hk & Hv & Heq).
  unfold parse_hex. rewrite Heq.
  destruct (hexchar_not_special v Hv) as [-> _].
  rewrite <- Heq, parse_hex_digits.
  destruct (hex_len_bounds m Hpos) as [_ [_ Hhi]].
  rewrite Z.mod_small by lia. f_equal.
Qed.

Lemma show_hex_first_not_minus m : 0 <= m -> starts_minus (show_hex m) = false.
Proof.
  intros Hm. unfold show_hex. destruct (Z.eqb_spec m 0) as [->|Hne]; [reflexivity|].
  destruct (hex_top_digit m ltac:(lia)) as (k & v & Hk & Hv & Heq).
  rewrite Heq. cbn [starts_minus]. apply hexchar_not_special; exact Hv.
Qed.

Theorem parse_show_signed_hex z : parse_signed_hex (show_signed_hex z) = Some z.
Proof.
  unfold show_signed_hex. destruct (Z.ltb_spec z 0) as [Hneg|Hpos].
  - cbn [parse_signed_hex]. rewrite Z.eqb_refl, parse_show_hex by lia.
    destruct (Z.eqb_spec (- z) 0); [lia | f_equal; lia].
  - pose proof (show_hex_first_not_minus z Hpos) as Hs.
    pose proof (parse_show_hex z Hpos) as Hp.
    unfold parse_signed_hex. destruct (show_hex z) as [|c r]; [discriminate Hp|].
    cbn [starts_minus] in Hs. rewrite Hs. exact Hp.
Qed.

(* -- only canonical strings parse: the strict reader determines the string -- *)

Lemma hex_digits_acc_S k m :
  hex_digits_acc (S k) m [] = hexchar ((m / 16 ^ Z.of_nat k) mod 16) :: hex_digits_acc k m [].
Proof.
  rewrite !hex_digits_acc_nibbles, !app_nil_r, nibbles_le_snoc, map_app, rev_app_distr. reflexivity.
Qed.

Lemma parse_hex_acc_digits s : forall a v, 0 <= a -> parse_hex_acc a s = Some v ->
  hex_digits_acc (length s) v [] = s /\ v / 16 ^ Z.of_nat (length s) = a.
Proof.
  induction s as [|c r IH]; intros a v Ha H.
  - cbn [parse_hex_acc] in H. inversion H; subst. cbn [length hex_digits_acc].
    change (16 ^ Z.of_nat 0) with 1. rewrite Z.div_1_r. auto.
  - cbn [parse_hex_acc] in H. destruct (hexval_lower c) as [d|] eqn:Ed; [|discriminate].
    apply hexval_lower_inv in Ed as [Hd ->].
    apply IH in H as [H1 H2]; [|lia].
    cbn [length]. rewrite hex_digits_acc_S, H1, H2.
    assert (HP : 0 < 16 ^ Z.of_nat (length r)) by (apply Z.pow_pos_nonneg; lia).
    split.
    + f_equal. f_equal. lia.
    + rewrite Nat2Z.inj_succ, Z.pow_succ_r by lia.
      rewrite (Z.mul_comm 16), <- Z.div_div, H2 by lia. lia.
Qed.

Lemma parse_hex_canonical s m : parse_hex s = Some m -> 0 <= m /\ s = show_hex m.
Proof.
  unfold parse_hex. destruct s as [|c r]; [discriminate|].
  destruct (Z.eqb_spec c 48) as [->|Hc].
  - destruct r; [|discriminate]. intros H; inversion H; subst. split; [lia | reflexivity].
  - intros H. cbn [parse_hex_acc] in H.
    destruct (hexval_lower c) as [d|] eqn:Ed; [|discriminate].
    apply hexval_lower_inv in Ed as [Hd ->].
    assert (Hd1 : 1 <= d < 16).
    { unfold hexchar in Hc. destruct (Z.ltb_spec d 10); lia. }
    replace (0 * 16 + d) with d in H by lia.
    apply parse_hex_acc_digits in H as [H1 H2]; [|lia].
    set (k := length r) in *.
    assert (HP : 0 < 16 ^ Z.of_nat k) by (apply Z.pow_pos_nonneg; lia).
    assert (Hb : 16 ^ Z.of_nat k <= m < 16 * 16 ^ Z.of_nat k).
    { pose proof (Z.div_mod m (16 ^ Z.of_nat k) ltac:(lia)) as Hdm.
      pose proof (Z.mod_pos_bound m (16 ^ Z.of_nat k) HP) as Hmb.
      rewrite H2 in Hdm. nia. }
    assert (Hlen : hex_len m = S k).
    { apply hex_len_unique; [lia|]. rewrite Nat2Z.inj_succ.
      replace (Z.succ (Z.of_nat k) - 1) with (Z.of_nat k) by lia.
      rewrite Z.pow_succ_r by lia. exact Hb. }
    split; [lia|]. unfold show_hex.
    destruct (Z.eqb_spec m 0); [lia|].
    rewrite Hlen, hex_digits_acc_S, H1, H2. rewrite Z.mod_small by lia. reflexivity.
Qed.

Theorem parse_signed_hex_canonical s z : parse_signed_hex s = Some z -> s = show_signed_hex z.
Proof.
  unfold parse_signed_hex. destruct s as [|c r]; [discriminate|].
  destruct (Z.eqb_spec c 45) as [->|Hc].
  - destruct (parse_hex r) as [m|] eqn:E; [|discriminate].
    destruct (Z.eqb_spec m 0); [discriminate|]. intros H; inversion H; subst.
    apply parse_hex_canonical in E as [Hm ->].
    unfold show_signed_hex. destruct (Z.ltb_spec (- m) 0); [|lia].
    rewrite Z.opp_involutive. reflexivity.
  - intros H. apply parse_hex_canonical in H as [Hm ->].
    unfold show_signed_hex. destruct (Z.ltb_spec z 0); [lia | reflexivity].
Qed.

(* -- the printed form always has the canonical shape -- *)

Lemma hex_digits_lower n m : forallb is_lower_hex (hex_digits_acc n m []) = true.
Proof.
  rewrite hex_digits_acc_nibbles, app_nil_r. apply forallb_forall. intros c Hc.
  apply in_rev in Hc. apply in_map_iff in Hc as (v & <- & Hv).
  pose proof (nibbles_le_range n m) as HR. rewrite Forall_forall in HR.
  apply hexchar_lower. apply HR. exact Hv.
Qed.

Lemma show_hex_format m : 0 <= m -> hex_magnitude_format (show_hex m) = true.
Proof.
  intros Hm. unfold show_hex. destruct (Z.eqb_spec m 0) as [->|Hne]; [reflexivity|].
  destruct (hex_top_digit m ltac:(lia)) as (k & v & Hk & Hv & Heq).
  unfold hex_magnitude_format. rewrite Heq.
  destruct (hexchar_not_special v Hv) as [-> _].
  rewrite <- Heq. apply hex_digits_lower.
Qed.

Theorem show_signed_hex_format z : signed_hex_format (show_signed_hex z) = true.
Proof.
  unfold show_signed_hex. destruct (Z.ltb_spec z 0) as [Hneg|Hpos].
  - cbn [signed_hex_format]. rewrite Z.eqb_refl, show_hex_format by lia. cbn [andb].
    apply negb_true_iff. apply not_true_iff_false. intros Hb. apply beq_spec in Hb.
    pose proof (parse_show_hex (- z) ltac:(lia)) as Hp. rewrite Hb in Hp. cbn in Hp. inversion Hp. lia.
  - pose proof (show_hex_first_not_minus z Hpos) as Hs.
    pose proof (show_hex_format z Hpos) as Hf.
    unfold signed_hex_format. destruct (show_hex z) as [|c r]; [discriminate Hf|].
    cbn [starts_minus] in Hs. rewrite Hs. exact Hf.
Qed.

Theorem show_signed_hex_minus z : starts_minus (show_signed_hex z) = (z <? 0).
Proof.
  unfold show_signed_hex. destruct (Z.ltb_spec z 0) as [Hneg|Hpos]; [reflexivity|].
  apply show_hex_first_not_minus; exact Hpos.
Qed.

Theorem show_signed_hex_injective a b : show_signed_hex a = show_signed_hex b -> a = b.
Proof.
  intros H. pose proof (parse_show_signed_hex a) as Ha. rewrite H, parse_show_signed_hex in Ha.
  congruence.
Qed.
