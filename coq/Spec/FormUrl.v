(* Passage.Spec.FormUrl - application/x-www-form-urlencoded (WHATWG URL standard, section
   "application/x-www-form-urlencoded"), stated on byte strings, independent of passage.

   Serialiser [enc] = the "urlencoded byte serializer" exactly as implemented by
   form_urlencoded 1.2.2 `byte_serialize` (lib.rs): the bytes  * - . _  and ASCII
   alphanumerics stay, 0x20 becomes '+', every other byte becomes '%' followed by two
   UPPER-CASE hex digits (percent_encoding::percent_encode_byte).  It is applied to the
   UTF-8 bytes of a Rust &str (form_urlencoded::encode without an encoding override is
   `input.as_bytes()`), so no knowledge of UTF-8 is needed here: multi-byte scalars are
   simply sequences of bytes >= 0x80.

   Parser [parse_query] = form_urlencoded 1.2.2 `parse` (the "urlencoded parser"): split on
   '&', skip empty sequences, split each sequence at its FIRST '=', (missing '=' gives an
   empty value), replace '+' by 0x20 and then percent-decode name and value.  The percent
   decoder [pct_dec] is percent_encoding 2.3.2 `percent_decode`: a '%' followed by two hex
   digits of either case is one byte, any other '%' is kept literally.  The final
   `String::from_utf8_lossy` of the crate is NOT modelled: values are compared as bytes
   (it is the identity on valid UTF-8).

   [pct_ok] recognises strings in which every '%' starts a valid escape; on such strings
   strict decoders (which reject a stray '%') and the lenient one above agree.

   Request targets: [strip_fragment], [target_path], [target_query] cut an URL or an HTTP
   request target at the first '#' and then at the first '?' (RFC 3986 section 3). *)
From Passage Require Import Lib.Bytes.

Definition inrange (lo hi b : Z) : bool := (lo <=? b) && (b <=? hi).

(* ---------------------------------------------------------------- serialiser *)
(* byte_serialized_unchanged:  b'*' | b'-' | b'.' | b'0'..=b'9' | b'A'..=b'Z' | b'_' | b'a'..=b'z' *)
Definition unchanged (b : Z) : bool :=
  (b =? 42) || (b =? 45) || (b =? 46) || inrange 48 57 b || inrange 65 90 b || (b =? 95) || inrange 97 122 b.

(* upper-case hex digit of 0..15 *)
Definition hexdig_upper (v : Z) : Z := if v <? 10 then 48 + v else 55 + v.

Definition enc_byte (b : Z) : bytes :=
  if unchanged b then [b]
  else if b =? 32 then [43]
  else [37; hexdig_upper (b / 16); hexdig_upper (b mod 16)].

Definition enc (l : bytes) : bytes := flat_map enc_byte l.

(* ---------------------------------------------------------------- decoder *)
(* char::to_digit(16): 0-9, a-f, A-F *)
Definition hexval_any (c : Z) : option Z :=
  if inrange 48 57 c then Some (c - 48)
  else if inrange 97 102 c then Some (c - 87)
  else if inrange 65 70 c then Some (c - 55)
  else None.

Definition is_hexdig (c : Z) : bool := match hexval_any c with Some _ => true | None => false end.

(* percent_decode: after_percent_sign(..).unwrap_or(b'%') *)
Fixpoint pct_dec (l : bytes) : bytes :=
  match l with
  | [] => []
  | b :: r =>
      if b =? 37 then
        match r with
        | h :: r1 =>
            match r1 with
            | lo :: r2 =>
                match hexval_any h, hexval_any lo with
                | Some x, Some y => (x * 16 + y) :: pct_dec r2
                | _, _ => 37 :: pct_dec r
                end
            | [] => 37 :: pct_dec r
            end
        | [] => 37 :: pct_dec r
        end
      else b :: pct_dec r
  end.

(* replace_plus *)
Definition plus_to_space (l : bytes) : bytes := map (fun b => if b =? 43 then 32 else b) l.

(* form_urlencoded::decode without the lossy UTF-8 step *)
Definition dec (l : bytes) : bytes := pct_dec (plus_to_space l).

(* every '%' is followed by two hex digits; st = number of hex digits still owed *)
Fixpoint pct_ok_st (st : nat) (l : bytes) : bool :=
  match l with
  | [] => match st with O => true | S _ => false end
  | b :: r =>
      match st with
      | O => if b =? 37 then pct_ok_st 2 r else pct_ok_st 0 r
      | S k => is_hexdig b && pct_ok_st k r
      end
  end.
Definition pct_ok (l : bytes) : bool := pct_ok_st 0 l.

(* ---------------------------------------------------------------- splitting *)
(* slice::split: the pieces between separators; never the empty list *)
Fixpoint split_on (sep : Z) (l : bytes) : list bytes :=
  match l with
  | [] => [[]]
  | b :: r =>
      if b =? sep then [] :: split_on sep r
      else match split_on sep r with
           | p :: ps => (b :: p) :: ps
           | [] => [[b]]            (* unreachable *)
           end
  end.

(* slice::splitn(2, ..): the part before the first separator and, if there is one, the rest *)
Fixpoint split_first (sep : Z) (l : bytes) : bytes * option bytes :=
  match l with
  | [] => ([], None)
  | b :: r =>
      if b =? sep then ([], Some r)
      else let (a, t) := split_first sep r in (b :: a, t)
  end.

Definition nonempty (l : bytes) : bool := match l with [] => false | _ :: _ => true end.

Definition parse_pair (s : bytes) : bytes * bytes :=
  let (n, v) := split_first 61 s in
  (dec n, dec (match v with Some x => x | None => [] end)).

(* form_urlencoded::parse(..).collect() *)
Definition parse_query (q : bytes) : list (bytes * bytes) :=
  map parse_pair (filter nonempty (split_on 38 q)).

(* ---------------------------------------------------------------- URL / request target *)
Definition strip_fragment (t : bytes) : bytes := fst (split_first 35 t).
Definition target_path (t : bytes) : bytes := fst (split_first 63 (strip_fragment t)).
Definition target_query (t : bytes) : bytes :=
  match snd (split_first 63 (strip_fragment t)) with Some q => q | None => [] end.
Definition has_byte (c : Z) (l : bytes) : bool := existsb (fun b => b =? c) l.

(* byte that cannot act as a delimiter or break the request line: visible ASCII other than
   & = # ? / *)
Definition inert (c : Z) : bool :=
  inrange 33 126 c && negb ((c =? 38) || (c =? 61) || (c =? 35) || (c =? 63) || (c =? 47)).

(* lookup by key, all values in order of appearance *)
Definition values_of (k : bytes) (ps : list (bytes * bytes)) : list bytes :=
  map snd (filter (fun p => beq (fst p) k) ps).

(* ---------------------------------------------------------------- examples *)
(* the doc test of form_urlencoded::Serializer::finish:
   foo=bar+%26+baz&saison=%C3%89t%C3%A9%2Bhiver *)
Example enc_doc1 : enc (str "bar & baz") = str "bar+%26+baz". Proof. vm_compute. reflexivity. Qed.
Example enc_doc2 : enc ([195; 137] ++ str "t" ++ [195; 169] ++ str "+hiver") = str "%C3%89t%C3%A9%2Bhiver".
Proof. vm_compute. reflexivity. Qed.
Example enc_unchanged : enc (str "*-._09AZaz") = str "*-._09AZaz". Proof. vm_compute. reflexivity. Qed.
Example enc_tilde : enc (str "~!'()") = str "%7E%21%27%28%29". Proof. vm_compute. reflexivity. Qed.
Example enc_ctl : enc [0; 9; 10; 13; 127; 255] = str "%00%09%0A%0D%7F%FF". Proof. vm_compute. reflexivity. Qed.
Example enc_empty : enc [] = []. Proof. reflexivity. Qed.
(* the doc test of form_urlencoded::parse: %23first=%25try%25 -> ("#first", "%try%") *)
Example parse_doc : parse_query (str "%23first=%25try%25") = [(str "#first", str "%try%")].
Proof. vm_compute. reflexivity. Qed.
Example parse_shapes :
  parse_query (str "a=1&&b&=c&d=e=f&+x+=%2b%2B&g=%zz%4") =
  [(str "a", str "1"); (str "b", []); ([], str "c"); (str "d", str "e=f"); (str " x ", str "++"); (str "g", str "%zz%4")].
Proof. vm_compute. reflexivity. Qed.
Example parse_empty : parse_query [] = [] /\ parse_query (str "&&") = []. Proof. vm_compute. auto. Qed.
Example pct_ok_ex : map pct_ok [str "a%2Fb%c3"; str "%"; str "a%2"; str "%zz"; str "100%"; []] = [true; false; false; false; false; true].
Proof. vm_compute. reflexivity. Qed.
Example target_ex :
  (target_path (str "/p/q?a=b?c#f?g"), target_query (str "/p/q?a=b?c#f?g"), target_query (str "/p#x?y=z"), target_query (str "/p?"))
  = (str "/p/q", str "a=b?c", [], []).
Proof. vm_compute. reflexivity. Qed.
