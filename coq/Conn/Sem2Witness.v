(* Concrete schedules on which the byte-level behaviour (M2, validated against the real
   handler case by case) differs from the frame-level behaviour (M1 applied to the reader's
   output): the known classes K1 / K4 of C08, as closed terms evaluated by the kernel. *)
From Passage Require Import Lib.Bytes Codec.VarInt Codec.Desc Gen.PacketsGen Gen.ConstsGen
  Codec.PacketCheck Conn.Types Conn.Prog Conn.Sem1 Conn.Sem2Old Conn.Reader.
Import OldM2.

Definition mkframe (id : Z) (body : bytes) : bytes :=
  write_varint (Z.of_nat (length (write_varint id) + length body)) ++ write_varint id ++ body.
Definition pframe (p : packet) (vs : list fv) : bytes :=
  match enc (kinds p) vs with Some b => mkframe (p_id p) b | None => [] end.

(* a toy world: RSA "decrypts" to the ciphertext itself, one backend, fixed latencies *)
Definition w_o : oracles := {| o_rsa := fun ct => Some ct; o_parse_session := fun _ => JErr; o_parse_auth := fun _ => JErr;
  o_ser_auth := fun _ => []; o_ser_session := fun _ => [7] |}.
Definition w_client : sockaddr := {| sa_ip := [127; 0; 0; 1]; sa_port := 40000 |}.
Definition w_cfg : conn_cfg := {| cf_client := w_client; cf_secret := None; cf_max_len := 10000; cf_expiry := 21600; cf_pubkey := [1; 2; 3] |}.
Definition w_t : target := {| t_id := [116]; t_addr := {| sa_ip := [49; 48; 46; 48; 46; 48; 46; 49]; sa_port := 25565 |}; t_meta := [] |}.
Definition w_e : env := {|
  e_res := fun c => match c with
    | CStatus _ _ _ _ => (RStatus [123; 125], 5)
    | CAuth _ _ _ _ n u _ _ => (RProfile n u [], 5)
    | CDiscover => (RTargets [w_t], 200)
    | CFilter _ _ _ _ _ _ ts => (RTargets ts, 100)
    | CSelect _ _ _ _ _ _ ts => (RTarget (hd_error ts), 50)
    | CLocalize _ _ => (RText [120], 0)
    end;
  e_fresh := fun w n => match w with RToken => [9; 9; 9; 9] | RUuid => repeat 1 16 | RKeepAlive => [0; 0; 0; 0; 0; 0; 0; Z.of_nat n + 1] end;
  e_now := fun _ => 1700000000 |}.

Definition w_login : list (Z * option bytes) :=
  [(1, Some (pframe handshake_sb_HandshakePacket [VZ 769; VB [104]; VZ 25565; VZ 1]));
   (3, Some (pframe login_sb_LoginStartPacket [VB [80; 108; 97; 121; 101; 114]; VZ 5]));
   (5, Some (pframe login_sb_CookieResponsePacket [VB session_key_b; VOpt None]));
   (7, Some (pframe login_sb_EncryptionResponsePacket [VB (repeat 3 16); VB [9; 9; 9; 9]]));
   (20, Some (pframe login_sb_LoginAcknowledgedPacket []))].
Definition w_info : bytes := mkframe 0 [5; 100; 101; 95; 68; 69; 90; 0; 0; 49; 1; 1; 0; 1].
Definition w_echo : bytes := mkframe 4 [0; 0; 0; 0; 0; 0; 0; 7].       (* a 10-byte Keep Alive echo *)

Fixpoint last_end (tr : trace) : option outcome :=
  match tr with [] => None | (_, TEnd o) :: _ => Some o | _ :: r => last_end r end.
Fixpoint sent_ids (tr : trace) : list Z :=
  match tr with [] => [] | (_, TSend p _) :: r => p_id p :: sent_ids r | _ :: r => sent_ids r end.

(* K1: discovery (200 ms, started by the Client Information at 1001) completes at 1201, between
   the two halves of the echo *)
Definition k1_whole := w_login ++ [(1001, Some w_info); (1203, Some w_echo)].
Definition k1_split := w_login ++ [(1001, Some w_info); (1199, Some (firstn 5 w_echo)); (1203, Some (skipn 5 w_echo))].

(* K4 (deferral): a frame header declaring 10000 bytes, then silence *)
Definition k4_header := w_login ++ [(30, Some [144; 78])].

(* K4 (prefix): the first byte of a two-byte length prefix arrives 1 ms before the tick at
   16000 ms, the rest 3 ms after it; receive_packet(false), status flow *)
Definition big_handshake : bytes := pframe handshake_sb_HandshakePacket [VZ 769; VB (repeat 97 130); VZ 25565; VZ 0].
Definition k4_prefix_whole := [(16003, Some big_handshake); (16010, Some (mkframe 0 [])); (16500, None)].
Definition k4_prefix_split := [(15999, Some (firstn 1 big_handshake)); (16003, Some (skipn 1 big_handshake)); (16010, Some (mkframe 0 [])); (16500, None)].
