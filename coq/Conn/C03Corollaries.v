(* C03 in plain terms, derived from the acceptance of the C03 monitor. *)
From Passage Require Import Lib.Bytes Codec.VarInt Codec.Desc Gen.PacketsGen Gen.ConstsGen
  Codec.PacketCheck Crypto.Cookie Conn.Types Conn.Prog Conn.Sem1 Conn.Monitor Conn.MonitorProofs
  Conn.Order Conn.OrderProofs Conn.Checks Conn.HistoryProofs Conn.TraceLib Conn.C06Corollaries.

(* the answer of the selection strategy *)
Definition select_result (e : tev) : option cres :=
  match e with TRes (CSelect _ _ _ _ _ _ _) r => Some r | _ => None end.

(* the locale a Client Information frame reports *)
Definition locale_of_frame (b : bytes) : option bytes :=
  match dec_of configuration_sb_ClientInformationPacket b with
  | Some (VB loc :: _) => Some loc
  | _ => None
  end.

(* [b] is the Client Information of the connection: the first frame with that packet id
   read after Login Success was sent *)
Definition client_info (pre : list tev) (b : bytes) : Prop :=
  exists pre0 p vs mid pre2,
    pre = pre0 ++ TSend p vs :: mid ++ TRecv ci_id b :: pre2
    /\ is_pkt p login_cb_LoginSuccessPacket = true
    /\ forall b', ~ In (TRecv ci_id b') mid.

(* an adapter answer of the shape the handler can continue with *)
Definition answer_usable (c : call) (r : cres) : bool :=
  match c, r with
  | CDiscover, RTargets _ => true
  | CFilter _ _ _ _ _ _ _, RTargets _ => true
  | CSelect _ _ _ _ _ _ _, RTarget _ => true
  | _, _ => false
  end.

Definition is_transfer (e : tev) : Prop :=
  exists p vs, e = TSend p vs /\ is_pkt p configuration_cb_TransferPacket = true.

Lemma reported_locale_cons e hh : reported_locale (e :: hh) =
  match e with
  | TSend p _ => if is_pkt p login_cb_LoginSuccessPacket then None else reported_locale hh
  | TRecv id b => if id =? ci_id then match locale_of_frame b with Some l => Some l | None => reported_locale hh end
                  else reported_locale hh
  | _ => reported_locale hh
  end.
Proof.
  unfold reported_locale. cbn [fold_right]. destruct e; cbn [find_ev]; try reflexivity.
  - destruct (id =? ci_id); [|reflexivity]. unfold locale_of_frame.
    destruct (dec_of configuration_sb_ClientInformationPacket body) as [[|[] ?]|]; reflexivity.
  - destruct (is_pkt p login_cb_LoginSuccessPacket); reflexivity.
Qed.

Section C03.
  Variable tr : list tev.
  Let chk := chk_c03.
  Hypothesis Hacc : ok (step_with chk) m_init tr.
  Notation step := (step_with chk).

  Lemma res_of_select_latest pre st : run step m_init pre = Some st ->
    res_of_select (h st) = latest select_result pre.
  Proof.
    intros E. unfold res_of_select. apply (latest_hist0 chk select_result); [|exact E].
    intros x Hx. destruct x; try reflexivity; discriminate.
  Qed.

  (* ---- the candidate lists are passed on unchanged ---- *)
  (* the filter call directly follows discovery's answer and is given exactly its list *)
  Theorem filter_gets_discovery pre cl host port proto n u ts post :
    tr = pre ++ TCall (CFilter cl host port proto n u ts) :: post ->
    exists pre1, pre = pre1 ++ [TRes CDiscover (RTargets ts)].
  Proof.
    intros Htr. destruct (event_recorded chk _ _ _ _ Hacc Htr eq_refl) as (st & q' & E & Hd & Hc & _).
    cbn [delta] in Hd. unfold goto in Hd. split_ifs Hd. assert (Hq : q st = 35) by lia.
    destruct (last_event chk _ _ E) as (pre1 & x & st1 & -> & E1 & _ & Hd1 & _ & Hh); [lia | rewrite Hq; reflexivity|].
    rewrite Hq in Hd1. delta_cases Hd1 x; try zlia.
    unfold chk, chk_c03 in Hc. rewrite Hh in Hc. cbn [newest_res find_ev] in Hc.
    destruct r; try discriminate. apply targets_eqb_eq in Hc. subst. exists pre1. reflexivity.
  Qed.

  (* the selection call directly follows the filters' answer and is given exactly its list *)
  Theorem select_gets_filter pre cl host port proto n u ts post :
    tr = pre ++ TCall (CSelect cl host port proto n u ts) :: post ->
    exists pre1 cl' host' port' proto' n' u' ts0,
      pre = pre1 ++ [TRes (CFilter cl' host' port' proto' n' u' ts0) (RTargets ts)].
  Proof.
    intros Htr. destruct (event_recorded chk _ _ _ _ Hacc Htr eq_refl) as (st & q' & E & Hd & Hc & _).
    cbn [delta] in Hd. unfold goto in Hd. split_ifs Hd. assert (Hq : q st = 37) by lia.
    destruct (last_event chk _ _ E) as (pre1 & x & st1 & -> & E1 & _ & Hd1 & _ & Hh); [lia | rewrite Hq; reflexivity|].
    rewrite Hq in Hd1. delta_cases Hd1 x; try zlia.
    unfold chk, chk_c03 in Hc. rewrite Hh in Hc. cbn [newest_res find_ev] in Hc.
    destruct r; try discriminate. apply targets_eqb_eq in Hc. subst. eexists _, _, _, _, _, _, _, _. reflexivity.
  Qed.

  (* ---- the Transfer carries the chosen target's address ---- *)
  Theorem transfer_is_choice pre vs post :
    tr = pre ++ TSend configuration_cb_TransferPacket vs :: post ->
    exists t, latest select_result pre = Some (RTarget (Some t))
              /\ vs = [VB (sa_ip (t_addr t)); VZ (sa_port (t_addr t))].
  Proof.
    intros Htr. destruct (event_recorded chk _ _ _ _ Hacc Htr eq_refl) as (st & q' & E & _ & Hc & _).
    unfold chk, chk_c03 in Hc.
    change (is_pkt configuration_cb_TransferPacket configuration_cb_TransferPacket) with true in Hc. cbv iota in Hc.
    rewrite (res_of_select_latest _ _ E) in Hc.
    destruct vs as [|[] [|[] [|]]]; try discriminate.
    destruct (latest select_result pre) as [[| | |[t|]| |]|]; try discriminate.
    apply andb_true_iff in Hc as [H1 H2]. apply beq_spec in H1. apply Z.eqb_eq in H2. subst.
    exists t. auto.
  Qed.

  (* the selection strategy answers at most once, so "the latest answer" is "the answer" *)
  Theorem select_once a c1 r1 b c2 r2 c :
    tr = a ++ TRes c1 r1 :: b ++ TRes c2 r2 :: c ->
    select_result (TRes c1 r1) <> None -> select_result (TRes c2 r2) <> None -> False.
  Proof.
    intros Htr H1 H2.
    destruct (event_recorded chk _ _ _ _ Hacc Htr eq_refl) as (st & q' & E & Hd & _ & Hok).
    destruct c1; try (cbn in H1; congruence). destruct c2; try (cbn in H2; congruence).
    cbn [delta] in Hd. unfold goto in Hd. split_ifs Hd. injection Hd as <-.
    destruct (ok_split chk _ _ _ Hok) as (st2 & E2 & Hok2).
    pose proof (run_mono chk _ _ _ E2) as Hm. cbn [q] in Hm.
    destruct (ok_cons chk _ _ _ Hok2) as (st3 & Hs3 & _).
    destruct (step_cases chk _ _ _ Hs3) as [[Hi _]|(_ & q3 & Hd3 & _)]; [apply internal_at_internal in Hi; discriminate|].
    cbn [delta] in Hd3. unfold goto in Hd3. split_ifs Hd3. lia.
  Qed.

  (* the Transfer is the last packet: after it at most the end marker follows *)
  Theorem transfer_last pre p vs post :
    tr = pre ++ TSend p vs :: post -> is_pkt p configuration_cb_TransferPacket = true -> ends post.
  Proof. intros Htr Hp. eapply (nothing_after_final chk tr Hacc); eauto. Qed.

  (* ---- the locale of the connection ---- *)
  Lemma enter_31_32 q e q' : delta q e = Some q' -> 31 <= q' <= 32 ->
    (q = 30 /\ q' = 31 /\ exists p vs, e = TSend p vs /\ is_pkt p login_cb_LoginSuccessPacket = true)
    \/ (q = 31 /\ q' = 32 /\ exists b, e = TRecv 3 b).
  Proof.
    intros H Hq. delta_cases H e; try zlia.
    - right. assert (id = 3) by lia. subst. repeat split; try lia. eexists; reflexivity.
    - left. repeat split; try zlia. eexists _, _. split; [reflexivity | assumption].
  Qed.

  Lemma enter_33_52 q e q' : delta q e = Some q' -> 33 <= q' <= 52 ->
    (q = 32 /\ exists b, e = TRecv ci_id b)
    \/ (33 <= q <= 52 /\ match e with
                         | TRecv _ _ => False
                         | TSend p _ => is_pkt p login_cb_LoginSuccessPacket = false
                         | _ => True end).
  Proof.
    intros H Hq. delta_cases H e; try zlia; try (right; split; [zlia | first [exact I | assumption]]).
    left. split; [lia|]. match goal with H : (_ =? ci_id) = true |- _ => apply Z.eqb_eq in H; subst end.
    eexists; reflexivity.
  Qed.

  Lemma locale_inv : forall pre st, run step m_init pre = Some st ->
    (31 <= q st <= 32 ->
       reported_locale (h st) = None
       /\ exists pre0 p vs mid, pre = pre0 ++ TSend p vs :: mid /\ is_pkt p login_cb_LoginSuccessPacket = true
                                /\ forall b', ~ In (TRecv ci_id b') mid)
    /\ (33 <= q st <= 52 -> exists b, client_info pre b /\ reported_locale (h st) = locale_of_frame b).
  Proof.
    apply (run_ind chk (fun pre st =>
      (31 <= q st <= 32 ->
         reported_locale (h st) = None
         /\ exists pre0 p vs mid, pre = pre0 ++ TSend p vs :: mid /\ is_pkt p login_cb_LoginSuccessPacket = true
                                  /\ forall b', ~ In (TRecv ci_id b') mid)
      /\ (33 <= q st <= 52 -> exists b, client_info pre b /\ reported_locale (h st) = locale_of_frame b))).
    - cbn. split; lia.
    - intros pre st x st' Hr [IH1 IH2] Hs.
      destruct (step_cases _ _ _ _ Hs) as [[Hi ->]|(_ & q' & Hd & _ & ->)].
      + (* a keep-alive event: the history is unchanged, the trace grows *)
        split; intros Hq.
        * destruct (IH1 Hq) as (Hl & pre0 & p & vs & mid & -> & Hp & Hmid). split; [exact Hl|].
          exists pre0, p, vs, (mid ++ [x]). rewrite <- app_assoc. split; [reflexivity|]. split; [exact Hp|].
          intros b' Hin. apply in_app_or in Hin as [Hin|[Hin|[]]]; [eapply Hmid; eauto|]. subst x.
          unfold internal_at in Hi. apply orb_prop in Hi as [Hi|Hi]; apply andb_prop in Hi as [Hq1 Hi]; [|lia].
          cbn [internal] in Hi. rewrite Z.eqb_refl in Hi. discriminate.
        * destruct (IH2 Hq) as (b & (pre0 & p & vs & mid & pre2 & -> & Hp & Hmid) & Hl). exists b. split; [|exact Hl].
          exists pre0, p, vs, mid, (pre2 ++ [x]). split; [|split; assumption].
          rewrite <- app_assoc. cbn [app]. rewrite <- app_assoc. reflexivity.
      + cbn [q h]. split; intros Hq.
        * destruct (enter_31_32 _ _ _ Hd Hq) as [(Hq0 & -> & p & vs & -> & Hp)|(Hq0 & -> & b & ->)].
          -- rewrite reported_locale_cons, Hp. split; [reflexivity|]. exists pre, p, vs, []. split; [reflexivity|]. split; [exact Hp|].
             intros b' [].
          -- destruct IH1 as (Hl & pre0 & p & vs & mid & -> & Hp & Hmid); [lia|].
             rewrite reported_locale_cons. change (3 =? ci_id) with false. cbv iota. split; [exact Hl|].
             exists pre0, p, vs, (mid ++ [TRecv 3 b]). rewrite <- app_assoc. split; [reflexivity|]. split; [exact Hp|].
             intros b' Hin. apply in_app_or in Hin as [Hin|[Hin|[]]]; [eapply Hmid; eauto | discriminate].
        * destruct (enter_33_52 _ _ _ Hd Hq) as [(Hq0 & b & ->)|(Hq0 & Hx)].
          -- destruct IH1 as (Hl & pre0 & p & vs & mid & -> & Hp & Hmid); [lia|].
             exists b. split.
             ++ exists pre0, p, vs, mid, []. split; [rewrite <- app_assoc; reflexivity|]. split; assumption.
             ++ rewrite reported_locale_cons, Z.eqb_refl, Hl. destruct (locale_of_frame b); reflexivity.
          -- destruct (IH2 Hq0) as (b & (pre0 & p & vs & mid & pre2 & -> & Hp & Hmid) & Hl). exists b. split.
             ++ exists pre0, p, vs, mid, (pre2 ++ [x]). split; [|split; assumption].
                rewrite <- app_assoc. cbn [app]. rewrite <- app_assoc. reflexivity.
             ++ rewrite reported_locale_cons. destruct x; try contradiction; try exact Hl. rewrite Hx. exact Hl.
  Qed.

  (* ---- no target: the configured message for the client's locale, and no Transfer ---- *)
  (* what can follow the selection's answer "no target": the localisation call for the
     no-target message in the locale the Client Information reported, its answer, a
     Disconnect carrying exactly that text, the (unsuccessful) end - or an earlier
     unsuccessful end *)
  Theorem no_target_then pre cl host port proto n u ts post :
    tr = pre ++ TRes (CSelect cl host port proto n u ts) (RTarget None) :: post ->
    ends_badly post \/
    exists b post1,
      client_info pre b /\ post = TCall (CLocalize (locale_of_frame b) key_no_target) :: post1 /\
      (ends_badly post1 \/
       exists l k r post2, post1 = TRes (CLocalize l k) r :: post2 /\
         (ends_badly post2 \/
          exists msg p post3, r = RText msg /\ post2 = TSend p [VB msg] :: post3
            /\ is_pkt p configuration_cb_DisconnectPacket = true /\ ends_badly post3)).
  Proof.
    intros Htr. destruct (event_recorded chk _ _ _ _ Hacc Htr eq_refl) as (st & q' & E & Hd & _ & Hok).
    cbn [delta] in Hd. unfold goto in Hd. split_ifs Hd. injection Hd as <-. assert (Hq : q st = 38) by lia.
    destruct (proj2 (locale_inv _ _ E)) as (b & Hci & Hl); [lia|].
    set (e0 := TRes (CSelect cl host port proto n u ts) (RTarget None)) in *.
    destruct post as [|e1 post1]; [left; left; reflexivity|].
    destruct (first_event chk _ _ _ Hok eq_refl) as (q1 & Hd1 & Hc1 & Hok1). cbn [q h] in *.
    assert (Hcase : (exists o, e1 = TEnd o) \/ (e1 = TCall (CLocalize (locale_of_frame b) key_no_target) /\ q1 = 50)).
    { unfold chk, chk_c03 in Hc1. cbn [q h] in Hc1.
      delta_cases Hd1 e1; try zlia; try (left; eexists; reflexivity).
      - (* Transfer *) exfalso. subst e0. cbn [res_of_select find_ev] in Hc1. destruct vs as [|[] [|[] [|]]]; discriminate.
      - (* no-target localisation *)
        right. split; [|lia]. apply andb_true_iff in Hc1 as [Hc1 _]. apply obytes_eq_eq in Hc1.
        unfold e0 in Hc1. rewrite reported_locale_cons, Hl in Hc1.
        match goal with H : beq key key_no_target = true |- _ => apply beq_spec in H end. subst. reflexivity.
      - (* session id *) discriminate.
      - (* clock *) discriminate. }
    destruct Hcase as [[o ->]|[-> ->]].
    { left. eapply (ends_badly_end chk); [exact Hok | reflexivity | cbn; lia | cbn; lia]. }
    right. exists b, post1. split; [exact Hci|]. split; [reflexivity|].
    destruct post1 as [|e2 post2]; [left; left; reflexivity|].
    destruct (first_event chk _ _ _ Hok1 eq_refl) as (q2 & Hd2 & Hc2 & Hok2). cbn [q h] in *.
    assert (Hcase : (exists o, e2 = TEnd o) \/ (exists l k r, e2 = TRes (CLocalize l k) r /\ q2 = 51)).
    { delta_cases Hd2 e2; try zlia; try (left; eexists; reflexivity). right. eexists _, _, _. split; [reflexivity | lia]. }
    destruct Hcase as [[o ->]|(l & k & r & -> & ->)].
    { left. eapply (ends_badly_end chk); [exact Hok1 | reflexivity | cbn; lia | cbn; lia]. }
    right. exists l, k, r, post2. split; [reflexivity|].
    destruct post2 as [|e3 post3]; [left; left; reflexivity|].
    destruct (first_event chk _ _ _ Hok2 eq_refl) as (q3 & Hd3 & Hc3 & Hok3). cbn [q h] in *.
    assert (Hcase : (exists o, e3 = TEnd o) \/
                    (exists msg p, e3 = TSend p [VB msg] /\ r = RText msg /\ is_pkt p configuration_cb_DisconnectPacket = true /\ q3 = 52)).
    { unfold chk, chk_c03 in Hc3. cbn [q h] in Hc3.
      delta_cases Hd3 e3; try zlia; try (left; eexists; reflexivity).
      right. destruct vs as [|[] [|]]; try discriminate. destruct r; try discriminate.
      apply beq_spec in Hc3. subst. eexists _, _. repeat split; try assumption; lia. }
    destruct Hcase as [[o ->]|(msg & p & -> & -> & Hp & ->)].
    { left. eapply (ends_badly_end chk); [exact Hok2 | reflexivity | cbn; lia | cbn; lia]. }
    right. exists msg, p, post3. repeat split; try assumption.
    destruct post3 as [|e4 post4]; [left; reflexivity|].
    destruct (first_event chk _ _ _ Hok3 eq_refl) as (q4 & Hd4 & _ & _). cbn [q h] in *.
    assert (exists o, e4 = TEnd o) as [o ->] by (delta_cases Hd4 e4; try zlia; eexists; reflexivity).
    eapply (ends_badly_end chk); [exact Hok3 | reflexivity | cbn; lia | cbn; lia].
  Qed.

  Lemma ends_badly_no_send l p vs : ends_badly l -> ~ In (TSend p vs) l.
  Proof. intros [->|(o & -> & _)] Hin; [destruct Hin | destruct Hin as [Hin|[]]; discriminate]. Qed.

  Lemma ends_no_event l e : ends l -> In e l -> exists o, e = TEnd o.
  Proof. intros [->|(o & ->)] Hin; [destruct Hin | destruct Hin as [<-|[]]; eexists; reflexivity]. Qed.

  (* no Transfer before an adapter answer: a Transfer is the last thing that happens *)
  Lemma no_transfer_before pre c r post p vs :
    tr = pre ++ TRes c r :: post -> In (TSend p vs) pre -> is_pkt p configuration_cb_TransferPacket = false.
  Proof.
    intros Htr Hin. destruct (is_pkt p configuration_cb_TransferPacket) eqn:Hp; [exfalso|reflexivity].
    apply in_split in Hin as (a & b & ->).
    assert (Htr' : tr = a ++ TSend p vs :: (b ++ TRes c r :: post)) by (rewrite Htr, <- app_assoc; reflexivity).
    pose proof (transfer_last _ _ _ _ Htr' Hp) as He.
    destruct (ends_no_event _ (TRes c r) He) as (o & Ho); [apply in_or_app; right; left; reflexivity | discriminate].
  Qed.

  (* when no target is chosen, no Transfer is ever sent on the connection *)
  Theorem no_target_no_transfer pre cl host port proto n u ts post p vs :
    tr = pre ++ TRes (CSelect cl host port proto n u ts) (RTarget None) :: post ->
    In (TSend p vs) tr -> is_pkt p configuration_cb_TransferPacket = false.
  Proof.
    intros Htr Hin. rewrite Htr in Hin. apply in_app_or in Hin as [Hin|[Hin|Hin]]; [eapply no_transfer_before; eauto | discriminate |].
    destruct (no_target_then _ _ _ _ _ _ _ _ _ Htr) as [He|(b & post1 & _ & -> & H1)].
    { exfalso. eapply ends_badly_no_send; eauto. }
    destruct Hin as [Hin|Hin]; [discriminate|].
    destruct H1 as [He|(l & k & r & post2 & -> & H2)].
    { exfalso. eapply ends_badly_no_send; eauto. }
    destruct Hin as [Hin|Hin]; [discriminate|].
    destruct H2 as [He|(msg & p' & post3 & _ & -> & Hp & He)].
    { exfalso. eapply ends_badly_no_send; eauto. }
    destruct Hin as [Hin|Hin]; [|exfalso; eapply ends_badly_no_send; eauto].
    inversion Hin; subst. eapply is_pkt_trans_false; [exact Hp | reflexivity].
  Qed.

  (* ---- a failing adapter: the connection ends, nothing is transferred ---- *)
  Theorem failure_ends pre c r post :
    tr = pre ++ TRes c r :: post -> routing_call c = true -> answer_usable c r = false -> ends_badly post.
  Proof.
    intros Htr Hc Hr. destruct (event_recorded chk _ _ _ _ Hacc Htr eq_refl) as (st & q' & E & Hd & _ & Hok).
    assert (Hq : q' = 35 \/ q' = 37 \/ q' = 39).
    { destruct c; try discriminate; cbn [delta] in Hd; unfold goto in Hd; split_ifs Hd; injection Hd as Hd; lia. }
    eapply (only_end_ends chk _ _ Hok).
    - cbn [q]. destruct Hq as [->|[->| ->]]; reflexivity.
    - cbn [q h]. intros e q2 Hd2 Hc2. unfold chk, chk_c03 in Hc2. cbn [q h] in Hc2.
      assert (Hsel : match c with CSelect _ _ _ _ _ _ _ =>
                       res_of_select (TRes c r :: h st) = Some r | _ => True end).
      { destruct c; try exact I. reflexivity. }
      destruct c; try discriminate; cbn [delta] in Hd; unfold goto in Hd; split_ifs Hd; injection Hd as Hd; subst q';
        delta_cases Hd2 e; try zlia; try (eexists; split; [reflexivity | discriminate]); exfalso;
        cbn [newest_res find_ev] in Hc2; try rewrite Hsel in Hc2;
        repeat match goal with H : is_pkt _ _ = _ |- _ => rewrite H in Hc2 end;
        destruct r; try discriminate;
        try (rewrite andb_false_r in Hc2; discriminate Hc2);
        repeat match type of Hc2 with context [match ?v with _ => _ end] => destruct v; try discriminate end.
  Qed.

  Theorem failure_no_transfer pre c r post p vs :
    tr = pre ++ TRes c r :: post -> routing_call c = true -> answer_usable c r = false ->
    In (TSend p vs) tr -> is_pkt p configuration_cb_TransferPacket = false.
  Proof.
    intros Htr Hc Hr Hin. rewrite Htr in Hin. apply in_app_or in Hin as [Hin|[Hin|Hin]]; [eapply no_transfer_before; eauto | discriminate |].
    exfalso. eapply ends_badly_no_send; [eapply failure_ends; eauto | exact Hin].
  Qed.

  (* ---- every Disconnect carries exactly the text the localisation adapter returned ---- *)
  Theorem disconnect_text pre vs post :
    tr = pre ++ TSend configuration_cb_DisconnectPacket vs :: post ->
    exists pre1 l k msg, pre = pre1 ++ [TRes (CLocalize l k) (RText msg)] /\ vs = [VB msg].
  Proof.
    intros Htr. destruct (event_recorded chk _ _ _ _ Hacc Htr eq_refl) as (st & q' & E & Hd & Hc & _).
    assert (Hq : q st = 51 \/ q st = 61).
    { cbn in Hd. unfold goto in Hd. split_ifs Hd; lia. }
    destruct (last_event chk _ _ E) as (pre1 & x & st1 & -> & E1 & _ & Hd1 & _ & Hh);
      [lia | destruct Hq as [-> | ->]; reflexivity|].
    unfold chk, chk_c03 in Hc. rewrite Hh in Hc. cbn in Hc.
    destruct vs as [|[] [|]]; try discriminate. destruct x; try discriminate. destruct c; try discriminate.
    destruct r; try discriminate. apply beq_spec in Hc. subst. eexists _, _, _, _. split; reflexivity.
  Qed.
End C03.
