(* C06 in plain terms, derived from the acceptance of the order automaton (any monitor
   [step_with chk]) and of the C06 monitor: which packets are sent, in which order; that
   nothing follows the final packet; that routing waits for Login Acknowledged and Client
   Information; that a wrong packet in the early phases ends the connection silently; that
   the status exchange echoes the service's answer and the ping's payload. *)
From Passage Require Import Lib.Bytes Codec.VarInt Codec.Desc Gen.PacketsGen Gen.ConstsGen
  Codec.PacketCheck Crypto.Cookie Conn.Types Conn.Prog Conn.Sem1 Conn.Monitor Conn.MonitorProofs
  Conn.Order Conn.OrderProofs Conn.Checks Conn.HistoryProofs Conn.TraceLib.

(* ---------- the packets a trace sends, by name ---------- *)
Inductive pname :=
| PStatusResponse | PPong
| PCookieRequestSession | PCookieRequestAuth | PEncryptionRequest | PLoginSuccess
| PKeepAlive | PStoreCookieAuth | PStoreCookieSession | PTransfer | PDisconnect
| POther.

(* a packet is identified by protocol state, direction and name; Cookie Request and Store
   Cookie additionally by the cookie key they carry *)
Definition pname_of (p : packet) (vs : list fv) : pname :=
  if is_pkt p status_cb_StatusResponsePacket then PStatusResponse
  else if is_pkt p status_cb_PongPacket then PPong
  else if is_pkt p login_cb_CookieRequestPacket then
    (if beq (key_of vs) session_key_b then PCookieRequestSession
     else if beq (key_of vs) auth_key_b then PCookieRequestAuth else POther)
  else if is_pkt p login_cb_EncryptionRequestPacket then PEncryptionRequest
  else if is_pkt p login_cb_LoginSuccessPacket then PLoginSuccess
  else if is_pkt p configuration_cb_KeepAlivePacket then PKeepAlive
  else if is_pkt p configuration_cb_StoreCookiePacket then
    (if beq (key_of vs) auth_key_b then PStoreCookieAuth
     else if beq (key_of vs) session_key_b then PStoreCookieSession else POther)
  else if is_pkt p configuration_cb_TransferPacket then PTransfer
  else if is_pkt p configuration_cb_DisconnectPacket then PDisconnect
  else POther.

Fixpoint sent_pkts (tr : list tev) : list (packet * list fv) :=
  match tr with
  | [] => []
  | TSend p vs :: r => (p, vs) :: sent_pkts r
  | _ :: r => sent_pkts r
  end.

Definition sent_names (tr : list tev) : list pname :=
  map (fun pv => pname_of (fst pv) (snd pv)) (sent_pkts tr).

(* The language of a connection, as a recogniser with states
     0 nothing sent;
     1 Status Response sent; 2 Pong sent (final);
     10 session Cookie Request sent; 11 auth Cookie Request sent; 12 Encryption Request sent;
     13 Login Success sent (Keep Alives may follow); 14 auth cookie stored; 15 session cookie
     stored; 16 Transfer sent (final); 17 Disconnect sent (final).
   That is: the prefixes of
     StatusResponse Pong
   | CookieRequest(session) CookieRequest(auth)? EncryptionRequest LoginSuccess KeepAlive*
       ( StoreCookie(auth)? StoreCookie(session)? Transfer | Disconnect ). *)
Definition lang_step (d : Z) (n : pname) : option Z :=
  match n with
  | PStatusResponse => goto d 0 1
  | PPong => goto d 1 2
  | PCookieRequestSession => goto d 0 10
  | PCookieRequestAuth => goto d 10 11
  | PEncryptionRequest => goto2 d 10 11 12
  | PLoginSuccess => goto d 12 13
  | PKeepAlive => goto d 13 13
  | PStoreCookieAuth => goto d 13 14
  | PStoreCookieSession => goto2 d 13 14 15
  | PTransfer => if (d =? 13) || (d =? 14) || (d =? 15) then Some 16 else None
  | PDisconnect => goto d 13 17
  | POther => None
  end.

Fixpoint lang_run (d : Z) (w : list pname) : option Z :=
  match w with
  | [] => Some d
  | n :: r => match lang_step d n with Some d' => lang_run d' r | None => None end
  end.

(* a prefix of a word of the language / a complete word *)
Definition lang_prefix (w : list pname) : bool :=
  match lang_run 0 w with Some _ => true | None => false end.
Definition lang_complete (w : list pname) : bool :=
  match lang_run 0 w with Some d => (d =? 2) || (d =? 16) || (d =? 17) | None => false end.

(* the complete words, spelled out *)
Definition optl {A} (b : bool) (x : A) : list A := if b then [x] else [].
Definition login_word (auth_req : bool) (k : nat) (tail : list pname) : list pname :=
  PCookieRequestSession :: optl auth_req PCookieRequestAuth ++ [PEncryptionRequest; PLoginSuccess]
    ++ repeat PKeepAlive k ++ tail.
Definition final_tail (tail : list pname) : Prop :=
  tail = [PDisconnect] \/ exists sa ss, tail = optl sa PStoreCookieAuth ++ optl ss PStoreCookieSession ++ [PTransfer].

Lemma lang_run_app : forall a b d,
  lang_run d (a ++ b) = match lang_run d a with Some d' => lang_run d' b | None => None end.
Proof.
  induction a as [|x a IH]; intros b d; cbn [app lang_run]; [reflexivity|].
  destruct (lang_step d x); [apply IH | reflexivity].
Qed.

Lemma lang_run_ka : forall k d, lang_run d (repeat PKeepAlive k) = if (k =? 0)%nat then Some d else goto d 13 13.
Proof.
  induction k as [|k IH]; intros d; cbn [repeat lang_run Nat.eqb]; [reflexivity|].
  cbn [lang_step]. unfold goto. destruct (d =? 13) eqn:E; [|reflexivity].
  rewrite IH. destruct (k =? 0)%nat; reflexivity.
Qed.

Ltac lang_inv H :=
  cbn in H; try discriminate H.

(* the words the recogniser completes are exactly the two shapes above *)
Lemma ka_then : forall w d', lang_run 13 w = Some d' ->
  exists k tail, w = repeat PKeepAlive k ++ tail /\ lang_run 13 tail = Some d'
                 /\ match tail with PKeepAlive :: _ => False | _ => True end.
Proof.
  induction w as [|n w IH]; intros d' H.
  - exists 0%nat, []. cbn. auto.
  - destruct n; try (exists 0%nat; eexists; cbn [repeat app]; split; [reflexivity|]; split; [exact H | exact I]).
    cbn [lang_run lang_step] in H. unfold goto in H. cbn in H.
    destruct (IH _ H) as (k & tail & -> & Ht & Hk). exists (S k), tail. cbn [repeat app]. auto.
Qed.

Theorem lang_complete_spec w :
  lang_complete w = true <->
  w = [PStatusResponse; PPong] \/ exists a k tail, w = login_word a k tail /\ final_tail tail.
Proof.
  unfold lang_complete. split.
  - destruct (lang_run 0 w) as [d|] eqn:H; [|discriminate]. intros Hd.
    destruct w as [|n1 w]; [cbn in H; inversion H; subst; discriminate|].
    destruct n1; lang_inv H.
    + (* status *)
      destruct w as [|n2 w]; [cbn in H; inversion H; subst; discriminate|].
      destruct n2; lang_inv H.
      destruct w as [|n3 w]; [left; reflexivity|]. destruct n3; lang_inv H.
    + (* login *)
      right.
      assert (Hmid : exists a w', w = optl a PCookieRequestAuth ++ PEncryptionRequest :: w' /\ lang_run 12 w' = Some d).
      { destruct w as [|n2 w]; [cbn in H; inversion H; subst; discriminate|].
        destruct n2; lang_inv H.
        - destruct w as [|n3 w]; [cbn in H; inversion H; subst; discriminate|].
          destruct n3; lang_inv H. exists true, w. auto.
        - exists false, w. auto. }
      destruct Hmid as (a & w' & -> & H12).
      destruct w' as [|n3 w']; [cbn in H12; inversion H12; subst; discriminate|].
      destruct n3; lang_inv H12.
      destruct (ka_then _ _ H12) as (k & tail & -> & Ht & Hk).
      exists a, k, tail. split; [reflexivity|].
      destruct tail as [|t1 tail]; [cbn in Ht; inversion Ht; subst; discriminate|].
      destruct t1; try contradiction; lang_inv Ht.
      * (* store auth *)
        destruct tail as [|t2 tail]; [cbn in Ht; inversion Ht; subst; discriminate|].
        destruct t2; lang_inv Ht.
        -- destruct tail as [|t3 tail]; [cbn in Ht; inversion Ht; subst; discriminate|].
           destruct t3; lang_inv Ht. destruct tail as [|t4 tail]; [|destruct t4; lang_inv Ht].
           right. exists true, true. reflexivity.
        -- destruct tail as [|t4 tail]; [|destruct t4; lang_inv Ht]. right. exists true, false. reflexivity.
      * (* store session *)
        destruct tail as [|t3 tail]; [cbn in Ht; inversion Ht; subst; discriminate|].
        destruct t3; lang_inv Ht. destruct tail as [|t4 tail]; [|destruct t4; lang_inv Ht].
        right. exists false, true. reflexivity.
      * destruct tail as [|t4 tail]; [|destruct t4; lang_inv Ht]. right. exists false, false. reflexivity.
      * destruct tail as [|t4 tail]; [|destruct t4; lang_inv Ht]. left. reflexivity.
  - intros [->|(a & k & tail & -> & Ht)]; [reflexivity|].
    unfold login_word.
    assert (H13 : forall tl, lang_run 0 (PCookieRequestSession :: optl a PCookieRequestAuth ++ [PEncryptionRequest; PLoginSuccess] ++ repeat PKeepAlive k ++ tl)
                  = lang_run 13 tl).
    { intros tl. destruct a; cbn [optl app lang_run lang_step]; unfold goto, goto2; cbn;
        rewrite lang_run_app, lang_run_ka; destruct (k =? 0)%nat; reflexivity. }
    rewrite H13. destruct Ht as [->|(sa & ss & ->)]; [reflexivity|]. destruct sa, ss; reflexivity.
Qed.

(* the recogniser accepts exactly the prefixes of complete words *)
Definition lang_state (d : Z) : Prop :=
  d = 0 \/ d = 1 \/ d = 2 \/ d = 10 \/ d = 11 \/ d = 12 \/ d = 13 \/ d = 14 \/ d = 15 \/ d = 16 \/ d = 17.

Lemma lang_run_state : forall w d0 d, lang_run d0 w = Some d -> lang_state d0 -> lang_state d.
Proof.
  induction w as [|n w IH]; intros d0 d H H0; cbn [lang_run] in H.
  - inversion H; subst. exact H0.
  - destruct (lang_step d0 n) as [d1|] eqn:E; [|discriminate]. apply (IH _ _ H).
    unfold lang_state. destruct n; cbn [lang_step] in E; unfold goto, goto2 in E; split_ifs E; inversion E; lia.
Qed.

Theorem lang_prefix_spec w : lang_prefix w = true <-> exists w', lang_complete (w ++ w') = true.
Proof.
  unfold lang_prefix, lang_complete. split.
  - destruct (lang_run 0 w) as [d|] eqn:H; [|discriminate]. intros _.
    assert (Hd : lang_state d) by (eapply lang_run_state; [exact H | left; reflexivity]).
    unfold lang_state in Hd.
    destruct Hd as [->|[->|[->|[->|[->|[->|[->|[->|[->|[->| ->]]]]]]]]]];
      [ exists [PStatusResponse; PPong] | exists [PPong] | exists [] | exists [PEncryptionRequest; PLoginSuccess; PDisconnect]
      | exists [PEncryptionRequest; PLoginSuccess; PDisconnect] | exists [PLoginSuccess; PDisconnect] | exists [PDisconnect]
      | exists [PTransfer] | exists [PTransfer] | exists [] | exists [] ]; rewrite lang_run_app, H; reflexivity.
  - intros (w' & H). rewrite lang_run_app in H. destruct (lang_run 0 w); [reflexivity | discriminate].
Qed.

(* ---------- the order automaton is simulated by the recogniser ---------- *)
Definition R (q d : Z) : Prop :=
  q = 99 \/ q = 100 \/
  (d = 0 /\ (q = 0 \/ q = 1 \/ q = 2 \/ q = 10 \/ q = 11)) \/
  (d = 1 /\ (q = 12 \/ q = 13)) \/ (d = 2 /\ q = 14) \/
  (d = 10 /\ (q = 21 \/ q = 22 \/ q = 25)) \/
  (d = 11 /\ (q = 23 \/ q = 24 \/ q = 25)) \/
  (d = 12 /\ 26 <= q <= 30) \/
  (d = 13 /\ (31 <= q <= 40 \/ q = 42 \/ q = 50 \/ q = 51 \/ q = 60 \/ q = 61)) \/
  (d = 14 /\ (q = 41 \/ q = 42)) \/ (d = 15 /\ q = 43) \/ (d = 16 /\ q = 44) \/ (d = 17 /\ (q = 52 \/ q = 62)).

Ltac use_pkt_eqs :=
  repeat match goal with
         | H : is_pkt ?p ?X = _ |- context [is_pkt ?p ?X] => rewrite H
         | H : beq ?a ?b = _ |- context [beq ?a ?b] => rewrite H
         end;
  try match goal with
      | H : is_pkt ?p ?X = true |- context [is_pkt ?p configuration_cb_KeepAlivePacket] =>
          rewrite (is_pkt_trans_false p X configuration_cb_KeepAlivePacket H eq_refl)
      end.

Lemma sim_send q p vs q' d : delta q (TSend p vs) = Some q' -> R q d ->
  exists d', lang_step d (pname_of p vs) = Some d' /\ R q' d'.
Proof.
  intros H HR. cbn [delta] in H. unfold goto, goto2 in H. split_ifs H; injection H as H; subst q';
    unfold pname_of; use_pkt_eqs; cbn [lang_step]; unfold goto, goto2; unfold R in HR;
    repeat match goal with H : is_pkt _ _ = _ |- _ => clear H | H : beq _ _ = _ |- _ => clear H end;
    (match goal with |- context [if ?c then _ else _] => destruct c eqn:? end;
     [ eexists; split; [reflexivity | unfold R; lia] | exfalso; lia ]).
Qed.

Lemma sim_other q e q' d : delta q e = Some q' -> (forall p vs, e <> TSend p vs) -> R q d -> R q' d.
Proof.
  intros H He HR. unfold R in *. delta_cases H e; try (exfalso; eapply He; reflexivity); subst q'; zlia.
Qed.

Lemma sent_names_app a b : sent_names (a ++ b) = sent_names a ++ sent_names b.
Proof.
  unfold sent_names. rewrite <- map_app. f_equal.
  induction a as [|x a IH]; cbn [app sent_pkts]; [reflexivity|]. destruct x; rewrite ?IH; reflexivity.
Qed.

Section Order.
  Variable chk : mst -> tev -> bool.
  Notation step := (step_with chk).

  Lemma sim_step st e st' d : step st e = Some st' -> R (q st) d ->
    exists d', lang_run d (sent_names [e]) = Some d' /\ R (q st') d'.
  Proof.
    intros Hs HR. destruct (step_cases _ _ _ _ Hs) as [[Hi ->]|(_ & q' & Hd & _ & ->)].
    - destruct e as [id body|p vs|c|c r|w v|n|ss| |o]; try (exists d; split; [reflexivity | exact HR]).
      pose proof (internal_at_resting _ _ Hi) as Hq. apply internal_at_internal in Hi. cbn [internal] in Hi.
      assert (d = 13) by (unfold R in HR; zlia). subst d.
      exists 13. cbn [sent_names sent_pkts map fst snd lang_run]. unfold pname_of.
      repeat rewrite (is_pkt_trans _ _ _ Hi). split; [reflexivity | exact HR].
    - cbn [q]. destruct e as [id body|p vs|c|c r|w v|n|ss| |o];
        try (exists d; split; [reflexivity | eapply sim_other; eauto; discriminate]).
      destruct (sim_send _ _ _ _ _ Hd HR) as (d' & Hl & HR'). exists d'.
      cbn [sent_names sent_pkts map fst snd lang_run]. rewrite Hl. auto.
  Qed.

  Lemma sim_run : forall tr st st' d, run step st tr = Some st' -> R (q st) d ->
    exists d', lang_run d (sent_names tr) = Some d' /\ R (q st') d'.
  Proof.
    induction tr as [|e tr IH]; intros st st' d H HR; cbn [run] in H.
    - inversion H; subst. exists d. auto.
    - destruct (step st e) as [st1|] eqn:E; [|discriminate].
      destruct (sim_step _ _ _ _ E HR) as (d1 & H1 & HR1).
      destruct (IH _ _ _ H HR1) as (d' & H2 & HR2). exists d'. split; [|exact HR2].
      change (e :: tr) with ([e] ++ tr). rewrite sent_names_app, lang_run_app, H1. exact H2.
  Qed.

  Variable tr : list tev.
  Hypothesis Hacc : ok step m_init tr.

  (* the packets sent by a run, by name and in order, are a prefix of a word of the language *)
  Theorem sent_language : lang_prefix (sent_names tr) = true.
  Proof.
    unfold ok in Hacc. destruct (run step m_init tr) as [st|] eqn:E; [|congruence].
    destruct (sim_run _ _ _ 0 E) as (d' & H & _); [unfold R; cbn; lia|].
    unfold lang_prefix. rewrite H. reflexivity.
  Qed.

  (* and of every prefix of the trace *)
  Theorem sent_language_prefix pre post : tr = pre ++ post -> lang_prefix (sent_names pre) = true.
  Proof.
    intros Htr. destruct (prefix_run chk _ _ _ Hacc Htr) as (st & E & _).
    destruct (sim_run _ _ _ 0 E) as (d' & H & _); [unfold R; cbn; lia|].
    unfold lang_prefix. rewrite H. reflexivity.
  Qed.

  (* a run that ends successfully has sent a complete word: Status Response and Pong, or a
     login sequence ending in Transfer *)
  Theorem sent_complete pre post : tr = pre ++ TEnd OOk :: post ->
    lang_run 0 (sent_names pre) = Some 2 \/ lang_run 0 (sent_names pre) = Some 16.
  Proof.
    intros Htr. destruct (event_recorded chk _ _ _ _ Hacc Htr eq_refl) as (st & q' & E & Hd & _).
    destruct (sim_run _ _ _ 0 E) as (d' & H & HR); [unfold R; cbn; lia|].
    cbn [delta] in Hd. unfold goto2 in Hd. split_ifs Hd. rewrite H. unfold R in HR.
    assert (d' = 2 \/ d' = 16) as [->| ->] by lia; auto.
  Qed.

  (* after Pong, Transfer or Disconnect nothing is sent or done: at most the end marker follows *)
  Theorem nothing_after_final pre p vs post :
    tr = pre ++ TSend p vs :: post ->
    is_pkt p status_cb_PongPacket = true \/ is_pkt p configuration_cb_TransferPacket = true
      \/ is_pkt p configuration_cb_DisconnectPacket = true ->
    ends post.
  Proof.
    intros Htr Hp.
    assert (Hni : internal false (TSend p vs) = false).
    { destruct Hp as [Hp|[Hp|Hp]]; eapply pkt_not_internal; eauto. }
    destruct (event_recorded chk _ _ _ _ Hacc Htr Hni) as (st & q' & E & Hd & _ & Hok).
    eapply (final_ends chk _ _ Hok). cbn [q].
    cbn [delta] in Hd. unfold goto in Hd.
    destruct Hp as [Hp|[Hp|Hp]];
      repeat rewrite (is_pkt_trans _ _ _ Hp) in Hd; cbn in Hd; split_ifs Hd; injection Hd as Hd; lia.
  Qed.

  (* ---- routing waits for Login Acknowledged and Client Information ---- *)
  Lemma enter_conf q e q' : delta q e = Some q' -> 32 <= q' <= 62 ->
    32 <= q <= 62 \/ (q = 31 /\ exists b, e = TRecv 3 b).
  Proof.
    intros H Hq. delta_cases H e; try lia.
    right. split; [lia|]. assert (id = 3) by lia. subst. eexists; reflexivity.
  Qed.

  Lemma enter_routing q e q' : delta q e = Some q' -> 33 <= q' <= 52 ->
    33 <= q <= 52 \/ (q = 32 /\ exists b, e = TRecv ci_id b).
  Proof.
    intros H Hq. delta_cases H e; try lia.
    right. split; [lia|]. match goal with H : (_ =? ci_id) = true |- _ => apply Z.eqb_eq in H; subst end.
    eexists; reflexivity.
  Qed.

  Definition acked (pre : list tev) : Prop := exists pre1 b pre2, pre = pre1 ++ TRecv 3 b :: pre2.
  Definition informed (pre : list tev) : Prop :=
    exists pre1 b1 pre2 b2 pre3, pre = pre1 ++ TRecv 3 b1 :: pre2 ++ TRecv ci_id b2 :: pre3.

  Lemma conf_inv : forall pre st, run step m_init pre = Some st ->
    (32 <= q st <= 62 -> acked pre) /\ (33 <= q st <= 52 -> informed pre).
  Proof.
    apply (run_ind chk (fun pre st => (32 <= q st <= 62 -> acked pre) /\ (33 <= q st <= 52 -> informed pre))).
    - cbn. split; lia.
    - intros pre st x st' Hr [IH1 IH2] Hs.
      destruct (step_cases _ _ _ _ Hs) as [[Hi ->]|(_ & q' & Hd & _ & ->)].
      + split; intros Hq.
        * destruct (IH1 Hq) as (p1 & b & p2 & ->). exists p1, b, (p2 ++ [x]). rewrite <- app_assoc. reflexivity.
        * destruct (IH2 Hq) as (p1 & b1 & p2 & b2 & p3 & ->). exists p1, b1, p2, b2, (p3 ++ [x]).
          rewrite <- app_assoc. cbn [app]. rewrite <- app_assoc. reflexivity.
      + cbn [q]. split; intros Hq.
        * destruct (enter_conf _ _ _ Hd Hq) as [Hq0|(Hq0 & b & ->)].
          -- destruct (IH1 Hq0) as (p1 & b & p2 & ->). exists p1, b, (p2 ++ [x]). rewrite <- app_assoc. reflexivity.
          -- exists pre, b, []. reflexivity.
        * destruct (enter_routing _ _ _ Hd Hq) as [Hq0|(Hq0 & b & ->)].
          -- destruct (IH2 Hq0) as (p1 & b1 & p2 & b2 & p3 & ->). exists p1, b1, p2, b2, (p3 ++ [x]).
             rewrite <- app_assoc. cbn [app]. rewrite <- app_assoc. reflexivity.
          -- destruct IH1 as (p1 & b1 & p2 & ->); [lia|]. exists p1, b1, p2, b, [].
             rewrite <- app_assoc. reflexivity.
  Qed.

  (* ---- the configuration phase starts with Login Success ---- *)
  Definition login_succeeded (pre : list tev) : Prop :=
    exists pre0 p vs rest, pre = pre0 ++ TSend p vs :: rest /\ is_pkt p login_cb_LoginSuccessPacket = true.

  Lemma enter_31_62 q e q' : delta q e = Some q' -> 31 <= q' <= 62 ->
    31 <= q <= 62 \/ (q = 30 /\ exists p vs, e = TSend p vs /\ is_pkt p login_cb_LoginSuccessPacket = true).
  Proof.
    intros H Hq. delta_cases H e; try zlia.
    right. split; [zlia|]. eexists _, _. split; [reflexivity | assumption].
  Qed.

  Lemma ls_inv : forall pre st, run step m_init pre = Some st -> 31 <= q st <= 62 -> login_succeeded pre.
  Proof.
    apply (run_ind chk (fun pre st => 31 <= q st <= 62 -> login_succeeded pre)).
    - cbn. lia.
    - intros pre st x st' Hr IH Hs Hq.
      destruct (step_cases _ _ _ _ Hs) as [[Hi ->]|(_ & q' & Hd & _ & ->)].
      + destruct (IH Hq) as (p0 & p & vs & rest & -> & Hp). exists p0, p, vs, (rest ++ [x]).
        rewrite <- app_assoc. split; [reflexivity | exact Hp].
      + cbn [q] in Hq. destruct (enter_31_62 _ _ _ Hd Hq) as [Hq0|(Hq0 & p & vs & -> & Hp)].
        * destruct (IH Hq0) as (p0 & p & vs & rest & -> & Hp). exists p0, p, vs, (rest ++ [x]).
          rewrite <- app_assoc. split; [reflexivity | exact Hp].
        * exists pre, p, vs, []. split; [reflexivity | exact Hp].
  Qed.

  Definition conf_pkt (p : packet) : bool :=
    is_pkt p configuration_cb_KeepAlivePacket || is_pkt p configuration_cb_StoreCookiePacket
    || is_pkt p configuration_cb_TransferPacket || is_pkt p configuration_cb_DisconnectPacket.

  (* Keep Alive, Store Cookie, Transfer and Disconnect are only sent after Login Success *)
  Theorem conf_after_login_success pre p vs post :
    tr = pre ++ TSend p vs :: post -> conf_pkt p = true -> login_succeeded pre.
  Proof.
    intros Htr Hp. destruct (prefix_run chk _ _ _ Hacc Htr) as (st & E & Hok).
    apply (ls_inv _ _ E). destruct (ok_cons _ _ _ _ Hok) as (st1 & Hs & _).
    destruct (step_cases _ _ _ _ Hs) as [[Hi _]|(_ & q' & Hd & _)].
    - apply internal_at_resting in Hi. lia.
    - unfold conf_pkt in Hp. cbn [delta] in Hd. unfold goto in Hd.
      repeat (apply orb_prop in Hp as [Hp|Hp]); try (rewrite (is_pkt_trans_false _ _ _ Hp eq_refl) in Hd); 
        repeat rewrite (is_pkt_trans _ _ _ Hp) in Hd; cbn in Hd; try discriminate Hd; split_ifs Hd; zlia.
  Qed.

  (* Login Success directly follows the switch to encryption, which directly follows the
     Encryption Response frame (id 1, read after the Encryption Request) or, when the client was
     told to authenticate, the authentication call and its answer made right after that frame *)
  Theorem login_success_after_encryption_response pre p vs post :
    tr = pre ++ TSend p vs :: post -> is_pkt p login_cb_LoginSuccessPacket = true ->
    exists pre0 b mid ss,
      pre = pre0 ++ TRecv 1 b :: mid ++ [TEnc ss]
      /\ (mid = [] \/ exists cl host port proto n u secret pk cl' host' port' proto' n' u' secret' pk' r,
                        mid = [TCall (CAuth cl host port proto n u secret pk);
                               TRes (CAuth cl' host' port' proto' n' u' secret' pk') r]).
  Proof.
    intros Htr Hp.
    destruct (event_recorded chk _ _ _ _ Hacc Htr (pkt_not_internal _ _ _ Hp eq_refl)) as (st & q' & E & Hd & _).
    cbn [delta] in Hd. repeat rewrite (is_pkt_trans _ _ _ Hp) in Hd. cbn in Hd. unfold goto in Hd. split_ifs Hd.
    assert (Hq : q st = 30) by lia.
    destruct (last_event chk _ _ E) as (pre1 & x & st1 & -> & E1 & _ & Hd1 & _); [lia | rewrite Hq; reflexivity|].
    rewrite Hq in Hd1.
    assert (Hx : (exists ss, x = TEnc ss) /\ (q st1 = 27 \/ q st1 = 29)) by (delta_cases Hd1 x; try zlia; split; [eexists; reflexivity | lia]).
    destruct Hx as [[ss ->] [Hq1|Hq1]].
    - destruct (last_event chk _ _ E1) as (pre2 & y & st2 & -> & E2 & _ & Hd2 & _); [lia | rewrite Hq1; reflexivity|].
      rewrite Hq1 in Hd2. assert (Hy : exists b, y = TRecv 1 b).
      { delta_cases Hd2 y; try zlia. assert (id = 1) by lia. subst. eexists; reflexivity. }
      destruct Hy as [b ->]. exists pre2, b, [], ss. split; [rewrite <- app_assoc; reflexivity | left; reflexivity].
    - destruct (last_event chk _ _ E1) as (pre2 & y & st2 & -> & E2 & _ & Hd2 & _); [lia | rewrite Hq1; reflexivity|].
      rewrite Hq1 in Hd2.
      assert (Hy : (exists cl host port proto n u secret pk r, y = TRes (CAuth cl host port proto n u secret pk) r) /\ q st2 = 28).
      { delta_cases Hd2 y; try zlia. split; [eexists _, _, _, _, _, _, _, _, _; reflexivity | lia]. }
      destruct Hy as [(cl' & host' & port' & proto' & n' & u' & secret' & pk' & r & ->) Hq2].
      destruct (last_event chk _ _ E2) as (pre3 & z & st3 & -> & E3 & _ & Hd3 & _); [lia | rewrite Hq2; reflexivity|].
      rewrite Hq2 in Hd3.
      assert (Hz : (exists cl host port proto n u secret pk, z = TCall (CAuth cl host port proto n u secret pk)) /\ q st3 = 27).
      { delta_cases Hd3 z; try zlia. split; [eexists _, _, _, _, _, _, _, _; reflexivity | lia]. }
      destruct Hz as [(cl & host & port & proto & n & u & secret & pk & ->) Hq3].
      destruct (last_event chk _ _ E3) as (pre4 & w & st4 & -> & E4 & _ & Hd4 & _); [lia | rewrite Hq3; reflexivity|].
      rewrite Hq3 in Hd4. assert (Hw : exists b, w = TRecv 1 b).
      { delta_cases Hd4 w; try zlia. assert (id = 1) by lia. subst. eexists; reflexivity. }
      destruct Hw as [b ->].
      exists pre4, b, [TCall (CAuth cl host port proto n u secret pk); TRes (CAuth cl' host' port' proto' n' u' secret' pk') r], ss.
      split; [repeat rewrite <- app_assoc; reflexivity|]. right.
      exists cl, host, port, proto, n, u, secret, pk, cl', host', port', proto', n', u', secret', pk', r. reflexivity.
  Qed.

  Definition routing_call (c : call) : bool :=
    match c with CDiscover | CFilter _ _ _ _ _ _ _ | CSelect _ _ _ _ _ _ _ => true | _ => false end.

  (* no discovery, filter or selection call before Login Acknowledged (id 3) was read and,
     after it, the Client Information *)
  Theorem no_routing_before_info pre c post : tr = pre ++ TCall c :: post -> routing_call c = true ->
    exists pre1 b1 pre2 b2 pre3, pre = pre1 ++ TRecv 3 b1 :: pre2 ++ TRecv ci_id b2 :: pre3.
  Proof.
    intros Htr Hc. destruct (event_recorded chk _ _ _ _ Hacc Htr eq_refl) as (st & q' & E & Hd & _).
    apply (proj2 (conf_inv _ _ E)).
    destruct c; try discriminate; cbn [delta] in Hd; unfold goto in Hd; split_ifs Hd; lia.
  Qed.

  (* ---- a wrong packet in the handshake, status and login phases ---- *)
  (* the one packet id the handler waits for in an automaton state *)
  Definition expected_id (q : Z) : option Z :=
    if (q =? 0) || (q =? 1) then Some 0
    else if (q =? 12) || (q =? 26) then Some 1
    else if (q =? 21) || (q =? 23) then Some 4
    else if q =? 31 then Some 3 else None.

  Lemma dead99 st l : ok step st l -> q st = 99 -> ends_badly l.
  Proof.
    intros Hok Hq. eapply (only_end_ends chk _ _ Hok).
    - rewrite Hq. reflexivity.
    - intros e q' Hd _. rewrite Hq in Hd. delta_cases Hd e; try lia; eexists; (split; [reflexivity | discriminate]).
  Qed.

  Theorem wrong_packet_silent_state pre st id b post x :
    tr = pre ++ TRecv id b :: post -> run step m_init pre = Some st ->
    expected_id (q st) = Some x -> id <> x -> ends_badly post.
  Proof.
    intros Htr E Hx Hne.
    destruct (prefix_run chk _ _ _ Hacc Htr) as (st0 & E0 & Hok). rewrite E in E0. inversion E0; subst st0.
    destruct (ok_cons _ _ _ _ Hok) as (st1 & Hs & Hok1).
    unfold expected_id in Hx.
    destruct (step_cases _ _ _ _ Hs) as [[Hi _]|(_ & q' & Hd & _ & ->)].
    - apply internal_at_resting in Hi. split_ifs Hx; lia.
    - eapply dead99; [exact Hok1|]. cbn [q delta] in *. split_ifs Hx; injection Hx as Hx; split_ifs Hd; injection Hd as Hd; lia.
  Qed.

  (* the same without the automaton: what the handler waits for is determined by the last
     thing that happened *)
  Definition expected_next (pre : list tev) : option Z :=
    match rev pre with
    | [] => Some 0                                   (* the Handshake *)
    | [TRecv _ _] => Some 0                          (* Status Request / Login Start *)
    | TSend p _ :: _ =>
        if is_pkt p status_cb_StatusResponsePacket then Some 1              (* Ping *)
        else if is_pkt p login_cb_CookieRequestPacket then Some 4           (* Cookie Response *)
        else if is_pkt p login_cb_EncryptionRequestPacket then Some 1       (* Encryption Response *)
        else if is_pkt p login_cb_LoginSuccessPacket then Some 3            (* Login Acknowledged *)
        else None
    | _ => None
    end.

  Theorem wrong_packet_silent pre id b post x :
    tr = pre ++ TRecv id b :: post -> expected_next pre = Some x -> id <> x -> ends_badly post.
  Proof.
    intros Htr Hx Hne.
    destruct (prefix_run chk _ _ _ Hacc Htr) as (st & E & Hok).
    assert (Hq : q st = 99 \/ expected_id (q st) = Some x).
    { unfold expected_next in Hx. destruct pre as [|y pre _] using rev_ind.
      - cbn in E. inversion E; subst. right. exact Hx.
      - rewrite rev_app_distr in Hx. cbn [rev app] in Hx.
        destruct (run_snoc chk _ _ _ _ E) as (st0 & E0 & Hs).
        destruct y as [id0 b0|p vs| | | | | | |]; try discriminate.
        + destruct (rev pre) as [|z l] eqn:Er; [|discriminate].
          assert (pre = []) by (rewrite <- (rev_involutive pre), Er; reflexivity). subst pre.
          cbn in E0. inversion E0; subst st0.
          destruct (step_cases _ _ _ _ Hs) as [[Hi _]|(_ & q' & Hd & _ & ->)]; [discriminate|].
          cbn [q delta m_init] in Hd. cbn [Z.eqb] in Hd. injection Hd as Hd. subst q'. cbn [q].
          destruct (id0 =? 0); [right; exact Hx | left; reflexivity].
        + destruct (step_cases _ _ _ _ Hs) as [[Hi _]|(_ & q' & Hd & _ & ->)].
          * apply internal_at_internal in Hi. cbn [internal] in Hi.
            repeat rewrite (is_pkt_trans _ _ _ Hi) in Hx. discriminate.
          * right. cbn [q]. cbn [delta] in Hd. unfold goto in Hd.
            split_ifs Hx; injection Hx as Hx; subst x;
              match goal with H : is_pkt p _ = true |- _ => repeat rewrite (is_pkt_trans _ _ _ H) in Hd end;
              cbn in Hd; split_ifs Hd; injection Hd as Hd; subst q'; reflexivity. }
    destruct Hq as [Hq|Hq].
    - (* already dead: no further frame is read *)
      exfalso. destruct (ok_cons _ _ _ _ Hok) as (st1 & Hs & _).
      destruct (step_cases _ _ _ _ Hs) as [[Hi _]|(_ & q' & Hd & _)].
      + apply internal_at_resting in Hi. lia.
      + rewrite Hq in Hd. discriminate.
    - eapply wrong_packet_silent_state; eauto.
  Qed.
End Order.

(* ---------- the status exchange (C06 monitor) ---------- *)
Section C06.
  Variable tr : list tev.
  Hypothesis Hacc : ok (step_with chk_c06) m_init tr.

  (* the Status Response directly follows the status service's answer and carries exactly
     its JSON *)
  Theorem status_response_exact pre vs post :
    tr = pre ++ TSend status_cb_StatusResponsePacket vs :: post ->
    exists pre1 cl host port proto json,
      pre = pre1 ++ [TRes (CStatus cl host port proto) (RStatus json)] /\ vs = [VB json].
  Proof.
    intros Htr. destruct (event_recorded _ _ _ _ _ Hacc Htr eq_refl) as (st & q' & E & Hd & Hc & _).
    cbn [delta] in Hd. change (is_pkt status_cb_StatusResponsePacket status_cb_StatusResponsePacket) with true in Hd.
    cbv iota in Hd. unfold goto in Hd. split_ifs Hd. assert (Hq : q st = 11) by lia.
    destruct (last_event _ _ _ E) as (pre1 & x & st1 & -> & E1 & _ & Hd1 & _ & Hh); [lia | rewrite Hq; reflexivity|].
    rewrite Hq in Hd1. delta_cases Hd1 x; try lia.
    unfold chk_c06 in Hc. change (is_pkt status_cb_StatusResponsePacket status_cb_StatusResponsePacket) with true in Hc.
    cbv iota in Hc. rewrite Hh in Hc. cbn [newest_res find_ev] in Hc.
    destruct vs as [|[] [|]]; try discriminate. destruct r; try discriminate.
    apply beq_spec in Hc. subst. eexists _, _, _, _, _, _. split; reflexivity.
  Qed.

  (* the Pong directly follows the Ping frame and echoes its payload *)
  Theorem pong_exact pre vs post :
    tr = pre ++ TSend status_cb_PongPacket vs :: post ->
    exists pre1 b payload,
      pre = pre1 ++ [TRecv 1 b] /\ dec_of status_sb_PingPacket b = Some [VZ payload] /\ vs = [VZ payload].
  Proof.
    intros Htr. destruct (event_recorded _ _ _ _ _ Hacc Htr eq_refl) as (st & q' & E & Hd & Hc & _).
    cbn [delta] in Hd.
    change (is_pkt status_cb_PongPacket status_cb_StatusResponsePacket) with false in Hd.
    change (is_pkt status_cb_PongPacket status_cb_PongPacket) with true in Hd.
    cbv iota in Hd. unfold goto in Hd. split_ifs Hd. assert (Hq : q st = 13) by lia.
    destruct (last_event _ _ _ E) as (pre1 & x & st1 & -> & E1 & _ & Hd1 & _ & Hh); [lia | rewrite Hq; reflexivity|].
    rewrite Hq in Hd1. delta_cases Hd1 x; try lia. assert (id = 1) by lia. subst id.
    unfold chk_c06 in Hc.
    change (is_pkt status_cb_PongPacket status_cb_StatusResponsePacket) with false in Hc.
    change (is_pkt status_cb_PongPacket status_cb_PongPacket) with true in Hc.
    cbv iota in Hc. rewrite Hh in Hc. cbn [newest_recv find_ev] in Hc.
    destruct vs as [|[] [|]]; try discriminate.
    destruct (dec_of status_sb_PingPacket body) as [[|[] [|]]|] eqn:Edec; try discriminate.
    apply Z.eqb_eq in Hc. subst. eexists _, _, _. split; [reflexivity|]. split; [exact Edec | reflexivity].
  Qed.
End C06.
