(* C08, write side: the frame queue of Connection::send_packet after the K3 repair (8ccd88e).
   A frame is appended to [unsent]; each cancel-safe `write` removes exactly the prefix the stream
   accepted; a send_packet future that is dropped (select!) leaves [unsent] as it is, and the next
   send_packet first finishes it.  The pre-repair code is [o_*]: `write_all` owned the rest of the
   frame, so dropping the future lost it.  Definitions only. *)
From Passage Require Import Lib.Bytes.

Inductive wop :=
| WSend (frame : bytes)      (* send_packet assembles a frame and starts writing *)
| WAccept (n : nat)          (* the stream accepts n bytes of what it is offered (0 = Pending, nothing taken) *)
| WCancel.                   (* the future that was writing is dropped *)

Record wq := { wire : bytes; unsent : bytes; sentlog : bytes }.   (* sentlog = all frames handed to send_packet, concatenated *)
Definition wq0 : wq := {| wire := []; unsent := []; sentlog := [] |}.

Definition wstep (s : wq) (o : wop) : wq :=
  match o with
  | WSend f => {| wire := wire s; unsent := unsent s ++ f; sentlog := sentlog s ++ f |}
  | WAccept n => {| wire := wire s ++ firstn n (unsent s); unsent := skipn n (unsent s); sentlog := sentlog s |}
  | WCancel => s
  end.
Definition wrun (ops : list wop) : wq := fold_left wstep ops wq0.

(* the handler before the repair: the bytes still to be written live in the future *)
Record oq := { o_wire : bytes; o_rest : bytes; o_log : bytes }.
Definition oq0 : oq := {| o_wire := []; o_rest := []; o_log := [] |}.
Definition ostep (s : oq) (o : wop) : oq :=
  match o with
  | WSend f => {| o_wire := o_wire s; o_rest := f; o_log := o_log s ++ f |}    (* a new write_all; whatever an earlier one still owned is gone *)
  | WAccept n => {| o_wire := o_wire s ++ firstn n (o_rest s); o_rest := skipn n (o_rest s); o_log := o_log s |}
  | WCancel => {| o_wire := o_wire s; o_rest := []; o_log := o_log s |}
  end.
Definition orun (ops : list wop) : oq := fold_left ostep ops oq0.

(* the K3 schedule: 3 bytes of a 10-byte Keep Alive accepted, the future dropped, next frame sent *)
Definition k3_ops : list wop :=
  [WSend [9; 4; 0; 0; 0; 0; 0; 0; 0; 7]; WAccept 3; WCancel; WSend [2; 11; 5]; WAccept 100].
