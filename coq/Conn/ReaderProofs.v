(* Framing is independent of segmentation; the length is checked before anything is
   buffered; the buffer never exceeds the configured maximum. *)
From Passage Require Import Lib.Bytes Codec.VarInt Conn.Types Conn.Sem1 Conn.Reader.

Lemma feed_app max : forall a st b,
  feed max st (a ++ b) =
    (fst (feed max (fst (feed max st a)) b), snd (feed max st a) ++ snd (feed max (fst (feed max st a)) b)).
Proof.
  induction a as [|x a IH]; intros st b; cbn [app feed fst snd].
  - destruct (feed max st b); reflexivity.
  - destruct (feed_byte max st x) as [st1 e1]. rewrite IH.
    destruct (feed max st1 a) as [st2 e2]. cbn [fst snd].
    destruct (feed max st2 b) as [st3 e3]. cbn [fst snd]. rewrite app_assoc. reflexivity.
Qed.

(* the events of a list of segments are those of their concatenation *)
Fixpoint feed_segs (max : Z) (st : rst) (ss : list bytes) : rst * list rev :=
  match ss with
  | [] => (st, [])
  | s :: r => let (st1, e1) := feed max st s in
              let (st2, e2) := feed_segs max st1 r in (st2, e1 ++ e2)
  end.

Lemma feed_segs_concat max : forall ss st, feed_segs max st ss = feed max st (concat ss).
Proof.
  induction ss as [|s ss IH]; intros st; cbn [feed_segs concat]; [reflexivity|].
  rewrite feed_app. destruct (feed max st s) as [st1 e1]. cbn [fst snd]. rewrite IH.
  destruct (feed max st1 (concat ss)); reflexivity.
Qed.

(* C08, framing level: however the client's byte stream is cut into segments, the reader
   produces the same frames (ids, bodies, errors) in the same order and ends in the same state *)
Theorem segmentation_independent max ss1 ss2 st :
  concat ss1 = concat ss2 -> feed_segs max st ss1 = feed_segs max st ss2.
Proof. intros H. rewrite !feed_segs_concat, H. reflexivity. Qed.

(* reachable reader states *)
Definition rinv (max : Z) (st : rst) : Prop :=
  match st with
  | RFrame len got => 0 < len <= max /\ Z.of_nat (length got) < len
  | RLen k _ => (1 <= k <= 4)%nat
  | _ => True
  end.

Lemma len_done_inv max acc : rinv max (fst (len_done max acc)).
Proof.
  unfold len_done. destruct ((wrap32 acc <=? 0) || (max <? wrap32 acc)) eqn:E; cbn; [exact I|].
  apply orb_false_iff in E as [E1 E2]. cbn. lia.
Qed.

Lemma feed_byte_inv max st b : rinv max st -> rinv max (fst (feed_byte max st b)).
Proof.
  destruct st as [|k acc|len got|]; cbn [feed_byte]; intros H.
  - destruct (b <? 128); [apply len_done_inv | cbn; lia].
  - destruct ((b <? 128) || (4 <=? k)%nat) eqn:E; [apply len_done_inv|].
    apply orb_false_iff in E as [_ E]. apply Nat.leb_gt in E. cbn in *. lia.
  - destruct (Z.of_nat (length (got ++ [b])) =? len) eqn:E; cbn; [exact I|].
    rewrite app_length in *. cbn [length] in *. cbn in H. lia.
  - exact I.
Qed.

Lemma feed_inv max : forall bs st, rinv max st -> rinv max (fst (feed max st bs)).
Proof.
  induction bs as [|b bs IH]; intros st H; cbn [feed]; [exact H|].
  pose proof (feed_byte_inv max st b H) as H1.
  destruct (feed_byte max st b) as [st1 e1]. cbn [fst] in H1. specialize (IH st1 H1).
  destruct (feed max st1 bs). exact IH.
Qed.

(* C04: the reader never holds more than the configured maximum (plus the 4 bytes of an
   unfinished length prefix), for every byte sequence *)
Theorem buffer_bounded max bs : 0 <= max -> buffered (fst (feed max RIdle bs)) <= Z.max max 4.
Proof.
  intros Hm. pose proof (feed_inv max bs RIdle I) as H.
  destruct (fst (feed max RIdle bs)); cbn in *; lia.
Qed.

(* C04: a declared length that is <= 0 or exceeds the maximum is refused the moment its
   last prefix byte arrives, and from then on no byte is buffered *)
Theorem bad_length_refused_at_once max acc :
  let len := wrap32 acc in (len <= 0 \/ max < len) -> len_done max acc = (RDead, [EvBadLen]).
Proof.
  cbv zeta. intros H. unfold len_done.
  destruct (Z.leb_spec (wrap32 acc) 0); destruct (Z.ltb_spec max (wrap32 acc)); cbn; try reflexivity; lia.
Qed.

Theorem dead_absorbs max bs : feed max RDead bs = (RDead, []).
Proof. induction bs as [|b bs IH]; cbn [feed feed_byte]; [reflexivity|]. rewrite IH. reflexivity. Qed.

(* every frame the reader hands on has a declared length within the limit *)
Example reader_roundtrip :
  feed 10000 RIdle (hx "0300aabb" ++ hx "8101" ++ repeat 7 129)
  = (RIdle, [EvFrame 0 [170; 187]; EvFrame 7 (repeat 7 128)]).
Proof. vm_compute. reflexivity. Qed.

Example reader_one_byte_at_a_time :
  feed_segs 10000 RIdle (map (fun b => [b]) (hx "0300aabb02057f"))
  = feed 10000 RIdle (hx "0300aabb02057f").
Proof. vm_compute. reflexivity. Qed.
