(* T5 for M3 (Conn/Sem3.v): delivered completely on success.  Whenever a run ends with the
   handler's success (TEnd OOk), with the no-target Disconnect (TEnd (OErr KNoTarget)) or with the
   missed-keep-alive verdict (TEnd (OErr KMissedKA)), everything that was sent has been accepted by
   the transport: the `rest` of M3_frames_intact is empty.
   The balance of Conn/Sem3Proofs.v is strengthened: what is still queued when the run ends is
   returned, together with the fact that it is empty if the trace ends with one of those outcomes.
   For [listen] this uses a syntactic walk [flushed_ends]: every such [Ret] is reached with an
   empty queue - it follows a completed Send with no raced wait in between. *)
From Passage Require Import Lib.Bytes Codec.VarInt Codec.Desc Codec.NoPanic Gen.PacketsGen Gen.ConstsGen
  Codec.PacketCheck Crypto.Cookie Conn.Types Conn.Prog Conn.Sem1 Conn.Reader Conn.Sem2 Conn.Sem3
  Conn.Monitor Conn.MonitorProofs Conn.Sem3Proofs.

(* the ends that follow a completed flush *)
Definition good (o : outcome) : bool :=
  match o with OOk => true | OErr KNoTarget => true | OErr KMissedKA => true | _ => false end.

Definition is_end (ev : timed) : bool := match snd ev with TEnd _ => true | _ => false end.
Definition noend (tr : trace) : bool := forallb (fun ev => negb (is_end ev)) tr.

(* the trace ends with a good outcome *)
Fixpoint last_good (tr : trace) : bool :=
  match tr with
  | [] => false
  | ev :: r => match r with
               | [] => match snd ev with TEnd o => good o | _ => false end
               | _ :: _ => last_good r
               end
  end.

Lemma last_good_cons ev tr : is_end ev = false -> last_good (ev :: tr) = last_good tr.
Proof.
  intros H. cbn [last_good]. destruct tr as [|x tr]; [|reflexivity].
  unfold is_end in H. destruct (snd ev); try reflexivity. discriminate.
Qed.

Lemma last_good_app a b : noend a = true -> last_good (a ++ b) = last_good b.
Proof.
  induction a as [|x a IH]; intros H; [reflexivity|].
  cbn [noend forallb] in H. apply andb_prop in H as [Hx Ha].
  cbn [app]. rewrite last_good_cons; [apply IH; exact Ha|].
  destruct (is_end x); [discriminate | reflexivity].
Qed.

Lemma last_good_noend a : noend a = true -> last_good a = false.
Proof. intros H. rewrite <- (app_nil_r a). rewrite (last_good_app a [] H). reflexivity. Qed.

Lemma last_good_snoc pre t o : last_good (pre ++ [(t, TEnd o)]) = good o.
Proof.
  induction pre as [|x pre IH]; [reflexivity|].
  cbn [app last_good]. destruct (pre ++ [(t, TEnd o)]) eqn:E.
  - exfalso. destruct pre; discriminate.
  - exact IH.
Qed.

Lemma noend_app a b : noend (a ++ b) = noend a && noend b.
Proof. apply forallb_app. Qed.

Lemma noend_silent o : trace_of o = [] -> noend (trace_of o) = true.
Proof. intros ->. reflexivity. Qed.

Lemma err_kind_not_good er : good (OErr (err_kind er)) = false.
Proof. destruct er; reflexivity. Qed.

Lemma conf_frame_end_not_good cfg info ka id body o :
  conf_frame cfg info ka id body = FEnd o -> good o = false.
Proof.
  unfold conf_frame. intros H.
  repeat match type of H with
         | (if ?c then _ else _) = _ => destruct c
         | match dec vi vl ?ds body with _ => _ end = _ => destruct (dec vi vl ds body)
         | match ?x with _ => _ end = _ => destruct x
         end; try discriminate;
  inversion H; subst; first [reflexivity | apply err_kind_not_good].
Qed.

(* every good [Ret] of the program is reached with an empty queue; [fl] = the queue is known to be
   empty here.  A completed Send empties it; a raced wait may leave part of a Keep Alive queued;
   everything else leaves an empty queue empty. *)
Fixpoint flushed_ends (fl : bool) (p : prog) : Prop :=
  match p with
  | Ret o => good o = true -> fl = true
  | Expect k => forall id body, flushed_ends fl (k id body)
  | WaitInfo loc k => forall vs, flushed_ends fl (k vs)
  | Race loc c k => forall r, flushed_ends false (k r)
  | Call c k => forall r, flushed_ends fl (k r)
  | Send pk vs k => flushed_ends true k
  | EncOn ss k => flushed_ends fl k
  | Fresh w k => forall v, flushed_ends fl (k v)
  | Now k => forall n, flushed_ends fl (k n)
  end.

Ltac fe_step :=
  first
  [ progress cbn [flushed_ends good err_kind]
  | match goal with |- context [err_kind ?e] => is_var e; destruct e end
  | intro
  | reflexivity
  | discriminate
  | match goal with H : false = true |- _ => discriminate H end
  | match goal with |- context [err_kind ?e] => is_var e; destruct e end
  | match goal with |- context [match ?x with _ => _ end] => destruct x end ].

Theorem listen_flushed : forall o cfg, flushed_ends false (listen o cfg).
Proof.
  intros o cfg. unfold listen, transfer_phase, routing, expect_pkt, dec_pkt, bad, client.
  Time repeat fe_step.
Qed.

Section Delivery.
  Variable cfg : conn_cfg.
  Variable e : env.
  Variable encf : packet -> list fv -> option bytes.
  Variable loclat : Z.

  Local Notation bal := (bal encf).

  (* a segment after which the handler goes on: balanced, no end in it *)
  Definition seg (u : bytes) (o : list oev) (u' : bytes) : Prop :=
    bal u o u' /\ noend (trace_of o) = true.
  (* a closing segment: balanced, and nothing is left if it ends with a good outcome *)
  Definition fin (u : bytes) (o : list oev) (rest : bytes) : Prop :=
    bal u o rest /\ (last_good (trace_of o) = true -> rest = []).
  Definition finx (u : bytes) (o : list oev) : Prop := exists rest, fin u o rest.

  Lemma seg_nil u : seg u [] u.
  Proof. split; [apply bal_nil | reflexivity]. Qed.

  Lemma seg_app u o1 u1 o2 u2 : seg u o1 u1 -> seg u1 o2 u2 -> seg u (o1 ++ o2) u2.
  Proof.
    intros [B1 N1] [B2 N2]. split; [eapply bal_app; eassumption|].
    rewrite trace_of_app, noend_app, N1, N2. reflexivity.
  Qed.

  Lemma seg_ot u ev : frame_of encf ev = [] -> is_end ev = false -> seg u [OT ev] u.
  Proof. intros H1 H2. split; [apply bal_ot; exact H1|]. cbn [trace_of noend forallb]. rewrite H2. reflexivity. Qed.

  Lemma seg_cons u ev o u' : frame_of encf ev = [] -> is_end ev = false -> seg u o u' -> seg u (OT ev :: o) u'.
  Proof. intros H1 H2 Hs. apply (seg_app u [OT ev] u o u'); [apply seg_ot; assumption | exact Hs]. Qed.

  Lemma seg_send u t pk vs : seg u [OT (t, TSend pk vs)] (u ++ frame_bytes encf pk vs).
  Proof. split; [apply bal_send | reflexivity]. Qed.

  Lemma seg_flush hz s o s' r : flush hz s = (o, s', r) -> seg (c_unsent s) o (c_unsent s').
  Proof.
    intros H. split; [eapply bal_flush; exact H|].
    destruct (flush_spec hz s o s' r H) as (Ht & _). apply noend_silent. exact Ht.
  Qed.

  Lemma fin_app u o1 u1 o2 rest : seg u o1 u1 -> fin u1 o2 rest -> fin u (o1 ++ o2) rest.
  Proof.
    intros [B1 N1] [B2 L2]. split; [eapply bal_app; eassumption|].
    rewrite trace_of_app, (last_good_app _ _ N1). exact L2.
  Qed.

  Lemma finx_app u o1 u1 o2 : seg u o1 u1 -> finx u1 o2 -> finx u (o1 ++ o2).
  Proof. intros Hs [rest Hf]. exists rest. eapply fin_app; eassumption. Qed.

  Lemma finx_cons u ev o : frame_of encf ev = [] -> is_end ev = false -> finx u o -> finx u (OT ev :: o).
  Proof. intros H1 H2 Hf. apply (finx_app u [OT ev] u o); [apply seg_ot; assumption | exact Hf]. Qed.

  (* a segment that is not continued: no end, nothing to show *)
  Lemma finx_of_seg u o u' : seg u o u' -> finx u o.
  Proof. intros [B N]. exists u'. split; [exact B|]. rewrite (last_good_noend _ N). discriminate. Qed.

  (* an end that is not good *)
  Lemma finx_bad_end u t oc : good oc = false -> finx u [OT (t, TEnd oc)].
  Proof.
    intros H. exists u. split; [apply bal_ot; reflexivity|].
    cbn [trace_of last_good snd]. rewrite H. discriminate.
  Qed.

  (* a good end with nothing queued *)
  Lemma finx_good_end t oc : finx [] [OT (t, TEnd oc)].
  Proof. exists []. split; [apply bal_ot; reflexivity | reflexivity]. Qed.

  Definition tres_fin (u : bytes) (p : list oev * tres) : Prop :=
    match snd p with
    | TkCont s' => seg u (fst p) (c_unsent s') /\ c_unsent s' = []
    | TkCut s' => seg u (fst p) (c_unsent s')
    | TkEnd => finx u (fst p)
    end.

  Lemma vfinish_fin u hz pre s1 : seg u pre (c_unsent s1) ->
    match vfinish hz pre s1 with
    | (o, TkCont _) => False
    | (o, TkCut s') => seg u o (c_unsent s')
    | (o, TkEnd) => finx u o
    end.
  Proof.
    intros Hpre. unfold vfinish. destruct (flush hz s1) as [[o s2] r] eqn:Hf.
    pose proof (seg_flush _ _ _ _ _ Hf) as Hs.
    destruct (flush_spec _ _ _ _ _ Hf) as (_ & _ & _ & _ & Hd & _).
    destruct r.
    - eapply finx_app; [exact Hpre|]. eapply finx_app; [exact Hs|].
      rewrite (Hd eq_refl). apply finx_good_end.
    - eapply seg_app; eassumption.
    - eapply finx_of_seg. eapply seg_app; eassumption.
  Qed.

  Lemma verdict_fin loc hz s : tres_fin (c_unsent s) (verdict e encf loclat loc hz s).
  Proof.
    rewrite verdict_unfold.
    assert (Hfresh : tres_fin (c_unsent s) (vfresh e encf loclat loc hz s)).
    { unfold vfresh. cbv zeta.
      destruct (match hz with Some h => (0 <? loclat) && (h <=? now3 s + loclat) | None => false end).
      - unfold tres_fin. cbn [fst snd]. split; [apply bal_oa; apply bal_nil | reflexivity].
      - destruct (fst (e_res e (CLocalize loc key_timeout))) as [json|n u ps|ts|t|msg|];
          try (unfold tres_fin; cbn [fst snd];
               apply finx_cons; [reflexivity | reflexivity|]; apply finx_cons; [reflexivity | reflexivity|];
               apply finx_bad_end; reflexivity).
        match goal with |- context [vfinish hz ?pre ?s1] =>
          pose proof (vfinish_fin (c_unsent s) hz pre s1) as Hv; destruct (vfinish hz pre s1) as [o r] end.
        unfold tres_fin. cbn [fst snd].
        assert (Hpre : seg (c_unsent s)
                  [OT (now3 s, TCall (CLocalize loc key_timeout));
                   OT (now3 s + Z.max loclat 0, TRes (CLocalize loc key_timeout) (RText msg));
                   OT (now3 s + Z.max loclat 0, TSend configuration_cb_DisconnectPacket [VB msg])]
                  (c_unsent s ++ frame_bytes encf configuration_cb_DisconnectPacket [VB msg])).
        { apply seg_cons; [reflexivity | reflexivity|]. apply seg_cons; [reflexivity | reflexivity|]. apply seg_send. }
        specialize (Hv Hpre). destruct r as [s'|s'|]; [contradiction | exact Hv | exact Hv]. }
    destruct (c_missed s); [exact Hfresh | exact Hfresh |].
    pose proof (vfinish_fin (c_unsent s) hz [] s (seg_nil _)) as Hv.
    destruct (vfinish hz [] s) as [o r]. unfold tres_fin. cbn [fst snd].
    destruct r as [s'|s'|]; [contradiction | exact Hv | exact Hv].
  Qed.

  Lemma tick3_fin loc hz s tt : tres_fin (c_unsent s) (tick3 e encf loclat loc hz s tt).
  Proof.
    unfold tick3. destruct (b_ka (c2 s)) as [kid|].
    - pose proof (verdict_fin loc hz (set_missed (at_time s tt) MDecided)) as Hv.
      destruct (verdict e encf loclat loc hz (set_missed (at_time s tt) MDecided)) as [o r].
      unfold tres_fin in *. cbn [fst snd set_missed at_time set2 c_unsent] in *.
      destruct r as [s'|s'|].
      + destruct Hv as [Hv He]. split; [|exact He]. apply seg_cons; [reflexivity | reflexivity | exact Hv].
      + apply seg_cons; [reflexivity | reflexivity | exact Hv].
      + apply finx_cons; [reflexivity | reflexivity | exact Hv].
    - match goal with |- context [flush hz ?s1] => destruct (flush hz s1) as [[o s2] r] eqn:Hf end.
      pose proof (seg_flush _ _ _ _ _ Hf) as Hs. cbn [enqueue c_unsent set2] in Hs.
      destruct (flush_spec _ _ _ _ _ Hf) as (_ & _ & _ & _ & Hd & _).
      assert (Hpre : seg (c_unsent s)
                [OT (tt, TTick); OT (tt, TFresh RKeepAlive (e_fresh e RKeepAlive (b_nka (c2 s))));
                 OT (tt, TSend configuration_cb_KeepAlivePacket [VZ (be_dec (e_fresh e RKeepAlive (b_nka (c2 s))))])]
                (c_unsent s ++ frame_bytes encf configuration_cb_KeepAlivePacket [VZ (be_dec (e_fresh e RKeepAlive (b_nka (c2 s))))])).
      { apply seg_cons; [reflexivity | reflexivity|]. apply seg_cons; [reflexivity | reflexivity|]. apply seg_send. }
      destruct r; unfold tres_fin; cbn [fst snd].
      + split; [eapply seg_app; eassumption | apply Hd; reflexivity].
      + eapply seg_app; eassumption.
      + eapply finx_of_seg. eapply seg_app; eassumption.
  Qed.

  Definition rres3_fin (u : bytes) (p : list oev * rres3) : Prop :=
    match snd p with
    | R3Got _ _ s' => seg u (fst p) (c_unsent s') /\ (u = [] -> c_unsent s' = [])
    | R3Cut s' => seg u (fst p) (c_unsent s')
    | R3End fi => finx u (fst p ++ fi)
    end.

  Lemma read_frame3_f_fin fuel m hz : forall s, rres3_fin (c_unsent s) (read_frame3_f cfg e encf loclat fuel m hz s).
  Proof.
    induction fuel as [|f IH]; intros s; cbn [read_frame3_f].
    - unfold rres3_fin. cbn [fst snd app]. apply finx_bad_end. reflexivity.
    - cbv zeta.
      match goal with |- context [if ?c then _ else _] => destruct c end.
      { unfold rres3_fin. cbn [fst snd]. destruct hz as [h|]; apply seg_nil. }
      match goal with |- context [if ?c then _ else _] => destruct c end.
      + destruct m as [loc|].
        * pose proof (tick3_fin loc hz s (Z.max (b_dl (c2 s)) (b_now (c2 s)))) as Ht.
          destruct (tick3 e encf loclat loc hz s (Z.max (b_dl (c2 s)) (b_now (c2 s)))) as [o r].
          unfold tres_fin in Ht. cbn [fst snd] in Ht.
          destruct r as [s'|s'|].
          -- destruct Ht as [Ht He]. specialize (IH s').
             destruct (read_frame3_f cfg e encf loclat f (Some loc) hz s') as [o2 r3].
             unfold rres3_fin in *. cbn [fst snd] in *.
             destruct r3 as [id body s''|s''|fi].
             ++ destruct IH as [IH1 IH2]. split; [eapply seg_app; eassumption|]. intros _. apply IH2. exact He.
             ++ eapply seg_app; eassumption.
             ++ rewrite <- app_assoc. eapply finx_app; eassumption.
          -- exact Ht.
          -- unfold rres3_fin. cbn [fst snd]. rewrite app_nil_r. exact Ht.
        * destruct (match b_in (c2 s), b_eof (c2 s) with
                    | (t, _) :: _, _ => Some (Z.max t (b_now (c2 s)))
                    | [], Some te => Some (Z.max te (b_now (c2 s)))
                    | [], None => None end) as [t|].
          -- match goal with |- context [read_frame3_f cfg e encf loclat f None hz ?s1] => exact (IH s1) end.
          -- unfold rres3_fin. cbn [fst snd app]. apply finx_bad_end. reflexivity.
      + destruct (b_in (c2 s)) as [|[t b] rest].
        * destruct (eof_events (b_rd (c2 s))) as [|[id body| |] evs]; unfold rres3_fin; cbn [fst snd app];
            first [apply finx_bad_end; reflexivity | split; [apply seg_nil | exact (fun H => H)]].
        * cbv zeta.
          destruct (feed_byte (cf_max_len cfg) (b_rd (c2 s)) b) as [rd' [|[id body| |] evs]].
          -- match goal with |- context [read_frame3_f cfg e encf loclat f m hz ?s1] => exact (IH s1) end.
          -- unfold rres3_fin. cbn [fst snd]. split; [apply seg_nil | exact (fun H => H)].
          -- unfold rres3_fin. cbn [fst snd app]. apply finx_bad_end. reflexivity.
          -- unfold rres3_fin. cbn [fst snd app]. apply finx_bad_end. reflexivity.
  Qed.

  Definition kres_fin (u : bytes) (p : list oev * (list fv * st3 + st3 + unit)) : Prop :=
    match snd p with
    | inl (inl (_, s')) => seg u (fst p) (c_unsent s') /\ (u = [] -> c_unsent s' = [])
    | inl (inr s') => seg u (fst p) (c_unsent s')
    | inr _ => finx u (fst p)
    end.

  Lemma ka_loop3_fin info loc hz fuel : forall s, kres_fin (c_unsent s) (ka_loop3 cfg e encf loclat fuel info loc hz s).
  Proof.
    induction fuel as [|f IH]; intros s; cbn [ka_loop3].
    - unfold kres_fin. cbn [fst snd]. apply finx_bad_end. reflexivity.
    - pose proof (read_frame3_f_fin (fuel3 s) (Some loc) hz s) as Hr. unfold read_frame3.
      destruct (read_frame3_f cfg e encf loclat (fuel3 s) (Some loc) hz s) as [o [id body s'|s'|fi]];
        unfold rres3_fin in Hr; cbn [fst snd] in Hr.
      + destruct Hr as [Hr He]. cbv zeta.
        destruct (conf_frame cfg info (b_ka (c2 s')) id body) as [ka''|vs|oc] eqn:Hcf.
        * match goal with |- context [ka_loop3 cfg e encf loclat f info loc hz ?s1] =>
            specialize (IH s1); destruct (ka_loop3 cfg e encf loclat f info loc hz s1) as [o2 r] end.
          unfold kres_fin in *. cbn [fst snd set2 c_unsent] in *.
          destruct r as [[[vs s'']|s'']|u].
          -- destruct IH as [IH1 IH2]. split.
             ++ eapply seg_app; [exact Hr|]. apply seg_cons; [reflexivity | reflexivity | exact IH1].
             ++ intros Hu. apply IH2. apply He. exact Hu.
          -- eapply seg_app; [exact Hr|]. apply seg_cons; [reflexivity | reflexivity | exact IH].
          -- eapply finx_app; [exact Hr|]. apply finx_cons; [reflexivity | reflexivity | exact IH].
        * unfold kres_fin. cbn [fst snd]. split; [|exact He].
          eapply seg_app; [exact Hr|]. apply seg_ot; reflexivity.
        * unfold kres_fin. cbn [fst snd]. eapply finx_app; [exact Hr|].
          apply finx_cons; [reflexivity | reflexivity|]. apply finx_bad_end.
          eapply conf_frame_end_not_good. exact Hcf.
      + exact Hr.
      + exact Hr.
  Qed.

  Theorem exec3_fin : forall p s fl, flushed_ends fl p -> (fl = true -> c_unsent s = []) ->
    finx (c_unsent s) (exec3 cfg e encf loclat p s).
  Proof.
    induction p as [o|k IH|loc k IH|loc c k IH|c k IH|pk vs k IH|ss k IH|w k IH|k IH];
      intros s fl Hp Hfl; cbn [exec3 flushed_ends] in *; cbv zeta.
    - (* Ret *)
      destruct (good o) eqn:Hg.
      + rewrite (Hfl (Hp eq_refl)). apply finx_good_end.
      + apply finx_bad_end. exact Hg.
    - (* Expect *)
      pose proof (read_frame3_f_fin (fuel3 s) None None s) as Hr. unfold read_frame3.
      destruct (read_frame3_f cfg e encf loclat (fuel3 s) None None s) as [o [id body s'|s'|fi]];
        unfold rres3_fin in Hr; cbn [fst snd] in Hr.
      + destruct Hr as [Hr He]. destruct (negb (len_ok cfg id body)).
        * eapply finx_app; [exact Hr|]. apply finx_cons; [reflexivity | reflexivity|]. apply finx_bad_end. reflexivity.
        * eapply finx_app; [exact Hr|]. apply finx_cons; [reflexivity | reflexivity|].
          apply (IH id body s' fl (Hp id body)). intros H. apply He. apply Hfl. exact H.
      + eapply finx_app; [exact Hr|]. apply finx_bad_end. reflexivity.
      + exact Hr.
    - (* WaitInfo *)
      pose proof (ka_loop3_fin true loc None (length (b_in (c2 s)) + 3) s) as Hk.
      destruct (ka_loop3 cfg e encf loclat (length (b_in (c2 s)) + 3) true loc None s) as [o [[[vs s']|s']|u]];
        unfold kres_fin in Hk; cbn [fst snd] in Hk.
      + destruct Hk as [Hk He]. eapply finx_app; [exact Hk|].
        apply (IH vs s' fl (Hp vs)). intros H. apply He. apply Hfl. exact H.
      + eapply finx_app; [exact Hk|]. apply finx_bad_end. reflexivity.
      + exact Hk.
    - (* Race *)
      destruct (e_res e c) as [r lat].
      pose proof (ka_loop3_fin false loc (Some (b_now (c2 s) + Z.max lat 1)) (length (b_in (c2 s)) + 3) s) as Hk.
      destruct (ka_loop3 cfg e encf loclat (length (b_in (c2 s)) + 3) false loc (Some (b_now (c2 s) + Z.max lat 1)) s) as [o [[[vs s']|s']|u]];
        unfold kres_fin in Hk; cbn [fst snd] in Hk.
      + destruct Hk as [Hk _]. apply finx_cons; [reflexivity | reflexivity|]. eapply finx_of_seg. exact Hk.
      + assert (Hpre : seg (c_unsent s) (OT (b_now (c2 s), TCall c) :: o) (c_unsent s'))
          by (apply seg_cons; [reflexivity | reflexivity | exact Hk]).
        assert (Hv : finx (c_unsent s) ((OT (b_now (c2 s), TCall c) :: o) ++ fst (verdict e encf loclat loc None s'))).
        { eapply finx_app; [exact Hpre|]. pose proof (verdict_fin loc None s') as Hv. unfold tres_fin in Hv.
          destruct (snd (verdict e encf loclat loc None s')) as [sv|sv|].
          - destruct Hv as [Hv _]. eapply finx_of_seg; exact Hv.
          - eapply finx_of_seg; exact Hv.
          - exact Hv. }
        assert (He : finx (c_unsent s) ((OT (b_now (c2 s), TCall c) :: o) ++ [OT (b_now (c2 s) + Z.max lat 1, TEnd (OErr KAdapter))])).
        { eapply finx_app; [exact Hpre|]. apply finx_bad_end. reflexivity. }
        destruct (c_missed s').
        * eapply finx_app; [exact Hpre|]. apply finx_cons; [reflexivity | reflexivity|].
          apply (IH r s' false (Hp r)). discriminate.
        * destruct r; first [exact Hv | exact He].
        * destruct r; first [exact Hv | exact He].
      + apply finx_cons; [reflexivity | reflexivity | exact Hk].
    - (* Call *)
      destruct (e_res e c) as [r lat].
      apply finx_cons; [reflexivity | reflexivity|]. apply finx_cons; [reflexivity | reflexivity|].
      apply (IH r (at_time s (b_now (c2 s) + Z.max lat 0)) fl (Hp r)). exact Hfl.
    - (* Send *)
      destruct (flush None (enqueue s (frame_bytes encf pk vs))) as [[o s'] r] eqn:Hf.
      pose proof (seg_flush _ _ _ _ _ Hf) as Hs. cbn [enqueue c_unsent] in Hs.
      destruct (flush_spec _ _ _ _ _ Hf) as (_ & _ & _ & _ & Hd & _).
      assert (Hpre : seg (c_unsent s) (OT (b_now (c2 s), TSend pk vs) :: o) (c_unsent s')).
      { apply (seg_app _ [OT (b_now (c2 s), TSend pk vs)] _ o _ (seg_send _ _ _ _) Hs). }
      destruct r.
      + change (OT (b_now (c2 s), TSend pk vs) :: o ++ exec3 cfg e encf loclat k s')
          with ((OT (b_now (c2 s), TSend pk vs) :: o) ++ exec3 cfg e encf loclat k s').
        eapply finx_app; [exact Hpre|]. apply (IH s' true Hp). intros _. apply Hd. reflexivity.
      + eapply finx_of_seg. exact Hpre.
      + eapply finx_of_seg. exact Hpre.
    - apply finx_cons; [reflexivity | reflexivity|]. apply (IH s fl Hp Hfl).
    - destruct w; (apply finx_cons; [reflexivity | reflexivity|]; apply (IH _ s fl (Hp _) Hfl)).
    - apply finx_cons; [reflexivity | reflexivity|].
      match goal with |- context [exec3 cfg e encf loclat (k ?n) ?s1] => apply (IH n s1 fl (Hp n)) end. exact Hfl.
  Qed.
End Delivery.

(* whenever a run ends with a good outcome everything that was sent is on the wire *)
Theorem run3_delivered_good o cfg e encf loclat cap sch s pre t oc :
  trace_of (run3 o cfg e encf loclat cap sch s) = pre ++ [(t, TEnd oc)] -> good oc = true ->
  concat (map (fun ev => match snd ev with TSend pk vs => frame_bytes encf pk vs | _ => [] end)
              (trace_of (run3 o cfg e encf loclat cap sch s)))
  = concat (map snd (wire_of (run3 o cfg e encf loclat cap sch s))).
Proof.
  intros Htr Hg.
  destruct (exec3_fin cfg e encf loclat (listen o cfg) (init3 s cap sch) false (listen_flushed o cfg))
    as (rest & Hb & Hl); [discriminate|].
  fold (run3 o cfg e encf loclat cap sch s) in Hb, Hl.
  rewrite Htr, last_good_snoc in Hl. rewrite (Hl Hg) in Hb.
  unfold bal in Hb. cbn [init3 c_unsent app] in Hb. rewrite app_nil_r in Hb. exact Hb.
Qed.

Theorem run3_delivered_ok o cfg e encf loclat cap sch s :
  (exists pre t, trace_of (run3 o cfg e encf loclat cap sch s) = pre ++ [(t, TEnd OOk)]) ->
  concat (map (fun ev => match snd ev with TSend pk vs => frame_bytes encf pk vs | _ => [] end)
              (trace_of (run3 o cfg e encf loclat cap sch s)))
  = concat (map snd (wire_of (run3 o cfg e encf loclat cap sch s))).
Proof. intros (pre & t & H). eapply run3_delivered_good; [exact H | reflexivity]. Qed.

Theorem run3_delivered_no_target o cfg e encf loclat cap sch s :
  (exists pre t, trace_of (run3 o cfg e encf loclat cap sch s) = pre ++ [(t, TEnd (OErr KNoTarget))]) ->
  concat (map (fun ev => match snd ev with TSend pk vs => frame_bytes encf pk vs | _ => [] end)
              (trace_of (run3 o cfg e encf loclat cap sch s)))
  = concat (map snd (wire_of (run3 o cfg e encf loclat cap sch s))).
Proof. intros (pre & t & H). eapply run3_delivered_good; [exact H | reflexivity]. Qed.

Theorem run3_delivered_missed_ka o cfg e encf loclat cap sch s :
  (exists pre t, trace_of (run3 o cfg e encf loclat cap sch s) = pre ++ [(t, TEnd (OErr KMissedKA))]) ->
  concat (map (fun ev => match snd ev with TSend pk vs => frame_bytes encf pk vs | _ => [] end)
              (trace_of (run3 o cfg e encf loclat cap sch s)))
  = concat (map snd (wire_of (run3 o cfg e encf loclat cap sch s))).
Proof. intros (pre & t & H). eapply run3_delivered_good; [exact H | reflexivity]. Qed.

(* ---------- non-vacuity ---------- *)
(* a packet sent into a transport with room for one byte, unlimited room from instant 4: the
   frame goes out in two chunks and the run ends successfully with everything on the wire *)
Example delivered_example :
  let out := exec3 ex_cfg (ex_env RErr) ex_encf 0
               (Send configuration_cb_TransferPacket [] (Ret OOk))
               {| c2 := ex_st2 None; c_unsent := []; c_cap := Some 1; c_sch := [(4, None)]; c_missed := MNo |} in
  map fst (trace_of out) = [0; 4]
  /\ map fst (wire_of out) = [0; 4]
  /\ wbytes out = fbytes ex_encf (trace_of out)
  /\ length (wbytes out) = 3%nat.
Proof. vm_compute. repeat split; reflexivity. Qed.

(* the hypothesis on the outcome is needed: the verdict's Disconnect is queued, one byte of it
   is accepted, the raced call fails - the run ends with the adapter's error and two bytes of the
   Disconnect are never written *)
Example undelivered_on_adapter_error :
  let out := exec3 ex_cfg (ex_env RErr) ex_encf 0 ex_race
               {| c2 := ex_st2 (Some 1); c_unsent := []; c_cap := Some 1; c_sch := []; c_missed := MNo |} in
  untime (trace_of out)
    = [TCall CDiscover; TTick; TCall (CLocalize None key_timeout); TRes (CLocalize None key_timeout) (RText [65]);
       TSend configuration_cb_DisconnectPacket [VB [65]]; TEnd (OErr KAdapter)]
  /\ length (fbytes ex_encf (trace_of out)) = 3%nat
  /\ length (wbytes out) = 1%nat.
Proof. vm_compute. repeat split; reflexivity. Qed.
