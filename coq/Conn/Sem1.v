(* M1: frame-level semantics of the connection program.  Frames arrive atomically at
   virtual times (ms); writes always succeed; keep-alive ticks are derived from time by an
   exact model of tokio's Interval with MissedTickBehavior::Skip.  Definitions only. *)
From Passage Require Import Lib.Bytes Codec.VarInt Codec.Desc Gen.PacketsGen Gen.ConstsGen
  Codec.PacketCheck Conn.Types Conn.Prog.

(* IBadLen: the reader refused a frame whose declared length is <= 0 or exceeds the maximum
   (byte level; produced by Conn/Reader.v, never by a frame-level script) *)
Inductive inev := IFrame (id : Z) (body : bytes) | IEof | IBadLen.
Definition inbox := list (Z * inev).         (* arrival time (ms), event; times non-decreasing *)

(* per-run environment: adapter results with their latency (ms), fresh values, wall clock *)
Record env := {
  e_res : call -> cres * Z;
  e_fresh : rnd -> nat -> bytes;     (* k-th fresh value of each sort *)
  e_now : nat -> Z }.                (* k-th SystemTime read (seconds since the epoch) *)

Record st1 := {
  s_now : Z;                 (* virtual time *)
  s_dl : Z;                  (* next deadline of the keep-alive interval *)
  s_ka : option Z;           (* keep-alive id awaiting its echo *)
  s_in : inbox;
  s_nka : nat;               (* keep-alive ids generated so far *)
  s_nnow : nat }.            (* SystemTime reads so far *)

Definition P : Z := keep_alive_interval * 1000.

(* tokio Interval::poll_tick with MissedTickBehavior::Skip: next deadline after a tick that
   is observed at [now] for deadline [d] *)
Definition fire (d now : Z) : Z :=
  if d + 5 <? now then now + P - ((now - d) mod P) else d + P.

(* receive_packet(false): ticks up to and including time [t] fire and are ignored; the
   first one may be late (observed at max d now), the following ones fire on time *)
Definition skip_ticks (d now t : Z) : Z :=
  if t <? d then d
  else let d1 := fire d (Z.max d now) in
       if t <? d1 then d1 else d1 + P * ((t - d1) / P + 1).

(* frame length as declared on the wire: id VarInt + body *)
Definition frame_len (id : Z) (body : bytes) : Z :=
  Z.of_nat (length (write_varint id) + length body).

Definition len_ok (cfg : conn_cfg) (id : Z) (body : bytes) : bool :=
  (0 <? frame_len id body) && (frame_len id body <=? cf_max_len cfg).

Definition trace := list timed.

(* result of the keep-alive wait loops *)
Inductive kres :=
| KGot (vs : list fv) (s : st1)          (* WaitInfo: client information decoded *)
| KDone (s : st1)                        (* Race: horizon reached, handler still alive *)
| KEnd (o : outcome).

Definition set_now (s : st1) (n : Z) : st1 :=
  {| s_now := n; s_dl := s_dl s; s_ka := s_ka s; s_in := s_in s; s_nka := s_nka s; s_nnow := s_nnow s |}.

Section Sem.
  Variable cfg : conn_cfg.
  Variable e : env.

  Definition ids_conf_keepalive := p_id configuration_sb_KeepAlivePacket.

  (* the keep-alive branch of receive_packet(true) when a tick is observed at [tt] *)
  (* returns the events and either the new (dl, ka, nka) or the end of the connection *)
  Definition tick_at (locale : option bytes) (tt dl : Z) (ka : option Z) (nka : nat)
    : trace * option (Z * option Z * nat) :=
    match ka with
    | Some _ =>
        let c := CLocalize locale key_timeout in
        match fst (e_res e c) with
        | RText msg =>
            ([(tt, TTick); (tt, TCall c); (tt, TRes c (RText msg));
              (tt, TSend configuration_cb_DisconnectPacket [VB msg]);
              (tt, TEnd (OErr KMissedKA))], None)
        | r => ([(tt, TTick); (tt, TCall c); (tt, TRes c r); (tt, TEnd (OErr KAdapter))], None)
        end
    | None =>
        let idb := e_fresh e RKeepAlive nka in
        ([(tt, TTick); (tt, TFresh RKeepAlive idb);
          (tt, TSend configuration_cb_KeepAlivePacket [VZ (be_dec idb)])],
         Some (fire dl tt, Some (be_dec idb), S nka))
    end.

  (* all ticks that fire up to and including time [t] (at most two can: the second one
     finds the first one's id unanswered) *)
  Definition ticks_until (locale : option bytes) (now dl : Z) (ka : option Z) (nka : nat) (t : Z)
    : trace * option (Z * option Z * nat) :=
    if t <? dl then ([], Some (dl, ka, nka))
    else
      let tt := Z.max dl now in
      match tick_at locale tt dl ka nka with
      | (tr1, None) => (tr1, None)
      | (tr1, Some (dl1, ka1, nka1)) =>
          if t <? dl1 then (tr1, Some (dl1, ka1, nka1))
          else match tick_at locale dl1 dl1 ka1 nka1 with
               | (tr2, None) => (tr1 ++ tr2, None)
               | (tr2, Some x) => (tr1 ++ tr2, Some x)      (* unreachable: ka1 is Some *)
               end
      end.

  (* one configuration-phase frame inside a keep-alive loop; [info] = whether client
     information ends the loop (WaitInfo) or is ignored (Race) *)
  Inductive fres := FCont (ka : option Z) | FInfo (vs : list fv) | FEnd (o : outcome).
  Definition conf_frame (info : bool) (ka : option Z) (id : Z) (body : bytes) : fres :=
    if negb (len_ok cfg id body) then FEnd (OErr KIllegalLen)
    else if id =? p_id configuration_sb_KeepAlivePacket then
      match dec vi vl (rkinds configuration_sb_KeepAlivePacket) body with
      | Ok [VZ kid] _ => FCont (match ka with Some x => if x =? kid then None else ka | None => None end)
      | Ok _ _ => FEnd (OErr KInternalIo)
      | Er er => FEnd (OErr (err_kind er))
      end
    else if id =? p_id configuration_sb_ClientInformationPacket then
      match dec vi vl (rkinds configuration_sb_ClientInformationPacket) body with
      | Ok vs _ => if info then FInfo vs else FCont ka
      | Er er => FEnd (OErr (err_kind er))
      end
    else if (id =? p_id configuration_sb_PluginMessagePacket)
         || (id =? p_id configuration_sb_ResourcePackResponsePacket)
         || (id =? p_id configuration_sb_CookieResponsePacket) then
      let p := if id =? p_id configuration_sb_PluginMessagePacket then configuration_sb_PluginMessagePacket
               else if id =? p_id configuration_sb_ResourcePackResponsePacket then configuration_sb_ResourcePackResponsePacket
               else configuration_sb_CookieResponsePacket in
      match dec vi vl (rkinds p) body with
      | Ok _ _ => FCont ka
      | Er er => FEnd (OErr (err_kind er))
      end
    else FEnd (OErr KUnexpectedId).

  (* the keep-alive loop: consumes inbox events with arrival time < [horizon] (None = no
     horizon: WaitInfo).  Structural recursion on the inbox. *)
  Fixpoint ka_loop (info : bool) (locale : option bytes) (horizon : option Z)
      (ib : inbox) (now dl : Z) (ka : option Z) (nka nnow : nat) : trace * kres :=
    let finish (tr : trace) (now' dl' : Z) (ka' : option Z) (nka' : nat) (ib' : inbox) :=
      (tr, KDone {| s_now := now'; s_dl := dl'; s_ka := ka'; s_in := ib'; s_nka := nka'; s_nnow := nnow |}) in
    match ib with
    | [] =>
        match horizon with
        | Some h =>
            (* ticks strictly before the adapter completes; the completion wins at h *)
            match ticks_until locale now dl ka nka (h - 1) with
            | (tr, None) => (tr, KEnd (OErr KMissedKA))
            | (tr, Some (dl', ka', nka')) => finish tr (Z.max now h) dl' ka' nka' []
            end
        | None =>
            (* silent client: first tick sends a keep-alive, the next one times out *)
            match ticks_until locale now dl ka nka (Z.max now dl + 2 * P) with
            | (tr, None) => (tr, KEnd (OErr KMissedKA))
            | (tr, Some _) => (tr ++ [(now, TEnd OHang)], KEnd OHang)   (* unreachable *)
            end
        end
    | (t, ev) :: rest =>
        let beyond := match horizon with Some h => h <=? Z.max t now | None => false end in
        if beyond then
          match horizon with
          | Some h =>
              match ticks_until locale now dl ka nka (h - 1) with
              | (tr, None) => (tr, KEnd (OErr KMissedKA))
              | (tr, Some (dl', ka', nka')) => finish tr (Z.max now h) dl' ka' nka' ib
              end
          | None => ([(now, TEnd OHang)], KEnd OHang)       (* unreachable *)
          end
        else
          let t' := Z.max t now in
          match ticks_until locale now dl ka nka t' with
          | (tr, None) => (tr, KEnd (OErr KMissedKA))
          | (tr, Some (dl', ka', nka')) =>
              match ev with
              | IEof => (tr ++ [(t', TEnd (OErr KClosed))], KEnd (OErr KClosed))
              | IBadLen => (tr ++ [(t', TEnd (OErr KIllegalLen))], KEnd (OErr KIllegalLen))
              | IFrame id body =>
                  match conf_frame info ka' id body with
                  | FEnd o => (tr ++ [(t', TRecv id body); (t', TEnd o)], KEnd o)
                  | FInfo vs =>
                      (tr ++ [(t', TRecv id body)],
                       KGot vs {| s_now := t'; s_dl := dl'; s_ka := ka'; s_in := rest; s_nka := nka'; s_nnow := nnow |})
                  | FCont ka'' =>
                      let (tr2, r) := ka_loop info locale horizon rest t' dl' ka'' nka' nnow in
                      (tr ++ (t', TRecv id body) :: tr2, r)
                  end
              end
          end
    end.

  (* receive_packet(false): the next frame; ticks are skipped *)
  Definition next_frame (s : st1) : option (Z * inev * st1) :=
    match s_in s with
    | [] => None
    | (t, ev) :: rest =>
        let t' := Z.max t (s_now s) in
        Some (t', ev, {| s_now := t'; s_dl := skip_ticks (s_dl s) (s_now s) t'; s_ka := s_ka s;
                         s_in := rest; s_nka := s_nka s; s_nnow := s_nnow s |})
    end.

  Fixpoint exec (p : prog) (s : st1) {struct p} : trace :=
    match p with
    | Ret o => [(s_now s, TEnd o)]
    | Expect k =>
        match next_frame s with
        | None => [(s_now s, TEnd OHang)]
        | Some (t, IEof, s') => [(t, TEnd (OErr KClosed))]
        | Some (t, IBadLen, s') => [(t, TEnd (OErr KIllegalLen))]
        | Some (t, IFrame id body, s') =>
            if negb (len_ok cfg id body) then [(t, TRecv id body); (t, TEnd (OErr KIllegalLen))]
            else (t, TRecv id body) :: exec (k id body) s'
        end
    | WaitInfo locale k =>
        match ka_loop true locale None (s_in s) (s_now s) (s_dl s) (s_ka s) (s_nka s) (s_nnow s) with
        | (tr, KGot vs s') => tr ++ exec (k vs) s'
        | (tr, KDone s') => tr ++ [(s_now s', TEnd OHang)]      (* unreachable without horizon *)
        | (tr, KEnd o) => tr                                     (* TEnd is already the last event *)
        end
    | Race locale c k =>
        let (r, lat) := e_res e c in
        let h := s_now s + Z.max lat 1 in
        match ka_loop false locale (Some h) (s_in s) (s_now s) (s_dl s) (s_ka s) (s_nka s) (s_nnow s) with
        | (tr, KDone s') => ((s_now s, TCall c) :: tr) ++ (h, TRes c r) :: exec (k r) s'
        | (tr, KGot _ s') => (s_now s, TCall c) :: tr            (* unreachable: info = false *)
        | (tr, KEnd o) => (s_now s, TCall c) :: tr
        end
    | Call c k =>
        let (r, lat) := e_res e c in
        let t := s_now s + Z.max lat 0 in
        (s_now s, TCall c) :: (t, TRes c r) :: exec (k r) (set_now s t)
    | Send pk vs k => (s_now s, TSend pk vs) :: exec k s
    | EncOn ss k => (s_now s, TEnc ss) :: exec k s
    | Fresh w k =>
        match w with
        | RKeepAlive =>
            let v := e_fresh e w (s_nka s) in (s_now s, TFresh w v) :: exec (k v) s
        | _ => let v := e_fresh e w 0%nat in (s_now s, TFresh w v) :: exec (k v) s
        end
    | Now k =>
        let n := e_now e (s_nnow s) in
        (s_now s, TNow n) :: exec (k n) {| s_now := s_now s; s_dl := s_dl s; s_ka := s_ka s; s_in := s_in s;
                                            s_nka := s_nka s; s_nnow := S (s_nnow s) |}
    end.
End Sem.

Definition init1 (ib : inbox) : st1 :=
  {| s_now := 0; s_dl := 0; s_ka := None; s_in := ib; s_nka := 0; s_nnow := 0 |}.

Definition run1 (o : oracles) (cfg : conn_cfg) (e : env) (ib : inbox) : trace :=
  exec cfg e (listen o cfg) (init1 ib).
