(* The connection handler as a program over a small set of primitives, transcribed from
   passage-protocol/src/connection.rs `Connection::listen`.  Definitions only. *)
From Passage Require Import Lib.Bytes Codec.VarInt Codec.Desc Gen.PacketsGen Gen.ConstsGen
  Codec.PacketCheck Crypto.Cookie Conn.Types.

Record conn_cfg := {
  cf_client : sockaddr;          (* effective client address *)
  cf_secret : option bytes;      (* auth cookie secret *)
  cf_max_len : Z;                (* max_packet_length (i32) *)
  cf_expiry : Z;                 (* auth_cookie_expiry, seconds *)
  cf_pubkey : bytes }.           (* DER encoded server public key *)

(* behaviour of third-party code, recorded per case / quantified in theorems *)
Record oracles := {
  o_rsa : bytes -> option bytes;                              (* RSA PKCS#1 v1.5 decrypt *)
  o_parse_session : bytes -> jres (option session_cookie);    (* serde_json: SessionCookie, `null` -> None *)
  o_parse_auth : bytes -> jres auth_cookie;
  o_ser_auth : auth_cookie -> bytes;
  o_ser_session : session_cookie -> bytes }.

Inductive prog :=
| Ret (o : outcome)
| Expect (k : Z -> bytes -> prog)                 (* match_packet! without keep-alive *)
| WaitInfo (locale : option bytes) (k : list fv -> prog)     (* the ClientInformation loop *)
| Race (locale : option bytes) (c : call) (k : cres -> prog) (* select!{ keep_alive(), adapter } *)
| Call (c : call) (k : cres -> prog)              (* adapter awaited without racing *)
| Send (p : packet) (vs : list fv) (k : prog)
| EncOn (secret : bytes) (k : prog)
| Fresh (w : rnd) (k : bytes -> prog)
| Now (k : Z -> prog).

Definition vi := varint_read_iters.
Definition vl := varlong_read_iters.

Definition dec_pkt (p : packet) (body : bytes) (k : list fv -> prog) : prog :=
  match dec vi vl (rkinds p) body with
  | Ok vs _ => k vs                      (* trailing bytes of the frame are ignored *)
  | Er e => Ret (OErr (err_kind e))
  end.

Definition expect_pkt (p : packet) (k : list fv -> prog) : prog :=
  Expect (fun id body => if id =? p_id p then dec_pkt p body k else Ret (OErr KUnexpectedId)).

Definition bad := Ret (OErr KInternalIo).   (* unreachable: a decoded list of the wrong shape *)

Definition key_timeout : bytes := Eval vm_compute in str "disconnect_timeout".
Definition key_no_target : bytes := Eval vm_compute in str "disconnect_no_target".
Definition auth_key_b : bytes := Eval vm_compute in str auth_cookie_key.
Definition session_key_b : bytes := Eval vm_compute in str session_cookie_key.

Section Listen.
  Variable o : oracles.
  Variable cfg : conn_cfg.

  Definition client := cf_client cfg.

  (* lines 381-436: decide whether authentication can be skipped *)
  Definition transfer_phase (st : Z) (name : bytes) (uuid : Z)
      (k : bool -> bytes -> Z -> list pprop -> prog) : prog :=
    if negb (st =? 2) then k true name uuid []
    else match cf_secret cfg with
    | None => k true name uuid []
    | Some secret =>
      Send login_cb_CookieRequestPacket [VB (auth_key_b)] (
      expect_pkt login_sb_CookieResponsePacket (fun vs =>
        match vs with
        | [VB _; VOpt None] => k true name uuid []
        | [VB _; VOpt (Some (VB signed))] =>
            let (ok, message) := verify signed secret in
            if negb ok then k true name uuid []
            else match o_parse_auth o message with
            | JErr => k true name uuid []                    (* [fix C02] was: Ret (OErr KJson) *)
            | JOk c =>
                Now (fun now =>
                  if negb (beq (sa_ip (ac_addr c)) (sa_ip client))
                     || (Z.min (ac_ts c + cf_expiry cfg) (2 ^ 64 - 1) <? now)   (* [fix] saturating add *)
                  then k true name uuid []
                  else k false (ac_name c) (ac_uuid c) (ac_props c))
            end
        | _ => bad
        end))
    end.

  Definition routing (host : bytes) (port proto : Z) (should_auth : bool) (session : option session_cookie)
      (name : bytes) (uuid : Z) (props : list pprop) (ci : list fv) : prog :=
    match ci with
    | VB loc :: _ =>
      let locale := Some loc in                                  (* [fix C03] was: None *)
      Race locale CDiscover (fun r =>
      match r with
      | RTargets ts =>
        Race locale (CFilter client host port proto name uuid ts) (fun r =>
        match r with
        | RTargets ts' =>
          Race locale (CSelect client host port proto name uuid ts') (fun r =>
          match r with
          | RTarget None =>
              Call (CLocalize locale key_no_target) (fun r =>
              match r with
              | RText msg => Send configuration_cb_DisconnectPacket [VB msg] (Ret (OErr KNoTarget))
              | _ => Ret (OErr KAdapter)
              end)
          | RTarget (Some t) =>
              let send_session (k : prog) : prog :=
                match session with
                | Some _ => k
                | None => Fresh RUuid (fun u =>
                    Send configuration_cb_StoreCookiePacket
                      [VB (session_key_b);
                       VB (o_ser_session o {| sc_id := be_dec u; sc_host := host; sc_port := port |})] k)
                end in
              let transfer :=
                Send configuration_cb_TransferPacket [VB (sa_ip (t_addr t)); VZ (sa_port (t_addr t))] (Ret OOk) in
              if should_auth then
                match cf_secret cfg with
                | None => send_session transfer
                | Some secret =>
                    Now (fun now =>
                      Send configuration_cb_StoreCookiePacket
                        [VB (auth_key_b);
                         VB (sign (o_ser_auth o {| ac_ts := now; ac_addr := client; ac_name := name; ac_uuid := uuid;
                                                   ac_target := Some (t_id t); ac_props := props; ac_extra := [] |})
                                  secret)]
                        (send_session transfer))
                end
              else send_session transfer
          | _ => Ret (OErr KAdapter)
          end)
        | _ => Ret (OErr KAdapter)
        end)
      | _ => Ret (OErr KAdapter)
      end)
    | _ => bad
    end.

  Definition listen : prog :=
    expect_pkt handshake_sb_HandshakePacket (fun vs =>
    match vs with
    | [VZ proto; VB host; VZ port; VZ st] =>
      if st =? 0 then
        (* status *)
        expect_pkt status_sb_StatusRequestPacket (fun _ =>
        Call (CStatus client host port proto) (fun r =>
        match r with
        | RStatus json =>
            Send status_cb_StatusResponsePacket [VB json] (
            expect_pkt status_sb_PingPacket (fun vs =>
            match vs with
            | [VZ payload] => Send status_cb_PongPacket [VZ payload] (Ret OOk)
            | _ => bad
            end))
        | _ => Ret (OErr KAdapter)
        end))
      else
        (* login / transfer *)
        expect_pkt login_sb_LoginStartPacket (fun vs =>
        match vs with
        | [VB name0; VZ uuid0] =>
          Send login_cb_CookieRequestPacket [VB (session_key_b)] (
          expect_pkt login_sb_CookieResponsePacket (fun vs =>
          match vs with
          | [VB _; VOpt payload] =>
            match (match payload with
                   | None => JOk None
                   | Some (VB p) => o_parse_session o p
                   | Some _ => JErr end) with
            | JErr => Ret (OErr KJson)
            | JOk session =>
              transfer_phase st name0 uuid0 (fun should_auth name1 uuid1 props1 =>
              Fresh RToken (fun token =>
              Send login_cb_EncryptionRequestPacket [VB []; VB (cf_pubkey cfg); VB token; VBool should_auth] (
              expect_pkt login_sb_EncryptionResponsePacket (fun vs =>
              match vs with
              | [VB ss_ct; VB vt_ct] =>
                match o_rsa o ss_ct with
                | None => Ret (OErr KCrypto)
                | Some ss =>
                  match o_rsa o vt_ct with
                  | None => Ret (OErr KCrypto)
                  | Some vt =>
                    if negb (beq vt token) then Ret (OErr KInvalidToken)
                    else
                      let after_auth (name : bytes) (uuid : Z) (props : list pprop) : prog :=
                        if negb (length ss =? 16)%nat then Ret (OErr KCrypto)   (* create_ciphers *)
                        else
                        EncOn ss (
                        Send login_cb_LoginSuccessPacket [VZ uuid; VB name; VUnit] (
                        expect_pkt login_sb_LoginAcknowledgedPacket (fun _ =>
                        WaitInfo None (fun ci =>
                        routing host port proto should_auth session name uuid props ci)))) in
                      if should_auth then
                        Call (CAuth client host port proto name1 uuid1 ss (cf_pubkey cfg)) (fun r =>
                        match r with
                        | RProfile n u ps => after_auth n u ps
                        | _ => Ret (OErr KAdapter)
                        end)
                      else after_auth name1 uuid1 props1
                  end
                end
              | _ => bad
              end))))
            end
          | _ => bad
          end))
        | _ => bad
        end)
    | _ => bad
    end).
End Listen.
