(* C07 on the whole connection.  Definitions only (proofs in KeepAliveWholeProofs.v, the static
   walks over [listen] in Walk_C07.v):
   - tsafe: a TIMED predicate transformer on programs, the timed analogue of Monitor.safe for
     the keep-alive monitor c07_step / c07_from_config (phases kphase, invariants pre_inv /
     conf_inv);
   - c07g_step / c07g_from_config: the gap monitor ("a Keep Alive at least every P while
     routing runs"), its transformer gsafe and its plain reading [covered];
   - cooperative / alive_step: the client-side description of a client that echoes in time
     (C07_survive); unechoed / recvs_before / timeout_trace: the unresponsive client
     (C07_timeout, C07_silent);
   - instant / select_k: Transfer as soon as routing completes;
   - Module C07Ex: non-vacuity examples evaluated by vm_compute. *)
From Passage Require Import Lib.Bytes Codec.VarInt Codec.Desc Gen.PacketsGen Gen.ConstsGen
  Codec.PacketCheck Crypto.Cookie Conn.Types Conn.Prog Conn.Sem1 Conn.Monitor Conn.KeepAlive.

(* where the handler is with respect to the keep-alive phase *)
Inductive kphase :=
| KPre     (* Login Success not sent yet: c07_from_config is still scanning *)
| KJust    (* Login Success was the previous event: the next event starts the monitor *)
| KConf    (* inside the keep-alive phase, interval invariant ref <= now <= dl <= ref + P holds *)
| KTail.   (* after the last keep-alive loop: no loop, no Keep Alive, no timeout any more *)

(* the adapter call that only the timeout branch of a keep-alive tick may make *)
Definition timeout_call (c : call) : bool :=
  match c with CLocalize _ key => beq key key_timeout | _ => false end.

Definition is_ka (p : packet) : bool := is_pkt p configuration_cb_KeepAlivePacket.
Definition is_ls (p : packet) : bool := is_pkt p login_cb_LoginSuccessPacket.

(* the static walk: [tsafe ph p] guarantees that every M1 trace of [p] started in a state
   satisfying the invariant of phase [ph] is accepted by the timed monitor *)
Fixpoint tsafe (ph : kphase) (p : prog) {struct p} : Prop :=
  match p with
  | Ret o =>
      match ph with
      | KPre | KJust => True
      | KConf | KTail => o <> OErr KMissedKA
      end
  | Expect k =>
      match ph with
      | KPre => forall id body, tsafe KPre (k id body)
      | KJust => forall id body, tsafe KConf (k id body)
      (* receive_packet(false) inside the phase: the interval invariant is lost (ticks are
         skipped, an echo is not recorded), so nothing keep-alive related may follow *)
      | KConf | KTail => forall id body, tsafe KTail (k id body)
      end
  | WaitInfo _ k =>
      match ph with
      | KConf => forall vs, tsafe KConf (k vs)
      | _ => False
      end
  | Race _ c k =>
      match ph with
      | KConf => timeout_call c = false /\ forall r, tsafe KConf (k r)
      | _ => False
      end
  | Call c k =>
      match ph with
      | KPre => forall r, tsafe KPre (k r)
      | KJust => False
      (* an adapter awaited without racing: time passes without ticks being served *)
      | KConf | KTail => timeout_call c = false /\ forall r, tsafe KTail (k r)
      end
  | Send pk _ k =>
      match ph with
      | KPre => if is_ls pk then tsafe KJust k else tsafe KPre k
      | KJust => False
      | KConf => is_ka pk = false /\ tsafe KConf k
      | KTail => is_ka pk = false /\ tsafe KTail k
      end
  | EncOn _ k =>
      match ph with KJust => False | _ => tsafe ph k end
  | Fresh _ k =>
      match ph with KJust => False | _ => forall v, tsafe ph (k v) end
  | Now k =>
      match ph with KJust => False | _ => forall n, tsafe ph (k n) end
  end.

(* state invariants of the phases *)
Definition pre_inv (s : st1) : Prop := s_ka s = None /\ s_dl s <= s_now s + P.
Definition conf_inv (ref : Z) (s : st1) : Prop :=
  ref <= s_now s /\ s_now s <= s_dl s /\ s_dl s <= ref + P.

(* ---------------------------------------------------------------------------------- *)
(* The gap monitor: c07_step plus "at least every P".  While routing is still running (from
   Login Acknowledged until the selection adapter has answered) NO event of the trace may be
   later than P after the last Keep Alive sent (or after the phase began).  c07_step alone
   only bounds the distance between two Keep Alives that are both sent; this one also rejects
   a handler that stops sending them while the client is kept waiting. *)
Definition is_select (c : call) : bool :=
  match c with CSelect _ _ _ _ _ _ _ => true | _ => false end.
Definition is_select_res (ev : tev) : bool :=
  match ev with TRes c _ => is_select c | _ => false end.

(* state: (reference time, id awaiting its echo, routing still running) *)
Definition c07g_step (st : Z * option Z * bool) (ev : timed) : option (Z * option Z * bool) :=
  let '(ref, out, live) := st in
  if live && (ref + P <? fst ev) then None
  else match c07_step (ref, out) ev with
       | Some st' => Some (st', live && negb (is_select_res (snd ev)))
       | None => None
       end.

Fixpoint c07g_run (st : Z * option Z * bool) (tr : trace) : option (Z * option Z * bool) :=
  match tr with
  | [] => Some st
  | ev :: r => match c07g_step st ev with Some st' => c07g_run st' r | None => None end
  end.

Fixpoint c07g_from_config (tr : trace) : bool :=
  match tr with
  | [] => true
  | (t, TSend p _) :: r =>
      if is_pkt p login_cb_LoginSuccessPacket then
        match r with
        | (t1, TRecv _ _) :: r1 =>
            match c07g_run (t1, None, true) r1 with Some _ => true | None => false end
        | _ => true
        end
      else c07g_from_config r
  | _ :: r => c07g_from_config r
  end.

(* the gap monitor read in plain terms: the instants at which Keep Alives are sent cover the
   span from [a] to [b] with steps of at most P *)
Definition ka_send_times (tr : trace) : list Z :=
  flat_map (fun x : timed => match snd x with
                             | TSend p _ => if is_ka p then [fst x] else []
                             | _ => [] end) tr.
Fixpoint covered (a : Z) (l : list Z) (b : Z) : Prop :=
  match l with
  | [] => b <= a + P
  | s :: l' => s <= a + P /\ covered s l' b
  end.
Definition no_ls (tr : trace) : bool :=
  forallb (fun x : timed => match snd x with TSend p _ => negb (is_ls p) | _ => true end) tr.
Definition no_select_res (tr : trace) : bool :=
  forallb (fun x : timed => negb (is_select_res (snd x))) tr.

(* the static walk for the gap monitor *)
Inductive gphase := GPre | GJust | GLive | GOff.

Fixpoint gsafe (ph : gphase) (p : prog) {struct p} : Prop :=
  match ph with
  | GOff => tsafe KTail p
  | _ =>
    match p with
    | Ret o => match ph with GLive => o <> OErr KMissedKA | _ => True end
    | Expect k =>
        match ph with
        | GPre => forall id body, gsafe GPre (k id body)
        | GJust => forall id body, gsafe GLive (k id body)
        | _ => False
        end
    | WaitInfo _ k =>
        match ph with GLive => forall vs, gsafe GLive (k vs) | _ => False end
    | Race _ c k =>
        match ph with
        | GLive => timeout_call c = false
                   /\ forall r, gsafe (if is_select c then GOff else GLive) (k r)
        | _ => False
        end
    | Call c k =>
        match ph with GPre => forall r, gsafe GPre (k r) | _ => False end
    | Send pk _ k =>
        match ph with
        | GPre => if is_ls pk then gsafe GJust k else gsafe GPre k
        | GLive => is_ka pk = false /\ gsafe GLive k
        | _ => False
        end
    | EncOn _ k => match ph with GJust => False | _ => gsafe ph k end
    | Fresh _ k => match ph with GJust => False | _ => forall v, gsafe ph (k v) end
    | Now k => match ph with GJust => False | _ => forall n, gsafe ph (k n) end
    end
  end.

(* ---------------------------------------------------------------------------------- *)
(* The cooperative client (C07_survive), described from the CLIENT's side of the interval:
   [dl] is the instant the next tick is due, [ka] the id still unanswered.  The description
   does not mention the loop, its ticks or its trace. *)

(* a well-formed configuration frame that a race ignores (Keep Alive, Client Information,
   Plugin Message, Resource Pack Response, Cookie Response - decodable, length accepted) *)
Definition wf_ignorable (cfg : conn_cfg) (id : Z) (body : bytes) : bool :=
  match conf_frame cfg false None id body with FCont _ => true | _ => false end.

(* an echo clears the id it carries, nothing else *)
Definition clear (ka echo : option Z) : option Z :=
  match ka, echo with
  | Some x, Some kid => if x =? kid then None else ka
  | _, _ => ka
  end.

(* what the client can rely on up to and including time [t] (for a state with now <= dl):
   nothing happens before dl; at dl a Keep Alive with the next fresh id is due unless one is
   still unanswered - then the client is dropped; the one sent at dl must be answered before
   dl + P *)
Definition alive_step (e : env) (dl : Z) (ka : option Z) (nka : nat) (t : Z)
  : option (Z * option Z * nat) :=
  if t <? dl then Some (dl, ka, nka)
  else match ka with
       | Some _ => None
       | None => if t <? dl + P
                 then Some (dl + P, Some (be_dec (e_fresh e RKeepAlive nka)), S nka)
                 else None
       end.

Definition alive_b (x : option (Z * option Z * nat)) : bool :=
  match x with Some _ => true | None => false end.

(* the inbox of a cooperative client during a race that completes at [h]: every frame that
   arrives before [h] is well formed and ignorable, and arrives while the client is still
   alive, i.e. each Keep Alive is echoed (same id) before the next one is due *)
Fixpoint cooperative (cfg : conn_cfg) (e : env) (h : Z) (ib : inbox) (now dl : Z)
    (ka : option Z) (nka : nat) : bool :=
  match ib with
  | [] => alive_b (alive_step e dl ka nka (h - 1))
  | (t, ev) :: rest =>
      let t' := Z.max t now in
      if h <=? t' then alive_b (alive_step e dl ka nka (h - 1))
      else match alive_step e dl ka nka t', ev with
           | Some (dl', ka', nka'), IFrame id body =>
               wf_ignorable cfg id body
               && cooperative cfg e h rest t' dl' (clear ka' (ka_echo id body)) nka'
           | _, _ => false
           end
  end.

(* ---------------------------------------------------------------------------------- *)
(* The unresponsive client (C07_timeout): id [x] is unanswered and the next tick is due at
   [d]; every frame arriving before [d] is one the loop ignores and leaves [x] unanswered
   (anything but an echo of x: no echo, an echo of a different id, other ignorable frames) *)
Fixpoint unechoed (cfg : conn_cfg) (info : bool) (ka : option Z) (d : Z) (ib : inbox) (now : Z) : bool :=
  match ib with
  | [] => true
  | (t, ev) :: rest =>
      let t' := Z.max t now in
      if d <=? t' then true
      else match ev with
           | IFrame id body =>
               match conf_frame cfg info ka id body with
               | FCont ka' => match ka, ka' with
                              | Some x, Some y => (x =? y) && unechoed cfg info ka d rest t'
                              | None, None => unechoed cfg info ka d rest t'
                              | _, _ => false
                              end
               | _ => false
               end
           | _ => false
           end
  end.

(* the horizon of the loop (the completion of the raced adapter), if any, is later than [d] *)
Definition later_than (hz : option Z) (d : Z) : Prop :=
  match hz with Some h => d < h | None => True end.

(* the frames consumed while waiting: (arrival time, frame) of the inbox prefix before [d] *)
Fixpoint recvs_before (d : Z) (ib : inbox) (now : Z) : trace :=
  match ib with
  | [] => []
  | (t, ev) :: rest =>
      let t' := Z.max t now in
      if d <=? t' then []
      else match ev with
           | IFrame id body => (t', TRecv id body) :: recvs_before d rest t'
           | _ => []
           end
  end.

(* what is left of the inbox (and the time reached) once the frames before [d] are consumed *)
Fixpoint rest_after (d : Z) (ib : inbox) (now : Z) : inbox * Z :=
  match ib with
  | [] => ([], now)
  | (t, ev) :: rest =>
      let t' := Z.max t now in
      if d <=? t' then (ib, now)
      else match ev with
           | IFrame _ _ => rest_after d rest t'
           | _ => (ib, now)
           end
  end.

(* what the handler does at the tick that finds an id unanswered *)
Definition timeout_trace (e : env) (loc : option bytes) (tt : Z) : trace :=
  let c := CLocalize loc key_timeout in
  match fst (e_res e c) with
  | RText msg => [(tt, TTick); (tt, TCall c); (tt, TRes c (RText msg));
                  (tt, TSend configuration_cb_DisconnectPacket [VB msg]);
                  (tt, TEnd (OErr KMissedKA))]
  | r => [(tt, TTick); (tt, TCall c); (tt, TRes c r); (tt, TEnd (OErr KAdapter))]
  end.

(* the Keep Alive a tick sends when no id is unanswered *)
Definition keepalive_trace (e : env) (tt : Z) (nka : nat) : trace :=
  let idb := e_fresh e RKeepAlive nka in
  [(tt, TTick); (tt, TFresh RKeepAlive idb); (tt, TSend configuration_cb_KeepAlivePacket [VZ (be_dec idb)])].

(* ---------------------------------------------------------------------------------- *)
(* Transfer as soon as routing completes (C07_transfer_after_routing) *)

(* programs that take no time: no read, no wait, no adapter call *)
Fixpoint instant (p : prog) : Prop :=
  match p with
  | Ret _ => True
  | Send _ _ k | EncOn _ k => instant k
  | Fresh _ k => forall v, instant (k v)
  | Now k => forall n, instant (k n)
  | Expect _ | WaitInfo _ _ | Race _ _ _ | Call _ _ => False
  end.

(* the continuation of the selection race in Prog.routing (same text; routing_unfold in the
   proofs file shows by reflexivity that it IS that continuation) *)
Definition select_k (o : oracles) (cfg : conn_cfg) (host : bytes) (port : Z) (should_auth : bool)
    (session : option session_cookie) (name : bytes) (uuid : Z) (props : list pprop)
    (locale : option bytes) : cres -> prog :=
  fun r =>
    match r with
    | RTarget None =>
        Call (CLocalize locale key_no_target) (fun r =>
        match r with
        | RText msg => Send configuration_cb_DisconnectPacket [VB msg] (Ret (OErr KNoTarget))
        | _ => Ret (OErr KAdapter)
        end)
    | RTarget (Some t) =>
        let send_session (k : prog) : prog :=
          match session with
          | Some _ => k
          | None => Fresh RUuid (fun u =>
              Send configuration_cb_StoreCookiePacket
                [VB (session_key_b);
                 VB (o_ser_session o {| sc_id := be_dec u; sc_host := host; sc_port := port |})] k)
          end in
        let transfer :=
          Send configuration_cb_TransferPacket [VB (sa_ip (t_addr t)); VZ (sa_port (t_addr t))] (Ret OOk) in
        if should_auth then
          match cf_secret cfg with
          | None => send_session transfer
          | Some secret =>
              Now (fun now =>
                Send configuration_cb_StoreCookiePacket
                  [VB (auth_key_b);
                   VB (sign (o_ser_auth o {| ac_ts := now; ac_addr := cf_client cfg; ac_name := name; ac_uuid := uuid;
                                             ac_target := Some (t_id t); ac_props := props; ac_extra := [] |})
                            secret)]
                  (send_session transfer))
          end
        else send_session transfer
    | _ => Ret (OErr KAdapter)
    end.

(* ---------------------------------------------------------------------------------- *)
(* A toy world for the non-vacuity examples: RSA "decrypts" to the ciphertext itself, one
   backend, discovery takes [lat] ms, Keep Alive ids are 1, 2, 3, ... *)
