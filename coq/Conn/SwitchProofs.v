(* Every trace the order automaton accepts - hence every trace of the handler at frame level
   (M1) and at byte level (M2) - passes the switch monitor. *)
From Passage Require Import Lib.Bytes Codec.VarInt Codec.Desc Gen.PacketsGen Gen.ConstsGen Codec.PacketCheck
  Conn.Types Conn.Prog Conn.Sem1 Conn.Sem2 Conn.Monitor Conn.MonitorProofs Conn.Monitor2Proofs Conn.Order Conn.OrderProofs Conn.Switch.

Definition phase_of (q : Z) : Z := if q <? 30 then 0 else if q =? 30 then 1 else 2.

Lemma is_pkt_state p x : is_pkt p x = true -> p_state p = p_state x.
Proof. unfold is_pkt. intros H. apply andb_prop in H as [H _]. apply andb_prop in H as [H _]. apply String.eqb_eq in H. exact H. Qed.

Lemma is_pkt_trans_false p x y : is_pkt p x = true -> is_pkt x y = false -> is_pkt p y = false.
Proof.
  unfold is_pkt. intros H Hn.
  apply andb_prop in H as [H H3]. apply andb_prop in H as [H1 H2].
  apply String.eqb_eq in H1, H2, H3. rewrite H1, H2, H3. exact Hn.
Qed.

Ltac gt H := unfold goto, goto2 in H;
  repeat match type of H with context [if ?c then _ else _] => destruct c eqn:?; try discriminate end;
  try (inversion H; subst; clear H).

Lemma delta_send_sw q p vs q' :
  delta q (TSend p vs) = Some q' -> sw_step (phase_of q) (TSend p vs) = Some (phase_of q').
Proof.
  cbn [delta sw_step]. intros H.
  destruct (is_pkt p status_cb_StatusResponsePacket) eqn:E1.
  { gt H. assert (q = 11) by lia. subst. cbn. unfold clear_pkt. rewrite (is_pkt_state _ _ E1).
    rewrite (is_pkt_trans_false _ _ login_cb_LoginSuccessPacket E1 eq_refl). reflexivity. }
  destruct (is_pkt p status_cb_PongPacket) eqn:E2.
  { gt H. assert (q = 13) by lia. subst. cbn. unfold clear_pkt. rewrite (is_pkt_state _ _ E2).
    rewrite (is_pkt_trans_false _ _ login_cb_LoginSuccessPacket E2 eq_refl). reflexivity. }
  destruct (is_pkt p login_cb_CookieRequestPacket) eqn:E3.
  { assert (Hc : clear_pkt p = true).
    { unfold clear_pkt. rewrite (is_pkt_state _ _ E3). rewrite (is_pkt_trans_false _ _ login_cb_LoginSuccessPacket E3 eq_refl). reflexivity. }
    destruct (beq (key_of vs) session_key_b).
    - gt H. assert (q = 2) by lia. subst. cbn. rewrite Hc. reflexivity.
    - destruct (beq (key_of vs) auth_key_b); [|discriminate]. gt H. assert (q = 22) by lia. subst. cbn. rewrite Hc. reflexivity. }
  destruct (is_pkt p login_cb_EncryptionRequestPacket) eqn:E4.
  { gt H. assert (q = 25) by lia. subst. cbn. unfold clear_pkt. rewrite (is_pkt_state _ _ E4).
    rewrite (is_pkt_trans_false _ _ login_cb_LoginSuccessPacket E4 eq_refl). reflexivity. }
  destruct (is_pkt p login_cb_LoginSuccessPacket) eqn:E5.
  { gt H. assert (q = 30) by lia. subst. cbn. reflexivity. }
  destruct (is_pkt p configuration_cb_StoreCookiePacket) eqn:E6.
  { destruct (beq (key_of vs) auth_key_b).
    - gt H. assert (q = 40) by lia. subst. cbn. rewrite (is_pkt_state _ _ E6). reflexivity.
    - destruct (beq (key_of vs) session_key_b); [|discriminate]. gt H. assert (q = 42) by lia. subst. cbn.
      rewrite (is_pkt_state _ _ E6). reflexivity. }
  destruct (is_pkt p configuration_cb_TransferPacket) eqn:E7.
  { destruct ((q =? 39) || (q =? 41) || (q =? 43)) eqn:Eq; [|discriminate]. inversion H; subst.
    assert (Hq : phase_of q = 2) by (unfold phase_of; destruct (q <? 30) eqn:?; [lia|]; destruct (q =? 30) eqn:?; [lia|reflexivity]).
    rewrite Hq. cbn. rewrite (is_pkt_state _ _ E7). reflexivity. }
  destruct (is_pkt p configuration_cb_DisconnectPacket) eqn:E8; [|discriminate].
  destruct (q =? 51) eqn:Eq.
  - inversion H; subst. assert (q = 51) by lia. subst. cbn. rewrite (is_pkt_state _ _ E8). reflexivity.
  - gt H. assert (q = 61) by lia. subst. cbn. rewrite (is_pkt_state _ _ E8). reflexivity.
Qed.

Definition dead (q : Z) : Prop := q = 99 \/ q = 100.
Definition Inv (q ph : Z) : Prop := dead q \/ ph = phase_of q.

Lemma dead_no_send q p vs : dead q -> delta q (TSend p vs) = None.
Proof.
  intros [H|H]; subst; unfold delta, goto, goto2;
    repeat match goal with
           | |- context [if is_pkt ?a ?b then _ else _] => destruct (is_pkt a b)
           | |- context [if beq ?a ?b then _ else _] => destruct (beq a b)
           end; reflexivity.
Qed.
Lemma dead_no_enc q ss : dead q -> delta q (TEnc ss) = None.
Proof. intros [H|H]; subst; reflexivity. Qed.

Ltac ph_solve := unfold phase_of;
  repeat match goal with |- context [if ?c then _ else _] => destruct c eqn:? end; lia.

(* events other than packets sent and the switch itself never change the phase (or end the run) *)
Lemma delta_other_sw q e q' :
  delta q e = Some q' ->
  match e with TSend _ _ | TEnc _ => False | _ => True end ->
  dead q' \/ phase_of q' = phase_of q.
Proof.
  intros H He. destruct e as [id body|p vs|c|c r|w v|n|ss| |o]; try contradiction; cbn [delta] in H.
  - (* TRecv *) repeat match type of H with context [if ?c then _ else _] => destruct c eqn:?; try discriminate end;
      inversion H; subst; first [left; unfold dead; lia | right; ph_solve].
  - (* TCall *) destruct c; gt H; right; unfold resting in *; ph_solve.
  - (* TRes *) destruct c; gt H; right; ph_solve.
  - (* TFresh *) destruct w; try discriminate; gt H; right; ph_solve.
  - (* TNow *) destruct (q =? 24) eqn:E; [inversion H; subst; right; ph_solve | gt H; right; ph_solve].
  - (* TTick *) discriminate.
  - (* TEnd *) destruct o as [|k|]; [gt H; left; right; reflexivity | | ].
    + destruct k; try discriminate; destruct (q =? 100); try discriminate; inversion H; left; right; reflexivity.
    + destruct (q =? 100); [discriminate|]. inversion H. left; right; reflexivity.
Qed.

Lemma dead_stays_dead q e q' : dead q -> delta q e = Some q' -> dead q'.
Proof.
  intros Hd H. destruct e as [id body|p vs|c|c r|w v|n|ss| |o].
  - destruct Hd; subst; cbn in H; discriminate.
  - rewrite (dead_no_send _ p vs Hd) in H. discriminate.
  - destruct Hd; subst; destruct c; cbn in H; try discriminate;
      repeat match type of H with context [if ?c then _ else _] => destruct c; try discriminate end.
  - destruct Hd; subst; destruct c; cbn in H; discriminate.
  - destruct Hd; subst; destruct w; cbn in H; discriminate.
  - destruct Hd; subst; cbn in H; discriminate.
  - rewrite (dead_no_enc _ ss Hd) in H. discriminate.
  - discriminate.
  - destruct Hd; subst; destruct o as [|k|]; try (destruct k); cbn in H; try discriminate; inversion H; right; reflexivity.
Qed.

Lemma internal_send_conf info p vs : internal info (TSend p vs) = true -> p_state p = "configuration"%string.
Proof. cbn [internal]. intros H. apply is_pkt_state in H. exact H. Qed.

Lemma step_order_sw st e st' ph :
  Inv (q st) ph -> step_order st e = Some st' ->
  exists ph', sw_step ph e = Some ph' /\ Inv (q st') ph'.
Proof.
  intros HI Hs. unfold step_order, step_with in Hs.
  destruct (internal_at (q st) e) eqn:Ei.
  - inversion Hs; subst st'. clear Hs.
    destruct e as [id body|p vs|c|c r|w v|n|ss| |o]; try (exists ph; split; [reflexivity | exact HI]).
    + (* an internal packet: a Keep Alive in a resting state *)
      unfold internal_at in Ei.
      assert (Hc : p_state p = "configuration"%string /\ 32 <= q st <= 38).
      { apply orb_prop in Ei as [Ei|Ei]; apply andb_prop in Ei as [Eq Ei];
          (split; [eapply internal_send_conf; exact Ei | lia]). }
      destruct Hc as [Hc Hq].
      destruct HI as [[Hd|Hd]|HI]; try lia.
      assert (Hp : phase_of (q st) = 2) by ph_solve. rewrite Hp in HI. subst ph.
      exists 2. split; [cbn; rewrite Hc; reflexivity | right; symmetry; exact Hp].
    + (* TEnc is never internal *)
      unfold internal_at, internal in Ei. rewrite !andb_false_r in Ei. discriminate.
  - destruct (delta (q st) e) as [q'|] eqn:Ed; [|discriminate]. cbn in Hs. inversion Hs; subst st'. cbn [q].
    destruct e as [id body|p vs|c|c r|w v|n|ss| |o];
      try (exists ph; split; [reflexivity|];
           destruct HI as [Hd|HI]; [left; eapply dead_stays_dead; eauto|];
           destruct (delta_other_sw _ _ _ Ed I) as [Hd|Hp]; [left; exact Hd | right; congruence]).
    + (* TSend *)
      destruct HI as [Hd|HI]; [rewrite (dead_no_send _ p vs Hd) in Ed; discriminate|].
      exists (phase_of q'). split; [rewrite HI; apply delta_send_sw; exact Ed | right; reflexivity].
    + (* TEnc *)
      destruct HI as [Hd|HI]; [rewrite (dead_no_enc _ ss Hd) in Ed; discriminate|].
      subst ph. cbn [delta] in Ed. unfold goto2 in Ed.
      destruct ((q st =? 27) || (q st =? 29)) eqn:Eq; [|discriminate]. inversion Ed; subst q'.
      assert (Hp : phase_of (q st) = 0) by ph_solve.
      exists 1. split; [cbn [sw_step]; rewrite Hp; reflexivity | right; reflexivity].
Qed.

Lemma run_order_sw : forall tr st ph, Inv (q st) ph -> ok step_order st tr -> run sw_step ph tr <> None.
Proof.
  induction tr as [|e tr IH]; intros st ph HI Hok; cbn [run]; [discriminate|].
  unfold ok in Hok. cbn [run] in Hok. destruct (step_order st e) as [st'|] eqn:Es; [|congruence].
  destruct (step_order_sw _ _ _ _ HI Es) as (ph' & Hsw & HI'). rewrite Hsw. eapply IH; eauto.
Qed.

Theorem order_ok_switch_ok tr : ok step_order m_init tr -> switch_ok tr = true.
Proof.
  intros H. unfold switch_ok. pose proof (run_order_sw tr m_init 0 (or_intror eq_refl) H) as Hr.
  destruct (run sw_step 0 tr); [reflexivity | congruence].
Qed.

Theorem run1_switch_ok o cfg e ib : switch_ok (untime (run1 o cfg e ib)) = true.
Proof. apply order_ok_switch_ok, order_accepts. Qed.

Theorem run2_switch_ok o cfg e segs : switch_ok (untime (run2 o cfg e segs)) = true.
Proof. apply order_ok_switch_ok. unfold run2. apply safe_sound2. apply listen_order_safe. Qed.
