(* C05 at connection level: where the encryption switch sits in the packet stream.  A
   three-phase monitor on traces: 0 = clear (only status / login packets other than Login
   Success may be sent), 1 = just switched (TEnc seen: the next packet sent must be Login
   Success), 2 = encrypted (only configuration packets).  TEnc may occur once, in phase 0.
   Definitions only. *)
From Passage Require Import Lib.Bytes Codec.Desc Gen.PacketsGen Conn.Types Conn.Prog Conn.Sem1 Conn.Monitor.

Definition clear_pkt (p : packet) : bool :=
  (String.eqb (p_state p) "status" || String.eqb (p_state p) "login")
  && negb (is_pkt p login_cb_LoginSuccessPacket).

Definition sw_step (ph : Z) (e : tev) : option Z :=
  match e with
  | TEnc _ => if ph =? 0 then Some 1 else None
  | TSend p _ =>
      if ph =? 0 then (if clear_pkt p then Some 0 else None)
      else if ph =? 1 then (if is_pkt p login_cb_LoginSuccessPacket then Some 2 else None)
      else (if String.eqb (p_state p) "configuration" then Some 2 else None)
  | _ => Some ph
  end.

Definition switch_ok (tr : list tev) : bool :=
  match run sw_step 0 tr with Some _ => true | None => false end.

Example switch_ok_example :
  switch_ok [TSend login_cb_EncryptionRequestPacket []; TEnc [1]; TSend login_cb_LoginSuccessPacket [];
             TSend configuration_cb_KeepAlivePacket []; TSend configuration_cb_TransferPacket []] = true
  /\ switch_ok [TSend login_cb_LoginSuccessPacket []; TEnc [1]] = false
  /\ switch_ok [TEnc [1]; TSend configuration_cb_KeepAlivePacket []] = false
  /\ switch_ok [TEnc [1]; TSend login_cb_LoginSuccessPacket []; TEnc [1]] = false.
Proof. vm_compute. repeat split; reflexivity. Qed.
