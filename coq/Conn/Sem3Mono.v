(* Time never runs backwards in M3 (Conn/Sem3.v): the instants of ALL output events of a run - the
   events of the handler, the chunks the transport accepted, the abandoned adapter calls - are
   non-decreasing in list order.  No hypothesis: not on the input (the handler sees arrival times
   only through its own clock, Z.max t now), not on the write schedule (absorb removes every
   instant that is due, so the head that a blocked write waits for is in the future), not on the
   latency of localize() (clamped by Z.max).

   G1  run3_mono                    the instants of run3 are non-decreasing
   G2  run3_wire_mono               the instants of the wire are non-decreasing
       run3_write_after_send        a chunk is accepted at or after every send that precedes it
       M3_delivery_not_before_send  ... in particular after the latest one *)
From Passage Require Import Lib.Bytes Codec.VarInt Codec.Desc Gen.PacketsGen Gen.ConstsGen
  Codec.PacketCheck Conn.Types Conn.Prog Conn.Sem1 Conn.Reader Conn.Sem2 Conn.Sem3 Conn.Sem3Proofs
  Conn.Refine2Proofs Conn.Sem3Fuel.

Definition instant (x : oev) : Z := match x with OT ev => fst ev | OW t _ => t | OA t _ => t end.
Definition instants (l : list oev) : list Z := map instant l.

Fixpoint nondec_from (lo : Z) (l : list Z) : bool :=
  match l with [] => true | t :: r => (lo <=? t) && nondec_from t r end.
Definition nondecreasing (l : list Z) : bool :=
  match l with [] => true | t :: r => nondec_from t r end.

(* lo <= the instants of o, in non-decreasing order, <= hi *)
Fixpoint chain (lo : Z) (o : list oev) (hi : Z) : Prop :=
  match o with [] => lo <= hi | x :: r => lo <= instant x /\ chain (instant x) r hi end.
Definition asc (lo : Z) (o : list oev) : Prop := exists hi, chain lo o hi.

Lemma chain_le : forall o lo hi, chain lo o hi -> lo <= hi.
Proof. induction o as [|x r IH]; intros lo hi H; cbn [chain] in H; [exact H|]. destruct H as [H1 H2]. specialize (IH _ _ H2). lia. Qed.

Lemma chain_app : forall a lo mid b hi, chain lo a mid -> chain mid b hi -> chain lo (a ++ b) hi.
Proof.
  induction a as [|x r IH]; intros lo mid b hi Ha Hb; cbn [chain app] in *.
  - destruct b as [|y b]; cbn [chain] in *; [lia|]. destruct Hb as [H1 H2]. split; [lia | exact H2].
  - destruct Ha as [H1 H2]. split; [exact H1 | exact (IH _ _ _ _ H2 Hb)].
Qed.

Lemma chain_lo lo' lo o hi : lo' <= lo -> chain lo o hi -> chain lo' o hi.
Proof. intros H Hc. destruct o as [|x r]; cbn [chain] in *; [lia|]. destruct Hc as [H1 H2]. split; [lia | exact H2]. Qed.

Lemma chain_hi : forall o lo hi hi', hi <= hi' -> chain lo o hi -> chain lo o hi'.
Proof.
  induction o as [|x r IH]; intros lo hi hi' H Hc; cbn [chain] in *; [lia|].
  destruct Hc as [H1 H2]. split; [exact H1 | exact (IH _ _ _ H H2)].
Qed.

Lemma asc_chain lo o hi : chain lo o hi -> asc lo o.
Proof. intros H. exists hi. exact H. Qed.

Lemma asc_app lo a mid b : chain lo a mid -> asc mid b -> asc lo (a ++ b).
Proof. intros Ha [hi Hb]. exists hi. exact (chain_app _ _ _ _ _ Ha Hb). Qed.

Lemma asc_lo lo' lo o : lo' <= lo -> asc lo o -> asc lo' o.
Proof. intros H [hi Hc]. exists hi. exact (chain_lo _ _ _ _ H Hc). Qed.

Lemma asc_cons lo x o : lo <= instant x -> asc (instant x) o -> asc lo (x :: o).
Proof. intros H [hi Hc]. exists hi. split; assumption. Qed.

Lemma chain_nondec : forall o lo hi, chain lo o hi -> nondec_from lo (instants o) = true.
Proof.
  induction o as [|x r IH]; intros lo hi H; cbn [chain instants map nondec_from] in *; [reflexivity|].
  destruct H as [H1 H2]. apply andb_true_intro. split; [apply Z.leb_le; exact H1 | exact (IH _ _ H2)].
Qed.

Lemma asc_nondecreasing lo o : asc lo o -> nondecreasing (instants o) = true.
Proof.
  intros [hi H]. destruct o as [|x r]; [reflexivity|]. cbn [chain] in H. destruct H as [_ H].
  exact (chain_nondec _ _ _ H).
Qed.

(* the head of an absorbed schedule is in the future *)
Lemma absorb_head now : forall sch cap cap' te c r, absorb now cap sch = (cap', (te, c) :: r) -> now < te.
Proof.
  induction sch as [|[t c0] r0 IH]; intros cap cap' te c r H; cbn [absorb] in H; [discriminate H|].
  destruct (t <=? now) eqn:Ht.
  - exact (IH _ _ _ _ _ H).
  - apply Z.leb_gt in Ht. inversion H; subst. exact Ht.
Qed.

Ltac nw := unfold hz_gt, now3 in *;
  cbn [at_time set2 set_missed enqueue c2 upd b_now chain instant fst snd app] in *.

Section Mono.
  Variable cfg : conn_cfg.
  Variable e : env.
  Variable encf : packet -> list fv -> option bytes.
  Variable loclat : Z.

  (* the handler is still ahead of the completion of the raced call / has just been cut by it *)
  Definition lt_ok (hz : option Z) (s : st3) : Prop := hz_gt hz (now3 s).
  Definition cut_ok (hz : option Z) (s : st3) : Prop := match hz with Some h => now3 s = h | None => True end.

  Lemma flush_f_mono hz : forall f s o s' r, lt_ok hz s -> flush_f f hz s = (o, s', r) ->
    chain (now3 s) o (now3 s') /\ (r = FlDone -> lt_ok hz s') /\ (r = FlCut -> cut_ok hz s').
  Proof.
    induction f as [|f IH]; intros s o s' r Hlt H; cbn [flush_f] in H.
    { inversion H; subst. split; [cbn [chain]; lia|]. split; [discriminate | discriminate]. }
    destruct (c_unsent s) as [|b0 u] eqn:Hu.
    { inversion H; subst. split; [cbn [chain]; lia|]. split; [intros _; exact Hlt | discriminate]. }
    destruct (absorb (now3 s) (c_cap s) (c_sch s)) as [cap sch] eqn:Ha.
    destruct cap as [n|].
    - destruct (0 <? n).
      + match type of H with context [flush_f f hz ?s1] =>
          destruct (flush_f f hz s1) as [[o1 s1'] r1] eqn:Hr; destruct (IH s1 _ _ _ Hlt Hr) as (Hc & Hd & Hcut) end.
        inversion H; subst. split; [|split; assumption].
        cbn [chain instant]. split; [lia | exact Hc].
      + destruct sch as [|[te c] r0].
        * destruct hz as [h|]; inversion H; subst; unfold lt_ok, cut_ok in *; nw.
          -- split; [lia|]. split; [discriminate | intros _; lia].
          -- split; [lia|]. split; discriminate.
        * pose proof (absorb_head _ _ _ _ _ _ _ Ha) as Hte.
          assert (Hrec : forall s1, now3 s1 = te -> lt_ok hz s1 -> flush_f f hz s1 = (o, s', r) ->
                    chain (now3 s) o (now3 s') /\ (r = FlDone -> lt_ok hz s') /\ (r = FlCut -> cut_ok hz s')).
          { intros s1 Hn Hl Hf. destruct (IH s1 _ _ _ Hl Hf) as (Hc & Hd & Hcut). split; [|split; assumption].
            rewrite Hn in Hc. apply (chain_lo _ te); [lia | exact Hc]. }
          destruct hz as [h|].
          -- destruct (h <=? te) eqn:Hh.
             ++ inversion H; subst; unfold lt_ok, cut_ok in *; nw. split; [lia|]. split; [discriminate | intros _; lia].
             ++ apply Z.leb_gt in Hh. refine (Hrec _ _ _ H); [reflexivity | exact Hh].
          -- refine (Hrec _ _ _ H); [reflexivity | exact I].
    - inversion H; subst. split; [cbn [chain instant]; unfold now3; cbn [c2]; lia|].
      split; [intros _; exact Hlt | discriminate].
  Qed.

  Lemma flush_mono hz s o s' r : lt_ok hz s -> flush hz s = (o, s', r) ->
    chain (now3 s) o (now3 s') /\ (r = FlDone -> lt_ok hz s') /\ (r = FlCut -> cut_ok hz s').
  Proof. intros Hlt H. exact (flush_f_mono hz _ s o s' r Hlt H). Qed.

  Definition tres_mono (hz : option Z) (lo : Z) (p : list oev * tres) : Prop :=
    match snd p with
    | TkCont s' => chain lo (fst p) (now3 s') /\ lt_ok hz s'
    | TkCut s' => chain lo (fst p) (now3 s') /\ cut_ok hz s'
    | TkEnd => asc lo (fst p)
    end.

  Lemma vfinish_mono hz lo pre s1 : chain lo pre (now3 s1) -> lt_ok hz s1 -> tres_mono hz lo (vfinish hz pre s1).
  Proof.
    intros Hp Hlt. unfold vfinish. destruct (flush hz s1) as [[o s2] r] eqn:Hf.
    destruct (flush_mono hz _ _ _ _ Hlt Hf) as (Hc & Hd & Hcut).
    pose proof (chain_app _ _ _ _ _ Hp Hc) as Hpc.
    destruct r; unfold tres_mono; cbn [fst snd].
    - exists (now3 s2). rewrite app_assoc. apply (chain_app _ _ (now3 s2)); [exact Hpc|]. cbn [chain instant fst]. lia.
    - split; [exact Hpc | exact (Hcut eq_refl)].
    - exists (now3 s2). exact Hpc.
  Qed.

  Lemma vfresh_mono loc hz s : lt_ok hz s -> tres_mono hz (now3 s) (vfresh e encf loclat loc hz s).
  Proof.
    intros Hlt. unfold vfresh. cbv zeta.
    destruct (match hz with Some h => (0 <? loclat) && (h <=? now3 s + loclat) | None => false end) eqn:Hcut.
    - destruct hz as [h|]; [|discriminate Hcut]. unfold tres_mono, lt_ok, cut_ok in *. nw. repeat split; lia.
    - destruct (fst (e_res e (CLocalize loc key_timeout))) as [json|n u ps|ts|t|msg|];
        try (unfold tres_mono; cbn [fst snd]; exists (now3 s + Z.max loclat 0); cbn [chain instant fst]; lia).
      apply vfinish_mono.
      + nw. lia.
      + unfold lt_ok in *. destruct hz as [h|]; [|exact I]. nw.
        apply andb_false_iff in Hcut as [Hcut|Hcut]; [apply Z.ltb_ge in Hcut | apply Z.leb_gt in Hcut]; lia.
  Qed.

  Lemma verdict_mono loc hz s : lt_ok hz s -> tres_mono hz (now3 s) (verdict e encf loclat loc hz s).
  Proof.
    intros Hlt. rewrite verdict_unfold.
    destruct (c_missed s); [apply vfresh_mono; exact Hlt | apply vfresh_mono; exact Hlt |].
    apply vfinish_mono; [cbn [chain]; lia | exact Hlt].
  Qed.

  Lemma tick3_mono loc hz s tt : now3 s <= tt -> hz_gt hz tt -> tres_mono hz (now3 s) (tick3 e encf loclat loc hz s tt).
  Proof.
    intros Hle Hgt. unfold tick3. cbv zeta. destruct (b_ka (c2 s)) as [kid|].
    - pose proof (verdict_mono loc hz (set_missed (at_time s tt) MDecided) Hgt) as Hv.
      destruct (verdict e encf loclat loc hz (set_missed (at_time s tt) MDecided)) as [o r].
      unfold tres_mono in *. cbn [fst snd] in *.
      change (now3 (set_missed (at_time s tt) MDecided)) with tt in Hv.
      destruct r as [s'|s'|].
      + destruct Hv as [Hc Hl]. split; [|exact Hl]. cbn [chain instant fst]. split; [exact Hle | exact Hc].
      + destruct Hv as [Hc Hl]. split; [|exact Hl]. cbn [chain instant fst]. split; [exact Hle | exact Hc].
      + apply asc_cons; [exact Hle | exact Hv].
    - match goal with |- context [flush hz ?s1] =>
        destruct (flush hz s1) as [[o s2] r] eqn:Hf; destruct (flush_mono hz s1 _ _ _ Hgt Hf) as (Hc & Hd & Hcut) end.
      change (chain tt o (now3 s2)) in Hc.
      match goal with |- context [?pre ++ o] =>
        assert (Hpc : chain (now3 s) (pre ++ o) (now3 s2))
          by (apply (chain_app _ _ tt); [cbn [chain instant fst]; lia | exact Hc]) end.
      destruct r; unfold tres_mono; cbn [fst snd].
      + split; [exact Hpc | exact (Hd eq_refl)].
      + split; [exact Hpc | exact (Hcut eq_refl)].
      + exists (now3 s2). exact Hpc.
  Qed.

  Definition rres3_mono (hz : option Z) (lo : Z) (p : list oev * rres3) : Prop :=
    match snd p with
    | R3Got _ _ s' => chain lo (fst p) (now3 s') /\ lt_ok hz s'
    | R3Cut s' => chain lo (fst p) (now3 s') /\ cut_ok hz s'
    | R3End fin => asc lo (fst p ++ fin)
    end.

  Lemma rres3_mono_lo hz lo' lo p : lo' <= lo -> rres3_mono hz lo p -> rres3_mono hz lo' p.
  Proof.
    intros H. unfold rres3_mono. destruct (snd p) as [id body s'|s'|fin].
    - intros [Hc Hl]. split; [exact (chain_lo _ _ _ _ H Hc) | exact Hl].
    - intros [Hc Hl]. split; [exact (chain_lo _ _ _ _ H Hc) | exact Hl].
    - apply asc_lo. exact H.
  Qed.

  Local Notation rf3 := (read_frame3_f cfg e encf loclat).

  Lemma read_frame3_f_mono m hz : forall f s, lt_ok hz s -> rres3_mono hz (now3 s) (rf3 f m hz s).
  Proof.
    induction f as [|f IH]; intros s Hlt.
    { unfold rres3_mono. cbn [read_frame3_f fst snd app]. exists (now3 s). cbn [chain instant fst]. lia. }
    rewrite read_frame3_f_S. cbv zeta.
    destruct (hfirst hz (c2 s)) eqn:Hh.
    { destruct hz as [h|]; [|discriminate Hh]. unfold rres3_mono, lt_ok, cut_ok in *. nw. split; lia. }
    destruct (tfirst (c2 s)) eqn:Ht.
    - pose proof (guard_tick hz (c2 s) Hh Ht) as Hgt.
      destruct m as [loc|].
      + assert (Hle : now3 s <= Z.max (b_dl (c2 s)) (b_now (c2 s))) by (unfold now3; lia).
        pose proof (tick3_mono loc hz s _ Hle Hgt) as Htk.
        destruct (tick3 e encf loclat loc hz s (Z.max (b_dl (c2 s)) (b_now (c2 s)))) as [o r].
        unfold tres_mono in Htk. cbn [fst snd] in Htk.
        destruct r as [s'|s'|].
        * destruct Htk as [Hc Hl]. specialize (IH s' Hl).
          destruct (rf3 f (Some loc) hz s') as [o2 r2]. unfold rres3_mono in *. cbn [fst snd] in *.
          destruct r2 as [id body s''|s''|fin].
          -- destruct IH as [Hc2 H2]. split; [exact (chain_app _ _ _ _ _ Hc Hc2) | exact H2].
          -- destruct IH as [Hc2 H2]. split; [exact (chain_app _ _ _ _ _ Hc Hc2) | exact H2].
          -- rewrite <- app_assoc. exact (asc_app _ _ _ _ Hc IH).
        * exact Htk.
        * unfold rres3_mono. cbn [fst snd]. rewrite app_nil_r. exact Htk.
      + destruct (tin_of (c2 s)) as [c|] eqn:Hc.
        * refine (IH _ _). exact Hlt.
        * unfold rres3_mono. cbn [fst snd app]. exists (now3 s). cbn [chain instant fst]. unfold now3. lia.
    - destruct (guard_in hz (c2 s) Hh Ht) as (c & Hc & Hnow & Hdl & Hhzc).
      destruct (b_in (c2 s)) as [|[t b] rest] eqn:Hin.
      + unfold tin_of in Hc. rewrite Hin in Hc. destruct (b_eof (c2 s)) as [te|]; [|discriminate Hc]. injection Hc as <-.
        destruct (eof_events (b_rd (c2 s))) as [|[id body| |] evs]; unfold rres3_mono, lt_ok; cbn [fst snd app]; nw;
          first [split; [lia | exact Hhzc] | eexists; cbn [chain instant fst]; split; [|apply Z.le_refl]; lia].
      + unfold tin_of in Hc. rewrite Hin in Hc. injection Hc as <-.
        destruct (feed_byte (cf_max_len cfg) (b_rd (c2 s)) b) as [rd' [|[id body| |] evs]].
        * match goal with |- context [rf3 f m hz ?s1] => apply (rres3_mono_lo hz _ (now3 s1)); [exact Hnow | apply IH; exact Hhzc] end.
        * unfold rres3_mono, lt_ok; cbn [fst snd app]; nw. split; [lia | exact Hhzc].
        * unfold rres3_mono; cbn [fst snd app]; nw. eexists; cbn [chain instant fst]; split; [|apply Z.le_refl]; lia.
        * unfold rres3_mono; cbn [fst snd app]; nw. eexists; cbn [chain instant fst]; split; [|apply Z.le_refl]; lia.
  Qed.

  Lemma read_frame3_mono m hz s : lt_ok hz s -> rres3_mono hz (now3 s) (read_frame3 cfg e encf loclat m hz s).
  Proof. apply read_frame3_f_mono. Qed.

  Definition kres_mono (hz : option Z) (lo : Z) (p : list oev * (list fv * st3 + st3 + unit)) : Prop :=
    match snd p with
    | inl (inl (_, s')) => chain lo (fst p) (now3 s') /\ lt_ok hz s'
    | inl (inr s') => chain lo (fst p) (now3 s') /\ cut_ok hz s'
    | inr _ => asc lo (fst p)
    end.

  Local Notation kl3 := (ka_loop3 cfg e encf loclat).

  Lemma ka_loop3_mono info loc hz : forall f s, lt_ok hz s -> kres_mono hz (now3 s) (kl3 f info loc hz s).
  Proof.
    induction f as [|f IH]; intros s Hlt; cbn [ka_loop3].
    { unfold kres_mono. cbn [fst snd]. exists (now3 s). cbn [chain instant fst]. lia. }
    pose proof (read_frame3_mono (Some loc) hz s Hlt) as Hr.
    destruct (read_frame3 cfg e encf loclat (Some loc) hz s) as [o [id body s'|s'|fin]];
      unfold rres3_mono in Hr; cbn [fst snd] in Hr.
    - destruct Hr as [Hc Hl]. cbv zeta.
      destruct (conf_frame cfg info (b_ka (c2 s')) id body) as [ka''|vs|oc].
      + match goal with |- context [kl3 f info loc hz ?s1] =>
          specialize (IH s1 Hl); change (now3 s1) with (now3 s') in IH; destruct (kl3 f info loc hz s1) as [o2 r] end.
        unfold kres_mono in *. cbn [fst snd] in *.
        assert (Hcons : forall hi, chain (now3 s') o2 hi -> chain (now3 s) (o ++ OT (b_now (c2 s'), TRecv id body) :: o2) hi).
        { intros hi H2. apply (chain_app _ _ _ _ _ Hc). cbn [chain instant fst]. split; [unfold now3; lia | exact H2]. }
        destruct r as [[[vs s'']|s'']|u].
        * destruct IH as [H2 H3]. split; [exact (Hcons _ H2) | exact H3].
        * destruct IH as [H2 H3]. split; [exact (Hcons _ H2) | exact H3].
        * destruct IH as [hi H2]. exists hi. exact (Hcons _ H2).
      + unfold kres_mono. cbn [fst snd]. split; [|exact Hl].
        apply (chain_app _ _ _ _ _ Hc). cbn [chain instant fst]. unfold now3. lia.
      + unfold kres_mono. cbn [fst snd]. exists (now3 s').
        apply (chain_app _ _ _ _ _ Hc). cbn [chain instant fst]. unfold now3. lia.
    - exact Hr.
    - exact Hr.
  Qed.

  Theorem exec3_mono : forall p s, asc (now3 s) (exec3 cfg e encf loclat p s).
  Proof.
    induction p as [o|k IH|loc k IH|loc c k IH|c k IH|pk vs k IH|ss k IH|w k IH|k IH]; intros s; cbn [exec3]; cbv zeta.
    - exists (now3 s). cbn [chain instant fst]. unfold now3. lia.
    - (* Expect *)
      pose proof (read_frame3_mono None None s I) as Hr.
      destruct (read_frame3 cfg e encf loclat None None s) as [o [id body s'|s'|fin]];
        unfold rres3_mono in Hr; cbn [fst snd] in Hr.
      + destruct Hr as [Hc _]. destruct (negb (len_ok cfg id body)).
        * apply (asc_app _ _ _ _ Hc). exists (now3 s'). cbn [chain instant fst]. lia.
        * apply (asc_app _ _ _ _ Hc). apply asc_cons; [cbn [instant fst]; lia | apply IH].
      + destruct Hr as [Hc _]. apply (asc_app _ _ _ _ Hc). exists (now3 s'). cbn [chain instant fst]. lia.
      + exact Hr.
    - (* WaitInfo *)
      pose proof (ka_loop3_mono true loc None (length (b_in (c2 s)) + 3) s I) as Hk.
      destruct (kl3 (length (b_in (c2 s)) + 3) true loc None s) as [o [[[vs s']|s']|u]];
        unfold kres_mono in Hk; cbn [fst snd] in Hk.
      + destruct Hk as [Hc _]. apply (asc_app _ _ _ _ Hc). apply IH.
      + destruct Hk as [Hc _]. apply (asc_app _ _ _ _ Hc). exists (now3 s'). cbn [chain instant fst]. lia.
      + exact Hk.
    - (* Race *)
      destruct (e_res e c) as [r lat].
      assert (Hlt : lt_ok (Some (b_now (c2 s) + Z.max lat 1)) s) by (unfold lt_ok, hz_gt, now3; lia).
      pose proof (ka_loop3_mono false loc _ (length (b_in (c2 s)) + 3) s Hlt) as Hk.
      destruct (kl3 (length (b_in (c2 s)) + 3) false loc (Some (b_now (c2 s) + Z.max lat 1)) s) as [o [[[vs s']|s']|u]];
        unfold kres_mono in Hk; cbn [fst snd] in Hk.
      + destruct Hk as [Hc _]. apply asc_cons; [cbn [instant fst]; unfold now3; lia | exact (asc_chain _ _ _ Hc)].
      + destruct Hk as [Hc Hcut]. unfold cut_ok in Hcut.
        assert (Hpre : chain (now3 s) (OT (b_now (c2 s), TCall c) :: o) (now3 s'))
          by (cbn [chain instant fst]; split; [unfold now3; lia | exact Hc]).
        destruct (c_missed s').
        * apply (asc_app _ _ _ _ Hpre). apply asc_cons; [cbn [instant fst]; lia|]. cbn [instant fst]. rewrite <- Hcut. apply IH.
        * destruct r; try (apply (asc_app _ _ _ _ Hpre); pose proof (verdict_mono loc None s' I) as Hv;
                           destruct (verdict e encf loclat loc None s') as [ov [sv|sv|]]; unfold tres_mono in Hv; cbn [fst snd] in *;
                           first [exact Hv | destruct Hv as [Hv _]; exact (asc_chain _ _ _ Hv)]).
          apply (asc_app _ _ _ _ Hpre). exists (now3 s'). cbn [chain instant fst]. lia.
        * destruct r; try (apply (asc_app _ _ _ _ Hpre); pose proof (verdict_mono loc None s' I) as Hv;
                           destruct (verdict e encf loclat loc None s') as [ov [sv|sv|]]; unfold tres_mono in Hv; cbn [fst snd] in *;
                           first [exact Hv | destruct Hv as [Hv _]; exact (asc_chain _ _ _ Hv)]).
          apply (asc_app _ _ _ _ Hpre). exists (now3 s'). cbn [chain instant fst]. lia.
      + apply asc_cons; [cbn [instant fst]; unfold now3; lia | exact Hk].
    - (* Call *)
      destruct (e_res e c) as [r lat].
      apply asc_cons; [cbn [instant fst]; unfold now3; lia|]. apply asc_cons; [cbn [instant fst]; lia|].
      cbn [instant fst]. apply (IH r (at_time s (b_now (c2 s) + Z.max lat 0))).
    - (* Send *)
      destruct (flush None (enqueue s (frame_bytes encf pk vs))) as [[o s'] r] eqn:Hf.
      destruct (flush_mono None _ _ _ _ I Hf) as (Hc & _ & _).
      change (now3 (enqueue s (frame_bytes encf pk vs))) with (now3 s) in Hc.
      destruct r.
      + apply asc_cons; [cbn [instant fst]; unfold now3; lia|]. cbn [instant fst]. apply (asc_app _ _ _ _ Hc). apply IH.
      + apply asc_cons; [cbn [instant fst]; unfold now3; lia | exact (asc_chain _ _ _ Hc)].
      + apply asc_cons; [cbn [instant fst]; unfold now3; lia | exact (asc_chain _ _ _ Hc)].
    - apply asc_cons; [cbn [instant fst]; unfold now3; lia | apply IH].
    - destruct w; (apply asc_cons; [cbn [instant fst]; unfold now3; lia | apply IH]).
    - apply asc_cons; [cbn [instant fst]; unfold now3; lia|].
      match goal with |- context [exec3 cfg e encf loclat (k ?n) ?s1] => apply (IH n s1) end.
  Qed.
End Mono.

(* G1: time never runs backwards *)
Theorem run3_mono o cfg e encf loclat cap sch s :
  nondecreasing (instants (run3 o cfg e encf loclat cap sch s)) = true.
Proof. unfold run3. eapply asc_nondecreasing. apply exec3_mono. Qed.

Print Assumptions run3_mono.

(* ================= G2 ================= *)
(* projections of G1 *)
Lemma nondec_from_lo lo' lo l : lo' <= lo -> nondec_from lo l = true -> nondec_from lo' l = true.
Proof.
  intros H. destruct l as [|t r]; cbn [nondec_from]; [reflexivity|]. intros Hn.
  apply andb_prop in Hn as [H1 H2]. apply Z.leb_le in H1. apply andb_true_intro. split; [apply Z.leb_le; lia | exact H2].
Qed.

Lemma chain_wire : forall o lo hi, chain lo o hi -> nondec_from lo (map fst (wire_of o)) = true.
Proof.
  induction o as [|x r IH]; intros lo hi H; cbn [chain] in H; [reflexivity|].
  destruct H as [H1 H2]. specialize (IH _ _ H2).
  destruct x as [ev|t b|t c]; cbn [wire_of map fst instant] in *.
  - exact (nondec_from_lo _ _ _ H1 IH).
  - cbn [nondec_from]. apply andb_true_intro. split; [apply Z.leb_le; exact H1 | exact IH].
  - exact (nondec_from_lo _ _ _ H1 IH).
Qed.

Lemma chain_mid : forall a lo x b hi, chain lo (a ++ x :: b) hi -> lo <= instant x.
Proof.
  induction a as [|z a IH]; intros lo x b hi H; cbn [app chain] in H; destruct H as [H1 H2]; [exact H1|].
  specialize (IH _ _ _ _ H2). lia.
Qed.

Lemma chain_before : forall a lo x b hi, chain lo (a ++ x :: b) hi -> forall y, In y a -> instant y <= instant x.
Proof.
  induction a as [|z a IH]; intros lo x b hi H y Hy; [destruct Hy|].
  cbn [app chain] in H. destruct H as [H1 H2]. destruct Hy as [<-|Hy].
  - exact (chain_mid _ _ _ _ _ H2).
  - exact (IH _ _ _ _ H2 y Hy).
Qed.

(* the instants of the wire are non-decreasing *)
Theorem run3_wire_mono o cfg e encf loclat cap sch s :
  nondecreasing (map fst (wire_of (run3 o cfg e encf loclat cap sch s))) = true.
Proof.
  unfold run3. destruct (exec3_mono cfg e encf loclat (listen o cfg) (init3 s cap sch)) as [hi H].
  pose proof (chain_wire _ _ _ H) as Hw.
  destruct (map fst (wire_of (exec3 cfg e encf loclat (listen o cfg) (init3 s cap sch)))) as [|t r]; [reflexivity|].
  cbn [nondec_from] in Hw. apply andb_prop in Hw as [_ Hw]. exact Hw.
Qed.

(* whatever precedes an event in the output happened at or before its instant; in particular a
   chunk is accepted at or after every send that precedes it *)
Theorem run3_before o cfg e encf loclat cap sch s pre x post :
  run3 o cfg e encf loclat cap sch s = pre ++ x :: post -> forall y, In y pre -> instant y <= instant x.
Proof.
  unfold run3. intros Heq. destruct (exec3_mono cfg e encf loclat (listen o cfg) (init3 s cap sch)) as [hi H].
  rewrite Heq in H. exact (chain_before _ _ _ _ _ H).
Qed.

Corollary run3_write_after_send o cfg e encf loclat cap sch s pre t b post :
  run3 o cfg e encf loclat cap sch s = pre ++ OW t b :: post ->
  forall t' pk vs, In (OT (t', TSend pk vs)) pre -> t' <= t.
Proof. intros Heq t' pk vs Hi. exact (run3_before _ _ _ _ _ _ _ _ _ _ _ Heq _ Hi). Qed.

(* ---------- causality of the wire: at every point of the output the bytes accepted so far are a
   prefix of the frames sent so far.  The balance of Conn/Sem3Proofs.v (T2), closed under prefixes
   of the output ---------- *)
Section Causal.
  Variable cfg : conn_cfg.
  Variable e : env.
  Variable encf : packet -> list fv -> option bytes.
  Variable loclat : Z.

  Local Notation bal := (bal encf).

  Definition pbal (u : bytes) (o : list oev) : Prop :=
    forall pre post, o = pre ++ post -> exists u', bal u pre u'.
  Definition sbal (u : bytes) (o : list oev) (u' : bytes) : Prop := bal u o u' /\ pbal u o.
  Definition sbalx (u : bytes) (o : list oev) : Prop := pbal u o.

  Lemma sbal_nil u : sbal u [] u.
  Proof.
    split; [apply bal_nil|]. intros pre post H. symmetry in H. apply app_eq_nil in H as [-> _].
    exists u. apply bal_nil.
  Qed.

  Lemma pbal_app u o1 u1 o2 : sbal u o1 u1 -> pbal u1 o2 -> pbal u (o1 ++ o2).
  Proof.
    intros [B1 P1] P2 pre post H. symmetry in H. apply app_eq_app in H as [m [[H1 H2]|[H1 H2]]].
    - destruct (P2 m post H2) as [u' Hb]. exists u'. rewrite H1. exact (bal_app encf _ _ _ _ _ B1 Hb).
    - exact (P1 pre m H1).
  Qed.

  Lemma sbal_app u o1 u1 o2 u2 : sbal u o1 u1 -> sbal u1 o2 u2 -> sbal u (o1 ++ o2) u2.
  Proof.
    intros H1 H2. split; [exact (bal_app encf _ _ _ _ _ (proj1 H1) (proj1 H2)) | exact (pbal_app _ _ _ _ H1 (proj2 H2))].
  Qed.

  Lemma sbalx_of_sbal u o u' : sbal u o u' -> sbalx u o.
  Proof. intros H. exact (proj2 H). Qed.

  Lemma sbalx_app u o1 u1 o2 : sbal u o1 u1 -> sbalx u1 o2 -> sbalx u (o1 ++ o2).
  Proof. exact (pbal_app u o1 u1 o2). Qed.

  Lemma sbal_one u x u' : bal u [x] u' -> sbal u [x] u'.
  Proof.
    intros H. split; [exact H|]. intros pre post Heq.
    destruct pre as [|y pre].
    - exists u. apply bal_nil.
    - cbn [app] in Heq. injection Heq as <- Heq. symmetry in Heq. apply app_eq_nil in Heq as [-> _]. exists u'. exact H.
  Qed.

  Lemma sbal_ot u ev : frame_of encf ev = [] -> sbal u [OT ev] u.
  Proof. intros H. apply sbal_one. apply bal_ot. exact H. Qed.

  Lemma sbal_cons u ev o u' : frame_of encf ev = [] -> sbal u o u' -> sbal u (OT ev :: o) u'.
  Proof. intros H Hb. apply (sbal_app u [OT ev] u o u'); [apply sbal_ot; exact H | exact Hb]. Qed.

  Lemma sbalx_cons u ev o : frame_of encf ev = [] -> sbalx u o -> sbalx u (OT ev :: o).
  Proof. intros H Hb. apply (sbalx_app u [OT ev] u o); [apply sbal_ot; exact H | exact Hb]. Qed.

  Lemma sbal_oa u t c o u' : sbal u o u' -> sbal u (OA t c :: o) u'.
  Proof. intros Hb. apply (sbal_app u [OA t c] u o u'); [apply sbal_one; apply bal_oa; apply bal_nil | exact Hb]. Qed.

  Lemma sbal_send u t pk vs : sbal u [OT (t, TSend pk vs)] (u ++ frame_bytes encf pk vs).
  Proof. apply sbal_one. apply bal_send. Qed.

  Lemma sbal_ow u t k : sbal u [OW t (firstn k u)] (skipn k u).
  Proof.
    apply sbal_one. unfold Sem3Proofs.bal, fbytes. cbn [trace_of map concat]. rewrite wbytes_ow.
    unfold wbytes. cbn [wire_of map concat]. rewrite !app_nil_r. symmetry. apply firstn_skipn.
  Qed.

  Lemma sbal_ow_all u t : sbal u [OW t u] [].
  Proof.
    apply sbal_one. unfold Sem3Proofs.bal, fbytes. cbn [trace_of map concat]. rewrite wbytes_ow.
    unfold wbytes. cbn [wire_of map concat]. rewrite !app_nil_r. reflexivity.
  Qed.

  Lemma sbal_flush_f hz : forall f s o s' r, flush_f f hz s = (o, s', r) -> sbal (c_unsent s) o (c_unsent s').
  Proof.
    induction f as [|f IH]; intros s o s' r H; cbn [flush_f] in H.
    { inversion H; subst. apply sbal_nil. }
    destruct (c_unsent s) as [|b0 u] eqn:Hu.
    { inversion H; subst. rewrite Hu. apply sbal_nil. }
    destruct (absorb (now3 s) (c_cap s) (c_sch s)) as [cap sch].
    destruct cap as [n|].
    - destruct (0 <? n).
      + match type of H with context [flush_f f hz ?s1] =>
          destruct (flush_f f hz s1) as [[o1 s1'] r1] eqn:Hr; pose proof (IH s1 _ _ _ Hr) as Hb end.
        inversion H; subst. cbn [c_unsent] in Hb.
        match goal with |- sbal _ (OW ?t ?b :: o1) _ => apply (sbal_app _ [OW t b] _ o1 _ (sbal_ow _ _ _) Hb) end.
      + destruct sch as [|[te c] r0].
        * destruct hz as [h|]; inversion H; subst; cbn [at_time set2 c_unsent]; rewrite ?Hu; apply sbal_nil.
        * destruct hz as [h|].
          -- destruct (h <=? te).
             ++ inversion H; subst; cbn [at_time set2 c_unsent]; rewrite ?Hu; apply sbal_nil.
             ++ pose proof (IH _ _ _ _ H) as Hb. cbn [at_time set2 c_unsent] in Hb. rewrite ?Hu in Hb. exact Hb.
          -- pose proof (IH _ _ _ _ H) as Hb. cbn [at_time set2 c_unsent] in Hb. rewrite ?Hu in Hb. exact Hb.
    - inversion H; subst. cbn [c_unsent]. apply sbal_ow_all.
  Qed.

  Lemma sbal_flush hz s o s' r : flush hz s = (o, s', r) -> sbal (c_unsent s) o (c_unsent s').
  Proof. apply sbal_flush_f. Qed.

  (* from here on: the proofs of T2 (Conn/Sem3Proofs.v), with the prefix-closed balance *)
  Definition tres_sbal (u : bytes) (p : list oev * tres) : Prop :=
    match snd p with
    | TkCont s' => sbal u (fst p) (c_unsent s')
    | TkCut s' => sbal u (fst p) (c_unsent s')
    | TkEnd => sbalx u (fst p)
    end.

  Lemma verdict_sbal loc hz s : tres_sbal (c_unsent s) (verdict e encf loclat loc hz s).
  Proof.
    assert (Hfin : forall pre s1, sbal (c_unsent s) pre (c_unsent s1) ->
              tres_sbal (c_unsent s)
                match flush hz s1 with
                | (o, s2, FlDone) => (pre ++ o ++ [OT (now3 s2, TEnd (OErr KMissedKA))], TkEnd)
                | (o, s2, FlCut) => (pre ++ o, TkCut s2)
                | (o, _, FlHang) => (pre ++ o, TkEnd)
                end).
    { intros pre s1 Hpre. destruct (flush hz s1) as [[o s2] r] eqn:Hf.
      pose proof (sbal_flush _ _ _ _ _ Hf) as Hb.
      destruct r; unfold tres_sbal; cbn [fst snd].
      - eapply sbalx_app; [exact Hpre|]. eapply sbalx_app; [exact Hb|]. eapply sbalx_of_sbal. apply sbal_ot. reflexivity.
      - eapply sbal_app; eassumption.
      - eapply sbalx_of_sbal. eapply sbal_app; eassumption. }
    unfold verdict. cbv zeta.
    assert (Hgen : tres_sbal (c_unsent s)
      (if match hz with Some h => (0 <? loclat) && (h <=? now3 s + loclat) | None => false end
       then ([OA (now3 s) (CLocalize loc key_timeout)],
             TkCut (at_time (set_missed s MDecided) match hz with Some h => Z.max h (now3 s) | None => now3 s end))
       else match fst (e_res e (CLocalize loc key_timeout)) with
            | RText msg =>
                match flush hz (enqueue (at_time (set_missed s MQueued) (now3 s + Z.max loclat 0))
                                  (frame_bytes encf configuration_cb_DisconnectPacket [VB msg])) with
                | (o, s2, FlDone) =>
                    ([OT (now3 s, TCall (CLocalize loc key_timeout));
                      OT (now3 s + Z.max loclat 0, TRes (CLocalize loc key_timeout) (RText msg));
                      OT (now3 s + Z.max loclat 0, TSend configuration_cb_DisconnectPacket [VB msg])]
                     ++ o ++ [OT (now3 s2, TEnd (OErr KMissedKA))], TkEnd)
                | (o, s2, FlCut) =>
                    ([OT (now3 s, TCall (CLocalize loc key_timeout));
                      OT (now3 s + Z.max loclat 0, TRes (CLocalize loc key_timeout) (RText msg));
                      OT (now3 s + Z.max loclat 0, TSend configuration_cb_DisconnectPacket [VB msg])] ++ o, TkCut s2)
                | (o, _, FlHang) =>
                    ([OT (now3 s, TCall (CLocalize loc key_timeout));
                      OT (now3 s + Z.max loclat 0, TRes (CLocalize loc key_timeout) (RText msg));
                      OT (now3 s + Z.max loclat 0, TSend configuration_cb_DisconnectPacket [VB msg])] ++ o, TkEnd)
                end
            | r => ([OT (now3 s, TCall (CLocalize loc key_timeout));
                     OT (now3 s + Z.max loclat 0, TRes (CLocalize loc key_timeout) r);
                     OT (now3 s + Z.max loclat 0, TEnd (OErr KAdapter))], TkEnd)
            end)).
    { destruct (match hz with Some h => (0 <? loclat) && (h <=? now3 s + loclat) | None => false end).
      - unfold tres_sbal. cbn [fst snd]. apply sbal_oa. apply sbal_nil.
      - destruct (fst (e_res e (CLocalize loc key_timeout))) as [json|n u ps|ts|t|msg|];
          try (unfold tres_sbal; cbn [fst snd]; eapply sbalx_of_sbal;
               apply sbal_cons; [reflexivity|]; apply sbal_cons; [reflexivity|]; apply sbal_ot; reflexivity).
        apply Hfin.
        apply sbal_cons; [reflexivity|]. apply sbal_cons; [reflexivity|]. apply sbal_send. }
    destruct (c_missed s); [exact Hgen | exact Hgen |].
    apply (Hfin [] s). apply sbal_nil.
  Qed.

  Lemma tick3_sbal loc hz s tt : tres_sbal (c_unsent s) (tick3 e encf loclat loc hz s tt).
  Proof.
    unfold tick3. destruct (b_ka (c2 s)) as [kid|].
    - pose proof (verdict_sbal loc hz (set_missed (at_time s tt) MDecided)) as Hv.
      destruct (verdict e encf loclat loc hz (set_missed (at_time s tt) MDecided)) as [o r].
      unfold tres_sbal in *. cbn [fst snd set_missed at_time set2 c_unsent] in *.
      destruct r; [apply sbal_cons | apply sbal_cons | apply sbalx_cons]; try reflexivity; exact Hv.
    - match goal with |- context [flush hz ?s1] => destruct (flush hz s1) as [[o s2] r] eqn:Hf end.
      pose proof (sbal_flush _ _ _ _ _ Hf) as Hb. cbn [enqueue c_unsent set2] in Hb.
      assert (Hpre : sbal (c_unsent s)
                [OT (tt, TTick); OT (tt, TFresh RKeepAlive (e_fresh e RKeepAlive (b_nka (c2 s))));
                 OT (tt, TSend configuration_cb_KeepAlivePacket [VZ (be_dec (e_fresh e RKeepAlive (b_nka (c2 s))))])]
                (c_unsent s ++ frame_bytes encf configuration_cb_KeepAlivePacket [VZ (be_dec (e_fresh e RKeepAlive (b_nka (c2 s))))])).
      { apply sbal_cons; [reflexivity|]. apply sbal_cons; [reflexivity|]. apply sbal_send. }
      destruct r; unfold tres_sbal; cbn [fst snd].
      + eapply sbal_app; eassumption.
      + eapply sbal_app; eassumption.
      + eapply sbalx_of_sbal. eapply sbal_app; eassumption.
  Qed.

  Definition rres3_sbal (u : bytes) (p : list oev * rres3) : Prop :=
    match snd p with
    | R3Got _ _ s' => sbal u (fst p) (c_unsent s')
    | R3Cut s' => sbal u (fst p) (c_unsent s')
    | R3End fin => sbalx u (fst p ++ fin)
    end.

  Lemma sbalx_end u t o : sbalx u ([] ++ [OT (t, TEnd o)]).
  Proof. eapply sbalx_of_sbal. apply sbal_ot. reflexivity. Qed.

  Lemma read_frame3_f_sbal fuel m hz : forall s, rres3_sbal (c_unsent s) (read_frame3_f cfg e encf loclat fuel m hz s).
  Proof.
    induction fuel as [|f IH]; intros s; cbn [read_frame3_f].
    - unfold rres3_sbal. cbn [fst snd]. apply sbalx_end.
    - cbv zeta.
      match goal with |- context [if ?c then _ else _] => destruct c end.
      { unfold rres3_sbal. cbn [fst snd]. destruct hz as [h|]; apply sbal_nil. }
      match goal with |- context [if ?c then _ else _] => destruct c end.
      + destruct m as [loc|].
        * pose proof (tick3_sbal loc hz s (Z.max (b_dl (c2 s)) (b_now (c2 s)))) as Ht.
          destruct (tick3 e encf loclat loc hz s (Z.max (b_dl (c2 s)) (b_now (c2 s)))) as [o r].
          unfold tres_sbal in Ht. cbn [fst snd] in Ht.
          destruct r as [s'|s'|].
          -- specialize (IH s'). destruct (read_frame3_f cfg e encf loclat f (Some loc) hz s') as [o2 r3].
             unfold rres3_sbal in *. cbn [fst snd] in *.
             destruct r3 as [id body s''|s''|fin].
             ++ eapply sbal_app; eassumption.
             ++ eapply sbal_app; eassumption.
             ++ rewrite <- app_assoc. eapply sbalx_app; eassumption.
          -- exact Ht.
          -- unfold rres3_sbal. cbn [fst snd]. rewrite app_nil_r. exact Ht.
        * destruct (match b_in (c2 s), b_eof (c2 s) with
                    | (t, _) :: _, _ => Some (Z.max t (b_now (c2 s)))
                    | [], Some te => Some (Z.max te (b_now (c2 s)))
                    | [], None => None end) as [t|].
          -- match goal with |- context [read_frame3_f cfg e encf loclat f None hz ?s1] => exact (IH s1) end.
          -- unfold rres3_sbal. cbn [fst snd]. apply sbalx_end.
      + destruct (b_in (c2 s)) as [|[t b] rest].
        * destruct (eof_events (b_rd (c2 s))) as [|[id body| |] evs]; unfold rres3_sbal; cbn [fst snd];
            first [apply sbalx_end | apply sbal_nil].
        * cbv zeta.
          destruct (feed_byte (cf_max_len cfg) (b_rd (c2 s)) b) as [rd' [|[id body| |] evs]].
          -- match goal with |- context [read_frame3_f cfg e encf loclat f m hz ?s1] => exact (IH s1) end.
          -- unfold rres3_sbal. cbn [fst snd]. apply sbal_nil.
          -- unfold rres3_sbal. cbn [fst snd]. apply sbalx_end.
          -- unfold rres3_sbal. cbn [fst snd]. apply sbalx_end.
  Qed.

  Definition kres_sbal (u : bytes) (p : list oev * (list fv * st3 + st3 + unit)) : Prop :=
    match snd p with
    | inl (inl (_, s')) => sbal u (fst p) (c_unsent s')
    | inl (inr s') => sbal u (fst p) (c_unsent s')
    | inr _ => sbalx u (fst p)
    end.

  Lemma ka_loop3_sbal info loc hz fuel : forall s, kres_sbal (c_unsent s) (ka_loop3 cfg e encf loclat fuel info loc hz s).
  Proof.
    induction fuel as [|f IH]; intros s; cbn [ka_loop3].
    - unfold kres_sbal. cbn [fst snd]. eapply sbalx_of_sbal. apply sbal_ot. reflexivity.
    - pose proof (read_frame3_f_sbal (fuel3 s) (Some loc) hz s) as Hr. unfold read_frame3.
      destruct (read_frame3_f cfg e encf loclat (fuel3 s) (Some loc) hz s) as [o [id body s'|s'|fin]];
        unfold rres3_sbal in Hr; cbn [fst snd] in Hr.
      + cbv zeta. destruct (conf_frame cfg info (b_ka (c2 s')) id body) as [ka''|vs|oc].
        * match goal with |- context [ka_loop3 cfg e encf loclat f info loc hz ?s1] =>
            specialize (IH s1); destruct (ka_loop3 cfg e encf loclat f info loc hz s1) as [o2 r] end.
          unfold kres_sbal in *. cbn [fst snd set2 c_unsent] in *.
          destruct r as [[[vs s'']|s'']|u].
          -- eapply sbal_app; [exact Hr|]. apply sbal_cons; [reflexivity | exact IH].
          -- eapply sbal_app; [exact Hr|]. apply sbal_cons; [reflexivity | exact IH].
          -- eapply sbalx_app; [exact Hr|]. apply sbalx_cons; [reflexivity | exact IH].
        * unfold kres_sbal. cbn [fst snd]. eapply sbal_app; [exact Hr|]. apply sbal_ot. reflexivity.
        * unfold kres_sbal. cbn [fst snd]. eapply sbalx_app; [exact Hr|]. eapply sbalx_of_sbal.
          apply sbal_cons; [reflexivity|]. apply sbal_ot. reflexivity.
      + exact Hr.
      + exact Hr.
  Qed.

  Theorem exec3_sbal : forall p s, sbalx (c_unsent s) (exec3 cfg e encf loclat p s).
  Proof.
    induction p as [o|k IH|loc k IH|loc c k IH|c k IH|pk vs k IH|ss k IH|w k IH|k IH]; intros s; cbn [exec3]; cbv zeta.
    - eapply sbalx_of_sbal. apply sbal_ot. reflexivity.
    - (* Expect *)
      pose proof (read_frame3_f_sbal (fuel3 s) None None s) as Hr. unfold read_frame3.
      destruct (read_frame3_f cfg e encf loclat (fuel3 s) None None s) as [o [id body s'|s'|fin]];
        unfold rres3_sbal in Hr; cbn [fst snd] in Hr.
      + destruct (negb (len_ok cfg id body)).
        * eapply sbalx_app; [exact Hr|]. eapply sbalx_of_sbal. apply sbal_cons; [reflexivity|]. apply sbal_ot. reflexivity.
        * eapply sbalx_app; [exact Hr|]. apply sbalx_cons; [reflexivity|]. apply IH.
      + eapply sbalx_app; [exact Hr|]. eapply sbalx_of_sbal. apply sbal_ot. reflexivity.
      + exact Hr.
    - (* WaitInfo *)
      pose proof (ka_loop3_sbal true loc None (length (b_in (c2 s)) + 3) s) as Hk.
      destruct (ka_loop3 cfg e encf loclat (length (b_in (c2 s)) + 3) true loc None s) as [o [[[vs s']|s']|u]];
        unfold kres_sbal in Hk; cbn [fst snd] in Hk.
      + eapply sbalx_app; [exact Hk | apply IH].
      + eapply sbalx_app; [exact Hk|]. eapply sbalx_of_sbal. apply sbal_ot. reflexivity.
      + exact Hk.
    - (* Race *)
      destruct (e_res e c) as [r lat].
      pose proof (ka_loop3_sbal false loc (Some (b_now (c2 s) + Z.max lat 1)) (length (b_in (c2 s)) + 3) s) as Hk.
      destruct (ka_loop3 cfg e encf loclat (length (b_in (c2 s)) + 3) false loc (Some (b_now (c2 s) + Z.max lat 1)) s) as [o [[[vs s']|s']|u]];
        unfold kres_sbal in Hk; cbn [fst snd] in Hk.
      + apply sbalx_cons; [reflexivity|]. eapply sbalx_of_sbal. exact Hk.
      + assert (Hpre : sbal (c_unsent s) (OT (b_now (c2 s), TCall c) :: o) (c_unsent s'))
          by (apply sbal_cons; [reflexivity | exact Hk]).
        assert (Hv : sbalx (c_unsent s) ((OT (b_now (c2 s), TCall c) :: o) ++ fst (verdict e encf loclat loc None s'))).
        { eapply sbalx_app; [exact Hpre|]. pose proof (verdict_sbal loc None s') as Hv. unfold tres_sbal in Hv.
          destruct (snd (verdict e encf loclat loc None s')); [eapply sbalx_of_sbal; exact Hv | eapply sbalx_of_sbal; exact Hv | exact Hv]. }
        assert (He : sbalx (c_unsent s) ((OT (b_now (c2 s), TCall c) :: o) ++ [OT (b_now (c2 s) + Z.max lat 1, TEnd (OErr KAdapter))])).
        { eapply sbalx_app; [exact Hpre|]. eapply sbalx_of_sbal. apply sbal_ot. reflexivity. }
        destruct (c_missed s').
        * eapply sbalx_app; [exact Hpre|]. apply sbalx_cons; [reflexivity|]. apply IH.
        * destruct r; first [exact Hv | exact He].
        * destruct r; first [exact Hv | exact He].
      + apply sbalx_cons; [reflexivity | exact Hk].
    - (* Call *)
      destruct (e_res e c) as [r lat].
      apply sbalx_cons; [reflexivity|]. apply sbalx_cons; [reflexivity|].
      apply (IH r (at_time s (b_now (c2 s) + Z.max lat 0))).
    - (* Send *)
      destruct (flush None (enqueue s (frame_bytes encf pk vs))) as [[o s'] r] eqn:Hf.
      pose proof (sbal_flush _ _ _ _ _ Hf) as Hb. cbn [enqueue c_unsent] in Hb.
      assert (Hpre : sbal (c_unsent s) (OT (b_now (c2 s), TSend pk vs) :: o) (c_unsent s')).
      { apply (sbal_app _ [OT (b_now (c2 s), TSend pk vs)] _ o _ (sbal_send _ _ _ _) Hb). }
      destruct r.
      + change (OT (b_now (c2 s), TSend pk vs) :: o ++ exec3 cfg e encf loclat k s')
          with ((OT (b_now (c2 s), TSend pk vs) :: o) ++ exec3 cfg e encf loclat k s').
        eapply sbalx_app; [exact Hpre | apply IH].
      + eapply sbalx_of_sbal. exact Hpre.
      + eapply sbalx_of_sbal. exact Hpre.
    - apply sbalx_cons; [reflexivity|]. apply IH.
    - destruct w; (apply sbalx_cons; [reflexivity|]; apply IH).
    - apply sbalx_cons; [reflexivity|].
      match goal with |- context [exec3 cfg e encf loclat _ ?s1] => apply (IH _ s1) end.
  Qed.

End Causal.

(* G2: every chunk carries bytes of packets that were sent before it (its bytes are the next
   bytes, after those already accepted, of the frames sent so far), and every packet sent before
   it was sent at an instant that is not later than the instant the chunk is accepted *)
Theorem M3_delivery_not_before_send o cfg e encf loclat cap sch s pre t b post :
  run3 o cfg e encf loclat cap sch s = pre ++ OW t b :: post ->
  (exists rest, fbytes encf (trace_of pre) = wbytes pre ++ b ++ rest)
  /\ (forall t' pk vs, In (OT (t', TSend pk vs)) pre -> t' <= t).
Proof.
  intros Heq. split; [|exact (run3_write_after_send _ _ _ _ _ _ _ _ _ _ _ _ Heq)].
  pose proof (exec3_sbal cfg e encf loclat (listen o cfg) (init3 s cap sch)) as Hp.
  fold (run3 o cfg e encf loclat cap sch s) in Hp. cbn [init3 c_unsent] in Hp.
  destruct (Hp (pre ++ [OW t b]) post) as [u' Hb]; [rewrite Heq, <- app_assoc; reflexivity|].
  exists u'. unfold Sem3Proofs.bal in Hb. cbn [app] in Hb.
  rewrite trace_of_app, wbytes_app in Hb. cbn [trace_of] in Hb. rewrite app_nil_r in Hb.
  rewrite Hb, wbytes_ow. unfold wbytes at 2. cbn [wire_of map concat]. rewrite app_nil_r, <- app_assoc. reflexivity.
Qed.

(* non-vacuity, with a schedule that is NOT sorted: the wait for room ends at 10, where the entry
   for instant 5 is absorbed as well *)
Example mono_unsorted_schedule :
  let out := exec3 ex_cfg (ex_env RErr) ex_encf 0
               (Send configuration_cb_TransferPacket [] (Ret OOk))
               {| c2 := ex_st2 None; c_unsent := []; c_cap := Some 1; c_sch := [(10, Some 1); (5, Some 5)]; c_missed := MNo |} in
  instants out = [0; 0; 10; 10] /\ map fst (wire_of out) = [0; 10] /\ nondecreasing (instants out) = true.
Proof. vm_compute. repeat split; reflexivity. Qed.

Print Assumptions run3_wire_mono.
Print Assumptions run3_write_after_send.
Print Assumptions M3_delivery_not_before_send.
