(* C08, refinement M2 -> M1 on calm schedules: arbitrary segmentation of the client's bytes,
   provided no tick deadline and no completion of an adapter call falls inside the time span
   of a frame.  Generalises Conn/RefineProofs.v (frame-atomic schedules). *)
From Passage Require Import Lib.Bytes Codec.VarInt Codec.Desc Gen.PacketsGen Gen.ConstsGen
  Codec.PacketCheck Conn.Types Conn.Prog Conn.Sem1 Conn.Sem2 Conn.Reader Conn.ReaderProofs
  Conn.RefineDefs Conn.RefineProofs.

Local Opaque P.

(* ------------------------------------------------------------------------------------ *)
(* Part A: the tick grid                                                                  *)
(* ------------------------------------------------------------------------------------ *)
Lemma P_pos : 0 < P. Proof. pose proof P_gt5. lia. Qed.

(* a grid point after [a] is after every instant of [a]'s grid cell *)
(* two instants in the same cell of the tick grid: no multiple of P in (a, b] resp. (b, a] *)
Definition same_cell (a b : Z) : Prop := a / P = b / P.

Lemma grid_gt g a b : (P | g) -> a < g -> same_cell a b -> b < g.
Proof.
  unfold same_cell. intros [k ->] Ha E. pose proof P_pos as HP.
  assert (H1 : a / P < k) by (apply Z.div_lt_upper_bound; lia).
  pose proof (Z.mul_succ_div_gt b P HP) as H2. rewrite <- E in H2.
  assert (H3 : P * Z.succ (a / P) <= P * k) by (apply Z.mul_le_mono_nonneg_l; lia).
  lia.
Qed.

Lemma grid_ltb g a b : (P | g) -> a <= b -> same_cell a b -> (a <? g) = (b <? g).
Proof.
  intros Hg Hab E. destruct (Z.ltb_spec a g) as [H|H]; destruct (Z.ltb_spec b g) as [H'|H']; try reflexivity.
  - pose proof (grid_gt g a b Hg H E). lia.
  - lia.
Qed.

Lemma div_sandwich a n b : a <= n <= b -> same_cell a b -> same_cell n b.
Proof.
  unfold same_cell. intros [H1 H2] E. pose proof P_pos as HP.
  pose proof (Z.div_le_mono a n P HP H1). pose proof (Z.div_le_mono n b P HP H2). lia.
Qed.

Lemma div_max a b n : a <= b -> same_cell a b -> same_cell (Z.max a n) (Z.max b n).
Proof.
  intros Hab E. destruct (Z.le_gt_cases n a) as [H|H].
  - rewrite !Z.max_l by lia. exact E.
  - rewrite (Z.max_r a n) by lia. destruct (Z.le_gt_cases b n) as [H'|H'].
    + rewrite Z.max_r by lia. reflexivity.
    + rewrite Z.max_l by lia. apply (div_sandwich a n b); [lia | exact E].
Qed.

Lemma fire_grid d now : (P | d) -> (P | fire d now).
Proof.
  intros [k ->]. pose proof P_pos as HP. unfold fire. destruct (k * P + 5 <? now).
  - pose proof (Z.div_mod (now - k * P) P ltac:(lia)) as E.
    exists (k + 1 + (now - k * P) / P). lia.
  - exists (k + 1). lia.
Qed.

Lemma skip_ticks_grid d now t : (P | d) -> (P | skip_ticks d now t).
Proof.
  intros Hd. unfold skip_ticks. destruct (t <? d); [exact Hd|]. cbv zeta.
  pose proof (fire_grid d (Z.max d now) Hd) as H1.
  destruct (t <? fire d (Z.max d now)); [exact H1|].
  destruct H1 as [k ->]. exists (k + ((t - k * P) / P + 1)). lia.
Qed.

Lemma skip_ticks_same d now a b : (P | d) -> a <= b -> same_cell a b -> skip_ticks d now a = skip_ticks d now b.
Proof.
  intros Hd Hab E. pose proof P_pos as HP. unfold skip_ticks. rewrite (grid_ltb d a b Hd Hab E).
  destruct (b <? d); [reflexivity|]. cbv zeta.
  pose proof (fire_grid d (Z.max d now) Hd) as H1.
  rewrite (grid_ltb _ a b H1 Hab E). destruct (b <? fire d (Z.max d now)); [reflexivity|].
  destruct H1 as [k ->].
  replace (a - k * P) with (a + (- k) * P) by lia. replace (b - k * P) with (b + (- k) * P) by lia.
  rewrite !Z.div_add by lia. unfold same_cell in E. rewrite E. reflexivity.
Qed.

Section Grid.
  Variable e : env.

  Lemma ticks_until_same loc now dl ka nka a b :
    (P | dl) -> a <= b -> same_cell a b ->
    ticks_until e loc now dl ka nka a = ticks_until e loc now dl ka nka b.
  Proof.
    intros Hg Hab E. unfold ticks_until. rewrite (grid_ltb dl a b Hg Hab E).
    destruct (b <? dl); [reflexivity|].
    destruct (tick_at e loc (Z.max dl now) dl ka nka) as [tr1 [[[dl1 ka1] nka1]|]] eqn:Et; [|reflexivity].
    destruct (tick_at_some e _ _ _ _ _ _ _ _ _ Et) as [-> _].
    rewrite (grid_ltb _ a b (fire_grid dl (Z.max dl now) Hg) Hab E). reflexivity.
  Qed.

  Lemma ticks_until_grid loc now dl ka nka t tr dl' ka' nka' :
    (P | dl) -> ticks_until e loc now dl ka nka t = (tr, Some (dl', ka', nka')) -> (P | dl').
  Proof.
    intros Hg. unfold ticks_until. destruct (t <? dl).
    - intros H. injection H as _ <- _ _. exact Hg.
    - destruct (tick_at e loc (Z.max dl now) dl ka nka) as [tr1 [[[dl1 ka1] nka1]|]] eqn:Et; [|discriminate].
      destruct (tick_at_some e _ _ _ _ _ _ _ _ _ Et) as [-> [id ->]].
      destruct (t <? fire dl (Z.max dl now)).
      + intros H. injection H as _ <- _ _. apply fire_grid. exact Hg.
      + pose proof (tick_at_dead e loc (fire dl (Z.max dl now)) (fire dl (Z.max dl now)) id nka1) as Hd.
        destruct (tick_at e loc (fire dl (Z.max dl now)) (fire dl (Z.max dl now)) (Some id) nka1) as [tr2 [x|]];
          [discriminate Hd | discriminate].
  Qed.
End Grid.

(* ------------------------------------------------------------------------------------ *)
(* Part B: the reader on calm streams                                                     *)
(* ------------------------------------------------------------------------------------ *)
Section CalmStream.
  Variable max : Z.

  Lemma rst_dead_dec (st : rst) : st = RDead \/ st <> RDead.
  Proof. destruct st; [right; discriminate | right; discriminate | right; discriminate | left; reflexivity]. Qed.

  Lemma calm_s_dead t0 tp l : calm_s max RDead t0 tp l = true.
  Proof. destruct l as [|[t b] r]; reflexivity. Qed.

  Lemma calm_s_idle t0 tp t0' tp' l : calm_s max RIdle t0 tp l = calm_s max RIdle t0' tp' l.
  Proof. destruct l as [|[t b] r]; reflexivity. Qed.

  Lemma spans_idle t0 t0' l : spans max RIdle t0 l = spans max RIdle t0' l.
  Proof. destruct l as [|[t b] r]; reflexivity. Qed.

  Lemma spans_dead t0 l : spans max RDead t0 l = [].
  Proof. induction l as [|[t b] r IH]; [reflexivity|]. cbn [spans feed_byte]. exact IH. Qed.

  Lemma completes_cons st tn t b r :
    completes max st tn ((t, b) :: r) =
      match feed_byte max st b with
      | (st', []) => (t <=? tn) && completes max st' tn r
      | (_, _ :: _) => t =? tn
      end.
  Proof. reflexivity. Qed.

  Lemma completes_le st tn t b r : completes max st tn ((t, b) :: r) = true -> t <= tn.
  Proof.
    rewrite completes_cons. destruct (feed_byte max st b) as [st' [|ev evs]]; intros H.
    - apply andb_prop in H. destruct H as [H _]. apply Z.leb_le in H. exact H.
    - apply Z.eqb_eq in H. lia.
  Qed.

  (* first byte time of the frame the reader is in / about to start *)
  Definition t_first (st : rst) (t0 t : Z) : Z := match st with RIdle => t | _ => t0 end.

  Lemma calm_s_step st t0 tp t b r :
    st <> RDead -> calm_s max st t0 tp ((t, b) :: r) = true ->
    calm_s max (fst (feed_byte max st b)) (t_first st t0 t) t r = true
    /\ same_cell (t_first st t0 t) t.
  Proof.
    intros Hst H. destruct st as [|k acc|len got|]; cbn [calm_s t_first] in *.
    - split; [exact H | reflexivity].
    - apply andb_prop in H; destruct H as [H H3]; apply andb_prop in H; destruct H as [_ H2];
        apply Z.eqb_eq in H2; split; assumption.
    - apply andb_prop in H; destruct H as [H H3]; apply andb_prop in H; destruct H as [_ H2];
        apply Z.eqb_eq in H2; split; assumption.
    - contradiction.
  Qed.

  Lemma calm_s_mid st t0 tp l :
    calm_s max st t0 tp l = true -> st <> RDead -> st <> RIdle ->
    exists t b r, l = (t, b) :: r /\ tp <= t.
  Proof.
    intros H H1 H2. destruct l as [|[t b] r].
    - destruct st; cbn in H; try discriminate; contradiction.
    - destruct st; cbn [calm_s] in H; try contradiction;
        apply andb_prop in H; destruct H as [H _]; apply andb_prop in H; destruct H as [H _];
        apply Z.leb_le in H; eexists _, _, _; (split; [reflexivity | exact H]).
  Qed.

  Lemma spans_cons st t0 t b r :
    spans max st t0 ((t, b) :: r) =
      match feed_byte max st b with
      | (st', []) => spans max st' (t_first st t0 t) r
      | (st', _ :: _) => (t_first st t0 t, t) :: spans max st' (t_first st t0 t) r
      end.
  Proof. reflexivity. Qed.

  Lemma stream_frames_cons st t b r eof :
    stream_frames max st ((t, b) :: r) eof =
      let (st', evs) := feed_byte max st b in map (ev_in t) evs ++ stream_frames max st' r eof.
  Proof. reflexivity. Qed.

  (* on a calm stream a live reader produces its next event with the byte arriving at [tn];
     the span of that frame lies in one grid cell; what follows is again calm *)
  Lemma pop_frames_calm eof : forall r st t0 tp t b,
    st <> RDead -> calm_s max st t0 tp ((t, b) :: r) = true ->
    exists ev tn rest,
      pop max st ((t, b) :: r) = Some (ev, rest)
      /\ completes max st tn ((t, b) :: r) = true
      /\ t <= tn /\ same_cell (t_first st t0 t) tn
      /\ stream_frames max st ((t, b) :: r) eof = ev_in tn ev :: stream_frames max (st_after ev) rest eof
      /\ spans max st t0 ((t, b) :: r) = (t_first st t0 t, tn) :: spans max (st_after ev) 0 rest
      /\ (ev <> EvBadLen -> calm_s max RIdle 0 0 rest = true)
      /\ (length rest <= length r)%nat.
  Proof.
    induction r as [|[t2 b2] r2 IH]; intros st t0 tp t b Hst Hc;
      destruct (calm_s_step st t0 tp t b _ Hst Hc) as [Hc' Hdiv];
      destruct (feed_byte max st b) as [st' evs] eqn:E; cbn [fst] in Hc';
      destruct (feed_byte_cases max _ _ _ _ Hst E) as [(-> & H1 & H2) | [(-> & ->) | (fr & -> & ->)]].
    - destruct st'; cbn in Hc'; try discriminate; contradiction.
    - exists EvBadLen, t, []. rewrite pop_cons, completes_cons, stream_frames_cons, spans_cons.
      rewrite E, Z.eqb_refl. cbn [st_after]. rewrite ?spans_dead.
      split; [reflexivity|]. split; [reflexivity|]. split; [lia|]. split; [exact Hdiv|].
      split; [reflexivity|]. split; [reflexivity|]. split; [intros H; contradiction | apply le_n].
    - exists (split_frame fr), t, []. pose proof (split_frame_not_badlen fr) as Hn.
      assert (Hs : st_after (split_frame fr) = RIdle) by (destruct (split_frame fr); [reflexivity | contradiction | reflexivity]).
      rewrite pop_cons, completes_cons, stream_frames_cons, spans_cons.
      rewrite E, Hs, Z.eqb_refl.
      split; [reflexivity|]. split; [reflexivity|]. split; [lia|]. split; [exact Hdiv|].
      split; [reflexivity|]. split; [reflexivity|]. split; [intros _; reflexivity | apply le_n].
    - (* inside the frame *)
      destruct (calm_s_mid _ _ _ _ Hc' H1 H2) as (t' & b' & r' & Hl & Hle). injection Hl as <- <- <-.
      destruct (IH st' (t_first st t0 t) t t2 b2 H1 Hc') as (ev & tn & rest & Hp & Hcm & Hle2 & Hd2 & Hf & Hsp & Ha & Hl).
      assert (Htf : t_first st' (t_first st t0 t) t2 = t_first st t0 t) by (destruct st'; [contradiction | reflexivity | reflexivity | contradiction]).
      rewrite Htf in *.
      exists ev, tn, rest. rewrite pop_cons, completes_cons, stream_frames_cons, spans_cons.
      rewrite E. cbn [map app]. rewrite Hcm.
      destruct (Z.leb_spec t tn) as [_|Hx]; [|lia]. cbn [andb].
      split; [exact Hp|]. split; [reflexivity|]. split; [lia|]. split; [exact Hd2|].
      split; [exact Hf|]. split; [exact Hsp|]. split; [exact Ha|]. cbn [length]. lia.
    - exists EvBadLen, t, ((t2, b2) :: r2). rewrite pop_cons, completes_cons, stream_frames_cons, spans_cons.
      rewrite E, Z.eqb_refl. cbn [st_after]. rewrite ?spans_dead.
      split; [reflexivity|]. split; [reflexivity|]. split; [lia|]. split; [exact Hdiv|].
      split; [reflexivity|]. split; [reflexivity|]. split; [intros H; contradiction | apply le_n].
    - exists (split_frame fr), t, ((t2, b2) :: r2). pose proof (split_frame_not_badlen fr) as Hn.
      assert (Hs : st_after (split_frame fr) = RIdle) by (destruct (split_frame fr); [reflexivity | contradiction | reflexivity]).
      rewrite pop_cons, completes_cons, stream_frames_cons, spans_cons.
      rewrite E, Hs, Z.eqb_refl.
      split; [reflexivity|]. split; [reflexivity|]. split; [lia|]. split; [exact Hdiv|].
      split; [reflexivity|]. split; [f_equal; apply spans_idle|].
      split; [|apply le_n]. intros _. rewrite (calm_s_idle 0 0 (t_first st t0 t) t). exact Hc'.
  Qed.

  (* atomic streams are calm and the spans of their frames are single instants *)
  Lemma atomic_calm_s : forall l st tc tp,
    atomic_s max st tc l = true -> tp <= tc -> calm_s max st tc tp l = true.
  Proof.
    induction l as [|[t b] r IH]; intros st tc tp H Hle; [exact H|].
    destruct st as [|k acc|len got|]; cbn [atomic_s calm_s] in *.
    - apply IH; [exact H | lia].
    - apply andb_prop in H. destruct H as [Ht H]. apply Z.eqb_eq in Ht. subst t.
      destruct (Z.leb_spec tp tc); [|lia]. rewrite Z.eqb_refl. cbn [andb]. apply IH; [exact H | lia].
    - apply andb_prop in H. destruct H as [Ht H]. apply Z.eqb_eq in Ht. subst t.
      destruct (Z.leb_spec tp tc); [|lia]. rewrite Z.eqb_refl. cbn [andb]. apply IH; [exact H | lia].
    - reflexivity.
  Qed.

  Lemma atomic_spans : forall l st tc a b,
    atomic_s max st tc l = true -> In (a, b) (spans max st tc l) -> a = b.
  Proof.
    induction l as [|[t x] r IH]; intros st tc a b H Hin; [contradiction|].
    rewrite spans_cons in Hin.
    destruct (rst_dead_dec st) as [->|Hst].
    - cbn [feed_byte] in Hin. rewrite spans_dead in Hin. contradiction.
    - assert (Htf : t_first st tc t = t /\ atomic_s max st t ((t, x) :: r) = true).
      { destruct st as [|k acc|len got|]; cbn [t_first]; [split; [reflexivity|]; rewrite (atomic_s_idle_tc max t tc); exact H | | | contradiction];
          pose proof H as H0; cbn [atomic_s] in H0; apply andb_prop in H0; destruct H0 as [Ht _]; apply Z.eqb_eq in Ht; subst tc;
          (split; [reflexivity | exact H]). }
      destruct Htf as [Htf H0]. rewrite Htf in Hin.
      pose proof (atomic_s_step max _ _ _ _ H0 Hst) as H'.
      destruct (feed_byte max st x) as [st' [|ev evs]]; cbn [fst] in H'.
      + apply (IH st' t a b H' Hin).
      + destruct Hin as [Hin|Hin]; [injection Hin as <- <-; reflexivity | apply (IH st' t a b H' Hin)].
  Qed.
End CalmStream.

(* ------------------------------------------------------------------------------------ *)
(* Part C: reading one frame whose bytes arrive at different instants                      *)
(* ------------------------------------------------------------------------------------ *)
Section ReadCalm.
  Variable cfg : conn_cfg.
  Variable e : env.
  Local Notation max := (cf_max_len cfg).

  Lemma completes_mid st tn l :
    completes max st tn l = true -> exists t b r, l = (t, b) :: r.
  Proof. destruct l as [|[t b] r]; [discriminate | intros _; eexists _, _, _; reflexivity]. Qed.

  Lemma phase_b_pop2 tn hz : forall r t b fuel s len got,
    b_in s = (t, b) :: r -> (S (length r) < fuel)%nat ->
    completes max (RFrame len got) tn ((t, b) :: r) = true ->
    Z.of_nat (length got) < len ->
    hz_gt hz (Z.max tn (b_now s)) ->
    phase_b fuel hz s (len - Z.of_nat (length got)) got
    = res_of_pop (Z.max tn (b_now s)) s (pop max (RFrame len got) ((t, b) :: r)).
  Proof.
    induction r as [|[t2 b2] r2 IH]; intros t b fuel s len got Hin Hf Hcm Hlen Hhz.
    all: pose proof (completes_le max _ _ _ _ _ Hcm) as Hle.
    all: destruct fuel as [|f]; [cbn in Hf; lia|].
    all: rewrite phase_b_S; destruct (Z.leb_spec (len - Z.of_nat (length got)) 0) as [Hc|_]; [lia|].
    all: rewrite Hin; cbv zeta.
    all: rewrite pop_cons; rewrite completes_cons in Hcm; cbn [feed_byte] in *.
    all: match goal with |- match _ with Some _ => if _ <=? ?T then _ else ?X | None => _ end = ?R =>
           assert (Hstep : X = R); [| destruct hz as [h|]; [cbn [hz_gt] in Hhz; destruct (Z.leb_spec h T); [lia | exact Hstep] | exact Hstep]]
         end.
    - destruct (Z.eqb_spec (Z.of_nat (length (got ++ [b]))) len) as [E|E].
      + apply Z.eqb_eq in Hcm. subst tn.
        destruct f as [|f]; [cbn in Hf; lia|].
        rewrite phase_b_S. rewrite app_length in E. cbn [length] in E.
        destruct (Z.leb_spec (len - Z.of_nat (length got) - 1) 0) as [_|Hc]; [|lia].
        apply deliver_upd.
      + apply andb_prop in Hcm. destruct Hcm as [_ Hcm]. discriminate Hcm.
    - destruct (Z.eqb_spec (Z.of_nat (length (got ++ [b]))) len) as [E|E].
      + apply Z.eqb_eq in Hcm. subst tn.
        destruct f as [|f]; [cbn in Hf; lia|].
        rewrite phase_b_S. rewrite app_length in E. cbn [length] in E.
        destruct (Z.leb_spec (len - Z.of_nat (length got) - 1) 0) as [_|Hc]; [|lia].
        apply deliver_upd.
      + apply andb_prop in Hcm. destruct Hcm as [_ Hcm].
        set (s1 := upd s (Z.max t (b_now s)) (b_dl s) (b_ka s) ((t2, b2) :: r2) (b_nka s)).
        assert (HT : Z.max tn (b_now s1) = Z.max tn (b_now s)) by (unfold s1; cbn [upd b_now]; lia).
        rewrite app_length in E. cbn [length] in E.
        replace (len - Z.of_nat (length got) - 1) with (len - Z.of_nat (length (got ++ [b])))
          by (rewrite app_length; cbn [length]; lia).
        rewrite (IH t2 b2 f s1 len (got ++ [b]) eq_refl);
          [| cbn [length] in Hf; lia | exact Hcm | rewrite app_length; cbn [length]; lia | rewrite HT; exact Hhz].
        rewrite HT. reflexivity.
  Qed.

  Lemma phase_a_pop2 tn m hz : forall r t b fuel s k acc,
    b_in s = (t, b) :: r -> (5 <= k + fuel)%nat -> (k <= 4)%nat -> (k = O -> acc = 0) ->
    completes max (rst_of k acc) tn ((t, b) :: r) = true ->
    Z.max tn (b_now s) < b_dl s ->
    hz_gt hz (Z.max tn (b_now s)) ->
    phase_a cfg e fuel m hz s k acc
    = ([], res_of_pop (Z.max tn (b_now s)) s (pop max (rst_of k acc) ((t, b) :: r))).
  Proof.
    induction r as [|[t2 b2] r2 IH]; intros t b fuel s k acc Hin Hf Hk H0 Hcm Hdl Hhz.
    all: pose proof (completes_le max _ _ _ _ _ Hcm) as Hle.
    all: destruct fuel as [|f]; [lia|].
    all: assert (Hhz1 : hz_gt hz (Z.max t (b_now s))) by (destruct hz as [h|]; [cbn [hz_gt] in *; lia | exact I]).
    all: rewrite phase_a_S, (hfirst_false hz s _ (tin_of_cons _ _ _ _ Hin) Hhz1),
           (tfirst_false s _ (tin_of_cons _ _ _ _ Hin) ltac:(lia)), Hin.
    all: cbv zeta.
    all: rewrite pop_cons; rewrite completes_cons in Hcm; rewrite (feed_byte_rst_of cfg k acc b H0) in *.
    all: destruct ((b <? 128) || (4 <=? k)%nat) eqn:Elast.
    - unfold len_done in *.
      destruct ((wrap32 (acc + b mod 128 * 2 ^ (7 * Z.of_nat k)) <=? 0)
                || (max <? wrap32 (acc + b mod 128 * 2 ^ (7 * Z.of_nat k)))).
      + apply Z.eqb_eq in Hcm. subst tn. reflexivity.
      + apply andb_prop in Hcm. destruct Hcm as [_ Hcm]. discriminate Hcm.
    - apply andb_prop in Hcm. destruct Hcm as [_ Hcm]. discriminate Hcm.
    - unfold len_done in *.
      destruct ((wrap32 (acc + b mod 128 * 2 ^ (7 * Z.of_nat k)) <=? 0)
                || (max <? wrap32 (acc + b mod 128 * 2 ^ (7 * Z.of_nat k)))) eqn:Ebad.
      + apply Z.eqb_eq in Hcm. subst tn. reflexivity.
      + apply andb_prop in Hcm. destruct Hcm as [_ Hcm].
        apply orb_false_iff in Ebad. destruct Ebad as [Eb1 Eb2]. apply Z.leb_gt in Eb1.
        set (len := wrap32 (acc + b mod 128 * 2 ^ (7 * Z.of_nat k))) in *.
        set (s1 := upd s (Z.max t (b_now s)) (b_dl s) (b_ka s) ((t2, b2) :: r2) (b_nka s)).
        assert (HT : Z.max tn (b_now s1) = Z.max tn (b_now s)) by (unfold s1; cbn [upd b_now]; lia).
        pose proof (phase_b_pop2 tn hz r2 t2 b2 (S (length ((t2, b2) :: r2))) s1 len [] eq_refl) as Hb.
        cbn [length] in Hb. replace (len - Z.of_nat 0) with len in Hb by lia.
        cbn [length]. rewrite Hb; [| lia | exact Hcm | lia | rewrite HT; exact Hhz].
        rewrite HT. reflexivity.
    - apply andb_prop in Hcm. destruct Hcm as [_ Hcm].
      apply orb_false_iff in Elast. destruct Elast as [_ Ek]. apply Nat.leb_gt in Ek.
      set (s1 := upd s (Z.max t (b_now s)) (b_dl s) (b_ka s) ((t2, b2) :: r2) (b_nka s)).
      assert (HT : Z.max tn (b_now s1) = Z.max tn (b_now s)) by (unfold s1; cbn [upd b_now]; lia).
      rewrite (IH t2 b2 f s1 (S k) (acc + b mod 128 * 2 ^ (7 * Z.of_nat k)) eq_refl);
        [| lia | lia | discriminate | exact Hcm | rewrite HT; exact Hdl | rewrite HT; exact Hhz].
      rewrite HT. reflexivity.
  Qed.

  (* clamping to the handler's clock keeps an interval inside its grid cell *)
  Lemma clamp_cell t tn now : t <= tn -> same_cell t tn ->
    Z.max t now <= Z.max tn now /\ same_cell (Z.max t now) (Z.max tn now).
  Proof. intros H E. split; [lia | apply div_max; assumption]. Qed.

  (* ---------------------------------------------------------------------------------- *)
  (* Part D: receive_packet(false) on a calm stream                                      *)
  (* ---------------------------------------------------------------------------------- *)
  Definition good (s2 : st2) (sp : list (Z * Z)) : Prop :=
    calm_s max RIdle 0 0 (b_in s2) = true /\ (P | b_dl s2) /\ incl (spans max RIdle 0 (b_in s2)) sp.

  Lemma read_none_calm s :
    calm_s max RIdle 0 0 (b_in s) = true -> (P | b_dl s) ->
    match next_frame (abs max s) with
    | None => read_frame cfg e None None s = ([], REnd [(b_now s, TEnd OHang)])
    | Some (t, IEof, _) => read_frame cfg e None None s = ([], REnd [(t, TEnd (OErr KClosed))])
    | Some (t, IBadLen, _) => read_frame cfg e None None s = ([], REnd [(t, TEnd (OErr KIllegalLen))])
    | Some (t, IFrame id body, s1) =>
        exists s2, read_frame cfg e None None s = ([], RGot id body s2)
                   /\ s1 = abs max s2 /\ b_now s2 = t /\ good s2 (spans max RIdle 0 (b_in s))
    end.
  Proof.
    intros Hc Hg. unfold read_frame. rewrite fuel_of_shape.
    set (f := (S (3 * length (b_in s) + 9))%nat). assert (Hf5 : (5 <= f)%nat) by (unfold f; lia).
    unfold next_frame, abs. cbn [s_in s_now s_dl s_ka s_nka s_nnow].
    destruct (b_in s) as [|[t b] r] eqn:Hin.
    - destruct (b_eof s) as [te|] eqn:Heof; cbn [stream_frames eof_events map app].
      + assert (Hsrc : tsrc s = Some te) by (unfold tsrc; rewrite Hin, Heof; reflexivity).
        destruct (phase_a_skip cfg e s f te Hsrc) as (f' & Hf' & ->).
        destruct f' as [|f']; [lia|].
        set (s' := upd s (b_now s) (skip_ticks (b_dl s) (b_now s) (Z.max te (b_now s))) (b_ka s) (b_in s) (b_nka s)).
        assert (Htin : tin_of s' = Some (Z.max te (b_now s))).
        { unfold tin_of, s'. cbn [upd b_in b_eof b_now]. rewrite Hin, Heof. reflexivity. }
        pose proof (skip_ticks_gt (b_dl s) (b_now s) (Z.max te (b_now s))) as Hgt.
        rewrite phase_a_S. change (hfirst None s') with false. cbv iota.
        rewrite (tfirst_false s' _ Htin Hgt).
        unfold s'. cbn [upd b_in b_eof b_now]. rewrite Hin, Heof. reflexivity.
      + rewrite phase_a_S. change (hfirst None s) with false. cbv iota.
        unfold tfirst, tin_of. rewrite Hin, Heof. reflexivity.
    - destruct (pop_frames_calm max (b_eof s) r RIdle 0 0 t b ltac:(discriminate) Hc)
        as (ev & tn & rest & Hpop & Hcm & Hle & Hdiv & Hfr & Hsp & Hrest & Hlen).
      cbn [t_first] in Hdiv, Hsp.
      rewrite Hfr.
      destruct (clamp_cell t tn (b_now s) Hle Hdiv) as [Hle' Hdiv'].
      assert (Hsrc : tsrc s = Some t) by (unfold tsrc; rewrite Hin; reflexivity).
      destruct (phase_a_skip cfg e s f t Hsrc) as (f' & Hf' & ->).
      rewrite (skip_ticks_same (b_dl s) (b_now s) _ _ Hg Hle' Hdiv').
      set (s' := upd s (b_now s) (skip_ticks (b_dl s) (b_now s) (Z.max tn (b_now s))) (b_ka s) (b_in s) (b_nka s)).
      pose proof (skip_ticks_gt (b_dl s) (b_now s) (Z.max tn (b_now s))) as Hgt.
      assert (Hin' : b_in s' = (t, b) :: r) by (unfold s'; cbn [upd b_in]; exact Hin).
      rewrite (phase_a_pop2 tn None None r t b f' s' 0%nat 0 Hin' ltac:(lia) ltac:(lia) ltac:(reflexivity) Hcm Hgt I).
      cbn [rst_of]. rewrite Hpop. change (b_now s') with (b_now s).
      destruct ev as [id body| |]; cbn [ev_in res_of_pop]; try reflexivity.
      eexists. split; [reflexivity|]. split; [reflexivity|]. split; [reflexivity|].
      cbn [upd b_in b_dl]. split; [apply Hrest; discriminate|]. split.
      + unfold s'. cbn [upd b_dl]. apply skip_ticks_grid. exact Hg.
      + rewrite Hsp. cbn [st_after]. apply incl_tl. apply incl_refl.
  Qed.

  (* ---------------------------------------------------------------------------------- *)
  (* Part E: the keep-alive loops on a calm stream                                       *)
  (* ---------------------------------------------------------------------------------- *)
  Lemma read_data2 loc hz s f t b r tn :
    b_in s = (t, b) :: r -> completes max RIdle tn ((t, b) :: r) = true -> same_cell t tn -> (P | b_dl s) ->
    hz_gt hz (Z.max t (b_now s)) -> (5 <= f)%nat ->
    match ticks_until e loc (b_now s) (b_dl s) (b_ka s) (b_nka s) (Z.max t (b_now s)) with
    | (tr, None) => phase_a cfg e (S (S f)) (Some loc) hz s 0 0 = (tr, REnd [])
    | (tr, Some (dl', ka', nka')) =>
        hz_gt hz (Z.max tn (b_now s)) ->
        phase_a cfg e (S (S f)) (Some loc) hz s 0 0
        = (tr ++ [], res_of_pop (Z.max tn (b_now s)) (upd s (Z.max tn (b_now s)) dl' ka' (b_in s) nka')
                       (pop max RIdle ((t, b) :: r)))
    end.
  Proof.
    intros Hin Hcm Hdiv Hg Hhz Hf5. set (T1 := Z.max t (b_now s)) in *.
    pose proof (completes_le max _ _ _ _ _ Hcm) as Hle.
    assert (Hsrc : tsrc s = Some t) by (unfold tsrc; rewrite Hin; reflexivity).
    assert (Hgov : forall s', same_in s s' -> b_now s <= b_now s' -> Z.max (b_dl s') (b_now s') <= T1 ->
                              hfirst hz s' = false /\ tfirst s' = true).
    { intros s' Hs Hn Hm.
      assert (Htin : tin_of s' = Some T1).
      { rewrite tin_of_tsrc, (tsrc_same _ _ Hs), Hsrc. f_equal. unfold T1 in *. lia. }
      split; [apply (hfirst_false hz s' T1 Htin Hhz)|].
      unfold tfirst. rewrite Htin. destruct (Z.leb_spec (Z.max (b_dl s') (b_now s')) T1); [reflexivity | lia]. }
    pose proof (ticks_sim cfg e loc hz T1 s f ltac:(unfold T1; lia) Hgov) as Hts.
    destruct (ticks_until e loc (b_now s) (b_dl s) (b_ka s) (b_nka s) T1) as [tr [[[dl' ka'] nka']|]] eqn:Etu; [|exact Hts].
    intros Hhz2.
    pose proof (ticks_until_grid e _ _ _ _ _ _ _ _ _ _ Hg Etu) as Hg'.
    destruct Hts as (s' & f' & Hs & Hd & Hk & Hn & Hnow' & Hdl & Hf & Hph).
    assert (Hin' : b_in s' = (t, b) :: r) by (destruct Hs as (Hs1 & _); rewrite Hs1; exact Hin).
    assert (HT : Z.max tn (b_now s') = Z.max tn (b_now s)) by (unfold T1 in *; lia).
    destruct (clamp_cell t tn (b_now s) Hle Hdiv) as [Hle' Hdiv']. fold T1 in Hle', Hdiv'.
    pose proof (grid_gt dl' T1 (Z.max tn (b_now s)) Hg' Hdl Hdiv') as Hdl2.
    rewrite (phase_a_pop2 tn (Some loc) hz r t b f' s' 0%nat 0 Hin') in Hph.
    - rewrite Hph, HT. f_equal. rewrite (res_of_pop_same _ s s' _ Hs), Hd, Hk, Hn. reflexivity.
    - lia.
    - lia.
    - reflexivity.
    - exact Hcm.
    - rewrite HT, Hd. exact Hdl2.
    - rewrite HT. exact Hhz2.
  Qed.

  Definition hsafe (hz : option Z) (sp : list (Z * Z)) (r : kres) : Prop :=
    match hz, r with
    | Some h, KDone _ => forall a b, In (a, b) sp -> ~ (a < h <= b)
    | _, _ => True
    end.

  Lemma hsafe_mono hz sp sp' r : incl sp' sp -> hsafe hz sp r -> hsafe hz sp' r.
  Proof.
    intros Hi H. destruct hz as [h|]; [|exact I]. destruct r; try exact I.
    cbn [hsafe] in *. intros a b Hin. apply H. apply Hi. exact Hin.
  Qed.

  Definition krel2 (sp : list (Z * Z)) (x : trace * kres) (y : trace * (list fv * st2 + st2 + unit)) : Prop :=
    fst x = fst y /\
    match snd x, snd y with
    | KGot vs s1, inl (inl (vs', s2)) => vs = vs' /\ s1 = abs max s2 /\ good s2 sp
    | KDone s1, inl (inr s2) => s1 = abs max s2 /\ good s2 sp
    | KEnd _, inr _ => True
    | _, _ => False
    end.

  Lemma good_mono s2 sp sp' : incl sp sp' -> good s2 sp -> good s2 sp'.
  Proof. intros Hi (H1 & H2 & H3). repeat split; try assumption. eapply incl_tran; eassumption. Qed.

  Lemma krel2_mono sp sp' x y : incl sp sp' -> krel2 sp x y -> krel2 sp' x y.
  Proof.
    intros Hi [H1 H2]. split; [exact H1|].
    destruct (snd x) as [vs s1|s1|o]; destruct (snd y) as [[[vs' s2]|s2]|u]; try exact H2.
    - destruct H2 as (A & B & C). repeat split; try assumption; apply (good_mono _ _ _ Hi C).
    - destruct H2 as (A & C). split; [exact A | apply (good_mono _ _ _ Hi C)].
  Qed.

  Lemma cut_sim2 info loc h s f ib :
    b_now s < h ->
    match tin_of s with Some t => h <= t | None => True end ->
    ib = stream_frames max RIdle (b_in s) (b_eof s) ->
    calm_s max RIdle 0 0 (b_in s) = true -> (P | b_dl s) ->
    krel2 (spans max RIdle 0 (b_in s))
      match ticks_until e loc (b_now s) (b_dl s) (b_ka s) (b_nka s) (h - 1) with
      | (tr, None) => (tr, KEnd (OErr KMissedKA))
      | (tr, Some (dl', ka', nka')) =>
          (tr, KDone {| s_now := Z.max (b_now s) h; s_dl := dl'; s_ka := ka'; s_in := ib;
                        s_nka := nka'; s_nnow := b_nnow s |})
      end
      (ka_loop2 cfg e (S f) info loc (Some h) s).
  Proof.
    intros Hnow Htin Hib Hc Hg. rewrite ka_loop2_S. unfold read_frame. rewrite fuel_of_shape.
    pose proof (read_cut cfg e loc h s (3 * length (b_in s) + 9) Hnow Htin) as Hrc.
    destruct (ticks_until e loc (b_now s) (b_dl s) (b_ka s) (b_nka s) (h - 1)) as [tr [[[dl' ka'] nka']|]] eqn:Etu.
    - pose proof (ticks_until_grid e _ _ _ _ _ _ _ _ _ _ Hg Etu) as Hg'.
      destruct Hrc as (s' & -> & (Hs1 & Hs2 & Hs3) & Hn & Hd & Hk & Hnk).
      split; [cbn [fst]; rewrite app_nil_r; reflexivity|]. cbn [snd].
      split.
      + unfold abs. rewrite Hs1, Hs2, Hs3, Hn, Hd, Hk, Hnk, Hib. f_equal. lia.
      + unfold good. rewrite Hs1, Hd. split; [exact Hc|]. split; [exact Hg' | apply incl_refl].
    - rewrite Hrc. split; [cbn [fst]; rewrite app_nil_r; reflexivity | exact I].
  Qed.

  Lemma ka_sim_calm info loc hz : forall fuel s,
    (length (b_in s) < fuel)%nat -> calm_s max RIdle 0 0 (b_in s) = true -> (P | b_dl s) -> hz_gt hz (b_now s) ->
    hsafe hz (spans max RIdle 0 (b_in s))
      (snd (ka_loop cfg e info loc hz (stream_frames max RIdle (b_in s) (b_eof s))
              (b_now s) (b_dl s) (b_ka s) (b_nka s) (b_nnow s))) ->
    krel2 (spans max RIdle 0 (b_in s))
         (ka_loop cfg e info loc hz (stream_frames max RIdle (b_in s) (b_eof s))
            (b_now s) (b_dl s) (b_ka s) (b_nka s) (b_nnow s))
         (ka_loop2 cfg e fuel info loc hz s).
  Proof.
    induction fuel as [|f IH]; intros s Hfuel Hc Hg Hhz Hsafe; [lia|].
    destruct (b_in s) as [|[t b] r] eqn:Hin.
    - destruct (b_eof s) as [te|] eqn:Heof; cbn [stream_frames eof_events map app].
      + rewrite ka_loop_cons.
        assert (Htin : tin_of s = Some (Z.max te (b_now s))) by (unfold tin_of; rewrite Hin, Heof; reflexivity).
        destruct (match hz with Some h => h <=? Z.max te (b_now s) | None => false end) eqn:Ebey.
        * destruct hz as [h|]; [|discriminate Ebey]. apply Z.leb_le in Ebey. cbn [hz_gt] in Hhz.
          pose proof (cut_sim2 info loc h s f [(te, IEof)] Hhz ltac:(rewrite Htin; exact Ebey)) as Hcs.
          rewrite Hin, Heof in Hcs. apply Hcs; [reflexivity | exact Hc | exact Hg].
        * assert (Hhz' : hz_gt hz (Z.max te (b_now s))).
          { destruct hz as [h|]; [|exact I]. apply Z.leb_gt in Ebey. exact Ebey. }
          rewrite ka_loop2_S. unfold read_frame. rewrite fuel_of_shape.
          pose proof (read_eof cfg e loc hz s (3 * length (b_in s) + 9) te Hin Heof Hhz') as Hre.
          destruct (ticks_until e loc (b_now s) (b_dl s) (b_ka s) (b_nka s) (Z.max te (b_now s))) as [tr [[[dl' ka'] nka']|]];
            rewrite Hre; (split; [cbn [fst]; rewrite ?app_nil_r; reflexivity | exact I]).
      + destruct hz as [h|].
        * rewrite ka_loop_nil_some. cbn [hz_gt] in Hhz.
          assert (Htin : match tin_of s with Some t => h <= t | None => True end)
            by (unfold tin_of; rewrite Hin, Heof; exact I).
          pose proof (cut_sim2 info loc h s f [] Hhz Htin) as Hcs.
          rewrite Hin, Heof in Hcs. apply Hcs; [reflexivity | exact Hc | exact Hg].
        * rewrite ka_loop_nil_none, ka_loop2_S. unfold read_frame. rewrite fuel_of_shape.
          pose proof (read_silent cfg e loc s (S (3 * length (b_in s) + 9)) Hin Heof) as Hrs.
          destruct (ticks_until e loc (b_now s) (b_dl s) (b_ka s) (b_nka s) (Z.max (b_now s) (b_dl s) + 2 * P)) as [tr [x|]];
            [contradiction|].
          rewrite Hrs. split; [cbn [fst]; rewrite app_nil_r; reflexivity | exact I].
    - (* a frame of the calm stream: first byte at t, last byte at tn *)
      destruct (pop_frames_calm max (b_eof s) r RIdle 0 0 t b ltac:(discriminate) Hc)
        as (ev & tn & rest & Hpop & Hcm & Hle & Hdiv & Hfr & Hsp & Hrest & Hlen).
      cbn [t_first] in Hdiv, Hsp.
      destruct (clamp_cell t tn (b_now s) Hle Hdiv) as [Hle' Hdiv'].
      rewrite Hfr in *. destruct (ev_in tn ev) as [t0 iev] eqn:Eev.
      assert (Ht0 : t0 = tn) by (destruct ev; cbn in Eev; injection Eev as <- _; reflexivity). subst t0.
      rewrite ka_loop_cons in *.
      assert (Htin : tin_of s = Some (Z.max t (b_now s))) by (apply (tin_of_cons s t b r Hin)).
      assert (Hin0 : b_in s = (t, b) :: r) by exact Hin.
      assert (Hc0 : calm_s max RIdle 0 0 (b_in s) = true) by (rewrite Hin; exact Hc).
      destruct (match hz with Some h => h <=? Z.max tn (b_now s) | None => false end) eqn:Ebey.
      + destruct hz as [h|]; [|discriminate Ebey]. apply Z.leb_le in Ebey. cbn [hz_gt] in Hhz.
        destruct (Z.le_gt_cases h (Z.max t (b_now s))) as [Hh1|Hh1].
        * (* the horizon comes before the first byte *)
          pose proof (cut_sim2 info loc h s f ((tn, iev) :: stream_frames max (st_after ev) rest (b_eof s)) Hhz
                        ltac:(rewrite Htin; exact Hh1)) as Hcs.
          rewrite Hin in Hcs. apply Hcs; [exact (eq_sym Hfr) | exact Hc | exact Hg].
        * (* the horizon falls inside the span: either a tick ends the connection first, or the
             schedule is not calm *)
          assert (Hcell : same_cell (Z.max t (b_now s)) (h - 1)).
          { pose proof (div_sandwich (Z.max t (b_now s)) (h - 1) (Z.max tn (b_now s)) ltac:(lia) Hdiv') as Hx.
            unfold same_cell in *. congruence. }
          rewrite <- (ticks_until_same e loc (b_now s) (b_dl s) (b_ka s) (b_nka s) (Z.max t (b_now s)) (h - 1) Hg ltac:(lia) Hcell) in *.
          rewrite ka_loop2_S. unfold read_frame. rewrite fuel_of_shape.
          pose proof (read_data2 loc (Some h) s (S (3 * length (b_in s) + 9)) t b r tn Hin0 Hcm Hdiv Hg Hh1 ltac:(lia)) as Hrd.
          destruct (ticks_until e loc (b_now s) (b_dl s) (b_ka s) (b_nka s) (Z.max t (b_now s))) as [tr [[[dl' ka'] nka']|]].
          -- exfalso. cbn [snd hsafe] in Hsafe. apply (Hsafe t tn).
             ++ rewrite Hsp. left. reflexivity.
             ++ lia.
          -- rewrite Hrd. split; [cbn [fst]; rewrite app_nil_r; reflexivity | exact I].
      + assert (Hhz' : hz_gt hz (Z.max tn (b_now s))).
        { destruct hz as [h|]; [|exact I]. apply Z.leb_gt in Ebey. exact Ebey. }
        assert (Hhz1 : hz_gt hz (Z.max t (b_now s))) by (destruct hz as [h|]; [cbn [hz_gt] in *; lia | exact I]).
        rewrite <- (ticks_until_same e loc (b_now s) (b_dl s) (b_ka s) (b_nka s) (Z.max t (b_now s)) (Z.max tn (b_now s)) Hg Hle' Hdiv') in *.
        rewrite ka_loop2_S. unfold read_frame. rewrite fuel_of_shape.
        pose proof (read_data2 loc hz s (S (3 * length (b_in s) + 9)) t b r tn Hin0 Hcm Hdiv Hg Hhz1 ltac:(lia)) as Hrd.
        destruct (ticks_until e loc (b_now s) (b_dl s) (b_ka s) (b_nka s) (Z.max t (b_now s))) as [tr [[[dl' ka'] nka']|]] eqn:Etu;
          [specialize (Hrd Hhz') | rewrite Hrd; split; [cbn [fst]; rewrite app_nil_r; reflexivity | exact I]].
        pose proof (ticks_until_grid e _ _ _ _ _ _ _ _ _ _ Hg Etu) as Hg'.
        rewrite Hrd, Hpop.
        destruct ev as [id body| |]; cbn [ev_in] in Eev; injection Eev as <-; cbn [res_of_pop].
        * cbn [upd b_ka b_now b_dl b_nka b_in].
          destruct (conf_frame cfg info ka' id body) as [ka''|vs|o].
          -- match goal with |- context [ka_loop2 cfg e f info loc hz ?x] => set (s3 := x) end.
             assert (Hlen3 : (length (b_in s3) < f)%nat) by (cbn [s3 upd b_in]; cbn [length] in Hfuel; lia).
             assert (Hc3 : calm_s max RIdle 0 0 (b_in s3) = true) by (cbn [s3 upd b_in]; apply Hrest; discriminate).
             assert (Hg3 : (P | b_dl s3)) by (cbn [s3 upd b_dl]; exact Hg').
             assert (Hhz3 : hz_gt hz (b_now s3)) by (cbn [s3 upd b_now]; exact Hhz').
             pose proof (IH s3 Hlen3 Hc3 Hg3 Hhz3) as Hrec.
             cbn [s3 upd b_in b_eof b_now b_dl b_ka b_nka b_nnow] in Hrec. cbn [st_after] in *.
             destruct (ka_loop cfg e info loc hz (stream_frames max RIdle rest (b_eof s)) (Z.max tn (b_now s)) dl' ka'' nka' (b_nnow s))
               as [tr2 r2].
             cbn [snd] in Hsafe, Hrec.
             assert (Hi : incl (spans max RIdle 0 rest) (spans max RIdle 0 ((t, b) :: r)))
               by (rewrite Hsp; apply incl_tl; apply incl_refl).
             specialize (Hrec (hsafe_mono _ _ _ _ Hi Hsafe)).
             apply (krel2_mono _ _ _ _ Hi) in Hrec.
             destruct (ka_loop2 cfg e f info loc hz s3) as [tr2' r2'].
             destruct Hrec as [Htr Hres]. cbn [fst snd] in *. subst tr2'.
             split; [cbn [fst]; rewrite app_nil_r; reflexivity | exact Hres].
          -- split; [cbn [fst]; rewrite app_nil_r; reflexivity|]. cbn [snd st_after].
             split; [reflexivity|]. split; [reflexivity|]. unfold good. cbn [upd b_in b_dl].
             split; [apply Hrest; discriminate|]. split; [exact Hg'|].
             rewrite Hsp. apply incl_tl. apply incl_refl.
          -- split; [cbn [fst]; rewrite app_nil_r; reflexivity | exact I].
        * split; [cbn [fst]; rewrite app_nil_r; reflexivity | exact I].
        * split; [cbn [fst]; rewrite app_nil_r; reflexivity | exact I].
  Qed.

  (* ---------------------------------------------------------------------------------- *)
  (* Part F: the handler program on a calm stream                                        *)
  (* ---------------------------------------------------------------------------------- *)
  (* no completion instant of [hs] inside a span of [sp] *)
  Definition hcalm (sp : list (Z * Z)) (hs : list Z) : Prop :=
    forall a b h, In (a, b) sp -> In h hs -> ~ (a < h <= b).

  Lemma hcalm_mono sp sp' hs hs' :
    incl sp' sp -> incl hs' hs -> hcalm sp hs -> hcalm sp' hs'.
  Proof. intros H1 H2 H a b h Ha Hh. apply (H a b h); [apply H1; exact Ha | apply H2; exact Hh]. Qed.

  Lemma res_times_app a b : res_times (a ++ b) = res_times a ++ res_times b.
  Proof.
    induction a as [|[t ev] a IH]; [reflexivity|]. destruct ev; cbn [app res_times]; rewrite ?IH; reflexivity.
  Qed.

  Lemma res_times_cons_incl x tr : incl (res_times tr) (res_times (x :: tr)).
  Proof. destruct x as [t ev]. destruct ev; cbn [res_times]; try apply incl_refl. apply incl_tl. apply incl_refl. Qed.

  Theorem exec_refines_calm : forall p s,
    calm_s max RIdle 0 0 (b_in s) = true -> (P | b_dl s) ->
    hcalm (spans max RIdle 0 (b_in s)) (horizons cfg e p (abs max s)) ->
    exec2 cfg e p s = exec cfg e p (abs max s).
  Proof.
    induction p as [o|k IH|loc k IH|loc c k IH|c k IH|pk vs k IH|ss k IH|w k IH|k IH]; intros s Hc Hg Hh.
    - reflexivity.
    - (* Expect *)
      cbn [exec2 exec horizons] in *. pose proof (read_none_calm s Hc Hg) as Hr.
      destruct (next_frame (abs max s)) as [[[t ev] s1]|].
      + destruct ev as [id body| |].
        * destruct Hr as (s2 & -> & -> & Hn & Hc2 & Hg2 & Hi2). cbn [app]. rewrite Hn.
          destruct (negb (len_ok cfg id body)); [reflexivity|]. f_equal. apply IH; [exact Hc2 | exact Hg2|].
          apply (hcalm_mono _ _ _ _ Hi2 (incl_refl _) Hh).
        * rewrite Hr. reflexivity.
        * rewrite Hr. reflexivity.
      + rewrite Hr. reflexivity.
    - (* WaitInfo *)
      cbn [exec2 exec horizons] in *.
      pose proof (ka_sim_calm true loc None (S (length (b_in s))) s (Nat.lt_succ_diag_r _) Hc Hg I I) as Hk.
      cbn [abs s_in s_now s_dl s_ka s_nka s_nnow] in *.
      destruct (ka_loop cfg e true loc None (stream_frames max RIdle (b_in s) (b_eof s))
                  (b_now s) (b_dl s) (b_ka s) (b_nka s) (b_nnow s)) as [tr1 r1].
      destruct (ka_loop2 cfg e (S (length (b_in s))) true loc None s) as [tr2 r2].
      destruct Hk as [Htr Hres]. cbn [fst snd] in Htr, Hres. subst tr2.
      destruct r1 as [vs1 s1|s1|o1]; destruct r2 as [[[vs2 s2]|s2]|u2]; try contradiction.
      + destruct Hres as (-> & -> & Hc2 & Hg2 & Hi2). f_equal. apply IH; [exact Hc2 | exact Hg2|].
        apply (hcalm_mono _ _ _ _ Hi2 (incl_refl _) Hh).
      + destruct Hres as (-> & _). reflexivity.
      + reflexivity.
    - (* Race *)
      cbn [exec2 exec horizons] in *. cbn [abs s_in s_now s_dl s_ka s_nka s_nnow] in *.
      destruct (e_res e c) as [r lat].
      assert (Hhz : hz_gt (Some (b_now s + Z.max lat 1)) (b_now s)) by (cbn [hz_gt]; lia).
      pose proof (ka_sim_calm false loc (Some (b_now s + Z.max lat 1)) (S (length (b_in s))) s (Nat.lt_succ_diag_r _) Hc Hg Hhz) as Hk.
      destruct (ka_loop cfg e false loc (Some (b_now s + Z.max lat 1)) (stream_frames max RIdle (b_in s) (b_eof s))
                  (b_now s) (b_dl s) (b_ka s) (b_nka s) (b_nnow s)) as [tr1 r1].
      assert (Hsafe : hsafe (Some (b_now s + Z.max lat 1)) (spans max RIdle 0 (b_in s)) r1).
      { destruct r1 as [vs1 s1|s1|o1]; cbn [hsafe]; try exact I.
        intros a b Hin. apply (Hh a b _ Hin). left. reflexivity. }
      specialize (Hk Hsafe).
      destruct (ka_loop2 cfg e (S (length (b_in s))) false loc (Some (b_now s + Z.max lat 1)) s) as [tr2 r2].
      destruct Hk as [Htr Hres]. cbn [fst snd] in Htr, Hres. subst tr2.
      destruct r1 as [vs1 s1|s1|o1]; destruct r2 as [[[vs2 s2]|s2]|u2]; try contradiction.
      + reflexivity.
      + destruct Hres as (-> & Hc2 & Hg2 & Hi2). f_equal. f_equal. apply IH; [exact Hc2 | exact Hg2|].
        apply (hcalm_mono _ _ _ _ Hi2 (incl_tl _ (incl_refl _)) Hh).
      + reflexivity.
    - (* Call *)
      cbn [exec2 exec horizons] in *. cbn [abs s_now] in *. destruct (e_res e c) as [r lat]. f_equal. f_equal.
      rewrite IH; [reflexivity | exact Hc | exact Hg | exact Hh].
    - cbn [exec2 exec horizons] in *. f_equal. apply IH; [exact Hc | exact Hg | exact Hh].
    - cbn [exec2 exec horizons] in *. f_equal. apply IH; [exact Hc | exact Hg | exact Hh].
    - cbn [exec2 exec horizons] in *. destruct w; cbn [abs s_now s_nka] in *; f_equal; apply IH; try assumption; exact Hh.
    - cbn [exec2 exec horizons] in *. cbn [abs s_now s_nnow] in *. f_equal. rewrite IH; [reflexivity | exact Hc | exact Hg | exact Hh].
  Qed.

  (* every race horizon is the instant of a TRes event of the run *)
  Lemma horizons_res_times : forall p s, incl (horizons cfg e p s) (res_times (exec cfg e p s)).
  Proof.
    induction p as [o|k IH|loc k IH|loc c k IH|c k IH|pk vs k IH|ss k IH|w k IH|k IH]; intros s; cbn [exec horizons].
    - apply incl_refl.
    - destruct (next_frame s) as [[[t ev] s1]|]; [|apply incl_nil_l].
      destruct ev as [id body| |]; try apply incl_nil_l.
      destruct (negb (len_ok cfg id body)); [apply incl_nil_l|]. cbn [res_times]. apply IH.
    - destruct (ka_loop cfg e true loc None (s_in s) (s_now s) (s_dl s) (s_ka s) (s_nka s) (s_nnow s)) as [tr [vs s'|s'|o]];
        try apply incl_nil_l.
      rewrite res_times_app. apply incl_appr. apply IH.
    - destruct (e_res e c) as [r lat].
      destruct (ka_loop cfg e false loc (Some (s_now s + Z.max lat 1)) (s_in s) (s_now s) (s_dl s) (s_ka s) (s_nka s) (s_nnow s))
        as [tr [vs s'|s'|o]]; try apply incl_nil_l.
      cbn [app res_times]. rewrite res_times_app. apply incl_appr. cbn [res_times].
      apply incl_cons; [left; reflexivity | apply incl_tl; apply IH].
    - destruct (e_res e c) as [r lat]. cbn [res_times]. apply incl_tl. apply IH.
    - cbn [res_times]. apply IH.
    - cbn [res_times]. apply IH.
    - destruct w; cbn [res_times]; apply IH.
    - cbn [res_times]. apply IH.
  Qed.
End ReadCalm.

(* ------------------------------------------------------------------------------------ *)
(* Part G: whole runs                                                                     *)
(* ------------------------------------------------------------------------------------ *)
Lemma hcalm_b_spec sp hs : hcalm_b sp hs = true -> hcalm sp hs.
Proof.
  unfold hcalm_b, hcalm. intros H a b h Ha Hh [H1 H2].
  rewrite forallb_forall in H. specialize (H (a, b) Ha). rewrite forallb_forall in H. specialize (H h Hh).
  cbn [fst snd] in H. destruct (Z.ltb_spec a h); destruct (Z.leb_spec h b); cbn in H; try discriminate; lia.
Qed.

Theorem refines_calm (o : oracles) (cfg : conn_cfg) (e : env) (s : segs) :
  calm o cfg e s = true ->
  run2 o cfg e s = run1 o cfg e (frames_of (cf_max_len cfg) s).
Proof.
  unfold calm. intros H. apply andb_prop in H. destruct H as [Hc Hh]. apply hcalm_b_spec in Hh.
  unfold run2, run1 in *. rewrite <- abs_init in *.
  apply exec_refines_calm.
  - unfold init2. destruct (bytes_of_segs s) as [l eo]. exact Hc.
  - unfold init2. destruct (bytes_of_segs s) as [l eo]. cbn [b_dl]. exists 0. reflexivity.
  - unfold init2 in *. destruct (bytes_of_segs s) as [l eo]. exact Hh.
Qed.

(* the coarser, trace-based condition implies the precise one *)
Lemma hcalm_b_incl sp hs hs' : incl hs' hs -> hcalm_b sp hs = true -> hcalm_b sp hs' = true.
Proof.
  unfold hcalm_b. intros Hi H. rewrite forallb_forall in *. intros ab Hab. specialize (H ab Hab).
  rewrite forallb_forall in *. intros h Hh. apply H. apply Hi. exact Hh.
Qed.

Theorem calm_tr_calm (o : oracles) (cfg : conn_cfg) (e : env) (s : segs) :
  calm_tr o cfg e s = true -> calm o cfg e s = true.
Proof.
  unfold calm_tr, calm. intros H. apply andb_prop in H. destruct H as [Hc Hh]. rewrite Hc. cbn [andb].
  apply (hcalm_b_incl _ _ _ (horizons_res_times cfg e (listen o cfg) (init1 (frames_of (cf_max_len cfg) s))) Hh).
Qed.

Theorem refines_calm_tr (o : oracles) (cfg : conn_cfg) (e : env) (s : segs) :
  calm_tr o cfg e s = true ->
  run2 o cfg e s = run1 o cfg e (frames_of (cf_max_len cfg) s).
Proof. intros H. apply refines_calm. apply calm_tr_calm. exact H. Qed.

(* frame-atomic schedules are calm, for every configuration, environment and oracle *)
Theorem atomic_calm (o : oracles) (cfg : conn_cfg) (e : env) (s : segs) :
  atomic (cf_max_len cfg) s = true -> calm o cfg e s = true.
Proof.
  intros H. pose proof (atomic_astream _ _ H) as Ha. unfold astream in Ha. unfold calm.
  rewrite (atomic_calm_s _ _ _ 0 0 Ha (Z.le_refl 0)). cbn [andb].
  unfold hcalm_b. apply forallb_forall. intros [a b] Hin. apply forallb_forall. intros h _.
  pose proof (atomic_spans _ _ _ _ a b Ha Hin) as ->. cbn [fst snd].
  destruct (Z.ltb_spec b h); destruct (Z.leb_spec h b); try reflexivity. lia.
Qed.

Theorem each_frame_once_calm (o : oracles) (cfg : conn_cfg) (e : env) (s : segs) :
  calm o cfg e s = true ->
  is_prefix (recvs (run2 o cfg e s)) (in_frames (frames_of (cf_max_len cfg) s)).
Proof.
  intros H. rewrite (refines_calm o cfg e s H). unfold run1.
  apply (exec_recvs cfg e (listen o cfg) (init1 (frames_of (cf_max_len cfg) s))).
Qed.

(* every property of frame-level runs holds of byte-level runs on calm schedules *)
Theorem transfer_calm (Q : trace -> Prop) (o : oracles) (cfg : conn_cfg) (e : env) :
  (forall ib, Q (run1 o cfg e ib)) ->
  forall s, calm o cfg e s = true -> Q (run2 o cfg e s).
Proof. intros HQ s H. rewrite (refines_calm o cfg e s H). apply HQ. Qed.

Print Assumptions refines_calm.
Print Assumptions refines_calm_tr.
Print Assumptions atomic_calm.
Print Assumptions each_frame_once_calm.
