(* static walk for the C03 monitor *)
From Passage Require Import Lib.Bytes Codec.VarInt Codec.Desc Gen.PacketsGen Gen.ConstsGen
  Codec.PacketCheck Crypto.Cookie Conn.Types Conn.Prog Conn.Sem1 Conn.Monitor Conn.MonitorProofs
  Conn.Order Conn.OrderProofs Conn.Checks Conn.ChecksProofs.

Theorem listen_c03_safe : forall o cfg, safe (step_with (chk_c03)) m_init (listen o cfg).
Proof.
  start o cfg.
  Time cwalk.
Qed.

Theorem c03_accepts : forall o cfg e ib, ok (step_with (chk_c03)) m_init (untime (run1 o cfg e ib)).
Proof. intros. unfold run1. apply safe_sound. apply listen_c03_safe. Qed.
