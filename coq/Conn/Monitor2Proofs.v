(* Soundness of [safe] for the byte-level semantics M2: if the static walk succeeds, the
   monitor accepts every M2 trace of the program - for every configuration, environment,
   every timed byte stream (however segmented), every placement of ticks and adapter
   completions, including those that make the handler drop a partly read frame. *)
From Passage Require Import Lib.Bytes Codec.VarInt Codec.Desc Codec.NoPanic Gen.PacketsGen Gen.ConstsGen
  Codec.PacketCheck Conn.Types Conn.Prog Conn.Sem1 Conn.Reader Conn.Sem2 Conn.Monitor Conn.MonitorProofs.

Section Sound2.
  Variable S : Type.
  Variable step : S -> tev -> option S.
  Variable cfg : conn_cfg.
  Variable e : env.

  Local Notation run := (run step).
  Local Notation ok := (ok step).

  Definition rres_fin (r : rres) : Prop :=
    match r with REnd fin => exists t o, fin = [(t, TEnd o)] /\ o <> OOk /\ o <> OErr KPanic | _ => True end.

  Lemma errs_end st t o : errs_ok step st -> o <> OOk -> o <> OErr KPanic -> ok st (untime [(t, TEnd o)]).
  Proof.
    intros He H1 H2. unfold Monitor.ok. cbn. specialize (He o H1 H2).
    destruct (step st (TEnd o)); [discriminate | exact He].
  Qed.

  (* one frame read: what it adds to the trace.  With the keep-alive mode on, the monitor state
     is a resting state of the loop; with it off, nothing is emitted at all. *)
  Lemma read_frame_f_ok info st fuel m hz :
    errs_ok step st ->
    (forall loc, m = Some loc -> ka_inv step info loc st) ->
    forall s,
    match read_frame_f cfg e fuel m hz s with
    | (tr, REnd fin) => ok st (untime (tr ++ fin))
    | (tr, _) => run st (untime tr) = Some st
    end.
  Proof.
    intros He Hm. induction fuel as [|f IH]; intros s; cbn [read_frame_f].
    - cbn [app]. apply errs_end; [exact He | discriminate | discriminate].
    - cbv zeta.
      match goal with |- context [if ?c then _ else _] => destruct c end.
      { destruct hz as [h|]; reflexivity. }
      match goal with |- context [if ?c then _ else _] => destruct c end.
      + destruct m as [loc|].
        * pose proof (tick_at_ok S step e info st loc (Z.max (b_dl s) (b_now s)) (b_dl s) (b_ka s) (b_nka s) (Hm loc eq_refl)) as Ht.
          destruct (tick_at e loc (Z.max (b_dl s) (b_now s)) (b_dl s) (b_ka s) (b_nka s)) as [tr [[[dl' ka'] nka']|]].
          -- specialize (IH (upd s (Z.max (b_dl s) (b_now s)) dl' ka' (b_in s) nka' (b_rd s))).
             destruct (read_frame_f cfg e f (Some loc) hz (upd s (Z.max (b_dl s) (b_now s)) dl' ka' (b_in s) nka' (b_rd s))) as [tr2 r].
             destruct r as [id body s'|s'|fin].
             ++ rewrite untime_app, run_app, Ht. exact IH.
             ++ rewrite untime_app, run_app, Ht. exact IH.
             ++ rewrite <- app_assoc, untime_app. unfold Monitor.ok. rewrite run_app, Ht. exact IH.
          -- rewrite app_nil_r. exact Ht.
        * destruct (match b_in s, b_eof s with
                    | (t, _) :: _, _ => Some (Z.max t (b_now s))
                    | [], Some te => Some (Z.max te (b_now s))
                    | [], None => None end) as [t|].
          -- apply IH.
          -- cbn [app]. apply errs_end; [exact He | discriminate | discriminate].
      + destruct (b_in s) as [|[t b] rest].
        * destruct (eof_events (b_rd s)) as [|[id body| |] evs]; try reflexivity;
            cbn [app]; (apply errs_end; [exact He | discriminate | discriminate]).
        * cbv zeta.
          destruct (feed_byte (cf_max_len cfg) (b_rd s) b) as [rd' [|[id body| |] evs]].
          -- apply IH.
          -- reflexivity.
          -- cbn [app]. apply errs_end; [exact He | discriminate | discriminate].
          -- cbn [app]. apply errs_end; [exact He | discriminate | discriminate].
  Qed.

  Lemma read_frame_ok info st m hz s :
    errs_ok step st ->
    (forall loc, m = Some loc -> ka_inv step info loc st) ->
    match read_frame cfg e m hz s with
    | (tr, REnd fin) => ok st (untime (tr ++ fin))
    | (tr, _) => run st (untime tr) = Some st
    end.
  Proof. intros He Hm. unfold read_frame. apply (read_frame_f_ok info); assumption. Qed.

  Lemma read_frame_none_nil hz s :
    forall tr r, read_frame cfg e None hz s = (tr, r) -> match r with REnd _ => True | _ => tr = [] end.
  Proof.
    unfold read_frame. generalize (fuel_of s) as fuel. intros fuel. revert s.
    induction fuel as [|f IH]; intros s tr r; cbn [read_frame_f].
    - intros H; inversion H; exact I.
    - cbv zeta.
      match goal with |- context [if ?c then _ else _] => destruct c end.
      { intros [= <- <-]. destruct hz; reflexivity. }
      match goal with |- context [if ?c then _ else _] => destruct c end.
      + destruct (match b_in s, b_eof s with
                  | (t, _) :: _, _ => Some (Z.max t (b_now s))
                  | [], Some te => Some (Z.max te (b_now s))
                  | [], None => None end) as [t|].
        * apply IH.
        * intros H; inversion H; exact I.
      + destruct (b_in s) as [|[t b] rest].
        * destruct (eof_events (b_rd s)) as [|[id body| |] evs]; intros H; inversion H; try exact I; reflexivity.
        * cbv zeta.
          destruct (feed_byte (cf_max_len cfg) (b_rd s) b) as [rd' [|[id body| |] evs]].
          -- apply IH.
          -- intros [= <- <-]. reflexivity.
          -- intros H; inversion H; exact I.
          -- intros H; inversion H; exact I.
  Qed.

  (* what the keep-alive loop contributes to the trace *)
  Lemma ka_loop2_ok info loc st :
    ka_inv step info loc st ->
    (info = true -> forall body, exists st', step st (TRecv ci_id body) = Some st' /\ errs_ok step st') ->
    forall hz fuel s,
    match ka_loop2 cfg e fuel info loc hz s with
    | (tr, inl (inl (vs, s'))) => info = true /\ exists pre body rest, untime tr = pre ++ [TRecv ci_id body] /\ run st pre = Some st
                                   /\ dec vi vl (rkinds configuration_sb_ClientInformationPacket) body = Ok vs rest
    | (tr, inl (inr s')) => run st (untime tr) = Some st
    | (tr, inr _) => ok st (untime tr)
    end.
  Proof.
    intros Hinv Hci hz fuel. induction fuel as [|f IH]; intros s; cbn [ka_loop2].
    - destruct Hinv as (_ & He & _). apply errs_end; [exact He | discriminate | discriminate].
    - assert (He : errs_ok step st) by (destruct Hinv as (_ & He & _); exact He).
      pose proof (read_frame_ok info st (Some loc) hz s He) as Hr.
      assert (Hm : forall loc0, Some loc = Some loc0 -> ka_inv step info loc0 st) by (intros ? H; inversion H; subst; exact Hinv).
      specialize (Hr Hm).
      destruct (read_frame cfg e (Some loc) hz s) as [tr [id body s'|s'|fin]].
      + destruct (conf_frame cfg info (b_ka s') id body) as [ka''|vs|o] eqn:Hcf.
        * specialize (IH (upd s' (b_now s') (b_dl s') ka'' (b_in s') (b_nka s') (b_rd s'))).
          destruct (ka_loop2 cfg e f info loc hz (upd s' (b_now s') (b_dl s') ka'' (b_in s') (b_nka s') (b_rd s'))) as [tr2 r].
          assert (Hint : internal info (TRecv id body) = true).
          { unfold internal. destruct info; [|reflexivity].
            destruct (Z.eqb_spec id ci_id) as [->|]; [|reflexivity]. exfalso.
            unfold conf_frame in Hcf. destruct (negb (len_ok cfg ci_id body)); [discriminate|].
            unfold ci_id in Hcf.
            destruct (p_id configuration_sb_ClientInformationPacket =? p_id configuration_sb_KeepAlivePacket) eqn:E;
              [vm_compute in E; discriminate|].
            rewrite Z.eqb_refl in Hcf.
            destruct (dec vi vl (rkinds configuration_sb_ClientInformationPacket) body); discriminate. }
          assert (Hrecv : run st (untime tr ++ [TRecv id body]) = Some st).
          { rewrite run_app, Hr. cbn. destruct Hinv as [Hi _]. rewrite (Hi _ Hint). reflexivity. }
          replace (untime (tr ++ (b_now s', TRecv id body) :: tr2))
            with ((untime tr ++ [TRecv id body]) ++ untime tr2)
            by (rewrite untime_app; cbn [untime map snd]; rewrite <- app_assoc; reflexivity).
          destruct r as [[[vs s'']|s'']|u].
          -- destruct IH as (Hinfo & pre & b & rst & Hu & Hp & Hd). split; [exact Hinfo|].
             exists ((untime tr ++ [TRecv id body]) ++ pre), b, rst. split; [|split].
             ++ rewrite Hu, app_assoc. reflexivity.
             ++ rewrite run_app, Hrecv. exact Hp.
             ++ exact Hd.
          -- rewrite run_app, Hrecv. exact IH.
          -- unfold Monitor.ok. rewrite run_app, Hrecv. exact IH.
        * destruct (conf_frame_info cfg _ _ _ _ _ Hcf) as (-> & -> & rst & Hd). split; [reflexivity|].
          exists (untime tr), body, rst. split; [rewrite untime_app; reflexivity | split; [exact Hr | exact Hd]].
        * rewrite untime_app. apply ok_app_some; [exact Hr|].
          cbn [untime map snd]. unfold Monitor.ok. cbn [Monitor.run].
          destruct (internal info (TRecv id body)) eqn:Hint.
          -- destruct Hinv as (Hi & He' & _). rewrite (Hi _ Hint).
             destruct (conf_frame_end _ _ _ _ _ _ Hcf) as [H1 H2].
             specialize (He' o H1 H2). destruct (step st (TEnd o)); [discriminate | exact He'].
          -- unfold internal in Hint. destruct info; [|discriminate].
             destruct (Z.eqb_spec id ci_id) as [->|]; [|discriminate].
             destruct (Hci eq_refl body) as (st' & Hs & He').
             change (map snd [(b_now s', TRecv ci_id body); (b_now s', TEnd o)]) with [TRecv ci_id body; TEnd o].
             cbn [Monitor.run]. rewrite Hs.
             destruct (conf_frame_end _ _ _ _ _ _ Hcf) as [H1 H2].
             specialize (He' o H1 H2). destruct (step st' (TEnd o)); [discriminate | exact He'].
      + exact Hr.
      + exact Hr.
  Qed.

  Theorem safe_sound2 : forall p st s, safe step st p -> ok st (untime (exec2 cfg e p s)).
  Proof.
    induction p as [o|k IH|loc k IH|loc c k IH|c k IH|pk vs k IH|ss k IH|w k IH|k IH]; intros st s Hs; cbn [safe exec2] in *.
    - unfold Monitor.ok. cbn. destruct (step st (TEnd o)); [discriminate | exact Hs].
    - (* Expect *)
      destruct Hs as [He Hk].
      pose proof (read_frame_ok false st None None s He) as Hr.
      assert (Hm : forall loc0, @None (option bytes) = Some loc0 -> ka_inv step false loc0 st) by discriminate.
      specialize (Hr Hm).
      pose proof (read_frame_none_nil None s) as Hn.
      destruct (read_frame cfg e None None s) as [tr [id body s'|s'|fin]].
      + specialize (Hn _ _ eq_refl). cbn in Hn. subst tr. cbn [app].
        specialize (Hk id body). destruct (step st (TRecv id body)) as [st'|] eqn:Hst; [|contradiction].
        destruct Hk as [He' Hk].
        destruct (negb (len_ok cfg id body)).
        * unfold Monitor.ok. cbn. rewrite Hst.
          destruct (step st' (TEnd (OErr KIllegalLen))); [discriminate | exact He'].
        * unfold Monitor.ok. cbn [untime map snd Monitor.run]. rewrite Hst. apply IH. exact Hk.
      + rewrite untime_app. apply ok_app_some; [exact Hr|]. apply errs_end; [exact He | discriminate | discriminate].
      + exact Hr.
    - (* WaitInfo *)
      destruct Hs as [Hinv Hk].
      assert (Hci : true = true -> forall body, exists st', step st (TRecv ci_id body) = Some st' /\ errs_ok step st').
      { intros _ body. specialize (Hk body). destruct (step st (TRecv ci_id body)) as [st'|]; [|contradiction].
        exists st'. split; [reflexivity|]. destruct Hk as [He _]. exact He. }
      pose proof (ka_loop2_ok true loc st Hinv Hci None ((length (b_in s) + 3)%nat) s) as Hl.
      destruct (ka_loop2 cfg e ((length (b_in s) + 3)%nat) true loc None s) as [tr [[[vs s']|s']|u]].
      + destruct Hl as (_ & pre & body & rst & Hu & Hp & Hd). rewrite untime_app, Hu.
        unfold Monitor.ok. rewrite !run_app, Hp. cbn [Monitor.run].
        specialize (Hk body). destruct (step st (TRecv ci_id body)) as [st'|]; [|contradiction].
        destruct Hk as [_ Hk]. apply IH. apply (Hk vs rst Hd).
      + rewrite untime_app. apply ok_app_some; [exact Hl|].
        destruct Hinv as (_ & He & _). apply errs_end; [exact He | discriminate | discriminate].
      + exact Hl.
    - (* Race *)
      destruct (e_res e c) as [r lat].
      destruct (step st (TCall c)) as [st1|] eqn:Hc; [|contradiction].
      destruct Hs as [Hinv Hk].
      assert (Hci : false = true -> forall body, exists st', step st1 (TRecv ci_id body) = Some st' /\ errs_ok step st')
        by discriminate.
      pose proof (ka_loop2_ok false loc st1 Hinv Hci (Some (b_now s + Z.max lat 1)) ((length (b_in s) + 3)%nat) s) as Hl.
      destruct (ka_loop2 cfg e ((length (b_in s) + 3)%nat) false loc (Some (b_now s + Z.max lat 1)) s) as [tr [[[vs s']|s']|u]].
      + destruct Hl as (Hf & _). discriminate.
      + unfold Monitor.ok. cbn [untime map snd app Monitor.run]. rewrite Hc.
        rewrite map_app. change (map snd tr) with (untime tr). rewrite run_app, Hl.
        cbn [map snd Monitor.run]. specialize (Hk r).
        destruct (step st1 (TRes c r)) as [st2|]; [|contradiction]. apply IH. exact Hk.
      + unfold Monitor.ok. cbn [untime map snd Monitor.run]. rewrite Hc. exact Hl.
    - (* Call *)
      destruct (e_res e c) as [r lat].
      destruct (step st (TCall c)) as [st1|] eqn:Hc; [|contradiction].
      specialize (Hs r). unfold Monitor.ok. cbn [untime map snd Monitor.run]. rewrite Hc.
      destruct (step st1 (TRes c r)) as [st2|]; [|contradiction]. apply IH. exact Hs.
    - unfold Monitor.ok. cbn [untime map snd Monitor.run].
      destruct (step st (TSend pk vs)) as [st'|]; [|contradiction]. apply IH. exact Hs.
    - unfold Monitor.ok. cbn [untime map snd Monitor.run].
      destruct (step st (TEnc ss)) as [st'|]; [|contradiction]. apply IH. exact Hs.
    - destruct w; unfold Monitor.ok; cbn [untime map snd Monitor.run];
        match goal with |- context [TFresh ?w ?v] => specialize (Hs v); destruct (step st (TFresh w v)); [|contradiction] end;
        apply IH; exact Hs.
    - unfold Monitor.ok. cbn [untime map snd Monitor.run].
      specialize (Hs (e_now e (b_nnow s))).
      destruct (step st (TNow (e_now e (b_nnow s)))) as [st'|]; [|contradiction]. apply IH. exact Hs.
  Qed.
End Sound2.
