(* Theorems about M3 (Conn/Sem3.v), the byte-level model with a transport that may refuse writes,
   the missed-keep-alive verdict state and a localization adapter that may suspend.

   T1  calm = M2: with unlimited room, no schedule and a localize() that does not suspend, the
       events of M3 are those of M2, no call is abandoned, and the wire carries exactly the
       frames of the packets sent, in order.
   T2  frames intact, FIFO: for EVERY room, schedule, latency and input the bytes the transport
       accepted are a prefix of the concatenation of the frames of the packets sent, in order.
   T3  soundness of the predicate transformer [safe] for M3: every monitor theorem proved by a
       static walk transfers to every M3 trace.
   T4  the verdict stands: after the timeout localize call only its result, one configuration
       Disconnect and the end may follow. *)
From Passage Require Import Lib.Bytes Codec.VarInt Codec.Desc Codec.NoPanic Gen.PacketsGen Gen.ConstsGen
  Codec.PacketCheck Conn.Types Conn.Prog Conn.Sem1 Conn.Reader Conn.Sem2 Conn.Sem3
  Conn.Monitor Conn.MonitorProofs Conn.Monitor2Proofs Conn.Order Conn.OrderProofs Conn.Checks
  Conn.Walk_C01 Conn.Walk_C02 Conn.Walk_C03 Conn.Walk_C06 Conn.Walk_C10 Conn.Switch Conn.SwitchProofs.

(* ---------- the projections of the output distribute over concatenation ---------- *)
Lemma trace_of_app a b : trace_of (a ++ b) = trace_of a ++ trace_of b.
Proof. induction a as [|[ev|t bs|t c] a IH]; cbn [app trace_of]; [reflexivity | rewrite IH; reflexivity | exact IH | exact IH]. Qed.

Lemma wire_of_app a b : wire_of (a ++ b) = wire_of a ++ wire_of b.
Proof. induction a as [|[ev|t bs|t c] a IH]; cbn [app wire_of]; [reflexivity | exact IH | rewrite IH; reflexivity | exact IH]. Qed.

Lemma abandoned_of_app a b : abandoned_of (a ++ b) = abandoned_of a ++ abandoned_of b.
Proof. induction a as [|[ev|t bs|t c] a IH]; cbn [app abandoned_of]; [reflexivity | exact IH | exact IH | rewrite IH; reflexivity]. Qed.

(* the bytes the transport accepted, in order *)
Definition wbytes (o : list oev) : bytes := concat (map snd (wire_of o)).

Lemma wbytes_app a b : wbytes (a ++ b) = wbytes a ++ wbytes b.
Proof. unfold wbytes. rewrite wire_of_app, map_app, concat_app. reflexivity. Qed.

Lemma wbytes_ot ev o : wbytes (OT ev :: o) = wbytes o.
Proof. reflexivity. Qed.

Lemma wbytes_ow t b o : wbytes (OW t b :: o) = b ++ wbytes o.
Proof. reflexivity. Qed.

(* the frames of the packets a trace sends, in order *)
Definition frame_of (encf : packet -> list fv -> option bytes) (ev : timed) : bytes :=
  match snd ev with TSend pk vs => frame_bytes encf pk vs | _ => [] end.
Definition fbytes (encf : packet -> list fv -> option bytes) (tr : trace) : bytes :=
  concat (map (frame_of encf) tr).

Lemma fbytes_app encf a b : fbytes encf (a ++ b) = fbytes encf a ++ fbytes encf b.
Proof. unfold fbytes. rewrite map_app, concat_app. reflexivity. Qed.

Lemma fbytes_cons encf ev tr : fbytes encf (ev :: tr) = frame_of encf ev ++ fbytes encf tr.
Proof. reflexivity. Qed.

(* ---------- flush: what it writes and what it leaves ---------- *)
Lemma flush_f_spec fuel hz : forall s,
  trace_of (fst (fst (flush_f fuel hz s))) = []
  /\ abandoned_of (fst (fst (flush_f fuel hz s))) = []
  /\ wbytes (fst (fst (flush_f fuel hz s))) ++ c_unsent (snd (fst (flush_f fuel hz s))) = c_unsent s
  /\ c_missed (snd (fst (flush_f fuel hz s))) = c_missed s
  /\ (snd (flush_f fuel hz s) = FlDone -> c_unsent (snd (fst (flush_f fuel hz s))) = [])
  /\ (snd (flush_f fuel hz s) = FlCut -> hz <> None).
Proof.
  induction fuel as [|f IH]; intros s; cbn [flush_f].
  - cbn [fst snd trace_of abandoned_of wbytes wire_of map concat app].
    repeat split; try reflexivity; discriminate.
  - destruct (c_unsent s) as [|b0 u] eqn:Hu.
    { cbn [fst snd trace_of abandoned_of wbytes wire_of map concat app]. rewrite Hu.
      repeat split; try reflexivity; discriminate. }
    destruct (absorb (now3 s) (c_cap s) (c_sch s)) as [cap sch].
    destruct cap as [n|].
    + destruct (0 <? n).
      * match goal with |- context [flush_f f hz ?s1] => specialize (IH s1); destruct (flush_f f hz s1) as [[o s'] r] end.
        cbn [fst snd trace_of abandoned_of c_unsent c_missed] in *.
        destruct IH as (H1 & H2 & H3 & H4 & H5 & H6).
        repeat split; try assumption.
        rewrite wbytes_ow, <- app_assoc, H3. apply firstn_skipn.
      * destruct sch as [|[te c] sch'].
        -- destruct hz as [h|]; cbn [fst snd trace_of abandoned_of wbytes wire_of map concat app at_time set2 c_unsent c_missed];
             (repeat split; try reflexivity; try discriminate).
        -- destruct hz as [h|].
           ++ destruct (h <=? te).
              ** cbn [fst snd trace_of abandoned_of wbytes wire_of map concat app at_time set2 c_unsent c_missed].
                 repeat split; try reflexivity; try discriminate.
              ** match goal with |- context [flush_f f ?hh ?s1] => specialize (IH s1); destruct (flush_f f hh s1) as [[o s'] r] end.
                 cbn [fst snd at_time set2 c_unsent c_missed] in *. exact IH.
           ++ match goal with |- context [flush_f f ?hh ?s1] => specialize (IH s1); destruct (flush_f f hh s1) as [[o s'] r] end.
              cbn [fst snd at_time set2 c_unsent c_missed] in *. exact IH.
    + cbn [fst snd trace_of abandoned_of wbytes wire_of map concat app c_unsent c_missed snd].
      rewrite ?app_nil_r. repeat split; try reflexivity; discriminate.
Qed.

Lemma flush_spec hz s : forall o s' r, flush hz s = (o, s', r) ->
  trace_of o = [] /\ abandoned_of o = [] /\ wbytes o ++ c_unsent s' = c_unsent s /\ c_missed s' = c_missed s
  /\ (r = FlDone -> c_unsent s' = []) /\ (r = FlCut -> hz <> None).
Proof.
  intros o s' r H. unfold flush in H.
  pose proof (flush_f_spec (2 * length (c_sch s) + 3) hz s) as Hs. rewrite H in Hs. exact Hs.
Qed.

(* ================= T1: the calm transport is M2 ================= *)
Definition calm (s : st3) : Prop :=
  c_cap s = None /\ c_sch s = [] /\ c_unsent s = [] /\ c_missed s = MNo.

Lemma flush_calm hz s : c_cap s = None -> c_sch s = [] ->
  exists o s', flush hz s = (o, s', FlDone)
    /\ c2 s' = c2 s /\ c_cap s' = None /\ c_sch s' = [] /\ c_unsent s' = [] /\ c_missed s' = c_missed s
    /\ trace_of o = [] /\ abandoned_of o = [] /\ wbytes o = c_unsent s.
Proof.
  intros Hc Hs. unfold flush. rewrite Hs. cbn [length Nat.mul Nat.add flush_f].
  destruct (c_unsent s) as [|b0 u] eqn:Hu.
  - exists [], s. rewrite Hu. repeat split; assumption.
  - rewrite Hc, Hs. cbn [absorb].
    eexists; eexists. split; [reflexivity|].
    cbn [c2 c_cap c_sch c_unsent c_missed trace_of abandoned_of wbytes wire_of map snd concat].
    rewrite app_nil_r. repeat split; reflexivity.
Qed.

(* an M3 output that is an M2 trace: same events, nothing abandoned, the wire carries the frames *)
Definition sim (encf : packet -> list fv -> option bytes) (o : list oev) (tr : trace) : Prop :=
  trace_of o = tr /\ abandoned_of o = [] /\ wbytes o = fbytes encf tr.

Lemma sim_nil encf : sim encf [] [].
Proof. repeat split. Qed.

Lemma sim_app encf o1 t1 o2 t2 : sim encf o1 t1 -> sim encf o2 t2 -> sim encf (o1 ++ o2) (t1 ++ t2).
Proof.
  intros (A1 & B1 & C1) (A2 & B2 & C2). unfold sim.
  rewrite trace_of_app, abandoned_of_app, wbytes_app, fbytes_app, A1, A2, B1, B2, C1, C2. repeat split.
Qed.

Lemma sim_ot encf ev : frame_of encf ev = [] -> sim encf [OT ev] [ev].
Proof. intros H. unfold sim, fbytes. cbn [trace_of abandoned_of wbytes wire_of map concat]. rewrite H. repeat split. Qed.

Lemma sim_cons encf ev o tr : frame_of encf ev = [] -> sim encf o tr -> sim encf (OT ev :: o) (ev :: tr).
Proof. intros H Hs. apply (sim_app encf [OT ev] [ev] o tr); [apply sim_ot; exact H | exact Hs]. Qed.

(* a packet sent and flushed at once *)
Lemma sim_send encf t pk vs o :
  trace_of o = [] -> abandoned_of o = [] -> wbytes o = frame_bytes encf pk vs ->
  sim encf (OT (t, TSend pk vs) :: o) [(t, TSend pk vs)].
Proof.
  intros H1 H2 H3. unfold sim, fbytes. cbn [trace_of abandoned_of map concat frame_of snd].
  rewrite wbytes_ot, H1, H2, H3, app_nil_r. repeat split.
Qed.

Section Calm.
  Variable cfg : conn_cfg.
  Variable e : env.
  Variable encf : packet -> list fv -> option bytes.

  Local Notation sim := (sim encf).

  Lemma calm_set2 s x : calm s -> calm (set2 s x).
  Proof. intros H. exact H. Qed.

  Lemma tick3_calm loc hz s tt : calm s ->
    exists o r, tick3 e encf 0 loc hz s tt = (o, r)
      /\ sim o (fst (tick_at e loc tt (b_dl (c2 s)) (b_ka (c2 s)) (b_nka (c2 s))))
      /\ match snd (tick_at e loc tt (b_dl (c2 s)) (b_ka (c2 s)) (b_nka (c2 s))) with
         | None => r = TkEnd
         | Some (dl', ka', nka') =>
             exists s', r = TkCont s' /\ calm s'
                        /\ c2 s' = upd (c2 s) tt dl' ka' (b_in (c2 s)) nka' (b_rd (c2 s))
         end.
  Proof.
    intros (Hc & Hs & Hu & Hm). unfold tick3, tick_at.
    destruct (b_ka (c2 s)) as [kid|].
    - (* the verdict; localize() does not suspend, the Disconnect is written at once *)
      unfold verdict. cbn [c_missed set_missed Z.ltb Z.compare andb].
      assert (Hcut : match hz with Some h => false | None => false end = false) by (destruct hz; reflexivity).
      rewrite Hcut. clear Hcut.
      cbn [now3 at_time set_missed set2 c2 upd b_now Z.max Z.compare]. rewrite Z.add_0_r.
      destruct (fst (e_res e (CLocalize loc key_timeout))) as [json|n u ps|ts|t|msg|] eqn:Hr;
        try (eexists; eexists; split; [reflexivity|]; cbn [fst snd]; split; [|reflexivity];
             repeat (apply sim_cons; [reflexivity|]); apply sim_nil).
      match goal with |- context [flush hz ?s1] =>
        destruct (flush_calm hz s1) as (o & s2 & Hf & H2 & _ & _ & _ & _ & Ht & Ha & Hw);
          [exact Hc | exact Hs | rewrite Hf] end.
      eexists; eexists; split; [reflexivity|]. cbn [fst snd]. split; [|reflexivity].
      unfold now3. rewrite H2. cbn [enqueue at_time set_missed set2 c2 upd b_now].
      cbn [enqueue at_time set_missed set2 c_unsent] in Hw. rewrite Hu in Hw. cbn [app] in Hw.
      apply sim_cons; [reflexivity|]. apply sim_cons; [reflexivity|]. apply sim_cons; [reflexivity|].
      change [(tt, TSend configuration_cb_DisconnectPacket [VB msg]); (tt, TEnd (OErr KMissedKA))]
        with ([(tt, TSend configuration_cb_DisconnectPacket [VB msg])] ++ [(tt, TEnd (OErr KMissedKA))]).
      change (OT (tt, TSend configuration_cb_DisconnectPacket [VB msg]) :: o ++ [OT (tt, TEnd (OErr KMissedKA))])
        with ((OT (tt, TSend configuration_cb_DisconnectPacket [VB msg]) :: o) ++ [OT (tt, TEnd (OErr KMissedKA))]).
      apply sim_app; [apply sim_send; assumption | apply sim_ot; reflexivity].
    - match goal with |- context [flush hz ?s1] =>
        destruct (flush_calm hz s1) as (o & s2 & Hf & H2 & H3 & H4 & H5 & H6 & Ht & Ha & Hw);
          [exact Hc | exact Hs | rewrite Hf] end.
      eexists; eexists; split; [reflexivity|]. cbn [fst snd].
      cbn [enqueue set2 c_unsent] in Hw. rewrite Hu in Hw. cbn [app] in Hw.
      split.
      + apply sim_cons; [reflexivity|]. apply sim_cons; [reflexivity|]. apply sim_send; assumption.
      + exists s2. split; [reflexivity|]. split.
        * unfold calm. rewrite H6. cbn [enqueue set2 c_missed]. repeat split; assumption.
        * rewrite H2. reflexivity.
  Qed.

  Definition rrel (r : rres) (r3 : rres3) : Prop :=
    match r with
    | RGot id body x' => exists s', r3 = R3Got id body s' /\ calm s' /\ c2 s' = x'
    | RCut x' => exists s', r3 = R3Cut s' /\ calm s' /\ c2 s' = x'
    | REnd fin => exists fin3, r3 = R3End fin3 /\ sim fin3 fin
    end.

  Lemma sim_end t o : sim [OT (t, TEnd o)] [(t, TEnd o)].
  Proof. apply sim_ot. reflexivity. Qed.

  Lemma read_frame3_f_calm fuel m hz : forall s, calm s ->
    exists o r3, read_frame3_f cfg e encf 0 fuel m hz s = (o, r3)
      /\ sim o (fst (read_frame_f cfg e fuel m hz (c2 s)))
      /\ rrel (snd (read_frame_f cfg e fuel m hz (c2 s))) r3.
  Proof.
    induction fuel as [|f IH]; intros s Hcalm; cbn [read_frame_f read_frame3_f].
    - eexists; eexists; split; [reflexivity|]. cbn [fst snd rrel]. split; [apply sim_nil|].
      eexists; split; [reflexivity | apply sim_end].
    - cbv zeta.
      match goal with |- context [if ?c then _ else _] => destruct c end.
      { eexists; eexists; split; [reflexivity|]. cbn [fst snd]. split; [apply sim_nil|].
        destruct hz as [h|]; cbn [rrel].
        - eexists; split; [reflexivity|]. split; [exact Hcalm | reflexivity].
        - exists s. split; [reflexivity|]. split; [exact Hcalm | reflexivity]. }
      match goal with |- context [if ?c then _ else _] => destruct c end.
      + destruct m as [loc|].
        * destruct (tick3_calm loc hz s (Z.max (b_dl (c2 s)) (b_now (c2 s))) Hcalm) as (o & r & Ht & Hsim & Hr).
          rewrite Ht.
          destruct (tick_at e loc (Z.max (b_dl (c2 s)) (b_now (c2 s))) (b_dl (c2 s)) (b_ka (c2 s)) (b_nka (c2 s)))
            as [tr [[[dl' ka'] nka']|]]; cbn [fst snd] in Hsim, Hr.
          -- destruct Hr as (s' & -> & Hc' & H2').
             destruct (IH s' Hc') as (o2 & r3 & Hrf & Hsim2 & Hrel). rewrite Hrf. rewrite H2' in Hsim2, Hrel.
             destruct (read_frame_f cfg e f (Some loc) hz
                         (upd (c2 s) (Z.max (b_dl (c2 s)) (b_now (c2 s))) dl' ka' (b_in (c2 s)) nka' (b_rd (c2 s)))) as [tr2 r2].
             eexists; eexists; split; [reflexivity|]. cbn [fst snd] in *. split; [apply sim_app; assumption | exact Hrel].
          -- subst r. eexists; eexists; split; [reflexivity|]. cbn [fst snd rrel]. split; [exact Hsim|].
             exists []. split; [reflexivity | apply sim_nil].
        * destruct (match b_in (c2 s), b_eof (c2 s) with
                    | (t, _) :: _, _ => Some (Z.max t (b_now (c2 s)))
                    | [], Some te => Some (Z.max te (b_now (c2 s)))
                    | [], None => None end) as [t|].
          -- match goal with |- context [read_frame3_f cfg e encf 0 f None hz ?s1] =>
               destruct (IH s1 (calm_set2 s _ Hcalm)) as (o2 & r3 & Hrf & Hsim2 & Hrel) end.
             exists o2, r3. split; [exact Hrf|]. split; [exact Hsim2 | exact Hrel].
          -- eexists; eexists; split; [reflexivity|]. cbn [fst snd rrel]. split; [apply sim_nil|].
             eexists; split; [reflexivity | apply sim_end].
      + destruct (b_in (c2 s)) as [|[t b] rest].
        * destruct (eof_events (b_rd (c2 s))) as [|[id body| |] evs];
            (eexists; eexists; split; [reflexivity|]; cbn [fst snd rrel]; split; [apply sim_nil|]);
            try (eexists; split; [reflexivity | apply sim_end]).
          eexists; split; [reflexivity|]. split; [apply calm_set2; exact Hcalm | reflexivity].
        * cbv zeta.
          destruct (feed_byte (cf_max_len cfg) (b_rd (c2 s)) b) as [rd' [|[id body| |] evs]].
          -- match goal with |- context [read_frame3_f cfg e encf 0 f m hz ?s1] =>
               destruct (IH s1 (calm_set2 s _ Hcalm)) as (o2 & r3 & Hrf & Hsim2 & Hrel) end.
             exists o2, r3. split; [exact Hrf|]. split; [exact Hsim2 | exact Hrel].
          -- eexists; eexists; split; [reflexivity|]. cbn [fst snd rrel]. split; [apply sim_nil|].
             eexists; split; [reflexivity|]. split; [apply calm_set2; exact Hcalm | reflexivity].
          -- eexists; eexists; split; [reflexivity|]. cbn [fst snd rrel]. split; [apply sim_nil|].
             eexists; split; [reflexivity | apply sim_end].
          -- eexists; eexists; split; [reflexivity|]. cbn [fst snd rrel]. split; [apply sim_nil|].
             eexists; split; [reflexivity | apply sim_end].
  Qed.

  Lemma fuel3_calm s : c_sch s = [] -> fuel3 s = fuel_of (c2 s).
  Proof. intros H. unfold fuel3, fuel_of. rewrite H. cbn [length]. lia. Qed.

  Lemma read_frame3_calm m hz s : calm s ->
    exists o r3, read_frame3 cfg e encf 0 m hz s = (o, r3)
      /\ sim o (fst (read_frame cfg e m hz (c2 s)))
      /\ rrel (snd (read_frame cfg e m hz (c2 s))) r3.
  Proof.
    intros Hc. unfold read_frame3, read_frame. rewrite (fuel3_calm s (proj1 (proj2 Hc))).
    apply read_frame3_f_calm. exact Hc.
  Qed.

  Definition krel (r : list fv * st2 + st2 + unit) (r3 : list fv * st3 + st3 + unit) : Prop :=
    match r with
    | inl (inl (vs, x')) => exists s', r3 = inl (inl (vs, s')) /\ calm s' /\ c2 s' = x'
    | inl (inr x') => exists s', r3 = inl (inr s') /\ calm s' /\ c2 s' = x'
    | inr _ => r3 = inr tt
    end.

  Lemma ka_loop3_calm info loc hz fuel : forall s, calm s ->
    exists o r3, ka_loop3 cfg e encf 0 fuel info loc hz s = (o, r3)
      /\ sim o (fst (ka_loop2 cfg e fuel info loc hz (c2 s)))
      /\ krel (snd (ka_loop2 cfg e fuel info loc hz (c2 s))) r3.
  Proof.
    induction fuel as [|f IH]; intros s Hcalm; cbn [ka_loop2 ka_loop3].
    - eexists; eexists; split; [reflexivity|]. cbn [fst snd krel]. split; [apply sim_end | reflexivity].
    - destruct (read_frame3_calm (Some loc) hz s Hcalm) as (o & r3 & Hrf & Hsim & Hrel). rewrite Hrf.
      destruct (read_frame cfg e (Some loc) hz (c2 s)) as [tr [id body x'|x'|fin]]; cbn [fst snd rrel] in Hsim, Hrel.
      + destruct Hrel as (s' & -> & Hc' & H2'). cbv zeta. rewrite H2'.
        destruct (conf_frame cfg info (b_ka x') id body) as [ka''|vs|oc].
        * match goal with |- context [ka_loop3 cfg e encf 0 f info loc hz ?s1] =>
            destruct (IH s1 (calm_set2 s' _ Hc')) as (o2 & r4 & Hk & Hsim2 & Hrel2) end.
          rewrite Hk. cbn [set2 c2] in Hsim2, Hrel2.
          destruct (ka_loop2 cfg e f info loc hz (upd x' (b_now x') (b_dl x') ka'' (b_in x') (b_nka x') (b_rd x'))) as [tr2 r2].
          eexists; eexists; split; [reflexivity|]. cbn [fst snd] in *. split; [|exact Hrel2].
          apply sim_app; [exact Hsim|]. apply sim_cons; [reflexivity | exact Hsim2].
        * eexists; eexists; split; [reflexivity|]. cbn [fst snd krel]. split.
          -- apply sim_app; [exact Hsim | apply sim_ot; reflexivity].
          -- exists s'. split; [reflexivity|]. split; [exact Hc' | exact H2'].
        * eexists; eexists; split; [reflexivity|]. cbn [fst snd krel]. split; [|reflexivity].
          apply sim_app; [exact Hsim|]. apply sim_cons; [reflexivity | apply sim_end].
      + destruct Hrel as (s' & -> & Hc' & H2').
        eexists; eexists; split; [reflexivity|]. cbn [fst snd krel]. split; [exact Hsim|].
        exists s'. split; [reflexivity|]. split; [exact Hc' | exact H2'].
      + destruct Hrel as (fin3 & -> & Hfin).
        eexists; eexists; split; [reflexivity|]. cbn [fst snd krel]. split; [|reflexivity].
        apply sim_app; assumption.
  Qed.

  Theorem exec3_calm : forall p s, calm s -> sim (exec3 cfg e encf 0 p s) (exec2 cfg e p (c2 s)).
  Proof.
    induction p as [o|k IH|loc k IH|loc c k IH|c k IH|pk vs k IH|ss k IH|w k IH|k IH]; intros s Hcalm; cbn [exec2 exec3]; cbv zeta.
    - apply sim_end.
    - (* Expect *)
      destruct (read_frame3_calm None None s Hcalm) as (o & r3 & Hrf & Hsim & Hrel). rewrite Hrf.
      destruct (read_frame cfg e None None (c2 s)) as [tr [id body x'|x'|fin]]; cbn [fst snd rrel] in Hsim, Hrel.
      + destruct Hrel as (s' & -> & Hc' & H2'). unfold now3. rewrite H2'.
        destruct (negb (len_ok cfg id body)).
        * apply sim_app; [exact Hsim|]. apply sim_cons; [reflexivity | apply sim_end].
        * apply sim_app; [exact Hsim|]. apply sim_cons; [reflexivity|]. rewrite <- H2'. apply IH. exact Hc'.
      + destruct Hrel as (s' & -> & Hc' & H2'). unfold now3. rewrite H2'.
        apply sim_app; [exact Hsim | apply sim_end].
      + destruct Hrel as (fin3 & -> & Hfin). apply sim_app; assumption.
    - (* WaitInfo *)
      destruct (ka_loop3_calm true loc None (length (b_in (c2 s)) + 3) s Hcalm) as (o & r3 & Hk & Hsim & Hrel). rewrite Hk.
      destruct (ka_loop2 cfg e (length (b_in (c2 s)) + 3) true loc None (c2 s)) as [tr [[[vs x']|x']|u]]; cbn [fst snd krel] in Hsim, Hrel.
      + destruct Hrel as (s' & -> & Hc' & H2'). apply sim_app; [exact Hsim|]. rewrite <- H2'. apply IH. exact Hc'.
      + destruct Hrel as (s' & -> & Hc' & H2'). unfold now3. rewrite H2'. apply sim_app; [exact Hsim | apply sim_end].
      + subst r3. exact Hsim.
    - (* Race *)
      destruct (e_res e c) as [r lat].
      destruct (ka_loop3_calm false loc (Some (b_now (c2 s) + Z.max lat 1)) (length (b_in (c2 s)) + 3) s Hcalm) as (o & r3 & Hk & Hsim & Hrel).
      rewrite Hk.
      destruct (ka_loop2 cfg e (length (b_in (c2 s)) + 3) false loc (Some (b_now (c2 s) + Z.max lat 1)) (c2 s)) as [tr [[[vs x']|x']|u]];
        cbn [fst snd krel] in Hsim, Hrel.
      + destruct Hrel as (s' & -> & Hc' & H2'). apply sim_cons; [reflexivity | exact Hsim].
      + destruct Hrel as (s' & -> & Hc' & H2'). destruct Hc' as (Hc1 & Hc2 & Hc3 & Hc4). rewrite Hc4.
        apply sim_app; [apply sim_cons; [reflexivity | exact Hsim]|].
        apply sim_cons; [reflexivity|]. rewrite <- H2'. apply IH. repeat split; assumption.
      + subst r3. apply sim_cons; [reflexivity | exact Hsim].
    - (* Call *)
      destruct (e_res e c) as [r lat].
      apply sim_cons; [reflexivity|]. apply sim_cons; [reflexivity|].
      apply (IH r (at_time s (b_now (c2 s) + Z.max lat 0))). exact Hcalm.
    - (* Send *)
      destruct Hcalm as (Hc & Hs & Hu & Hm).
      destruct (flush_calm None (enqueue s (frame_bytes encf pk vs)) Hc Hs) as (o & s' & Hf & H2 & H3 & H4 & H5 & H6 & Ht & Ha & Hw).
      rewrite Hf. cbn [enqueue c_unsent c_missed] in Hw, H6. rewrite Hu in Hw. cbn [app] in Hw.
      change (OT (b_now (c2 s), TSend pk vs) :: o ++ exec3 cfg e encf 0 k s')
        with ((OT (b_now (c2 s), TSend pk vs) :: o) ++ exec3 cfg e encf 0 k s').
      change ((b_now (c2 s), TSend pk vs) :: exec2 cfg e k (c2 s))
        with ([(b_now (c2 s), TSend pk vs)] ++ exec2 cfg e k (c2 s)).
      apply sim_app; [apply sim_send; assumption|].
      cbn [enqueue c2] in H2. rewrite <- H2. apply IH. unfold calm. rewrite H6. repeat split; assumption.
    - apply sim_cons; [reflexivity|]. apply IH. exact Hcalm.
    - destruct w; (apply sim_cons; [reflexivity|]; apply IH; exact Hcalm).
    - apply sim_cons; [reflexivity|].
      match goal with |- context [exec3 cfg e encf 0 _ ?s1] => apply (IH _ s1) end. exact Hcalm.
  Qed.
End Calm.

Lemma init3_calm s : calm (init3 s None []).
Proof. repeat split. Qed.

Theorem run3_calm o cfg e encf s :
  trace_of (run3 o cfg e encf 0 None [] s) = run2 o cfg e s
  /\ abandoned_of (run3 o cfg e encf 0 None [] s) = [].
Proof.
  destruct (exec3_calm cfg e encf (listen o cfg) (init3 s None []) (init3_calm s)) as (H1 & H2 & _).
  split; [exact H1 | exact H2].
Qed.

Theorem run3_calm_wire o cfg e encf s :
  concat (map snd (wire_of (run3 o cfg e encf 0 None [] s)))
  = concat (map (fun ev => match snd ev with TSend pk vs => frame_bytes encf pk vs | _ => [] end)
                (trace_of (run3 o cfg e encf 0 None [] s))).
Proof.
  destruct (exec3_calm cfg e encf (listen o cfg) (init3 s None []) (init3_calm s)) as (H1 & _ & H3).
  unfold run3. rewrite H1. exact H3.
Qed.

(* ================= T2: frames intact and in order, for every transport ================= *)
Section Intact.
  Variable cfg : conn_cfg.
  Variable e : env.
  Variable encf : packet -> list fv -> option bytes.
  Variable loclat : Z.

  (* what was queued, followed by the frames sent, is what the wire took followed by what is queued now *)
  Definition bal (u : bytes) (o : list oev) (u' : bytes) : Prop :=
    u ++ fbytes encf (trace_of o) = wbytes o ++ u'.
  Definition balx (u : bytes) (o : list oev) : Prop := exists rest, bal u o rest.

  Lemma bal_nil u : bal u [] u.
  Proof. unfold bal. cbn. apply app_nil_r. Qed.

  Lemma bal_app u o1 u1 o2 u2 : bal u o1 u1 -> bal u1 o2 u2 -> bal u (o1 ++ o2) u2.
  Proof.
    unfold bal. intros H1 H2. rewrite trace_of_app, fbytes_app, wbytes_app.
    rewrite app_assoc, H1, <- app_assoc, H2, app_assoc. reflexivity.
  Qed.

  Lemma balx_of_bal u o u' : bal u o u' -> balx u o.
  Proof. intros H. exists u'. exact H. Qed.

  Lemma balx_app u o1 u1 o2 : bal u o1 u1 -> balx u1 o2 -> balx u (o1 ++ o2).
  Proof. intros H1 [rest H2]. exists rest. eapply bal_app; eassumption. Qed.

  Lemma bal_ot u ev : frame_of encf ev = [] -> bal u [OT ev] u.
  Proof. intros H. unfold bal, fbytes. cbn [trace_of map concat wbytes wire_of app]. rewrite H. cbn [app]. apply app_nil_r. Qed.

  Lemma bal_cons u ev o u' : frame_of encf ev = [] -> bal u o u' -> bal u (OT ev :: o) u'.
  Proof. intros H Hb. apply (bal_app u [OT ev] u o u'); [apply bal_ot; exact H | exact Hb]. Qed.

  Lemma balx_cons u ev o : frame_of encf ev = [] -> balx u o -> balx u (OT ev :: o).
  Proof. intros H [rest Hb]. exists rest. apply bal_cons; assumption. Qed.

  Lemma bal_oa u t c o u' : bal u o u' -> bal u (OA t c :: o) u'.
  Proof. intros H. exact H. Qed.

  Lemma bal_send u t pk vs : bal u [OT (t, TSend pk vs)] (u ++ frame_bytes encf pk vs).
  Proof. unfold bal, fbytes. cbn [trace_of map concat wbytes wire_of app frame_of snd]. rewrite app_nil_r. reflexivity. Qed.

  Lemma bal_flush hz s o s' r : flush hz s = (o, s', r) -> bal (c_unsent s) o (c_unsent s').
  Proof.
    intros H. destruct (flush_spec hz s o s' r H) as (Ht & _ & Hw & _).
    unfold bal. rewrite Ht. cbn. rewrite app_nil_r. symmetry. exact Hw.
  Qed.

  Definition tres_bal (u : bytes) (p : list oev * tres) : Prop :=
    match snd p with
    | TkCont s' => bal u (fst p) (c_unsent s')
    | TkCut s' => bal u (fst p) (c_unsent s')
    | TkEnd => balx u (fst p)
    end.

  Lemma verdict_bal loc hz s : tres_bal (c_unsent s) (verdict e encf loclat loc hz s).
  Proof.
    assert (Hfin : forall pre s1, bal (c_unsent s) pre (c_unsent s1) ->
              tres_bal (c_unsent s)
                match flush hz s1 with
                | (o, s2, FlDone) => (pre ++ o ++ [OT (now3 s2, TEnd (OErr KMissedKA))], TkEnd)
                | (o, s2, FlCut) => (pre ++ o, TkCut s2)
                | (o, _, FlHang) => (pre ++ o, TkEnd)
                end).
    { intros pre s1 Hpre. destruct (flush hz s1) as [[o s2] r] eqn:Hf.
      pose proof (bal_flush _ _ _ _ _ Hf) as Hb.
      destruct r; unfold tres_bal; cbn [fst snd].
      - eapply balx_app; [exact Hpre|]. eapply balx_app; [exact Hb|]. eapply balx_of_bal. apply bal_ot. reflexivity.
      - eapply bal_app; eassumption.
      - eapply balx_of_bal. eapply bal_app; eassumption. }
    unfold verdict. cbv zeta.
    assert (Hgen : tres_bal (c_unsent s)
      (if match hz with Some h => (0 <? loclat) && (h <=? now3 s + loclat) | None => false end
       then ([OA (now3 s) (CLocalize loc key_timeout)],
             TkCut (at_time (set_missed s MDecided) match hz with Some h => Z.max h (now3 s) | None => now3 s end))
       else match fst (e_res e (CLocalize loc key_timeout)) with
            | RText msg =>
                match flush hz (enqueue (at_time (set_missed s MQueued) (now3 s + Z.max loclat 0))
                                  (frame_bytes encf configuration_cb_DisconnectPacket [VB msg])) with
                | (o, s2, FlDone) =>
                    ([OT (now3 s, TCall (CLocalize loc key_timeout));
                      OT (now3 s + Z.max loclat 0, TRes (CLocalize loc key_timeout) (RText msg));
                      OT (now3 s + Z.max loclat 0, TSend configuration_cb_DisconnectPacket [VB msg])]
                     ++ o ++ [OT (now3 s2, TEnd (OErr KMissedKA))], TkEnd)
                | (o, s2, FlCut) =>
                    ([OT (now3 s, TCall (CLocalize loc key_timeout));
                      OT (now3 s + Z.max loclat 0, TRes (CLocalize loc key_timeout) (RText msg));
                      OT (now3 s + Z.max loclat 0, TSend configuration_cb_DisconnectPacket [VB msg])] ++ o, TkCut s2)
                | (o, _, FlHang) =>
                    ([OT (now3 s, TCall (CLocalize loc key_timeout));
                      OT (now3 s + Z.max loclat 0, TRes (CLocalize loc key_timeout) (RText msg));
                      OT (now3 s + Z.max loclat 0, TSend configuration_cb_DisconnectPacket [VB msg])] ++ o, TkEnd)
                end
            | r => ([OT (now3 s, TCall (CLocalize loc key_timeout));
                     OT (now3 s + Z.max loclat 0, TRes (CLocalize loc key_timeout) r);
                     OT (now3 s + Z.max loclat 0, TEnd (OErr KAdapter))], TkEnd)
            end)).
    { destruct (match hz with Some h => (0 <? loclat) && (h <=? now3 s + loclat) | None => false end).
      - unfold tres_bal. cbn [fst snd]. apply bal_oa. apply bal_nil.
      - destruct (fst (e_res e (CLocalize loc key_timeout))) as [json|n u ps|ts|t|msg|];
          try (unfold tres_bal; cbn [fst snd]; eapply balx_of_bal;
               apply bal_cons; [reflexivity|]; apply bal_cons; [reflexivity|]; apply bal_ot; reflexivity).
        apply Hfin.
        apply bal_cons; [reflexivity|]. apply bal_cons; [reflexivity|]. apply bal_send. }
    destruct (c_missed s); [exact Hgen | exact Hgen |].
    apply (Hfin [] s). apply bal_nil.
  Qed.

  Lemma tick3_bal loc hz s tt : tres_bal (c_unsent s) (tick3 e encf loclat loc hz s tt).
  Proof.
    unfold tick3. destruct (b_ka (c2 s)) as [kid|].
    - pose proof (verdict_bal loc hz (set_missed (at_time s tt) MDecided)) as Hv.
      destruct (verdict e encf loclat loc hz (set_missed (at_time s tt) MDecided)) as [o r].
      unfold tres_bal in *. cbn [fst snd set_missed at_time set2 c_unsent] in *.
      destruct r; [apply bal_cons | apply bal_cons | apply balx_cons]; try reflexivity; exact Hv.
    - match goal with |- context [flush hz ?s1] => destruct (flush hz s1) as [[o s2] r] eqn:Hf end.
      pose proof (bal_flush _ _ _ _ _ Hf) as Hb. cbn [enqueue c_unsent set2] in Hb.
      assert (Hpre : bal (c_unsent s)
                [OT (tt, TTick); OT (tt, TFresh RKeepAlive (e_fresh e RKeepAlive (b_nka (c2 s))));
                 OT (tt, TSend configuration_cb_KeepAlivePacket [VZ (be_dec (e_fresh e RKeepAlive (b_nka (c2 s))))])]
                (c_unsent s ++ frame_bytes encf configuration_cb_KeepAlivePacket [VZ (be_dec (e_fresh e RKeepAlive (b_nka (c2 s))))])).
      { apply bal_cons; [reflexivity|]. apply bal_cons; [reflexivity|]. apply bal_send. }
      destruct r; unfold tres_bal; cbn [fst snd].
      + eapply bal_app; eassumption.
      + eapply bal_app; eassumption.
      + eapply balx_of_bal. eapply bal_app; eassumption.
  Qed.

  Definition rres3_bal (u : bytes) (p : list oev * rres3) : Prop :=
    match snd p with
    | R3Got _ _ s' => bal u (fst p) (c_unsent s')
    | R3Cut s' => bal u (fst p) (c_unsent s')
    | R3End fin => balx u (fst p ++ fin)
    end.

  Lemma balx_end u t o : balx u ([] ++ [OT (t, TEnd o)]).
  Proof. eapply balx_of_bal. apply bal_ot. reflexivity. Qed.

  Lemma read_frame3_f_bal fuel m hz : forall s, rres3_bal (c_unsent s) (read_frame3_f cfg e encf loclat fuel m hz s).
  Proof.
    induction fuel as [|f IH]; intros s; cbn [read_frame3_f].
    - unfold rres3_bal. cbn [fst snd]. apply balx_end.
    - cbv zeta.
      match goal with |- context [if ?c then _ else _] => destruct c end.
      { unfold rres3_bal. cbn [fst snd]. destruct hz as [h|]; apply bal_nil. }
      match goal with |- context [if ?c then _ else _] => destruct c end.
      + destruct m as [loc|].
        * pose proof (tick3_bal loc hz s (Z.max (b_dl (c2 s)) (b_now (c2 s)))) as Ht.
          destruct (tick3 e encf loclat loc hz s (Z.max (b_dl (c2 s)) (b_now (c2 s)))) as [o r].
          unfold tres_bal in Ht. cbn [fst snd] in Ht.
          destruct r as [s'|s'|].
          -- specialize (IH s'). destruct (read_frame3_f cfg e encf loclat f (Some loc) hz s') as [o2 r3].
             unfold rres3_bal in *. cbn [fst snd] in *.
             destruct r3 as [id body s''|s''|fin].
             ++ eapply bal_app; eassumption.
             ++ eapply bal_app; eassumption.
             ++ rewrite <- app_assoc. eapply balx_app; eassumption.
          -- exact Ht.
          -- unfold rres3_bal. cbn [fst snd]. rewrite app_nil_r. exact Ht.
        * destruct (match b_in (c2 s), b_eof (c2 s) with
                    | (t, _) :: _, _ => Some (Z.max t (b_now (c2 s)))
                    | [], Some te => Some (Z.max te (b_now (c2 s)))
                    | [], None => None end) as [t|].
          -- match goal with |- context [read_frame3_f cfg e encf loclat f None hz ?s1] => exact (IH s1) end.
          -- unfold rres3_bal. cbn [fst snd]. apply balx_end.
      + destruct (b_in (c2 s)) as [|[t b] rest].
        * destruct (eof_events (b_rd (c2 s))) as [|[id body| |] evs]; unfold rres3_bal; cbn [fst snd];
            first [apply balx_end | apply bal_nil].
        * cbv zeta.
          destruct (feed_byte (cf_max_len cfg) (b_rd (c2 s)) b) as [rd' [|[id body| |] evs]].
          -- match goal with |- context [read_frame3_f cfg e encf loclat f m hz ?s1] => exact (IH s1) end.
          -- unfold rres3_bal. cbn [fst snd]. apply bal_nil.
          -- unfold rres3_bal. cbn [fst snd]. apply balx_end.
          -- unfold rres3_bal. cbn [fst snd]. apply balx_end.
  Qed.

  Definition kres_bal (u : bytes) (p : list oev * (list fv * st3 + st3 + unit)) : Prop :=
    match snd p with
    | inl (inl (_, s')) => bal u (fst p) (c_unsent s')
    | inl (inr s') => bal u (fst p) (c_unsent s')
    | inr _ => balx u (fst p)
    end.

  Lemma ka_loop3_bal info loc hz fuel : forall s, kres_bal (c_unsent s) (ka_loop3 cfg e encf loclat fuel info loc hz s).
  Proof.
    induction fuel as [|f IH]; intros s; cbn [ka_loop3].
    - unfold kres_bal. cbn [fst snd]. eapply balx_of_bal. apply bal_ot. reflexivity.
    - pose proof (read_frame3_f_bal (fuel3 s) (Some loc) hz s) as Hr. unfold read_frame3.
      destruct (read_frame3_f cfg e encf loclat (fuel3 s) (Some loc) hz s) as [o [id body s'|s'|fin]];
        unfold rres3_bal in Hr; cbn [fst snd] in Hr.
      + cbv zeta. destruct (conf_frame cfg info (b_ka (c2 s')) id body) as [ka''|vs|oc].
        * match goal with |- context [ka_loop3 cfg e encf loclat f info loc hz ?s1] =>
            specialize (IH s1); destruct (ka_loop3 cfg e encf loclat f info loc hz s1) as [o2 r] end.
          unfold kres_bal in *. cbn [fst snd set2 c_unsent] in *.
          destruct r as [[[vs s'']|s'']|u].
          -- eapply bal_app; [exact Hr|]. apply bal_cons; [reflexivity | exact IH].
          -- eapply bal_app; [exact Hr|]. apply bal_cons; [reflexivity | exact IH].
          -- eapply balx_app; [exact Hr|]. apply balx_cons; [reflexivity | exact IH].
        * unfold kres_bal. cbn [fst snd]. eapply bal_app; [exact Hr|]. apply bal_ot. reflexivity.
        * unfold kres_bal. cbn [fst snd]. eapply balx_app; [exact Hr|]. eapply balx_of_bal.
          apply bal_cons; [reflexivity|]. apply bal_ot. reflexivity.
      + exact Hr.
      + exact Hr.
  Qed.

  Theorem exec3_bal : forall p s, balx (c_unsent s) (exec3 cfg e encf loclat p s).
  Proof.
    induction p as [o|k IH|loc k IH|loc c k IH|c k IH|pk vs k IH|ss k IH|w k IH|k IH]; intros s; cbn [exec3]; cbv zeta.
    - eapply balx_of_bal. apply bal_ot. reflexivity.
    - (* Expect *)
      pose proof (read_frame3_f_bal (fuel3 s) None None s) as Hr. unfold read_frame3.
      destruct (read_frame3_f cfg e encf loclat (fuel3 s) None None s) as [o [id body s'|s'|fin]];
        unfold rres3_bal in Hr; cbn [fst snd] in Hr.
      + destruct (negb (len_ok cfg id body)).
        * eapply balx_app; [exact Hr|]. eapply balx_of_bal. apply bal_cons; [reflexivity|]. apply bal_ot. reflexivity.
        * eapply balx_app; [exact Hr|]. apply balx_cons; [reflexivity|]. apply IH.
      + eapply balx_app; [exact Hr|]. eapply balx_of_bal. apply bal_ot. reflexivity.
      + exact Hr.
    - (* WaitInfo *)
      pose proof (ka_loop3_bal true loc None (length (b_in (c2 s)) + 3) s) as Hk.
      destruct (ka_loop3 cfg e encf loclat (length (b_in (c2 s)) + 3) true loc None s) as [o [[[vs s']|s']|u]];
        unfold kres_bal in Hk; cbn [fst snd] in Hk.
      + eapply balx_app; [exact Hk | apply IH].
      + eapply balx_app; [exact Hk|]. eapply balx_of_bal. apply bal_ot. reflexivity.
      + exact Hk.
    - (* Race *)
      destruct (e_res e c) as [r lat].
      pose proof (ka_loop3_bal false loc (Some (b_now (c2 s) + Z.max lat 1)) (length (b_in (c2 s)) + 3) s) as Hk.
      destruct (ka_loop3 cfg e encf loclat (length (b_in (c2 s)) + 3) false loc (Some (b_now (c2 s) + Z.max lat 1)) s) as [o [[[vs s']|s']|u]];
        unfold kres_bal in Hk; cbn [fst snd] in Hk.
      + apply balx_cons; [reflexivity|]. eapply balx_of_bal. exact Hk.
      + assert (Hpre : bal (c_unsent s) (OT (b_now (c2 s), TCall c) :: o) (c_unsent s'))
          by (apply bal_cons; [reflexivity | exact Hk]).
        assert (Hv : balx (c_unsent s) ((OT (b_now (c2 s), TCall c) :: o) ++ fst (verdict e encf loclat loc None s'))).
        { eapply balx_app; [exact Hpre|]. pose proof (verdict_bal loc None s') as Hv. unfold tres_bal in Hv.
          destruct (snd (verdict e encf loclat loc None s')); [eapply balx_of_bal; exact Hv | eapply balx_of_bal; exact Hv | exact Hv]. }
        assert (He : balx (c_unsent s) ((OT (b_now (c2 s), TCall c) :: o) ++ [OT (b_now (c2 s) + Z.max lat 1, TEnd (OErr KAdapter))])).
        { eapply balx_app; [exact Hpre|]. eapply balx_of_bal. apply bal_ot. reflexivity. }
        destruct (c_missed s').
        * eapply balx_app; [exact Hpre|]. apply balx_cons; [reflexivity|]. apply IH.
        * destruct r; first [exact Hv | exact He].
        * destruct r; first [exact Hv | exact He].
      + apply balx_cons; [reflexivity | exact Hk].
    - (* Call *)
      destruct (e_res e c) as [r lat].
      apply balx_cons; [reflexivity|]. apply balx_cons; [reflexivity|].
      apply (IH r (at_time s (b_now (c2 s) + Z.max lat 0))).
    - (* Send *)
      destruct (flush None (enqueue s (frame_bytes encf pk vs))) as [[o s'] r] eqn:Hf.
      pose proof (bal_flush _ _ _ _ _ Hf) as Hb. cbn [enqueue c_unsent] in Hb.
      assert (Hpre : bal (c_unsent s) (OT (b_now (c2 s), TSend pk vs) :: o) (c_unsent s')).
      { apply (bal_app _ [OT (b_now (c2 s), TSend pk vs)] _ o _ (bal_send _ _ _ _) Hb). }
      destruct r.
      + change (OT (b_now (c2 s), TSend pk vs) :: o ++ exec3 cfg e encf loclat k s')
          with ((OT (b_now (c2 s), TSend pk vs) :: o) ++ exec3 cfg e encf loclat k s').
        eapply balx_app; [exact Hpre | apply IH].
      + eapply balx_of_bal. exact Hpre.
      + eapply balx_of_bal. exact Hpre.
    - apply balx_cons; [reflexivity|]. apply IH.
    - destruct w; (apply balx_cons; [reflexivity|]; apply IH).
    - apply balx_cons; [reflexivity|].
      match goal with |- context [exec3 cfg e encf loclat _ ?s1] => apply (IH _ s1) end.
  Qed.
End Intact.

(* the bytes the transport accepted are a prefix of the frames of the packets sent, in order *)
Theorem run3_frames_intact o cfg e encf loclat cap sch s :
  exists rest,
    concat (map (fun ev => match snd ev with TSend pk vs => frame_bytes encf pk vs | _ => [] end)
                (trace_of (run3 o cfg e encf loclat cap sch s)))
    = concat (map snd (wire_of (run3 o cfg e encf loclat cap sch s))) ++ rest.
Proof.
  destruct (exec3_bal cfg e encf loclat (listen o cfg) (init3 s cap sch)) as [rest H].
  exists rest. exact H.
Qed.

(* ================= T3: soundness of [safe] for M3 ================= *)
Definition utr (o : list oev) : list tev := untime (trace_of o).

Lemma utr_app a b : utr (a ++ b) = utr a ++ utr b.
Proof. unfold utr, untime. rewrite trace_of_app, map_app. reflexivity. Qed.

Lemma utr_ot ev o : utr (OT ev :: o) = snd ev :: utr o.
Proof. reflexivity. Qed.

Lemma utr_silent o : trace_of o = [] -> utr o = [].
Proof. unfold utr. intros ->. reflexivity. Qed.

(* the events of the verdict after its tick *)
Definition vseq (loc : option bytes) (msg : bytes) : list tev :=
  [TCall (CLocalize loc key_timeout); TRes (CLocalize loc key_timeout) (RText msg);
   TSend configuration_cb_DisconnectPacket [VB msg]].

(* the parts of [verdict], named *)
Definition vfinish (hz : option Z) (pre : list oev) (s1 : st3) : list oev * tres :=
  match flush hz s1 with
  | (o, s2, FlDone) => (pre ++ o ++ [OT (now3 s2, TEnd (OErr KMissedKA))], TkEnd)
  | (o, s2, FlCut) => (pre ++ o, TkCut s2)
  | (o, _, FlHang) => (pre ++ o, TkEnd)
  end.

Definition vfresh (e : env) (encf : packet -> list fv -> option bytes) (loclat : Z)
    (loc : option bytes) (hz : option Z) (s : st3) : list oev * tres :=
  let c := CLocalize loc key_timeout in
  let now := now3 s in
  if match hz with Some h => (0 <? loclat) && (h <=? now + loclat) | None => false end then
    ([OA now c], TkCut (at_time (set_missed s MDecided) (match hz with Some h => Z.max h now | None => now end)))
  else
    let t := now + Z.max loclat 0 in
    match fst (e_res e c) with
    | RText msg =>
        vfinish hz [OT (now, TCall c); OT (t, TRes c (RText msg)); OT (t, TSend configuration_cb_DisconnectPacket [VB msg])]
          (enqueue (at_time (set_missed s MQueued) t) (frame_bytes encf configuration_cb_DisconnectPacket [VB msg]))
    | r => ([OT (now, TCall c); OT (t, TRes c r); OT (t, TEnd (OErr KAdapter))], TkEnd)
    end.

Lemma verdict_unfold e encf loclat loc hz s :
  verdict e encf loclat loc hz s
  = match c_missed s with MQueued => vfinish hz [] s | _ => vfresh e encf loclat loc hz s end.
Proof. reflexivity. Qed.

Lemma vfinish_shape hz pre s1 :
  match vfinish hz pre s1 with
  | (o, TkCont _) => False
  | (o, TkEnd) => utr o = utr pre \/ utr o = utr pre ++ [TEnd (OErr KMissedKA)]
  | (o, TkCut s') => hz <> None /\ utr o = utr pre /\ c_missed s' = c_missed s1
  end.
Proof.
  unfold vfinish. destruct (flush hz s1) as [[o s2] r] eqn:Hf.
  destruct (flush_spec hz s1 o s2 r Hf) as (Ht & _ & _ & Hm & _ & Hc).
  destruct r.
  - right. rewrite !utr_app, (utr_silent o Ht). reflexivity.
  - split; [apply Hc; reflexivity|]. split; [|exact Hm]. rewrite utr_app, (utr_silent o Ht). apply app_nil_r.
  - left. rewrite utr_app, (utr_silent o Ht). apply app_nil_r.
Qed.

Section Sound3.
  Variable S : Type.
  Variable step : S -> tev -> option S.
  Variable cfg : conn_cfg.
  Variable e : env.
  Variable encf : packet -> list fv -> option bytes.
  Variable loclat : Z.

  Local Notation run := (run step).
  Local Notation ok := (ok step).

  Lemma ok_prefix st a b : ok st (a ++ b) -> ok st a.
  Proof. unfold Monitor.ok. rewrite run_app. destruct (run st a); [discriminate | intros H; exact H]. Qed.

  Lemma ok_nil st : ok st [].
  Proof. unfold Monitor.ok. cbn. discriminate. Qed.

  Lemma ok_cons_same st ev l : step st ev = Some st -> ok st l -> ok st (ev :: l).
  Proof. unfold Monitor.ok. cbn [Monitor.run]. intros ->. exact (fun H => H). Qed.

  Lemma ok_uncons_same st ev l : step st ev = Some st -> ok st (ev :: l) -> ok st l.
  Proof. unfold Monitor.ok. cbn [Monitor.run]. intros ->. exact (fun H => H). Qed.

  Lemma ka_tick info loc st : ka_inv step info loc st -> step st TTick = Some st.
  Proof. intros (Hi & _). apply Hi. reflexivity. Qed.

  (* the third clause of [ka_inv] without its tick *)
  Lemma ka_text info loc st msg : ka_inv step info loc st ->
    ok st (TTick :: vseq loc msg ++ [TEnd (OErr KMissedKA)]).
  Proof. intros (_ & _ & Hto). exact (Hto (RText msg)). Qed.

  Lemma ka_other info loc st r : ka_inv step info loc st ->
    match r with
    | RText _ => True
    | _ => ok st [TCall (CLocalize loc key_timeout); TRes (CLocalize loc key_timeout) r; TEnd (OErr KAdapter)]
    end.
  Proof.
    intros Hinv. pose proof (ka_tick _ _ _ Hinv) as Ht. destruct Hinv as (_ & _ & Hto).
    specialize (Hto r). cbv zeta in Hto.
    destruct r; try exact I; exact (ok_uncons_same _ _ _ Ht Hto).
  Qed.

  Lemma verdict_ok info loc st hz s : ka_inv step info loc st ->
    match verdict e encf loclat loc hz s with
    | (o, TkCont _) => False
    | (o, TkEnd) => match c_missed s with
                    | MQueued => utr o = [] \/ utr o = [TEnd (OErr KMissedKA)]
                    | _ => ok st (utr o)
                    end
    | (o, TkCut s') => hz <> None /\
                    match c_missed s with
                    | MQueued => utr o = [] /\ c_missed s' = MQueued
                    | _ => (utr o = [] /\ c_missed s' = MDecided)
                           \/ (exists msg, utr o = vseq loc msg /\ c_missed s' = MQueued)
                    end
    end.
  Proof.
    intros Hinv. rewrite verdict_unfold.
    assert (Hfresh : match vfresh e encf loclat loc hz s with
                     | (o, TkCont _) => False
                     | (o, TkEnd) => ok st (utr o)
                     | (o, TkCut s') => hz <> None /\ ((utr o = [] /\ c_missed s' = MDecided)
                                        \/ (exists msg, utr o = vseq loc msg /\ c_missed s' = MQueued))
                     end).
    { unfold vfresh. cbv zeta.
      destruct (match hz with Some h => (0 <? loclat) && (h <=? now3 s + loclat) | None => false end) eqn:Hcut.
      - split; [destruct hz; [discriminate | discriminate Hcut]|]. left. split; reflexivity.
      - pose proof (ka_other info loc st (fst (e_res e (CLocalize loc key_timeout))) Hinv) as Ho.
        destruct (fst (e_res e (CLocalize loc key_timeout))) as [json|n u ps|ts|t|msg|]; try exact Ho.
        match goal with |- context [vfinish hz ?pre ?s1] =>
          pose proof (vfinish_shape hz pre s1) as Hs; destruct (vfinish hz pre s1) as [o r] end.
        pose proof (ok_uncons_same _ _ _ (ka_tick _ _ _ Hinv) (ka_text info loc st msg Hinv)) as Hk.
        destruct r as [s'|s'|].
        + exact Hs.
        + destruct Hs as (Hn & Hu & Hm). split; [exact Hn|]. right. exists msg. split; [exact Hu | exact Hm].
        + destruct Hs as [Hu|Hu]; rewrite Hu.
          * exact (ok_prefix _ _ _ Hk).
          * exact Hk. }
    destruct (c_missed s) eqn:Hm.
    - destruct (vfresh e encf loclat loc hz s) as [o [s'|s'|]]; exact Hfresh.
    - destruct (vfresh e encf loclat loc hz s) as [o [s'|s'|]]; exact Hfresh.
    - pose proof (vfinish_shape hz [] s) as Hs. destruct (vfinish hz [] s) as [o [s'|s'|]].
      + exact Hs.
      + destruct Hs as (Hn & Hu & Hm'). split; [exact Hn|]. split; [exact Hu | rewrite Hm'; exact Hm].
      + exact Hs.
  Qed.

  Lemma tick3_ok info loc st hz s tt : ka_inv step info loc st ->
    match tick3 e encf loclat loc hz s tt with
    | (o, TkCont s') => run st (utr o) = Some st
    | (o, TkEnd) => ok st (utr o)
    | (o, TkCut s') => hz <> None /\
                       (run st (utr o) = Some st
                        \/ (c_missed s' = MQueued /\ exists msg, utr o = TTick :: vseq loc msg))
    end.
  Proof.
    intros Hinv. pose proof (ka_tick _ _ _ Hinv) as Ht. unfold tick3.
    destruct (b_ka (c2 s)) as [kid|].
    - pose proof (verdict_ok info loc st hz (set_missed (at_time s tt) MDecided) Hinv) as Hv.
      destruct (verdict e encf loclat loc hz (set_missed (at_time s tt) MDecided)) as [o r].
      cbn [set_missed c_missed] in Hv. rewrite utr_ot. cbn [snd].
      destruct r as [s'|s'|].
      + contradiction.
      + destruct Hv as (Hn & [(Hu & Hm)|(msg & Hu & Hm)]); (split; [exact Hn|]).
        * left. rewrite Hu. cbn [Monitor.run]. rewrite Ht. reflexivity.
        * right. split; [exact Hm|]. exists msg. rewrite Hu. reflexivity.
      + apply ok_cons_same; assumption.
    - match goal with |- context [flush hz ?s1] => destruct (flush hz s1) as [[o s2] r] eqn:Hf end.
      destruct (flush_spec _ _ _ _ _ Hf) as (Hto & _ & _ & _ & _ & Hc).
      assert (Hrun : forall idb, run st (utr ([OT (tt, TTick); OT (tt, TFresh RKeepAlive idb);
                                   OT (tt, TSend configuration_cb_KeepAlivePacket [VZ (be_dec idb)])] ++ o)) = Some st).
      { intros idb. rewrite utr_app, (utr_silent o Hto), app_nil_r.
        apply (run_internal S step info st _ loc Hinv). reflexivity. }
      destruct r.
      + apply Hrun.
      + split; [apply Hc; reflexivity|]. left. apply Hrun.
      + eapply ok_of_some. apply Hrun.
  Qed.

  (* the race cut a wait of the verdict after the Disconnect was queued *)
  Definition cutQ (loc : option bytes) (st : S) (hz : option Z) (tr : list tev) (m' : missed) : Prop :=
    hz <> None /\ m' = MQueued /\ exists pre msg, tr = pre ++ TTick :: vseq loc msg /\ run st pre = Some st.

  Lemma cutQ_pre loc st hz a tr m' : run st a = Some st -> cutQ loc st hz tr m' -> cutQ loc st hz (a ++ tr) m'.
  Proof.
    intros Ha (Hn & Hm & pre & msg & Htr & Hp). split; [exact Hn|]. split; [exact Hm|].
    exists (a ++ pre), msg. split; [rewrite Htr, app_assoc; reflexivity|]. rewrite run_app, Ha. exact Hp.
  Qed.

  Lemma errs_end3 st t o : errs_ok step st -> o <> OOk -> o <> OErr KPanic -> ok st (utr [OT (t, TEnd o)]).
  Proof. intros. apply (errs_end S step st t o); assumption. Qed.

  Lemma read_frame3_f_ok info st fuel m hz :
    errs_ok step st ->
    (forall loc, m = Some loc -> ka_inv step info loc st) ->
    forall s,
    match read_frame3_f cfg e encf loclat fuel m hz s with
    | (o, R3End fin) => ok st (utr (o ++ fin))
    | (o, R3Got _ _ _) => run st (utr o) = Some st
    | (o, R3Cut s') => run st (utr o) = Some st \/ exists loc, m = Some loc /\ cutQ loc st hz (utr o) (c_missed s')
    end.
  Proof.
    intros He Hm. induction fuel as [|f IH]; intros s; cbn [read_frame3_f].
    - cbn [app]. apply errs_end3; [exact He | discriminate | discriminate].
    - cbv zeta.
      match goal with |- context [if ?c then _ else _] => destruct c end.
      { destruct hz as [h|]; left; reflexivity. }
      match goal with |- context [if ?c then _ else _] => destruct c end.
      + destruct m as [loc|].
        * pose proof (tick3_ok info loc st hz s (Z.max (b_dl (c2 s)) (b_now (c2 s))) (Hm loc eq_refl)) as Ht.
          destruct (tick3 e encf loclat loc hz s (Z.max (b_dl (c2 s)) (b_now (c2 s)))) as [o [s'|s'|]].
          -- specialize (IH s').
             destruct (read_frame3_f cfg e encf loclat f (Some loc) hz s') as [o2 [id body s''|s''|fin]].
             ++ rewrite utr_app, run_app, Ht. exact IH.
             ++ rewrite utr_app. destruct IH as [IH|(loc0 & Hl & IH)].
                ** left. rewrite run_app, Ht. exact IH.
                ** right. exists loc0. split; [exact Hl|]. apply cutQ_pre; assumption.
             ++ rewrite <- app_assoc, utr_app. apply ok_app_some; assumption.
          -- destruct Ht as (Hn & [Hr|(Hq & msg & Hu)]); [left; exact Hr|].
             right. exists loc. split; [reflexivity|]. split; [exact Hn|]. split; [exact Hq|].
             exists [], msg. split; [exact Hu | reflexivity].
          -- rewrite app_nil_r. exact Ht.
        * destruct (match b_in (c2 s), b_eof (c2 s) with
                    | (t, _) :: _, _ => Some (Z.max t (b_now (c2 s)))
                    | [], Some te => Some (Z.max te (b_now (c2 s)))
                    | [], None => None end) as [t|].
          -- apply IH.
          -- cbn [app]. apply errs_end3; [exact He | discriminate | discriminate].
      + destruct (b_in (c2 s)) as [|[t b] rest].
        * destruct (eof_events (b_rd (c2 s))) as [|[id body| |] evs]; try reflexivity;
            cbn [app]; (apply errs_end3; [exact He | discriminate | discriminate]).
        * cbv zeta.
          destruct (feed_byte (cf_max_len cfg) (b_rd (c2 s)) b) as [rd' [|[id body| |] evs]].
          -- apply IH.
          -- reflexivity.
          -- cbn [app]. apply errs_end3; [exact He | discriminate | discriminate].
          -- cbn [app]. apply errs_end3; [exact He | discriminate | discriminate].
  Qed.

  (* without the keep-alive mode nothing is emitted before a frame or a cut *)
  Lemma read_frame3_f_none_nil hz fuel : forall s o r,
    read_frame3_f cfg e encf loclat fuel None hz s = (o, r) -> match r with R3End _ => True | _ => o = [] end.
  Proof.
    induction fuel as [|f IH]; intros s o r; cbn [read_frame3_f].
    - intros H; inversion H; exact I.
    - cbv zeta.
      match goal with |- context [if ?c then _ else _] => destruct c end.
      { intros [= <- <-]. destruct hz; reflexivity. }
      match goal with |- context [if ?c then _ else _] => destruct c end.
      + destruct (match b_in (c2 s), b_eof (c2 s) with
                  | (t, _) :: _, _ => Some (Z.max t (b_now (c2 s)))
                  | [], Some te => Some (Z.max te (b_now (c2 s)))
                  | [], None => None end) as [t|].
        * apply IH.
        * intros H; inversion H; exact I.
      + destruct (b_in (c2 s)) as [|[t b] rest].
        * destruct (eof_events (b_rd (c2 s))) as [|[id body| |] evs]; intros H; inversion H; try exact I; reflexivity.
        * cbv zeta.
          destruct (feed_byte (cf_max_len cfg) (b_rd (c2 s)) b) as [rd' [|[id body| |] evs]].
          -- apply IH.
          -- intros [= <- <-]. reflexivity.
          -- intros H; inversion H; exact I.
          -- intros H; inversion H; exact I.
  Qed.

  Lemma ka_loop3_ok info loc st :
    ka_inv step info loc st ->
    (info = true -> forall body, exists st', step st (TRecv ci_id body) = Some st' /\ errs_ok step st') ->
    forall hz fuel s,
    match ka_loop3 cfg e encf loclat fuel info loc hz s with
    | (o, inl (inl (vs, s'))) => info = true /\ exists pre body rest, utr o = pre ++ [TRecv ci_id body] /\ run st pre = Some st
                                   /\ dec vi vl (rkinds configuration_sb_ClientInformationPacket) body = Ok vs rest
    | (o, inl (inr s')) => run st (utr o) = Some st \/ cutQ loc st hz (utr o) (c_missed s')
    | (o, inr _) => ok st (utr o)
    end.
  Proof.
    intros Hinv Hci hz fuel. induction fuel as [|f IH]; intros s; cbn [ka_loop3].
    - destruct Hinv as (_ & He & _). apply errs_end3; [exact He | discriminate | discriminate].
    - assert (He : errs_ok step st) by (destruct Hinv as (_ & He & _); exact He).
      assert (Hm : forall loc0, Some loc = Some loc0 -> ka_inv step info loc0 st) by (intros ? H; inversion H; subst; exact Hinv).
      pose proof (read_frame3_f_ok info st (fuel3 s) (Some loc) hz He Hm s) as Hr. unfold read_frame3.
      destruct (read_frame3_f cfg e encf loclat (fuel3 s) (Some loc) hz s) as [o [id body s'|s'|fin]].
      + cbv zeta. destruct (conf_frame cfg info (b_ka (c2 s')) id body) as [ka''|vs|oc] eqn:Hcf.
        * match goal with |- context [ka_loop3 cfg e encf loclat f info loc hz ?s1] =>
            specialize (IH s1); destruct (ka_loop3 cfg e encf loclat f info loc hz s1) as [o2 r] end.
          assert (Hint : internal info (TRecv id body) = true).
          { unfold internal. destruct info; [|reflexivity].
            destruct (Z.eqb_spec id ci_id) as [->|]; [|reflexivity]. exfalso.
            unfold conf_frame in Hcf. destruct (negb (len_ok cfg ci_id body)); [discriminate|].
            unfold ci_id in Hcf.
            destruct (p_id configuration_sb_ClientInformationPacket =? p_id configuration_sb_KeepAlivePacket) eqn:E;
              [vm_compute in E; discriminate|].
            rewrite Z.eqb_refl in Hcf.
            destruct (dec vi vl (rkinds configuration_sb_ClientInformationPacket) body); discriminate. }
          assert (Hrecv : run st (utr o ++ [TRecv id body]) = Some st).
          { rewrite run_app, Hr. cbn. destruct Hinv as [Hi _]. rewrite (Hi _ Hint). reflexivity. }
          replace (utr (o ++ OT (b_now (c2 s'), TRecv id body) :: o2))
            with ((utr o ++ [TRecv id body]) ++ utr o2)
            by (rewrite utr_app, utr_ot; cbn [snd]; rewrite <- app_assoc; reflexivity).
          destruct r as [[[vs s'']|s'']|u].
          -- destruct IH as (Hinfo & pre & b & rst & Hu & Hp & Hd). split; [exact Hinfo|].
             exists ((utr o ++ [TRecv id body]) ++ pre), b, rst. split; [|split].
             ++ rewrite Hu, app_assoc. reflexivity.
             ++ rewrite run_app, Hrecv. exact Hp.
             ++ exact Hd.
          -- destruct IH as [IH|IH].
             ++ left. rewrite run_app, Hrecv. exact IH.
             ++ right. apply cutQ_pre; assumption.
          -- unfold Monitor.ok. rewrite run_app, Hrecv. exact IH.
        * destruct (conf_frame_info cfg _ _ _ _ _ Hcf) as (-> & -> & rst & Hd). split; [reflexivity|].
          exists (utr o), body, rst. split; [rewrite utr_app; reflexivity | split; [exact Hr | exact Hd]].
        * rewrite utr_app. apply ok_app_some; [exact Hr|].
          rewrite utr_ot, utr_ot. cbn [snd utr untime trace_of map]. unfold Monitor.ok. cbn [Monitor.run].
          destruct (internal info (TRecv id body)) eqn:Hint.
          -- destruct Hinv as (Hi & He' & _). rewrite (Hi _ Hint).
             destruct (conf_frame_end _ _ _ _ _ _ Hcf) as [H1 H2].
             specialize (He' oc H1 H2). destruct (step st (TEnd oc)); [discriminate | exact He'].
          -- unfold internal in Hint. destruct info; [|discriminate].
             destruct (Z.eqb_spec id ci_id) as [->|]; [|discriminate].
             destruct (Hci eq_refl body) as (st' & Hs & He'). rewrite Hs.
             destruct (conf_frame_end _ _ _ _ _ _ Hcf) as [H1 H2].
             specialize (He' oc H1 H2). destruct (step st' (TEnd oc)); [discriminate | exact He'].
      + destruct Hr as [Hr|(loc0 & Hl & Hr)]; [left; exact Hr|]. right. inversion Hl; subst loc0. exact Hr.
      + exact Hr.
  Qed.

  (* the one place where [ka_inv] does not speak: the raced adapter call itself fails while a
     verdict is pending - the failure ends the connection wherever the verdict had got to *)
  Definition adapter_end_ok : Prop :=
    forall st ev st', step st ev = Some st' -> (forall o, ev <> TEnd o) -> step st' (TEnd (OErr KAdapter)) <> None.

  Lemma run_snoc st l ev : ok st (l ++ [ev]) -> exists st1 st2, run st l = Some st1 /\ step st1 ev = Some st2.
  Proof.
    unfold Monitor.ok. rewrite run_app. destruct (run st l) as [st1|]; [|congruence].
    cbn [Monitor.run]. destruct (step st1 ev) as [st2|] eqn:E; [|congruence].
    intros _. exists st1, st2. split; [reflexivity | exact E].
  Qed.

  Theorem safe_sound3 : adapter_end_ok ->
    forall p st s, safe step st p -> ok st (utr (exec3 cfg e encf loclat p s)).
  Proof.
    intros Hadapter.
    induction p as [o|k IH|loc k IH|loc c k IH|c k IH|pk vs k IH|ss k IH|w k IH|k IH]; intros st s Hs; cbn [safe exec3] in *; cbv zeta.
    - unfold Monitor.ok. cbn. destruct (step st (TEnd o)); [discriminate | exact Hs].
    - (* Expect *)
      destruct Hs as [He Hk].
      assert (Hm : forall loc0, @None (option bytes) = Some loc0 -> ka_inv step false loc0 st) by discriminate.
      pose proof (read_frame3_f_ok false st (fuel3 s) None None He Hm s) as Hr.
      pose proof (read_frame3_f_none_nil None (fuel3 s) s) as Hn. unfold read_frame3.
      destruct (read_frame3_f cfg e encf loclat (fuel3 s) None None s) as [o [id body s'|s'|fin]].
      + specialize (Hn _ _ eq_refl). cbn in Hn. subst o. cbn [app].
        specialize (Hk id body). destruct (step st (TRecv id body)) as [st'|] eqn:Hst; [|contradiction].
        destruct Hk as [He' Hk].
        destruct (negb (len_ok cfg id body)).
        * unfold Monitor.ok. cbn. rewrite Hst.
          destruct (step st' (TEnd (OErr KIllegalLen))); [discriminate | exact He'].
        * unfold Monitor.ok. rewrite utr_ot. cbn [snd Monitor.run]. rewrite Hst. apply IH. exact Hk.
      + specialize (Hn _ _ eq_refl). cbn in Hn. subst o. cbn [app].
        apply errs_end3; [exact He | discriminate | discriminate].
      + exact Hr.
    - (* WaitInfo *)
      destruct Hs as [Hinv Hk].
      assert (Hci : true = true -> forall body, exists st', step st (TRecv ci_id body) = Some st' /\ errs_ok step st').
      { intros _ body. specialize (Hk body). destruct (step st (TRecv ci_id body)) as [st'|]; [|contradiction].
        exists st'. split; [reflexivity|]. destruct Hk as [He _]. exact He. }
      pose proof (ka_loop3_ok true loc st Hinv Hci None ((length (b_in (c2 s)) + 3)%nat) s) as Hl.
      destruct (ka_loop3 cfg e encf loclat ((length (b_in (c2 s)) + 3)%nat) true loc None s) as [o [[[vs s']|s']|u]].
      + destruct Hl as (_ & pre & body & rst & Hu & Hp & Hd). rewrite utr_app, Hu.
        unfold Monitor.ok. rewrite !run_app, Hp. cbn [Monitor.run].
        specialize (Hk body). destruct (step st (TRecv ci_id body)) as [st'|]; [|contradiction].
        destruct Hk as [_ Hk]. apply IH. apply (Hk vs rst Hd).
      + destruct Hl as [Hl|(Hn & _)]; [|exfalso; apply Hn; reflexivity].
        rewrite utr_app. apply ok_app_some; [exact Hl|].
        destruct Hinv as (_ & He & _). apply errs_end3; [exact He | discriminate | discriminate].
      + exact Hl.
    - (* Race *)
      destruct (e_res e c) as [r lat].
      destruct (step st (TCall c)) as [st1|] eqn:Hc; [|contradiction].
      destruct Hs as [Hinv Hk].
      assert (Hci : false = true -> forall body, exists st', step st1 (TRecv ci_id body) = Some st' /\ errs_ok step st')
        by discriminate.
      pose proof (ka_loop3_ok false loc st1 Hinv Hci (Some (b_now (c2 s) + Z.max lat 1)) ((length (b_in (c2 s)) + 3)%nat) s) as Hl.
      destruct (ka_loop3 cfg e encf loclat ((length (b_in (c2 s)) + 3)%nat) false loc (Some (b_now (c2 s) + Z.max lat 1)) s) as [o [[[vs s']|s']|u]].
      + destruct Hl as (Hf & _). discriminate.
      + pose proof (ka_tick _ _ _ Hinv) as Htick.
        assert (He1 : errs_ok step st1) by (destruct Hinv as (_ & He1 & _); exact He1).
        (* the raced call failed: its error ends the connection *)
        assert (Hend : ok st ((TCall c :: utr o) ++ [TEnd (OErr KAdapter)])).
        { unfold Monitor.ok. cbn [app Monitor.run]. rewrite Hc.
          destruct Hl as [Hl|(_ & _ & pre & msg & Hu & Hp)].
          - rewrite run_app, Hl. apply (errs_end S step st1 0 (OErr KAdapter)); [exact He1 | discriminate | discriminate].
          - rewrite Hu. rewrite <- app_assoc, run_app, Hp.
            destruct (run_snoc st1 (TTick :: vseq loc msg) _ (ka_text false loc st1 msg Hinv)) as (sa & sb & Hra & _).
            change (TTick :: vseq loc msg)
              with ([TTick; TCall (CLocalize loc key_timeout); TRes (CLocalize loc key_timeout) (RText msg)]
                    ++ [TSend configuration_cb_DisconnectPacket [VB msg]]) in Hra.
            assert (Hok : ok st1 ([TTick; TCall (CLocalize loc key_timeout); TRes (CLocalize loc key_timeout) (RText msg)]
                                  ++ [TSend configuration_cb_DisconnectPacket [VB msg]])) by (eapply ok_of_some; exact Hra).
            destruct (run_snoc _ _ _ Hok) as (sc & sd & Hrc & Hsd).
            change ((TTick :: vseq loc msg) ++ [TEnd (OErr KAdapter)])
              with (([TTick; TCall (CLocalize loc key_timeout); TRes (CLocalize loc key_timeout) (RText msg)]
                     ++ [TSend configuration_cb_DisconnectPacket [VB msg]]) ++ [TEnd (OErr KAdapter)]).
            rewrite !run_app, Hrc. cbn [Monitor.run]. rewrite Hsd.
            pose proof (Hadapter sc _ sd Hsd) as Ha.
            destruct (step sd (TEnd (OErr KAdapter))); [discriminate|]. apply Ha. intros oo; discriminate. }
        (* otherwise the verdict is resumed and stands *)
        assert (Hverd : ok st ((TCall c :: utr o) ++ utr (fst (verdict e encf loclat loc None s')))).
        { pose proof (verdict_ok false loc st1 None s' Hinv) as Hv.
          destruct (verdict e encf loclat loc None s') as [ov [sv|sv|]]; cbn [fst].
          - contradiction.
          - destruct Hv as (Hn & _). exfalso; apply Hn; reflexivity.
          - unfold Monitor.ok. cbn [app Monitor.run]. rewrite Hc.
            destruct Hl as [Hl|(_ & Hq & pre & msg & Hu & Hp)].
            + rewrite run_app, Hl.
              destruct (c_missed s'); try exact Hv.
              destruct Hv as [-> | ->]; [apply ok_nil|].
              apply (errs_end S step st1 0 (OErr KMissedKA)); [exact He1 | discriminate | discriminate].
            + rewrite Hq in Hv. rewrite Hu, <- app_assoc, run_app, Hp.
              pose proof (ka_text false loc st1 msg Hinv) as Hk3.
              destruct Hv as [-> | ->].
              * rewrite app_nil_r. change (TTick :: vseq loc msg ++ [TEnd (OErr KMissedKA)])
                  with ((TTick :: vseq loc msg) ++ [TEnd (OErr KMissedKA)]) in Hk3.
                exact (ok_prefix _ _ _ Hk3).
              * exact Hk3. }
        destruct (c_missed s') eqn:Hmiss.
        * destruct Hl as [Hl|(_ & Hq & _)]; [|congruence].
          unfold Monitor.ok. rewrite utr_app, utr_ot, utr_ot. cbn [snd app Monitor.run]. rewrite Hc.
          rewrite run_app, Hl. cbn [Monitor.run]. specialize (Hk r).
          destruct (step st1 (TRes c r)) as [st2|]; [|contradiction]. apply IH. exact Hk.
        * destruct r; rewrite utr_app, utr_ot; cbn [snd]; first [exact Hverd | exact Hend].
        * destruct r; rewrite utr_app, utr_ot; cbn [snd]; first [exact Hverd | exact Hend].
      + unfold Monitor.ok. rewrite utr_ot. cbn [snd Monitor.run]. rewrite Hc. exact Hl.
    - (* Call *)
      destruct (e_res e c) as [r lat].
      destruct (step st (TCall c)) as [st1|] eqn:Hc; [|contradiction].
      specialize (Hs r). unfold Monitor.ok. rewrite utr_ot, utr_ot. cbn [snd Monitor.run]. rewrite Hc.
      destruct (step st1 (TRes c r)) as [st2|]; [|contradiction]. apply IH. exact Hs.
    - (* Send *)
      destruct (step st (TSend pk vs)) as [st'|] eqn:Hst; [|contradiction].
      destruct (flush None (enqueue s (frame_bytes encf pk vs))) as [[o s'] r] eqn:Hf.
      destruct (flush_spec _ _ _ _ _ Hf) as (Hto & _).
      assert (Hone : ok st (utr (OT (b_now (c2 s), TSend pk vs) :: o))).
      { rewrite utr_ot, (utr_silent o Hto). unfold Monitor.ok. cbn [snd Monitor.run]. rewrite Hst. discriminate. }
      destruct r; try exact Hone.
      change (OT (b_now (c2 s), TSend pk vs) :: o ++ exec3 cfg e encf loclat k s')
        with ((OT (b_now (c2 s), TSend pk vs) :: o) ++ exec3 cfg e encf loclat k s').
      rewrite utr_app, utr_ot, (utr_silent o Hto). unfold Monitor.ok. cbn [snd app Monitor.run]. rewrite Hst.
      apply IH. exact Hs.
    - unfold Monitor.ok. rewrite utr_ot. cbn [snd Monitor.run].
      destruct (step st (TEnc ss)) as [st'|]; [|contradiction]. apply IH. exact Hs.
    - destruct w; unfold Monitor.ok; rewrite utr_ot; cbn [snd Monitor.run];
        match goal with |- context [TFresh ?w ?v] => specialize (Hs v); destruct (step st (TFresh w v)); [|contradiction] end;
        apply IH; exact Hs.
    - unfold Monitor.ok. rewrite utr_ot. cbn [snd Monitor.run].
      specialize (Hs (e_now e (b_nnow (c2 s)))).
      destruct (step st (TNow (e_now e (b_nnow (c2 s))))) as [st'|]; [|contradiction]. apply IH. exact Hs.
  Qed.
End Sound3.

(* ---------- the extra hypothesis holds for every monitor of the shape [step_with chk] whose
   check lets the connection end with an adapter error ---------- *)
Lemma delta_not_100 q0 ev q' : delta q0 ev = Some q' -> (forall o, ev <> TEnd o) -> q' <> 100.
Proof.
  intros H Hne.
  destruct ev as [id body|p vs|c|c r|w v|n|ss| |o]; cbn [delta] in H;
    try (exfalso; apply (Hne o); reflexivity);
    try discriminate;
    try destruct c; try destruct w;
    unfold goto, goto2, resting in H;
    repeat match type of H with context [if ?c then _ else _] => destruct c; try discriminate end;
    try discriminate; inversion H; subst; lia.
Qed.

Lemma step_with_adapter_end chk :
  (forall st, chk st (TEnd (OErr KAdapter)) = true) -> adapter_end_ok mst (step_with chk).
Proof.
  intros Hchk st ev st' Hs Hne.
  assert (Hq : q st' <> 100).
  { destruct (step_with_inv _ _ _ _ Hs) as [[Hi ->]|(q' & Hd & _ & ->)].
    - unfold internal_at in Hi.
      apply orb_prop in Hi as [Hi|Hi]; apply andb_prop in Hi as [Hi _]; lia.
    - cbn [q]. eapply delta_not_100; eassumption. }
  unfold step_with.
  assert (Hi : internal_at (q st') (TEnd (OErr KAdapter)) = false)
    by (unfold internal_at, internal; rewrite !andb_false_r; reflexivity).
  rewrite Hi. cbn [delta]. destruct (q st' =? 100) eqn:E; [lia|]. rewrite Hchk. discriminate.
Qed.

(* ---------- every monitor theorem of the connection holds of every M3 trace ---------- *)
Section Run3.
  Variable o : oracles.
  Variable cfg : conn_cfg.
  Variable e : env.
  Variable encf : packet -> list fv -> option bytes.
  Variable loclat : Z.
  Variable cap : option Z.
  Variable sch : wsched.
  Variable s : list (Z * option bytes).

  Local Notation tr3 := (untime (trace_of (run3 o cfg e encf loclat cap sch s))).

  Theorem run3_order_ok : ok step_order m_init tr3.
  Proof.
    unfold run3. apply (safe_sound3 mst step_order cfg e encf loclat);
      [apply step_with_adapter_end; reflexivity | apply listen_order_safe].
  Qed.

  Theorem run3_switch_ok : switch_ok tr3 = true.
  Proof. apply order_ok_switch_ok, run3_order_ok. Qed.

  Theorem run3_c01_ok : ok (step_with (chk_c01 o cfg)) m_init tr3.
  Proof.
    unfold run3. apply (safe_sound3 mst (step_with (chk_c01 o cfg)) cfg e encf loclat);
      [apply step_with_adapter_end; reflexivity | apply listen_c01_safe].
  Qed.

  Theorem run3_c02_ok : ok (step_with (chk_c02 o cfg)) m_init tr3.
  Proof.
    unfold run3. apply (safe_sound3 mst (step_with (chk_c02 o cfg)) cfg e encf loclat);
      [apply step_with_adapter_end; reflexivity | apply listen_c02_safe].
  Qed.

  Theorem run3_c03_ok : ok (step_with chk_c03) m_init tr3.
  Proof.
    unfold run3. apply (safe_sound3 mst (step_with chk_c03) cfg e encf loclat);
      [apply step_with_adapter_end; reflexivity | apply listen_c03_safe].
  Qed.

  Theorem run3_c06_ok : ok (step_with chk_c06) m_init tr3.
  Proof.
    unfold run3. apply (safe_sound3 mst (step_with chk_c06) cfg e encf loclat);
      [apply step_with_adapter_end; reflexivity | apply listen_c06_safe].
  Qed.

  Theorem run3_c10_ok : ok (step_with (chk_c10 o cfg)) m_init tr3.
  Proof.
    unfold run3. apply (safe_sound3 mst (step_with (chk_c10 o cfg)) cfg e encf loclat);
      [apply step_with_adapter_end; reflexivity | apply listen_c10_safe].
  Qed.
End Run3.

(* ================= T4: the verdict stands ================= *)
(* what may follow the timeout localize call: its result, one configuration Disconnect, the end *)
Definition ends_only (l : list tev) : bool :=
  match l with [] => true | [TEnd _] => true | _ => false end.
Definition disconnect_tail (l : list tev) : bool :=
  match l with
  | TSend p _ :: l2 => is_pkt p configuration_cb_DisconnectPacket && ends_only l2
  | _ => ends_only l
  end.
Definition timeout_tail (l : list tev) : bool :=
  match l with
  | TRes (CLocalize _ _) _ :: l1 => disconnect_tail l1
  | _ => ends_only l
  end.

Lemma ok_cons_inv {S} (step : S -> tev -> option S) st ev l :
  ok step st (ev :: l) -> exists st', step st ev = Some st' /\ ok step st' l.
Proof.
  unfold ok. cbn [run]. destruct (step st ev) as [st'|]; [|congruence]. intros H. exists st'. split; [reflexivity | exact H].
Qed.

Ltac order_step H :=
  unfold step_order, step_with in H; cbn [q internal_at Z.eqb Pos.eqb andb orb] in H.

Ltac delta_cases H :=
  unfold goto, goto2, resting in H; cbn [Z.eqb Pos.eqb andb orb] in H;
  repeat match type of H with context [if ?c then _ else _] => destruct c eqn:?; try discriminate end;
  try discriminate.

Lemma order_tail_100 h0 l : ok step_order {| q := 100; h := h0 |} l -> l = [].
Proof.
  destruct l as [|ev l]; [reflexivity|]. intros H. exfalso.
  destruct (ok_cons_inv _ _ _ _ H) as (st' & Hs & _). order_step Hs.
  destruct ev as [id body|p vs|c|c r|w v|n|ss| |o]; cbn [delta] in Hs;
    try destruct c; try destruct w; try (destruct o as [|k|]; [| destruct k |]); delta_cases Hs.
Qed.

Lemma order_tail_62 h0 l : ok step_order {| q := 62; h := h0 |} l -> ends_only l = true.
Proof.
  destruct l as [|ev l]; [reflexivity|]. intros H.
  destruct (ok_cons_inv _ _ _ _ H) as (st' & Hs & Hl). order_step Hs.
  destruct ev as [id body|p vs|c|c r|w v|n|ss| |o]; cbn [delta] in Hs;
    try destruct c; try destruct w; try (destruct o as [|k|]; [| destruct k |]); delta_cases Hs;
    inversion Hs; subst st'; apply order_tail_100 in Hl; subst l; reflexivity.
Qed.

Lemma order_tail_61 h0 l : ok step_order {| q := 61; h := h0 |} l -> disconnect_tail l = true.
Proof.
  destruct l as [|ev l]; [reflexivity|]. intros H.
  destruct (ok_cons_inv _ _ _ _ H) as (st' & Hs & Hl). order_step Hs.
  destruct ev as [id body|p vs|c|c r|w v|n|ss| |o]; cbn [delta] in Hs;
    try destruct c; try destruct w; try (destruct o as [|k|]; [| destruct k |]); delta_cases Hs;
    inversion Hs; subst st';
    first [ apply order_tail_100 in Hl; subst l; reflexivity
          | apply order_tail_62 in Hl; cbn [disconnect_tail]; rewrite Hl;
            match goal with H0 : is_pkt _ configuration_cb_DisconnectPacket = true |- _ => rewrite H0 end; reflexivity ].
Qed.

Lemma order_tail_60 h0 l : ok step_order {| q := 60; h := h0 |} l -> timeout_tail l = true.
Proof.
  destruct l as [|ev l]; [reflexivity|]. intros H.
  destruct (ok_cons_inv _ _ _ _ H) as (st' & Hs & Hl). order_step Hs.
  destruct ev as [id body|p vs|c|c r|w v|n|ss| |o]; cbn [delta] in Hs;
    try destruct c; try destruct w; try (destruct o as [|k|]; [| destruct k |]); delta_cases Hs;
    inversion Hs; subst st';
    first [ apply order_tail_100 in Hl; subst l; reflexivity
          | apply order_tail_61 in Hl; cbn [timeout_tail]; exact Hl ].
Qed.

Theorem run3_verdict_stands o cfg e encf loclat cap sch s pre loc post :
  untime (trace_of (run3 o cfg e encf loclat cap sch s)) = pre ++ TCall (CLocalize loc key_timeout) :: post ->
  timeout_tail post = true.
Proof.
  intros Heq. pose proof (run3_order_ok o cfg e encf loclat cap sch s) as Hok. rewrite Heq in Hok.
  destruct (run_split _ _ _ _ _ Hok) as (st1 & st2 & Hpre & Hstep).
  assert (Hpost : ok step_order st2 post).
  { unfold ok in *. rewrite (run_app mst step_order) in Hok. rewrite Hpre in Hok. cbn [run] in Hok. rewrite Hstep in Hok. exact Hok. }
  destruct (step_with_inv _ _ _ _ Hstep) as [[Hi _]|(q' & Hd & _ & ->)].
  - unfold internal_at, internal in Hi. rewrite !andb_false_r in Hi. discriminate.
  - cbn [delta] in Hd.
    assert (Hb : beq key_timeout key_timeout = true) by (vm_compute; reflexivity).
    rewrite Hb in Hd. destruct (resting (q st1)); [|discriminate]. inversion Hd; subst q'.
    eapply order_tail_60. exact Hpost.
Qed.

(* ================= non-vacuity ================= *)
Definition ex_st2 (ka : option Z) : st2 :=
  {| b_now := 0; b_dl := 0; b_ka := ka; b_in := []; b_eof := None; b_nka := 0; b_nnow := 0; b_rd := RIdle |}.
Definition ex_flush : st3 :=
  {| c2 := ex_st2 None; c_unsent := [1; 2; 3; 4; 5; 6; 7; 8; 9; 10]; c_cap := Some 3;
     c_sch := [(5, Some 0); (9, None)]; c_missed := MNo |}.

(* 3 bytes accepted at once, then no room; the race ends the wait at 7, before room appears at 9:
   the rest of the frame stays queued *)
Example flush_cut_example :
  (let '(o, s', r) := flush (Some 7) ex_flush in (o, c_unsent s', now3 s', r))
  = ([OW 0 [1; 2; 3]], [4; 5; 6; 7; 8; 9; 10], 7, FlCut).
Proof. vm_compute. reflexivity. Qed.

(* not raced: the write waits until room appears at 9 and the frame is completed *)
Example flush_done_example :
  (let '(o, s', r) := flush None ex_flush in (o, c_unsent s', now3 s', r))
  = ([OW 0 [1; 2; 3]; OW 9 [4; 5; 6; 7; 8; 9; 10]], [], 9, FlDone).
Proof. vm_compute. reflexivity. Qed.

(* room never comes back: the handler hangs in the write *)
Example flush_hang_example :
  (let '(o, s', r) := flush None {| c2 := ex_st2 None; c_unsent := [1; 2; 3]; c_cap := Some 2; c_sch := [(4, Some 0)]; c_missed := MNo |}
   in (o, c_unsent s', r))
  = ([OW 0 [1; 2]], [3], FlHang).
Proof. vm_compute. reflexivity. Qed.

(* a raced discovery call (3 ms) while the Keep Alive is unanswered and localize() suspends 5 ms:
   the tick decides, the localize call is abandoned by the race; then
   - the discovery failed: its error ends the connection after the bare tick (the path that needs
     [adapter_end_ok] / errs_ok of the resting state);
   - the discovery answered: the verdict is resumed, the localize call made again, the Disconnect
     written, the connection ends with the missed keep-alive; the discovery result is dropped *)
Definition ex_cfg : conn_cfg :=
  {| cf_client := {| sa_ip := []; sa_port := 0 |}; cf_secret := None; cf_max_len := 100; cf_expiry := 0; cf_pubkey := [] |}.
Definition ex_env (r : cres) : env :=
  {| e_res := fun c => match c with CDiscover => (r, 3) | _ => (RText [65], 0) end;
     e_fresh := fun _ _ => []; e_now := fun _ => 0 |}.
Definition ex_encf (p : packet) (vs : list fv) : option bytes := Some [7].
Definition ex_race : prog := Race None CDiscover (fun _ => Ret OOk).
Definition ex_s3 : st3 := {| c2 := ex_st2 (Some 1); c_unsent := []; c_cap := None; c_sch := []; c_missed := MNo |}.

Example race_verdict_adapter_failed :
  let out := exec3 ex_cfg (ex_env RErr) ex_encf 5 ex_race ex_s3 in
  trace_of out = [(0, TCall CDiscover); (0, TTick); (3, TEnd (OErr KAdapter))]
  /\ abandoned_of out = [(0, CLocalize None key_timeout)]
  /\ wire_of out = [].
Proof. vm_compute. repeat split; reflexivity. Qed.

Example race_verdict_resumed :
  let out := exec3 ex_cfg (ex_env (RTargets [])) ex_encf 5 ex_race ex_s3 in
  untime (trace_of out)
    = [TCall CDiscover; TTick; TCall (CLocalize None key_timeout); TRes (CLocalize None key_timeout) (RText [65]);
       TSend configuration_cb_DisconnectPacket [VB [65]]; TEnd (OErr KMissedKA)]
  /\ map fst (trace_of out) = [0; 0; 3; 8; 8; 8]
  /\ calls_of out = [(0, CDiscover); (0, CLocalize None key_timeout); (3, CLocalize None key_timeout)]
  /\ map fst (wire_of out) = [8].
Proof. vm_compute. repeat split; reflexivity. Qed.
