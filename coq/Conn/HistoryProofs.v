(* Reading the monitors: every event recorded in a monitor's history passed the property's
   check in the state reached before it.  This turns "the monitor accepts" into statements
   about what must have happened earlier on the same connection. *)
From Passage Require Import Lib.Bytes Codec.VarInt Codec.Desc Gen.PacketsGen Gen.ConstsGen
  Codec.PacketCheck Crypto.Cookie Conn.Types Conn.Prog Conn.Sem1 Conn.Monitor Conn.Order Conn.Checks.

Section Hist.
  Variable chk : mst -> tev -> bool.

  Inductive reach : mst -> Prop :=
  | reach_init : reach m_init
  | reach_step : forall st e st', reach st -> step_with chk st e = Some st' -> reach st'.

  Lemma run_reach : forall tr st st', reach st -> run (step_with chk) st tr = Some st' -> reach st'.
  Proof.
    induction tr as [|e tr IH]; intros st st' Hr H; cbn [run] in H.
    - inversion H; subst; exact Hr.
    - destruct (step_with chk st e) as [st1|] eqn:E; [|discriminate].
      apply (IH st1 st'); [eapply reach_step; eauto | exact H].
  Qed.

  (* every recorded event passed the automaton and the check in an earlier reachable state,
     whose history is the part of the history before that event *)
  Theorem history_checked : forall st, reach st ->
    forall e newer older, h st = newer ++ e :: older ->
    exists st1, reach st1 /\ h st1 = older /\ chk st1 e = true /\ delta (q st1) e <> None.
  Proof.
    intros st Hr. induction Hr as [|st e0 st' Hr IH Hs]; intros e newer older Hh.
    - cbn in Hh. destruct newer; discriminate.
    - unfold step_with in Hs. destruct (internal_at (q st) e0).
      + inversion Hs; subst. apply (IH e newer older Hh).
      + destruct (delta (q st) e0) as [q'|] eqn:Ed; [|discriminate].
        destruct (chk st e0) eqn:Ec; [|discriminate]. inversion Hs; subst. cbn [h] in Hh.
        destruct newer as [|x newer].
        * cbn in Hh. inversion Hh; subst. exists st. repeat split; try assumption. rewrite Ed. discriminate.
        * cbn in Hh. inversion Hh; subst. apply (IH e newer older). assumption.
  Qed.

  Lemma find_ev_in {A} (f : tev -> option A) : forall l a, find_ev f l = Some a ->
    exists newer e older, l = newer ++ e :: older /\ f e = Some a.
  Proof.
    induction l as [|x l IH]; intros a H; cbn [find_ev] in H; [discriminate|].
    destruct (f x) as [b|] eqn:E.
    - inversion H; subst. exists [], x, l. auto.
    - destruct (IH a H) as (n & e & ol & -> & He). exists (x :: n), e, ol. auto.
  Qed.
End Hist.
