From Passage Require Import Lib.Bytes Conn.SendQueue.

(* at every moment: what is on the wire followed by what is still queued is exactly the
   concatenation of the frames handed to send_packet, in order - for every acceptance pattern
   (Pending, partial, whole) and every placement of cancellations *)
Lemma wstep_inv s o : wire s ++ unsent s = sentlog s -> wire (wstep s o) ++ unsent (wstep s o) = sentlog (wstep s o).
Proof.
  intros H. destruct o as [f|n|]; cbn [wstep wire unsent sentlog].
  - rewrite app_assoc, H. reflexivity.
  - rewrite <- app_assoc, firstn_skipn. exact H.
  - exact H.
Qed.

Theorem wrun_inv_from ops : forall s, wire s ++ unsent s = sentlog s ->
  wire (fold_left wstep ops s) ++ unsent (fold_left wstep ops s) = sentlog (fold_left wstep ops s).
Proof. induction ops as [|o ops IH]; intros s H; cbn [fold_left]; [exact H | apply IH, wstep_inv, H]. Qed.

Theorem frames_intact ops : wire (wrun ops) ++ unsent (wrun ops) = sentlog (wrun ops).
Proof. apply wrun_inv_from. reflexivity. Qed.

(* hence the wire is always a prefix of the frames in order: no byte lost, reordered or interleaved *)
Corollary wire_is_prefix ops : exists rest, sentlog (wrun ops) = wire (wrun ops) ++ rest.
Proof. exists (unsent (wrun ops)). symmetry. apply frames_intact. Qed.

(* and once the queue has drained the wire is exactly the frames *)
Corollary drained_complete ops : unsent (wrun ops) = [] -> wire (wrun ops) = sentlog (wrun ops).
Proof. intros H. pose proof (frames_intact ops) as E. rewrite H, app_nil_r in E. exact E. Qed.

(* the pre-repair handler tears: on the K3 schedule the wire is not a prefix of the frames;
   the repaired queue on the same schedule is intact *)
Theorem old_send_tears :
  o_wire (orun k3_ops) = [9; 4; 0; 2; 11; 5]
  /\ o_log (orun k3_ops) = [9; 4; 0; 0; 0; 0; 0; 0; 0; 7; 2; 11; 5]
  /\ wire (wrun k3_ops) = [9; 4; 0; 0; 0; 0; 0; 0; 0; 7; 2; 11; 5].
Proof. vm_compute. repeat split; reflexivity. Qed.
