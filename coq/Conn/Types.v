(* Vocabulary of the connection model: targets, adapter calls and results, outcomes,
   trace events.  Definitions only. *)
From Passage Require Import Lib.Bytes Codec.VarInt Codec.Desc Gen.PacketsGen.

(* an IP address is carried as its canonical text (Rust Display); Lib/IpText.v models and
   the iptext correspondence validates that text; equality of canonical texts is equality
   of addresses *)
Record sockaddr := { sa_ip : bytes; sa_port : Z }.

Record target := { t_id : bytes; t_addr : sockaddr; t_meta : list (bytes * bytes) }.

Record pprop := { pp_name : bytes; pp_value : bytes; pp_sig : option bytes }.

Record auth_cookie := {
  ac_ts : Z; ac_addr : sockaddr; ac_name : bytes; ac_uuid : Z;
  ac_target : option bytes; ac_props : list pprop; ac_extra : list (bytes * bytes) }.

Record session_cookie := { sc_id : Z; sc_host : bytes; sc_port : Z }.

(* result of serde_json on a cookie payload: oracle, recorded per case *)
Inductive jres (A : Type) := JOk (a : A) | JErr.
Arguments JOk {A} a.
Arguments JErr {A}.

Inductive call :=
| CStatus (client : sockaddr) (host : bytes) (port : Z) (proto : Z)
| CAuth (client : sockaddr) (host : bytes) (port : Z) (proto : Z)
        (name : bytes) (uuid : Z) (secret : bytes) (pubkey : bytes)
| CDiscover
| CFilter (client : sockaddr) (host : bytes) (port : Z) (proto : Z)
          (name : bytes) (uuid : Z) (targets : list target)
| CSelect (client : sockaddr) (host : bytes) (port : Z) (proto : Z)
          (name : bytes) (uuid : Z) (targets : list target)
| CLocalize (locale : option bytes) (key : bytes).

Inductive cres :=
| RStatus (json : bytes)        (* serde_json::to_string(&status): recorded *)
| RProfile (name : bytes) (uuid : Z) (props : list pprop)
| RTargets (ts : list target)
| RTarget (t : option target)
| RText (s : bytes)
| RErr.

(* error kinds of passage_protocol::Error (finer than as_label) *)
Inductive ekind :=
| KClosed | KIllegalLen | KIllegalEnum | KUnexpectedId | KUtf8 | KJson | KCrypto
| KInvalidToken | KAdapter | KMissedKA | KNoTarget | KInternalIo | KArray | KNbt | KPanic.

(* OHang: the handler waits forever (a silent client outside the keep-alive phases; the
   listener's deadline is what ends such a connection) *)
Inductive outcome := OOk | OErr (e : ekind) | OHang.

Definition ekind_eqb (a b : ekind) : bool :=
  match a, b with
  | KClosed, KClosed | KIllegalLen, KIllegalLen | KIllegalEnum, KIllegalEnum
  | KUnexpectedId, KUnexpectedId | KUtf8, KUtf8 | KJson, KJson | KCrypto, KCrypto
  | KInvalidToken, KInvalidToken | KAdapter, KAdapter | KMissedKA, KMissedKA
  | KNoTarget, KNoTarget | KInternalIo, KInternalIo | KArray, KArray | KNbt, KNbt
  | KPanic, KPanic => true
  | _, _ => false
  end.
Definition outcome_eqb (a b : outcome) : bool :=
  match a, b with
  | OOk, OOk => true
  | OErr x, OErr y => ekind_eqb x y
  | OHang, OHang => true
  | _, _ => false
  end.

(* how a decode error of passage-packets surfaces in passage-protocol (error.rs) *)
Definition err_kind (e : err) : ekind :=
  match e with
  | EEof => KClosed          (* io UnexpectedEof -> ConnectionClosed *)
  | EUtf8 => KUtf8
  | EEnum => KIllegalEnum
  | EArray => KArray
  | ELen => KIllegalLen
  | EPanic => KPanic
  | EUnmodelled => KNbt
  end.

(* what is "fresh" on a connection *)
Inductive rnd := RToken | RKeepAlive | RUuid.

(* trace events, in the order the handler produces / consumes them *)
Inductive tev :=
| TRecv (id : Z) (body : bytes)            (* a frame consumed by the handler *)
| TSend (p : packet) (vs : list fv)        (* a packet written *)
| TCall (c : call)
| TRes (c : call) (r : cres)
| TFresh (w : rnd) (v : bytes)
| TNow (n : Z)
| TEnc (secret : bytes)                    (* encryption switched on with this secret *)
| TTick                                     (* a keep-alive tick acted upon *)
| TEnd (o : outcome).

Definition timed := (Z * tev)%type.        (* virtual ms since the connection started *)

(* ----- boolean equalities used by monitors and checkers ----- *)
Definition sa_eqb (a b : sockaddr) : bool := beq (sa_ip a) (sa_ip b) && (sa_port a =? sa_port b).
Fixpoint meta_eqb (a b : list (bytes * bytes)) : bool :=
  match a, b with
  | [], [] => true
  | (k, v) :: a', (k', v') :: b' => beq k k' && beq v v' && meta_eqb a' b'
  | _, _ => false
  end.
Definition target_eqb (a b : target) : bool :=
  beq (t_id a) (t_id b) && sa_eqb (t_addr a) (t_addr b) && meta_eqb (t_meta a) (t_meta b).
Fixpoint targets_eqb (a b : list target) : bool :=
  match a, b with
  | [], [] => true
  | x :: a', y :: b' => target_eqb x y && targets_eqb a' b'
  | _, _ => false
  end.
Definition obytes_eq (a b : option bytes) : bool :=
  match a, b with Some x, Some y => beq x y | None, None => true | _, _ => false end.
Definition pprop_eqb (a b : pprop) : bool :=
  beq (pp_name a) (pp_name b) && beq (pp_value a) (pp_value b) && obytes_eq (pp_sig a) (pp_sig b).
Fixpoint pprops_eqb (a b : list pprop) : bool :=
  match a, b with
  | [], [] => true
  | x :: a', y :: b' => pprop_eqb x y && pprops_eqb a' b'
  | _, _ => false
  end.

Definition call_eqb (a b : call) : bool :=
  match a, b with
  | CStatus c h p v, CStatus c' h' p' v' => sa_eqb c c' && beq h h' && (p =? p') && (v =? v')
  | CAuth c h p v n u s k, CAuth c' h' p' v' n' u' s' k' =>
      sa_eqb c c' && beq h h' && (p =? p') && (v =? v') && beq n n' && (u =? u') && beq s s' && beq k k'
  | CDiscover, CDiscover => true
  | CFilter c h p v n u ts, CFilter c' h' p' v' n' u' ts' =>
      sa_eqb c c' && beq h h' && (p =? p') && (v =? v') && beq n n' && (u =? u') && targets_eqb ts ts'
  | CSelect c h p v n u ts, CSelect c' h' p' v' n' u' ts' =>
      sa_eqb c c' && beq h h' && (p =? p') && (v =? v') && beq n n' && (u =? u') && targets_eqb ts ts'
  | CLocalize l k, CLocalize l' k' => obytes_eq l l' && beq k k'
  | _, _ => false
  end.
