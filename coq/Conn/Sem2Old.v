(* M2: byte-level semantics of the connection program, including what tokio's select!
   does to a partly read frame.  Input = timed bytes.  Writes are atomic (as in M1).

   receive_packet, as written:
     phase A  loop { select! { biased; tick => (keep-alive work | continue),
                               read_varint => break } }
              - the read_varint future is re-created on every iteration: a tick that is taken
                while some bytes of the length prefix have been consumed LOSES those bytes;
     phase B  read the id and the body (`take(len)`): no select!, so no tick is taken until
              the frame is complete - a tick falling due meanwhile is DEFERRED;
   and the whole keep_alive() future is dropped by the outer select! of `listen` when the
   raced adapter call completes: every byte consumed for an incomplete frame is LOST.

   Definitions only.  M1 (Sem1.v) is M2 restricted to schedules in which every frame arrives
   at one instant with no tick / completion inside (validated case by case in Run/CaseConn.v;
   the divergences are the known classes K1 / K4, exhibited in Props/C08.v). *)
From Passage Require Import Lib.Bytes Codec.VarInt Codec.Desc Gen.PacketsGen Gen.ConstsGen
  Codec.PacketCheck Conn.Types Conn.Prog Conn.Sem1.

(* THE HANDLER BEFORE THE REPAIR of receive_packet (partly read frames were owned by futures that select!
   drops).  Kept for the witness theorems of the repaired classes K1 / K4 (Conn/Sem2Witness.v). *)
Module OldM2.

Definition bstream := list (Z * Z).            (* (arrival time ms, byte) *)

Record st2 := {
  b_now : Z; b_dl : Z; b_ka : option Z;
  b_in : bstream; b_eof : option Z;             (* end of stream after the last byte, at that time *)
  b_nka : nat; b_nnow : nat }.

(* how a frame read ends *)
Inductive rres :=
| RGot (id : Z) (body : bytes) (s : st2)       (* a complete (or, at end of stream, short) frame *)
| RCut (s : st2)                               (* the raced adapter call completed: the wait was dropped *)
| REnd (fin : trace).                          (* the connection ends; [fin] = the closing events not yet emitted *)

Section Sem2.
  Variable cfg : conn_cfg.
  Variable e : env.

  Definition upd (s : st2) now dl ka inp nka : st2 :=
    {| b_now := now; b_dl := dl; b_ka := ka; b_in := inp; b_eof := b_eof s; b_nka := nka; b_nnow := b_nnow s |}.

  (* keep-alive mode of a wait: None = receive_packet(false); Some locale = keep-alive on *)
  Definition kamode := option (option bytes).

  Definition cut (h : Z) (s : st2) : rres := RCut (upd s (Z.max h (b_now s)) (b_dl s) (b_ka s) (b_in s) (b_nka s)).

  (* the frame as far as it was read: the id VarInt, then the body *)
  Definition deliver (got : bytes) (s : st2) : rres :=
    match rd_var 5 0 0 got with
    | Ok raw body => RGot (wrap32 raw) body s
    | Er _ => REnd [(b_now s, TEnd (OErr KClosed))]    (* UnexpectedEof inside the id VarInt *)
    end.

  (* phase B: [need] more bytes of the frame; [got] = frame bytes so far.  No tick is taken. *)
  Fixpoint phase_b (fuel : nat) (hz : option Z) (s : st2) (need : Z) (got : bytes) : rres :=
    match fuel with
    | O => REnd [(b_now s, TEnd OHang)]
    | S f =>
        if need <=? 0 then deliver got s
        else
          match b_in s with
          | (t, b) :: rest =>
              let t' := Z.max t (b_now s) in
              match hz with
              | Some h => if h <=? t' then cut h s
                          else phase_b f hz (upd s t' (b_dl s) (b_ka s) rest (b_nka s)) (need - 1) (got ++ [b])
              | None => phase_b f hz (upd s t' (b_dl s) (b_ka s) rest (b_nka s)) (need - 1) (got ++ [b])
              end
          | [] =>
              match b_eof s, hz with
              | Some te, Some h =>
                  if h <=? Z.max te (b_now s) then cut h s
                  else deliver got (upd s (Z.max te (b_now s)) (b_dl s) (b_ka s) [] (b_nka s))
              | Some te, None => deliver got (upd s (Z.max te (b_now s)) (b_dl s) (b_ka s) [] (b_nka s))
              | None, Some h => cut h s
              | None, None => REnd [(b_now s, TEnd OHang)]    (* waits for the rest of the frame forever *)
              end
          end
    end.

  (* phase A: the length prefix, with ticks; [k] bytes of the prefix consumed, value [acc] *)
  Fixpoint phase_a (fuel : nat) (m : kamode) (hz : option Z) (s : st2) (k : nat) (acc : Z) : trace * rres :=
    match fuel with
    | O => ([], REnd [(b_now s, TEnd OHang)])
    | S f =>
        (* the next thing the stream can do: a byte, the end of stream, or nothing *)
        let tin := match b_in s, b_eof s with
                   | (t, _) :: _, _ => Some (Z.max t (b_now s))
                   | [], Some te => Some (Z.max te (b_now s))
                   | [], None => None
                   end in
        let tt := Z.max (b_dl s) (b_now s) in
        let horizon_first :=
          match hz with
          | Some h => (match tin with Some t => h <=? t | None => true end) && (h <=? tt)
          | None => false
          end in
        let tick_first := match tin with Some t => tt <=? t | None => true end in
        if horizon_first then
          ([], match hz with Some h => cut h s | None => RCut s end)
        else if tick_first then
          match m with
          | None =>
              (* receive_packet(false): ticks are taken and ignored - but the partly read
                 length prefix goes with the dropped read_varint future *)
              match tin with
              | None => ([], REnd [(b_now s, TEnd OHang)])
              | Some t => phase_a f m hz (upd s (b_now s) (skip_ticks (b_dl s) (b_now s) t) (b_ka s) (b_in s) (b_nka s)) 0 0
              end
          | Some loc =>
              match tick_at e loc tt (b_dl s) (b_ka s) (b_nka s) with
              | (tr, None) => (tr, REnd [])
              | (tr, Some (dl', ka', nka')) =>
                  let (tr2, r) := phase_a f m hz (upd s tt dl' ka' (b_in s) nka') 0 0 in
                  (tr ++ tr2, r)
              end
          end
        else
          match b_in s with
          | (t, b) :: rest =>
              let t' := Z.max t (b_now s) in
              let acc' := acc + (b mod 128) * 2 ^ (7 * Z.of_nat k) in
              let s' := upd s t' (b_dl s) (b_ka s) rest (b_nka s) in
              if (b <? 128) || (4 <=? k)%nat then
                let len := wrap32 acc' in
                if (len <=? 0) || (cf_max_len cfg <? len) then ([], REnd [(t', TEnd (OErr KIllegalLen))])
                else ([], phase_b (S (length rest)) hz s' len [])
              else phase_a f m hz s' (S k) acc'
          | [] =>
              (* end of stream while (or before) reading the length *)
              ([], REnd [(match b_eof s with Some te => Z.max te (b_now s) | None => b_now s end, TEnd (OErr KClosed))])
          end
    end.

  Definition fuel_of (s : st2) : nat := (3 * length (b_in s) + 12)%nat.

  Definition read_frame (m : kamode) (hz : option Z) (s : st2) : trace * rres :=
    phase_a (fuel_of s) m hz s 0 0.

  (* the keep-alive loop over frames read at byte level *)
  Fixpoint ka_loop2 (fuel : nat) (info : bool) (loc : option bytes) (hz : option Z) (s : st2)
    : trace * (list fv * st2 + st2 + unit) :=
    match fuel with
    | O => ([(b_now s, TEnd OHang)], inr tt)
    | S f =>
        match read_frame (Some loc) hz s with
        | (tr, REnd fin) => (tr ++ fin, inr tt)
        | (tr, RCut s') => (tr, inl (inr s'))
        | (tr, RGot id body s') =>
            match conf_frame cfg info (b_ka s') id body with
            | FEnd o => (tr ++ [(b_now s', TRecv id body); (b_now s', TEnd o)], inr tt)
            | FInfo vs => (tr ++ [(b_now s', TRecv id body)], inl (inl (vs, s')))
            | FCont ka'' =>
                let (tr2, r) := ka_loop2 f info loc hz (upd s' (b_now s') (b_dl s') ka'' (b_in s') (b_nka s')) in
                (tr ++ (b_now s', TRecv id body) :: tr2, r)
            end
        end
    end.

  Fixpoint exec2 (p : prog) (s : st2) {struct p} : trace :=
    match p with
    | Ret o => [(b_now s, TEnd o)]
    | Expect k =>
        match read_frame None None s with
        | (tr, REnd fin) => tr ++ fin
        | (tr, RCut s') => tr ++ [(b_now s', TEnd OHang)]
        | (tr, RGot id body s') =>
            if negb (len_ok cfg id body) then tr ++ [(b_now s', TRecv id body); (b_now s', TEnd (OErr KIllegalLen))]
            else tr ++ (b_now s', TRecv id body) :: exec2 (k id body) s'
        end
    | WaitInfo loc k =>
        match ka_loop2 (S (length (b_in s))) true loc None s with
        | (tr, inl (inl (vs, s'))) => tr ++ exec2 (k vs) s'
        | (tr, inl (inr s')) => tr ++ [(b_now s', TEnd OHang)]
        | (tr, inr _) => tr
        end
    | Race loc c k =>
        let (r, lat) := e_res e c in
        let h := b_now s + Z.max lat 1 in
        match ka_loop2 (S (length (b_in s))) false loc (Some h) s with
        | (tr, inl (inr s')) => ((b_now s, TCall c) :: tr) ++ (h, TRes c r) :: exec2 (k r) s'
        | (tr, inl (inl _)) => (b_now s, TCall c) :: tr
        | (tr, inr _) => (b_now s, TCall c) :: tr
        end
    | Call c k =>
        let (r, lat) := e_res e c in
        let t := b_now s + Z.max lat 0 in
        (b_now s, TCall c) :: (t, TRes c r) :: exec2 (k r) (upd s t (b_dl s) (b_ka s) (b_in s) (b_nka s))
    | Send pk vs k => (b_now s, TSend pk vs) :: exec2 k s
    | EncOn ss k => (b_now s, TEnc ss) :: exec2 k s
    | Fresh w k =>
        match w with
        | RKeepAlive => let v := e_fresh e w (b_nka s) in (b_now s, TFresh w v) :: exec2 (k v) s
        | _ => let v := e_fresh e w 0%nat in (b_now s, TFresh w v) :: exec2 (k v) s
        end
    | Now k =>
        let n := e_now e (b_nnow s) in
        (b_now s, TNow n) :: exec2 (k n) {| b_now := b_now s; b_dl := b_dl s; b_ka := b_ka s; b_in := b_in s;
                                            b_eof := b_eof s; b_nka := b_nka s; b_nnow := S (b_nnow s) |}
    end.
End Sem2.

Fixpoint bytes_of_segs (s : list (Z * option bytes)) : bstream * option Z :=
  match s with
  | [] => ([], None)
  | (t, None) :: _ => ([], Some t)
  | (t, Some bs) :: r => let (l, eo) := bytes_of_segs r in (map (fun b => (t, b)) bs ++ l, eo)
  end.

Definition init2 (s : list (Z * option bytes)) : st2 :=
  let (l, eo) := bytes_of_segs s in
  {| b_now := 0; b_dl := 0; b_ka := None; b_in := l; b_eof := eo; b_nka := 0; b_nnow := 0 |}.

Definition run2 (o : oracles) (cfg : conn_cfg) (e : env) (s : list (Z * option bytes)) : trace :=
  exec2 cfg e (listen o cfg) (init2 s).

End OldM2.
