(* Trace monitors and the predicate transformer [safe]: a static walk over a program that
   guarantees the monitor accepts EVERY trace the M1 interpreter can produce from it, for
   every environment, every inbox and every timing.  Definitions only (proofs in
   MonitorProofs.v). *)
From Passage Require Import Lib.Bytes Codec.VarInt Codec.Desc Gen.PacketsGen Gen.ConstsGen
  Codec.PacketCheck Conn.Types Conn.Prog Conn.Sem1.

Definition untime (tr : trace) : list tev := map snd tr.

Definition ci_id : Z := p_id configuration_sb_ClientInformationPacket.

Definition is_pkt (p q : packet) : bool :=
  String.eqb (p_state p) (p_state q) && String.eqb (p_dir p) (p_dir q) && String.eqb (p_name p) (p_name q).

Section Mon.
  Variable S : Type.
  Variable step : S -> tev -> option S.

  Fixpoint run (st : S) (tr : list tev) : option S :=
    match tr with
    | [] => Some st
    | e :: r => match step st e with Some st' => run st' r | None => None end
    end.

  Definition ok (st : S) (tr : list tev) : Prop := run st tr <> None.

  (* the monitor tolerates the connection ending unsuccessfully here (a panic is never an
     acceptable end: no program ever produces it, see safe_sound) *)
  Definition errs_ok (st : S) : Prop :=
    forall o, o <> OOk -> o <> OErr KPanic -> step st (TEnd o) <> None.

  (* events the keep-alive loops produce on their own *)
  Definition internal (info : bool) (e : tev) : bool :=
    match e with
    | TTick => true
    | TFresh RKeepAlive _ => true
    | TSend p _ => is_pkt p configuration_cb_KeepAlivePacket
    | TRecv id _ => if info then negb (id =? ci_id) else true
    | _ => false
    end.

  (* [st] is a resting state of a keep-alive loop: internal events leave it unchanged, the
     connection may end with an error, and the timeout exit is accepted *)
  Definition ka_inv (info : bool) (loc : option bytes) (st : S) : Prop :=
    (forall e, internal info e = true -> step st e = Some st)
    /\ errs_ok st
    /\ (forall r,
          let c := CLocalize loc key_timeout in
          match r with
          | RText msg => ok st [TTick; TCall c; TRes c r;
                                TSend configuration_cb_DisconnectPacket [VB msg]; TEnd (OErr KMissedKA)]
          | _ => ok st [TTick; TCall c; TRes c r; TEnd (OErr KAdapter)]
          end).

  Fixpoint safe (st : S) (p : prog) : Prop :=
    match p with
    | Ret o => step st (TEnd o) <> None
    | Expect k =>
        errs_ok st /\
        forall id body, match step st (TRecv id body) with
                        | Some st' => step st' (TEnd (OErr KIllegalLen)) <> None /\ safe st' (k id body)
                        | None => False
                        end
    | WaitInfo loc k =>
        ka_inv true loc st /\
        forall body, match step st (TRecv ci_id body) with
                     | Some st' =>
                         errs_ok st' /\
                         forall vs rest,
                           dec vi vl (rkinds configuration_sb_ClientInformationPacket) body = Ok vs rest ->
                           safe st' (k vs)
                     | None => False
                     end
    | Race loc c k =>
        match step st (TCall c) with
        | Some st1 => ka_inv false loc st1 /\
                      forall r, match step st1 (TRes c r) with
                                | Some st2 => safe st2 (k r)
                                | None => False
                                end
        | None => False
        end
    | Call c k =>
        match step st (TCall c) with
        | Some st1 => forall r, match step st1 (TRes c r) with
                                | Some st2 => safe st2 (k r)
                                | None => False
                                end
        | None => False
        end
    | Send pk vs k => match step st (TSend pk vs) with Some st' => safe st' k | None => False end
    | EncOn ss k => match step st (TEnc ss) with Some st' => safe st' k | None => False end
    | Fresh w k => forall v, match step st (TFresh w v) with Some st' => safe st' (k v) | None => False end
    | Now k => forall n, match step st (TNow n) with Some st' => safe st' (k n) | None => False end
    end.
End Mon.

Arguments run {S} step st tr.
Arguments ok {S} step st tr.
Arguments errs_ok {S} step st.
Arguments ka_inv {S} step info loc st.
Arguments safe {S} step st p.

(* boolean acceptance, for evaluation on recorded traces *)
Definition accepts {S} (step : S -> tev -> option S) (init : S) (tr : list tev) : bool :=
  match run step init tr with Some _ => true | None => false end.
