(* C08, refinement M2 -> M1 for the repaired receive_packet: the byte-level run equals, event
   for event and instant for instant, the frame-level run on the reader's output - whatever the
   segmentation, wherever keep-alive ticks and completions of raced adapter calls fall. *)
From Passage Require Import Lib.Bytes Codec.VarInt Codec.Desc Gen.PacketsGen Gen.ConstsGen
  Codec.PacketCheck Conn.Types Conn.Prog Conn.Sem1 Conn.Reader Conn.ReaderProofs Conn.Sem2 Conn.Refine2Defs.

(* ------------------------------------------------------------------------------------ *)
(* Part 0: arithmetic of the tick grid                                                    *)
(* ------------------------------------------------------------------------------------ *)
Lemma P_gt5 : 5 < P. Proof. vm_compute. reflexivity. Qed.

Local Opaque P.

Lemma fire_gt d now : now < fire d now.
Proof.
  pose proof P_gt5 as HP. unfold fire. destruct (Z.ltb_spec (d + 5) now) as [H|H]; [|lia].
  pose proof (Z.mod_pos_bound (now - d) P ltac:(lia)). lia.
Qed.

Lemma fire_le d now : d <= now -> fire d now <= now + P.
Proof.
  intros Hd. pose proof P_gt5 as HP. unfold fire. destruct (Z.ltb_spec (d + 5) now) as [H|H]; [|lia].
  pose proof (Z.mod_pos_bound (now - d) P ltac:(lia)). lia.
Qed.

Lemma skip_ticks_id d now t : t < d -> skip_ticks d now t = d.
Proof. intros H. unfold skip_ticks. destruct (Z.ltb_spec t d); [reflexivity | lia]. Qed.

Lemma skip_ticks_gt d now t : t < skip_ticks d now t.
Proof.
  pose proof P_gt5 as HP. unfold skip_ticks. destruct (Z.ltb_spec t d) as [H|H]; [exact H|].
  cbv zeta. destruct (Z.ltb_spec t (fire d (Z.max d now))) as [H1|H1]; [exact H1|].
  remember (fire d (Z.max d now)) as d1.
  pose proof (Z.div_mod (t - d1) P ltac:(lia)) as E.
  pose proof (Z.mod_pos_bound (t - d1) P ltac:(lia)) as B.
  rewrite Z.mul_add_distr_l. lia.
Qed.

(* every deadline stays on the grid d + k * P *)
Lemma fire_grid d now : d <= now -> exists j, fire d now = d + P * j.
Proof.
  intros Hd. pose proof P_gt5 as HP. unfold fire. destruct (Z.ltb_spec (d + 5) now) as [H|H].
  - exists ((now - d) / P + 1).
    pose proof (Z.div_mod (now - d) P ltac:(lia)) as E. rewrite Z.mul_add_distr_l. lia.
  - exists 1. lia.
Qed.

(* after the ignored ticks the deadline is THE grid point in (t, t + P] *)
Lemma skip_ticks_grid d now t :
  now <= t -> d <= t -> exists j, skip_ticks d now t = d + P * j /\ t < skip_ticks d now t <= t + P.
Proof.
  intros Hn Hd. pose proof P_gt5 as HP. pose proof (skip_ticks_gt d now t) as Hgt.
  unfold skip_ticks in *. destruct (Z.ltb_spec t d) as [H|H]; [lia|]. cbv zeta in *.
  destruct (fire_grid d (Z.max d now) ltac:(lia)) as [j Hj].
  pose proof (fire_le d (Z.max d now) ltac:(lia)) as Hle.
  destruct (Z.ltb_spec t (fire d (Z.max d now))) as [H1|H1].
  - exists j. split; [exact Hj|]. lia.
  - remember (fire d (Z.max d now)) as d1.
    pose proof (Z.div_mod (t - d1) P ltac:(lia)) as E.
    pose proof (Z.mod_pos_bound (t - d1) P ltac:(lia)) as B.
    exists (j + ((t - d1) / P + 1)). split; [rewrite !Z.mul_add_distr_l in *; lia|].
    rewrite Z.mul_add_distr_l in *. lia.
Qed.

Lemma grid_unique d t j1 j2 : t < d + P * j1 <= t + P -> t < d + P * j2 <= t + P -> j1 = j2.
Proof. pose proof P_gt5 as HP. intros H1 H2. nia. Qed.

(* ignoring the ticks up to c and then those up to t is ignoring those up to t *)
Lemma skip_ticks_trans d now c t :
  now <= c -> c <= t -> skip_ticks (skip_ticks d now c) now t = skip_ticks d now t.
Proof.
  intros Hc Ht. destruct (Z.ltb_spec c d) as [Hcd|Hcd]; [rewrite (skip_ticks_id d now c Hcd); reflexivity|].
  destruct (skip_ticks_grid d now c Hc Hcd) as (j1 & E1 & B1).
  destruct (skip_ticks_grid d now t ltac:(lia) ltac:(lia)) as (j2 & E2 & B2).
  destruct (Z.ltb_spec t (skip_ticks d now c)) as [H|H].
  - rewrite skip_ticks_id by exact H. rewrite E1, E2 in *. f_equal. f_equal. apply (grid_unique d t); lia.
  - destruct (skip_ticks_grid (skip_ticks d now c) now t ltac:(lia) H) as (j3 & E3 & B3).
    rewrite E3, E2 in *. rewrite E1 in *. rewrite <- Z.add_assoc, <- Z.mul_add_distr_l in *.
    f_equal. f_equal. apply (grid_unique d t); lia.
Qed.

(* the clock may advance up to the deadline without changing which ticks are ignored *)
Lemma skip_ticks_now d now c t : now <= c -> c < d -> skip_ticks d c t = skip_ticks d now t.
Proof. intros H1 H2. unfold skip_ticks. replace (Z.max d c) with d by lia. replace (Z.max d now) with d by lia. reflexivity. Qed.

(* ------------------------------------------------------------------------------------ *)
(* Part 1: the reader on timed byte streams                                               *)
(* ------------------------------------------------------------------------------------ *)
Section ReaderStream.
  Variable max : Z.

  Lemma stream_frames_feed t eof : forall bs st l,
    stream_frames max st (map (pair t) bs ++ l) eof
    = map (ev_in t) (snd (feed max st bs)) ++ stream_frames max (fst (feed max st bs)) l eof.
  Proof.
    induction bs as [|a bs IH]; intros st l; [reflexivity|].
    cbn [map app feed stream_frames].
    destruct (feed_byte max st a) as [st1 e1]. rewrite IH.
    destruct (feed max st1 bs) as [st2 e2]. cbn [fst snd]. rewrite map_app, app_assoc. reflexivity.
  Qed.

  Lemma frames_stream : forall s st,
    frames_from max st s = stream_frames max st (fst (bytes_of_segs s)) (snd (bytes_of_segs s)).
  Proof.
    induction s as [|[t [bs|]] r IH]; intros st; cbn [frames_from bytes_of_segs]; [reflexivity| |reflexivity].
    destruct (bytes_of_segs r) as [l eo] eqn:E. cbn [fst snd] in *.
    rewrite stream_frames_feed. destruct (feed max st bs) as [st' evs]. cbn [fst snd]. rewrite IH. reflexivity.
  Qed.

  (* what one byte can do to a live reader *)
  Lemma feed_byte_cases st b st' evs :
    st <> RDead -> feed_byte max st b = (st', evs) ->
    (evs = [] /\ st' <> RDead /\ st' <> RIdle)
    \/ (evs = [EvBadLen] /\ st' = RDead)
    \/ (exists fr, evs = [split_frame fr] /\ st' = RIdle).
  Proof.
    intros Hst. destruct st as [|k acc|len got|]; cbn [feed_byte]; [| | |contradiction].
    - destruct (b <? 128).
      + unfold len_done. destruct ((wrap32 (b mod 128) <=? 0) || (max <? wrap32 (b mod 128)));
          intros [= <- <-]; [right; left; split; reflexivity | left; repeat split; discriminate].
      + intros [= <- <-]. left; repeat split; discriminate.
    - destruct ((b <? 128) || (4 <=? k)%nat).
      + unfold len_done.
        match goal with |- context [if ?c then _ else _] => destruct c end;
          intros [= <- <-]; [right; left; split; reflexivity | left; repeat split; discriminate].
      + intros [= <- <-]. left; repeat split; discriminate.
    - destruct (Z.of_nat (length (got ++ [b])) =? len).
      + intros [= <- <-]. right; right. eexists; split; reflexivity.
      + intros [= <- <-]. left; repeat split; discriminate.
  Qed.

  Lemma split_frame_not_badlen fr : split_frame fr <> EvBadLen.
  Proof. unfold split_frame. destruct (rd_var 5 0 0 fr); discriminate. Qed.

  (* a byte that completes something completes exactly one thing; a frame leaves the reader idle *)
  Lemma feed_byte_ev st b st' ev evs :
    st <> RDead -> feed_byte max st b = (st', ev :: evs) ->
    evs = [] /\ match ev with EvBadLen => st' = RDead | _ => st' = RIdle end.
  Proof.
    intros Hst E. destruct (feed_byte_cases _ _ _ _ Hst E) as [(H & _) | [(H & ->) | (fr & H & ->)]].
    - discriminate H.
    - injection H as -> ->. split; reflexivity.
    - injection H as -> ->. split; [reflexivity|].
      pose proof (split_frame_not_badlen fr). destruct (split_frame fr); [reflexivity | contradiction | reflexivity].
  Qed.

  Lemma feed_byte_quiet st b st' :
    st <> RDead -> feed_byte max st b = (st', []) -> st' <> RDead /\ st' <> RIdle.
  Proof.
    intros Hst E. destruct (feed_byte_cases _ _ _ _ Hst E) as [(_ & H) | [(H & _) | (fr & H & _)]];
      [exact H | discriminate H | discriminate H].
  Qed.

  Lemma ev_in_time t ev : fst (ev_in t ev) = t.
  Proof. destruct ev; reflexivity. Qed.

  (* the next event of a frame-sorted stream is not earlier than the bytes already seen of its frame *)
  Lemma fsorted_head eof : forall l st p T ev rest,
    fsorted max st (Some p) l eof = true ->
    stream_frames max st l eof = (T, ev) :: rest -> p <= T.
  Proof.
    induction l as [|[t b] r IH]; intros st p T ev rest Hs Hf.
    - cbn [fsorted stream_frames] in *. destruct eof as [te|]; [|discriminate Hf].
      apply Z.leb_le in Hs.
      destruct (eof_events st) as [|e1 es]; cbn [map app] in Hf.
      + injection Hf as <- _ _. exact Hs.
      + injection Hf as Hf _. pose proof (ev_in_time te e1) as H1. rewrite Hf in H1. cbn in H1. lia.
    - cbn [fsorted stream_frames] in *. apply andb_prop in Hs as [Hp Hs]. apply Z.leb_le in Hp.
      destruct (feed_byte max st b) as [st' [|e1 es]].
      + cbn [map app] in Hf. specialize (IH st' t T ev rest Hs Hf). lia.
      + cbn [map app] in Hf. injection Hf as Hf _.
        pose proof (ev_in_time t e1) as H1. rewrite Hf in H1. cbn in H1. lia.
  Qed.

  Lemma fsorted_weaken eof l st p : fsorted max st (Some p) l eof = true -> fsorted max st None l eof = true.
  Proof.
    destruct l as [|[t b] r]; cbn [fsorted]; [reflexivity|].
    intros H. apply andb_prop in H as [_ H]. exact H.
  Qed.

  (* a stream that is closed but promises nothing more is empty *)
  Lemma sf_nil_eof st l eof : stream_frames max st l eof = [] -> eof = None.
  Proof.
    revert st. induction l as [|[t b] r IH]; intros st H; cbn [stream_frames] in H.
    - destruct eof as [te|]; [|reflexivity]. destruct (map (ev_in te) (eof_events st)); discriminate H.
    - destruct (feed_byte max st b) as [st' evs]. apply app_eq_nil in H as [_ H]. exact (IH _ H).
  Qed.

  Lemma closed_cons st t b r eof : closed max st ((t, b) :: r) eof = closed max (fst (feed_byte max st b)) r eof.
  Proof.
    unfold closed. destruct eof; [reflexivity|]. cbn [map snd feed].
    destruct (feed_byte max st b) as [st1 e1]. cbn [fst]. destruct (feed max st1 (map snd r)). reflexivity.
  Qed.

  Lemma sf_nil_closed : forall l st,
    st <> RDead -> stream_frames max st l None = [] -> closed max st l None = true -> l = [].
  Proof.
    induction l as [|[t b] r IH]; intros st Hst Hf Hc; [reflexivity|]. exfalso.
    rewrite closed_cons in Hc. cbn [stream_frames] in Hf.
    destruct (feed_byte max st b) as [st' evs] eqn:E. cbn [fst] in Hc.
    apply app_eq_nil in Hf as [Hev Hf]. destruct evs; [|discriminate Hev].
    destruct (feed_byte_quiet _ _ _ Hst E) as [H1 H2].
    pose proof (IH st' H1 Hf Hc) as ->. unfold closed in Hc. cbn in Hc. destruct st'; try discriminate; contradiction.
  Qed.

  (* the next event is not earlier than the next thing the stream does *)
  Lemma sf_head_src eof l st T ev rest :
    fsorted max st None l eof = true -> stream_frames max st l eof = (T, ev) :: rest ->
    match l, eof with
    | (t, _) :: _, _ => t <= T
    | [], Some te => te <= T
    | [], None => False
    end.
  Proof.
    intros Hs Hf. destruct l as [|[t b] r].
    - cbn [stream_frames] in Hf. destruct eof as [te|]; [|discriminate Hf].
      destruct (eof_events st) as [|e1 es]; cbn [map app] in Hf.
      + injection Hf as <- _ _. lia.
      + injection Hf as Hf _. pose proof (ev_in_time te e1) as H1. rewrite Hf in H1. cbn in H1. lia.
    - cbn [fsorted stream_frames] in *. cbn [andb] in Hs.
      destruct (feed_byte max st b) as [st' [|e1 es]]; cbn [map app] in Hf.
      + apply (fsorted_head eof r st' t T ev rest Hs Hf).
      + injection Hf as Hf _. pose proof (ev_in_time t e1) as H1. rewrite Hf in H1. cbn in H1. lia.
  Qed.
End ReaderStream.

(* ------------------------------------------------------------------------------------ *)
(* Part 2: the frame-level model, one wait at a time                                      *)
(* ------------------------------------------------------------------------------------ *)
Inductive step1 :=
| S1End (fin : trace) (o : outcome)
| S1Cut (s : st1)
| S1Got (id : Z) (body : bytes) (s : st1).

Definition hz_gt (hz : option Z) (T : Z) : Prop := match hz with Some h => T < h | None => True end.

Section M1.
  Variable cfg : conn_cfg.
  Variable e : env.

  Lemma tick_at_some loc tt dl ka nka tr dl' ka' nka' :
    tick_at e loc tt dl ka nka = (tr, Some (dl', ka', nka')) -> ka = None /\ dl' = fire dl tt /\ exists id, ka' = Some id.
  Proof.
    unfold tick_at. destruct ka as [x|].
    - destruct (fst (e_res e (CLocalize loc key_timeout))); intros H; discriminate H.
    - intros H. injection H as _ <- <- _. split; [reflexivity|]. split; [reflexivity | eexists; reflexivity].
  Qed.

  Lemma tick_at_dead loc tt dl x nka : snd (tick_at e loc tt dl (Some x) nka) = None.
  Proof. unfold tick_at. destruct (fst (e_res e (CLocalize loc key_timeout))); reflexivity. Qed.

  Lemma ticks_until_before loc now dl ka nka X : X < dl -> ticks_until e loc now dl ka nka X = ([], Some (dl, ka, nka)).
  Proof. intros H. unfold ticks_until. destruct (Z.ltb_spec X dl); [reflexivity | lia]. Qed.

  Lemma ticks_until_dead loc now dl x nka X :
    dl <= X -> ticks_until e loc now dl (Some x) nka X = (fst (tick_at e loc (Z.max dl now) dl (Some x) nka), None).
  Proof.
    intros H. unfold ticks_until. destruct (Z.ltb_spec X dl); [lia|].
    pose proof (tick_at_dead loc (Z.max dl now) dl x nka) as Hd.
    destruct (tick_at e loc (Z.max dl now) dl (Some x) nka) as [tr [y|]]; [discriminate Hd | reflexivity].
  Qed.

  (* the first tick, then the others *)
  Lemma ticks_until_step loc now dl ka nka X :
    dl <= X ->
    ticks_until e loc now dl ka nka X =
      match tick_at e loc (Z.max dl now) dl ka nka with
      | (tr, None) => (tr, None)
      | (tr, Some (dl', ka', nka')) =>
          let (tr2, r) := ticks_until e loc (Z.max dl now) dl' ka' nka' X in (tr ++ tr2, r)
      end.
  Proof.
    intros H. unfold ticks_until at 1. destruct (Z.ltb_spec X dl); [lia|].
    destruct (tick_at e loc (Z.max dl now) dl ka nka) as [tr1 [[[dl1 ka1] nka1]|]] eqn:Etick; [|reflexivity].
    destruct (tick_at_some _ _ _ _ _ _ _ _ _ Etick) as (_ & Hdl1 & id & ->).
    pose proof (fire_gt dl (Z.max dl now)) as Hfg. rewrite <- Hdl1 in Hfg.
    destruct (Z.ltb_spec X dl1) as [Hlt|Hge].
    - rewrite ticks_until_before by exact Hlt. rewrite app_nil_r. reflexivity.
    - rewrite ticks_until_dead by exact Hge. replace (Z.max dl1 (Z.max dl now)) with dl1 by lia.
      pose proof (tick_at_dead loc dl1 dl1 id nka1) as Hd.
      destruct (tick_at e loc dl1 dl1 (Some id) nka1) as [tr2 [y|]]; [discriminate Hd | reflexivity].
  Qed.

  Lemma ticks_until_now loc now c dl ka nka X :
    Z.max dl c = Z.max dl now -> ticks_until e loc c dl ka nka X = ticks_until e loc now dl ka nka X.
  Proof. intros H. unfold ticks_until. rewrite H. reflexivity. Qed.

  (* a silent client without horizon is timed out by the second tick at the latest *)
  Lemma ticks_until_silent loc now dl ka nka :
    snd (ticks_until e loc now dl ka nka (Z.max now dl + 2 * P)) = None.
  Proof.
    pose proof P_gt5 as HP. unfold ticks_until.
    destruct (Z.ltb_spec (Z.max now dl + 2 * P) dl) as [H|_]; [lia|].
    destruct (tick_at e loc (Z.max dl now) dl ka nka) as [tr1 [[[dl1 ka1] nka1]|]] eqn:Etick; [|reflexivity].
    destruct (tick_at_some _ _ _ _ _ _ _ _ _ Etick) as (_ & Hdl1 & id & Hka1).
    pose proof (fire_le dl (Z.max dl now) ltac:(lia)) as Hfl. rewrite <- Hdl1 in Hfl.
    destruct (Z.ltb_spec (Z.max now dl + 2 * P) dl1) as [H|_]; [lia|].
    subst ka1. pose proof (tick_at_dead loc dl1 dl1 id nka1) as Hd.
    destruct (tick_at e loc dl1 dl1 (Some id) nka1) as [tr2 [x|]]; [discriminate Hd | reflexivity].
  Qed.

  (* the completion of the raced adapter call comes first *)
  Definition m1_cut (loc : option bytes) (h : Z) (s : st1) : trace * step1 :=
    match ticks_until e loc (s_now s) (s_dl s) (s_ka s) (s_nka s) (h - 1) with
    | (tr, None) => (tr, S1End [] (OErr KMissedKA))
    | (tr, Some (dl', ka', nka')) =>
        (tr, S1Cut {| s_now := Z.max (s_now s) h; s_dl := dl'; s_ka := ka'; s_in := s_in s; s_nka := nka'; s_nnow := s_nnow s |})
    end.

  (* one receive_packet(true) of the keep-alive loop: [ka_loop] is this, iterated (ka_loop_unfold) *)
  Definition m1_read (loc : option bytes) (hz : option Z) (s : st1) : trace * step1 :=
    match s_in s with
    | [] =>
        match hz with
        | Some h => m1_cut loc h s
        | None =>
            match ticks_until e loc (s_now s) (s_dl s) (s_ka s) (s_nka s) (Z.max (s_now s) (s_dl s) + 2 * P) with
            | (tr, None) => (tr, S1End [] (OErr KMissedKA))
            | (tr, Some _) => (tr, S1End [(s_now s, TEnd OHang)] OHang)
            end
        end
    | (t, ev) :: rest =>
        let t' := Z.max t (s_now s) in
        if match hz with Some h => h <=? t' | None => false end then
          match hz with
          | Some h => m1_cut loc h s
          | None => ([], S1End [(s_now s, TEnd OHang)] OHang)
          end
        else
          match ticks_until e loc (s_now s) (s_dl s) (s_ka s) (s_nka s) t' with
          | (tr, None) => (tr, S1End [] (OErr KMissedKA))
          | (tr, Some (dl', ka', nka')) =>
              match ev with
              | IEof => (tr, S1End [(t', TEnd (OErr KClosed))] (OErr KClosed))
              | IBadLen => (tr, S1End [(t', TEnd (OErr KIllegalLen))] (OErr KIllegalLen))
              | IFrame id body =>
                  (tr, S1Got id body {| s_now := t'; s_dl := dl'; s_ka := ka'; s_in := rest; s_nka := nka'; s_nnow := s_nnow s |})
              end
          end
    end.

  Lemma ka_loop_unfold info loc hz ib now dl ka nka nnow :
    ka_loop cfg e info loc hz ib now dl ka nka nnow =
      match m1_read loc hz {| s_now := now; s_dl := dl; s_ka := ka; s_in := ib; s_nka := nka; s_nnow := nnow |} with
      | (tr, S1End fin o) => (tr ++ fin, KEnd o)
      | (tr, S1Cut s') => (tr, KDone s')
      | (tr, S1Got id body s') =>
          match conf_frame cfg info (s_ka s') id body with
          | FEnd o => (tr ++ [(s_now s', TRecv id body); (s_now s', TEnd o)], KEnd o)
          | FInfo vs => (tr ++ [(s_now s', TRecv id body)], KGot vs s')
          | FCont ka'' =>
              let (tr2, r) := ka_loop cfg e info loc hz (s_in s') (s_now s') (s_dl s') ka'' (s_nka s') nnow in
              (tr ++ (s_now s', TRecv id body) :: tr2, r)
          end
      end.
  Proof.
    unfold m1_read, m1_cut. cbn [s_now s_dl s_ka s_in s_nka s_nnow].
    destruct ib as [|[t ev] rest]; cbn [ka_loop].
    - destruct hz as [h|].
      + destruct (ticks_until e loc now dl ka nka (h - 1)) as [tr [[[dl' ka'] nka']|]]; [reflexivity | rewrite app_nil_r; reflexivity].
      + destruct (ticks_until e loc now dl ka nka (Z.max now dl + 2 * P)) as [tr [x|]]; [reflexivity | rewrite app_nil_r; reflexivity].
    - destruct hz as [h|].
      + destruct (h <=? Z.max t now).
        * destruct (ticks_until e loc now dl ka nka (h - 1)) as [tr [[[dl' ka'] nka']|]]; [reflexivity | rewrite app_nil_r; reflexivity].
        * destruct (ticks_until e loc now dl ka nka (Z.max t now)) as [tr [[[dl' ka'] nka']|]]; [|rewrite app_nil_r; reflexivity].
          destruct ev as [id body| |]; reflexivity.
      + destruct (ticks_until e loc now dl ka nka (Z.max t now)) as [tr [[[dl' ka'] nka']|]]; [|rewrite app_nil_r; reflexivity].
        destruct ev as [id body| |]; reflexivity.
  Qed.

  (* (A) a tick that falls due before anything else happens: take it, then go on *)
  Lemma m1_tick loc hz s :
    hz_gt hz (Z.max (s_dl s) (s_now s)) ->
    match s_in s with (T, _) :: _ => Z.max (s_dl s) (s_now s) <= Z.max T (s_now s) | [] => True end ->
    m1_read loc hz s =
      match tick_at e loc (Z.max (s_dl s) (s_now s)) (s_dl s) (s_ka s) (s_nka s) with
      | (tr, None) => (tr, S1End [] (OErr KMissedKA))
      | (tr, Some (dl', ka', nka')) =>
          let (tr2, r) := m1_read loc hz {| s_now := Z.max (s_dl s) (s_now s); s_dl := dl'; s_ka := ka'; s_in := s_in s;
                                           s_nka := nka'; s_nnow := s_nnow s |} in
          (tr ++ tr2, r)
      end.
  Proof.
    intros Hhz Hhead. pose proof P_gt5 as HP.
    assert (Hcut : forall h, Z.max (s_dl s) (s_now s) < h ->
      m1_cut loc h s =
      match tick_at e loc (Z.max (s_dl s) (s_now s)) (s_dl s) (s_ka s) (s_nka s) with
      | (tr, None) => (tr, S1End [] (OErr KMissedKA))
      | (tr, Some (dl', ka', nka')) =>
          let (tr2, r) := m1_cut loc h {| s_now := Z.max (s_dl s) (s_now s); s_dl := dl'; s_ka := ka'; s_in := s_in s;
                                          s_nka := nka'; s_nnow := s_nnow s |} in
          (tr ++ tr2, r)
      end).
    { intros h Hh. unfold m1_cut. cbn [s_now s_dl s_ka s_in s_nka s_nnow].
      rewrite (ticks_until_step loc (s_now s) (s_dl s) (s_ka s) (s_nka s) (h - 1)) by lia.
      destruct (tick_at e loc (Z.max (s_dl s) (s_now s)) (s_dl s) (s_ka s) (s_nka s)) as [tr [[[dl' ka'] nka']|]]; [|reflexivity].
      destruct (ticks_until e loc (Z.max (s_dl s) (s_now s)) dl' ka' nka' (h - 1)) as [tr2 [[[d k] n]|]]; [|reflexivity].
      replace (Z.max (Z.max (s_dl s) (s_now s)) h) with (Z.max (s_now s) h) by lia. reflexivity. }
    unfold m1_read. cbn [s_now s_dl s_ka s_in s_nka s_nnow].
    destruct (s_in s) as [|[T ev] rest].
    - destruct hz as [h|]; [apply Hcut; exact Hhz|].
      rewrite (ticks_until_step loc (s_now s) (s_dl s) (s_ka s) (s_nka s)) by lia.
      destruct (tick_at e loc (Z.max (s_dl s) (s_now s)) (s_dl s) (s_ka s) (s_nka s)) as [tr [[[dl' ka'] nka']|]] eqn:Etick; [|reflexivity].
      destruct (tick_at_some _ _ _ _ _ _ _ _ _ Etick) as (_ & Hdl' & id & ->).
      pose proof (fire_le (s_dl s) (Z.max (s_dl s) (s_now s)) ltac:(lia)) as Hfl. rewrite <- Hdl' in Hfl.
      rewrite !ticks_until_dead by lia. reflexivity.
    - replace (Z.max T (Z.max (s_dl s) (s_now s))) with (Z.max T (s_now s)) by lia.
      destruct hz as [h|].
      + destruct (Z.leb_spec h (Z.max T (s_now s))) as [Hb|Hb]; [apply Hcut; exact Hhz|].
        rewrite (ticks_until_step loc (s_now s) (s_dl s) (s_ka s) (s_nka s)) by lia.
        destruct (tick_at e loc (Z.max (s_dl s) (s_now s)) (s_dl s) (s_ka s) (s_nka s)) as [tr [[[dl' ka'] nka']|]]; [|reflexivity].
        destruct (ticks_until e loc (Z.max (s_dl s) (s_now s)) dl' ka' nka' (Z.max T (s_now s))) as [tr2 [[[d k] n]|]]; [|reflexivity].
        destruct ev; reflexivity.
      + rewrite (ticks_until_step loc (s_now s) (s_dl s) (s_ka s) (s_nka s)) by lia.
        destruct (tick_at e loc (Z.max (s_dl s) (s_now s)) (s_dl s) (s_ka s) (s_nka s)) as [tr [[[dl' ka'] nka']|]]; [|reflexivity].
        destruct (ticks_until e loc (Z.max (s_dl s) (s_now s)) dl' ka' nka' (Z.max T (s_now s))) as [tr2 [[[d k] n]|]]; [|reflexivity].
        destruct ev; reflexivity.
  Qed.

  (* (B) the clock advances (a byte that completes nothing is consumed) before the deadline, the
     horizon and the arrival of the frame in progress: nothing changes *)
  Lemma m1_adv loc hz s c :
    s_now s <= c -> c < s_dl s -> hz_gt hz c ->
    match s_in s with (T, _) :: _ => Z.max T c = Z.max T (s_now s) | [] => True end ->
    m1_read loc hz {| s_now := c; s_dl := s_dl s; s_ka := s_ka s; s_in := s_in s; s_nka := s_nka s; s_nnow := s_nnow s |}
    = m1_read loc hz s.
  Proof.
    intros Hc Hdl Hhz Hhead.
    assert (Ht : forall X, ticks_until e loc c (s_dl s) (s_ka s) (s_nka s) X = ticks_until e loc (s_now s) (s_dl s) (s_ka s) (s_nka s) X)
      by (intros X; apply ticks_until_now; lia).
    assert (Hcut : forall h, c < h ->
      m1_cut loc h {| s_now := c; s_dl := s_dl s; s_ka := s_ka s; s_in := s_in s; s_nka := s_nka s; s_nnow := s_nnow s |} = m1_cut loc h s).
    { intros h Hh. unfold m1_cut. cbn [s_now s_dl s_ka s_in s_nka s_nnow]. rewrite Ht.
      replace (Z.max c h) with (Z.max (s_now s) h) by lia. reflexivity. }
    unfold m1_read. cbn [s_now s_dl s_ka s_in s_nka s_nnow].
    destruct (s_in s) as [|[T ev] rest].
    - destruct hz as [h|]; [apply Hcut; exact Hhz|].
      replace (Z.max c (s_dl s)) with (Z.max (s_now s) (s_dl s)) by lia. rewrite Ht.
      pose proof (ticks_until_silent loc (s_now s) (s_dl s) (s_ka s) (s_nka s)) as Hsil.
      destruct (ticks_until e loc (s_now s) (s_dl s) (s_ka s) (s_nka s) (Z.max (s_now s) (s_dl s) + 2 * P)) as [tr [x|]];
        [discriminate Hsil | reflexivity].
    - rewrite Hhead, Ht. destruct hz as [h|]; [|reflexivity].
      destruct (h <=? Z.max T (s_now s)); [apply Hcut; exact Hhz | reflexivity].
  Qed.

  (* the frame in progress is completed before the deadline and the horizon: no tick *)
  Lemma m1_event loc hz s T ev rest :
    s_in s = (T, ev) :: rest -> Z.max T (s_now s) < s_dl s -> hz_gt hz (Z.max T (s_now s)) ->
    m1_read loc hz s =
      ([], match ev with
           | IEof => S1End [(Z.max T (s_now s), TEnd (OErr KClosed))] (OErr KClosed)
           | IBadLen => S1End [(Z.max T (s_now s), TEnd (OErr KIllegalLen))] (OErr KIllegalLen)
           | IFrame id body =>
               S1Got id body {| s_now := Z.max T (s_now s); s_dl := s_dl s; s_ka := s_ka s; s_in := rest; s_nka := s_nka s;
                                s_nnow := s_nnow s |}
           end).
  Proof.
    intros Hin Hdl Hhz. unfold m1_read. rewrite Hin. cbv zeta.
    assert (Hb : match hz with Some h => h <=? Z.max T (s_now s) | None => false end = false).
    { destruct hz as [h|]; [|reflexivity]. cbn in Hhz. apply Z.leb_gt. exact Hhz. }
    rewrite Hb, ticks_until_before by exact Hdl. destruct ev; reflexivity.
  Qed.

  (* the completion of the raced call comes before the deadline and anything the client sends *)
  Lemma m1_horizon loc h s :
    s_now s < h -> h <= Z.max (s_dl s) (s_now s) ->
    match s_in s with (T, _) :: _ => h <= Z.max T (s_now s) | [] => True end ->
    m1_read loc (Some h) s =
      ([], S1Cut {| s_now := Z.max (s_now s) h; s_dl := s_dl s; s_ka := s_ka s; s_in := s_in s; s_nka := s_nka s; s_nnow := s_nnow s |}).
  Proof.
    intros Hn Hdl Hhead. unfold m1_read.
    assert (Hcut : m1_cut loc h s =
      ([], S1Cut {| s_now := Z.max (s_now s) h; s_dl := s_dl s; s_ka := s_ka s; s_in := s_in s; s_nka := s_nka s; s_nnow := s_nnow s |})).
    { unfold m1_cut. rewrite ticks_until_before by lia. reflexivity. }
    destruct (s_in s) as [|[T ev] rest]; [exact Hcut|]. cbv zeta.
    destruct (Z.leb_spec h (Z.max T (s_now s))); [exact Hcut | lia].
  Qed.
  Lemma m1_read_nnow loc hz s tr id body s' : m1_read loc hz s = (tr, S1Got id body s') -> s_nnow s' = s_nnow s.
  Proof.
    unfold m1_read, m1_cut. destruct (s_in s) as [|[t ev] rest].
    - destruct hz as [h|]; [destruct (ticks_until e loc (s_now s) (s_dl s) (s_ka s) (s_nka s) (h - 1)) as [tr0 [[[d k] n]|]]
                           | destruct (ticks_until e loc (s_now s) (s_dl s) (s_ka s) (s_nka s) (Z.max (s_now s) (s_dl s) + 2 * P)) as [tr0 [x|]]];
        intros H; discriminate H.
    - cbv zeta. destruct (match hz with Some h => h <=? Z.max t (s_now s) | None => false end).
      + destruct hz as [h|]; [destruct (ticks_until e loc (s_now s) (s_dl s) (s_ka s) (s_nka s) (h - 1)) as [tr0 [[[d k] n]|]]|];
          intros H; discriminate H.
      + destruct (ticks_until e loc (s_now s) (s_dl s) (s_ka s) (s_nka s) (Z.max t (s_now s))) as [tr0 [[[d k] n]|]];
          [|intros H; discriminate H].
        destruct ev; intros H; try discriminate H. injection H as _ _ _ <-. reflexivity.
  Qed.

  Lemma ka_loop_unfold' info loc hz s :
    ka_loop cfg e info loc hz (s_in s) (s_now s) (s_dl s) (s_ka s) (s_nka s) (s_nnow s) =
      match m1_read loc hz s with
      | (tr, S1End fin o) => (tr ++ fin, KEnd o)
      | (tr, S1Cut s') => (tr, KDone s')
      | (tr, S1Got id body s') =>
          match conf_frame cfg info (s_ka s') id body with
          | FEnd o => (tr ++ [(s_now s', TRecv id body); (s_now s', TEnd o)], KEnd o)
          | FInfo vs => (tr ++ [(s_now s', TRecv id body)], KGot vs s')
          | FCont ka'' =>
              let (tr2, r) := ka_loop cfg e info loc hz (s_in s') (s_now s') (s_dl s') ka'' (s_nka s') (s_nnow s') in
              (tr ++ (s_now s', TRecv id body) :: tr2, r)
          end
      end.
  Proof.
    rewrite ka_loop_unfold. replace {| s_now := s_now s; s_dl := s_dl s; s_ka := s_ka s; s_in := s_in s; s_nka := s_nka s; s_nnow := s_nnow s |}
      with s by (destruct s; reflexivity).
    destruct (m1_read loc hz s) as [tr [fin o|s'|id body s']] eqn:E; try reflexivity.
    rewrite (m1_read_nnow _ _ _ _ _ _ _ E). reflexivity.
  Qed.

  (* one receive_packet(false) *)
  Definition m1_next (s : st1) : step1 :=
    match next_frame s with
    | None => S1End [(s_now s, TEnd OHang)] OHang
    | Some (t, IEof, _) => S1End [(t, TEnd (OErr KClosed))] (OErr KClosed)
    | Some (t, IBadLen, _) => S1End [(t, TEnd (OErr KIllegalLen))] (OErr KIllegalLen)
    | Some (_, IFrame id body, s') => S1Got id body s'
    end.

  Lemma exec_expect_unfold k s :
    exec cfg e (Expect k) s =
      match m1_next s with
      | S1End fin _ => fin
      | S1Cut s' => [(s_now s', TEnd OHang)]
      | S1Got id body s' =>
          if negb (len_ok cfg id body) then [(s_now s', TRecv id body); (s_now s', TEnd (OErr KIllegalLen))]
          else (s_now s', TRecv id body) :: exec cfg e (k id body) s'
      end.
  Proof.
    cbn [exec]. unfold m1_next, next_frame. destruct (s_in s) as [|[t ev] rest]; [reflexivity|]. destruct ev; reflexivity.
  Qed.
End M1.

(* ------------------------------------------------------------------------------------ *)
(* Part 3: one receive_packet at byte level = one wait of the frame-level model           *)
(* ------------------------------------------------------------------------------------ *)
Section Read.
  Variable cfg : conn_cfg.
  Variable e : env.
  (* strict = true: exact equality (needs a stream that does not stop inside a frame);
     strict = false: equality up to the instant of a hang *)
  Variable strict : bool.
  Local Notation max := (cf_max_len cfg).

  (* the three tests at the head of the loop *)
  Definition tin_of (s : st2) : option Z :=
    match b_in s, b_eof s with
    | (t, _) :: _, _ => Some (Z.max t (b_now s))
    | [], Some te => Some (Z.max te (b_now s))
    | [], None => None
    end.
  Definition hfirst (hz : option Z) (s : st2) : bool :=
    match hz with
    | Some h => (match tin_of s with Some t => h <=? t | None => true end) && (h <=? Z.max (b_dl s) (b_now s))
    | None => false
    end.
  Definition tfirst (s : st2) : bool :=
    match tin_of s with Some t => Z.max (b_dl s) (b_now s) <=? t | None => true end.

  Lemma read_frame_f_S f m hz s :
    read_frame_f cfg e (S f) m hz s =
      if hfirst hz s then
        ([], match hz with
             | Some h => RCut (upd s (Z.max h (b_now s)) (b_dl s) (b_ka s) (b_in s) (b_nka s) (b_rd s))
             | None => RCut s end)
      else if tfirst s then
        match m with
        | None =>
            match tin_of s with
            | None => ([], REnd [(b_now s, TEnd OHang)])
            | Some t => read_frame_f cfg e f m hz (upd s (b_now s) (skip_ticks (b_dl s) (b_now s) t) (b_ka s) (b_in s) (b_nka s) (b_rd s))
            end
        | Some loc =>
            match tick_at e loc (Z.max (b_dl s) (b_now s)) (b_dl s) (b_ka s) (b_nka s) with
            | (tr, None) => (tr, REnd [])
            | (tr, Some (dl', ka', nka')) =>
                let (tr2, r) := read_frame_f cfg e f m hz (upd s (Z.max (b_dl s) (b_now s)) dl' ka' (b_in s) nka' (b_rd s)) in
                (tr ++ tr2, r)
            end
        end
      else
        match b_in s with
        | (t, b) :: rest =>
            let t' := Z.max t (b_now s) in
            match feed_byte max (b_rd s) b with
            | (rd', []) => read_frame_f cfg e f m hz (upd s t' (b_dl s) (b_ka s) rest (b_nka s) rd')
            | (rd', EvFrame id body :: _) => ([], RGot id body (upd s t' (b_dl s) (b_ka s) rest (b_nka s) rd'))
            | (_, EvBadLen :: _) => ([], REnd [(t', TEnd (OErr KIllegalLen))])
            | (_, EvBadId :: _) => ([], REnd [(t', TEnd (OErr KClosed))])
            end
        | [] =>
            let t' := match b_eof s with Some te => Z.max te (b_now s) | None => b_now s end in
            match eof_events (b_rd s) with
            | EvFrame id body :: _ => ([], RGot id body (upd s t' (b_dl s) (b_ka s) [] (b_nka s) RIdle))
            | _ => ([], REnd [(t', TEnd (OErr KClosed))])
            end
        end.
  Proof. reflexivity. Qed.

  (* what the frame-level model still has to see *)
  Definition SF (s : st2) : inbox := stream_frames max (b_rd s) (b_in s) (b_eof s).

  Definition invp (rd : rst) (l : bstream) (eof : option Z) : Prop :=
    rd <> RDead /\ fsorted max rd None l eof = true /\ (strict = true -> closed max rd l eof = true).
  Definition inv (s : st2) : Prop := invp (b_rd s) (b_in s) (b_eof s).

  (* bounds the frames still to come *)
  Definition kmeas (s : st2) : nat := (length (b_in s) + match b_rd s with RIdle => 0 | _ => 1 end)%nat.

  Lemma inv_head s T ev rest :
    inv s -> SF s = (T, ev) :: rest -> exists c, tin_of s = Some c /\ c <= Z.max T (b_now s).
  Proof.
    intros (_ & Hs & _) Hf. pose proof (sf_head_src max _ _ _ _ _ _ Hs Hf) as H. unfold tin_of.
    destruct (b_in s) as [|[t b] r]; [destruct (b_eof s) as [te|]; [|contradiction]|]; eexists; (split; [reflexivity | lia]).
  Qed.

  Lemma tin_none s : tin_of s = None -> b_in s = [] /\ b_eof s = None.
  Proof. unfold tin_of. destruct (b_in s) as [|[t b] r]; [destruct (b_eof s)|]; intros H; try discriminate H. split; reflexivity. Qed.

  Lemma tin_ge s c : tin_of s = Some c -> b_now s <= c.
  Proof. unfold tin_of. destruct (b_in s) as [|[t b] r]; [destruct (b_eof s)|]; intros H; try discriminate H; injection H as <-; lia. Qed.

  Lemma guard_tick hz s : hfirst hz s = false -> tfirst s = true -> hz_gt hz (Z.max (b_dl s) (b_now s)).
  Proof.
    unfold hfirst, tfirst. destruct hz as [h|]; [|intros; exact I]. cbn [hz_gt].
    destruct (tin_of s) as [c|]; intros H1 H2.
    - apply Z.leb_le in H2. apply andb_false_iff in H1 as [H1|H1]; apply Z.leb_gt in H1; lia.
    - cbn [andb] in H1. apply Z.leb_gt in H1. exact H1.
  Qed.

  Lemma guard_in hz s :
    hfirst hz s = false -> tfirst s = false -> exists c, tin_of s = Some c /\ b_now s <= c /\ c < b_dl s /\ hz_gt hz c.
  Proof.
    unfold hfirst, tfirst. intros H1 H2. destruct (tin_of s) as [c|] eqn:Etin; [|discriminate H2].
    apply Z.leb_gt in H2. pose proof (tin_ge s c Etin) as Hge.
    exists c. split; [reflexivity|]. split; [exact Hge|]. split; [lia|].
    destruct hz as [h|]; [|exact I]. cbn [hz_gt].
    apply andb_false_iff in H1 as [H1|H1]; apply Z.leb_gt in H1; lia.
  Qed.

  Lemma eof_events_cases st :
    eof_events st = [] \/ exists id body, eof_events st = [EvFrame id body] /\ st <> RIdle.
  Proof.
    destruct st as [|k acc|len got|]; cbn [eof_events]; try (left; reflexivity).
    destruct (rd_var 5 0 0 got) as [raw body|]; [right | left; reflexivity].
    eexists _, _. split; [reflexivity | discriminate].
  Qed.

  Lemma invp_quiet rd t b r eof rd' :
    invp rd ((t, b) :: r) eof -> feed_byte max rd b = (rd', []) -> invp rd' r eof.
  Proof.
    intros (H1 & H2 & H3) E. destruct (feed_byte_quiet max _ _ _ H1 E) as [Hd _].
    split; [exact Hd|]. split.
    - cbn [fsorted andb] in H2. rewrite E in H2. exact (fsorted_weaken max _ _ _ _ H2).
    - intros Hst. specialize (H3 Hst). rewrite closed_cons, E in H3. exact H3.
  Qed.

  Lemma invp_frame rd t b r eof rd' id body evs :
    invp rd ((t, b) :: r) eof -> feed_byte max rd b = (rd', EvFrame id body :: evs) -> evs = [] /\ rd' = RIdle /\ invp RIdle r eof.
  Proof.
    intros (H1 & H2 & H3) E. destruct (feed_byte_ev max _ _ _ _ _ H1 E) as [-> ->].
    split; [reflexivity|]. split; [reflexivity|]. split; [discriminate|]. split.
    - cbn [fsorted andb] in H2. rewrite E in H2. exact H2.
    - intros Hst. specialize (H3 Hst). rewrite closed_cons, E in H3. exact H3.
  Qed.

  Definition rrel (R : trace -> trace -> Prop) (hz : option Z) (s0 : st2) (x : trace * step1) (y : trace * rres) : Prop :=
    fst x = fst y /\
    match snd x, snd y with
    | S1End fin _, REnd fin' => R fin fin'
    | S1Cut s1, RCut s2 => s1 = abs max s2 /\ inv s2
    | S1Got id body s1, RGot id' body' s2 =>
        id = id' /\ body = body' /\ s1 = abs max s2 /\ inv s2 /\ hz_gt hz (b_now s2) /\ (kmeas s2 < kmeas s0)%nat
    | _, _ => False
    end.

  Lemma rrel_pre R hz s0 tr x y :
    rrel R hz s0 x y -> rrel R hz s0 (let (tr2, r) := x in (tr ++ tr2, r)) (let (tr2, r) := y in (tr ++ tr2, r)).
  Proof. destruct x as [t1 r1], y as [t2 r2]. intros [H1 H2]. cbn [fst snd] in *. split; [rewrite H1; reflexivity | exact H2]. Qed.

  (* fuel that one receive_packet(true) needs: every byte once, at most two ticks, the end *)
  Definition need (s : st2) : nat := (length (b_in s) + match b_ka s with None => 2 | Some _ => 1 end + 1)%nat.

  Lemma read_ka loc hz : forall fuel s0 s,
    (need s <= fuel)%nat -> inv s -> hz_gt hz (b_now s) -> (kmeas s <= kmeas s0)%nat ->
    rrel eq hz s0 (m1_read e loc hz (abs max s)) (read_frame_f cfg e fuel (Some loc) hz s).
  Proof.
    induction fuel as [|f IH]; intros s0 s Hfuel Hinv Hhz Hk; [unfold need in Hfuel; lia|].
    rewrite read_frame_f_S.
    destruct (hfirst hz s) eqn:Hh.
    { (* the raced call completes first *)
      destruct hz as [h|]; [|discriminate Hh]. cbn [hz_gt] in Hhz. unfold hfirst in Hh.
      apply andb_prop in Hh as [Hh1 Hh2]. apply Z.leb_le in Hh2.
      rewrite (m1_horizon e loc h (abs max s)); cbn [abs s_now s_dl s_ka s_in s_nka s_nnow]; [|exact Hhz|exact Hh2|].
      - split; [reflexivity|]. cbn [snd]. split; [|exact Hinv].
        unfold abs, upd. cbn [b_now b_dl b_ka b_in b_eof b_nka b_nnow b_rd]. rewrite Z.max_comm. reflexivity.
      - fold (SF s). destruct (SF s) as [|[T ev] rest] eqn:Hsf; [exact I|].
        destruct (inv_head s T ev rest Hinv Hsf) as (c & Hc & Hle). rewrite Hc in Hh1. apply Z.leb_le in Hh1. lia. }
    destruct (tfirst s) eqn:Ht.
    { (* a tick falls due first *)
      pose proof (guard_tick hz s Hh Ht) as Hgt.
      rewrite (m1_tick e loc hz (abs max s)); cbn [abs s_now s_dl s_ka s_in s_nka s_nnow]; [|exact Hgt|].
      - destruct (tick_at e loc (Z.max (b_dl s) (b_now s)) (b_dl s) (b_ka s) (b_nka s)) as [tr [[[dl' ka'] nka']|]] eqn:Etick.
        + destruct (tick_at_some e _ _ _ _ _ _ _ _ _ Etick) as (Hka & _ & id & ->).
          set (s1 := upd s (Z.max (b_dl s) (b_now s)) dl' (Some id) (b_in s) nka' (b_rd s)).
          assert (Hn1 : (need s1 <= f)%nat) by (unfold need in *; cbn [s1 upd b_in b_ka]; rewrite Hka in Hfuel; lia).
          specialize (IH s0 s1 Hn1 Hinv Hgt Hk).
          apply (rrel_pre eq hz s0 tr) in IH. exact IH.
        + split; reflexivity.
      - fold (SF s). destruct (SF s) as [|[T ev] rest] eqn:Hsf; [exact I|].
        destruct (inv_head s T ev rest Hinv Hsf) as (c & Hc & Hle).
        unfold tfirst in Ht. rewrite Hc in Ht. apply Z.leb_le in Ht. lia. }
    (* the stream comes first *)
    destruct (guard_in hz s Hh Ht) as (c & Hc & Hnow & Hdl & Hhzc).
    destruct (b_in s) as [|[t b] r] eqn:Hin.
    - (* end of stream *)
      destruct (b_eof s) as [te|] eqn:Heof; [|unfold tin_of in Hc; rewrite Hin, Heof in Hc; discriminate Hc].
      assert (Hcv : c = Z.max te (b_now s)) by (unfold tin_of in Hc; rewrite Hin, Heof in Hc; injection Hc as <-; reflexivity).
      cbv zeta. rewrite <- Hcv.
      destruct (eof_events_cases (b_rd s)) as [Hee | (id & body & Hee & Hrd)]; rewrite Hee.
      + rewrite (m1_event e loc hz (abs max s) te IEof []); cbn [abs s_now s_dl s_ka s_in s_nka s_nnow]; rewrite <- ?Hcv;
          [|rewrite Hin, Heof; cbn [stream_frames]; rewrite Hee; reflexivity | exact Hdl | exact Hhzc].
        split; reflexivity.
      + rewrite (m1_event e loc hz (abs max s) te (IFrame id body) [(te, IEof)]); cbn [abs s_now s_dl s_ka s_in s_nka s_nnow];
          rewrite <- ?Hcv; [|rewrite Hin, Heof; cbn [stream_frames]; rewrite Hee; reflexivity | exact Hdl | exact Hhzc].
        split; [reflexivity|]. cbn [snd]. split; [reflexivity|]. split; [reflexivity|]. split.
        { unfold abs, upd. cbn [b_now b_dl b_ka b_in b_eof b_nka b_nnow b_rd]. rewrite Heof. reflexivity. }
        split.
        { unfold inv, invp, upd. cbn [b_in b_eof b_rd]. rewrite Heof. split; [discriminate|]. split; reflexivity. }
        split; [exact Hhzc|].
        unfold kmeas in *. cbn [upd b_in b_rd length]. rewrite Hin in Hk. cbn [length] in Hk.
        destruct (b_rd s); try contradiction; lia.
    - (* a byte *)
      assert (Hcv : c = Z.max t (b_now s)) by (unfold tin_of in Hc; rewrite Hin in Hc; injection Hc as <-; reflexivity).
      cbv zeta. rewrite <- Hcv.
      assert (Hinv' : invp (b_rd s) ((t, b) :: r) (b_eof s)) by (unfold inv in Hinv; rewrite Hin in Hinv; exact Hinv).
      destruct (feed_byte max (b_rd s) b) as [rd' [|ev evs]] eqn:Efb.
      + (* it completes nothing *)
        set (s1 := upd s c (b_dl s) (b_ka s) r (b_nka s) rd').
        assert (Hsf1 : SF s1 = SF s) by (unfold SF; cbn [s1 upd b_in b_eof b_rd]; rewrite Hin; cbn [stream_frames]; rewrite Efb; reflexivity).
        assert (Hadv : m1_read e loc hz (abs max s1) = m1_read e loc hz (abs max s)).
        { assert (Habs : abs max s1 = {| s_now := c; s_dl := s_dl (abs max s); s_ka := s_ka (abs max s); s_in := s_in (abs max s);
                                          s_nka := s_nka (abs max s); s_nnow := s_nnow (abs max s) |}).
          { unfold abs. cbn [s1 upd b_now b_dl b_ka b_in b_eof b_nka b_nnow b_rd s_now s_dl s_ka s_in s_nka s_nnow]. f_equal. exact Hsf1. }
          rewrite Habs.
          apply (m1_adv e loc hz (abs max s) c); cbn [abs s_now s_dl s_ka s_in s_nka s_nnow]; [exact Hnow | exact Hdl | exact Hhzc|].
          fold (SF s). destruct (SF s) as [|[T ev] rest] eqn:Hsf; [exact I|].
          destruct Hinv as (_ & Hs & _).
          pose proof (sf_head_src max _ _ _ _ _ _ Hs Hsf) as Hle. rewrite Hin in Hle. lia. }
        rewrite <- Hadv. apply IH.
        * unfold need in *. cbn [s1 upd b_in b_ka]. rewrite Hin in Hfuel. cbn [length] in Hfuel. lia.
        * unfold inv. cbn [s1 upd b_in b_eof b_rd]. exact (invp_quiet _ _ _ _ _ _ Hinv' Efb).
        * exact Hhzc.
        * unfold kmeas in *. cbn [s1 upd b_in b_rd]. rewrite Hin in Hk. cbn [length] in Hk. destruct rd'; lia.
      + (* it completes a frame, or the framing fails *)
        destruct Hinv' as (Hrd & Hinv2).
        destruct (feed_byte_ev max _ _ _ _ _ Hrd Efb) as [-> Hrd'].
        assert (Hsf : SF s = ev_in t ev :: stream_frames max rd' r (b_eof s))
          by (unfold SF; rewrite Hin; cbn [stream_frames]; rewrite Efb; reflexivity).
        destruct ev as [id body| |]; cbn [ev_in] in Hsf.
        * rewrite (m1_event e loc hz (abs max s) t _ _ Hsf); cbn [abs s_now s_dl s_ka s_in s_nka s_nnow]; rewrite <- ?Hcv;
            [|exact Hdl | exact Hhzc].
          destruct (invp_frame _ _ _ _ _ _ _ _ _ (conj Hrd Hinv2) Efb) as (_ & -> & Hinv3).
          split; [reflexivity|]. cbn [snd]. split; [reflexivity|]. split; [reflexivity|]. split; [reflexivity|].
          split; [exact Hinv3|]. split; [exact Hhzc|].
          unfold kmeas in *. cbn [upd b_in b_rd]. rewrite Hin in Hk. cbn [length] in Hk. lia.
        * rewrite (m1_event e loc hz (abs max s) t _ _ Hsf); cbn [abs s_now s_dl s_ka s_in s_nka s_nnow]; rewrite <- ?Hcv;
            [|exact Hdl | exact Hhzc].
          split; reflexivity.
        * rewrite (m1_event e loc hz (abs max s) t _ _ Hsf); cbn [abs s_now s_dl s_ka s_in s_nka s_nnow]; rewrite <- ?Hcv;
            [|exact Hdl | exact Hhzc].
          split; reflexivity.
  Qed.
  (* ---- receive_packet(false) ---- *)
  Definition fin_ok (fin fin' : trace) : Prop :=
    fin = fin' \/ (strict = false /\ exists t t', fin = [(t, TEnd OHang)] /\ fin' = [(t', TEnd OHang)]).

  (* fuel: every byte once, ignored ticks at most once before each, the end *)
  Definition need0 (s : st2) : nat := (2 * length (b_in s) + 2 + if tfirst s then 1 else 0)%nat.

  Lemma tfirst_skipped s c :
    tin_of s = Some c ->
    tfirst (upd s (b_now s) (skip_ticks (b_dl s) (b_now s) c) (b_ka s) (b_in s) (b_nka s) (b_rd s)) = false.
  Proof.
    intros Hc. unfold tfirst.
    change (tin_of (upd s (b_now s) (skip_ticks (b_dl s) (b_now s) c) (b_ka s) (b_in s) (b_nka s) (b_rd s))) with (tin_of s).
    rewrite Hc. cbn [upd b_dl b_now]. pose proof (skip_ticks_gt (b_dl s) (b_now s) c). apply Z.leb_gt. lia.
  Qed.

  (* nothing more will be completed: the wait never ends *)
  Lemma read_none_hang : forall fuel s,
    (need0 s <= fuel)%nat -> SF s = [] ->
    exists t', read_frame_f cfg e fuel None None s = ([], REnd [(t', TEnd OHang)]) /\ (b_in s = [] -> t' = b_now s).
  Proof.
    induction fuel as [|f IH]; intros s Hfuel Hsf; [unfold need0 in Hfuel; lia|].
    rewrite read_frame_f_S. cbn [hfirst].
    destruct (tfirst s) eqn:Ht.
    - destruct (tin_of s) as [c|] eqn:Hc; [|exists (b_now s); split; reflexivity].
      set (s1 := upd s (b_now s) (skip_ticks (b_dl s) (b_now s) c) (b_ka s) (b_in s) (b_nka s) (b_rd s)).
      assert (Hn1 : (need0 s1 <= f)%nat).
      { unfold need0 in *. rewrite Ht in Hfuel. unfold s1. rewrite (tfirst_skipped s c Hc). cbn [upd b_in]. lia. }
      exact (IH s1 Hn1 Hsf).
    - destruct (guard_in None s eq_refl Ht) as (c & Hc & Hnow & Hdl & _).
      pose proof (sf_nil_eof max _ _ _ Hsf) as Heof.
      destruct (b_in s) as [|[t b] r] eqn:Hin.
      + unfold tin_of in Hc. rewrite Hin, Heof in Hc. discriminate Hc.
      + cbv zeta. unfold SF in Hsf. rewrite Hin in Hsf. cbn [stream_frames] in Hsf.
        destruct (feed_byte max (b_rd s) b) as [rd' evs] eqn:Efb.
        apply app_eq_nil in Hsf as [Hev Hsf]. destruct evs; [|discriminate Hev].
        set (s1 := upd s (Z.max t (b_now s)) (b_dl s) (b_ka s) r (b_nka s) rd').
        assert (Hn1 : (need0 s1 <= f)%nat).
        { unfold need0 in *. cbn [s1 upd b_in]. rewrite Hin in Hfuel. cbn [length] in Hfuel. destruct (tfirst s1); lia. }
        destruct (IH s1 Hn1 Hsf) as (t' & Hr & _). exists t'. split; [exact Hr | intros H; discriminate H].
  Qed.

  Lemma read_none : forall fuel s0 s,
    (need0 s <= fuel)%nat -> inv s -> (kmeas s <= kmeas s0)%nat ->
    rrel fin_ok None s0 ([], m1_next (abs max s)) (read_frame_f cfg e fuel None None s).
  Proof.
    induction fuel as [|f IH]; intros s0 s Hfuel Hinv Hk; [unfold need0 in Hfuel; lia|].
    destruct (SF s) as [|[T ev] rest] eqn:Hsf.
    { (* the wait never ends *)
      destruct (read_none_hang (S f) s Hfuel Hsf) as (t' & -> & Ht').
      assert (Hnx : m1_next (abs max s) = S1End [(b_now s, TEnd OHang)] OHang).
      { unfold m1_next, next_frame. cbn [abs s_in]. fold (SF s). rewrite Hsf. reflexivity. }
      rewrite Hnx. split; [reflexivity|]. cbn [snd]. unfold fin_ok.
      destruct strict eqn:Hst.
      - left. destruct Hinv as (Hrd & _ & Hcl). specialize (Hcl Hst).
        pose proof (sf_nil_eof max _ _ _ Hsf) as Heof. unfold SF in Hsf. rewrite Heof in Hsf, Hcl.
        rewrite (Ht' (sf_nil_closed max _ _ Hrd Hsf Hcl)). reflexivity.
      - right. split; [reflexivity|]. eexists _, _. split; reflexivity. }
    rewrite read_frame_f_S. cbn [hfirst].
    destruct (inv_head s T ev rest Hinv Hsf) as (c & Hc & Hle).
    destruct (tfirst s) eqn:Ht.
    - (* ticks fall due first: they are ignored *)
      rewrite Hc.
      set (s1 := upd s (b_now s) (skip_ticks (b_dl s) (b_now s) c) (b_ka s) (b_in s) (b_nka s) (b_rd s)).
      assert (Hnx : m1_next (abs max s1) = m1_next (abs max s)).
      { unfold m1_next, next_frame, abs. cbn [s1 upd b_now b_dl b_ka b_in b_eof b_nka b_nnow b_rd s_now s_dl s_ka s_in s_nka s_nnow].
        change (stream_frames max (b_rd s) (b_in s) (b_eof s)) with (SF s). rewrite Hsf.
        rewrite (skip_ticks_trans (b_dl s) (b_now s) c (Z.max T (b_now s)) (tin_ge s c Hc) Hle). reflexivity. }
      rewrite <- Hnx. apply IH.
      + unfold need0 in *. rewrite Ht in Hfuel. unfold s1. rewrite (tfirst_skipped s c Hc). cbn [upd b_in]. lia.
      + exact Hinv.
      + exact Hk.
    - (* the stream comes first *)
      destruct (guard_in None s eq_refl Ht) as (c' & Hc' & Hnow & Hdl & _).
      rewrite Hc in Hc'. injection Hc' as <-.
      destruct (b_in s) as [|[t b] r] eqn:Hin.
      + (* end of stream *)
        destruct (b_eof s) as [te|] eqn:Heof; [|unfold tin_of in Hc; rewrite Hin, Heof in Hc; discriminate Hc].
        assert (Hcv : c = Z.max te (b_now s)) by (unfold tin_of in Hc; rewrite Hin, Heof in Hc; injection Hc as <-; reflexivity).
        cbv zeta. rewrite <- Hcv.
        unfold m1_next, next_frame. cbn [abs s_now s_dl s_ka s_in s_nka s_nnow]. rewrite Hin, Heof. cbn [stream_frames].
        destruct (eof_events_cases (b_rd s)) as [Hee | (id & body & Hee & Hrd)]; rewrite Hee; cbn [map app ev_in]; rewrite <- Hcv.
        * split; [reflexivity|]. left. reflexivity.
        * split; [reflexivity|]. cbn [snd]. split; [reflexivity|]. split; [reflexivity|]. split.
          { unfold abs, upd. cbn [b_now b_dl b_ka b_in b_eof b_nka b_nnow b_rd]. rewrite Heof, (skip_ticks_id _ _ _ Hdl). reflexivity. }
          split.
          { unfold inv, invp, upd. cbn [b_in b_eof b_rd]. rewrite Heof. split; [discriminate|]. split; reflexivity. }
          split; [exact I|].
          unfold kmeas in *. cbn [upd b_in b_rd length]. rewrite Hin in Hk. cbn [length] in Hk.
          destruct (b_rd s); try contradiction; lia.
      + (* a byte *)
        assert (Hcv : c = Z.max t (b_now s)) by (unfold tin_of in Hc; rewrite Hin in Hc; injection Hc as <-; reflexivity).
        cbv zeta. rewrite <- Hcv.
        assert (Hinv' : invp (b_rd s) ((t, b) :: r) (b_eof s)) by (unfold inv in Hinv; rewrite Hin in Hinv; exact Hinv).
        destruct (feed_byte max (b_rd s) b) as [rd' [|ev1 evs]] eqn:Efb.
        * (* it completes nothing *)
          set (s1 := upd s c (b_dl s) (b_ka s) r (b_nka s) rd').
          assert (Hsf1 : SF s1 = (T, ev) :: rest)
            by (rewrite <- Hsf; unfold SF; cbn [s1 upd b_in b_eof b_rd]; rewrite Hin; cbn [stream_frames]; rewrite Efb; reflexivity).
          assert (HtT : t <= T).
          { destruct Hinv as (_ & Hs & _). pose proof (sf_head_src max _ _ _ _ _ _ Hs Hsf) as H. rewrite Hin in H. exact H. }
          assert (Hnx : m1_next (abs max s1) = m1_next (abs max s)).
          { unfold m1_next, next_frame. cbn [abs s_now s_dl s_ka s_in s_nka s_nnow]. fold (SF s1). fold (SF s). rewrite Hsf1, Hsf.
            cbn [s1 upd b_now b_dl b_ka b_nka b_nnow].
            replace (Z.max T c) with (Z.max T (b_now s)) by lia.
            rewrite (skip_ticks_now (b_dl s) (b_now s) c _ Hnow Hdl). reflexivity. }
          rewrite <- Hnx. apply IH.
          -- unfold need0 in *. cbn [s1 upd b_in]. rewrite Hin in Hfuel. cbn [length] in Hfuel. destruct (tfirst s1); lia.
          -- unfold inv. cbn [s1 upd b_in b_eof b_rd]. exact (invp_quiet _ _ _ _ _ _ Hinv' Efb).
          -- unfold kmeas in *. cbn [s1 upd b_in b_rd]. rewrite Hin in Hk. cbn [length] in Hk. destruct rd'; lia.
        * (* it completes a frame, or the framing fails *)
          destruct Hinv' as (Hrd & Hinv2).
          destruct (feed_byte_ev max _ _ _ _ _ Hrd Efb) as [-> Hrd'].
          unfold m1_next, next_frame. cbn [abs s_now s_dl s_ka s_in s_nka s_nnow]. rewrite Hin. cbn [stream_frames]. rewrite Efb.
          cbn [map app].
          destruct ev1 as [id body| |]; cbn [ev_in]; rewrite <- Hcv.
          -- destruct (invp_frame _ _ _ _ _ _ _ _ _ (conj Hrd Hinv2) Efb) as (_ & -> & Hinv3).
             split; [reflexivity|]. cbn [snd]. split; [reflexivity|]. split; [reflexivity|]. split.
             { unfold abs, upd. cbn [b_now b_dl b_ka b_in b_eof b_nka b_nnow b_rd]. rewrite (skip_ticks_id _ _ _ Hdl). reflexivity. }
             split; [exact Hinv3|]. split; [exact I|].
             unfold kmeas in *. cbn [upd b_in b_rd]. rewrite Hin in Hk. cbn [length] in Hk. lia.
          -- split; [reflexivity|]. left. reflexivity.
          -- split; [reflexivity|]. left. reflexivity.
  Qed.
  (* ---- the keep-alive loops ---- *)
  Lemma fuel_need s : (need s <= fuel_of s)%nat.
  Proof. unfold need, fuel_of. destruct (b_ka s); lia. Qed.
  Lemma fuel_need0 s : (need0 s <= fuel_of s)%nat.
  Proof. unfold need0, fuel_of. destruct (tfirst s); lia. Qed.
  Lemma fuel_kmeas s : (kmeas s < length (b_in s) + 3)%nat.
  Proof. unfold kmeas. destruct (b_rd s); lia. Qed.

  Definition krel (x : trace * kres) (y : trace * (list fv * st2 + st2 + unit)) : Prop :=
    fst x = fst y /\
    match snd x, snd y with
    | KGot vs s1, inl (inl (vs', s2)) => vs = vs' /\ s1 = abs max s2 /\ inv s2
    | KDone s1, inl (inr s2) => s1 = abs max s2 /\ inv s2
    | KEnd _, inr _ => True
    | _, _ => False
    end.

  Lemma ka_sim info loc hz : forall fuel s,
    (kmeas s < fuel)%nat -> inv s -> hz_gt hz (b_now s) ->
    krel (ka_loop cfg e info loc hz (s_in (abs max s)) (s_now (abs max s)) (s_dl (abs max s)) (s_ka (abs max s))
            (s_nka (abs max s)) (s_nnow (abs max s)))
         (ka_loop2 cfg e fuel info loc hz s).
  Proof.
    induction fuel as [|f IH]; intros s Hfuel Hinv Hhz; [lia|].
    rewrite ka_loop_unfold'. cbn [ka_loop2]. unfold read_frame.
    pose proof (read_ka loc hz (fuel_of s) s s (fuel_need s) Hinv Hhz (le_n _)) as Hr.
    destruct (m1_read e loc hz (abs max s)) as [tr1 r1].
    destruct (read_frame_f cfg e (fuel_of s) (Some loc) hz s) as [tr2 r2].
    destruct Hr as [Htr Hr]. cbn [fst snd] in Htr, Hr. subst tr2.
    destruct r1 as [fin o|s1|id body s1]; destruct r2 as [id' body' s2|s2|fin']; try contradiction.
    - subst fin'. split; [reflexivity | exact I].
    - split; [reflexivity | exact Hr].
    - destruct Hr as (<- & <- & -> & Hinv2 & Hhz2 & Hk2).
      cbn [abs s_ka s_now]. 
      destruct (conf_frame cfg info (b_ka s2) id body) as [ka''|vs|o].
      + set (s3 := upd s2 (b_now s2) (b_dl s2) ka'' (b_in s2) (b_nka s2) (b_rd s2)).
        assert (Hk3 : (kmeas s3 < f)%nat) by (unfold kmeas in *; cbn [s3 upd b_in b_rd]; lia).
        specialize (IH s3 Hk3 Hinv2 Hhz2).
        change (ka_loop cfg e info loc hz (s_in (abs max s3)) (s_now (abs max s3)) (s_dl (abs max s3)) (s_ka (abs max s3))
                  (s_nka (abs max s3)) (s_nnow (abs max s3)))
          with (ka_loop cfg e info loc hz (s_in (abs max s2)) (b_now s2) (s_dl (abs max s2)) ka'' (s_nka (abs max s2)) (s_nnow (abs max s2))) in IH.
        destruct (ka_loop cfg e info loc hz (s_in (abs max s2)) (b_now s2) (s_dl (abs max s2)) ka'' (s_nka (abs max s2)) (s_nnow (abs max s2)))
          as [tr3 r3].
        destruct (ka_loop2 cfg e f info loc hz s3) as [tr4 r4].
        destruct IH as [Htr IH]. cbn [fst snd] in Htr, IH. subst tr4.
        split; [reflexivity | exact IH].
      + split; [reflexivity|]. cbn [snd]. split; [reflexivity|]. split; [reflexivity | exact Hinv2].
      + split; [reflexivity | exact I].
  Qed.

  (* ---- the handler program ---- *)
  Definition hrel (a b : trace) : Prop := if strict then a = b else unhang a = unhang b.

  Lemma hrel_refl a : hrel a a.
  Proof. unfold hrel. destruct strict; reflexivity. Qed.
  Lemma hrel_app pre a b : hrel a b -> hrel (pre ++ a) (pre ++ b).
  Proof. unfold hrel, unhang. destruct strict; intros H; [rewrite H; reflexivity | rewrite !map_app, H; reflexivity]. Qed.
  Lemma hrel_cons x a b : hrel a b -> hrel (x :: a) (x :: b).
  Proof. apply (hrel_app [x]). Qed.

  Theorem exec_refines : forall p s, inv s -> hrel (exec2 cfg e p s) (exec cfg e p (abs max s)).
  Proof.
    induction p as [o|k IH|loc k IH|loc c k IH|c k IH|pk vs k IH|ss k IH|w k IH|k IH]; intros s Hinv.
    - apply hrel_refl.
    - (* Expect *)
      rewrite exec_expect_unfold. cbn [exec2]. unfold read_frame.
      pose proof (read_none (fuel_of s) s s (fuel_need0 s) Hinv (le_n _)) as Hr.
      destruct (read_frame_f cfg e (fuel_of s) None None s) as [tr2 r2].
      destruct Hr as [Htr Hr]. cbn [fst snd] in Htr, Hr. subst tr2. cbn [app].
      destruct (m1_next (abs max s)) as [fin o|s1|id body s1]; destruct r2 as [id' body' s2|s2|fin']; try contradiction.
      + destruct Hr as [->|(Hst & t & t' & -> & ->)]; [apply hrel_refl|].
        unfold hrel. rewrite Hst. reflexivity.
      + destruct Hr as (-> & _). apply hrel_refl.
      + destruct Hr as (<- & <- & -> & Hinv2 & _ & _). cbn [abs s_now].
        destruct (negb (len_ok cfg id body)); [apply hrel_refl|]. apply hrel_cons. apply IH. exact Hinv2.
    - (* WaitInfo *)
      cbn [exec2 exec].
      pose proof (ka_sim true loc None (length (b_in s) + 3) s (fuel_kmeas s) Hinv I) as Hk.
      destruct (ka_loop cfg e true loc None (s_in (abs max s)) (s_now (abs max s)) (s_dl (abs max s)) (s_ka (abs max s))
                  (s_nka (abs max s)) (s_nnow (abs max s))) as [tr1 r1].
      destruct (ka_loop2 cfg e (length (b_in s) + 3) true loc None s) as [tr2 r2].
      destruct Hk as [Htr Hres]. cbn [fst snd] in Htr, Hres. subst tr2.
      destruct r1 as [vs1 s1|s1|o1]; destruct r2 as [[[vs2 s2]|s2]|u2]; try contradiction.
      + destruct Hres as (-> & -> & Hinv2). apply hrel_app. apply IH. exact Hinv2.
      + destruct Hres as (-> & Hinv2). apply hrel_refl.
      + apply hrel_refl.
    - (* Race *)
      cbn [exec2 exec]. destruct (e_res e c) as [r lat].
      assert (Hhz : hz_gt (Some (b_now s + Z.max lat 1)) (b_now s)) by (cbn [hz_gt]; lia).
      pose proof (ka_sim false loc (Some (b_now s + Z.max lat 1)) (length (b_in s) + 3) s (fuel_kmeas s) Hinv Hhz) as Hk.
      change (s_now (abs max s)) with (b_now s) in *.
      destruct (ka_loop cfg e false loc (Some (b_now s + Z.max lat 1)) (s_in (abs max s)) (b_now s) (s_dl (abs max s))
                  (s_ka (abs max s)) (s_nka (abs max s)) (s_nnow (abs max s))) as [tr1 r1].
      destruct (ka_loop2 cfg e (length (b_in s) + 3) false loc (Some (b_now s + Z.max lat 1)) s) as [tr2 r2].
      destruct Hk as [Htr Hres]. cbn [fst snd] in Htr, Hres. subst tr2.
      destruct r1 as [vs1 s1|s1|o1]; destruct r2 as [[[vs2 s2]|s2]|u2]; try contradiction.
      + apply hrel_refl.
      + destruct Hres as (-> & Hinv2). apply (hrel_app ((b_now s, TCall c) :: tr1)). apply hrel_cons. apply IH. exact Hinv2.
      + apply hrel_refl.
    - (* Call *)
      cbn [exec2 exec]. change (s_now (abs max s)) with (b_now s). destruct (e_res e c) as [r lat].
      apply hrel_cons. apply hrel_cons.
      apply (IH r (upd s (b_now s + Z.max lat 0) (b_dl s) (b_ka s) (b_in s) (b_nka s) (b_rd s))). exact Hinv.
    - cbn [exec2 exec]. apply hrel_cons. apply IH. exact Hinv.
    - cbn [exec2 exec]. apply hrel_cons. apply IH. exact Hinv.
    - cbn [exec2 exec]. destruct w; apply hrel_cons; apply IH; exact Hinv.
    - cbn [exec2 exec]. apply hrel_cons.
      apply (IH (e_now e (b_nnow s)) {| b_now := b_now s; b_dl := b_dl s; b_ka := b_ka s; b_in := b_in s; b_eof := b_eof s;
                                        b_nka := b_nka s; b_nnow := S (b_nnow s); b_rd := b_rd s |}). exact Hinv.
  Qed.
End Read.

(* ------------------------------------------------------------------------------------ *)
(* Part 4: whole runs                                                                     *)
(* ------------------------------------------------------------------------------------ *)
Lemma abs_init (max : Z) (s : segs) : abs max (init2 s) = init1 (frames_of max s).
Proof.
  unfold init2, frames_of. rewrite frames_stream. destruct (bytes_of_segs s) as [l eo]. reflexivity.
Qed.

Lemma inv_init (strict : bool) (cfg : conn_cfg) (s : segs) :
  frame_sorted (cf_max_len cfg) s = true -> (strict = true -> ends_clean (cf_max_len cfg) s = true) ->
  inv cfg strict (init2 s).
Proof.
  unfold frame_sorted, ends_clean, init2, inv, invp. destruct (bytes_of_segs s) as [l eo]. cbn [b_rd b_in b_eof].
  intros H1 H2. split; [discriminate|]. split; assumption.
Qed.

(* THE REFINEMENT.  For every configuration, environment, oracle set and every schedule - however
   the client's bytes are cut into segments, wherever keep-alive ticks and completions of raced
   adapter calls fall - whose byte times do not decrease inside a frame and which does not stop
   inside a frame without an end of stream: the byte-level run IS the frame-level run on the
   reader's output (same events, same values, same instants). *)
Theorem refines (o : oracles) (cfg : conn_cfg) (e : env) (s : segs) :
  frame_sorted (cf_max_len cfg) s = true -> ends_clean (cf_max_len cfg) s = true ->
  run2 o cfg e s = run1 o cfg e (frames_of (cf_max_len cfg) s).
Proof.
  intros H1 H2. unfold run2, run1. rewrite <- abs_init.
  apply (exec_refines cfg e true (listen o cfg) (init2 s)). apply inv_init; [exact H1 | intros _; exact H2].
Qed.

(* without the second condition: the same, up to the instant of a final hang *)
Theorem refines_mod_hang (o : oracles) (cfg : conn_cfg) (e : env) (s : segs) :
  frame_sorted (cf_max_len cfg) s = true ->
  unhang (run2 o cfg e s) = unhang (run1 o cfg e (frames_of (cf_max_len cfg) s)).
Proof.
  intros H1. unfold run2, run1. rewrite <- abs_init.
  apply (exec_refines cfg e false (listen o cfg) (init2 s)). apply inv_init; [exact H1 | intros H; discriminate H].
Qed.

(* a frame-level run that does not hang is matched exactly, whether the stream stops inside a
   frame or not *)
Lemma unhang1_eq x y : unhang1 x = unhang1 y -> (match snd y with TEnd OHang => true | _ => false end) = false -> x = y.
Proof.
  destruct x as [t ev], y as [t' ev']. cbn [snd].
  destruct ev', ev; cbn [unhang1]; intros H Hh; try exact H;
    repeat match goal with o : outcome |- _ => destruct o; cbn [unhang1] in * end; try exact H; discriminate.
Qed.

Lemma unhang_eq_nohang : forall a b, unhang a = unhang b -> hangs b = false -> a = b.
Proof.
  induction a as [|x a IH]; intros [|y b] H Hh; try discriminate H; [reflexivity|].
  cbn [unhang map] in H. injection H as H1 H2. cbn [hangs existsb] in Hh. apply orb_false_iff in Hh as [Hy Hb].
  rewrite (unhang1_eq x y H1 Hy), (IH b H2 Hb). reflexivity.
Qed.

Theorem refines_unless_hang (o : oracles) (cfg : conn_cfg) (e : env) (s : segs) :
  frame_sorted (cf_max_len cfg) s = true ->
  hangs (run1 o cfg e (frames_of (cf_max_len cfg) s)) = false ->
  run2 o cfg e s = run1 o cfg e (frames_of (cf_max_len cfg) s).
Proof. intros H1 H2. apply unhang_eq_nohang; [apply refines_mod_hang; exact H1 | exact H2]. Qed.

(* ---- schedules with non-decreasing segment times are frame-sorted ---- *)
Fixpoint bsorted (tp : option Z) (l : bstream) (eof : option Z) : Prop :=
  match l with
  | [] => match tp, eof with Some p, Some te => p <= te | _, _ => True end
  | (t, _) :: r => match tp with Some p => p <= t | None => True end /\ bsorted (Some t) r eof
  end.

Lemma bsorted_le eof l p q : p <= q -> bsorted (Some q) l eof -> bsorted (Some p) l eof.
Proof.
  intros Hpq. destruct l as [|[t b] r]; cbn [bsorted].
  - destruct eof; [lia | intros; exact I].
  - intros [H1 H2]. split; [lia | exact H2].
Qed.

Lemma bsorted_weaken eof l p : bsorted (Some p) l eof -> bsorted None l eof.
Proof. destruct l as [|[t b] r]; cbn [bsorted]; [intros; exact I | intros [_ H]; split; [exact I | exact H]]. Qed.

Lemma bsorted_fsorted max eof : forall l st tp, bsorted tp l eof -> fsorted max st tp l eof = true.
Proof.
  induction l as [|[t b] r IH]; intros st tp H; cbn [bsorted fsorted] in *.
  - destruct tp as [p|], eof as [te|]; try reflexivity. apply Z.leb_le. exact H.
  - destruct H as [H1 H2]. apply andb_true_intro. split.
    + destruct tp as [p|]; [apply Z.leb_le; exact H1 | reflexivity].
    + destruct (feed_byte max st b) as [st' [|[id body| |] evs]]; try reflexivity.
      * apply IH. exact H2.
      * apply IH. exact (bsorted_weaken _ _ _ H2).
Qed.

Lemma bsorted_block eof t l : forall bs p, p <= t -> bsorted (Some t) l eof -> bsorted (Some p) (map (pair t) bs ++ l) eof.
Proof.
  induction bs as [|b bs IH]; intros p Hp H; cbn [map app].
  - exact (bsorted_le _ _ _ _ Hp H).
  - cbn [bsorted]. split; [exact Hp|]. apply IH; [lia | exact H].
Qed.

Lemma sorted_bsorted : forall s t0,
  sorted_from t0 s = true -> bsorted (Some t0) (fst (bytes_of_segs s)) (snd (bytes_of_segs s)).
Proof.
  induction s as [|[t [bs|]] r IH]; intros t0 H; cbn [sorted_from bytes_of_segs] in *.
  - exact I.
  - apply andb_prop in H as [H1 H2]. apply Z.leb_le in H1. specialize (IH t H2).
    destruct (bytes_of_segs r) as [l eo]. cbn [fst snd] in *. apply bsorted_block; assumption.
  - apply andb_prop in H as [H1 _]. apply Z.leb_le in H1. exact H1.
Qed.

Lemma sorted_frame_sorted (max : Z) (s : segs) : sorted s = true -> frame_sorted max s = true.
Proof.
  intros H. unfold frame_sorted.
  assert (Hb : bsorted None (fst (bytes_of_segs s)) (snd (bytes_of_segs s))).
  { destruct s as [|[t x] r]; [exact I|]. unfold sorted in H. exact (bsorted_weaken _ _ _ (sorted_bsorted _ _ H)). }
  destruct (bytes_of_segs s) as [l eo]. apply bsorted_fsorted. exact Hb.
Qed.

Corollary refines_sorted (o : oracles) (cfg : conn_cfg) (e : env) (s : segs) :
  sorted s = true -> ends_clean (cf_max_len cfg) s = true ->
  run2 o cfg e s = run1 o cfg e (frames_of (cf_max_len cfg) s).
Proof. intros H1 H2. apply refines; [apply sorted_frame_sorted; exact H1 | exact H2]. Qed.

(* ------------------------------------------------------------------------------------ *)
(* Part 5: every frame is consumed at most once, in order (M1, transferred to M2)         *)
(* ------------------------------------------------------------------------------------ *)
Lemma recvs_app a b : recvs (a ++ b) = recvs a ++ recvs b.
Proof.
  induction a as [|[t ev] a IH]; [reflexivity|]. destruct ev; cbn [app recvs]; rewrite ?IH; reflexivity.
Qed.

Lemma is_prefix_nil b : is_prefix [] b.
Proof. destruct b; exact I. Qed.

Lemma is_prefix_app a : forall b c, is_prefix b c -> is_prefix (a ++ b) (a ++ c).
Proof. induction a as [|x a IH]; intros b c H; [exact H|]. cbn [app is_prefix]. split; [reflexivity | apply IH; exact H]. Qed.

Lemma is_prefix_app_nil a c : is_prefix a (a ++ c).
Proof. rewrite <- (app_nil_r a) at 1. apply is_prefix_app. apply is_prefix_nil. Qed.

Section Once.
  Variable cfg : conn_cfg.
  Variable e : env.

  Lemma ka_loop_nil_some info loc h now dl ka nka nnow :
    ka_loop cfg e info loc (Some h) [] now dl ka nka nnow =
      match ticks_until e loc now dl ka nka (h - 1) with
      | (tr, None) => (tr, KEnd (OErr KMissedKA))
      | (tr, Some (dl', ka', nka')) =>
          (tr, KDone {| s_now := Z.max now h; s_dl := dl'; s_ka := ka'; s_in := []; s_nka := nka'; s_nnow := nnow |})
      end.
  Proof. reflexivity. Qed.

  Lemma ka_loop_nil_none info loc now dl ka nka nnow :
    ka_loop cfg e info loc None [] now dl ka nka nnow =
      match ticks_until e loc now dl ka nka (Z.max now dl + 2 * P) with
      | (tr, None) => (tr, KEnd (OErr KMissedKA))
      | (tr, Some _) => (tr ++ [(now, TEnd OHang)], KEnd OHang)
      end.
  Proof. reflexivity. Qed.

  Lemma ka_loop_cons info loc hz t ev rest now dl ka nka nnow :
    ka_loop cfg e info loc hz ((t, ev) :: rest) now dl ka nka nnow =
      if match hz with Some h => h <=? Z.max t now | None => false end then
        match hz with
        | Some h =>
            match ticks_until e loc now dl ka nka (h - 1) with
            | (tr, None) => (tr, KEnd (OErr KMissedKA))
            | (tr, Some (dl', ka', nka')) =>
                (tr, KDone {| s_now := Z.max now h; s_dl := dl'; s_ka := ka'; s_in := (t, ev) :: rest;
                              s_nka := nka'; s_nnow := nnow |})
            end
        | None => ([(now, TEnd OHang)], KEnd OHang)
        end
      else
        match ticks_until e loc now dl ka nka (Z.max t now) with
        | (tr, None) => (tr, KEnd (OErr KMissedKA))
        | (tr, Some (dl', ka', nka')) =>
            match ev with
            | IEof => (tr ++ [(Z.max t now, TEnd (OErr KClosed))], KEnd (OErr KClosed))
            | IBadLen => (tr ++ [(Z.max t now, TEnd (OErr KIllegalLen))], KEnd (OErr KIllegalLen))
            | IFrame id body =>
                match conf_frame cfg info ka' id body with
                | FEnd o => (tr ++ [(Z.max t now, TRecv id body); (Z.max t now, TEnd o)], KEnd o)
                | FInfo vs =>
                    (tr ++ [(Z.max t now, TRecv id body)],
                     KGot vs {| s_now := Z.max t now; s_dl := dl'; s_ka := ka'; s_in := rest; s_nka := nka'; s_nnow := nnow |})
                | FCont ka'' =>
                    let (tr2, r) := ka_loop cfg e info loc hz rest (Z.max t now) dl' ka'' nka' nnow in
                    (tr ++ (Z.max t now, TRecv id body) :: tr2, r)
                end
            end
        end.
  Proof. reflexivity. Qed.



  Lemma tick_at_recvs loc tt dl ka nka : recvs (fst (tick_at e loc tt dl ka nka)) = [].
  Proof.
    unfold tick_at. destruct ka; [destruct (fst (e_res e (CLocalize loc key_timeout))); reflexivity | reflexivity].
  Qed.

  Lemma ticks_until_recvs loc now dl ka nka t : recvs (fst (ticks_until e loc now dl ka nka t)) = [].
  Proof.
    unfold ticks_until. destruct (t <? dl); [reflexivity|].
    pose proof (tick_at_recvs loc (Z.max dl now) dl ka nka) as H1.
    destruct (tick_at e loc (Z.max dl now) dl ka nka) as [tr1 [[[dl1 ka1] nka1]|]]; cbn [fst] in *; [|exact H1].
    destruct (t <? dl1); [exact H1|].
    pose proof (tick_at_recvs loc dl1 dl1 ka1 nka1) as H2.
    destruct (tick_at e loc dl1 dl1 ka1 nka1) as [tr2 [x|]]; cbn [fst] in *; rewrite recvs_app, H1, H2; reflexivity.
  Qed.

  Lemma ka_loop_recvs info loc hz : forall ib now dl ka nka nnow,
    match ka_loop cfg e info loc hz ib now dl ka nka nnow with
    | (tr, KGot _ s') => in_frames ib = recvs tr ++ in_frames (s_in s')
    | (tr, KDone s') => in_frames ib = recvs tr ++ in_frames (s_in s')
    | (tr, KEnd _) => is_prefix (recvs tr) (in_frames ib)
    end.
  Proof.
    induction ib as [|[t ev] rest IH]; intros now dl ka nka nnow.
    - destruct hz as [h|].
      + rewrite ka_loop_nil_some. pose proof (ticks_until_recvs loc now dl ka nka (h - 1)) as Ht.
        destruct (ticks_until e loc now dl ka nka (h - 1)) as [tr [[[dl' ka'] nka']|]]; cbn [fst] in Ht; rewrite Ht;
          [reflexivity | exact I].
      + rewrite ka_loop_nil_none. pose proof (ticks_until_recvs loc now dl ka nka (Z.max now dl + 2 * P)) as Ht.
        destruct (ticks_until e loc now dl ka nka (Z.max now dl + 2 * P)) as [tr [x|]]; cbn [fst] in Ht;
          rewrite ?recvs_app, Ht; exact I.
    - rewrite ka_loop_cons.
      destruct (match hz with Some h => h <=? Z.max t now | None => false end).
      + destruct hz as [h|]; [|exact I].
        pose proof (ticks_until_recvs loc now dl ka nka (h - 1)) as Ht.
        destruct (ticks_until e loc now dl ka nka (h - 1)) as [tr [[[dl' ka'] nka']|]]; cbn [fst] in Ht; rewrite Ht;
          [reflexivity | apply is_prefix_nil].
      + pose proof (ticks_until_recvs loc now dl ka nka (Z.max t now)) as Ht.
        destruct (ticks_until e loc now dl ka nka (Z.max t now)) as [tr [[[dl' ka'] nka']|]]; cbn [fst] in Ht;
          [|rewrite Ht; apply is_prefix_nil].
        destruct ev as [id body| |].
        * cbn [in_frames]. destruct (conf_frame cfg info ka' id body) as [ka''|vs|o].
          -- specialize (IH (Z.max t now) dl' ka'' nka' nnow).
             destruct (ka_loop cfg e info loc hz rest (Z.max t now) dl' ka'' nka' nnow) as [tr2 [vs s'|s'|o]];
               rewrite recvs_app, Ht; cbn [app recvs].
             ++ rewrite IH. reflexivity.
             ++ rewrite IH. reflexivity.
             ++ split; [reflexivity | exact IH].
          -- rewrite recvs_app, Ht. reflexivity.
          -- rewrite recvs_app, Ht. cbn [app recvs is_prefix]. split; [reflexivity | exact I].
        * rewrite recvs_app, Ht. apply is_prefix_nil.
        * rewrite recvs_app, Ht. apply is_prefix_nil.
  Qed.

  Theorem exec_recvs : forall p s, is_prefix (recvs (exec cfg e p s)) (in_frames (s_in s)).
  Proof.
    induction p as [o|k IH|loc k IH|loc c k IH|c k IH|pk vs k IH|ss k IH|w k IH|k IH]; intros s; cbn [exec].
    - apply is_prefix_nil.
    - unfold next_frame. destruct (s_in s) as [|[t ev] rest] eqn:Hin; [apply is_prefix_nil|].
      destruct ev as [id body| |]; [|apply is_prefix_nil|apply is_prefix_nil].
      cbn [in_frames]. destruct (negb (len_ok cfg id body)).
      + cbn [recvs is_prefix]. split; [reflexivity | exact I].
      + cbn [recvs is_prefix]. split; [reflexivity|].
        match goal with |- is_prefix (recvs (exec cfg e _ ?s')) _ => specialize (IH id body s') end. exact IH.
    - pose proof (ka_loop_recvs true loc None (s_in s) (s_now s) (s_dl s) (s_ka s) (s_nka s) (s_nnow s)) as Hk.
      destruct (ka_loop cfg e true loc None (s_in s) (s_now s) (s_dl s) (s_ka s) (s_nka s) (s_nnow s)) as [tr [vs s'|s'|o]].
      + rewrite recvs_app, Hk. apply is_prefix_app. apply IH.
      + rewrite recvs_app, Hk. apply is_prefix_app. apply is_prefix_nil.
      + exact Hk.
    - destruct (e_res e c) as [r lat].
      pose proof (ka_loop_recvs false loc (Some (s_now s + Z.max lat 1)) (s_in s) (s_now s) (s_dl s) (s_ka s) (s_nka s) (s_nnow s)) as Hk.
      destruct (ka_loop cfg e false loc (Some (s_now s + Z.max lat 1)) (s_in s) (s_now s) (s_dl s) (s_ka s) (s_nka s) (s_nnow s))
        as [tr [vs s'|s'|o]].
      + cbn [recvs]. rewrite Hk. apply is_prefix_app_nil.
      + cbn [app recvs]. rewrite recvs_app, Hk. apply is_prefix_app. cbn [recvs]. apply IH.
      + cbn [recvs]. exact Hk.
    - destruct (e_res e c) as [r lat]. cbn [recvs]. apply (IH r (set_now s (s_now s + Z.max lat 0))).
    - cbn [recvs]. apply IH.
    - cbn [recvs]. apply IH.
    - destruct w; cbn [recvs]; apply IH.
    - cbn [recvs].
      match goal with |- is_prefix (recvs (exec cfg e _ ?s')) _ => specialize (IH (e_now e (s_nnow s)) s') end. exact IH.
  Qed.
End Once.

Lemma recvs_unhang tr : recvs (unhang tr) = recvs tr.
Proof.
  induction tr as [|[t ev] tr IH]; [reflexivity|]. cbn [unhang map]. fold (unhang tr).
  destruct ev; cbn [unhang1 recvs]; try (rewrite IH; reflexivity). destruct o; cbn [recvs]; exact IH.
Qed.

(* the frames the byte-level handler consumes are a prefix of the frames the reader cuts out of
   the byte stream: each at most once, in order, complete *)
Theorem each_frame_once (o : oracles) (cfg : conn_cfg) (e : env) (s : segs) :
  frame_sorted (cf_max_len cfg) s = true ->
  is_prefix (recvs (run2 o cfg e s)) (in_frames (frames_of (cf_max_len cfg) s)).
Proof.
  intros H. rewrite <- recvs_unhang, (refines_mod_hang o cfg e s H), recvs_unhang. unfold run1.
  apply (exec_recvs cfg e (listen o cfg) (init1 (frames_of (cf_max_len cfg) s))).
Qed.

(* every property of all frame-level runs holds of the byte-level runs *)
Theorem transfer (Q : trace -> Prop) (o : oracles) (cfg : conn_cfg) (e : env) :
  (forall ib, Q (run1 o cfg e ib)) ->
  forall s, frame_sorted (cf_max_len cfg) s = true -> ends_clean (cf_max_len cfg) s = true -> Q (run2 o cfg e s).
Proof. intros HQ s H1 H2. rewrite (refines o cfg e s H1 H2). apply HQ. Qed.

(* ------------------------------------------------------------------------------------ *)
(* Part 6: no condition on the times - the byte-level handler only ever sees arrival times  *)
(* through its own clock, i.e. it cannot tell a schedule from its monotone version [mono]   *)
(* ------------------------------------------------------------------------------------ *)
Section Clamp.
  Variable cfg : conn_cfg.
  Variable e : env.
  Local Notation max := (cf_max_len cfg).

  Definition clamped (s1 s2 : st2) : Prop := exists B, B <= b_now s2 /\ s1 = clamp_st B s2.

  Definition crel (x y : trace * rres) : Prop :=
    fst x = fst y /\
    match snd x, snd y with
    | REnd f, REnd f' => f = f'
    | RCut s1, RCut s2 => clamped s1 s2
    | RGot i b s1, RGot i' b' s2 => i = i' /\ b = b' /\ clamped s1 s2
    | _, _ => False
    end.

  Lemma crel_pre tr x y :
    crel x y -> crel (let (tr2, r) := x in (tr ++ tr2, r)) (let (tr2, r) := y in (tr ++ tr2, r)).
  Proof. destruct x as [t1 r1], y as [t2 r2]. intros [H1 H2]. cbn [fst snd] in *. split; [rewrite H1; reflexivity | exact H2]. Qed.

  Lemma tin_clamp B s : B <= b_now s -> tin_of (clamp_st B s) = tin_of s.
  Proof.
    intros HB. unfold tin_of. cbn [clamp_st b_in b_eof b_now].
    destruct (b_in s) as [|[t b] r]; cbn [bclamp blast].
    - destruct (b_eof s) as [te|]; cbn [option_map]; [f_equal; lia | reflexivity].
    - f_equal. lia.
  Qed.

  Lemma length_bclamp : forall l B, length (bclamp B l) = length l.
  Proof. induction l as [|[t b] r IH]; intros B; cbn [bclamp length]; [reflexivity | rewrite IH; reflexivity]. Qed.

  Lemma rf_clamp : forall fuel m hz s B,
    B <= b_now s -> crel (read_frame_f cfg e fuel m hz (clamp_st B s)) (read_frame_f cfg e fuel m hz s).
  Proof.
    induction fuel as [|f IH]; intros m hz s B HB; [split; reflexivity|].
    rewrite !read_frame_f_S.
    assert (Hh : hfirst hz (clamp_st B s) = hfirst hz s) by (unfold hfirst; rewrite (tin_clamp B s HB); reflexivity).
    assert (Ht : tfirst (clamp_st B s) = tfirst s) by (unfold tfirst; rewrite (tin_clamp B s HB); reflexivity).
    rewrite Hh, Ht.
    destruct (hfirst hz s).
    { split; [reflexivity|]. destruct hz as [h|]; cbn [snd].
      - exists B. split; [cbn [upd b_now]; lia | reflexivity].
      - exists B. split; [exact HB | reflexivity]. }
    destruct (tfirst s).
    { destruct m as [loc|].
      - change (tick_at e loc (Z.max (b_dl (clamp_st B s)) (b_now (clamp_st B s))) (b_dl (clamp_st B s)) (b_ka (clamp_st B s)) (b_nka (clamp_st B s)))
          with (tick_at e loc (Z.max (b_dl s) (b_now s)) (b_dl s) (b_ka s) (b_nka s)).
        destruct (tick_at e loc (Z.max (b_dl s) (b_now s)) (b_dl s) (b_ka s) (b_nka s)) as [tr [[[dl' ka'] nka']|]]; [|split; reflexivity].
        apply crel_pre.
        apply (IH (Some loc) hz (upd s (Z.max (b_dl s) (b_now s)) dl' ka' (b_in s) nka' (b_rd s)) B). cbn [upd b_now]. lia.
      - rewrite (tin_clamp B s HB). destruct (tin_of s) as [c|]; [|split; reflexivity].
        apply (IH None hz (upd s (b_now s) (skip_ticks (b_dl s) (b_now s) c) (b_ka s) (b_in s) (b_nka s) (b_rd s)) B). exact HB. }
    destruct (b_in s) as [|[t b] r] eqn:Hin.
    - (* end of stream *)
      assert (Hcl : clamp_st B s = {| b_now := b_now s; b_dl := b_dl s; b_ka := b_ka s; b_in := [];
                                      b_eof := option_map (fun te => Z.max te B) (b_eof s);
                                      b_nka := b_nka s; b_nnow := b_nnow s; b_rd := b_rd s |})
        by (unfold clamp_st; rewrite Hin; reflexivity).
      rewrite Hcl. cbn [b_in b_eof b_now b_rd b_dl b_ka b_nka]. cbv zeta.
      assert (Ht' : match option_map (fun te => Z.max te B) (b_eof s) with Some te => Z.max te (b_now s) | None => b_now s end
                    = match b_eof s with Some te => Z.max te (b_now s) | None => b_now s end)
        by (destruct (b_eof s) as [te|]; cbn [option_map]; lia).
      rewrite Ht'. set (t' := match b_eof s with Some te => Z.max te (b_now s) | None => b_now s end).
      destruct (eof_events (b_rd s)) as [|[id body| |] evs]; try (split; reflexivity).
      split; [reflexivity|]. cbn [snd]. split; [reflexivity|]. split; [reflexivity|].
      exists B. split; [cbn [upd b_now]; unfold t'; destruct (b_eof s); lia|].
      unfold clamp_st, upd. cbn [b_now b_dl b_ka b_in b_eof b_nka b_nnow b_rd bclamp blast]. reflexivity.
    - (* a byte *)
      assert (Hcl : clamp_st B s = {| b_now := b_now s; b_dl := b_dl s; b_ka := b_ka s; b_in := (Z.max t B, b) :: bclamp (Z.max t B) r;
                                      b_eof := option_map (fun te => Z.max te (blast (Z.max t B) r)) (b_eof s);
                                      b_nka := b_nka s; b_nnow := b_nnow s; b_rd := b_rd s |})
        by (unfold clamp_st; rewrite Hin; reflexivity).
      rewrite Hcl. cbn [b_in b_eof b_now b_rd b_dl b_ka b_nka]. cbv zeta.
      replace (Z.max (Z.max t B) (b_now s)) with (Z.max t (b_now s)) by lia.
      destruct (feed_byte max (b_rd s) b) as [rd' [|[id body| |] evs]]; try (split; reflexivity).
      + apply (IH m hz (upd s (Z.max t (b_now s)) (b_dl s) (b_ka s) r (b_nka s) rd') (Z.max t B)). cbn [upd b_now]. lia.
      + split; [reflexivity|]. cbn [snd]. split; [reflexivity|]. split; [reflexivity|].
        exists (Z.max t B). split; [cbn [upd b_now]; lia | reflexivity].
  Qed.

  Definition kcrel (x y : trace * (list fv * st2 + st2 + unit)) : Prop :=
    fst x = fst y /\
    match snd x, snd y with
    | inl (inl (vs, s1)), inl (inl (vs', s2)) => vs = vs' /\ clamped s1 s2
    | inl (inr s1), inl (inr s2) => clamped s1 s2
    | inr _, inr _ => True
    | _, _ => False
    end.

  Lemma ka_clamp info loc hz : forall fuel s B,
    B <= b_now s -> kcrel (ka_loop2 cfg e fuel info loc hz (clamp_st B s)) (ka_loop2 cfg e fuel info loc hz s).
  Proof.
    induction fuel as [|f IH]; intros s B HB; [split; [reflexivity | exact I]|].
    cbn [ka_loop2]. unfold read_frame.
    assert (Hfu : fuel_of (clamp_st B s) = fuel_of s) by (unfold fuel_of; cbn [clamp_st b_in]; rewrite length_bclamp; reflexivity).
    rewrite Hfu. pose proof (rf_clamp (fuel_of s) (Some loc) hz s B HB) as Hr.
    destruct (read_frame_f cfg e (fuel_of s) (Some loc) hz (clamp_st B s)) as [tr1 r1].
    destruct (read_frame_f cfg e (fuel_of s) (Some loc) hz s) as [tr2 r2].
    destruct Hr as [Htr Hr]. cbn [fst snd] in Htr, Hr. subst tr2.
    destruct r1 as [id body s1|s1|fin]; destruct r2 as [id' body' s2|s2|fin']; try contradiction.
    - destruct Hr as (<- & <- & B' & HB' & ->). cbn [clamp_st b_ka b_now].
      destruct (conf_frame cfg info (b_ka s2) id body) as [ka''|vs|o].
      + specialize (IH (upd s2 (b_now s2) (b_dl s2) ka'' (b_in s2) (b_nka s2) (b_rd s2)) B' HB').
        change (clamp_st B' (upd s2 (b_now s2) (b_dl s2) ka'' (b_in s2) (b_nka s2) (b_rd s2)))
          with (upd (clamp_st B' s2) (b_now s2) (b_dl (clamp_st B' s2)) ka'' (b_in (clamp_st B' s2)) (b_nka (clamp_st B' s2)) (b_rd (clamp_st B' s2))) in IH.
        destruct (ka_loop2 cfg e f info loc hz (upd (clamp_st B' s2) (b_now s2) (b_dl (clamp_st B' s2)) ka'' (b_in (clamp_st B' s2))
                    (b_nka (clamp_st B' s2)) (b_rd (clamp_st B' s2)))) as [tr3 r3].
        destruct (ka_loop2 cfg e f info loc hz (upd s2 (b_now s2) (b_dl s2) ka'' (b_in s2) (b_nka s2) (b_rd s2))) as [tr4 r4].
        destruct IH as [Htr IH]. cbn [fst snd] in Htr, IH. subst tr4. split; [reflexivity | exact IH].
      + split; [reflexivity|]. cbn [snd]. split; [reflexivity|]. exists B'. split; [exact HB' | reflexivity].
      + split; [reflexivity | exact I].
    - split; [reflexivity | exact Hr].
    - subst fin'. split; [reflexivity | exact I].
  Qed.

  Theorem exec2_clamp : forall p s B, B <= b_now s -> exec2 cfg e p (clamp_st B s) = exec2 cfg e p s.
  Proof.
    induction p as [o|k IH|loc k IH|loc c k IH|c k IH|pk vs k IH|ss k IH|w k IH|k IH]; intros s B HB.
    - reflexivity.
    - (* Expect *)
      cbn [exec2]. unfold read_frame.
      assert (Hfu : fuel_of (clamp_st B s) = fuel_of s) by (unfold fuel_of; cbn [clamp_st b_in]; rewrite length_bclamp; reflexivity).
      rewrite Hfu. pose proof (rf_clamp (fuel_of s) None None s B HB) as Hr.
      destruct (read_frame_f cfg e (fuel_of s) None None (clamp_st B s)) as [tr1 r1].
      destruct (read_frame_f cfg e (fuel_of s) None None s) as [tr2 r2].
      destruct Hr as [Htr Hr]. cbn [fst snd] in Htr, Hr. subst tr2.
      destruct r1 as [id body s1|s1|fin]; destruct r2 as [id' body' s2|s2|fin']; try contradiction.
      + destruct Hr as (<- & <- & B' & HB' & ->). cbn [clamp_st b_now].
        destruct (negb (len_ok cfg id body)); [reflexivity|]. rewrite (IH id body s2 B' HB'). reflexivity.
      + destruct Hr as (B' & HB' & ->). reflexivity.
      + subst fin'. reflexivity.
    - (* WaitInfo *)
      cbn [exec2]. cbn [clamp_st b_in]. rewrite length_bclamp.
      pose proof (ka_clamp true loc None (length (b_in s) + 3) s B HB) as Hk.
      destruct (ka_loop2 cfg e (length (b_in s) + 3) true loc None (clamp_st B s)) as [tr1 r1].
      destruct (ka_loop2 cfg e (length (b_in s) + 3) true loc None s) as [tr2 r2].
      destruct Hk as [Htr Hk]. cbn [fst snd] in Htr, Hk. subst tr2.
      destruct r1 as [[[vs1 s1]|s1]|u1]; destruct r2 as [[[vs2 s2]|s2]|u2]; try contradiction.
      + destruct Hk as (<- & B' & HB' & ->). rewrite (IH vs1 s2 B' HB'). reflexivity.
      + destruct Hk as (B' & HB' & ->). reflexivity.
      + reflexivity.
    - (* Race *)
      cbn [exec2]. cbn [clamp_st b_in b_now]. rewrite length_bclamp. destruct (e_res e c) as [r lat].
      pose proof (ka_clamp false loc (Some (b_now s + Z.max lat 1)) (length (b_in s) + 3) s B HB) as Hk.
      destruct (ka_loop2 cfg e (length (b_in s) + 3) false loc (Some (b_now s + Z.max lat 1)) (clamp_st B s)) as [tr1 r1].
      destruct (ka_loop2 cfg e (length (b_in s) + 3) false loc (Some (b_now s + Z.max lat 1)) s) as [tr2 r2].
      destruct Hk as [Htr Hk]. cbn [fst snd] in Htr, Hk. subst tr2.
      destruct r1 as [[[vs1 s1]|s1]|u1]; destruct r2 as [[[vs2 s2]|s2]|u2]; try contradiction.
      + reflexivity.
      + destruct Hk as (B' & HB' & ->). rewrite (IH r s2 B' HB'). reflexivity.
      + reflexivity.
    - (* Call *)
      cbn [exec2]. cbn [clamp_st b_now]. destruct (e_res e c) as [r lat]. f_equal. f_equal.
      apply (IH r (upd s (b_now s + Z.max lat 0) (b_dl s) (b_ka s) (b_in s) (b_nka s) (b_rd s)) B). cbn [upd b_now]. lia.
    - cbn [exec2]. cbn [clamp_st b_now]. f_equal. apply IH. exact HB.
    - cbn [exec2]. cbn [clamp_st b_now]. f_equal. apply IH. exact HB.
    - cbn [exec2]. destruct w; cbn [clamp_st b_now b_nka]; f_equal; apply IH; exact HB.
    - cbn [exec2]. cbn [clamp_st b_now b_nnow]. f_equal.
      apply (IH (e_now e (b_nnow s)) {| b_now := b_now s; b_dl := b_dl s; b_ka := b_ka s; b_in := b_in s; b_eof := b_eof s;
                                        b_nka := b_nka s; b_nnow := S (b_nnow s); b_rd := b_rd s |} B). exact HB.
  Qed.
End Clamp.

Lemma bclamp_block t l : forall bs B,
  bclamp B (map (fun b => (t, b)) bs ++ l) = map (fun b => (Z.max t B, b)) bs ++ bclamp (match bs with [] => B | _ => Z.max t B end) l.
Proof.
  induction bs as [|b bs IH]; intros B; [reflexivity|].
  cbn [map app bclamp]. rewrite IH. replace (Z.max t (Z.max t B)) with (Z.max t B) by lia.
  destruct bs; reflexivity.
Qed.

Lemma blast_block t l : forall bs B,
  blast B (map (fun b => (t, b)) bs ++ l) = blast (match bs with [] => B | _ => Z.max t B end) l.
Proof.
  induction bs as [|b bs IH]; intros B; [reflexivity|].
  cbn [map app blast]. rewrite IH. replace (Z.max t (Z.max t B)) with (Z.max t B) by lia.
  destruct bs; reflexivity.
Qed.

Lemma bytes_mono : forall s B,
  bytes_of_segs (mono_from B s)
  = (bclamp B (fst (bytes_of_segs s)), option_map (fun te => Z.max te (blast B (fst (bytes_of_segs s)))) (snd (bytes_of_segs s))).
Proof.
  induction s as [|[t [[|b bs]|]] r IH]; intros B; cbn [mono_from bytes_of_segs].
  - reflexivity.
  - rewrite IH. destruct (bytes_of_segs r) as [l eo]. reflexivity.
  - rewrite IH. destruct (bytes_of_segs r) as [l eo]. cbn [fst snd].
    rewrite (bclamp_block t l (b :: bs) B), (blast_block t l (b :: bs) B). reflexivity.
  - reflexivity.
Qed.

Lemma init2_mono (s : segs) : init2 (mono s) = clamp_st 0 (init2 s).
Proof.
  unfold init2, mono. rewrite bytes_mono. destruct (bytes_of_segs s) as [l eo]. reflexivity.
Qed.

(* the byte-level handler cannot tell a schedule from its monotone version *)
Theorem run2_mono (o : oracles) (cfg : conn_cfg) (e : env) (s : segs) : run2 o cfg e (mono s) = run2 o cfg e s.
Proof. unfold run2. rewrite init2_mono. apply exec2_clamp. unfold init2. destruct (bytes_of_segs s). cbn [b_now]. lia. Qed.

Lemma sorted_from_mono : forall s B, sorted_from B (mono_from B s) = true.
Proof.
  induction s as [|[t [[|b bs]|]] r IH]; intros B; cbn [mono_from sorted_from]; try reflexivity; try apply IH;
    (apply andb_true_intro; split; [apply Z.leb_le; lia | apply IH]).
Qed.

Lemma sorted_from_weaken s : forall a b, a <= b -> sorted_from b s = true -> sorted_from a s = true.
Proof.
  destruct s as [|[t x] r]; intros a b Hab; cbn [sorted_from]; [reflexivity|].
  intros H. apply andb_prop in H as [H1 H2]. apply Z.leb_le in H1. apply andb_true_intro. split; [apply Z.leb_le; lia | exact H2].
Qed.

Lemma sorted_mono (s : segs) : sorted (mono s) = true.
Proof.
  unfold sorted. pose proof (sorted_from_mono s 0) as H. unfold mono.
  destruct (mono_from 0 s) as [|[t x] r]; [reflexivity|].
  cbn [sorted_from] in *. apply andb_prop in H as [_ H]. rewrite Z.leb_refl. exact H.
Qed.

Lemma ends_clean_mono max (s : segs) : ends_clean max (mono s) = ends_clean max s.
Proof.
  unfold ends_clean, mono. rewrite bytes_mono. destruct (bytes_of_segs s) as [l eo]. cbn [fst snd]. unfold closed.
  assert (Hb : forall l B, map snd (bclamp B l) = map snd l)
    by (induction l0 as [|[t b] r IH]; intros B; cbn [bclamp map snd]; [reflexivity | rewrite IH; reflexivity]).
  rewrite Hb. destruct eo; reflexivity.
Qed.

(* THE REFINEMENT WITHOUT ANY CONDITION ON THE TIMES: the byte-level run is the frame-level run
   on the reader's output for the schedule as the handler's clock sees it *)
Theorem refines_all (o : oracles) (cfg : conn_cfg) (e : env) (s : segs) :
  ends_clean (cf_max_len cfg) s = true ->
  run2 o cfg e s = run1 o cfg e (frames_of (cf_max_len cfg) (mono s)).
Proof.
  intros H. rewrite <- run2_mono. apply refines_sorted; [apply sorted_mono | rewrite ends_clean_mono; exact H].
Qed.

(* ... and with no condition at all, up to the instant of a final hang *)
Theorem refines_all_mod_hang (o : oracles) (cfg : conn_cfg) (e : env) (s : segs) :
  unhang (run2 o cfg e s) = unhang (run1 o cfg e (frames_of (cf_max_len cfg) (mono s))).
Proof.
  rewrite <- run2_mono. apply refines_mod_hang. apply sorted_frame_sorted. apply sorted_mono.
Qed.

(* ... and exactly, whenever that frame-level run does not hang *)
Theorem refines_all_unless_hang (o : oracles) (cfg : conn_cfg) (e : env) (s : segs) :
  hangs (run1 o cfg e (frames_of (cf_max_len cfg) (mono s))) = false ->
  run2 o cfg e s = run1 o cfg e (frames_of (cf_max_len cfg) (mono s)).
Proof. intros H. apply unhang_eq_nohang; [apply refines_all_mod_hang | exact H]. Qed.

(* every property of all frame-level runs holds of the byte-level runs: of all of them if it does
   not depend on the instant of a hang, otherwise of those whose stream does not stop inside a frame *)
Theorem transfer_all (Q : trace -> Prop) (o : oracles) (cfg : conn_cfg) (e : env) :
  (forall ib, Q (run1 o cfg e ib)) ->
  forall s, ends_clean (cf_max_len cfg) s = true -> Q (run2 o cfg e s).
Proof. intros HQ s H. rewrite (refines_all o cfg e s H). apply HQ. Qed.

Theorem transfer_all_mod_hang (Q : trace -> Prop) (o : oracles) (cfg : conn_cfg) (e : env) :
  (forall ib, Q (unhang (run1 o cfg e ib))) -> forall s, Q (unhang (run2 o cfg e s)).
Proof. intros HQ s. rewrite (refines_all_mod_hang o cfg e s). apply HQ. Qed.

(* the frames of a schedule do not depend on its times *)
Lemma in_frames_app a b : in_frames (a ++ b) = in_frames a ++ in_frames b.
Proof.
  induction a as [|[t ev] a IH]; [reflexivity|]. destruct ev; cbn [app in_frames]; rewrite ?IH; reflexivity.
Qed.

Lemma in_frames_ev t t' evs : in_frames (map (ev_in t) evs) = in_frames (map (ev_in t') evs).
Proof. induction evs as [|ev evs IH]; [reflexivity|]. destruct ev; cbn [map ev_in in_frames]; rewrite ?IH; reflexivity. Qed.

Lemma in_frames_mono max : forall s st B, in_frames (frames_from max st (mono_from B s)) = in_frames (frames_from max st s).
Proof.
  induction s as [|[t [[|b bs]|]] r IH]; intros st B; cbn [mono_from frames_from].
  - reflexivity.
  - cbn [feed map app]. apply IH.
  - destruct (feed max st (b :: bs)) as [st' evs]. rewrite !in_frames_app, IH, (in_frames_ev (Z.max t B) t). reflexivity.
  - rewrite !in_frames_app, (in_frames_ev (Z.max t B) t). reflexivity.
Qed.

(* for EVERY schedule: each frame is consumed at most once, in order, complete *)
Theorem each_frame_once_all (o : oracles) (cfg : conn_cfg) (e : env) (s : segs) :
  is_prefix (recvs (run2 o cfg e s)) (in_frames (frames_of (cf_max_len cfg) s)).
Proof.
  rewrite <- run2_mono. unfold frames_of. rewrite <- (in_frames_mono (cf_max_len cfg) s RIdle 0).
  apply each_frame_once. apply sorted_frame_sorted. apply sorted_mono.
Qed.

Print Assumptions refines.
Print Assumptions refines_mod_hang.
Print Assumptions refines_unless_hang.
Print Assumptions refines_sorted.
Print Assumptions transfer.
Print Assumptions each_frame_once.
Print Assumptions refines_all.
Print Assumptions refines_all_mod_hang.
Print Assumptions each_frame_once_all.
Print Assumptions refines_all_unless_hang.
Print Assumptions run2_mono.
Print Assumptions transfer_all.
Print Assumptions transfer_all_mod_hang.
