(* C07: the timed keep-alive monitor.  State = (reference time: the last Keep Alive sent or
   the moment the wait began, the id still awaiting its echo).  Definitions only. *)
From Passage Require Import Lib.Bytes Codec.VarInt Codec.Desc Gen.PacketsGen Gen.ConstsGen
  Codec.PacketCheck Conn.Types Conn.Prog Conn.Sem1 Conn.Monitor.

Definition ka_echo (id : Z) (body : bytes) : option Z :=
  if id =? p_id configuration_sb_KeepAlivePacket then
    match dec vi vl (rkinds configuration_sb_KeepAlivePacket) body with
    | Ok [VZ kid] _ => Some kid
    | _ => None
    end
  else None.

(* one step; None = the trace violates the property *)
Definition c07_step (st : Z * option Z) (ev : timed) : option (Z * option Z) :=
  let (ref, out) := st in
  let (t, e) := ev in
  match e with
  | TSend p vs =>
      if is_pkt p configuration_cb_KeepAlivePacket then
        match out, vs with
        | None, [VZ id] => if t <=? ref + P then Some (t, Some id) else None   (* gap, one outstanding *)
        | _, _ => None
        end
      else Some st
  | TCall (CLocalize _ key) =>
      (* the timeout text is only asked for at a tick that finds an id unanswered, no later
         than one period after that id was sent *)
      if beq key key_timeout then
        match out with Some _ => if t <=? ref + P then Some st else None | None => None end
      else Some st
  | TRecv id body =>
      match ka_echo id body, out with
      | Some kid, Some o => if o =? kid then Some (ref, None) else Some st
      | _, _ => Some st
      end
  | TEnd (OErr KMissedKA) => match out with Some _ => Some st | None => None end
  | _ => Some st
  end.

Fixpoint c07_run (st : Z * option Z) (tr : trace) : option (Z * option Z) :=
  match tr with
  | [] => Some st
  | ev :: r => match c07_step st ev with Some st' => c07_run st' r | None => None end
  end.

(* evaluation on a whole connection trace: the keep-alive phase starts when Login
   Acknowledged has been consumed, i.e. with the first event after Login Success *)
Fixpoint c07_from_config (tr : trace) : bool :=
  match tr with
  | [] => true
  | (t, TSend p _) :: r =>
      if is_pkt p login_cb_LoginSuccessPacket then
        match r with
        | (t1, TRecv _ _) :: r1 =>
            match c07_run (t1, None) r1 with Some _ => true | None => false end
        | _ => true
        end
      else c07_from_config r
  | _ :: r => c07_from_config r
  end.
