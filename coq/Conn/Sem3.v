(* M3: the byte-level semantics M2 with a transport that may REFUSE writes, and a localization
   adapter that may suspend.  It models, in addition to M2 (Conn/Sem2.v):

     send_packet        the frame is appended to `Connection::unsent`, then flush_unsent;
     flush_unsent       `while !unsent.is_empty() { n = stream.write(&unsent).await?; drain(..n) }`:
                        each write is accepted for as many bytes as the transport has room for;
                        with no room the write is pending until room appears - or until the future
                        is dropped because the raced adapter call completed (select! in `listen`);
     the verdict        `keep_alive_missed` (No / Decided / Queued): a tick that finds the last
                        Keep Alive unanswered decides, asks the localization adapter (which may
                        suspend), marks Queued, queues the Disconnect, flushes; every one of these
                        waits can be dropped by the race; `check_keep_alive` after the race resumes
                        where it stopped and ends the connection.

   The transport: its free room is `None` (unlimited) or `Some n` bytes; a schedule of instants
   sets it (a reader draining its socket buffer, a congested link).  Between two instants only the
   handler's own writes reduce it.

   Output: the M2 events, the chunks the transport accepted (instant, bytes - plaintext: the
   cipher of C05 is a bytewise bijection and does not change lengths), and the adapter calls that
   were ABANDONED (started, then dropped by the race before they answered; the handler never saw
   a result, so they are not events of the trace).  When the raced call completes while a verdict
   is pending its result is dropped unused by `listen` (`check_keep_alive().await?` returns
   first): no TRes is recorded for it.  A write that is never accepted again leaves the trace
   without a TEnd: the handler hangs in the write.

   Ties between the race horizon and the instant room appears are resolved for the horizon
   (tokio's select! in `listen` is unbiased: the generators avoid such ties).
   Definitions only. *)
From Passage Require Import Lib.Bytes Codec.VarInt Codec.Desc Gen.PacketsGen Gen.ConstsGen
  Codec.PacketCheck Conn.Types Conn.Prog Conn.Sem1 Conn.Reader Conn.Sem2.

Definition wsched := list (Z * option Z).       (* (instant ms, free room from then on) *)

Inductive missed := MNo | MDecided | MQueued.

Record st3 := {
  c2 : st2;
  c_unsent : bytes;               (* Connection::unsent *)
  c_cap : option Z;               (* free room of the transport *)
  c_sch : wsched;                 (* future changes of the room, by instant *)
  c_missed : missed }.            (* Connection::keep_alive_missed *)

Inductive oev :=
| OT (e : timed)                  (* an event of the handler *)
| OW (t : Z) (b : bytes)          (* the transport accepted these bytes *)
| OA (t : Z) (c : call).          (* an adapter call that was dropped before it answered *)

Fixpoint trace_of (l : list oev) : trace :=
  match l with [] => [] | OT e :: r => e :: trace_of r | _ :: r => trace_of r end.
Fixpoint wire_of (l : list oev) : list (Z * bytes) :=
  match l with [] => [] | OW t b :: r => (t, b) :: wire_of r | _ :: r => wire_of r end.
Fixpoint abandoned_of (l : list oev) : list (Z * call) :=
  match l with [] => [] | OA t c :: r => (t, c) :: abandoned_of r | _ :: r => abandoned_of r end.
(* every adapter call in the order it was started *)
Fixpoint calls_of (l : list oev) : list (Z * call) :=
  match l with
  | [] => []
  | OT (t, TCall c) :: r => (t, c) :: calls_of r
  | OA t c :: r => (t, c) :: calls_of r
  | _ :: r => calls_of r
  end.

(* room changes that are due at [now] *)
Fixpoint absorb (now : Z) (cap : option Z) (sch : wsched) : option Z * wsched :=
  match sch with
  | (t, c) :: r => if t <=? now then absorb now c r else (cap, sch)
  | [] => (cap, [])
  end.

Inductive fl := FlDone | FlCut | FlHang.

Section Sem3.
  Variable cfg : conn_cfg.
  Variable e : env.
  Variable encf : packet -> list fv -> option bytes.     (* the packet writer (Gen / protocol table) *)
  Variable loclat : Z.                                   (* how long localize() suspends (0: it does not) *)

  Definition frame_bytes (pk : packet) (vs : list fv) : bytes :=
    match encf pk vs with
    | Some b => let inner := write_varint (p_id pk) ++ b in
                write_varint (Z.of_nat (length inner)) ++ inner
    | None => []
    end.

  Definition set2 (s : st3) (x : st2) : st3 :=
    {| c2 := x; c_unsent := c_unsent s; c_cap := c_cap s; c_sch := c_sch s; c_missed := c_missed s |}.
  Definition at_time (s : st3) (t : Z) : st3 :=
    set2 s (upd (c2 s) t (b_dl (c2 s)) (b_ka (c2 s)) (b_in (c2 s)) (b_nka (c2 s)) (b_rd (c2 s))).
  Definition set_missed (s : st3) (m : missed) : st3 :=
    {| c2 := c2 s; c_unsent := c_unsent s; c_cap := c_cap s; c_sch := c_sch s; c_missed := m |}.
  Definition enqueue (s : st3) (f : bytes) : st3 :=
    {| c2 := c2 s; c_unsent := c_unsent s ++ f; c_cap := c_cap s; c_sch := c_sch s; c_missed := c_missed s |}.
  Definition now3 (s : st3) : Z := b_now (c2 s).

  (* flush_unsent; [hz] = the instant at which the raced call completes (None: not raced) *)
  Fixpoint flush_f (fuel : nat) (hz : option Z) (s : st3) : list oev * st3 * fl :=
    match fuel with
    | O => ([], s, FlHang)
    | S f =>
        match c_unsent s with
        | [] => ([], s, FlDone)
        | _ :: _ =>
            let now := now3 s in
            let (cap, sch) := absorb now (c_cap s) (c_sch s) in
            match cap with
            | None =>
                ([OW now (c_unsent s)],
                 {| c2 := c2 s; c_unsent := []; c_cap := None; c_sch := sch; c_missed := c_missed s |}, FlDone)
            | Some n =>
                if 0 <? n then
                  let k := Z.to_nat (Z.min n (Z.of_nat (length (c_unsent s)))) in
                  let '(o, s', r) :=
                    flush_f f hz {| c2 := c2 s; c_unsent := skipn k (c_unsent s); c_cap := Some (n - Z.of_nat k);
                                    c_sch := sch; c_missed := c_missed s |} in
                  (OW now (firstn k (c_unsent s)) :: o, s', r)
                else
                  let s0 := {| c2 := c2 s; c_unsent := c_unsent s; c_cap := cap; c_sch := sch; c_missed := c_missed s |} in
                  match sch with
                  | [] => match hz with
                          | Some h => ([], at_time s0 (Z.max h now), FlCut)     (* only the race ends this wait *)
                          | None => ([], s0, FlHang)
                          end
                  | (te, _) :: _ =>
                      match hz with
                      | Some h => if h <=? te then ([], at_time s0 (Z.max h now), FlCut)
                                  else flush_f f hz (at_time s0 te)
                      | None => flush_f f hz (at_time s0 te)
                      end
                  end
            end
        end
    end.

  Definition flush (hz : option Z) (s : st3) : list oev * st3 * fl :=
    flush_f (2 * length (c_sch s) + 3) hz s.

  (* how a keep-alive tick (or the resumed verdict) ends *)
  Inductive tres := TkCont (s : st3) | TkCut (s : st3) | TkEnd.

  (* disconnect_missed_keep_alive, entered with keep_alive_missed <> No *)
  Definition verdict (loc : option bytes) (hz : option Z) (s : st3) : list oev * tres :=
    let finish (pre : list oev) (s1 : st3) :=
      match flush hz s1 with
      | (o, s2, FlDone) => (pre ++ o ++ [OT (now3 s2, TEnd (OErr KMissedKA))], TkEnd)
      | (o, s2, FlCut) => (pre ++ o, TkCut s2)
      | (o, _, FlHang) => (pre ++ o, TkEnd)
      end in
    match c_missed s with
    | MQueued => finish [] s
    | _ =>
        let c := CLocalize loc key_timeout in
        let now := now3 s in
        let cut := match hz with Some h => (0 <? loclat) && (h <=? now + loclat) | None => false end in
        if cut then
          ([OA now c], TkCut (at_time (set_missed s MDecided) (match hz with Some h => Z.max h now | None => now end)))
        else
          let t := now + Z.max loclat 0 in
          match fst (e_res e c) with
          | RText msg =>
              let s1 := enqueue (at_time (set_missed s MQueued) t) (frame_bytes configuration_cb_DisconnectPacket [VB msg]) in
              finish [OT (now, TCall c); OT (t, TRes c (RText msg));
                      OT (t, TSend configuration_cb_DisconnectPacket [VB msg])] s1
          | r => ([OT (now, TCall c); OT (t, TRes c r); OT (t, TEnd (OErr KAdapter))], TkEnd)
          end
    end.

  (* the keep-alive branch of receive_packet(true) when a tick is observed at [tt] *)
  Definition tick3 (loc : option bytes) (hz : option Z) (s : st3) (tt : Z) : list oev * tres :=
    let x := c2 s in
    match b_ka x with
    | Some _ =>
        let (o, r) := verdict loc hz (set_missed (at_time s tt) MDecided) in
        (OT (tt, TTick) :: o, r)
    | None =>
        let idb := e_fresh e RKeepAlive (b_nka x) in
        let s1 := enqueue (set2 s (upd x tt (fire (b_dl x) tt) (Some (be_dec idb)) (b_in x) (S (b_nka x)) (b_rd x)))
                          (frame_bytes configuration_cb_KeepAlivePacket [VZ (be_dec idb)]) in
        let pre := [OT (tt, TTick); OT (tt, TFresh RKeepAlive idb);
                    OT (tt, TSend configuration_cb_KeepAlivePacket [VZ (be_dec idb)])] in
        match flush hz s1 with
        | (o, s2, FlDone) => (pre ++ o, TkCont s2)
        | (o, s2, FlCut) => (pre ++ o, TkCut s2)
        | (o, _, FlHang) => (pre ++ o, TkEnd)
        end
    end.

  Inductive rres3 :=
  | R3Got (id : Z) (body : bytes) (s : st3)
  | R3Cut (s : st3)
  | R3End (fin : list oev).

  (* receive_packet: as Sem2.read_frame_f, the tick served by [tick3] *)
  Fixpoint read_frame3_f (fuel : nat) (m : kamode) (hz : option Z) (s : st3) : list oev * rres3 :=
    match fuel with
    | O => ([], R3End [OT (now3 s, TEnd OHang)])
    | S f =>
        let x := c2 s in
        let tin := match b_in x, b_eof x with
                   | (t, _) :: _, _ => Some (Z.max t (b_now x))
                   | [], Some te => Some (Z.max te (b_now x))
                   | [], None => None
                   end in
        let tt := Z.max (b_dl x) (b_now x) in
        let horizon_first :=
          match hz with
          | Some h => (match tin with Some t => h <=? t | None => true end) && (h <=? tt)
          | None => false
          end in
        let tick_first := match tin with Some t => tt <=? t | None => true end in
        if horizon_first then
          ([], match hz with
               | Some h => R3Cut (at_time s (Z.max h (b_now x)))
               | None => R3Cut s end)
        else if tick_first then
          match m with
          | None =>
              match tin with
              | None => ([], R3End [OT (b_now x, TEnd OHang)])
              | Some t => read_frame3_f f m hz (set2 s (upd x (b_now x) (skip_ticks (b_dl x) (b_now x) t) (b_ka x) (b_in x) (b_nka x) (b_rd x)))
              end
          | Some loc =>
              match tick3 loc hz s tt with
              | (o, TkEnd) => (o, R3End [])
              | (o, TkCut s') => (o, R3Cut s')
              | (o, TkCont s') => let (o2, r) := read_frame3_f f m hz s' in (o ++ o2, r)
              end
          end
        else
          match b_in x with
          | (t, b) :: rest =>
              let t' := Z.max t (b_now x) in
              match feed_byte (cf_max_len cfg) (b_rd x) b with
              | (rd', []) => read_frame3_f f m hz (set2 s (upd x t' (b_dl x) (b_ka x) rest (b_nka x) rd'))
              | (rd', EvFrame id body :: _) => ([], R3Got id body (set2 s (upd x t' (b_dl x) (b_ka x) rest (b_nka x) rd')))
              | (_, EvBadLen :: _) => ([], R3End [OT (t', TEnd (OErr KIllegalLen))])
              | (_, EvBadId :: _) => ([], R3End [OT (t', TEnd (OErr KClosed))])
              end
          | [] =>
              let t' := match b_eof x with Some te => Z.max te (b_now x) | None => b_now x end in
              match eof_events (b_rd x) with
              | EvFrame id body :: _ => ([], R3Got id body (set2 s (upd x t' (b_dl x) (b_ka x) [] (b_nka x) RIdle)))
              | _ => ([], R3End [OT (t', TEnd (OErr KClosed))])
              end
          end
    end.

  (* generous: 2 * |b_in| + 3 is enough (Conn/Sem3Fuel.v, read_frame3_fuel_tight) - in keep-alive mode one
     read serves at most two ticks however long a blocked write made the clock jump *)
  Definition fuel3 (s : st3) : nat := (3 * length (b_in (c2 s)) + 3 * length (c_sch s) + 12)%nat.
  Definition read_frame3 (m : kamode) (hz : option Z) (s : st3) : list oev * rres3 :=
    read_frame3_f (fuel3 s) m hz s.

  Fixpoint ka_loop3 (fuel : nat) (info : bool) (loc : option bytes) (hz : option Z) (s : st3)
    : list oev * (list fv * st3 + st3 + unit) :=
    match fuel with
    | O => ([OT (now3 s, TEnd OHang)], inr tt)
    | S f =>
        match read_frame3 (Some loc) hz s with
        | (o, R3End fin) => (o ++ fin, inr tt)
        | (o, R3Cut s') => (o, inl (inr s'))
        | (o, R3Got id body s') =>
            let x := c2 s' in
            match conf_frame cfg info (b_ka x) id body with
            | FEnd oc => (o ++ [OT (b_now x, TRecv id body); OT (b_now x, TEnd oc)], inr tt)
            | FInfo vs => (o ++ [OT (b_now x, TRecv id body)], inl (inl (vs, s')))
            | FCont ka'' =>
                let (o2, r) := ka_loop3 f info loc hz (set2 s' (upd x (b_now x) (b_dl x) ka'' (b_in x) (b_nka x) (b_rd x))) in
                (o ++ OT (b_now x, TRecv id body) :: o2, r)
            end
        end
    end.

  Fixpoint exec3 (p : prog) (s : st3) {struct p} : list oev :=
    let x := c2 s in
    match p with
    | Ret o => [OT (b_now x, TEnd o)]
    | Expect k =>
        match read_frame3 None None s with
        | (o, R3End fin) => o ++ fin
        | (o, R3Cut s') => o ++ [OT (now3 s', TEnd OHang)]
        | (o, R3Got id body s') =>
            if negb (len_ok cfg id body) then o ++ [OT (now3 s', TRecv id body); OT (now3 s', TEnd (OErr KIllegalLen))]
            else o ++ OT (now3 s', TRecv id body) :: exec3 (k id body) s'
        end
    | WaitInfo loc k =>
        match ka_loop3 (length (b_in x) + 3) true loc None s with
        | (o, inl (inl (vs, s'))) => o ++ exec3 (k vs) s'
        | (o, inl (inr s')) => o ++ [OT (now3 s', TEnd OHang)]
        | (o, inr _) => o
        end
    | Race loc c k =>
        let (r, lat) := e_res e c in
        let h := b_now x + Z.max lat 1 in
        match ka_loop3 (length (b_in x) + 3) false loc (Some h) s with
        | (o, inl (inr s')) =>
            match c_missed s' with
            | MNo => (OT (b_now x, TCall c) :: o) ++ OT (h, TRes c r) :: exec3 (k r) s'
            | _ =>
                match r with
                | RErr =>
                    (* `maybe_targets?` comes before check_keep_alive: the adapter's failure ends the
                       connection first (what is queued of the Disconnect stays unsent) *)
                    (OT (b_now x, TCall c) :: o) ++ [OT (h, TEnd (OErr KAdapter))]
                | _ =>
                    (* check_keep_alive: the verdict stands; the result of the raced call is dropped *)
                    (OT (b_now x, TCall c) :: o) ++ fst (verdict loc None s')
                end
            end
        | (o, inl (inl _)) => OT (b_now x, TCall c) :: o
        | (o, inr _) => OT (b_now x, TCall c) :: o
        end
    | Call c k =>
        let (r, lat) := e_res e c in
        let t := b_now x + Z.max lat 0 in
        OT (b_now x, TCall c) :: OT (t, TRes c r) :: exec3 (k r) (at_time s t)
    | Send pk vs k =>
        match flush None (enqueue s (frame_bytes pk vs)) with
        | (o, s', FlDone) => OT (b_now x, TSend pk vs) :: o ++ exec3 k s'
        | (o, _, _) => OT (b_now x, TSend pk vs) :: o
        end
    | EncOn ss k => OT (b_now x, TEnc ss) :: exec3 k s
    | Fresh w k =>
        match w with
        | RKeepAlive => let v := e_fresh e w (b_nka x) in OT (b_now x, TFresh w v) :: exec3 (k v) s
        | _ => let v := e_fresh e w 0%nat in OT (b_now x, TFresh w v) :: exec3 (k v) s
        end
    | Now k =>
        let n := e_now e (b_nnow x) in
        OT (b_now x, TNow n) :: exec3 (k n) (set2 s {| b_now := b_now x; b_dl := b_dl x; b_ka := b_ka x; b_in := b_in x;
                                                      b_eof := b_eof x; b_nka := b_nka x; b_nnow := S (b_nnow x); b_rd := b_rd x |})
    end.
End Sem3.

Definition init3 (s : list (Z * option bytes)) (cap : option Z) (sch : wsched) : st3 :=
  {| c2 := init2 s; c_unsent := []; c_cap := cap; c_sch := sch; c_missed := MNo |}.

Definition run3 (o : oracles) (cfg : conn_cfg) (e : env) (encf : packet -> list fv -> option bytes)
    (loclat : Z) (cap : option Z) (sch : wsched) (s : list (Z * option bytes)) : list oev :=
  exec3 cfg e encf loclat (listen o cfg) (init3 s cap sch).
