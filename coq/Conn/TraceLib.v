(* Generic tools for reading an accepted trace: how the monitor's history relates to the
   trace prefix that produced it, "the latest event of a kind" on a prefix, the frames
   received, the order automaton's elementary facts (monotone, entry events of a state,
   final states).  Everything is generic in the property-specific check. *)
From Passage Require Import Lib.Bytes Codec.VarInt Codec.Desc Gen.PacketsGen Gen.ConstsGen
  Codec.PacketCheck Crypto.Cookie Conn.Types Conn.Prog Conn.Sem1 Conn.Monitor Conn.MonitorProofs
  Conn.Order Conn.OrderProofs Conn.Checks Conn.HistoryProofs.

(* ---------- boolean equalities are equalities ---------- *)
Lemma sa_eqb_eq a b : sa_eqb a b = true -> a = b.
Proof.
  destruct a as [i p], b as [i' p']; unfold sa_eqb; cbn [sa_ip sa_port]; intros H.
  apply andb_true_iff in H as [H1 H2]. apply beq_spec in H1. apply Z.eqb_eq in H2. subst. reflexivity.
Qed.
Lemma meta_eqb_eq : forall a b, meta_eqb a b = true -> a = b.
Proof.
  induction a as [|[k v] a IH]; intros [|[k' v'] b] H; cbn [meta_eqb] in H; try discriminate; [reflexivity|].
  apply andb_true_iff in H as [H H3]. apply andb_true_iff in H as [H1 H2].
  apply beq_spec in H1, H2. apply IH in H3. subst. reflexivity.
Qed.
Lemma target_eqb_eq a b : target_eqb a b = true -> a = b.
Proof.
  destruct a as [i ad m], b as [i' ad' m']; unfold target_eqb; cbn [t_id t_addr t_meta]; intros H.
  apply andb_true_iff in H as [H H3]. apply andb_true_iff in H as [H1 H2].
  apply beq_spec in H1. apply sa_eqb_eq in H2. apply meta_eqb_eq in H3. subst. reflexivity.
Qed.
Lemma targets_eqb_eq : forall a b, targets_eqb a b = true -> a = b.
Proof.
  induction a as [|x a IH]; intros [|y b] H; cbn [targets_eqb] in H; try discriminate; [reflexivity|].
  apply andb_true_iff in H as [H1 H2]. apply target_eqb_eq in H1. apply IH in H2. subst. reflexivity.
Qed.
Lemma obytes_eq_eq a b : obytes_eq a b = true -> a = b.
Proof. destruct a, b; cbn; intros H; try discriminate; [apply beq_spec in H; subst|]; reflexivity. Qed.

(* ---------- packets ---------- *)
Lemma is_pkt_state p x : is_pkt p x = true -> p_state p = p_state x.
Proof. unfold is_pkt. intros H. apply andb_prop in H as [H _]. apply andb_prop in H as [H _]. apply String.eqb_eq in H. exact H. Qed.

Lemma is_pkt_trans_false p x y : is_pkt p x = true -> is_pkt x y = false -> is_pkt p y = false.
Proof.
  unfold is_pkt. intros H Hn.
  apply andb_prop in H as [H H3]. apply andb_prop in H as [H1 H2].
  apply String.eqb_eq in H1, H2, H3. rewrite H1, H2, H3. exact Hn.
Qed.

Lemma is_pkt_trans p x y : is_pkt p x = true -> is_pkt p y = is_pkt x y.
Proof.
  unfold is_pkt. intros H.
  apply andb_prop in H as [H H3]. apply andb_prop in H as [H1 H2].
  apply String.eqb_eq in H1, H2, H3. rewrite H1, H2, H3. reflexivity.
Qed.

(* the final part of a run: nothing, or just the end marker *)
Definition ends (l : list tev) : Prop := l = [] \/ exists o, l = [TEnd o].
Definition ends_badly (l : list tev) : Prop := l = [] \/ exists o, l = [TEnd o] /\ o <> OOk.

(* the latest event of a kind on a trace prefix *)
Definition latest {A} (f : tev -> option A) (pre : list tev) : option A := find_ev f (rev pre).

Lemma find_ev_app {A} (f : tev -> option A) : forall l1 l2,
  find_ev f (l1 ++ l2) = match find_ev f l1 with Some a => Some a | None => find_ev f l2 end.
Proof.
  induction l1 as [|x l1 IH]; intros l2; cbn [app find_ev]; [reflexivity|].
  destruct (f x); [reflexivity | apply IH].
Qed.

Lemma find_ev_none {A} (f : tev -> option A) : forall l, find_ev f l = None <-> forall x, In x l -> f x = None.
Proof.
  induction l as [|x l IH]; cbn [find_ev]; split.
  - intros _ y [].
  - reflexivity.
  - intros H y [<-|Hy]; destruct (f x) eqn:E; try discriminate; [reflexivity|]. apply IH; assumption.
  - intros H. rewrite (H x (or_introl eq_refl)). apply IH. intros y Hy. apply H. right. exact Hy.
Qed.

Lemma find_ev_first {A} (f : tev -> option A) : forall l a, find_ev f l = Some a ->
  exists newer e older, l = newer ++ e :: older /\ f e = Some a /\ forall x, In x newer -> f x = None.
Proof.
  induction l as [|x l IH]; intros a H; cbn [find_ev] in H; [discriminate|].
  destruct (f x) as [b|] eqn:E.
  - inversion H; subst. exists [], x, l. split; [reflexivity|]. split; [exact E|]. intros y [].
  - destruct (IH a H) as (n & e & ol & -> & He & Hn). exists (x :: n), e, ol. split; [reflexivity|]. split; [exact He|].
    intros y [<-|Hy]; [exact E | apply Hn; exact Hy].
Qed.

(* [latest f pre = Some a]: the last event of [pre] that [f] recognises yields [a] *)
Lemma latest_spec {A} (f : tev -> option A) pre a :
  latest f pre = Some a <->
  exists pre1 e pre2, pre = pre1 ++ e :: pre2 /\ f e = Some a /\ forall x, In x pre2 -> f x = None.
Proof.
  unfold latest. split.
  - intros H. destruct (find_ev_first f _ _ H) as (n & e & ol & Hr & He & Hn).
    exists (rev ol), e, (rev n). split.
    + rewrite <- (rev_involutive pre), Hr, rev_app_distr. cbn [rev]. rewrite <- app_assoc. reflexivity.
    + split; [exact He|]. intros x Hx. apply Hn. apply in_rev. exact Hx.
  - intros (pre1 & e & pre2 & -> & He & Hn).
    rewrite rev_app_distr. cbn [rev]. rewrite <- app_assoc. cbn [app].
    rewrite find_ev_app.
    assert (Hnone : find_ev f (rev pre2) = None).
    { apply find_ev_none. intros x Hx. apply Hn. apply in_rev. exact Hx. }
    rewrite Hnone. cbn [find_ev]. rewrite He. reflexivity.
Qed.

Lemma latest_snoc {A} (f : tev -> option A) pre x :
  latest f (pre ++ [x]) = match f x with Some a => Some a | None => latest f pre end.
Proof. unfold latest. rewrite rev_app_distr. cbn [rev app find_ev]. reflexivity. Qed.

Lemma latest_none {A} (f : tev -> option A) pre :
  latest f pre = None <-> forall x, In x pre -> f x = None.
Proof.
  unfold latest. rewrite find_ev_none. split; intros H x Hx; apply H.
  - apply (proj1 (in_rev _ _)). exact Hx.
  - apply (proj2 (in_rev _ _)). exact Hx.
Qed.

(* the frames the handler consumed, oldest first *)
Fixpoint frames (l : list tev) : list (Z * bytes) :=
  match l with
  | [] => []
  | TRecv id b :: r => (id, b) :: frames r
  | _ :: r => frames r
  end.

Lemma frames_app : forall a b, frames (a ++ b) = frames a ++ frames b.
Proof.
  induction a as [|x a IH]; intros b; cbn [app frames]; [reflexivity|].
  destruct x; rewrite ?IH; reflexivity.
Qed.

Lemma recvs_app a b : recvs (a ++ b) = recvs b ++ recvs a.
Proof.
  unfold recvs. rewrite <- rev_app_distr. f_equal.
  induction a as [|x a IH]; cbn [app fold_right]; [reflexivity|]. destruct x; rewrite ?IH; reflexivity.
Qed.

Lemma recvs_rev : forall l, recvs (rev l) = frames l.
Proof.
  induction l as [|x l IH]; [reflexivity|]. cbn [rev]. rewrite recvs_app, IH.
  destruct x; reflexivity.
Qed.

(* ---------- the order automaton ---------- *)
Ltac split_ifs H :=
  repeat match type of H with
         | context [if ?c then _ else _] => destruct c eqn:?; try discriminate H
         end.

(* [lia] after dropping packet-identity hypotheses (zify chokes on them) *)
Ltac zlia := repeat match goal with H : is_pkt _ _ = _ |- _ => clear H | H : beq _ _ = _ |- _ => clear H end; lia.

(* full case analysis of [H : delta q e = Some q'] for a variable event [e] *)
Ltac delta_cases H e :=
  destruct e as [?id ?body|?p ?vs|?c|?c ?r|?w ?v|?n|?ss| |?o]; cbn [delta] in H;
  try match type of H with context [match ?c with CStatus _ _ _ _ => _ | _ => _ end] => destruct c end;
  try match type of H with context [match ?w with RToken => _ | _ => _ end] => destruct w end;
  try match type of H with context [match ?o with OOk => _ | _ => _ end] =>
        destruct o as [|?k|]; [| destruct k |] end;
  unfold goto, goto2, resting in H; split_ifs H;
  try discriminate H; try (injection H as H).

Lemma delta_mono q e q' : delta q e = Some q' -> q <= q' \/ q' = 100.
Proof. intros H. delta_cases H e; lia. Qed.

Lemma delta_end q o q' : delta q (TEnd o) = Some q' -> q' = 100.
Proof.
  cbn [delta]. destruct o as [|k|]; [|destruct k|]; unfold goto2; intros H; split_ifs H; congruence.
Qed.

Lemma delta_not_internal_stay q e : delta q e = Some q -> q = 24.
Proof. intros H. delta_cases H e; lia. Qed.

Lemma internal_true_false e : internal true e = true -> internal false e = true.
Proof. destruct e; cbn; try discriminate; auto. Qed.

Lemma internal_at_internal q e : internal_at q e = true -> internal false e = true.
Proof.
  unfold internal_at. intros H. apply orb_prop in H as [H|H]; apply andb_prop in H as [_ H]; [apply internal_true_false|]; exact H.
Qed.

Lemma internal_at_resting q e : internal_at q e = true -> q = 32 \/ q = 34 \/ q = 36 \/ q = 38.
Proof. unfold internal_at. intros H. apply orb_prop in H as [H|H]; apply andb_prop in H as [H _]; lia. Qed.

Section Lib.
  Variable chk : mst -> tev -> bool.
  Notation step := (step_with chk).

  Lemma run_app : forall a b st,
    run step st (a ++ b) = match run step st a with Some st' => run step st' b | None => None end.
  Proof.
    induction a as [|x a IH]; intros b st; cbn [app run]; [reflexivity|].
    destruct (step st x); [apply IH | reflexivity].
  Qed.

  Lemma ok_split a b st : ok step st (a ++ b) -> exists st', run step st a = Some st' /\ ok step st' b.
  Proof.
    unfold ok. rewrite run_app. destruct (run step st a) as [st'|]; [|congruence]. intros H. exists st'. auto.
  Qed.

  Lemma ok_cons st e l : ok step st (e :: l) -> exists st', step st e = Some st' /\ ok step st' l.
  Proof. unfold ok. cbn [run]. destruct (step st e) as [st'|]; [|congruence]. intros H. exists st'. auto. Qed.

  Lemma run_snoc pre x st st' : run step st (pre ++ [x]) = Some st' ->
    exists st1, run step st pre = Some st1 /\ step st1 x = Some st'.
  Proof.
    rewrite run_app. destruct (run step st pre) as [st1|]; [|discriminate]. cbn [run].
    destruct (step st1 x) as [st2|] eqn:E; [|discriminate]. intros H. inversion H; subst. exists st1. auto.
  Qed.

  (* a step either ignores an event of a keep-alive loop or records the event *)
  Lemma step_cases st e st' : step st e = Some st' ->
    (internal_at (q st) e = true /\ st' = st)
    \/ (internal_at (q st) e = false /\ exists q', delta (q st) e = Some q' /\ chk st e = true
        /\ st' = {| q := q'; h := e :: h st |}).
  Proof.
    unfold step_with. destruct (internal_at (q st) e); [intros H; inversion H; auto|].
    destruct (delta (q st) e) as [q'|]; [|discriminate].
    destruct (chk st e) eqn:E; [|discriminate]. intros H; inversion H. right. split; [reflexivity|]. exists q'. auto.
  Qed.

  Lemma step_mono st e st' : step st e = Some st' -> q st <= q st' \/ q st' = 100.
  Proof.
    intros H. destruct (step_cases _ _ _ H) as [[_ ->]|(_ & q' & Hd & _ & ->)]; [left; lia|].
    cbn [q]. eapply delta_mono; eauto.
  Qed.

  Lemma run_mono : forall l st st', run step st l = Some st' -> q st <= q st' \/ q st' = 100.
  Proof.
    induction l as [|x l IH]; intros st st' H; cbn [run] in H.
    - inversion H. left; lia.
    - destruct (step st x) as [st1|] eqn:E; [|discriminate].
      destruct (IH _ _ H) as [H1|H1]; [|right; exact H1].
      destruct (step_mono _ _ _ E) as [H2|H2]; [left; lia|].
      (* from 100 nothing follows *)
      destruct l as [|y l]; cbn [run] in H.
      + inversion H; subst. right; exact H2.
      + destruct (step st1 y) as [st2|] eqn:E2; [|discriminate].
        exfalso. destruct (step_cases _ _ _ E2) as [[Hi _]|(_ & q' & Hd & _)].
        * apply internal_at_resting in Hi. lia.
        * rewrite H2 in Hd. delta_cases Hd y; lia.
  Qed.

  (* before the configuration phase the history is the trace itself *)
  Lemma early_hist_gen : forall l st st', run step st l = Some st' -> q st' < 32 -> h st' = rev l ++ h st.
  Proof.
    induction l as [|x l IH]; intros st st' H Hq; cbn [run] in H.
    - inversion H. reflexivity.
    - destruct (step st x) as [st1|] eqn:E; [|discriminate].
      pose proof (run_mono _ _ _ H) as Hm. rewrite (IH _ _ H Hq).
      destruct (step_cases _ _ _ E) as [[Hi _]|(_ & q' & Hd & _ & ->)].
      + apply internal_at_resting in Hi. pose proof (step_mono _ _ _ E). lia.
      + cbn [h rev]. rewrite <- app_assoc. reflexivity.
  Qed.

  Lemma early_hist pre st : run step m_init pre = Some st -> q st < 32 -> h st = rev pre.
  Proof. intros H Hq. rewrite (early_hist_gen _ _ _ H Hq). cbn. apply app_nil_r. Qed.

  (* in general the history is the trace without the events the keep-alive loops produce *)
  Lemma hist_gen : forall l st st', run step st l = Some st' ->
    exists newer, h st' = newer ++ h st
      /\ (forall x, In x newer -> In x l)
      /\ (forall x, In x l -> In x newer \/ internal false x = true).
  Proof.
    induction l as [|x l IH]; intros st st' H; cbn [run] in H.
    - inversion H. exists []. split; [reflexivity|]. split; intros y [].
    - destruct (step st x) as [st1|] eqn:E; [|discriminate].
      destruct (IH _ _ H) as (n & Hn & Hin & Hall).
      destruct (step_cases _ _ _ E) as [[Hi ->]|(_ & q' & Hd & _ & ->)].
      + exists n. split; [exact Hn|]. split.
        * intros y Hy. right. apply Hin. exact Hy.
        * intros y [<-|Hy]; [right; eapply internal_at_internal; eauto | apply Hall; exact Hy].
      + exists (n ++ [x]). cbn [h] in Hn. split; [rewrite Hn, <- app_assoc; reflexivity|]. split.
        * intros y Hy. apply in_app_or in Hy as [Hy|[<-|[]]]; [right; apply Hin; exact Hy | left; reflexivity].
        * intros y [<-|Hy]; [left; apply in_or_app; right; left; reflexivity|].
          destruct (Hall y Hy) as [H1|H1]; [left; apply in_or_app; left; exact H1 | right; exact H1].
  Qed.

  (* an event of the history sits in the trace; the state reached before it has the older
     history, and between it and now only the newer recorded events and keep-alive events
     occurred *)
  Lemma hist_split : forall pre st, run step m_init pre = Some st ->
    forall newer e older, h st = newer ++ e :: older ->
    exists pre1 pre2 st1 q',
      pre = pre1 ++ e :: pre2 /\ run step m_init pre1 = Some st1 /\ h st1 = older
      /\ internal_at (q st1) e = false /\ chk st1 e = true /\ delta (q st1) e = Some q'
      /\ run step {| q := q'; h := e :: older |} pre2 = Some st
      /\ (forall x, In x newer -> In x pre2)
      /\ (forall x, In x pre2 -> In x newer \/ internal false x = true).
  Proof.
    induction pre as [|x pre IH] using rev_ind; intros st H newer e older Hh.
    - cbn in H. inversion H; subst. cbn in Hh. destruct newer; discriminate.
    - destruct (run_snoc _ _ _ _ H) as (st0 & H0 & Hs).
      destruct (step_cases _ _ _ Hs) as [[Hi ->]|(Hni & q' & Hd & Hc & ->)].
      + destruct (IH _ H0 _ _ _ Hh) as (pre1 & pre2 & st1 & q' & -> & Hr & Ho & Hn & Hc & Hd & Hr2 & Hin & Hall).
        exists pre1, (pre2 ++ [x]), st1, q'. rewrite <- app_assoc. cbn [app].
        split; [reflexivity|]. split; [exact Hr|]. split; [exact Ho|]. split; [exact Hn|]. split; [exact Hc|].
        split; [exact Hd|]. split.
        * rewrite run_app, Hr2. cbn [run]. unfold step_with. rewrite Hi. reflexivity.
        * split.
          -- intros y Hy. apply in_or_app. left. apply Hin. exact Hy.
          -- intros y Hy. apply in_app_or in Hy as [Hy|[<-|[]]]; [apply Hall; exact Hy|]. right. eapply internal_at_internal; eauto.
      + cbn [h] in Hh. destruct newer as [|y newer]; cbn [app] in Hh; inversion Hh; subst.
        * exists pre, [], st0, q'. repeat split; auto; try (intros y Hy; destruct Hy).
        * destruct (IH _ H0 _ _ _ H3) as (pre1 & pre2 & st1 & q1 & -> & Hr & Ho & Hn & Hc1 & Hd1 & Hr2 & Hin & Hall).
          exists pre1, (pre2 ++ [y]), st1, q1. rewrite <- app_assoc. cbn [app].
          split; [reflexivity|]. split; [exact Hr|]. split; [exact Ho|]. split; [exact Hn|]. split; [exact Hc1|].
          split; [exact Hd1|]. split.
          -- rewrite run_app, Hr2. cbn [run]. unfold step_with. rewrite Hni, Hd, Hc. rewrite H3. reflexivity.
          -- split.
             ++ intros z [<-|Hz]; apply in_or_app; [right; left; reflexivity | left; apply Hin; exact Hz].
             ++ intros z Hz. apply in_app_or in Hz as [Hz|[<-|[]]]; [|left; left; reflexivity].
                destruct (Hall z Hz) as [H1|H1]; [left; right; exact H1 | right; exact H1].
  Qed.

  (* projections that ignore keep-alive events see the same on the history and on the trace *)
  Lemma latest_hist {A} (f : tev -> option A) :
    (forall x, internal false x = true -> f x = None) ->
    forall l st st', run step st l = Some st' ->
      find_ev f (h st') = match latest f l with Some a => Some a | None => find_ev f (h st) end.
  Proof.
    intros Hf. induction l as [|x l IH] using rev_ind; intros st st' H.
    - cbn in H. inversion H. reflexivity.
    - destruct (run_snoc _ _ _ _ H) as (st0 & H0 & Hs). rewrite latest_snoc.
      destruct (step_cases _ _ _ Hs) as [[Hi ->]|(Hni & q' & Hd & Hc & ->)].
      + rewrite (Hf x (internal_at_internal _ _ Hi)). apply IH. exact H0.
      + cbn [h find_ev]. destruct (f x); [reflexivity|]. apply IH. exact H0.
  Qed.

  Lemma latest_hist0 {A} (f : tev -> option A) :
    (forall x, internal false x = true -> f x = None) ->
    forall pre st, run step m_init pre = Some st -> find_ev f (h st) = latest f pre.
  Proof.
    intros Hf pre st H. rewrite (latest_hist f Hf _ _ _ H). cbn. destruct (latest f pre); reflexivity.
  Qed.

  (* induction over the runs from the initial state *)
  Lemma run_ind (P : list tev -> mst -> Prop) :
    P [] m_init ->
    (forall pre st x st', run step m_init pre = Some st -> P pre st -> step st x = Some st' -> P (pre ++ [x]) st') ->
    forall pre st, run step m_init pre = Some st -> P pre st.
  Proof.
    intros H0 Hs. induction pre as [|x pre IH] using rev_ind; intros st H.
    - cbn in H. inversion H; subst. exact H0.
    - destruct (run_snoc _ _ _ _ H) as (st0 & Hr & Hx). eapply Hs; eauto.
  Qed.

  (* a state that is neither initial nor a resting state of a keep-alive loop was entered by
     the very last event of the trace *)
  Lemma last_event pre st : run step m_init pre = Some st -> q st <> 0 -> resting (q st) = false ->
    exists pre1 x st1, pre = pre1 ++ [x] /\ run step m_init pre1 = Some st1
      /\ internal_at (q st1) x = false /\ delta (q st1) x = Some (q st) /\ chk st1 x = true /\ h st = x :: h st1.
  Proof.
    intros H Hq Hr. destruct pre as [|x pre _] using rev_ind.
    - cbn in H. inversion H; subst. cbn in Hq. congruence.
    - destruct (run_snoc _ _ _ _ H) as (st0 & H0 & Hs).
      destruct (step_cases _ _ _ Hs) as [[Hi ->]|(Hni & q' & Hd & Hc & ->)].
      + apply internal_at_resting in Hi. unfold resting in Hr. lia.
      + exists pre, x, st0. cbn [q h]. auto 10.
  Qed.

  (* after a final state only the end marker can follow *)
  Lemma final_ends st l : ok step st l -> (q st = 14 \/ q st = 44 \/ q st = 52 \/ q st = 62) -> ends l.
  Proof.
    intros Hok Hq. destruct l as [|e l]; [left; reflexivity|]. right.
    destruct (ok_cons _ _ _ Hok) as (st1 & Hs & Hok1).
    destruct (step_cases _ _ _ Hs) as [[Hi _]|(_ & q' & Hd & _ & ->)].
    { apply internal_at_resting in Hi. lia. }
    assert (He : (exists o, e = TEnd o) /\ q' = 100).
    { delta_cases Hd e; try lia; split; try lia; eexists; reflexivity. }
    destruct He as [[o ->] ->]. exists o. f_equal.
    destruct l as [|e2 l]; [reflexivity|]. exfalso.
    destruct (ok_cons _ _ _ Hok1) as (st2 & Hs2 & _).
    destruct (step_cases _ _ _ Hs2) as [[Hi _]|(_ & q2 & Hd2 & _)]; cbn [q] in *.
    - apply internal_at_resting in Hi. lia.
    - delta_cases Hd2 e2; lia.
  Qed.

  (* after a state from which the automaton only accepts an unsuccessful end *)
  Lemma only_end_ends st l : ok step st l -> resting (q st) = false ->
    (forall e q', delta (q st) e = Some q' -> chk st e = true -> exists o, e = TEnd o /\ o <> OOk) ->
    ends_badly l.
  Proof.
    intros Hok Hr Honly. destruct l as [|e l]; [left; reflexivity|]. right.
    destruct (ok_cons _ _ _ Hok) as (st1 & Hs & Hok1).
    destruct (step_cases _ _ _ Hs) as [[Hi ->]|(Hni & q' & Hd & Hc & ->)].
    - exfalso. apply internal_at_resting in Hi. unfold resting in Hr. lia.
    - destruct (Honly _ _ Hd Hc) as (o & -> & Ho). exists o. split; [|exact Ho]. f_equal.
      assert (q' = 100) by (eapply delta_end; eauto). subst q'.
      destruct l as [|e2 l]; [reflexivity|]. exfalso.
      destruct (ok_cons _ _ _ Hok1) as (st2 & Hs2 & _).
      destruct (step_cases _ _ _ Hs2) as [[Hi _]|(_ & q2 & Hd2 & _)]; cbn [q] in *.
      + apply internal_at_resting in Hi. lia.
      + delta_cases Hd2 e2; lia.
  Qed.

  (* an event of the trace that is not a keep-alive event passed the automaton and the check in
     the state reached by the prefix; the rest of the trace is accepted from the new state *)
  Lemma event_recorded tr pre ev post : ok step m_init tr -> tr = pre ++ ev :: post -> internal false ev = false ->
    exists st q', run step m_init pre = Some st /\ delta (q st) ev = Some q' /\ chk st ev = true
      /\ ok step {| q := q'; h := ev :: h st |} post.
  Proof.
    intros Hok -> Hni. destruct (ok_split _ _ _ Hok) as (st & Hr & Hok1).
    destruct (ok_cons _ _ _ Hok1) as (st' & Hs & Hok2).
    destruct (step_cases _ _ _ Hs) as [[Hi _]|(_ & q' & Hd & Hc & ->)].
    - apply internal_at_internal in Hi. congruence.
    - exists st, q'. auto.
  Qed.

  Lemma prefix_run tr pre post : ok step m_init tr -> tr = pre ++ post -> exists st, run step m_init pre = Some st /\ ok step st post.
  Proof. intros Hok ->. apply ok_split. exact Hok. Qed.

  Lemma after_end st l : ok step st l -> q st = 100 -> l = [].
  Proof.
    intros Hok Hq. destruct l as [|e l]; [reflexivity|]. exfalso.
    destruct (ok_cons _ _ _ Hok) as (st2 & Hs2 & _).
    destruct (step_cases _ _ _ Hs2) as [[Hi _]|(_ & q2 & Hd2 & _)].
    - apply internal_at_resting in Hi. lia.
    - rewrite Hq in Hd2. delta_cases Hd2 e; lia.
  Qed.

  (* outside the keep-alive loops the next event is always recorded *)
  Lemma first_event st e l : ok step st (e :: l) -> resting (q st) = false ->
    exists q', delta (q st) e = Some q' /\ chk st e = true /\ ok step {| q := q'; h := e :: h st |} l.
  Proof.
    intros Hok Hr. destruct (ok_cons _ _ _ Hok) as (st1 & Hs & Hok1).
    destruct (step_cases _ _ _ Hs) as [[Hi _]|(_ & q' & Hd & Hc & ->)].
    - apply internal_at_resting in Hi. unfold resting in Hr. lia.
    - exists q'. auto.
  Qed.

  Lemma ends_badly_end st o l : ok step st (TEnd o :: l) -> resting (q st) = false -> q st <> 14 -> q st <> 44 ->
    ends_badly (TEnd o :: l).
  Proof.
    intros Hok Hr H14 H44. destruct (first_event _ _ _ Hok Hr) as (q' & Hd & _ & Hok1).
    pose proof (delta_end _ _ _ Hd). subst q'. rewrite (after_end _ _ Hok1 eq_refl).
    right. exists o. split; [reflexivity|]. intros ->. cbn [delta] in Hd. unfold goto2 in Hd. split_ifs Hd. lia.
  Qed.
End Lib.

Lemma pkt_not_internal p X vs : is_pkt p X = true -> is_pkt X configuration_cb_KeepAlivePacket = false ->
  internal false (TSend p vs) = false.
Proof. intros H Hx. cbn [internal]. eapply is_pkt_trans_false; eauto. Qed.
