(* Non-vacuity of the plain-terms corollaries (Conn/C0xCorollaries.v): concrete runs of the
   handler's model, evaluated by the kernel, on which the events the corollaries speak about
   do occur - and, for some, the corollary applied to the run.  A toy world (Sem2Witness):
   RSA "decrypts" to the ciphertext, one backend, fixed latencies. *)
From Passage Require Import Lib.Bytes Codec.VarInt Codec.Desc Gen.PacketsGen Gen.ConstsGen
  Codec.PacketCheck Crypto.Cookie Conn.Types Conn.Prog Conn.Sem1 Conn.Sem2 Conn.Reader
  Conn.Monitor Conn.MonitorProofs Conn.Monitor2Proofs Conn.Order Conn.OrderProofs Conn.Checks
  Conn.Walk_C02 Conn.Walk_C03 Conn.Walk_C06 Conn.Walk_C10 Conn.Sem2Witness
  Conn.TraceLib Conn.C06Corollaries Conn.C02Corollaries Conn.C03Corollaries Conn.C10Corollaries.

(* an event satisfying a decidable predicate occurs in a trace *)
Definition occurs (P : tev -> bool) (tr : list tev) : Prop :=
  exists pre e post, tr = pre ++ e :: post /\ P e = true.

Lemma occurs_b P tr : existsb P tr = true -> occurs P tr.
Proof.
  intros H. apply existsb_exists in H as (e & Hin & He). apply in_split in Hin as (pre & post & ->).
  exists pre, e, post. auto.
Qed.

Fixpoint split_at (f : tev -> bool) (tr : list tev) : option (list tev * tev * list tev) :=
  match tr with
  | [] => None
  | e :: r => if f e then Some ([], e, r)
              else match split_at f r with Some (a, x, b) => Some (e :: a, x, b) | None => None end
  end.
Lemma split_at_ok f : forall tr pre e post, split_at f tr = Some (pre, e, post) -> tr = pre ++ e :: post.
Proof.
  induction tr as [|x tr IH]; intros pre e post H; cbn [split_at] in H; [discriminate|].
  destruct (f x).
  - inversion H; subst. reflexivity.
  - destruct (split_at f tr) as [[[a y] b]|]; [|discriminate]. inversion H; subst. cbn. f_equal. apply IH. reflexivity.
Qed.

Definition is_send (X : packet) (e : tev) : bool := match e with TSend p _ => is_pkt p X | _ => false end.
Definition is_store (key : bytes) (e : tev) : bool :=
  match e with TSend p vs => is_pkt p configuration_cb_StoreCookiePacket && beq (key_of vs) key | _ => false end.
Definition is_call (f : call -> bool) (e : tev) : bool := match e with TCall c => f c | _ => false end.
Definition is_res (f : call -> cres -> bool) (e : tev) : bool := match e with TRes c r => f c r | _ => false end.

Definition body (p : packet) (vs : list fv) : bytes := match enc (kinds p) vs with Some b => b | None => [] end.

(* ---------- the scenarios ---------- *)
(* status *)
Definition s_status : list (Z * option bytes) :=
  [(1, Some (pframe handshake_sb_HandshakePacket [VZ 769; VB [104]; VZ 25565; VZ 0]));
   (3, Some (mkframe 0 []));
   (5, Some (pframe status_sb_PingPacket [VZ 77]))].
Definition ib_status : inbox :=
  [(1, IFrame 0 (body handshake_sb_HandshakePacket [VZ 769; VB [104]; VZ 25565; VZ 0]));
   (3, IFrame 0 []);
   (5, IFrame 1 (body status_sb_PingPacket [VZ 77]))].
(* login, no secret, no session cookie presented, routed *)
Definition s_login : list (Z * option bytes) := w_login ++ [(1001, Some w_info)].
(* a second world: a secret is configured; serde parses the one message [w_msg] to [w_cookie] *)
Definition w_secret : bytes := [1; 2; 3; 4].
Definition w_cookie : auth_cookie :=
  {| ac_ts := 1699999000; ac_addr := w_client; ac_name := [65; 108]; ac_uuid := 77; ac_target := None;
     ac_props := []; ac_extra := [] |}.
Definition w_msg : bytes := [123; 125].
Definition w_o2 : oracles := {| o_rsa := fun ct => Some ct; o_parse_session := fun _ => JOk None;
  o_parse_auth := fun m => if beq m w_msg then JOk w_cookie else JErr;
  o_ser_auth := fun _ => [9; 9]; o_ser_session := fun _ => [7] |}.
Definition w_cfg2 : conn_cfg :=
  {| cf_client := w_client; cf_secret := Some w_secret; cf_max_len := 10000; cf_expiry := 21600; cf_pubkey := [1; 2; 3] |}.
(* Transfer intent, presenting the cookie signed under the secret *)
Definition s_transfer : list (Z * option bytes) :=
  [(1, Some (pframe handshake_sb_HandshakePacket [VZ 769; VB [104]; VZ 25565; VZ 2]));
   (3, Some (pframe login_sb_LoginStartPacket [VB [80; 108; 97; 121; 101; 114]; VZ 5]));
   (5, Some (pframe login_sb_CookieResponsePacket [VB session_key_b; VOpt None]));
   (6, Some (pframe login_sb_CookieResponsePacket [VB auth_key_b; VOpt (Some (VB (sign w_msg w_secret)))]));
   (7, Some (pframe login_sb_EncryptionResponsePacket [VB (repeat 3 16); VB [9; 9; 9; 9]]));
   (20, Some (pframe login_sb_LoginAcknowledgedPacket []));
   (1001, Some w_info)].
(* the strategy chooses nothing / discovery fails *)
Definition w_e_none : env := {| e_res := fun c => match c with CSelect _ _ _ _ _ _ _ => (RTarget None, 50) | _ => e_res w_e c end;
                                e_fresh := e_fresh w_e; e_now := e_now w_e |}.
Definition w_e_fail : env := {| e_res := fun c => match c with CDiscover => (RErr, 50) | _ => e_res w_e c end;
                                e_fresh := e_fresh w_e; e_now := e_now w_e |}.
(* a wrong packet instead of Login Start *)
Definition s_wrong : list (Z * option bytes) :=
  [(1, Some (pframe handshake_sb_HandshakePacket [VZ 769; VB [104]; VZ 25565; VZ 1]));
   (3, Some (mkframe 5 [1; 2]))].

Definition t_status := untime (run2 w_o w_cfg w_e s_status).
Definition t_status1 := untime (run1 w_o w_cfg w_e ib_status).
Definition t_login := untime (run2 w_o w_cfg w_e s_login).
Definition t_login_secret := untime (run2 w_o2 w_cfg2 w_e s_login).
Definition t_transfer := untime (run2 w_o2 w_cfg2 w_e s_transfer).
Definition t_none := untime (run2 w_o w_cfg w_e_none s_login).
Definition t_fail := untime (run2 w_o w_cfg w_e_fail s_login).
Definition t_wrong := untime (run2 w_o w_cfg w_e s_wrong).

Ltac occ := apply occurs_b; vm_compute; reflexivity.

(* ---------- C06 ---------- *)
Example w_c06_status : occurs (is_send status_cb_StatusResponsePacket) t_status /\ occurs (is_send status_cb_PongPacket) t_status
                       /\ occurs (is_send status_cb_PongPacket) t_status1.
Proof. repeat split; occ. Qed.

Example w_c06_words :
  sent_names t_status = [PStatusResponse; PPong]
  /\ sent_names t_status1 = [PStatusResponse; PPong]
  /\ sent_names t_login = login_word false 0 [PStoreCookieSession; PTransfer]
  /\ sent_names t_login_secret = login_word false 0 [PStoreCookieAuth; PStoreCookieSession; PTransfer]
  /\ sent_names t_transfer = login_word true 0 [PStoreCookieSession; PTransfer]
  /\ sent_names t_none = login_word false 0 [PDisconnect]
  (* the Client Information arrives after the first keep-alive tick / after the second (timeout) *)
  /\ sent_names (untime (run2 w_o w_cfg w_e (w_login ++ [(16000, Some w_info)]))) = login_word false 1 [PStoreCookieSession; PTransfer]
  /\ sent_names (untime (run2 w_o w_cfg w_e (w_login ++ [(40000, Some w_info)]))) = login_word false 1 [PDisconnect].
Proof. repeat split; vm_compute; reflexivity. Qed.

Example w_c06_routing : occurs (is_call routing_call) t_login.
Proof. occ. Qed.

(* the wrong packet: the corollary applied *)
Example w_c06_wrong : exists pre b post,
  t_wrong = pre ++ TRecv 5 b :: post /\ expected_next pre = Some 0 /\ ends_badly post /\ post <> [].
Proof.
  pose (r := split_at (fun e => match e with TRecv 5 _ => true | _ => false end) t_wrong). vm_compute in r.
  lazymatch eval unfold r in r with
  | Some (?pre, TRecv _ ?b, ?post) =>
      exists pre, b, post;
      assert (H : t_wrong = pre ++ TRecv 5 b :: post)
        by (apply (split_at_ok (fun e => match e with TRecv 5 _ => true | _ => false end)); vm_compute; reflexivity)
  end.
  split; [exact H|]. split; [reflexivity|]. split; [|discriminate].
  eapply (wrong_packet_silent (chk_c06) t_wrong); [|exact H|reflexivity|discriminate].
  unfold t_wrong, run2. apply safe_sound2. apply listen_c06_safe.
Qed.

(* ---------- C02 ---------- *)
Example w_c02_events :
  occurs (is_send login_cb_EncryptionRequestPacket) t_login /\ occurs (is_send login_cb_LoginSuccessPacket) t_login
  /\ occurs (is_send login_cb_EncryptionRequestPacket) t_transfer /\ occurs (is_send login_cb_LoginSuccessPacket) t_transfer
  /\ occurs (is_send configuration_cb_TransferPacket) t_transfer.
Proof. repeat split; occ. Qed.

(* authentication skipped: the corollary applied yields the valid cookie *)
Example w_c02_skipped : exists pre a b t post c,
  t_transfer = pre ++ TSend login_cb_EncryptionRequestPacket [a; b; t; VBool false] :: post
  /\ presented_cookie_valid w_o2 w_cfg2 pre c.
Proof.
  pose (r := split_at (is_send login_cb_EncryptionRequestPacket) t_transfer). vm_compute in r.
  lazymatch eval unfold r in r with
  | Some (?pre, TSend _ [?a; ?b; ?t; VBool false], ?post) =>
      assert (H : t_transfer = pre ++ TSend login_cb_EncryptionRequestPacket [a; b; t; VBool false] :: post)
        by (apply (split_at_ok (is_send login_cb_EncryptionRequestPacket)); vm_compute; reflexivity);
      assert (Hacc : ok (step_with (chk_c02 w_o2 w_cfg2)) m_init t_transfer)
        by (unfold t_transfer, run2; apply safe_sound2; apply listen_c02_safe);
      destruct (enc_request_flag w_o2 w_cfg2 _ Hacc _ _ _ _ H eq_refl) as (a' & b' & t' & flag & Hvs & Hiff);
      injection Hvs as _ _ _ <-; destruct (proj1 Hiff eq_refl) as (c & Hc);
      exists pre, a, b, t, post, c; split; [exact H | exact Hc]
  end.
Qed.

(* told to authenticate: flag true *)
Example w_c02_told : exists pre a b t post,
  t_login = pre ++ TSend login_cb_EncryptionRequestPacket [a; b; t; VBool true] :: post.
Proof.
  pose (r := split_at (is_send login_cb_EncryptionRequestPacket) t_login). vm_compute in r.
  lazymatch eval unfold r in r with
  | Some (?pre, TSend _ [?a; ?b; ?t; VBool true], ?post) =>
      exists pre, a, b, t, post; apply (split_at_ok (is_send login_cb_EncryptionRequestPacket)); vm_compute; reflexivity
  end.
Qed.

(* ---------- C03 ---------- *)
Example w_c03_events :
  occurs (is_call (fun c => match c with CFilter _ _ _ _ _ _ _ => true | _ => false end)) t_login
  /\ occurs (is_call (fun c => match c with CSelect _ _ _ _ _ _ _ => true | _ => false end)) t_login
  /\ occurs (is_send configuration_cb_TransferPacket) t_login
  /\ occurs (is_res (fun c r => match c, r with CSelect _ _ _ _ _ _ _, RTarget None => true | _, _ => false end)) t_none
  /\ occurs (is_send configuration_cb_DisconnectPacket) t_none
  /\ occurs (is_res (fun c r => routing_call c && negb (answer_usable c r))) t_fail.
Proof. repeat split; occ. Qed.

Definition res_none : tev -> bool := is_res (fun _ r => match r with RTarget None => true | _ => false end).

(* no target: the whole continuation happens *)
Example w_c03_no_target : exists pre c post1 l k msg,
  t_none = pre ++ TRes c (RTarget None) :: TCall (CLocalize (Some [100; 101; 95; 68; 69]) key_no_target)
               :: TRes (CLocalize l k) (RText msg) :: TSend configuration_cb_DisconnectPacket [VB msg] :: post1
  /\ post1 = [TEnd (OErr KNoTarget)].
Proof.
  pose (r := split_at res_none t_none). vm_compute in r.
  lazymatch eval unfold r in r with
  | Some (?pre, TRes ?c _, _ :: TRes (CLocalize ?l ?k) (RText ?msg) :: _ :: ?post1) =>
      exists pre, c, post1, l, k, msg; split; [|reflexivity];
      apply (split_at_ok res_none); vm_compute; reflexivity
  end.
Qed.

(* ---------- C10 ---------- *)
Example w_c10_events :
  occurs (is_store auth_key_b) t_login_secret /\ occurs (is_store session_key_b) t_login_secret
  /\ occurs (is_send configuration_cb_TransferPacket) t_login_secret
  /\ occurs (is_store session_key_b) t_login /\ existsb (is_store auth_key_b) t_login = false
  /\ occurs (is_store session_key_b) t_transfer /\ existsb (is_store auth_key_b) t_transfer = false.
Proof. repeat split; try occ; vm_compute; reflexivity. Qed.

(* the authentication cookie issued in the second world: tag under the secret, then the record *)
Example w_c10_issued : exists pre post now,
  t_login_secret = pre ++ TNow now :: TSend configuration_cb_StoreCookiePacket
     [VB auth_key_b;
      VB (sign (o_ser_auth w_o2 {| ac_ts := now; ac_addr := w_client; ac_name := [80; 108; 97; 121; 101; 114];
                                   ac_uuid := 5; ac_target := Some [116]; ac_props := []; ac_extra := [] |}) w_secret)] :: post.
Proof.
  pose (r := split_at (fun e => match e with TNow _ => true | _ => false end) t_login_secret). vm_compute in r.
  lazymatch eval unfold r in r with
  | Some (?pre, TNow ?now, _ :: ?post) =>
      exists pre, post, now; apply (split_at_ok (fun e => match e with TNow _ => true | _ => false end)); vm_compute; reflexivity
  end.
Qed.
