(* Worked examples (vm_compute) for Conn/KeepAliveWhole.v.  Kept out of the model file so that the
   model and the checkers build even when a generated descriptor changed. *)
(* C07 on the whole connection.  Definitions only (proofs in KeepAliveWholeProofs.v, the static
   walks over [listen] in Walk_C07.v):
   - tsafe: a TIMED predicate transformer on programs, the timed analogue of Monitor.safe for
     the keep-alive monitor c07_step / c07_from_config (phases kphase, invariants pre_inv /
     conf_inv);
   - c07g_step / c07g_from_config: the gap monitor ("a Keep Alive at least every P while
     routing runs"), its transformer gsafe and its plain reading [covered];
   - cooperative / alive_step: the client-side description of a client that echoes in time
     (C07_survive); unechoed / recvs_before / timeout_trace: the unresponsive client
     (C07_timeout, C07_silent);
   - instant / select_k: Transfer as soon as routing completes;
   - Module C07Ex: non-vacuity examples evaluated by vm_compute. *)
From Passage Require Import Lib.Bytes Codec.VarInt Codec.Desc Gen.PacketsGen Gen.ConstsGen
  Codec.PacketCheck Crypto.Cookie Conn.Types Conn.Prog Conn.Sem1 Conn.Monitor Conn.KeepAlive.
From Passage Require Import Conn.KeepAliveWhole.

Module C07Ex.
  Definition x_o : oracles := {| o_rsa := fun ct => Some ct; o_parse_session := fun _ => JErr;
    o_parse_auth := fun _ => JErr; o_ser_auth := fun _ => []; o_ser_session := fun _ => [7] |}.
  Definition x_client : sockaddr := {| sa_ip := [127; 0; 0; 1]; sa_port := 40000 |}.
  Definition x_cfg : conn_cfg :=
    {| cf_client := x_client; cf_secret := None; cf_max_len := 10000; cf_expiry := 21600; cf_pubkey := [1; 2; 3] |}.
  Definition x_t : target :=
    {| t_id := [116]; t_addr := {| sa_ip := [49; 48; 46; 48; 46; 48; 46; 49]; sa_port := 25565 |}; t_meta := [] |}.
  Definition x_e (lat : Z) : env := {|
    e_res := fun c => match c with
      | CStatus _ _ _ _ => (RStatus [123; 125], 5)
      | CAuth _ _ _ _ n u _ _ => (RProfile n u [], 5)
      | CDiscover => (RTargets [x_t], lat)
      | CFilter _ _ _ _ _ _ ts => (RTargets ts, 100)
      | CSelect _ _ _ _ _ _ ts => (RTarget (hd_error ts), 50)
      | CLocalize _ _ => (RText [120], 0)
      end;
    e_fresh := fun w n => match w with RToken => [9; 9; 9; 9] | RUuid => repeat 1 16
                                  | RKeepAlive => [0; 0; 0; 0; 0; 0; 0; Z.of_nat n + 1] end;
    e_now := fun _ => 1700000000 |}.

  Definition fr (p : packet) (vs : list fv) : inev :=
    match enc (kinds p) vs with Some b => IFrame (p_id p) b | None => IEof end.
  Definition x_login : inbox :=
    [(1, fr handshake_sb_HandshakePacket [VZ 769; VB [104]; VZ 25565; VZ 1]);
     (3, fr login_sb_LoginStartPacket [VB [80; 108; 97; 121; 101; 114]; VZ 5]);
     (5, fr login_sb_CookieResponsePacket [VB session_key_b; VOpt None]);
     (7, fr login_sb_EncryptionResponsePacket [VB (repeat 3 16); VB [9; 9; 9; 9]]);
     (20, fr login_sb_LoginAcknowledgedPacket [])].
  Definition x_info : inev := IFrame 0 [5; 100; 101; 95; 68; 69; 90; 0; 0; 49; 1; 1; 0; 1].
  Definition x_echo (n : Z) : inev := fr configuration_sb_KeepAlivePacket [VZ n].
  Definition x_plugin : inev := IFrame 2 [3; 97; 58; 98; 1; 2; 3].

  Fixpoint last_end (tr : trace) : option (Z * outcome) :=
    match tr with [] => None | (t, TEnd o) :: _ => Some (t, o) | _ :: r => last_end r end.
  Definition ka_sends (tr : trace) : list (Z * Z) :=
    flat_map (fun x => match x with
                       | (t, TSend p [VZ id]) => if is_ka p then [(t, id)] else []
                       | _ => [] end) tr.
  Definition transfer_at (tr : trace) : list Z :=
    flat_map (fun x => match x with
                       | (t, TSend p _) => if is_pkt p configuration_cb_TransferPacket then [t] else []
                       | _ => [] end) tr.

  (* a client that echoes every Keep Alive while discovery takes 50 s: three periods, three
     echoes (and a plugin message in between); it is transferred the instant routing ends *)
  Definition coop_ib : inbox :=
    x_login ++ [(1001, x_info); (16100, x_echo 1); (20000, x_plugin); (32500, x_echo 2); (48001, x_echo 3)].
  Definition coop_run := run1 x_o x_cfg (x_e 50000) coop_ib.
  Example coop_run_keepalives : ka_sends coop_run = [(16000, 1); (32000, 2); (48000, 3)].
  Proof. vm_compute. reflexivity. Qed.
  Example coop_run_end : last_end coop_run = Some (51151, OOk) /\ transfer_at coop_run = [51151].
  Proof. vm_compute. split; reflexivity. Qed.
  Example coop_run_accepted : c07_from_config coop_run = true.
  Proof. vm_compute. reflexivity. Qed.
  (* the monitor is not trivially true: drop the second Keep Alive from the trace and the
     16 s gap is rejected; duplicate the first one and the unanswered id is rejected *)
  Example monitor_rejects_gap :
    c07_from_config (filter (fun x => match x with (32000, TSend _ _) => false | _ => true end) coop_run) = false.
  Proof. vm_compute. reflexivity. Qed.
  Example monitor_rejects_second_unanswered :
    c07_from_config (flat_map (fun x => match x with (16000, TSend _ _) => [x; x] | _ => [x] end) coop_run) = false.
  Proof. vm_compute. reflexivity. Qed.

  Example coop_run_accepted_gap : c07g_from_config coop_run = true.
  Proof. vm_compute. reflexivity. Qed.
  (* without any Keep Alive in the trace, c07_from_config is satisfied but the gap monitor is not *)
  Definition no_ka_trace := filter (fun x => match x with (_, TSend p _) => negb (is_ka p) | _ => true end) coop_run.
  Example gap_monitor_stronger : c07_from_config no_ka_trace = true /\ c07g_from_config no_ka_trace = false.
  Proof. vm_compute. split; reflexivity. Qed.

  (* the plain reading: from Login Acknowledged (20) to the answer of selection (51151) the
     Keep Alive instants cover the span in steps of at most P = 16000 *)
  Definition coop_mid := firstn 19 (skipn 12 coop_run).
  Example coop_run_split :
    coop_run = firstn 10 coop_run ++ nth 10 coop_run (0, TTick) :: nth 11 coop_run (0, TTick)
               :: coop_mid ++ nth 31 coop_run (0, TTick) :: skipn 32 coop_run
    /\ no_ls (firstn 10 coop_run) = true /\ no_select_res coop_mid = true
    /\ (exists pk vs, nth 10 coop_run (0, TTick) = (12, TSend pk vs) /\ is_ls pk = true)
    /\ (exists id body, nth 11 coop_run (0, TTick) = (20, TRecv id body))
    /\ (exists c r, nth 31 coop_run (0, TTick) = (51151, TRes c r) /\ is_select c = true)
    /\ ka_send_times coop_mid = [16000; 32000; 48000].
  Proof.
    vm_compute. repeat split; try reflexivity; do 2 eexists; split; reflexivity || reflexivity.
  Qed.
  Example coop_run_covered : covered 20 [16000; 32000; 48000] 51151.
  Proof. vm_compute. repeat split; discriminate. Qed.

  (* the discovery race of that run as a loop: state at the moment Client Information was
     consumed (now = 1001, next tick due at 16000, nothing outstanding), horizon 51001 *)
  Definition race_ib : inbox := [(16100, x_echo 1); (20000, x_plugin); (32500, x_echo 2); (48001, x_echo 3)].
  Example race_cooperative : cooperative x_cfg (x_e 50000) 51001 race_ib 1001 16000 None 0 = true.
  Proof. vm_compute. reflexivity. Qed.
  (* ... and up to the end of the whole routing (discovery 50000 + filtering 100 + selection 50) *)
  Example routing_cooperative : cooperative x_cfg (x_e 50000) 51151 race_ib 1001 16000 None 0 = true.
  Proof. vm_compute. reflexivity. Qed.
  Example race_survives :
    match ka_loop x_cfg (x_e 50000) false None (Some 51001) race_ib 1001 16000 None 0 0 with
    | (_, KDone s') => s_now s' = 51001 /\ s_dl s' = 64000 /\ s_ka s' = None
    | _ => False
    end.
  Proof. vm_compute. repeat split; reflexivity. Qed.
  (* the same client without the second echo is not cooperative, and is dropped at 48000 *)
  Definition lazy_ib : inbox := [(16100, x_echo 1); (20000, x_plugin); (48001, x_echo 3)].
  Example lazy_not_cooperative : cooperative x_cfg (x_e 50000) 51001 lazy_ib 1001 16000 None 0 = false.
  Proof. vm_compute. reflexivity. Qed.
  Example lazy_unechoed : unechoed x_cfg false (Some 2) 48000 [(48001, x_echo 3)] 32000 = true.
  Proof. vm_compute. reflexivity. Qed.
  Example lazy_dropped :
    last_end (run1 x_o x_cfg (x_e 50000) (x_login ++ (1001, x_info) :: lazy_ib)) = Some (48000, OErr KMissedKA).
  Proof. vm_compute. reflexivity. Qed.
  (* the hypothesis now <= dl of the per-loop theorems (it is the invariant of the phase): a
     tick that is observed late times the client out at the moment it is observed, not at dl *)
  Example late_tick_times_out_late :
    fst (ka_loop x_cfg (x_e 50000) false None (Some 60000) [] 17000 16000 (Some 1) 1 0)
    = timeout_trace (x_e 50000) None 17000.
  Proof. vm_compute. reflexivity. Qed.
  (* echoing a different id does not help *)
  Example wrong_id_dropped :
    last_end (run1 x_o x_cfg (x_e 50000) (x_login ++ [(1001, x_info); (16100, x_echo 7)])) = Some (32000, OErr KMissedKA)
    /\ unechoed x_cfg false (Some 1) 32000 [(16100, x_echo 7)] 16000 = true.
  Proof. vm_compute. split; reflexivity. Qed.
  (* a client silent from Login Acknowledged on: Keep Alive at 16000, timeout at 32000 *)
  Example silent_dropped :
    let tr := run1 x_o x_cfg (x_e 50000) x_login in
    ka_sends tr = [(16000, 1)] /\ last_end tr = Some (32000, OErr KMissedKA) /\ c07_from_config tr = true.
  Proof. vm_compute. repeat split; reflexivity. Qed.
End C07Ex.
