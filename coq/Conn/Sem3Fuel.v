(* Fuel adequacy of M3 (Conn/Sem3.v): the three fuelled functions never take their exhausted-fuel
   branch with the fuel the definitions give them, so a hang in an M3 output is a genuine one.

   F1  flush_fuel_mono, flush_hang_genuine   flush_f / flush
   F2  read_frame3_fuel_mono                 read_frame3_f / read_frame3
   F3  ka_loop3_fuel_mono                    ka_loop3
   F4  M3_no_spurious_hang                   exec3 with every fuel expression increased by k = exec3 *)
From Passage Require Import Lib.Bytes Codec.VarInt Codec.Desc Gen.PacketsGen Gen.ConstsGen
  Codec.PacketCheck Conn.Types Conn.Prog Conn.Sem1 Conn.Reader Conn.Sem2 Conn.Sem3 Conn.Refine2Proofs.

(* ---------- absorb ---------- *)
Lemma absorb_len now : forall sch cap cap' sch',
  absorb now cap sch = (cap', sch') -> (length sch' <= length sch)%nat.
Proof.
  induction sch as [|[t c] r IH]; intros cap cap' sch' H; cbn [absorb] in H.
  - injection H as _ <-. apply le_n.
  - destruct (t <=? now).
    + specialize (IH _ _ _ H). cbn [length]. lia.
    + injection H as _ <-. apply le_n.
Qed.

Lemma absorb_idem now : forall sch cap cap' sch',
  absorb now cap sch = (cap', sch') -> absorb now cap' sch' = (cap', sch').
Proof.
  induction sch as [|[t c] r IH]; intros cap cap' sch' H; cbn [absorb] in H.
  - injection H as <- <-. reflexivity.
  - destruct (t <=? now) eqn:Ht.
    + exact (IH _ _ _ H).
    + injection H as <- <-. cbn [absorb]. rewrite Ht. reflexivity.
Qed.

Section Fuel.
  Variable cfg : conn_cfg.
  Variable e : env.
  Variable encf : packet -> list fv -> option bytes.
  Variable loclat : Z.


  (* ================= F1: flush ================= *)
  (* the calls flush_f still makes from [s]: nothing queued - one; otherwise two for each instant
     of the schedule that is still to come (the wait for it, the write it allows), one more when
     there is room now, and the last one *)
  Definition fl_need (s : st3) : nat :=
    match c_unsent s with
    | [] => 1
    | _ :: _ =>
        let (cap, sch) := absorb (now3 s) (c_cap s) (c_sch s) in
        (2 * length sch + match cap with Some n => if (0 <? n)%Z then 2 else 1 | None => 1 end)%nat
    end.

  Lemma fl_need_pos s : (1 <= fl_need s)%nat.
  Proof.
    unfold fl_need. destruct (c_unsent s); [apply le_n|].
    destruct (absorb (now3 s) (c_cap s) (c_sch s)) as [[n|] sch]; [destruct (0 <? n)|]; lia.
  Qed.

  Lemma fl_need_le s : (fl_need s <= 2 * length (c_sch s) + 2)%nat.
  Proof.
    unfold fl_need. destruct (c_unsent s); [lia|].
    destruct (absorb (now3 s) (c_cap s) (c_sch s)) as [cap sch] eqn:Ha.
    pose proof (absorb_len _ _ _ _ _ Ha) as Hl.
    destruct cap as [n|]; [destruct (0 <? n)|]; lia.
  Qed.

  (* after a write that used the room: either nothing is left, or the room is exhausted *)
  Lemma fl_need_write s b0 u n sch :
    c_unsent s = b0 :: u -> absorb (now3 s) (c_cap s) (c_sch s) = (Some n, sch) -> 0 < n ->
    let k := Z.to_nat (Z.min n (Z.of_nat (length (c_unsent s)))) in
    (fl_need {| c2 := c2 s; c_unsent := skipn k (c_unsent s); c_cap := Some (n - Z.of_nat k)%Z;
                c_sch := sch; c_missed := c_missed s |} <= 2 * length sch + 1)%nat.
  Proof.
    intros Hu Ha Hn k. unfold fl_need, now3 in *. cbn [c_unsent c_cap c_sch c2].
    destruct (skipn k (c_unsent s)) as [|b1 u1] eqn:Hs; [lia|].
    pose proof (absorb_idem _ _ _ _ _ Ha) as Hi.
    assert (Hk : n - Z.of_nat k = 0).
    { destruct (Z.le_gt_cases n (Z.of_nat (length (c_unsent s)))) as [Hle|Hgt]; [subst k; lia|].
      exfalso. assert (Hk : k = length (c_unsent s)) by (subst k; lia).
      rewrite Hk, skipn_all in Hs. discriminate Hs. }
    rewrite Hk.
    assert (Ha0 : absorb (b_now (c2 s)) (Some 0) sch = (Some 0, sch)).
    { clear -Hi. destruct sch as [|[t c] r]; [reflexivity|]. cbn [absorb] in *.
      destruct (t <=? b_now (c2 s)).
      - (* the head of an absorbed schedule is in the future *)
        exfalso. pose proof (absorb_len _ _ _ _ _ Hi) as Hl. cbn [length] in Hl. lia.
      - reflexivity. }
    rewrite Ha0. cbn [Z.ltb Z.compare]. lia.
  Qed.

  (* after the wait for the next instant of the schedule *)
  Lemma fl_need_wait s b0 u n sch te c r :
    c_unsent s = b0 :: u -> absorb (now3 s) (c_cap s) (c_sch s) = (Some n, sch) -> sch = (te, c) :: r ->
    (fl_need (at_time {| c2 := c2 s; c_unsent := c_unsent s; c_cap := Some n; c_sch := sch; c_missed := c_missed s |} te)
     <= 2 * length sch)%nat.
  Proof.
    intros Hu Ha Hsch. unfold fl_need. cbn [at_time set2 c_unsent c_cap c_sch c2 now3 upd b_now]. rewrite Hu, Hsch.
    cbn [absorb]. rewrite Z.leb_refl.
    destruct (absorb te c r) as [cap' sch'] eqn:Ha'.
    pose proof (absorb_len _ _ _ _ _ Ha') as Hl. cbn [length].
    destruct cap' as [n'|]; [destruct (0 <? n')|]; lia.
  Qed.

  Lemma flush_f_adequate hz : forall f1 f2 s,
    (fl_need s <= f1)%nat -> (fl_need s <= f2)%nat -> flush_f f1 hz s = flush_f f2 hz s.
  Proof.
    induction f1 as [|f1 IH]; intros f2 s H1 H2; [pose proof (fl_need_pos s); lia|].
    destruct f2 as [|f2]; [pose proof (fl_need_pos s); lia|].
    cbn [Sem3.flush_f].
    destruct (c_unsent s) as [|b0 u] eqn:Hu; [reflexivity|].
    destruct (absorb (now3 s) (c_cap s) (c_sch s)) as [cap sch] eqn:Ha.
    destruct cap as [n|]; [|reflexivity].
    destruct (0 <? n) eqn:Hn.
    - apply Z.ltb_lt in Hn.
      pose proof (fl_need_write s b0 u n sch Hu Ha Hn) as Hw. cbv zeta in Hw. rewrite Hu in Hw.
      assert (Hs : fl_need s = (2 * length sch + 2)%nat).
      { unfold fl_need. rewrite Hu, Ha. apply Z.ltb_lt in Hn. rewrite Hn. reflexivity. }
      match goal with |- context [Sem3.flush_f f1 hz ?s1] =>
        rewrite (IH f2 s1 ltac:(lia) ltac:(lia)) end. reflexivity.
    - assert (Hs : fl_need s = (2 * length sch + 1)%nat).
      { unfold fl_need. rewrite Hu, Ha, Hn. reflexivity. }
      destruct sch as [|[te c] r] eqn:Hsch; [reflexivity|].
      pose proof (fl_need_wait s b0 u n _ te c r Hu Ha eq_refl) as Hw. rewrite Hu in Hw.
      destruct hz as [h|].
      + destruct (h <=? te); [reflexivity|]. apply IH; lia.
      + apply IH; lia.
  Qed.

  (* F1a: above the bound the fuel does not matter *)
  Theorem flush_fuel_mono hz s fuel :
    (2 * length (c_sch s) + 3 <= fuel)%nat -> flush_f fuel hz s = flush_f (2 * length (c_sch s) + 3) hz s.
  Proof. intros H. pose proof (fl_need_le s). apply flush_f_adequate; lia. Qed.

  Corollary flush_fuel_flush hz s fuel :
    (2 * length (c_sch s) + 3 <= fuel)%nat -> flush_f fuel hz s = flush hz s.
  Proof. exact (flush_fuel_mono hz s fuel). Qed.

  (* the un-fuelled characterisation of a hang: not raced, bytes queued, no room, no instant of the
     schedule left - the transport never accepts another byte *)
  Definition genuine_hang (hz : option Z) (s' : st3) : Prop :=
    hz = None /\ c_unsent s' <> [] /\ (exists n, c_cap s' = Some n /\ n <= 0) /\ c_sch s' = [].

  Lemma flush_f_hang hz : forall f s o s',
    (fl_need s <= f)%nat -> flush_f f hz s = (o, s', FlHang) -> genuine_hang hz s'.
  Proof.
    induction f as [|f IH]; intros s o s' Hf H; [pose proof (fl_need_pos s); lia|].
    cbn [Sem3.flush_f] in H.
    destruct (c_unsent s) as [|b0 u] eqn:Hu; [discriminate H|].
    destruct (absorb (now3 s) (c_cap s) (c_sch s)) as [cap sch] eqn:Ha.
    destruct cap as [n|]; [|discriminate H].
    destruct (0 <? n) eqn:Hn.
    - apply Z.ltb_lt in Hn.
      pose proof (fl_need_write s b0 u n sch Hu Ha Hn) as Hw. cbv zeta in Hw. rewrite Hu in Hw.
      assert (Hs : fl_need s = (2 * length sch + 2)%nat).
      { unfold fl_need. rewrite Hu, Ha. apply Z.ltb_lt in Hn. rewrite Hn. reflexivity. }
      match type of H with context [Sem3.flush_f f hz ?s1] =>
        destruct (Sem3.flush_f f hz s1) as [[o1 s1'] r1] eqn:Hr end.
      injection H as _ <- ->. refine (IH _ _ _ _ Hr). lia.
    - assert (Hs : fl_need s = (2 * length sch + 1)%nat).
      { unfold fl_need. rewrite Hu, Ha, Hn. reflexivity. }
      destruct sch as [|[te c] r] eqn:Hsch.
      + destruct hz as [h|]; [discriminate H|]. injection H as _ <-.
        unfold genuine_hang. cbn [c_unsent c_cap c_sch]. split; [reflexivity|]. split; [discriminate|].
        split; [|reflexivity]. exists n. split; [reflexivity|]. apply Z.ltb_ge in Hn. exact Hn.
      + pose proof (fl_need_wait s b0 u n _ te c r Hu Ha eq_refl) as Hw. rewrite Hu in Hw.
        destruct hz as [h|].
        * destruct (h <=? te); [discriminate H|]. refine (IH _ _ _ _ H). lia.
        * refine (IH _ _ _ _ H). lia.
  Qed.

  (* F1b: a hang of flush is a genuine one *)
  Theorem flush_hang_genuine hz s o s' :
    flush hz s = (o, s', FlHang) ->
    hz = None /\ c_unsent s' <> [] /\ (exists n, c_cap s' = Some n /\ n <= 0) /\ c_sch s' = [].
  Proof. intros H. pose proof (fl_need_le s) as Hle. unfold flush in H. refine (flush_f_hang hz _ s o s' _ H). lia. Qed.

  (* ================= what flush, the verdict and a tick do to the reader's part of the state ================= *)
  Lemma flush_f_c2 hz : forall f s,
    b_in (c2 (snd (fst (flush_f f hz s)))) = b_in (c2 s)
    /\ b_ka (c2 (snd (fst (flush_f f hz s)))) = b_ka (c2 s)
    /\ b_rd (c2 (snd (fst (flush_f f hz s)))) = b_rd (c2 s)
    /\ b_eof (c2 (snd (fst (flush_f f hz s)))) = b_eof (c2 s).
  Proof.
    induction f as [|f IH]; intros s; cbn [Sem3.flush_f]; [repeat split|].
    destruct (c_unsent s) as [|b0 u]; [repeat split|].
    destruct (absorb (now3 s) (c_cap s) (c_sch s)) as [cap sch].
    destruct cap as [n|]; [|repeat split].
    destruct (0 <? n).
    - match goal with |- context [Sem3.flush_f f hz ?s1] =>
        specialize (IH s1); destruct (Sem3.flush_f f hz s1) as [[o1 s1'] r1] end.
      cbn [fst snd c2] in *. exact IH.
    - destruct sch as [|[te c] r].
      + destruct hz as [h|]; cbn [fst snd at_time set2 c2 upd b_in b_ka b_rd b_eof]; repeat split.
      + destruct hz as [h|].
        * destruct (h <=? te); [cbn [fst snd at_time set2 c2 upd b_in b_ka b_rd b_eof]; repeat split|].
          match goal with |- context [Sem3.flush_f f ?hh ?s1] => specialize (IH s1) end.
          cbn [at_time set2 c2 upd b_in b_ka b_rd b_eof] in IH. exact IH.
        * match goal with |- context [Sem3.flush_f f ?hh ?s1] => specialize (IH s1) end.
          cbn [at_time set2 c2 upd b_in b_ka b_rd b_eof] in IH. exact IH.
  Qed.

  Lemma flush_c2 hz s o s' r : flush hz s = (o, s', r) ->
    b_in (c2 s') = b_in (c2 s) /\ b_ka (c2 s') = b_ka (c2 s) /\ b_rd (c2 s') = b_rd (c2 s) /\ b_eof (c2 s') = b_eof (c2 s).
  Proof.
    intros H. pose proof (flush_f_c2 hz (2 * length (c_sch s) + 3) s) as Hc. unfold flush in H. rewrite H in Hc. exact Hc.
  Qed.

  (* the verdict ends the wait: the loop never continues after it *)
  Lemma verdict_no_cont loc hz s o s' : verdict e encf loclat loc hz s <> (o, TkCont s').
  Proof.
    unfold verdict. cbv zeta.
    destruct (c_missed s).
    - destruct (match hz with Some h => (0 <? loclat) && (h <=? now3 s + loclat) | None => false end); [discriminate|].
      destruct (fst (e_res e (CLocalize loc key_timeout))); try discriminate.
      match goal with |- context [flush hz ?s1] => destruct (flush hz s1) as [[o1 s1'] []] end; discriminate.
    - destruct (match hz with Some h => (0 <? loclat) && (h <=? now3 s + loclat) | None => false end); [discriminate|].
      destruct (fst (e_res e (CLocalize loc key_timeout))); try discriminate.
      match goal with |- context [flush hz ?s1] => destruct (flush hz s1) as [[o1 s1'] []] end; discriminate.
    - destruct (flush hz s) as [[o1 s1'] []]; discriminate.
  Qed.

  (* a tick after which the loop continues: it was the first one since the last echo, and now an
     id awaits its echo; what the reader holds is untouched *)
  Lemma tick3_cont loc hz s tt o s' : tick3 e encf loclat loc hz s tt = (o, TkCont s') ->
    b_ka (c2 s) = None /\ (exists id, b_ka (c2 s') = Some id)
    /\ b_in (c2 s') = b_in (c2 s) /\ b_rd (c2 s') = b_rd (c2 s) /\ b_eof (c2 s') = b_eof (c2 s).
  Proof.
    unfold tick3. cbv zeta. destruct (b_ka (c2 s)) as [kid|] eqn:Hka.
    - destruct (verdict e encf loclat loc hz (set_missed (at_time s tt) MDecided)) as [o1 r1] eqn:Hv.
      intros H. injection H as _ ->. exfalso. exact (verdict_no_cont _ _ _ _ _ Hv).
    - match goal with |- context [flush hz ?s1] => destruct (flush hz s1) as [[o1 s1'] r1] eqn:Hf end.
      destruct (flush_c2 _ _ _ _ _ Hf) as (H1 & H2 & H3 & H4).
      cbn [enqueue set2 c2 upd b_in b_ka b_rd b_eof] in H1, H2, H3, H4.
      destruct r1; intros H; try discriminate H. injection H as _ <-.
      split; [reflexivity|]. split; [eexists; exact H2|]. split; [exact H1|]. split; [exact H3 | exact H4].
  Qed.

  (* ================= F2: read_frame3 ================= *)
  Local Notation rf3 := (read_frame3_f cfg e encf loclat).

  Lemma read_frame3_f_S f m hz s :
    rf3 (S f) m hz s =
      let x := c2 s in
      if hfirst hz x then
        ([], match hz with
             | Some h => R3Cut (at_time s (Z.max h (b_now x)))
             | None => R3Cut s end)
      else if tfirst x then
        match m with
        | None =>
            match tin_of x with
            | None => ([], R3End [OT (b_now x, TEnd OHang)])
            | Some t => rf3 f m hz (set2 s (upd x (b_now x) (skip_ticks (b_dl x) (b_now x) t) (b_ka x) (b_in x) (b_nka x) (b_rd x)))
            end
        | Some loc =>
            match tick3 e encf loclat loc hz s (Z.max (b_dl x) (b_now x)) with
            | (o, TkEnd) => (o, R3End [])
            | (o, TkCut s') => (o, R3Cut s')
            | (o, TkCont s') => let (o2, r) := rf3 f m hz s' in (o ++ o2, r)
            end
        end
      else
        match b_in x with
        | (t, b) :: rest =>
            let t' := Z.max t (b_now x) in
            match feed_byte (cf_max_len cfg) (b_rd x) b with
            | (rd', []) => rf3 f m hz (set2 s (upd x t' (b_dl x) (b_ka x) rest (b_nka x) rd'))
            | (rd', EvFrame id body :: _) => ([], R3Got id body (set2 s (upd x t' (b_dl x) (b_ka x) rest (b_nka x) rd')))
            | (_, EvBadLen :: _) => ([], R3End [OT (t', TEnd (OErr KIllegalLen))])
            | (_, EvBadId :: _) => ([], R3End [OT (t', TEnd (OErr KClosed))])
            end
        | [] =>
            let t' := match b_eof x with Some te => Z.max te (b_now x) | None => b_now x end in
            match eof_events (b_rd x) with
            | EvFrame id body :: _ => ([], R3Got id body (set2 s (upd x t' (b_dl x) (b_ka x) [] (b_nka x) RIdle)))
            | _ => ([], R3End [OT (t', TEnd (OErr KClosed))])
            end
        end.
  Proof. reflexivity. Qed.

  (* iterations one receive_packet still makes.  Keep-alive on: every byte once, at most two ticks
     (the second one finds the id of the first unanswered: the verdict), the end - however long a
     blocked write of the Keep Alive lasted.  Keep-alive off: every byte once, before each at most
     one iteration that skips the ticks due, the end. *)
  Definition need_ka (s : st3) : nat :=
    (length (b_in (c2 s)) + match b_ka (c2 s) with None => 2 | Some _ => 1 end + 1)%nat.
  Definition need_no (s : st3) : nat :=
    (2 * length (b_in (c2 s)) + 2 + if tfirst (c2 s) then 1 else 0)%nat.
  Definition need3 (m : kamode) (s : st3) : nat :=
    match m with Some _ => need_ka s | None => need_no s end.

  Lemma need3_pos m s : (1 <= need3 m s)%nat.
  Proof. destruct m; cbn [need3]; unfold need_ka, need_no; lia. Qed.

  Lemma need3_fuel3 m s : (need3 m s <= fuel3 s)%nat.
  Proof.
    unfold fuel3. destruct m; cbn [need3]; unfold need_ka, need_no.
    - destruct (b_ka (c2 s)); lia.
    - destruct (tfirst (c2 s)); lia.
  Qed.

  (* the tighter bound the proof gives *)
  Lemma need3_tight m s : (need3 m s <= 2 * length (b_in (c2 s)) + 3)%nat.
  Proof.
    destruct m; cbn [need3]; unfold need_ka, need_no.
    - destruct (b_ka (c2 s)); lia.
    - destruct (tfirst (c2 s)); lia.
  Qed.

  Lemma need3_byte m s t b rest dl now rd' :
    b_in (c2 s) = (t, b) :: rest -> tfirst (c2 s) = false ->
    (S (need3 m (set2 s (upd (c2 s) now dl (b_ka (c2 s)) rest (b_nka (c2 s)) rd'))) <= need3 m s)%nat.
  Proof.
    intros Hin Ht. destruct m; cbn [need3]; unfold need_ka, need_no; cbn [set2 c2 upd b_in b_ka]; rewrite Hin, ?Ht; cbn [length].
    - lia.
    - match goal with |- context [if ?c then _ else _] => destruct c end; lia.
  Qed.

  Lemma rf3_adequate m hz : forall f1 f2 s,
    (need3 m s <= f1)%nat -> (need3 m s <= f2)%nat -> rf3 f1 m hz s = rf3 f2 m hz s.
  Proof.
    induction f1 as [|f1 IH]; intros f2 s H1 H2; [pose proof (need3_pos m s); lia|].
    destruct f2 as [|f2]; [pose proof (need3_pos m s); lia|].
    rewrite !read_frame3_f_S. cbv zeta.
    destruct (hfirst hz (c2 s)); [reflexivity|].
    destruct (tfirst (c2 s)) eqn:Ht.
    - destruct m as [loc|].
      + (* a tick *)
        destruct (tick3 e encf loclat loc hz s (Z.max (b_dl (c2 s)) (b_now (c2 s)))) as [o [s'|s'|]] eqn:Htk; try reflexivity.
        destruct (tick3_cont _ _ _ _ _ _ Htk) as (Hka & (id & Hka') & Hin & _).
        cbn [need3] in *. unfold need_ka in H1, H2. rewrite Hka in H1, H2.
        assert (Hn : need_ka s' = (length (b_in (c2 s)) + 2)%nat) by (unfold need_ka; rewrite Hka', Hin; lia).
        rewrite (IH f2 s'); [reflexivity | cbn [need3]; lia | cbn [need3]; lia].
      + (* ticks taken and ignored *)
        destruct (tin_of (c2 s)) as [c|] eqn:Hc; [|reflexivity].
        apply IH; cbn [need3] in *; unfold need_no in *; cbn [set2 c2]; rewrite (tfirst_skipped _ _ Hc); rewrite Ht in H1, H2;
          cbn [upd b_in]; lia.
    - destruct (b_in (c2 s)) as [|[t b] rest] eqn:Hin; [reflexivity|].
      destruct (feed_byte (cf_max_len cfg) (b_rd (c2 s)) b) as [rd' [|ev evs]]; [|reflexivity].
      match goal with |- rf3 f1 m hz ?s1 = _ =>
        pose proof (need3_byte m s t b rest (b_dl (c2 s)) (Z.max t (b_now (c2 s))) rd' Hin Ht) as Hn end.
      apply IH; lia.
  Qed.

  (* F2: above fuel3 the fuel does not matter *)
  Theorem read_frame3_fuel_mono m hz s fuel :
    (fuel3 s <= fuel)%nat -> rf3 fuel m hz s = rf3 (fuel3 s) m hz s.
  Proof. intros H. pose proof (need3_fuel3 m s). apply rf3_adequate; lia. Qed.

  Corollary read_frame3_fuel m hz s fuel :
    (fuel3 s <= fuel)%nat -> rf3 fuel m hz s = read_frame3 cfg e encf loclat m hz s.
  Proof. exact (read_frame3_fuel_mono m hz s fuel). Qed.

  (* ... already above 2 |b_in| + 3: the instants of the schedule need no fuel *)
  Theorem read_frame3_fuel_tight m hz s fuel :
    (2 * length (b_in (c2 s)) + 3 <= fuel)%nat -> rf3 fuel m hz s = read_frame3 cfg e encf loclat m hz s.
  Proof.
    intros H. pose proof (need3_tight m s). pose proof (need3_fuel3 m s). unfold read_frame3. apply rf3_adequate; lia.
  Qed.

  (* a hang reported by read_frame3 is the genuine one: receive_packet(false) on a stream that is
     exhausted but never closed *)
  Lemma rf3_hang m hz : forall f s o fin t,
    (need3 m s <= f)%nat -> rf3 f m hz s = (o, R3End fin) -> In (OT (t, TEnd OHang)) fin ->
    m = None /\ b_eof (c2 s) = None.
  Proof.
    induction f as [|f IH]; intros s o fin t0 Hf H Hi; [pose proof (need3_pos m s); lia|].
    rewrite read_frame3_f_S in H. cbv zeta in H.
    destruct (hfirst hz (c2 s)); [destruct hz; discriminate H|].
    destruct (tfirst (c2 s)) eqn:Ht.
    - destruct m as [loc|].
      + destruct (tick3 e encf loclat loc hz s (Z.max (b_dl (c2 s)) (b_now (c2 s)))) as [o1 [s'|s'|]] eqn:Htk.
        * destruct (tick3_cont _ _ _ _ _ _ Htk) as (Hka & (id & Hka') & Hin & _).
          destruct (rf3 f (Some loc) hz s') as [o2 r2] eqn:Hr. injection H as _ ->.
          cbn [need3] in Hf. unfold need_ka in Hf. rewrite Hka in Hf.
          assert (Hn : (need3 (Some loc) s' <= f)%nat) by (cbn [need3]; unfold need_ka; rewrite Hka', Hin; lia).
          destruct (IH s' _ _ _ Hn Hr Hi) as [Hm _]. discriminate Hm.
        * discriminate H.
        * injection H as _ <-. destruct Hi.
      + destruct (tin_of (c2 s)) as [c|] eqn:Hc.
        * refine (IH _ _ _ _ _ H Hi).
          cbn [need3] in *; unfold need_no in *; cbn [set2 c2]; rewrite (tfirst_skipped _ _ Hc); rewrite Ht in Hf; cbn [upd b_in]; lia.
        * split; [reflexivity|]. exact (proj2 (tin_none _ Hc)).
    - destruct (b_in (c2 s)) as [|[t b] rest] eqn:Hin.
      + destruct (eof_events (b_rd (c2 s))) as [|[id body| |] evs]; try discriminate H;
          injection H as _ <-; destruct Hi as [Hi|[]]; discriminate Hi.
      + destruct (feed_byte (cf_max_len cfg) (b_rd (c2 s)) b) as [rd' [|[id body| |] evs]].
        * pose proof (need3_byte m s t b rest (b_dl (c2 s)) (Z.max t (b_now (c2 s))) rd' Hin Ht) as Hn.
          refine (IH _ _ _ _ _ H Hi). lia.
        * discriminate H.
        * injection H as _ <-. destruct Hi as [Hi|[]]; discriminate Hi.
        * injection H as _ <-. destruct Hi as [Hi|[]]; discriminate Hi.
  Qed.

  Theorem read_frame3_hang_genuine m hz s o fin t :
    read_frame3 cfg e encf loclat m hz s = (o, R3End fin) -> In (OT (t, TEnd OHang)) fin ->
    m = None /\ b_eof (c2 s) = None.
  Proof. intros H Hi. exact (rf3_hang m hz _ s o fin t (need3_fuel3 m s) H Hi). Qed.

  (* ================= F3: ka_loop3 ================= *)
  (* bounds the frames still to come *)
  Definition kmeas3 (s : st3) : nat :=
    (length (b_in (c2 s)) + match b_rd (c2 s) with RFrame _ _ => 1 | _ => 0 end)%nat.

  Lemma feed_byte_frame max rd b rd' id body evs :
    feed_byte max rd b = (rd', EvFrame id body :: evs) -> rd' = RIdle.
  Proof.
    destruct rd as [|k acc|len got|]; cbn [feed_byte]; unfold len_done.
    - destruct (b <? 128); [destruct ((wrap32 (b mod 128) <=? 0) || (max <? wrap32 (b mod 128)))|]; intros H; discriminate H.
    - destruct ((b <? 128) || (4 <=? k)%nat); [|intros H; discriminate H].
      match goal with |- context [if ?c then _ else _] => destruct c end; intros H; discriminate H.
    - match goal with |- context [if ?c then _ else _] => destruct c end; intros H; [|discriminate H].
      injection H as <- _. reflexivity.
    - intros H; discriminate H.
  Qed.

  Lemma feed_byte_kmeas max rd b rd' evs :
    feed_byte max rd b = (rd', evs) ->
    (match rd' with RFrame _ _ => 1 | _ => 0 end <= 1 + match rd with RFrame _ _ => 1 | _ => 0 end)%nat.
  Proof. intros _. destruct rd'; destruct rd; lia. Qed.

  Lemma rf3_got m hz : forall f s o id body s',
    rf3 f m hz s = (o, R3Got id body s') -> (kmeas3 s' < kmeas3 s)%nat.
  Proof.
    induction f as [|f IH]; intros s o id body s' H; [discriminate H|].
    rewrite read_frame3_f_S in H. cbv zeta in H.
    destruct (hfirst hz (c2 s)); [destruct hz; discriminate H|].
    destruct (tfirst (c2 s)) eqn:Ht.
    - destruct m as [loc|].
      + destruct (tick3 e encf loclat loc hz s (Z.max (b_dl (c2 s)) (b_now (c2 s)))) as [o1 [s1|s1|]] eqn:Htk; try discriminate H.
        destruct (tick3_cont _ _ _ _ _ _ Htk) as (_ & _ & Hin & Hrd & _).
        destruct (rf3 f (Some loc) hz s1) as [o2 r2] eqn:Hr. injection H as _ ->.
        specialize (IH _ _ _ _ _ Hr). unfold kmeas3 in *. rewrite Hin, Hrd in IH. exact IH.
      + destruct (tin_of (c2 s)) as [c|] eqn:Hc; [|discriminate H].
        specialize (IH _ _ _ _ _ H). unfold kmeas3 in *. cbn [set2 c2 upd b_in b_rd] in IH. exact IH.
    - destruct (b_in (c2 s)) as [|[t b] rest] eqn:Hin.
      + destruct (b_rd (c2 s)) as [|k acc|len got|] eqn:Hrd; cbn [eof_events] in H; try discriminate H.
        destruct (rd_var 5 0 0 got) as [raw bd|]; [|discriminate H].
        injection H as _ _ _ <-. unfold kmeas3. cbn [set2 c2 upd b_in b_rd]. rewrite Hin, Hrd. cbn [length]. lia.
      + destruct (feed_byte (cf_max_len cfg) (b_rd (c2 s)) b) as [rd' [|[id1 body1| |] evs]] eqn:Efb; try discriminate H.
        * specialize (IH _ _ _ _ _ H). unfold kmeas3 in *. cbn [set2 c2 upd b_in b_rd] in IH. rewrite Hin. cbn [length].
          pose proof (feed_byte_kmeas _ _ _ _ _ Efb). lia.
        * pose proof (feed_byte_frame _ _ _ _ _ _ _ Efb) as ->.
          injection H as _ _ _ <-. unfold kmeas3. cbn [set2 c2 upd b_in b_rd]. rewrite Hin. cbn [length]. lia.
  Qed.

  Local Notation kl3 := (ka_loop3 cfg e encf loclat).

  Lemma kl3_adequate info loc hz : forall f1 f2 s,
    (kmeas3 s < f1)%nat -> (kmeas3 s < f2)%nat -> kl3 f1 info loc hz s = kl3 f2 info loc hz s.
  Proof.
    induction f1 as [|f1 IH]; intros f2 s H1 H2; [lia|].
    destruct f2 as [|f2]; [lia|].
    cbn [ka_loop3].
    destruct (read_frame3 cfg e encf loclat (Some loc) hz s) as [o [id body s'|s'|fin]] eqn:Hr; try reflexivity.
    unfold read_frame3 in Hr. pose proof (rf3_got _ _ _ _ _ _ _ _ Hr) as Hk.
    cbv zeta. destruct (conf_frame cfg info (b_ka (c2 s')) id body) as [ka''|vs|oc]; try reflexivity.
    rewrite (IH f2); [reflexivity | |]; unfold kmeas3 in *; cbn [set2 c2 upd b_in b_rd]; lia.
  Qed.

  Lemma kmeas3_fuel s : (kmeas3 s < length (b_in (c2 s)) + 3)%nat.
  Proof. unfold kmeas3. destruct (b_rd (c2 s)); lia. Qed.

  (* F3: above |b_in| + 3 the fuel does not matter *)
  Theorem ka_loop3_fuel_mono info loc hz s fuel :
    (length (b_in (c2 s)) + 3 <= fuel)%nat ->
    kl3 fuel info loc hz s = kl3 (length (b_in (c2 s)) + 3) info loc hz s.
  Proof. intros H. pose proof (kmeas3_fuel s). apply kl3_adequate; lia. Qed.

  (* ---------- the keep-alive loops never report a hang: the exhausted-fuel branch of ka_loop3,
     which would, is not taken ---------- *)
  Definition nohang (o : list oev) : Prop := forall t, ~ In (OT (t, TEnd OHang)) o.

  Lemma nohang_nil : nohang [].
  Proof. intros t []. Qed.

  Lemma nohang_app a b : nohang a -> nohang b -> nohang (a ++ b).
  Proof. intros Ha Hb t Hi. apply in_app_or in Hi as [Hi|Hi]; [exact (Ha t Hi) | exact (Hb t Hi)]. Qed.

  Ltac nh_list := let t := fresh "t" in let Hi := fresh "Hi" in
    intros t Hi; cbn [In] in Hi; repeat (destruct Hi as [Hi|Hi]; [discriminate Hi|]); exact Hi.

  Lemma flush_f_nohang hz : forall f s, nohang (fst (fst (flush_f f hz s))).
  Proof.
    induction f as [|f IH]; intros s; cbn [Sem3.flush_f]; [apply nohang_nil|].
    destruct (c_unsent s) as [|b0 u]; [apply nohang_nil|].
    destruct (absorb (now3 s) (c_cap s) (c_sch s)) as [cap sch].
    destruct cap as [n|]; [|cbn [fst]; nh_list].
    destruct (0 <? n).
    - match goal with |- context [Sem3.flush_f f hz ?s1] =>
        specialize (IH s1); destruct (Sem3.flush_f f hz s1) as [[o1 s1'] r1] end.
      cbn [fst] in *. intros t [Hi|Hi]; [discriminate Hi | exact (IH t Hi)].
    - destruct sch as [|[te c] r].
      + destruct hz as [h|]; apply nohang_nil.
      + destruct hz as [h|]; [destruct (h <=? te); [apply nohang_nil|]|]; apply IH.
  Qed.

  Lemma flush_nohang hz s : nohang (fst (fst (flush hz s))).
  Proof. apply flush_f_nohang. Qed.

  Lemma verdict_nohang loc hz s : nohang (fst (verdict e encf loclat loc hz s)).
  Proof.
    unfold verdict. cbv zeta.
    assert (Hfin : forall pre s1, nohang pre ->
      nohang (fst (match flush hz s1 with
                   | (o, s2, FlDone) => (pre ++ o ++ [OT (now3 s2, TEnd (OErr KMissedKA))], TkEnd)
                   | (o, s2, FlCut) => (pre ++ o, TkCut s2)
                   | (o, _, FlHang) => (pre ++ o, TkEnd)
                   end))).
    { intros pre s1 Hpre. pose proof (flush_nohang hz s1) as Hf. destruct (flush hz s1) as [[o1 s2] []]; cbn [fst] in *.
      - apply nohang_app; [exact Hpre|]. apply nohang_app; [exact Hf | nh_list].
      - apply nohang_app; assumption.
      - apply nohang_app; assumption. }
    destruct (c_missed s).
    - destruct (match hz with Some h => (0 <? loclat) && (h <=? now3 s + loclat) | None => false end); [cbn [fst]; nh_list|].
      destruct (fst (e_res e (CLocalize loc key_timeout))); try (cbn [fst]; nh_list). apply Hfin. nh_list.
    - destruct (match hz with Some h => (0 <? loclat) && (h <=? now3 s + loclat) | None => false end); [cbn [fst]; nh_list|].
      destruct (fst (e_res e (CLocalize loc key_timeout))); try (cbn [fst]; nh_list). apply Hfin. nh_list.
    - apply Hfin. apply nohang_nil.
  Qed.

  Lemma tick3_nohang loc hz s tt : nohang (fst (tick3 e encf loclat loc hz s tt)).
  Proof.
    unfold tick3. cbv zeta. destruct (b_ka (c2 s)).
    - pose proof (verdict_nohang loc hz (set_missed (at_time s tt) MDecided)) as Hv.
      destruct (verdict e encf loclat loc hz (set_missed (at_time s tt) MDecided)) as [o r]. cbn [fst] in *.
      intros t [Hi|Hi]; [discriminate Hi | exact (Hv t Hi)].
    - match goal with |- context [flush hz ?s1] => pose proof (flush_nohang hz s1) as Hf; destruct (flush hz s1) as [[o1 s2] []] end;
        cbn [fst] in *; (apply nohang_app; [nh_list | exact Hf]).
  Qed.

  Lemma rf3_nohang loc hz : forall f s, nohang (fst (rf3 f (Some loc) hz s)).
  Proof.
    induction f as [|f IH]; intros s; [apply nohang_nil|].
    rewrite read_frame3_f_S. cbv zeta.
    destruct (hfirst hz (c2 s)); [apply nohang_nil|].
    destruct (tfirst (c2 s)).
    - pose proof (tick3_nohang loc hz s (Z.max (b_dl (c2 s)) (b_now (c2 s)))) as Ht.
      destruct (tick3 e encf loclat loc hz s (Z.max (b_dl (c2 s)) (b_now (c2 s)))) as [o [s'|s'|]]; cbn [fst] in *; try exact Ht.
      specialize (IH s'). destruct (rf3 f (Some loc) hz s') as [o2 r2]. cbn [fst] in *. apply nohang_app; assumption.
    - destruct (b_in (c2 s)) as [|[t b] rest].
      + destruct (eof_events (b_rd (c2 s))) as [|[id body| |] evs]; apply nohang_nil.
      + destruct (feed_byte (cf_max_len cfg) (b_rd (c2 s)) b) as [rd' [|[id body| |] evs]]; try apply nohang_nil. apply IH.
  Qed.

  Lemma conf_frame_end info ka id body oc : conf_frame cfg info ka id body = FEnd oc -> oc <> OHang.
  Proof.
    unfold conf_frame. intros H.
    repeat match type of H with
           | (if ?c then _ else _) = _ => destruct c
           | match ?c with _ => _ end = _ => destruct c
           end; try discriminate H; injection H as <-; discriminate.
  Qed.

  Theorem ka_loop3_never_hangs info loc hz : forall f s,
    (kmeas3 s < f)%nat -> nohang (fst (kl3 f info loc hz s)).
  Proof.
    induction f as [|f IH]; intros s Hf; [lia|].
    cbn [ka_loop3].
    pose proof (rf3_nohang loc hz (fuel3 s) s) as Ho. fold (read_frame3 cfg e encf loclat (Some loc) hz s) in Ho.
    destruct (read_frame3 cfg e encf loclat (Some loc) hz s) as [o [id body s'|s'|fin]] eqn:Hr; cbn [fst] in Ho.
    - unfold read_frame3 in Hr. pose proof (rf3_got _ _ _ _ _ _ _ _ Hr) as Hk.
      cbv zeta. destruct (conf_frame cfg info (b_ka (c2 s')) id body) as [ka''|vs|oc] eqn:Hc.
      + match goal with |- context [kl3 f info loc hz ?s1] =>
          assert (Hk1 : (kmeas3 s1 < f)%nat) by (unfold kmeas3 in *; cbn [set2 c2 upd b_in b_rd]; lia);
          specialize (IH s1 Hk1); destruct (kl3 f info loc hz s1) as [o2 r2] end.
        cbn [fst] in *. apply nohang_app; [exact Ho|]. intros t [Hi|Hi]; [discriminate Hi | exact (IH t Hi)].
      + cbn [fst]. apply nohang_app; [exact Ho | nh_list].
      + pose proof (conf_frame_end _ _ _ _ _ Hc) as Hoc.
        cbn [fst]. apply nohang_app; [exact Ho|]. intros t [Hi|[Hi|[]]]; [discriminate Hi|]. injection Hi as _ ->. exact (Hoc eq_refl).
    - exact Ho.
    - cbn [fst]. apply nohang_app; [exact Ho|]. intros t Hi.
      destruct (read_frame3_hang_genuine _ _ _ _ _ _ Hr Hi) as [Hm _]. discriminate Hm.
  Qed.

  Corollary ka_loop3_never_hangs_exec info loc hz s :
    nohang (fst (kl3 (length (b_in (c2 s)) + 3) info loc hz s)).
  Proof. apply ka_loop3_never_hangs. apply kmeas3_fuel. Qed.

  (* ================= F4: M3 with every fuel expression increased by k ================= *)
  Section Plus.
    Variable k : nat.

    Definition flush_plus (hz : option Z) (s : st3) : list oev * st3 * fl :=
      flush_f (2 * length (c_sch s) + 3 + k) hz s.

    Definition verdict_plus (loc : option bytes) (hz : option Z) (s : st3) : list oev * tres :=
      let finish (pre : list oev) (s1 : st3) :=
        match flush_plus hz s1 with
        | (o, s2, FlDone) => (pre ++ o ++ [OT (now3 s2, TEnd (OErr KMissedKA))], TkEnd)
        | (o, s2, FlCut) => (pre ++ o, TkCut s2)
        | (o, _, FlHang) => (pre ++ o, TkEnd)
        end in
      match c_missed s with
      | MQueued => finish [] s
      | _ =>
          let c := CLocalize loc key_timeout in
          let now := now3 s in
          let cut := match hz with Some h => (0 <? loclat) && (h <=? now + loclat) | None => false end in
          if cut then
            ([OA now c], TkCut (at_time (set_missed s MDecided) (match hz with Some h => Z.max h now | None => now end)))
          else
            let t := now + Z.max loclat 0 in
            match fst (e_res e c) with
            | RText msg =>
                let s1 := enqueue (at_time (set_missed s MQueued) t) (frame_bytes encf configuration_cb_DisconnectPacket [VB msg]) in
                finish [OT (now, TCall c); OT (t, TRes c (RText msg));
                        OT (t, TSend configuration_cb_DisconnectPacket [VB msg])] s1
            | r => ([OT (now, TCall c); OT (t, TRes c r); OT (t, TEnd (OErr KAdapter))], TkEnd)
            end
      end.

    Definition tick3_plus (loc : option bytes) (hz : option Z) (s : st3) (tt : Z) : list oev * tres :=
      let x := c2 s in
      match b_ka x with
      | Some _ =>
          let (o, r) := verdict_plus loc hz (set_missed (at_time s tt) MDecided) in
          (OT (tt, TTick) :: o, r)
      | None =>
          let idb := e_fresh e RKeepAlive (b_nka x) in
          let s1 := enqueue (set2 s (upd x tt (fire (b_dl x) tt) (Some (be_dec idb)) (b_in x) (S (b_nka x)) (b_rd x)))
                            (frame_bytes encf configuration_cb_KeepAlivePacket [VZ (be_dec idb)]) in
          let pre := [OT (tt, TTick); OT (tt, TFresh RKeepAlive idb);
                      OT (tt, TSend configuration_cb_KeepAlivePacket [VZ (be_dec idb)])] in
          match flush_plus hz s1 with
          | (o, s2, FlDone) => (pre ++ o, TkCont s2)
          | (o, s2, FlCut) => (pre ++ o, TkCut s2)
          | (o, _, FlHang) => (pre ++ o, TkEnd)
          end
      end.

    Fixpoint read_frame3_f_plus (fuel : nat) (m : kamode) (hz : option Z) (s : st3) : list oev * rres3 :=
      match fuel with
      | O => ([], R3End [OT (now3 s, TEnd OHang)])
      | S f =>
          let x := c2 s in
          let tin := match b_in x, b_eof x with
                     | (t, _) :: _, _ => Some (Z.max t (b_now x))
                     | [], Some te => Some (Z.max te (b_now x))
                     | [], None => None
                     end in
          let tt := Z.max (b_dl x) (b_now x) in
          let horizon_first :=
            match hz with
            | Some h => (match tin with Some t => h <=? t | None => true end) && (h <=? tt)
            | None => false
            end in
          let tick_first := match tin with Some t => tt <=? t | None => true end in
          if horizon_first then
            ([], match hz with
                 | Some h => R3Cut (at_time s (Z.max h (b_now x)))
                 | None => R3Cut s end)
          else if tick_first then
            match m with
            | None =>
                match tin with
                | None => ([], R3End [OT (b_now x, TEnd OHang)])
                | Some t => read_frame3_f_plus f m hz (set2 s (upd x (b_now x) (skip_ticks (b_dl x) (b_now x) t) (b_ka x) (b_in x) (b_nka x) (b_rd x)))
                end
            | Some loc =>
                match tick3_plus loc hz s tt with
                | (o, TkEnd) => (o, R3End [])
                | (o, TkCut s') => (o, R3Cut s')
                | (o, TkCont s') => let (o2, r) := read_frame3_f_plus f m hz s' in (o ++ o2, r)
                end
            end
          else
            match b_in x with
            | (t, b) :: rest =>
                let t' := Z.max t (b_now x) in
                match feed_byte (cf_max_len cfg) (b_rd x) b with
                | (rd', []) => read_frame3_f_plus f m hz (set2 s (upd x t' (b_dl x) (b_ka x) rest (b_nka x) rd'))
                | (rd', EvFrame id body :: _) => ([], R3Got id body (set2 s (upd x t' (b_dl x) (b_ka x) rest (b_nka x) rd')))
                | (_, EvBadLen :: _) => ([], R3End [OT (t', TEnd (OErr KIllegalLen))])
                | (_, EvBadId :: _) => ([], R3End [OT (t', TEnd (OErr KClosed))])
                end
            | [] =>
                let t' := match b_eof x with Some te => Z.max te (b_now x) | None => b_now x end in
                match eof_events (b_rd x) with
                | EvFrame id body :: _ => ([], R3Got id body (set2 s (upd x t' (b_dl x) (b_ka x) [] (b_nka x) RIdle)))
                | _ => ([], R3End [OT (t', TEnd (OErr KClosed))])
                end
            end
      end.

    Definition read_frame3_plus (m : kamode) (hz : option Z) (s : st3) : list oev * rres3 :=
      read_frame3_f_plus (fuel3 s + k) m hz s.

    Fixpoint ka_loop3_plus (fuel : nat) (info : bool) (loc : option bytes) (hz : option Z) (s : st3)
      : list oev * (list fv * st3 + st3 + unit) :=
      match fuel with
      | O => ([OT (now3 s, TEnd OHang)], inr tt)
      | S f =>
          match read_frame3_plus (Some loc) hz s with
          | (o, R3End fin) => (o ++ fin, inr tt)
          | (o, R3Cut s') => (o, inl (inr s'))
          | (o, R3Got id body s') =>
              let x := c2 s' in
              match conf_frame cfg info (b_ka x) id body with
              | FEnd oc => (o ++ [OT (b_now x, TRecv id body); OT (b_now x, TEnd oc)], inr tt)
              | FInfo vs => (o ++ [OT (b_now x, TRecv id body)], inl (inl (vs, s')))
              | FCont ka'' =>
                  let (o2, r) := ka_loop3_plus f info loc hz (set2 s' (upd x (b_now x) (b_dl x) ka'' (b_in x) (b_nka x) (b_rd x))) in
                  (o ++ OT (b_now x, TRecv id body) :: o2, r)
              end
          end
      end.

    Fixpoint exec3_plus (p : prog) (s : st3) {struct p} : list oev :=
      let x := c2 s in
      match p with
      | Ret o => [OT (b_now x, TEnd o)]
      | Expect kk =>
          match read_frame3_plus None None s with
          | (o, R3End fin) => o ++ fin
          | (o, R3Cut s') => o ++ [OT (now3 s', TEnd OHang)]
          | (o, R3Got id body s') =>
              if negb (len_ok cfg id body) then o ++ [OT (now3 s', TRecv id body); OT (now3 s', TEnd (OErr KIllegalLen))]
              else o ++ OT (now3 s', TRecv id body) :: exec3_plus (kk id body) s'
          end
      | WaitInfo loc kk =>
          match ka_loop3_plus (length (b_in x) + 3 + k) true loc None s with
          | (o, inl (inl (vs, s'))) => o ++ exec3_plus (kk vs) s'
          | (o, inl (inr s')) => o ++ [OT (now3 s', TEnd OHang)]
          | (o, inr _) => o
          end
      | Race loc c kk =>
          let (r, lat) := e_res e c in
          let h := b_now x + Z.max lat 1 in
          match ka_loop3_plus (length (b_in x) + 3 + k) false loc (Some h) s with
          | (o, inl (inr s')) =>
              match c_missed s' with
              | MNo => (OT (b_now x, TCall c) :: o) ++ OT (h, TRes c r) :: exec3_plus (kk r) s'
              | _ =>
                  match r with
                  | RErr => (OT (b_now x, TCall c) :: o) ++ [OT (h, TEnd (OErr KAdapter))]
                  | _ => (OT (b_now x, TCall c) :: o) ++ fst (verdict_plus loc None s')
                  end
              end
          | (o, inl (inl _)) => OT (b_now x, TCall c) :: o
          | (o, inr _) => OT (b_now x, TCall c) :: o
          end
      | Call c kk =>
          let (r, lat) := e_res e c in
          let t := b_now x + Z.max lat 0 in
          OT (b_now x, TCall c) :: OT (t, TRes c r) :: exec3_plus (kk r) (at_time s t)
      | Send pk vs kk =>
          match flush_plus None (enqueue s (frame_bytes encf pk vs)) with
          | (o, s', FlDone) => OT (b_now x, TSend pk vs) :: o ++ exec3_plus kk s'
          | (o, _, _) => OT (b_now x, TSend pk vs) :: o
          end
      | EncOn ss kk => OT (b_now x, TEnc ss) :: exec3_plus kk s
      | Fresh w kk =>
          match w with
          | RKeepAlive => let v := e_fresh e w (b_nka x) in OT (b_now x, TFresh w v) :: exec3_plus (kk v) s
          | _ => let v := e_fresh e w 0%nat in OT (b_now x, TFresh w v) :: exec3_plus (kk v) s
          end
      | Now kk =>
          let n := e_now e (b_nnow x) in
          OT (b_now x, TNow n) :: exec3_plus (kk n) (set2 s {| b_now := b_now x; b_dl := b_dl x; b_ka := b_ka x; b_in := b_in x;
                                                              b_eof := b_eof x; b_nka := b_nka x; b_nnow := S (b_nnow x); b_rd := b_rd x |})
      end.

    Lemma flush_plus_eq hz s : flush_plus hz s = flush hz s.
    Proof. unfold flush_plus. apply flush_fuel_flush. lia. Qed.

    Lemma verdict_plus_eq loc hz s : verdict_plus loc hz s = verdict e encf loclat loc hz s.
    Proof.
      unfold verdict_plus, verdict. cbv zeta.
      destruct (c_missed s); rewrite ?flush_plus_eq; try reflexivity;
        (destruct (match hz with Some h => (0 <? loclat) && (h <=? now3 s + loclat) | None => false end); [reflexivity|]);
        destruct (fst (e_res e (CLocalize loc key_timeout))); rewrite ?flush_plus_eq; reflexivity.
    Qed.

    Lemma tick3_plus_eq loc hz s tt : tick3_plus loc hz s tt = tick3 e encf loclat loc hz s tt.
    Proof.
      unfold tick3_plus, tick3. cbv zeta. destruct (b_ka (c2 s)); [rewrite verdict_plus_eq | rewrite flush_plus_eq]; reflexivity.
    Qed.

    (* both sides have the same shape: rewrite what is closed, then split on the head *)
    Ltac same_shape IH :=
      repeat (first
        [ reflexivity
        | progress rewrite ?flush_plus_eq, ?verdict_plus_eq, ?tick3_plus_eq
        | progress rewrite ?IH
        | match goal with
          | |- match ?c with _ => _ end = _ => destruct c
          end ]).

    Lemma read_frame3_f_plus_eq : forall fuel m hz s, read_frame3_f_plus fuel m hz s = rf3 fuel m hz s.
    Proof.
      induction fuel as [|f IH]; intros m hz s; [reflexivity|].
      cbn [read_frame3_f_plus read_frame3_f]. cbv zeta. same_shape IH.
    Qed.

    Lemma read_frame3_plus_eq m hz s : read_frame3_plus m hz s = read_frame3 cfg e encf loclat m hz s.
    Proof. unfold read_frame3_plus. rewrite read_frame3_f_plus_eq. apply read_frame3_fuel. lia. Qed.

    Lemma ka_loop3_plus_eq info loc hz : forall fuel s, ka_loop3_plus fuel info loc hz s = kl3 fuel info loc hz s.
    Proof.
      induction fuel as [|f IH]; intros s; [reflexivity|].
      cbn [ka_loop3_plus ka_loop3]. cbv zeta. rewrite read_frame3_plus_eq. same_shape IH.
    Qed.

    Lemma ka_loop3_plus_exact info loc hz s :
      ka_loop3_plus (length (b_in (c2 s)) + 3 + k) info loc hz s = kl3 (length (b_in (c2 s)) + 3) info loc hz s.
    Proof. rewrite ka_loop3_plus_eq. apply ka_loop3_fuel_mono. lia. Qed.

    (* F4: no fuel expression of exec3 is ever exhausted - more fuel changes nothing *)
    Theorem exec3_plus_eq : forall p s, exec3_plus p s = exec3 cfg e encf loclat p s.
    Proof.
      induction p as [o|kk IH|loc kk IH|loc c kk IH|c kk IH|pk vs kk IH|ss kk IH|w kk IH|kk IH]; intros s;
        cbn [exec3_plus exec3]; cbv zeta; rewrite ?read_frame3_plus_eq, ?ka_loop3_plus_exact, ?flush_plus_eq.
      - reflexivity.
      - same_shape IH.
      - same_shape IH.
      - destruct (e_res e c) as [r lat]. rewrite ka_loop3_plus_exact. same_shape IH.
      - same_shape IH.
      - same_shape IH.
      - same_shape IH.
      - same_shape IH.
      - same_shape IH.
    Qed.
  End Plus.
End Fuel.

Print Assumptions flush_fuel_mono.
Print Assumptions flush_hang_genuine.
Print Assumptions read_frame3_fuel_mono.
Print Assumptions read_frame3_hang_genuine.
Print Assumptions ka_loop3_fuel_mono.
Print Assumptions ka_loop3_never_hangs.

(* the need of flush, 2 |c_sch| + 2, is attained (the definition gives one unit more): with one unit
   less than the need the exhausted-fuel branch reports a hang that is none *)
Definition ex_fuel_st : st3 :=
  {| c2 := {| b_now := 0; b_dl := 0; b_ka := None; b_in := []; b_eof := None; b_nka := 0; b_nnow := 0; b_rd := RIdle |};
     c_unsent := [1; 2]; c_cap := Some 1; c_sch := [(10, Some 1)]; c_missed := MNo |}.
Example flush_need_attained :
  snd (flush_f 3 None ex_fuel_st) = FlHang /\ snd (flush_f 4 None ex_fuel_st) = FlDone /\ snd (flush None ex_fuel_st) = FlDone.
Proof. vm_compute. repeat split. Qed.

(* F4, closed form *)
Theorem M3_no_spurious_hang cfg e encf loclat :
  forall k p s, exec3_plus cfg e encf loclat k p s = exec3 cfg e encf loclat p s.
Proof. intros k p s. apply exec3_plus_eq. Qed.

Corollary run3_no_spurious_hang o cfg e encf loclat cap sch inp k :
  exec3_plus cfg e encf loclat k (listen o cfg) (init3 inp cap sch) = run3 o cfg e encf loclat cap sch inp.
Proof. apply M3_no_spurious_hang. Qed.

Print Assumptions M3_no_spurious_hang.
