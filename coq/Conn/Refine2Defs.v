(* C08, refinement M2 -> M1: the byte-level semantics (Conn/Sem2.v, receive_packet after the
   repair: the frame being received lives in the connection) equals the frame-level semantics
   (Conn/Sem1.v) applied to the reader's output, for every schedule whose byte times do not
   decrease inside a frame.  Definitions only (the abstraction function, the decidable
   side condition, concrete schedules evaluated by the kernel). *)
From Passage Require Import Lib.Bytes Codec.VarInt Codec.Desc Gen.PacketsGen Conn.Types Conn.Prog Conn.Sem1 Conn.Reader Conn.Sem2
  Conn.Sem2Witness.

(* the reader's frame-level output for a timed byte stream, from reader state [st]: every
   event carries the arrival time of the byte that completes it *)
Fixpoint stream_frames (max : Z) (st : rst) (l : bstream) (eof : option Z) : inbox :=
  match l with
  | [] => match eof with
          | Some t => map (ev_in t) (eof_events st) ++ [(t, IEof)]
          | None => []
          end
  | (t, b) :: r =>
      let (st', evs) := feed_byte max st b in
      map (ev_in t) evs ++ stream_frames max st' r eof
  end.

(* the frame-level state seen through the reader: the inbox is what the reader will still
   produce from the frame in progress ([b_rd]) and the bytes not yet consumed *)
Definition abs (max : Z) (s : st2) : st1 :=
  {| s_now := b_now s; s_dl := b_dl s; s_ka := b_ka s;
     s_in := stream_frames max (b_rd s) (b_in s) (b_eof s);
     s_nka := b_nka s; s_nnow := b_nnow s |}.

(* ---- the side condition: byte times do not decrease INSIDE a frame ----
   [fsorted max st tp l eof]: reader state [st]; [tp] = arrival time of the latest byte of
   the frame in progress that is still to be compared (None at a frame boundary); the times
   of the bytes of each frame of [l] are non-decreasing, the end of stream does not precede
   the bytes of a frame it cuts short; nothing is required after a framing error (nothing is
   read after it), nor between frames. *)
Fixpoint fsorted (max : Z) (st : rst) (tp : option Z) (l : bstream) (eof : option Z) : bool :=
  match l with
  | [] => match tp, eof with Some p, Some te => p <=? te | _, _ => true end
  | (t, b) :: r =>
      (match tp with Some p => p <=? t | None => true end) &&
      match feed_byte max st b with
      | (st', []) => fsorted max st' (Some t) r eof
      | (st', EvFrame _ _ :: _) => fsorted max st' None r eof
      | (_, _) => true
      end
  end.

Definition frame_sorted (max : Z) (s : segs) : bool :=
  let (l, eo) := bytes_of_segs s in fsorted max RIdle None l eo.

(* the usual, stronger condition: non-decreasing segment times *)
Fixpoint sorted_from (t0 : Z) (s : segs) : bool :=
  match s with
  | [] => true
  | (t, _) :: r => (t0 <=? t) && sorted_from t r
  end.
Definition sorted (s : segs) : bool := match s with [] => true | (t, _) :: _ => sorted_from t s end.

(* what the handler's clock makes of a schedule: every segment is stamped with the running
   maximum of the arrival times so far (the clock starts at 0); segments without bytes carry no
   information and are dropped.  [mono s] is sorted; it is [s] itself when [s] is sorted, starts at
   a time >= 0 and has no empty segment. *)
Fixpoint mono_from (t0 : Z) (s : segs) : segs :=
  match s with
  | [] => []
  | (t, Some []) :: r => mono_from t0 r
  | (t, x) :: r => (Z.max t t0, x) :: mono_from (Z.max t t0) r
  end.
Definition mono (s : segs) : segs := mono_from 0 s.

(* the same on timed byte streams *)
Fixpoint bclamp (B : Z) (l : bstream) : bstream :=
  match l with
  | [] => []
  | (t, b) :: r => (Z.max t B, b) :: bclamp (Z.max t B) r
  end.
Fixpoint blast (B : Z) (l : bstream) : Z :=
  match l with
  | [] => B
  | (t, _) :: r => blast (Z.max t B) r
  end.
Definition clamp_st (B : Z) (s : st2) : st2 :=
  {| b_now := b_now s; b_dl := b_dl s; b_ka := b_ka s; b_in := bclamp B (b_in s);
     b_eof := option_map (fun te => Z.max te (blast B (b_in s))) (b_eof s);
     b_nka := b_nka s; b_nnow := b_nnow s; b_rd := b_rd s |}.

(* the TRecv events of a trace, in order *)
Fixpoint recvs (tr : trace) : list (Z * bytes) :=
  match tr with
  | [] => []
  | (_, TRecv id body) :: r => (id, body) :: recvs r
  | _ :: r => recvs r
  end.
Fixpoint in_frames (ib : inbox) : list (Z * bytes) :=
  match ib with
  | [] => []
  | (_, IFrame id body) :: r => (id, body) :: in_frames r
  | _ :: r => in_frames r
  end.
Fixpoint is_prefix (a b : list (Z * bytes)) : Prop :=
  match a, b with
  | [], _ => True
  | x :: a', y :: b' => x = y /\ is_prefix a' b'
  | _ :: _, [] => False
  end.

(* cut every data segment after its first n bytes, the tail arriving d ms later *)
Definition split_seg (n : nat) (d : Z) (x : Z * option bytes) : segs :=
  match x with
  | (t, Some bs) => [(t, Some (firstn n bs)); (t + d, Some (skipn n bs))]
  | _ => [x]
  end.
Definition splitall (n : nat) (d : Z) (s : segs) : segs := flat_map (split_seg n d) s.

(* one byte per segment, d ms apart *)
Definition drip_seg (d : Z) (x : Z * option bytes) : segs :=
  match x with
  | (t, Some bs) => map (fun ib => (t + d * Z.of_nat (fst ib), Some [snd ib])) (combine (seq 0 (length bs)) bs)
  | _ => [x]
  end.
Definition drip (d : Z) (s : segs) : segs := flat_map (drip_seg d) s.


(* ---- the second side condition: the stream does not stop in the middle of a frame without
   an end of stream.  (Then a handler waiting without keep-alive hangs for ever; the byte-level
   model stamps that hang with the arrival of the last byte consumed, the frame-level model
   with the previous frame - the only difference between the two.) *)
Definition closed (max : Z) (st : rst) (l : bstream) (eof : option Z) : bool :=
  match eof with
  | Some _ => true
  | None => match fst (feed max st (map snd l)) with RIdle | RDead => true | _ => false end
  end.
Definition ends_clean (max : Z) (s : segs) : bool :=
  let (l, eo) := bytes_of_segs s in closed max RIdle l eo.

(* forget the instant of a hang (the end "nothing more will ever happen") *)
Definition unhang1 (x : timed) : timed :=
  match x with (_, TEnd OHang) => (0, TEnd OHang) | _ => x end.
Definition unhang (tr : trace) : trace := map unhang1 tr.

(* does the run end in a hang? *)
Definition hangs (tr : trace) : bool :=
  existsb (fun x => match snd x with TEnd OHang => true | _ => false end) tr.

(* ---- concrete schedules (toy world of Conn/Sem2Witness.v), evaluated by the kernel ---- *)

(* the schedules that broke the handler before the repair (classes K1 / K4 of C08) now give the
   frame-level behaviour: K1 (discovery completes between the two halves of a Keep Alive echo)
   ends in a Transfer; K4-deferral (a frame header, then silence) is timed out by the keep-alive;
   K4-prefix (a tick between the two bytes of a length prefix) loses nothing *)
Example repaired_classes_refine :
  run2 w_o w_cfg w_e k1_split = run1 w_o w_cfg w_e (frames_of (cf_max_len w_cfg) k1_split)
  /\ run2 w_o w_cfg w_e k4_header = run1 w_o w_cfg w_e (frames_of (cf_max_len w_cfg) k4_header)
  /\ run2 w_o w_cfg w_e k4_prefix_split = run1 w_o w_cfg w_e (frames_of (cf_max_len w_cfg) k4_prefix_split)
  /\ last_end (run2 w_o w_cfg w_e k1_split) = Some OOk
  /\ sent_ids (run2 w_o w_cfg w_e k1_split) = [5; 1; 2; 10; 11]
  /\ last_end (run2 w_o w_cfg w_e k4_header) = Some (OErr KMissedKA)
  /\ sent_ids (run2 w_o w_cfg w_e k4_header) = [5; 1; 2; 4; 2]
  /\ sent_ids (run2 w_o w_cfg w_e k4_prefix_split) = [0].
Proof. vm_compute. repeat split; reflexivity. Qed.

(* they satisfy the side conditions of the theorem (k4_header stops inside a frame, but its run
   does not hang: the keep-alive times the client out) *)
Example repaired_classes_conditions :
  map (fun s => (frame_sorted (cf_max_len w_cfg) s, ends_clean (cf_max_len w_cfg) s,
                 hangs (run1 w_o w_cfg w_e (frames_of (cf_max_len w_cfg) s))))
      [k1_split; k4_header; k4_prefix_split]
  = [(true, true, false); (true, false, false); (true, true, false)].
Proof. vm_compute. reflexivity. Qed.

(* a keep-alive tick (16000 ms) inside the Client Information frame, the completion of the raced
   selection (17350) inside a Keep Alive echo that never completes: Transfer *)
Definition tick_inside_frame : segs :=
  w_login ++ [(1001, Some (firstn 3 w_info)); (17000, Some (skipn 3 w_info)); (17100, Some (firstn 5 w_echo)); (40000, None)].
Example tick_inside_frame_ok :
  frame_sorted (cf_max_len w_cfg) tick_inside_frame = true /\ ends_clean (cf_max_len w_cfg) tick_inside_frame = true
  /\ run2 w_o w_cfg w_e tick_inside_frame = run1 w_o w_cfg w_e (frames_of (cf_max_len w_cfg) tick_inside_frame)
  /\ last_end (run2 w_o w_cfg w_e tick_inside_frame) = Some OOk
  /\ sent_ids (run2 w_o w_cfg w_e tick_inside_frame) = [5; 1; 2; 4; 10; 11].
Proof. vm_compute. repeat split; reflexivity. Qed.

(* every byte of the login in its own segment, 1600 ms apart (ticks and completions everywhere) *)
Example drip_ok :
  frame_sorted (cf_max_len w_cfg) (drip 1600 k1_whole) = true /\ ends_clean (cf_max_len w_cfg) (drip 1600 k1_whole) = true
  /\ run2 w_o w_cfg w_e (drip 1600 k1_whole) = run1 w_o w_cfg w_e (frames_of (cf_max_len w_cfg) (drip 1600 k1_whole)).
Proof. vm_compute. repeat split; reflexivity. Qed.

(* times may decrease BETWEEN frames (a segment stamped 5 after 17000): frame-sorted, not sorted *)
Definition glued_unsorted : segs :=
  w_login ++ [(10, Some w_echo); (17000, Some (mkframe 4 [0; 0; 0; 0; 0; 0; 0; 1] ++ w_info)); (5, Some w_echo);
              (17200, Some w_echo); (17350, None)].
Example glued_unsorted_ok :
  frame_sorted (cf_max_len w_cfg) glued_unsorted = true /\ sorted glued_unsorted = false
  /\ ends_clean (cf_max_len w_cfg) glued_unsorted = true
  /\ run2 w_o w_cfg w_e glued_unsorted = run1 w_o w_cfg w_e (frames_of (cf_max_len w_cfg) glued_unsorted)
  /\ last_end (run2 w_o w_cfg w_e glued_unsorted) = Some OOk.
Proof. vm_compute. repeat split; reflexivity. Qed.

(* ---- neither side condition can be dropped ---- *)

(* times that decrease inside a frame (first byte stamped 30, second 25): the byte-level handler's
   clock is at 30 when the frame is complete, the reader's output says 25 *)
Definition unsorted_in_frame : segs := firstn 4 w_login ++ [(30, Some [1]); (25, Some [3])].
Example unsorted_in_frame_differs :
  frame_sorted (cf_max_len w_cfg) unsorted_in_frame = false /\ ends_clean (cf_max_len w_cfg) unsorted_in_frame = true
  /\ map fst (run2 w_o w_cfg w_e unsorted_in_frame)
     <> map fst (run1 w_o w_cfg w_e (frames_of (cf_max_len w_cfg) unsorted_in_frame))
  /\ unhang (run2 w_o w_cfg w_e unsorted_in_frame)
     <> unhang (run1 w_o w_cfg w_e (frames_of (cf_max_len w_cfg) unsorted_in_frame)).
Proof.
  split; [vm_compute; reflexivity|]. split; [vm_compute; reflexivity|].
  split; vm_compute; intros H; discriminate H.
Qed.

(* a stream that stops inside a frame (two bytes, 16 s apart, of a Cookie Response that never
   completes) while the handler waits without keep-alive: both models hang for ever; the byte level
   stamps the hang with the last byte consumed (17000), the frame level with the last frame (3) *)
Definition stops_in_frame : segs := firstn 2 w_login ++ [(1001, Some [5]); (17000, Some [1])].
Example stops_in_frame_differs :
  frame_sorted (cf_max_len w_cfg) stops_in_frame = true /\ ends_clean (cf_max_len w_cfg) stops_in_frame = false
  /\ last (run2 w_o w_cfg w_e stops_in_frame) (0, TTick) = (17000, TEnd OHang)
  /\ last (run1 w_o w_cfg w_e (frames_of (cf_max_len w_cfg) stops_in_frame)) (0, TTick) = (3, TEnd OHang)
  /\ unhang (run2 w_o w_cfg w_e stops_in_frame) = unhang (run1 w_o w_cfg w_e (frames_of (cf_max_len w_cfg) stops_in_frame)).
Proof. vm_compute. repeat split; reflexivity. Qed.

(* ---- no condition on the times: [mono] ---- *)

(* on the schedule with decreasing times inside a frame the byte-level run is the frame-level run
   of the monotone version (frame stamped 30); the monotone version of a sorted schedule that
   starts at a time >= 0 is the schedule itself *)
Example mono_unsorted_in_frame :
  mono unsorted_in_frame = firstn 4 w_login ++ [(30, Some [1]); (30, Some [3])]
  /\ run2 w_o w_cfg w_e unsorted_in_frame = run1 w_o w_cfg w_e (frames_of (cf_max_len w_cfg) (mono unsorted_in_frame))
  /\ mono k1_split = k1_split /\ mono glued_unsorted <> glued_unsorted.
Proof.
  split; [vm_compute; reflexivity|]. split; [vm_compute; reflexivity|]. split; [vm_compute; reflexivity|].
  vm_compute. intros H. discriminate H.
Qed.

(* a segment without bytes stamped in the future of the following ones is invisible to the handler *)
Definition empty_ahead : segs := firstn 4 w_login ++ [(500, Some []); (20, Some (pframe login_sb_LoginAcknowledgedPacket [])); (1001, Some w_info); (1203, Some w_echo)].
Example empty_ahead_ok :
  run2 w_o w_cfg w_e empty_ahead = run1 w_o w_cfg w_e (frames_of (cf_max_len w_cfg) (mono empty_ahead))
  /\ run2 w_o w_cfg w_e empty_ahead = run2 w_o w_cfg w_e k1_whole.
Proof. vm_compute. split; reflexivity. Qed.
