(* Soundness of [safe]: if the static walk succeeds, the monitor accepts every M1 trace of
   the program - for every configuration, environment, inbox and timing. *)
From Passage Require Import Lib.Bytes Codec.VarInt Codec.Desc Codec.NoPanic Gen.PacketsGen Gen.ConstsGen
  Codec.PacketCheck Conn.Types Conn.Prog Conn.Sem1 Conn.Monitor.

Lemma err_kind_not_panic e : e <> EPanic -> err_kind e <> KPanic.
Proof. destruct e; cbn; congruence. Qed.

Lemma conf_frame_end cfg info ka id body o :
  conf_frame cfg info ka id body = FEnd o -> o <> OOk /\ o <> OErr KPanic.
Proof.
  unfold conf_frame. intros H.
  assert (Hd : forall ds er, dec vi vl ds body = Er er -> OErr (err_kind er) <> OErr KPanic).
  { intros ds er Hdec Heq. inversion Heq as [Hk]. apply (err_kind_not_panic er); [|exact Hk].
    intro; subst er. exact (dec_no_panic vi vl ds body Hdec). }
  repeat match type of H with
         | (if ?c then _ else _) = _ => destruct c
         | match dec vi vl ?ds body with _ => _ end = _ =>
             let E := fresh "E" in destruct (dec vi vl ds body) eqn:E
         | match ?x with _ => _ end = _ => destruct x
         end; try discriminate;
  inversion H; subst; split; try discriminate; eauto.
Qed.

Section Sound.
  Variable S : Type.
  Variable step : S -> tev -> option S.
  Variable cfg : conn_cfg.
  Variable e : env.

  Local Notation run := (run step).
  Local Notation ok := (ok step).

  Lemma run_app st a b :
    run st (a ++ b) = match run st a with Some st' => run st' b | None => None end.
  Proof.
    revert st; induction a as [|x a IH]; intros st; cbn [app Monitor.run]; [reflexivity|].
    destruct (step st x); [apply IH | reflexivity].
  Qed.

  Lemma untime_app a b : untime (a ++ b) = untime a ++ untime b.
  Proof. apply map_app. Qed.

  Lemma ok_of_some st tr st' : run st tr = Some st' -> ok st tr.
  Proof. unfold Monitor.ok; intros ->; discriminate. Qed.

  Lemma ok_app_some st a b : run st a = Some st -> ok st b -> ok st (a ++ b).
  Proof. unfold Monitor.ok. intros Ha Hb. rewrite run_app, Ha. exact Hb. Qed.

  Lemma run_internal info st tr :
    forall loc, ka_inv step info loc st -> forallb (internal info) tr = true -> run st tr = Some st.
  Proof.
    intros loc [Hi _]. induction tr as [|x tr IH]; cbn [forallb Monitor.run]; [reflexivity|].
    intros H. apply andb_true_iff in H as [H1 H2]. rewrite (Hi x H1). auto.
  Qed.

  Lemma tick_at_ok info st loc tt dl ka nka :
    ka_inv step info loc st ->
    match tick_at e loc tt dl ka nka with
    | (tr, None) => ok st (untime tr)
    | (tr, Some _) => run st (untime tr) = Some st
    end.
  Proof.
    intros Hinv. unfold tick_at. destruct ka as [x|].
    - destruct Hinv as (_ & _ & Hto). specialize (Hto (fst (e_res e (CLocalize loc key_timeout)))).
      cbv zeta in Hto. destruct (fst (e_res e (CLocalize loc key_timeout))); cbn [untime map snd] in *; exact Hto.
    - cbn [untime map snd].
      apply (run_internal info _ _ loc); [exact Hinv|]. cbn. reflexivity.
  Qed.

  Lemma ticks_until_ok info st loc now dl ka nka t :
    ka_inv step info loc st ->
    match ticks_until e loc now dl ka nka t with
    | (tr, None) => ok st (untime tr)
    | (tr, Some _) => run st (untime tr) = Some st
    end.
  Proof.
    intros Hinv. unfold ticks_until.
    destruct (t <? dl); [reflexivity|].
    pose proof (tick_at_ok info st loc (Z.max dl now) dl ka nka Hinv) as H1.
    destruct (tick_at e loc (Z.max dl now) dl ka nka) as [tr1 [[[dl1 ka1] nka1]|]]; [|exact H1].
    destruct (t <? dl1); [exact H1|].
    pose proof (tick_at_ok info st loc dl1 dl1 ka1 nka1 Hinv) as H2.
    destruct (tick_at e loc dl1 dl1 ka1 nka1) as [tr2 [x|]]; rewrite untime_app.
    - rewrite run_app, H1. exact H2.
    - apply ok_app_some; assumption.
  Qed.

  Lemma conf_frame_info info ka id body vs :
    conf_frame cfg info ka id body = FInfo vs ->
    info = true /\ id = ci_id /\ exists rest, dec vi vl (rkinds configuration_sb_ClientInformationPacket) body = Ok vs rest.
  Proof.
    unfold conf_frame. destruct (negb (len_ok cfg id body)); [discriminate|].
    destruct (id =? p_id configuration_sb_KeepAlivePacket).
    { destruct (dec vi vl (rkinds configuration_sb_KeepAlivePacket) body) as [[|[] []] ?|]; discriminate. }
    destruct (Z.eqb_spec id (p_id configuration_sb_ClientInformationPacket)) as [->|Hn].
    { destruct (dec vi vl (rkinds configuration_sb_ClientInformationPacket) body) as [vs' rst|]; [|discriminate].
      destruct info; [|discriminate]. intros H; inversion H; subst. split; [reflexivity|]. split; [reflexivity|]. exists rst. reflexivity. }
    destruct ((id =? p_id configuration_sb_PluginMessagePacket)
              || (id =? p_id configuration_sb_ResourcePackResponsePacket)
              || (id =? p_id configuration_sb_CookieResponsePacket)); [|discriminate].
    match goal with |- context [dec vi vl ?k body] => destruct (dec vi vl k body) end; discriminate.
  Qed.

  (* what the keep-alive loop contributes to the trace *)
  Lemma ka_loop_ok info loc st :
    ka_inv step info loc st ->
    (info = true -> forall body, exists st', step st (TRecv ci_id body) = Some st' /\ errs_ok step st') ->
    forall hz ib now dl ka nka nnow,
    match ka_loop cfg e info loc hz ib now dl ka nka nnow with
    | (tr, KGot vs s') => info = true /\ exists pre body rest, untime tr = pre ++ [TRecv ci_id body] /\ run st pre = Some st
                           /\ dec vi vl (rkinds configuration_sb_ClientInformationPacket) body = Ok vs rest
    | (tr, KDone s') => run st (untime tr) = Some st
    | (tr, KEnd o) => ok st (untime tr)
    end.
  Proof.
    intros Hinv Hci hz ib. induction ib as [|[t ev] rest IH]; intros now dl ka nka nnow.
    - cbn [ka_loop]. destruct hz as [h|].
      + pose proof (ticks_until_ok info st loc now dl ka nka (h - 1) Hinv) as Ht.
        destruct (ticks_until e loc now dl ka nka (h - 1)) as [tr [[[dl' ka'] nka']|]]; exact Ht.
      + pose proof (ticks_until_ok info st loc now dl ka nka (Z.max now dl + 2 * P) Hinv) as Ht.
        destruct (ticks_until e loc now dl ka nka (Z.max now dl + 2 * P)) as [tr [x|]]; [|exact Ht].
        rewrite untime_app. apply ok_app_some; [exact Ht|].
        cbn. destruct Hinv as (_ & He & _). unfold Monitor.ok. cbn.
        specialize (He OHang). destruct (step st (TEnd OHang)); [discriminate | apply He; discriminate].
    - cbn [ka_loop].
      destruct (match hz with Some h => h <=? Z.max t now | None => false end) eqn:Hb.
      + destruct hz as [h|]; [|discriminate].
        pose proof (ticks_until_ok info st loc now dl ka nka (h - 1) Hinv) as Ht.
        destruct (ticks_until e loc now dl ka nka (h - 1)) as [tr [[[dl' ka'] nka']|]]; exact Ht.
      + pose proof (ticks_until_ok info st loc now dl ka nka (Z.max t now) Hinv) as Ht.
        destruct (ticks_until e loc now dl ka nka (Z.max t now)) as [tr [[[dl' ka'] nka']|]]; [|exact Ht].
        destruct ev as [id body| |].
        * destruct (conf_frame cfg info ka' id body) as [ka''|vs|o] eqn:Hcf.
          -- (* continue *)
             specialize (IH (Z.max t now) dl' ka'' nka' nnow).
             destruct (ka_loop cfg e info loc hz rest (Z.max t now) dl' ka'' nka' nnow) as [tr2 r].
             assert (Hint : internal info (TRecv id body) = true).
             { unfold internal. destruct info; [|reflexivity].
               destruct (Z.eqb_spec id ci_id) as [->|]; [|reflexivity]. exfalso.
               unfold conf_frame in Hcf. destruct (negb (len_ok cfg ci_id body)); [discriminate|].
               unfold ci_id in Hcf.
               destruct (p_id configuration_sb_ClientInformationPacket =? p_id configuration_sb_KeepAlivePacket) eqn:E;
                 [vm_compute in E; discriminate|].
               rewrite Z.eqb_refl in Hcf.
               destruct (dec vi vl (rkinds configuration_sb_ClientInformationPacket) body); discriminate. }
             assert (Hrecv : run st (untime tr ++ [TRecv id body]) = Some st).
             { rewrite run_app, Ht. cbn. destruct Hinv as [Hi _]. rewrite (Hi _ Hint). reflexivity. }
             replace (untime (tr ++ (Z.max t now, TRecv id body) :: tr2))
               with ((untime tr ++ [TRecv id body]) ++ untime tr2)
               by (rewrite untime_app; cbn [untime map snd]; rewrite <- app_assoc; reflexivity).
             destruct r as [vs s'|s'|o].
             ++ destruct IH as (Hinfo & pre & b & rst & Hu & Hp & Hd). split; [exact Hinfo|].
                exists ((untime tr ++ [TRecv id body]) ++ pre), b, rst. split; [|split].
                ** rewrite Hu, app_assoc. reflexivity.
                ** rewrite run_app, Hrecv. exact Hp.
                ** exact Hd.
             ++ rewrite run_app, Hrecv. exact IH.
             ++ unfold Monitor.ok. rewrite run_app, Hrecv. exact IH.
          -- (* client information *)
             destruct (conf_frame_info _ _ _ _ _ Hcf) as (-> & -> & rst & Hd). split; [reflexivity|].
             exists (untime tr), body, rst. split; [rewrite untime_app; reflexivity | split; [exact Ht | exact Hd]].
          -- (* the frame ends the connection *)
             rewrite untime_app. apply ok_app_some; [exact Ht|].
             cbn [untime map snd]. unfold Monitor.ok. cbn [Monitor.run].
             destruct (internal info (TRecv id body)) eqn:Hint.
             ++ destruct Hinv as (Hi & He & _). rewrite (Hi _ Hint).
                destruct (conf_frame_end _ _ _ _ _ _ Hcf) as [H1 H2].
                specialize (He o H1 H2). destruct (step st (TEnd o)); [discriminate | exact He].
             ++ unfold internal in Hint. destruct info; [|discriminate].
                destruct (Z.eqb_spec id ci_id) as [->|]; [|discriminate].
                destruct (Hci eq_refl body) as (st' & Hs & He). rewrite Hs.
                destruct (conf_frame_end _ _ _ _ _ _ Hcf) as [H1 H2].
                specialize (He o H1 H2). destruct (step st' (TEnd o)); [discriminate | exact He].
        * (* end of stream *)
          rewrite untime_app. apply ok_app_some; [exact Ht|].
          cbn. destruct Hinv as (_ & He & _). unfold Monitor.ok. cbn.
          specialize (He (OErr KClosed)). destruct (step st (TEnd (OErr KClosed))); [discriminate | apply He; discriminate].
        * (* refused length *)
          rewrite untime_app. apply ok_app_some; [exact Ht|].
          cbn. destruct Hinv as (_ & He & _). unfold Monitor.ok. cbn.
          specialize (He (OErr KIllegalLen)). destruct (step st (TEnd (OErr KIllegalLen))); [discriminate | apply He; discriminate].
  Qed.

  Theorem safe_sound : forall p st s, safe step st p -> ok st (untime (exec cfg e p s)).
  Proof.
    induction p as [o|k IH|loc k IH|loc c k IH|c k IH|pk vs k IH|ss k IH|w k IH|k IH]; intros st s Hs; cbn [safe exec] in *.
    - (* Ret *) unfold Monitor.ok. cbn. destruct (step st (TEnd o)); [discriminate | exact Hs].
    - (* Expect *)
      destruct Hs as [He Hk].
      destruct (next_frame s) as [[[t ev] s']|].
      + destruct ev as [id body| |].
        * specialize (Hk id body). destruct (step st (TRecv id body)) as [st'|] eqn:Hst; [|contradiction].
          destruct Hk as [He' Hk].
          destruct (negb (len_ok cfg id body)).
          -- unfold Monitor.ok. cbn. rewrite Hst.
             destruct (step st' (TEnd (OErr KIllegalLen))); [discriminate | exact He'].
          -- unfold Monitor.ok. cbn [untime map snd Monitor.run]. rewrite Hst. apply IH. exact Hk.
        * unfold Monitor.ok. cbn. specialize (He (OErr KClosed)).
          destruct (step st (TEnd (OErr KClosed))); [discriminate | apply He; discriminate].
        * unfold Monitor.ok. cbn. specialize (He (OErr KIllegalLen)).
          destruct (step st (TEnd (OErr KIllegalLen))); [discriminate | apply He; discriminate].
      + unfold Monitor.ok. cbn. specialize (He OHang).
        destruct (step st (TEnd OHang)); [discriminate | apply He; discriminate].
    - (* WaitInfo *)
      destruct Hs as [Hinv Hk].
      assert (Hci : true = true -> forall body, exists st', step st (TRecv ci_id body) = Some st' /\ errs_ok step st').
      { intros _ body. specialize (Hk body). destruct (step st (TRecv ci_id body)) as [st'|]; [|contradiction].
        exists st'. split; [reflexivity|]. destruct Hk as [He _]. exact He. }
      pose proof (ka_loop_ok true loc st Hinv Hci None (s_in s) (s_now s) (s_dl s) (s_ka s) (s_nka s) (s_nnow s)) as Hl.
      destruct (ka_loop cfg e true loc None (s_in s) (s_now s) (s_dl s) (s_ka s) (s_nka s) (s_nnow s)) as [tr [vs s'|s'|o]].
      + destruct Hl as (_ & pre & body & rst & Hu & Hp & Hd). rewrite untime_app, Hu.
        unfold Monitor.ok. rewrite !run_app, Hp. cbn [Monitor.run].
        specialize (Hk body). destruct (step st (TRecv ci_id body)) as [st'|]; [|contradiction].
        destruct Hk as [_ Hk]. apply IH. apply (Hk vs rst Hd).
      + rewrite untime_app. apply ok_app_some; [exact Hl|].
        cbn. destruct Hinv as (_ & He & _). unfold Monitor.ok. cbn. specialize (He OHang).
        destruct (step st (TEnd OHang)); [discriminate | apply He; discriminate].
      + exact Hl.
    - (* Race *)
      destruct (e_res e c) as [r lat].
      destruct (step st (TCall c)) as [st1|] eqn:Hc; [|contradiction].
      destruct Hs as [Hinv Hk].
      assert (Hci : false = true -> forall body, exists st', step st1 (TRecv ci_id body) = Some st' /\ errs_ok step st')
        by discriminate.
      pose proof (ka_loop_ok false loc st1 Hinv Hci (Some (s_now s + Z.max lat 1)) (s_in s) (s_now s) (s_dl s) (s_ka s) (s_nka s) (s_nnow s)) as Hl.
      destruct (ka_loop cfg e false loc (Some (s_now s + Z.max lat 1)) (s_in s) (s_now s) (s_dl s) (s_ka s) (s_nka s) (s_nnow s)) as [tr [vs s'|s'|o]].
      + destruct Hl as (Hf & _). discriminate.
      + unfold Monitor.ok. cbn [untime map snd app Monitor.run]. rewrite Hc.
        rewrite map_app. change (map snd tr) with (untime tr). rewrite run_app, Hl.
        cbn [map snd Monitor.run]. specialize (Hk r).
        destruct (step st1 (TRes c r)) as [st2|]; [|contradiction]. apply IH. exact Hk.
      + unfold Monitor.ok. cbn [untime map snd Monitor.run]. rewrite Hc. exact Hl.
    - (* Call *)
      destruct (e_res e c) as [r lat].
      destruct (step st (TCall c)) as [st1|] eqn:Hc; [|contradiction].
      specialize (Hs r). unfold Monitor.ok. cbn [untime map snd Monitor.run]. rewrite Hc.
      destruct (step st1 (TRes c r)) as [st2|]; [|contradiction]. apply IH. exact Hs.
    - (* Send *)
      unfold Monitor.ok. cbn [untime map snd Monitor.run].
      destruct (step st (TSend pk vs)) as [st'|]; [|contradiction]. apply IH. exact Hs.
    - (* EncOn *)
      unfold Monitor.ok. cbn [untime map snd Monitor.run].
      destruct (step st (TEnc ss)) as [st'|]; [|contradiction]. apply IH. exact Hs.
    - (* Fresh *)
      destruct w; unfold Monitor.ok; cbn [untime map snd Monitor.run];
        match goal with |- context [TFresh ?w ?v] => specialize (Hs v); destruct (step st (TFresh w v)); [|contradiction] end;
        apply IH; exact Hs.
    - (* Now *)
      unfold Monitor.ok. cbn [untime map snd Monitor.run].
      specialize (Hs (e_now e (s_nnow s))).
      destruct (step st (TNow (e_now e (s_nnow s)))) as [st'|]; [|contradiction]. apply IH. exact Hs.
  Qed.
End Sound.
