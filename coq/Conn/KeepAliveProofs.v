(* C07: every trace of the keep-alive wait loops satisfies the timed monitor, for every
   inbox, every adapter latency and every environment. *)
From Passage Require Import Lib.Bytes Codec.VarInt Codec.Desc Gen.PacketsGen Gen.ConstsGen
  Codec.PacketCheck Conn.Types Conn.Prog Conn.Sem1 Conn.Monitor Conn.KeepAlive.

Lemma P_gt : 5 < P. Proof. vm_compute. reflexivity. Qed.
Lemma P_val : 15000 <= P <= 20000. Proof. vm_compute. split; discriminate. Qed.

Local Opaque P.

Lemma fire_on_time d : fire d d = d + P.
Proof. unfold fire. destruct (Z.ltb_spec (d + 5) d); [lia | reflexivity]. Qed.

Lemma c07_run_app st a b :
  c07_run st (a ++ b) = match c07_run st a with Some st' => c07_run st' b | None => None end.
Proof.
  revert st; induction a as [|x a IH]; intros st; cbn [app c07_run]; [reflexivity|].
  destruct (c07_step st x); [apply IH | reflexivity].
Qed.

Section KA.
  Variable cfg : conn_cfg.
  Variable e : env.

  (* a tick observed on time *)
  Lemma tick_at_c07 loc tt dl ka nka ref :
    tt <= ref + P ->
    match tick_at e loc tt dl ka nka with
    | (tr, None) => c07_run (ref, ka) tr <> None
    | (tr, Some (dl', ka', nka')) =>
        ka = None /\ dl' = fire dl tt /\ exists id, ka' = Some id /\ c07_run (ref, ka) tr = Some (tt, Some id)
    end.
  Proof.
    intros Ht. unfold tick_at. destruct ka as [x|].
    - destruct (fst (e_res e (CLocalize loc key_timeout))) eqn:Er; cbn;
        destruct (Z.leb_spec tt (ref + P)); try lia; cbn; discriminate.
    - split; [reflexivity|]. split; [reflexivity|].
      exists (be_dec (e_fresh e RKeepAlive nka)). split; [reflexivity|].
      cbn. destruct (Z.leb_spec tt (ref + P)); [reflexivity | lia].
  Qed.

  Lemma ticks_until_c07 loc now dl ka nka t ref :
    ref <= now -> now <= dl -> dl <= ref + P ->
    match ticks_until e loc now dl ka nka t with
    | (tr, None) => c07_run (ref, ka) tr <> None
    | (tr, Some (dl', ka', nka')) =>
        exists ref', c07_run (ref, ka) tr = Some (ref', ka')
                     /\ t < dl' /\ dl <= dl' /\ dl' <= ref' + P /\ ref <= ref' /\ (ref' <= Z.max now t)
    end.
  Proof.
    intros H1 H2 H3. unfold ticks_until.
    destruct (Z.ltb_spec t dl) as [Hlt|Hge].
    - exists ref. cbn. repeat split; try lia.
    - replace (Z.max dl now) with dl by lia.
      pose proof (tick_at_c07 loc dl dl ka nka ref H3) as T1.
      destruct (tick_at e loc dl dl ka nka) as [tr1 [[[dl1 ka1] nka1]|]]; [|exact T1].
      destruct T1 as (Hka & Hdl1 & id & Hka1 & Hrun). rewrite fire_on_time in Hdl1. subst dl1 ka1.
      destruct (Z.ltb_spec t (dl + P)) as [Hlt2|Hge2].
      + exists dl. split; [exact Hrun|]. pose proof P_gt. repeat split; lia.
      + assert (Hb : dl + P <= dl + P) by lia.
        pose proof (tick_at_c07 loc (dl + P) (dl + P) (Some id) nka1 dl Hb) as T2.
        destruct (tick_at e loc (dl + P) (dl + P) (Some id) nka1) as [tr2 [[[dl2 ka2] nka2]|]].
        * destruct T2 as (Hc & _). discriminate.
        * rewrite c07_run_app, Hrun. exact T2.
  Qed.

  Lemma err_kind_not_missed er : err_kind er <> KMissedKA.
  Proof. destruct er; discriminate. Qed.

  Lemma conf_frame_c07 info ka id body ref t :
    match conf_frame cfg info ka id body with
    | FCont ka' => c07_step (ref, ka) (t, TRecv id body) = Some (ref, ka')
    | FInfo _ => c07_step (ref, ka) (t, TRecv id body) = Some (ref, ka)
    | FEnd o => (exists st', c07_step (ref, ka) (t, TRecv id body) = Some st') /\ o <> OErr KMissedKA
    end.
  Proof.
    assert (Hany : exists st', c07_step (ref, ka) (t, TRecv id body) = Some st').
    { unfold c07_step. destruct (ka_echo id body) as [kid|]; [|eexists; reflexivity].
      destruct ka as [o|]; [|eexists; reflexivity]. destruct (o =? kid); eexists; reflexivity. }
    assert (Hne : forall er, OErr (err_kind er) <> OErr KMissedKA).
    { intros er H. inversion H as [H']. exact (err_kind_not_missed er H'). }
    unfold conf_frame.
    destruct (negb (len_ok cfg id body)); [split; [exact Hany | discriminate]|].
    destruct (id =? p_id configuration_sb_KeepAlivePacket) eqn:Eid.
    - unfold c07_step, ka_echo. rewrite Eid.
      destruct (dec vi vl (rkinds configuration_sb_KeepAlivePacket) body) as [[|[] [|? ?]] ?|];
        try (split; [eexists; reflexivity | first [discriminate | apply Hne]]).
      destruct ka as [o|]; [|reflexivity]. destruct (o =? z); reflexivity.
    - assert (Hnone : c07_step (ref, ka) (t, TRecv id body) = Some (ref, ka)).
      { unfold c07_step, ka_echo. rewrite Eid. reflexivity. }
      destruct (id =? p_id configuration_sb_ClientInformationPacket).
      + destruct (dec vi vl (rkinds configuration_sb_ClientInformationPacket) body);
          [destruct info; exact Hnone | split; [exact Hany | apply Hne]].
      + destruct ((id =? p_id configuration_sb_PluginMessagePacket)
                  || (id =? p_id configuration_sb_ResourcePackResponsePacket)
                  || (id =? p_id configuration_sb_CookieResponsePacket)); [|split; [exact Hany | discriminate]].
        match goal with |- context [dec vi vl ?k body] => destruct (dec vi vl k body) end;
          [exact Hnone | split; [exact Hany | apply Hne]].
  Qed.

  Theorem ka_loop_c07 : forall info loc hz ib now dl ka nka nnow ref,
    ref <= now -> now <= dl -> dl <= ref + P ->
    match ka_loop cfg e info loc hz ib now dl ka nka nnow with
    | (tr, KGot _ s') | (tr, KDone s') =>
        exists ref', c07_run (ref, ka) tr = Some (ref', s_ka s')
                     /\ ref' <= s_now s' /\ s_now s' <= s_dl s' /\ s_dl s' <= ref' + P
    | (tr, KEnd _) => c07_run (ref, ka) tr <> None
    end.
  Proof.
    intros info loc hz ib. induction ib as [|[t ev] rest IH]; intros now dl ka nka nnow ref H1 H2 H3.
    - cbn [ka_loop]. destruct hz as [h|].
      + pose proof (ticks_until_c07 loc now dl ka nka (h - 1) ref H1 H2 H3) as T.
        destruct (ticks_until e loc now dl ka nka (h - 1)) as [tr [[[dl' ka'] nka']|]]; [|exact T].
        destruct T as (ref' & Hr & A & B & C & D & E). exists ref'. cbn [s_ka s_now s_dl]. repeat split; try assumption; lia.
      + pose proof (ticks_until_c07 loc now dl ka nka (Z.max now dl + 2 * P) ref H1 H2 H3) as T.
        destruct (ticks_until e loc now dl ka nka (Z.max now dl + 2 * P)) as [tr [[[dl' ka'] nka']|]]; [|exact T].
        destruct T as (ref' & Hr & _). rewrite c07_run_app, Hr. cbn. discriminate.
    - cbn [ka_loop].
      destruct (match hz with Some h => h <=? Z.max t now | None => false end) eqn:Hb.
      + destruct hz as [h|]; [|discriminate].
        pose proof (ticks_until_c07 loc now dl ka nka (h - 1) ref H1 H2 H3) as T.
        destruct (ticks_until e loc now dl ka nka (h - 1)) as [tr [[[dl' ka'] nka']|]]; [|exact T].
        destruct T as (ref' & Hr & A & B & C & D & E). exists ref'. cbn [s_ka s_now s_dl]. repeat split; try assumption; lia.
      + pose proof (ticks_until_c07 loc now dl ka nka (Z.max t now) ref H1 H2 H3) as T.
        destruct (ticks_until e loc now dl ka nka (Z.max t now)) as [tr [[[dl' ka'] nka']|]]; [|exact T].
        destruct T as (ref' & Hr & A & B & C & D & E).
        destruct ev as [id body| |].
        * pose proof (conf_frame_c07 info ka' id body ref' (Z.max t now)) as F.
          destruct (conf_frame cfg info ka' id body) as [ka''|vs|o].
          -- assert (G1 : ref' <= Z.max t now) by lia.
             assert (G2 : Z.max t now <= dl') by lia.
             specialize (IH (Z.max t now) dl' ka'' nka' nnow ref' G1 G2 C).
             destruct (ka_loop cfg e info loc hz rest (Z.max t now) dl' ka'' nka' nnow) as [tr2 r].
             assert (Hpre : c07_run (ref, ka) (tr ++ (Z.max t now, TRecv id body) :: tr2) = c07_run (ref', ka'') tr2).
             { rewrite c07_run_app, Hr. cbn [c07_run]. rewrite F. reflexivity. }
             destruct r as [vs s'|s'|o]; rewrite Hpre; exact IH.
          -- exists ref'. cbn [s_ka s_now s_dl].
             rewrite c07_run_app, Hr. cbn [c07_run]. rewrite F. split; [reflexivity|]. repeat split; lia.
          -- destruct F as [[st' F] Hno]. rewrite c07_run_app, Hr. cbn [c07_run]. rewrite F.
             destruct st' as [r' o']. destruct o as [|k|]; cbn; try discriminate.
             destruct k; cbn; try discriminate. congruence.
        * rewrite c07_run_app, Hr. cbn. discriminate.
        * rewrite c07_run_app, Hr. cbn. discriminate.
  Qed.
End KA.
