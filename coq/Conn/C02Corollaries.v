(* C02 in plain terms, derived from the acceptance of the C02 monitor. *)
From Passage Require Import Lib.Bytes Codec.VarInt Codec.Desc Gen.PacketsGen Gen.ConstsGen
  Codec.PacketCheck Crypto.Cookie Conn.Types Conn.Prog Conn.Sem1 Conn.Monitor Conn.MonitorProofs
  Conn.Order Conn.OrderProofs Conn.Checks Conn.HistoryProofs Conn.TraceLib Conn.C06Corollaries.

(* the should_authenticate flag of an Encryption Request *)
Definition enc_flag (e : tev) : option bool :=
  match e with
  | TSend p [_; _; _; VBool b] => if is_pkt p login_cb_EncryptionRequestPacket then Some b else None
  | _ => None
  end.
(* the authentication service's answer *)
Definition auth_result (e : tev) : option cres :=
  match e with TRes (CAuth _ _ _ _ _ _ _ _) r => Some r | _ => None end.
(* a read of the wall clock *)
Definition now_read (e : tev) : option Z := match e with TNow n => Some n | _ => None end.

(* the authentication cookie was asked for *)
Definition auth_cookie_requested (pre : list tev) : Prop :=
  exists p k, In (TSend p [VB k]) pre /\ is_pkt p login_cb_CookieRequestPacket = true /\ k = auth_key_b.

Ltac inv_match H :=
  repeat match type of H with
         | context [match ?v with _ => _ end] => destruct v eqn:?; try discriminate H
         end.

Lemma hs_fields_rev pre proto host port st :
  hs_fields (rev pre) = Some (proto, host, port, st) <->
  exists i0 b0, nth_error (frames pre) 0 = Some (i0, b0)
    /\ dec_of handshake_sb_HandshakePacket b0 = Some [VZ proto; VB host; VZ port; VZ st].
Proof.
  unfold hs_fields. rewrite recvs_rev. split.
  - intros H. destruct (frames pre) as [|[i0 b0] r]; [discriminate|]. exists i0, b0. split; [reflexivity|].
    destruct (dec_of handshake_sb_HandshakePacket b0) as [vs|]; [|discriminate].
    inv_match H. inversion H; subst. reflexivity.
  - intros (i0 & b0 & Hn & Hd). destruct (frames pre) as [|[i b] r]; [discriminate|].
    cbn in Hn. inversion Hn; subst. rewrite Hd. reflexivity.
Qed.

Lemma auth_requested_rev pre : auth_requested (rev pre) = true <-> auth_cookie_requested pre.
Proof.
  unfold auth_requested.
  set (f := fun e => match e with
                     | TSend p [VB k] => if is_pkt p login_cb_CookieRequestPacket && beq k auth_key_b then Some tt else None
                     | _ => None end).
  change (find_ev f (rev pre)) with (latest f pre). split.
  - destruct (latest f pre) as [[]|] eqn:E; [|discriminate]. intros _.
    apply latest_spec in E as (pre1 & e & pre2 & -> & He & _).
    unfold f in He. inv_match He. subst.
    match goal with H : _ && _ = true |- _ => apply andb_true_iff in H as [H1 H2] end. apply beq_spec in H2.
    eexists _, _. split; [apply in_or_app; right; left; reflexivity|]. auto.
  - intros (p & k & Hin & Hp & ->). destruct (latest f pre) as [[]|] eqn:E; [reflexivity|]. exfalso.
    pose proof (proj1 (latest_none f pre) E _ Hin) as Hf. unfold f in Hf. rewrite Hp, beq_refl in Hf. discriminate.
Qed.

Lemma auth_payload_rev pre pl :
  auth_payload (rev pre) = Some pl <->
  auth_cookie_requested pre /\
  exists i3 b3 k, nth_error (frames pre) 3 = Some (i3, b3)
    /\ dec_of login_sb_CookieResponsePacket b3 = Some [VB k; VOpt (Some (VB pl))].
Proof.
  unfold auth_payload. rewrite recvs_rev. split.
  - intros H. destruct (auth_requested (rev pre)) eqn:Ea; [|discriminate]. split; [apply auth_requested_rev; exact Ea|].
    destruct (frames pre) as [|f0 [|f1 [|f2 [|[i3 b3] r]]]]; try discriminate. exists i3, b3.
    destruct (dec_of login_sb_CookieResponsePacket b3) as [vs|]; [|discriminate].
    inv_match H. inversion H; subst. eexists. split; reflexivity.
  - intros (Ha & i3 & b3 & k & Hn & Hd). apply auth_requested_rev in Ha. rewrite Ha.
    destruct (frames pre) as [|f0 [|f1 [|f2 [|[i b] r]]]]; try discriminate.
    cbn in Hn. inversion Hn; subst. rewrite Hd. reflexivity.
Qed.

Section C02.
  Variable o : oracles.
  Variable cfg : conn_cfg.
  Variable tr : list tev.

  Let chk := chk_c02 o cfg.
  Hypothesis Hacc : ok (step_with chk) m_init tr.
  Notation step := (step_with chk).

  (* what [cookie_accepted] means *)
  Lemma cookie_accepted_spec hh c :
    cookie_accepted o cfg hh = Some c <->
    exists proto host port s pl m now,
      hs_fields hh = Some (proto, host, port, 2) /\ cf_secret cfg = Some s /\ auth_payload hh = Some pl
      /\ verify pl s = (true, m) /\ o_parse_auth o m = JOk c /\ newest_now hh = Some now
      /\ sa_ip (ac_addr c) = sa_ip (cf_client cfg)
      /\ now <= Z.min (ac_ts c + cf_expiry cfg) (2 ^ 64 - 1).
  Proof.
    unfold cookie_accepted. split.
    - intros H. destruct (hs_fields hh) as [[[[proto host] port] st]|]; [|discriminate].
      destruct (cf_secret cfg) as [s|]; [|discriminate].
      destruct (auth_payload hh) as [pl|]; [|discriminate].
      destruct (st =? 2) eqn:Est; [|discriminate]. apply Z.eqb_eq in Est. subst st.
      destruct (verify pl s) as [okv m] eqn:Ev. destruct okv; [|discriminate].
      destruct (o_parse_auth o m) as [c'|] eqn:Ep; [|discriminate].
      destruct (newest_now hh) as [now|]; [|discriminate].
      destruct (beq (sa_ip (ac_addr c')) (sa_ip (cf_client cfg))) eqn:Eip; [|discriminate].
      destruct (now <=? Z.min (ac_ts c' + cf_expiry cfg) (2 ^ 64 - 1)) eqn:Eexp; [|discriminate].
      cbn in H. inversion H; subst c'. apply beq_spec in Eip. apply Z.leb_le in Eexp.
      exists proto, host, port, s, pl, m, now. auto 10.
    - intros (proto & host & port & s & pl & m & now & Hh & Hs & Hp & Hv & Hpa & Hn & Hip & Hexp).
      rewrite Hh, Hs, Hp, Z.eqb_refl, Hv, Hpa, Hn, Hip, beq_refl.
      apply Z.leb_le in Hexp. rewrite Hexp. reflexivity.
  Qed.

  (* The client presented a valid authentication cookie on the part [pre] of the connection:
     the handshake (first frame) declared intent Transfer (2), a cookie secret is configured,
     the authentication cookie was requested and the answer (fourth frame) carries a payload
     whose HMAC tag verifies under the secret and whose JSON parses to [c], [c] names the
     connecting client's IP, and at the latest clock read it had not expired (saturating at
     u64::MAX) *)
  Definition presented_cookie_valid (pre : list tev) (c : auth_cookie) : Prop :=
    exists proto host port s pl m now i0 b0 i3 b3 k,
      nth_error (frames pre) 0 = Some (i0, b0)
      /\ dec_of handshake_sb_HandshakePacket b0 = Some [VZ proto; VB host; VZ port; VZ 2]
      /\ cf_secret cfg = Some s
      /\ auth_cookie_requested pre
      /\ nth_error (frames pre) 3 = Some (i3, b3)
      /\ dec_of login_sb_CookieResponsePacket b3 = Some [VB k; VOpt (Some (VB pl))]
      /\ verify pl s = (true, m)
      /\ o_parse_auth o m = JOk c
      /\ sa_ip (ac_addr c) = sa_ip (cf_client cfg)
      /\ latest now_read pre = Some now
      /\ now <= Z.min (ac_ts c + cf_expiry cfg) (2 ^ 64 - 1).

  Lemma cookie_accepted_rev pre c :
    cookie_accepted o cfg (rev pre) = Some c <-> presented_cookie_valid pre c.
  Proof.
    rewrite cookie_accepted_spec. unfold presented_cookie_valid. split.
    - intros (proto & host & port & s & pl & m & now & Hh & Hs & Hp & Hv & Hpa & Hn & Hip & Hexp).
      apply hs_fields_rev in Hh as (i0 & b0 & Hn0 & Hd0).
      apply auth_payload_rev in Hp as (Ha & i3 & b3 & k & Hn3 & Hd3).
      exists proto, host, port, s, pl, m, now, i0, b0, i3, b3, k. auto 15.
    - intros (proto & host & port & s & pl & m & now & i0 & b0 & i3 & b3 & k
              & Hn0 & Hd0 & Hs & Ha & Hn3 & Hd3 & Hv & Hpa & Hip & Hn & Hexp).
      exists proto, host, port, s, pl, m, now.
      split; [apply hs_fields_rev; eauto|]. split; [exact Hs|].
      split; [apply auth_payload_rev; split; [exact Ha | eauto]|]. auto 10.
  Qed.

  Lemma presented_cookie_unique pre c c' :
    presented_cookie_valid pre c -> presented_cookie_valid pre c' -> c = c'.
  Proof. intros H H'. apply cookie_accepted_rev in H, H'. congruence. Qed.

  (* ---- the flag of the Encryption Request ---- *)
  (* authentication is skipped (flag false) exactly when a valid cookie was presented *)
  Theorem enc_request_flag pre p vs post :
    tr = pre ++ TSend p vs :: post -> is_pkt p login_cb_EncryptionRequestPacket = true ->
    exists a b t flag, vs = [a; b; t; VBool flag]
      /\ (flag = false <-> exists c, presented_cookie_valid pre c).
  Proof.
    intros Htr Hp.
    destruct (event_recorded chk _ _ _ _ Hacc Htr (pkt_not_internal _ _ _ Hp eq_refl)) as (st & q' & E & Hd & Hc & _).
    cbn [delta] in Hd. repeat rewrite (is_pkt_trans _ _ _ Hp) in Hd. cbn in Hd. unfold goto in Hd. split_ifs Hd.
    assert (Hq : q st = 25) by lia.
    unfold chk, chk_c02 in Hc. rewrite (early_hist chk _ _ E) in Hc by lia. rewrite Hp in Hc.
    destruct vs as [|a [|b [|t [|[] [|]]]]]; try discriminate. exists a, b, t, b0. split; [reflexivity|].
    destruct (cookie_accepted o cfg (rev pre)) as [c|] eqn:Ec.
    - destruct b0; [discriminate|]. split; [intros _|reflexivity]. exists c. apply cookie_accepted_rev. exact Ec.
    - destruct b0; [|discriminate]. split; [discriminate|]. intros (c & Hv). apply cookie_accepted_rev in Hv. congruence.
  Qed.

  (* ---- the identity of Login Success ---- *)
  (* Login Success carries the name and uuid of the authentication service's profile when the
     client was told to authenticate, and those inside the valid cookie when it was not *)
  Theorem login_success_identity pre p vs post :
    tr = pre ++ TSend p vs :: post -> is_pkt p login_cb_LoginSuccessPacket = true ->
    exists u n x, vs = [VZ u; VB n; x] /\
      ((latest enc_flag pre = Some true /\ exists ps, latest auth_result pre = Some (RProfile n u ps))
       \/ (latest enc_flag pre = Some false
           /\ exists c, presented_cookie_valid pre c /\ n = ac_name c /\ u = ac_uuid c)).
  Proof.
    intros Htr Hp.
    destruct (event_recorded chk _ _ _ _ Hacc Htr (pkt_not_internal _ _ _ Hp eq_refl)) as (st & q' & E & Hd & Hc & _).
    cbn [delta] in Hd. repeat rewrite (is_pkt_trans _ _ _ Hp) in Hd. cbn in Hd. unfold goto in Hd. split_ifs Hd.
    assert (Hq : q st = 30) by lia.
    unfold chk, chk_c02 in Hc. rewrite (early_hist chk _ _ E) in Hc by lia. rewrite (is_pkt_trans _ _ _ Hp), Hp in Hc.
    change (is_pkt login_cb_LoginSuccessPacket login_cb_EncryptionRequestPacket) with false in Hc. cbv iota in Hc.
    change (sent_flag (rev pre)) with (latest enc_flag pre) in Hc.
    change (res_of_auth (rev pre)) with (latest auth_result pre) in Hc.
    destruct vs as [|[u| | | |] [|[|n| | |] [|x [|]]]]; try discriminate.
    exists u, n, x. split; [reflexivity|].
    destruct (latest enc_flag pre) as [[|]|]; try discriminate.
    - left. split; [reflexivity|]. destruct (latest auth_result pre) as [[|n' u' ps| | | |]|]; try discriminate.
      apply andb_true_iff in Hc as [H1 H2]. apply beq_spec in H1. apply Z.eqb_eq in H2. subst. exists ps. reflexivity.
    - right. split; [reflexivity|]. destruct (cookie_accepted o cfg (rev pre)) as [c|] eqn:Ec; [|discriminate].
      apply andb_true_iff in Hc as [H1 H2]. apply beq_spec in H1. apply Z.eqb_eq in H2.
      exists c. split; [apply cookie_accepted_rev; exact Ec | auto].
  Qed.

  (* ---- nothing is granted without a verdict ---- *)
  (* Keep Alive, Store Cookie, Transfer and Disconnect - everything of the configuration phase -
     are only sent after a Login Success, which carried either the authentication service's
     profile (client told to authenticate) or the valid cookie's identity *)
  Theorem grant_needs_identity pre p vs post :
    tr = pre ++ TSend p vs :: post -> conf_pkt p = true ->
    exists preL pL u n x rest,
      pre = preL ++ TSend pL [VZ u; VB n; x] :: rest /\ is_pkt pL login_cb_LoginSuccessPacket = true /\
      ((latest enc_flag preL = Some true /\ exists ps, latest auth_result preL = Some (RProfile n u ps))
       \/ (latest enc_flag preL = Some false
           /\ exists c, presented_cookie_valid preL c /\ n = ac_name c /\ u = ac_uuid c)).
  Proof.
    intros Htr Hp. destruct (conf_after_login_success chk tr Hacc _ _ _ _ Htr Hp) as (preL & pL & vsL & rest & -> & HpL).
    assert (Htr' : tr = preL ++ TSend pL vsL :: (rest ++ TSend p vs :: post)).
    { rewrite Htr, <- app_assoc. reflexivity. }
    destruct (login_success_identity _ _ _ _ Htr' HpL) as (u & n & x & -> & Hid).
    exists preL, pL, u, n, x, rest. auto.
  Qed.

  (* the same read the other way: on a connection whose Encryption Request told the client to
     authenticate and on which the authentication service never returned a profile, neither
     Login Success nor any packet of the configuration phase (Keep Alive, Store Cookie,
     Transfer, Disconnect) is ever sent *)
  Theorem no_verdict_no_grant :
    (forall pE vsE, In (TSend pE vsE) tr -> is_pkt pE login_cb_EncryptionRequestPacket = true ->
                    exists a b t, vsE = [a; b; t; VBool true]) ->
    (forall c n u ps, ~ In (TRes c (RProfile n u ps)) tr) ->
    forall p vs, In (TSend p vs) tr -> is_pkt p login_cb_LoginSuccessPacket = false /\ conf_pkt p = false.
  Proof.
    intros Hflag Hnone.
    assert (Hls : forall pre p vs post, tr = pre ++ TSend p vs :: post -> is_pkt p login_cb_LoginSuccessPacket = true -> False).
    { intros pre p vs post Htr Hp.
      destruct (login_success_identity _ _ _ _ Htr Hp) as (u & n & x & -> & [[_ (ps & Ha)]|[Hf _]]).
      - apply latest_spec in Ha as (p1 & e & p2 & -> & He & _). unfold auth_result in He.
        destruct e; try discriminate. destruct c; try discriminate. injection He as ->.
        eapply Hnone. rewrite Htr. apply in_or_app. left. apply in_or_app. right. left. reflexivity.
      - apply latest_spec in Hf as (p1 & e & p2 & -> & He & _). unfold enc_flag in He.
        destruct e as [|pE vsE| | | | | | |]; try discriminate.
        destruct vsE as [|a [|b [|t [|[] [|]]]]]; try discriminate.
        destruct (is_pkt pE login_cb_EncryptionRequestPacket) eqn:HpE; [|discriminate]. injection He as ->.
        destruct (Hflag pE [a; b; t; VBool false]) as (a' & b' & t' & Heq); [|exact HpE|discriminate].
        rewrite Htr. apply in_or_app. left. apply in_or_app. right. left. reflexivity. }
    intros p vs Hin. apply in_split in Hin as (pre & post & Htr). split.
    - destruct (is_pkt p login_cb_LoginSuccessPacket) eqn:Hp; [exfalso; eapply Hls; eauto | reflexivity].
    - destruct (conf_pkt p) eqn:Hp; [exfalso | reflexivity].
      destruct (conf_after_login_success chk tr Hacc _ _ _ _ Htr Hp) as (preL & pL & vsL & rest & -> & HpL).
      eapply (Hls preL pL vsL); [|exact HpL]. rewrite Htr, <- app_assoc. reflexivity.
  Qed.

  (* the Encryption Request is sent at most once, so "the latest flag" is "the flag" *)
  Theorem enc_request_once a p1 vs1 b p2 vs2 c :
    tr = a ++ TSend p1 vs1 :: b ++ TSend p2 vs2 :: c ->
    is_pkt p1 login_cb_EncryptionRequestPacket = true -> is_pkt p2 login_cb_EncryptionRequestPacket = true -> False.
  Proof.
    intros Htr H1 H2.
    destruct (event_recorded chk _ _ _ _ Hacc Htr (pkt_not_internal _ _ _ H1 eq_refl)) as (st & q' & E & Hd & Hc & Hok).
    cbn [delta] in Hd. repeat rewrite (is_pkt_trans _ _ _ H1) in Hd. cbn in Hd. unfold goto in Hd. split_ifs Hd.
    injection Hd as <-.
    destruct (ok_split chk _ _ _ Hok) as (st2 & E2 & Hok2).
    destruct (first_event chk _ _ _ Hok2) as (q2 & Hd2 & _).
    - pose proof (run_mono chk _ _ _ E2) as Hm. cbn [q] in Hm.
      destruct (resting (q st2)) eqn:Er; [|reflexivity]. exfalso.
      destruct (ok_cons chk _ _ _ Hok2) as (st3 & Hs3 & _).
      destruct (step_cases chk _ _ _ Hs3) as [[Hi _]|(_ & q3 & Hd3 & _)].
      + apply internal_at_internal in Hi. rewrite (pkt_not_internal _ _ _ H2 eq_refl) in Hi. discriminate.
      + cbn [delta] in Hd3. repeat rewrite (is_pkt_trans _ _ _ H2) in Hd3. cbn in Hd3. unfold goto in Hd3. split_ifs Hd3.
        unfold resting in Er. lia.
    - pose proof (run_mono chk _ _ _ E2) as Hm. cbn [q] in Hm.
      cbn [delta] in Hd2. repeat rewrite (is_pkt_trans _ _ _ H2) in Hd2. cbn in Hd2. unfold goto in Hd2. split_ifs Hd2. lia.
  Qed.

  (* ---- a cookie that cannot be used never ends the connection ---- *)
  (* right after the answer to the authentication Cookie Request was read (and the clock, if
     the cookie got that far) the connection does not end with a JSON error *)
  Theorem unusable_cookie_not_fatal pre0 p vs b nows post :
    tr = pre0 ++ TSend p vs :: TRecv 4 b :: nows ++ TEnd (OErr KJson) :: post ->
    is_pkt p login_cb_CookieRequestPacket = true -> key_of vs = auth_key_b ->
    (forall x, In x nows -> exists n, x = TNow n) -> False.
  Proof.
    intros Htr Hp Hk Hnows.
    destruct (event_recorded chk _ _ _ _ Hacc Htr (pkt_not_internal _ _ _ Hp eq_refl)) as (st & q' & E & Hd & _ & Hok).
    cbn [delta] in Hd. repeat rewrite (is_pkt_trans _ _ _ Hp) in Hd. rewrite Hk in Hd. cbn in Hd. unfold goto in Hd. split_ifs Hd.
    injection Hd as <-.
    destruct (first_event chk _ _ _ Hok eq_refl) as (q1 & Hd1 & _ & Hok1). cbn in Hd1. injection Hd1 as <-.
    assert (Hrun : forall l st0, q st0 = 24 -> (forall x, In x l -> exists n, x = TNow n) ->
                   ok step st0 (l ++ TEnd (OErr KJson) :: post) -> False).
    { induction l as [|x l IH]; intros st0 Hq0 Hl Hok0.
      - cbn [app] in Hok0. destruct (first_event chk _ _ _ Hok0) as (q2 & _ & Hc2 & _); [rewrite Hq0; reflexivity|].
        unfold chk, chk_c02 in Hc2. rewrite Hq0 in Hc2. discriminate.
      - destruct (Hl x (or_introl eq_refl)) as (n & ->). cbn [app] in Hok0.
        destruct (first_event chk _ _ _ Hok0) as (q2 & Hd2 & _ & Hok2); [rewrite Hq0; reflexivity|].
        rewrite Hq0 in Hd2. cbn in Hd2. injection Hd2 as <-.
        eapply IH; [| |exact Hok2]; [reflexivity|]. intros y Hy. apply Hl. right. exact Hy. }
    eapply Hrun; [| exact Hnows | exact Hok1]. reflexivity.
  Qed.
End C02.
